(* C17 -- lemmas about the model of the grid decorators (Model/C17.v). *)
From Coq Require Import ZArith List Bool Reals Lra Lia Arith QArith.
From PAV Require Import Base.Res Base.Check Base.NumOps Model.C17.
Import ListNotations.

(* ====================================================================== part 1: the mirror table, any number type *)
Section Generic.
  Context {O : NumOps}.
  Notation T := (T O).
  Implicit Types (g : @grid O) (r : @res1 O) (l : list (@res1 O)) (m : @mask2 O) (cs : list (@pt O))
           (f : @grid O -> res (@result O)) (d : maker).

  Lemma slim1_all_unmasked (r : list bool) (v : list T) :
    forallb negb r = true -> length v = length r -> slim1 r v = v.
  Proof.
    revert v; induction r as [|b r IH]; intros [|a v] H L; simpl in *; try discriminate; auto.
    apply andb_prop in H as [Hb H]. destruct b; [discriminate|]. f_equal. apply IH; auto.
  Qed.
  Lemma filter_len_le {A} (h : A -> bool) (l : list A) : (length (filter h l) <= length l)%nat.
  Proof. induction l as [|a l IH]; simpl; auto. destruct (h a); simpl; lia. Qed.
  Lemma count1_full (r : list bool) : count1 r = length r -> forallb negb r = true.
  Proof.
    unfold count1. induction r as [|b r IH]; simpl; auto. destruct b; simpl.
    - intros H. pose proof (filter_len_le negb r). lia.
    - intros H. apply IH. lia.
  Qed.

  (* via_grid_* : when the result fits, the constructor checks pass and the container is the mirror of the grid *)
  Lemma wrap1_mirror d g r : fits d g r = true -> wrap1 d g r = Ok (mirror_of d g r).
  Proof.
    unfold fits. intros H. apply andb_prop in H as [H Hg]. apply andb_prop in H as [Hk Hn].
    destruct g as [m cs|cs|m xs|cs], d, r as [v|p]; simpl in *; try discriminate; try reflexivity;
      unfold mk_array2d, mk_grid2d, mk_vector2d, mk_array1d; simpl in *;
      try (rewrite Hn; try rewrite Hg; reflexivity).
    - (* Array1D: an input as long as the mask is native; then the mask has no masked pixel *)
      destruct (Nat.eqb (length v) (length (bits1 m))) eqn:E; [|reflexivity].
      apply Nat.eqb_eq in E, Hn. rewrite slim1_all_unmasked; auto. apply count1_full. lia.
    - (* Grid1D through to_grid: the (1 x n) mask has as many unmasked pixels as the 1-D mask *)
      unfold count2. simpl. rewrite app_nil_r. fold (count1 (bits1 m)). rewrite Hn. reflexivity.
  Qed.

  Lemma mapM_ok {A B} (k : A -> res B) (h : A -> B) (l : list A) :
    (forall a, In a l -> k a = Ok (h a)) -> mapM k l = Ok (map h l).
  Proof.
    induction l as [|a l IH]; intros H; simpl; auto.
    rewrite (H a (or_introl eq_refl)). simpl. rewrite IH; auto. intros; apply H; right; auto.
  Qed.

  Lemma maker_one d f g r :
    f (eval_arg g) = Ok (One r) -> fits d g r = true -> maker_result d f g = Ok (OOne (mirror_of d g r)).
  Proof. intros Hf Hfit. unfold maker_result. rewrite Hf. simpl. rewrite wrap1_mirror; auto. Qed.

  Lemma maker_many d f g l :
    f (eval_arg g) = Ok (Many l) -> forallb (fits d g) l = true -> l <> [] ->
    maker_result d f g = Ok (OMany (map (mirror_of d g) l)).
  Proof.
    intros Hf Hfit Hne. unfold maker_result. rewrite Hf. simpl.
    assert (M : mapM (wrap1 d g) l = Ok (map (mirror_of d g) l)).
    { apply mapM_ok. intros a Ha. apply wrap1_mirror. rewrite forallb_forall in Hfit. auto. }
    destruct g as [m cs|cs|m xs|cs], d; try (rewrite M; reflexivity).
    (* Grid1D through to_vector_yx: no result fits *)
    destruct l as [|r l]; [congruence|]. simpl in Hfit. apply andb_prop in Hfit as [H _].
    unfold fits in H. destruct r; simpl in H; rewrite ?andb_false_r in H; discriminate.
  Qed.

  Lemma maker_error d f g e : f (eval_arg g) = Raise e -> maker_result d f g = Raise e.
  Proof. intros H. unfold maker_result. rewrite H. reflexivity. Qed.

  (* what the mirror is: same mask, entry k = result k, the vector field carries the input coordinates *)
  Lemma mirror_entries d g r : fits d g r = true -> entries (mirror_of d g r) = r.
  Proof.
    unfold fits. intros H. apply andb_prop in H as [H _]. apply andb_prop in H as [Hk _].
    destruct g, d, r; simpl in *; try discriminate; reflexivity.
  Qed.
  Lemma mirror_mask_2d d m cs r : fits d (G2D m cs) r = true -> on_mask2 (mirror_of d (G2D m cs) r) = Some m.
  Proof.
    unfold fits. intros H. apply andb_prop in H as [H _]. apply andb_prop in H as [Hk _].
    destruct d, r; simpl in *; try discriminate; reflexivity.
  Qed.
  Lemma mirror_vector_grid g r : fits ToVector g r = true -> attached_grid (mirror_of ToVector g r) = Some (coords_of g).
  Proof.
    unfold fits. intros H. apply andb_prop in H as [H Hg]. apply andb_prop in H as [Hk _].
    destruct g, r; simpl in *; try discriminate; reflexivity.
  Qed.
  Lemma mirror_mask_1d (m : @mask1 O) xs v : on_mask1 (mirror_of ToArray (G1D m xs) (Vals v)) = Some m.
  Proof. reflexivity. Qed.
  Lemma mirror_size d g r : fits d g r = true -> res1_size (entries (mirror_of d g r)) = n_points g.
  Proof.
    intros H. rewrite mirror_entries; auto. unfold fits in H. apply andb_prop in H as [H _].
    apply andb_prop in H as [_ Hn]. apply Nat.eqb_eq in Hn. exact Hn.
  Qed.

  (* a plain ndarray comes back as the function returned it; Grid1D through to_vector_yx is not implemented *)
  Lemma maker_raw d f cs r : f (GRaw cs) = Ok (One r) -> maker_result d f (GRaw cs) = Ok (OOne (RawOne r)).
  Proof. intros H. unfold maker_result. simpl. rewrite H. destruct d, r; reflexivity. Qed.
  Lemma maker_vector_1d f (m : @mask1 O) xs (r : @result O) : f (eval_arg (G1D m xs)) = Ok r -> maker_result ToVector f (G1D m xs) = Raise OtherException.
  Proof. intros H. unfold maker_result. rewrite H. destruct r as [r|l]; simpl; [destruct r|]; reflexivity. Qed.

  (* a result of the wrong length on a uniform grid is refused, not silently re-paired *)
  Lemma maker_wrong_length_2d f m cs v :
    f (G2D m cs) = Ok (One (Vals v)) -> length v <> count2 (bits2 m) ->
    maker_result ToArray f (G2D m cs) = Raise ArrayException.
  Proof.
    intros Hf Hn. unfold maker_result. simpl. rewrite Hf. simpl. unfold mk_array2d.
    apply Nat.eqb_neq in Hn. rewrite Hn. reflexivity.
  Qed.

  (* ---------------------------------------------------------------- transform *)
  Lemma transform_once {A} (tf : @grid O -> @grid O) (f : bool -> @grid O -> A) g :
    transform tf (transform tf f) false g = f true (tf g).
  Proof. reflexivity. Qed.
  Lemma transform_flag {A} (tf : @grid O -> @grid O) (f : bool -> @grid O -> A) g : transform tf f true g = f true g.
  Proof. reflexivity. Qed.

  (* ---------------------------------------------------------------- the stack = argument computation, then the function, then the mirror *)
  Lemma stack_decompose d rmin c a nested f g :
    stack d rmin c a nested f g = bind (stack_arg rmin c a nested g) (fun x => bind (f x) (wrap d g)).
  Proof.
    unfold stack, stack_arg, maker_result, inner, transform, relocate. simpl.
    destruct nested; simpl.
    - destruct (relocate_arg rmin euclid (frame_tf c a (eval_arg g))) as [g1|e]; simpl; [|reflexivity].
      destruct (relocate_arg rmin euclid g1); reflexivity.
    - destruct (relocate_arg rmin euclid (frame_tf c a (eval_arg g))); reflexivity.
  Qed.

  (* the radial-minimum step keeps the length and the container *)
  Lemma moved_length (rmin : T) cs (rs : list T) : length rs = length cs -> length (moved rmin cs rs) = length cs.
  Proof. revert rs; induction cs as [|p cs IH]; intros [|r rs] H; simpl in *; try discriminate; auto. Qed.
  Lemma moved_nth (rmin : T) cs (rs : list T) k (d : @pt O) dr :
    length rs = length cs -> (k < length cs)%nat ->
    nth k (moved rmin cs rs) d = moved_pt rmin (nth k cs d) (nth k rs dr).
  Proof.
    revert rs k; induction cs as [|p cs IH]; intros [|r rs] k H Hk; simpl in *; try discriminate; try lia.
    destruct k; auto. apply IH; lia.
  Qed.
End Generic.

(* ====================================================================== part 2: real numbers *)
Local Open Scope R_scope.
Notation ptR := (@pt ROps).
Notation mask2R := (@mask2 ROps).

Ltac rsimp := cbn [add sub mul div opp ofZ leb ltb eqb floorZ sqrtT ROps T fst snd] in *.

(* ---------------------------------------------------------------- Grid2D.from_mask = closed-form pixel centres *)
Definition row_px (y x0 : nat) (r : list bool) : list (nat * nat) :=
  map (fun xb => (y, fst xb)) (filter (fun xb : nat * bool => negb (snd xb)) (combine (seq x0 (length r)) r)).
Definition loop_pt (c ps : ptR) (p : nat * nat) : ptR :=
  (- (IZR (Z.of_nat (fst p)) - fst c) * fst ps, (IZR (Z.of_nat (snd p)) - snd c) * snd ps).

Lemma row_pts_spec (c ps : ptR) y r : forall x0,
  @row_pts ROps c ps (Z.of_nat y) r (Z.of_nat x0) = map (loop_pt c ps) (row_px y x0 r).
Proof.
  induction r as [|b r IH]; intros x0; [reflexivity|].
  unfold row_px. cbn [row_pts length seq combine filter snd].
  replace (Z.of_nat x0 + 1)%Z with (Z.of_nat (S x0)) by lia.
  destruct b; cbn [negb map fst]; rewrite IH; unfold row_px; [reflexivity|].
  f_equal.
Qed.

Lemma rows_pts_spec (c ps : ptR) b : forall y0,
  @rows_pts ROps c ps b (Z.of_nat y0) =
  map (loop_pt c ps) (concat (map (fun yr : nat * list bool => row_px (fst yr) 0 (snd yr)) (combine (seq y0 (length b)) b))).
Proof.
  induction b as [|r b IH]; intros y0; [reflexivity|].
  cbn [rows_pts length seq combine map concat fst snd].
  replace (Z.of_nat y0 + 1)%Z with (Z.of_nat (S y0)) by lia.
  rewrite IH, map_app. f_equal. apply (row_pts_spec c ps y0 r 0%nat).
Qed.

Lemma unmasked_px_rows b :
  unmasked_px b = concat (map (fun yr : nat * list bool => row_px (fst yr) 0 (snd yr)) (combine (seq 0 (length b)) b)).
Proof. reflexivity. Qed.

Lemma grid_via_mask_spec (m : mask2R) :
  fst (ps2 m) <> 0 -> snd (ps2 m) <> 0 -> grid_via_mask m = spec_centres m.
Proof.
  intros Hy Hx. unfold grid_via_mask, spec_centres. rewrite unmasked_px_rows.
  rewrite (rows_pts_spec _ _ (bits2 m) 0%nat). apply map_ext. intros [y x].
  unfold loop_pt, pixel_centre, centres_scaled, ofNat, two. rsimp. f_equal; field; assumption.
Qed.

Lemma grid_via_mask_length {O : NumOps} (m : @mask2 O) : length (grid_via_mask m) = count2 (bits2 m).
Proof.
  unfold grid_via_mask, count2. generalize (centres_scaled m) (ps2 m) 0%Z. intros c ps.
  induction (bits2 m) as [|r b IH]; intros y; [reflexivity|].
  cbn [rows_pts concat]. rewrite app_length, filter_app, app_length, IH. f_equal.
  generalize 0%Z. induction r as [|x r IHr]; intros x0; [reflexivity|].
  cbn [row_pts filter]. destruct x; cbn [negb length]; rewrite IHr; reflexivity.
Qed.

(* ---------------------------------------------------------------- the radially projected line *)
Lemma line_spec n (cy ps : R) : forall x0,
  @line ROps n cy x0 ps = map (fun k => (cy, x0 + IZR (Z.of_nat k) * ps)) (seq 0 n).
Proof.
  induction n as [|n IH]; intros x0; [reflexivity|].
  cbn [line seq map]. rewrite IH. rsimp. f_equal.
  - f_equal. simpl. lra.
  - rewrite <- seq_shift, map_map. apply map_ext. intros k. f_equal.
    rewrite Nat2Z.inj_succ, succ_IZR. lra.
Qed.

Lemma projected_2d_line (m : mask2R) (c ang : ptR) rc :
  projected_2d m c ang rc =
  spec_line c ang (snd (radial_scale m c)) (Z.to_nat (radial_shape m c)) rc.
Proof.
  unfold projected_2d, radial_line, radial_shape, spec_line.
  destruct (radial_scale m c) as [sd ps] eqn:E. cbn [snd].
  rewrite line_spec, !map_map.
  set (n := Z.to_nat (trunc (div ROps sd ps) + 1)).
  assert (P : forall k, from_ref c ang0 (to_ref c ang (fst c, snd c + IZR (Z.of_nat k) * ps)) = spec_line_pt c ang ps k).
  { intros k. unfold from_ref, to_ref, spec_line_pt, ang0, one, zero, ofNat. rsimp. f_equal; ring. }
  destruct rc.
  - destruct n as [|n]; [reflexivity|]. cbn [seq map tl]. replace (S n - 1)%nat with n by lia.
    rewrite <- seq_shift, !map_map. apply map_ext. intros k. apply P.
  - apply map_ext. intros k. apply P.
Qed.

Lemma maxT_R a b : @maxT ROps a b = Rmax a b.
Proof.
  unfold maxT. rsimp. unfold Rmax. destruct (Rltb a b) eqn:E; rbool; destruct (Rle_dec a b); lra.
Qed.
Lemma absT_R a : @absT ROps a = Rabs a.
Proof.
  unfold absT, zero. rsimp. unfold Rabs. destruct (Rltb a 0) eqn:E; rbool; destruct (Rcase_abs a); lra.
Qed.

Lemma Rmax_cases a b : (a <= b /\ Rmax a b = b) \/ (b < a /\ Rmax a b = a).
Proof. unfold Rmax. destruct (Rle_dec a b); [left|right]; split; lra. Qed.
Ltac rmax1 :=
  match goal with
  | |- context [Rmax ?a ?b] =>
      lazymatch a with
      | context [Rmax _ _] => fail
      | _ => lazymatch b with
             | context [Rmax _ _] => fail
             | _ => let E := fresh "E" in destruct (Rmax_cases a b) as [[? E]|[? E]]; rewrite E in *; clear E
             end
      end
  end.

Lemma radial_scale_spec (m : mask2R) (c : ptR) :
  0 < fst (ps2 m) -> 0 < snd (ps2 m) ->
  radial_scale m c = (spec_far m c, spec_step m c).
Proof.
  destruct m as [bits [psy psx] [oy ox]]. destruct c as [cy cx]. cbn [ps2 fst snd]. intros Hy Hx.
  unfold radial_scale, extent, pymax, spec_far, spec_step, spec_along_y, spec_reach, spec_halfspan.
  cbn [hd tl fold_left]. rewrite !maxT_R, !absT_R. unfold two, zero, ofNat, rows2, cols2. cbn [bits2 ps2 org2]. rsimp.
  generalize (IZR (Z.of_nat (length bits))) (IZR (Z.of_nat (length (hd [] bits)))). intros nh nw.
  set (hy := psy * nh / 2). set (hx := psx * nw / 2).
  set (sd := Rmax (Rmax (Rmax (hx + ox - cx) (hy + oy - cy)) (cx - (- hx + ox))) (cy - (- hy + oy))).
  assert (Ry : hy + Rabs (cy - oy) = Rmax (hy + oy - cy) (cy - (- hy + oy))).
  { unfold Rmax, Rabs. destruct (Rcase_abs (cy - oy)); destruct (Rle_dec (hy + oy - cy) (cy - (- hy + oy))); lra. }
  assert (Rx : hx + Rabs (cx - ox) = Rmax (hx + ox - cx) (cx - (- hx + ox))).
  { unfold Rmax, Rabs. destruct (Rcase_abs (cx - ox)); destruct (Rle_dec (hx + ox - cx) (cx - (- hx + ox))); lra. }
  assert (S : sd = Rmax (hy + Rabs (cy - oy)) (hx + Rabs (cx - ox))).
  { rewrite Ry, Rx. unfold sd. repeat rmax1; lra. }
  destruct (Rleb (hx + Rabs (cx - ox)) (hy + Rabs (cy - oy))) eqn:L; rbool.
  - assert (sd = hy + Rabs (cy - oy)) by (rewrite S; unfold Rmax; destruct (Rle_dec _ _); lra).
    f_equal; [assumption|].
    assert (D : sd = hy + oy - cy \/ sd = cy - (- hy + oy)).
    { rewrite H, Ry. unfold Rmax. destruct (Rle_dec _ _); auto. }
    destruct D as [D|D].
    + replace (Reqb sd (hy + oy - cy)) with true; [reflexivity|]. symmetry. apply Reqb_true. exact D.
    + replace (Reqb sd (cy - (- hy + oy))) with true; [rewrite orb_true_r; reflexivity|]. symmetry. apply Reqb_true. exact D.
  - assert (sd = hx + Rabs (cx - ox)) by (rewrite S; unfold Rmax; destruct (Rle_dec _ _); lra).
    f_equal; [assumption|].
    assert (N1 : sd <> hy + oy - cy).
    { intros E. assert (hy + oy - cy <= hy + Rabs (cy - oy)) by (rewrite Ry; apply Rmax_l). lra. }
    assert (N2 : sd <> cy - (- hy + oy)).
    { intros E. assert (cy - (- hy + oy) <= hy + Rabs (cy - oy)) by (rewrite Ry; apply Rmax_r). lra. }
    apply Reqb_false in N1, N2. rewrite N1, N2. reflexivity.
Qed.

Lemma spec_far_nonneg (m : mask2R) (c : ptR) : 0 < fst (ps2 m) -> 0 < snd (ps2 m) -> 0 <= spec_far m c.
Proof.
  destruct m as [bits [psy psx] [oy ox]]. destruct c as [cy cx]. cbn [ps2 fst snd]. intros Hy Hx.
  unfold spec_far, spec_along_y, spec_reach, spec_halfspan. rewrite !absT_R. unfold two, ofNat, rows2, cols2.
  cbn [bits2 ps2 org2]. rsimp.
  assert (A : 0 <= IZR (Z.of_nat (length bits))) by (apply IZR_le; lia).
  assert (B : 0 <= IZR (Z.of_nat (length (hd [] bits)))) by (apply IZR_le; lia).
  revert A B. generalize (IZR (Z.of_nat (length bits))) (IZR (Z.of_nat (length (hd [] bits)))). intros nh nw A B.
  pose proof (Rabs_pos (cy - oy)). pose proof (Rabs_pos (cx - ox)).
  assert (0 <= psy * nh / 2) by (apply Rmult_le_pos; [apply Rmult_le_pos|]; lra).
  assert (0 <= psx * nw / 2) by (apply Rmult_le_pos; [apply Rmult_le_pos|]; lra).
  destruct (Rleb _ _); lra.
Qed.
Lemma spec_step_pos (m : mask2R) (c : ptR) : 0 < fst (ps2 m) -> 0 < snd (ps2 m) -> 0 < spec_step m c.
Proof. intros. unfold spec_step. destruct (spec_along_y m c); assumption. Qed.

Lemma projected_2d_spec (m : mask2R) (c ang : ptR) rc :
  0 < fst (ps2 m) -> 0 < snd (ps2 m) -> projected_2d m c ang rc = spec_projected m c ang rc.
Proof.
  intros Hy Hx. rewrite projected_2d_line. unfold spec_projected, radial_shape, spec_count.
  rewrite radial_scale_spec by assumption. cbn [snd]. f_equal. f_equal. f_equal.
  rewrite trunc_R_nonneg; [reflexivity|]. rsimp.
  apply Rmult_le_pos; [apply spec_far_nonneg; assumption|].
  apply Rlt_le, Rinv_0_lt_compat, spec_step_pos; assumption.
Qed.

Lemma spec_line_length (c ang : ptR) step n rc :
  length (spec_line c ang step n rc) = if rc then (n - 1)%nat else n.
Proof. unfold spec_line. rewrite map_length, seq_length. reflexivity. Qed.
Lemma spec_line_nth (c ang : ptR) step n k d : (k < n)%nat ->
  nth k (spec_line c ang step n false) d = spec_line_pt c ang step k.
Proof.
  intros H. unfold spec_line.
  rewrite (nth_indep _ d (spec_line_pt c ang step 0%nat)) by (rewrite map_length, seq_length; exact H).
  rewrite map_nth, seq_nth by exact H. reflexivity.
Qed.
Lemma spec_line_nth_removed (c ang : ptR) step n k d : (S k < n)%nat ->
  nth k (spec_line c ang step n true) d = spec_line_pt c ang step (S k).
Proof.
  intros H. unfold spec_line.
  rewrite (nth_indep _ d (spec_line_pt c ang step 0%nat)) by (rewrite map_length, seq_length; lia).
  rewrite map_nth, seq_nth by lia. reflexivity.
Qed.

Lemma projected_1d_spec (xs : list R) (ang : ptR) :
  @projected_1d ROps xs ang = map (fun x => (- (x * snd ang), x * fst ang)) xs.
Proof. unfold projected_1d. apply map_ext. intros x. unfold to_ref, zero. rsimp. f_equal; ring. Qed.
Lemma eval_arg_1d (m : @mask1 ROps) (xs : list R) : eval_arg (G1D m xs) = GIrr (map (fun x : R => ((0, x) : ptR)) xs).
Proof.
  unfold eval_arg. rewrite projected_1d_spec. f_equal. apply map_ext. intros x. unfold ang0, one, zero. rsimp. f_equal; ring.
Qed.

(* ---------------------------------------------------------------- the rotation: the angle-difference identity *)
Lemma rotation_identity (c p : ptR) (r theta a : R) :
  snd p - snd c = r * cos theta -> fst p - fst c = r * sin theta ->
  to_ref c (cos a, sin a) p = (r * sin (theta - a), r * cos (theta - a)).
Proof.
  intros Hx Hy. unfold to_ref. rsimp. rewrite Hx, Hy, sin_minus, cos_minus. f_equal; ring.
Qed.
Lemma to_ref_norm2 (c a p : ptR) :
  fst a * fst a + snd a * snd a = 1 ->
  norm2 (to_ref c a p) = (fst p - fst c) * (fst p - fst c) + (snd p - snd c) * (snd p - snd c).
Proof.
  destruct c as [cy cx], a as [ca sa], p as [y x]. cbn [fst snd]. intros U. unfold norm2, to_ref, sq. rsimp.
  transitivity (((y - cy) * (y - cy) + (x - cx) * (x - cx)) * (ca * ca + sa * sa)); [ring|].
  rewrite U. ring.
Qed.

Notation radR := (@radius ROps).
(* ---------------------------------------------------------------- radial minimum, one coordinate *)
Lemma moved_far (rmin r : R) (p : ptR) : rmin <= r -> @moved_pt ROps rmin p r = p.
Proof.
  intros H. destruct p as [y x]. unfold moved_pt, one. rsimp. destruct (Rltb r rmin) eqn:E; rbool; [lra|].
  f_equal; ring.
Qed.
Lemma moved_near (rmin r : R) (p : ptR) : 0 < r < rmin ->
  @moved_pt ROps rmin p r = (fst p * (rmin / r), snd p * (rmin / r)).
Proof.
  intros [H0 H]. unfold moved_pt, zero. rsimp. destruct (Rltb r rmin) eqn:E; rbool; [|lra].
  destruct (Reqb r 0) eqn:E0; rbool; [lra|reflexivity].
Qed.
Lemma moved_centre (rmin : R) : 0 < rmin -> @moved_pt ROps rmin (0, 0) 0 = (rmin, rmin).
Proof.
  intros H. unfold moved_pt, nan_fix, zero. rsimp. destruct (Rltb 0 rmin) eqn:E; rbool; [|lra].
  destruct (Reqb 0 0) eqn:E0; rbool; [reflexivity|lra].
Qed.

Lemma radius_scaled (p : ptR) (k : R) : 0 <= k -> radR (fst p * k, snd p * k) = k * radR p.
Proof.
  destruct p as [y x]. cbn [fst snd]. intros Hk. unfold radius, norm2, sq. rsimp.
  replace (y * k * (y * k) + x * k * (x * k)) with (k * k * (y * y + x * x)) by ring.
  rewrite sqrt_mult_alt by nra. rewrite sqrt_square by assumption. reflexivity.
Qed.
Lemma moved_near_radius (rmin : R) (p : ptR) : 0 < radR p < rmin ->
  radR (@moved_pt ROps rmin p (radR p)) = rmin.
Proof.
  intros H. rewrite moved_near by assumption.
  rewrite radius_scaled by (apply Rlt_le, Rdiv_lt_0_compat; lra).
  change (T ROps) with R in *. field. lra.
Qed.
Lemma radius_zero_iff (p : ptR) : radR p = 0 <-> p = (0, 0).
Proof.
  unfold radius, norm2, sq. rsimp. destruct p as [y x]. cbn [fst snd]. split.
  - intros H. apply sqrt_eq_0 in H; [|nra]. assert (y = 0) by nra. assert (x = 0) by nra. subst. reflexivity.
  - intros H. inversion H. subst. replace (0 * 0 + 0 * 0) with 0 by ring. apply sqrt_0.
Qed.
Lemma radius_nonneg (p : ptR) : 0 <= radR p.
Proof. unfold radius. rsimp. apply sqrt_pos. Qed.

(* every coordinate other than the centre ends at radR >= rmin; the centre itself at sqrt 2 * rmin *)
Lemma moved_radius_ge (rmin : R) (p : ptR) : p <> (0, 0) -> rmin <= radR (@moved_pt ROps rmin p (radR p)).
Proof.
  intros Hp. pose proof (radius_nonneg p) as H0.
  assert (radR p <> 0) by (intros E; apply radius_zero_iff in E; contradiction).
  destruct (Rle_dec rmin (radR p)).
  - rewrite moved_far; assumption.
  - rewrite moved_near_radius; lra.
Qed.
Lemma centre_radius (rmin : R) : 0 < rmin -> radR (@moved_pt ROps rmin (0, 0) 0) = sqrt 2 * rmin.
Proof.
  intros H. rewrite moved_centre by assumption. unfold radius, norm2, sq. rsimp.
  replace (rmin * rmin + rmin * rmin) with (2 * (rmin * rmin)) by ring.
  rewrite sqrt_mult_alt by lra. rewrite sqrt_square by lra. reflexivity.
Qed.
Lemma sqrt2_neq_1 : sqrt 2 <> 1.
Proof. intros E. assert (sqrt 2 * sqrt 2 = 2) by (apply sqrt_sqrt; lra). rewrite E in H. lra. Qed.
Lemma centre_refuted : exists (rmin : R) (p : ptR),
  0 < rmin /\ radR p < rmin /\ radR (@moved_pt ROps rmin p (radR p)) <> rmin.
Proof.
  exists (5 / 2), (0, 0).
  assert (Z : radR ((0, 0) : ptR) = 0) by (apply radius_zero_iff; reflexivity).
  rewrite Z. split; [lra|]. split; [lra|]. rewrite centre_radius by lra.
  intros E. apply sqrt2_neq_1. nra.
Qed.

(* ---------------------------------------------------------------- radial minimum on a whole grid *)
Lemma euclid_spec (g : @grid ROps) : euclid g = map radR (coords_of g).
Proof. reflexivity. Qed.

Lemma relocate_arg_ok (rmin : R) (g : @grid ROps) :
  (forall m xs, g <> G1D m xs) ->
  @relocate_arg ROps (Some rmin) euclid g = Ok (with_new_array g (@moved ROps rmin (coords_of g) (map radR (coords_of g)))).
Proof. intros H. unfold relocate_arg. rewrite euclid_spec. destruct g; try reflexivity. exfalso. eapply H; reflexivity. Qed.

Lemma moved_euclid_nth (rmin : R) (cs : list ptR) k d : (k < length cs)%nat ->
  nth k (@moved ROps rmin cs (map radR cs)) d = @moved_pt ROps rmin (nth k cs d) (radR (nth k cs d)).
Proof.
  intros H. rewrite (@moved_nth ROps rmin cs (map radR cs) k d (radR d)); [|apply map_length|exact H].
  rewrite map_nth. reflexivity.
Qed.

(* ====================================================================== part 3: the statements of Props/C17.v *)

(* ---- uniform grid built from a mask, pointwise function: entry k is the function at the centre of the k-th unmasked pixel *)
Lemma from_mask_entry_k (h : ptR -> R) (m : mask2R) :
  fst (ps2 m) <> 0 -> snd (ps2 m) <> 0 ->
  maker_result ToArray (fun g : @grid ROps => Ok (One (@Vals ROps (map h (coords_of g))))) (grid2d_from_mask m)
  = Ok (OOne (@Array2D ROps m (map (fun px => h (pixel_centre m px)) (unmasked_px (bits2 m))))).
Proof.
  intros Hy Hx. unfold grid2d_from_mask.
  rewrite (maker_one ToArray _ _ (@Vals ROps (map h (grid_via_mask m)))); [|reflexivity|].
  - cbn [mirror_of]. rewrite grid_via_mask_spec by assumption. unfold spec_centres. rewrite map_map. reflexivity.
  - unfold fits. cbn [res1_size n_points]. rewrite map_length, grid_via_mask_length, !Nat.eqb_refl. reflexivity.
Qed.
Lemma from_mask_pairs_entry_k (d : maker) (h : ptR -> ptR) (m : mask2R) :
  d <> ToArray -> fst (ps2 m) <> 0 -> snd (ps2 m) <> 0 ->
  maker_result d (fun g : @grid ROps => Ok (One (@Pairs ROps (map h (coords_of g))))) (grid2d_from_mask m)
  = Ok (OOne (mirror_of d (G2D m (spec_centres m)) (@Pairs ROps (map (fun px => h (pixel_centre m px)) (unmasked_px (bits2 m)))))).
Proof.
  intros Hd Hy Hx. unfold grid2d_from_mask.
  rewrite (maker_one d _ _ (@Pairs ROps (map h (grid_via_mask m)))); [|reflexivity|].
  - rewrite grid_via_mask_spec by assumption. unfold spec_centres. rewrite map_map. reflexivity.
  - unfold fits. cbn [res1_size n_points]. rewrite map_length, grid_via_mask_length, !Nat.eqb_refl.
    destruct d; try reflexivity. contradiction.
Qed.

(* ---- Grid1D through to_array / to_grid: the function is evaluated on the line (0, x_k) *)
Lemma maker_1d (d : maker) (f : @grid ROps -> res (@result ROps)) (m : @mask1 ROps) (xs : list R) r :
  f (GIrr (map (fun x : R => ((0, x) : ptR)) xs)) = Ok (One r) -> fits d (G1D m xs) r = true ->
  maker_result d f (G1D m xs) = Ok (OOne (mirror_of d (G1D m xs) r)).
Proof. intros Hf Hfit. apply maker_one; [rewrite eval_arg_1d; exact Hf|exact Hfit]. Qed.

(* ---- project_grid *)
Lemma angle90_trig (c : option ptR) (a : R) :
  prof_angle90 {| centre := c; angle := Some (cos a, sin a) |} = (cos (a + PI / 2), sin (a + PI / 2)).
Proof.
  unfold prof_angle90. cbn [angle fst snd]. rsimp. rewrite cos_plus, sin_plus, cos_PI2, sin_PI2. f_equal; ring.
Qed.
Lemma project_2d (o : @profile ROps) rc (f : @grid ROps -> res (@result ROps)) (m : mask2R) cs v :
  0 < fst (ps2 m) -> 0 < snd (ps2 m) ->
  f (GIrr (spec_projected m (prof_centre o) (prof_angle90 o) rc)) = Ok (One (Vals v)) ->
  project_grid o rc f (G2D m cs) = Ok (OOne (Array1D (nomask1 (length v) (fst (ps2 m))) v)).
Proof.
  intros Hy Hx Hf. unfold project_grid, project_arg. cbn [bind].
  rewrite projected_2d_spec by assumption. rewrite Hf. reflexivity.
Qed.
Lemma project_1d (o : @profile ROps) rc (f : @grid ROps -> res (@result ROps)) (m : @mask1 ROps) (xs : list R) v :
  f (GIrr (map (fun x : R => ((- (x * snd (prof_angle90 o)), x * fst (prof_angle90 o)) : ptR)) xs)) = Ok (One (Vals v)) ->
  project_grid o rc f (G1D m xs) = Ok (OOne (Array1D (nomask1 (length v) (ps1 m)) v)).
Proof.
  intros Hf. unfold project_grid, project_arg. cbn [bind]. rewrite projected_1d_spec.
  match goal with |- bind (f ?x) _ = _ => replace (f x) with (Ok (One (@Vals ROps v)) : res (@result ROps)) by (symmetry; exact Hf) end.
  reflexivity.
Qed.
Lemma project_irr (o : @profile ROps) rc (f : @grid ROps -> res (@result ROps)) (cs : list ptR) r :
  f (GIrr cs) = Ok (One r) ->
  project_grid o rc f (GIrr cs) = Ok (OOne (match r with Vals v => ArrayIrr v | Pairs p => GridIrr p end)).
Proof. intros Hf. unfold project_grid, project_arg. cbn [bind]. rewrite Hf. destruct r; reflexivity. Qed.
Lemma project_raw (o : @profile ROps) rc (f : @grid ROps -> res (@result ROps)) (cs : list ptR) :
  project_grid o rc f (GRaw cs) = Raise OtherException.
Proof. reflexivity. Qed.

(* ---- relocate_to_radial_minimum on a grid *)
Definition not_1d (g : @grid ROps) : Prop := forall m xs, g <> G1D m xs.
Lemma relocate_spec {A} (rmin : R) (f : @grid ROps -> res A) (g : @grid ROps) :
  not_1d g ->
  exists cs', @relocate ROps A (Some rmin) euclid f g = f (with_new_array g cs')
    /\ length cs' = length (coords_of g)
    /\ forall k d, (k < length (coords_of g))%nat ->
         let p := nth k (coords_of g) d in
         (rmin <= radR p -> nth k cs' d = p)
         /\ (0 < radR p < rmin ->
               nth k cs' d = (fst p * (rmin / radR p), snd p * (rmin / radR p)) /\ radR (nth k cs' d) = rmin)
         /\ (p <> (0, 0) -> rmin <= radR (nth k cs' d)).
Proof.
  intros H. exists (@moved ROps rmin (coords_of g) (map radR (coords_of g))). split; [|split].
  - unfold relocate. rewrite relocate_arg_ok by exact H. reflexivity.
  - apply moved_length. apply map_length.
  - intros k d Hk p. unfold p. rewrite moved_euclid_nth by exact Hk. split; [|split].
    + intros Hr. apply moved_far. exact Hr.
    + intros Hr. split; [apply moved_near; exact Hr|apply moved_near_radius; exact Hr].
    + intros Hp. apply moved_radius_ge. exact Hp.
Qed.
Lemma relocate_no_config {A} (rad : @grid ROps -> list R) (f : @grid ROps -> res A) g :
  @relocate ROps A None rad f g = Raise OtherException.
Proof. reflexivity. Qed.

(* ---- the stack to_X(transform(relocate(f))) on a profile with centre c and a unit direction a *)
Definition dist (c p : ptR) : R := sqrt ((fst p - fst c) * (fst p - fst c) + (snd p - snd c) * (snd p - snd c)).
Lemma radius_to_ref (c a p : ptR) : fst a * fst a + snd a * snd a = 1 -> radR (to_ref c a p) = dist c p.
Proof. intros U. unfold radius, dist. rsimp. rewrite to_ref_norm2 by exact U. reflexivity. Qed.
Lemma frame_tf_coords (c a : ptR) (g : @grid ROps) :
  not_1d g -> frame_tf c a g = with_new_array g (map (to_ref c a) (coords_of g)) /\ not_1d (frame_tf c a g)
  /\ coords_of (frame_tf c a g) = map (to_ref c a) (coords_of g).
Proof.
  intros H. destruct g; try (split; [reflexivity|split; [intros m' xs' E; discriminate|reflexivity]]).
  exfalso. eapply H. reflexivity.
Qed.
Lemma with_new_array_twice (g : @grid ROps) (a b : list ptR) : with_new_array (with_new_array g a) b = with_new_array g b.
Proof. destruct g; reflexivity. Qed.

Lemma stack_spec (d : maker) (rmin : R) (c a : ptR) (f : @grid ROps -> res (@result ROps)) (g : @grid ROps) :
  fst a * fst a + snd a * snd a = 1 -> not_1d g ->
  exists cs', @stack ROps d (Some rmin) c a false f g = bind (f (with_new_array g cs')) (wrap d g)
    /\ length cs' = length (coords_of g)
    /\ forall k d0, (k < length (coords_of g))%nat ->
         let p := nth k (coords_of g) d0 in let q := to_ref c a p in
         (rmin <= dist c p -> nth k cs' (to_ref c a d0) = q)
         /\ (0 < dist c p < rmin ->
               nth k cs' (to_ref c a d0) = (fst q * (rmin / dist c p), snd q * (rmin / dist c p))
               /\ radR (nth k cs' (to_ref c a d0)) = rmin)
         /\ (p <> c -> rmin <= radR (nth k cs' (to_ref c a d0))).
Proof.
  intros U H. rewrite stack_decompose.
  assert (E : eval_arg g = g) by (destruct g; try reflexivity; exfalso; eapply H; reflexivity).
  unfold stack_arg, transform. cbn [negb]. rewrite E.
  destruct (frame_tf_coords c a g H) as [F1 [F2 F3]].
  destruct (@relocate_spec (@grid ROps) rmin (fun x => Ok x) (frame_tf c a g) F2) as [cs' [R1 [R2 R3]]].
  unfold relocate in R1.
  exists cs'. split; [|split].
  - destruct (@relocate_arg ROps (Some rmin) euclid (frame_tf c a g)) as [g1|e] eqn:RA; cbn [bind] in R1.
    + inversion R1. subst g1. cbn [bind]. rewrite F1, with_new_array_twice. reflexivity.
    + discriminate.
  - rewrite R2, F3, map_length. reflexivity.
  - intros k d0 Hk. cbv zeta. rewrite F3 in R3. specialize (R3 k (to_ref c a d0)). rewrite map_length in R3. specialize (R3 Hk).
    cbv zeta in R3. rewrite map_nth in R3. set (p := nth k (coords_of g) d0) in *.
    rewrite radius_to_ref in R3 by exact U. destruct R3 as [A1 [A2 A3]]. split; [exact A1|split; [exact A2|]].
    intros Hp. apply A3. intros Eq. apply Hp.
    assert (Z : radR (to_ref c a p) = 0) by (apply radius_zero_iff; exact Eq).
    rewrite radius_to_ref in Z by exact U. unfold dist in Z.
    clearbody p. clear - Z. destruct p as [y x], c as [cy cx]. cbn [fst snd] in Z.
    pose proof (Rle_0_sqr (y - cy)) as S1. pose proof (Rle_0_sqr (x - cx)) as S2. unfold Rsqr in S1, S2.
    apply sqrt_eq_0 in Z; [|lra]. assert (y - cy = 0) by nra. assert (x - cx = 0) by nra. f_equal; lra.
Qed.
(* nested call: the inner decorated method sees is_transformed and does not transform again *)
Lemma stack_nested_arg (rmin : option R) (c a : ptR) (g : @grid ROps) :
  @stack_arg ROps rmin c a true g =
  bind (@relocate_arg ROps rmin euclid (frame_tf c a (eval_arg g))) (fun g1 => @relocate_arg ROps rmin euclid g1).
Proof. reflexivity. Qed.

(* ---- the radial-minimum step is idempotent (also at the centre): a nested decorated call hands f the same grid *)
Lemma moved_radius_ge_all (rmin : R) (p : ptR) : rmin <= radR (@moved_pt ROps rmin p (radR p)).
Proof.
  destruct (Req_EM_T (radR p) 0) as [Z|NZ].
  - apply radius_zero_iff in Z. subst p.
    assert (Z0 : radR ((0, 0) : ptR) = 0) by (apply radius_zero_iff; reflexivity). rewrite Z0.
    destruct (Rlt_dec 0 rmin) as [Hpos|Hneg].
    + rewrite centre_radius by exact Hpos. assert (1 <= sqrt 2).
      { rewrite <- sqrt_1 at 1. apply sqrt_le_1_alt. lra. }
      nra.
    + rewrite moved_far by lra. rewrite Z0. lra.
  - apply moved_radius_ge. intros E. apply NZ. apply radius_zero_iff. exact E.
Qed.
Lemma moved_map (rmin : R) (cs : list ptR) :
  @moved ROps rmin cs (map radR cs) = map (fun p => @moved_pt ROps rmin p (radR p)) cs.
Proof. induction cs as [|p cs IH]; [reflexivity|]. cbn [map moved]. rewrite IH. reflexivity. Qed.
Lemma moved_idempotent (rmin : R) (cs : list ptR) :
  let cs1 := @moved ROps rmin cs (map radR cs) in @moved ROps rmin cs1 (map radR cs1) = cs1.
Proof.
  cbv zeta. rewrite !moved_map, map_map. apply map_ext. intros p.
  apply moved_far. apply moved_radius_ge_all.
Qed.
Lemma relocate_arg_idempotent (rmin : R) (g g1 : @grid ROps) :
  @relocate_arg ROps (Some rmin) euclid g = Ok g1 -> @relocate_arg ROps (Some rmin) euclid g1 = Ok g1.
Proof.
  unfold relocate_arg. rewrite !euclid_spec.
  destruct g as [m cs|cs|m xs|cs]; cbn [coords_of with_new_array]; intros H; try discriminate;
    inversion H; subst g1; cbn [coords_of with_new_array]; rewrite moved_idempotent; reflexivity.
Qed.
Lemma stack_nested_same (rmin : R) (c a : ptR) (g : @grid ROps) :
  @stack_arg ROps (Some rmin) c a true g = @stack_arg ROps (Some rmin) c a false g.
Proof.
  rewrite stack_nested_arg. unfold stack_arg, transform. cbn [negb].
  destruct (@relocate_arg ROps (Some rmin) euclid (frame_tf c a (eval_arg g))) as [g1|e] eqn:E; [|reflexivity].
  cbn [bind]. eapply relocate_arg_idempotent. exact E.
Qed.

(* ====================================================================== part 5: native storage *)
Section Native.
  Context {O : NumOps}.
  Notation T := (T O).

  Lemma slim_by_native_by {A} (junk : A) (bits : list bool) (v : list A) :
    length v = count1 bits -> slim_by bits (native_by junk bits v) = v.
  Proof.
    unfold count1. revert v; induction bits as [|b bits IH]; intros v H; simpl in *.
    - destruct v; [reflexivity | discriminate].
    - destruct b; simpl in *.
      + apply IH; auto.
      + destruct v as [|a v]; [discriminate|]. simpl. f_equal. apply IH. simpl in H. lia.
  Qed.
  Lemma native_by_length {A} (junk : A) (bits : list bool) (v : list A) : length (native_by junk bits v) = length bits.
  Proof. revert v; induction bits as [|b bits IH]; intros v; simpl; auto. destruct b; simpl; [|destruct v; simpl]; rewrite IH; auto. Qed.
  Lemma slim_by_map {A B} (h : A -> B) (bits : list bool) (v : list A) : slim_by bits (map h v) = map h (slim_by bits v).
  Proof. revert v; induction bits as [|b bits IH]; intros [|a v]; simpl; auto. destruct b; simpl; rewrite IH; auto. Qed.
  Lemma slim_by_length {A} (bits : list bool) (v : list A) : length v = length bits -> length (slim_by bits v) = count1 bits.
  Proof.
    unfold count1. revert v; induction bits as [|b bits IH]; intros [|a v] H; simpl in *; try discriminate; auto.
    destruct b; simpl; rewrite IH; auto.
  Qed.
  Lemma slim_by_unmasked_of {A} (bits : list bool) (v : list A) : slim_by bits v = unmasked_of bits v.
  Proof.
    unfold unmasked_of. revert v; induction bits as [|b bits IH]; intros [|a v]; simpl; auto.
    destruct b; simpl; rewrite IH; auto.
  Qed.

  (* a natively stored Grid1D is the slim Grid1D with the same unmasked entries, whatever the masked entries hold:
     every decorator treats the two alike *)
  Lemma grid1d_native_is_slim (m : @mask1 O) (xs : list T) (junk : T) :
    length xs = count1 (bits1 m) -> grid1d_of_native m (native_by junk (bits1 m) xs) = G1D m xs.
  Proof. intros H. unfold grid1d_of_native. rewrite slim_by_native_by; auto. Qed.
  Lemma grid2d_native_is_slim (m : @mask2 O) (cs : list (@pt O)) (junk : @pt O) :
    length cs = count2 (bits2 m) -> grid2d_of_native m (native_by junk (concat (bits2 m)) cs) = G2D m cs.
  Proof. intros H. unfold grid2d_of_native. rewrite slim_by_native_by; auto. Qed.

  (* to_array on a natively stored Grid2D, pointwise function written for native grids: entry k of the returned Array2D
     is h at the k-th unmasked pixel's coordinate; the masked entries of the array never reach the result *)
  Lemma native_grid2d_pointwise (h : @pt O -> T) (m : @mask2 O) (nc : list (@pt O)) :
    length nc = length (concat (bits2 m)) ->
    maker_result_native ToArray (fun g => Ok (One (Vals (map h (coords_of g))))) m nc
    = Ok (OOne (Array2D m (map h (slim_by (concat (bits2 m)) nc)))).
  Proof.
    intros L. unfold maker_result_native. simpl. rewrite map_length, L, Nat.eqb_refl.
    unfold grid2d_of_native. simpl. unfold mk_array2d.
    rewrite slim_by_map, map_length, slim_by_length; auto.
    unfold count2, count1. rewrite Nat.eqb_refl. reflexivity.
  Qed.
  Lemma native_grid2d_pointwise_pairs (d : maker) (h : @pt O -> @pt O) (m : @mask2 O) (nc : list (@pt O)) :
    d <> ToArray -> length nc = length (concat (bits2 m)) ->
    maker_result_native d (fun g => Ok (One (Pairs (map h (coords_of g))))) m nc
    = Ok (OOne (match d with
                | ToVector => Vector2D m (slim_by (concat (bits2 m)) nc) (map h (slim_by (concat (bits2 m)) nc))
                | _ => Grid2D m (map h (slim_by (concat (bits2 m)) nc))
                end)).
  Proof.
    intros Hd L. unfold maker_result_native. simpl. rewrite map_length, L, Nat.eqb_refl.
    unfold grid2d_of_native.
    assert (E : length (slim_by (concat (bits2 m)) nc) = count2 (bits2 m)) by (rewrite slim_by_length; auto).
    destruct d; try congruence; simpl; unfold mk_grid2d, mk_vector2d;
      rewrite slim_by_map, map_length, E, Nat.eqb_refl; reflexivity.
  Qed.
End Native.

(* ====================================================================== part 6: histories *)
Section Histories.
  Variable cen : @mask2 QOps -> list ptQ.
  Variable chk : callc -> gspec -> bool.

  (* the contents of the grid objects after a prefix of the history: nothing but the user's edits changes them *)
  Fixpoint state_after (gs : list gspec) (l : list hstep) : list gspec :=
    match l with
    | [] => gs
    | HCall _ _ _ :: t => state_after gs t
    | HEdit gi k p :: t =>
        match nth_error gs gi with
        | Some s => state_after (set_nth gi (edit cen s k p) gs) t
        | None => gs
        end
    end.

  (* an accepted history: every call, taken as a single call on the contents current at that moment, is accepted, and it
     left the array of its grid as it was *)
  Lemma hist_ok_calls (l : list hstep) : forall (gs : list gspec) (i gi : nat) (c : callc) (post : list ptQ),
    hist_ok cen chk gs l = true -> nth_error l i = Some (HCall gi c post) ->
    exists s, nth_error (state_after gs (firstn i l)) gi = Some s
              /\ chk c s = true /\ list_eqb peq (stored cen s) post = true.
  Proof.
    induction l as [|st l IH]; intros gs i gi c post H N.
    - destruct i; discriminate.
    - destruct i as [|i].
      + simpl in N. injection N as ->. simpl in H. simpl.
        destruct (nth_error gs gi) as [s|]; [|discriminate].
        apply andb_prop in H as [H _]. apply andb_prop in H as [H1 H2]. exists s. auto.
      + simpl in N. destruct st as [gj c' post'|gj k p]; simpl in H |- *.
        * apply andb_prop in H as [_ H]. eapply IH; eauto.
        * destruct (nth_error gs gj) as [s|]; [|discriminate]. eapply IH; eauto.
  Qed.
  (* and conversely *)
  Lemma hist_ok_intro (l : list hstep) : forall (gs : list gspec),
    (forall i gi k p, nth_error l i = Some (HEdit gi k p) -> nth_error (state_after gs (firstn i l)) gi <> None) ->
    (forall i gi c post, nth_error l i = Some (HCall gi c post) ->
       exists s, nth_error (state_after gs (firstn i l)) gi = Some s
                 /\ chk c s = true /\ list_eqb peq (stored cen s) post = true) ->
    hist_ok cen chk gs l = true.
  Proof.
    induction l as [|st l IH]; intros gs HE HC; simpl; auto.
    destruct st as [gj c post|gj k p].
    - destruct (HC 0%nat gj c post eq_refl) as [s [N [C P]]]. simpl in N. rewrite N, C, P. simpl.
      apply IH.
      + intros i gi k p Hn. apply (HE (S i) gi k p Hn).
      + intros i gi c' post' Hn. apply (HC (S i) gi c' post' Hn).
    - pose proof (HE 0%nat gj k p eq_refl) as N. simpl in N.
      destruct (nth_error gs gj) as [s|] eqn:E; [|congruence].
      apply IH.
      + intros i gi k' p' Hn. specialize (HE (S i) gi k' p' Hn). simpl in HE. rewrite E in HE. exact HE.
      + intros i gi c' post' Hn. specialize (HC (S i) gi c' post' Hn). simpl in HC. rewrite E in HC. exact HC.
  Qed.
End Histories.

(* the verdict on a history is the verdict on its single calls, each on the contents the user left in the grid *)
Lemma agree_hist_calls e gs l i gi c post :
  agree (KHist e gs l) = true -> nth_error l i = Some (HCall gi c post) ->
  exists s, nth_error (state_after (@grid_via_mask QOps) gs (firstn i l)) gi = Some s
            /\ agree_call (unit_of e) c s = true /\ list_eqb peq (stored (@grid_via_mask QOps) s) post = true.
Proof. intros H N. eapply hist_ok_calls; eauto. Qed.
Lemma spec_ok_hist_calls e gs l i gi c post :
  spec_ok (KHist e gs l) = true -> nth_error l i = Some (HCall gi c post) ->
  exists s, nth_error (state_after (@spec_centres QOps) gs (firstn i l)) gi = Some s
            /\ spec_ok_call (unit_of e) c s = true /\ list_eqb peq (stored (@spec_centres QOps) s) post = true.
Proof. intros H N. eapply hist_ok_calls; eauto. Qed.
