(* C15k -- the kernel identities that Proofs/C15.v takes as hypotheses ([law_dlf], [law_momm], the data_vector_mapper
   shape law of the mapping class) PROVED for the concrete C04 kernels [c04k] (Model/C15k.v) at ROps, from the
   well-formedness of the input alone; hence C15's transparency theorems for those kernels without kernel hypotheses. *)
From Coq Require Import ZArith Reals Lra Lia List Bool Arith.
From PAV Require Import Base.Res Base.Check Base.NumOps Base.Sum Model.C03 Model.C03Lib Model.C04 Model.C04Lib Proofs.C04 Proofs.C04b.
From PAV Require Import Model.C15 Model.C15k Proofs.C15.
Import ListNotations.
Local Open Scope R_scope.

Ltac fixR := unfold C04.mat, C04.vec, C15.mat, C15.vec in *; rfix.
Notation Rmat := (list (list R)).
Notation Rvec := (list R).
Notation mgetR := (@C04.mget ROps).
Notation ncolsR := (@C04.ncols ROps).

(* ================================================================================================ *)
(* Part 1: matrices with equal shapes and equal entries are equal lists                              *)
Lemma vec_ext (u v : Rvec) : length u = length v -> (forall i, (i < length u)%nat -> nth i u 0 = nth i v 0) -> u = v.
Proof. intros Hl H. apply (nth_ext u v 0 0 Hl). exact H. Qed.
Lemma mat_ext n p (A B : Rmat) : shape n p A -> shape n p B ->
  (forall a b, (a < n)%nat -> (b < p)%nat -> mgetR A a b = mgetR B a b) -> A = B.
Proof.
  intros [HA1 HA2] [HB1 HB2] H. unfold C04.mat in *. rfix. apply (nth_ext A B [] []); [transitivity n; [exact HA1 | symmetry; exact HB1]|]. intros a Ha. rewrite HA1 in Ha.
  apply vec_ext; [rewrite HA2, HB2; auto|]. intros b Hb. rewrite HA2 in Hb by exact Ha.
  specialize (H a b Ha Hb). rewrite !mget_R in H. exact H.
Qed.

(* ================================================================================================ *)
(* Part 2: data_linear_func_matrix_from and curvature_matrix_off_diags_via_data_linear_func_matrix_from *)
Theorem dlfm_spec (cw : Rmat) (frames : list (list (nat * R))) d0 l : (d0 < length cw)%nat -> (l < ncolsR cw)%nat ->
  mgetR (@data_linear_func_matrix ROps cw frames) d0 l =
  sumR (map (fun ik => snd ik * mgetR cw (fst ik) l) (nth d0 frames [])).
Proof.
  intros Hd Hl. unfold data_linear_func_matrix. rewrite mget_reshape by auto. rewrite scatter_gather_zeros.
  - rewrite hits_flat_map.
    transitivity (sumR (map (fun d => if Nat.eqb d d0 then sumR (map (fun ik : nat * R => snd ik * mgetR cw (fst ik) l) (nth d frames [])) else 0)
                            (seq 0 (length cw)))).
    + apply sumR_map_ext. intros d _. rewrite hits_flat_map.
      destruct (Nat.eqb d d0) eqn:Ed.
      * apply sumR_map_ext. intros ik _.
        rewrite (hits_map (d0 * ncolsR cw + l) (fun l' => (d * ncolsR cw + l')%nat)
                          (fun l' => mul ROps (snd ik) (mgetR cw (fst ik) l'))).
        transitivity (sumR (map (fun l' => if Nat.eqb l' l then snd ik * mgetR cw (fst ik) l' else 0) (seq 0 (ncolsR cw)))).
        -- apply sumR_map_ext. intros l' Hl'. apply in_seq in Hl'. rewrite rowmajor_eqb by lia. rewrite Ed. ropen.
           destruct (Nat.eqb l' l); reflexivity.
        -- rewrite sumR_seq_pick by lia. reflexivity.
      * apply sumR_map_zero. intros ik _.
        rewrite (hits_map (d0 * ncolsR cw + l) (fun l' => (d * ncolsR cw + l')%nat)
                          (fun l' => mul ROps (snd ik) (mgetR cw (fst ik) l'))).
        apply sumR_map_zero. intros l' Hl'. apply in_seq in Hl'. rewrite rowmajor_eqb by lia. now rewrite Ed.
    + rewrite sumR_seq_pick by lia. reflexivity.
  - apply Forall_forall. intros en Hin. apply in_flat_map in Hin. destruct Hin as [d [Hdd Hin]]. apply in_seq in Hdd.
    apply in_flat_map in Hin. destruct Hin as [ik [_ Hin]].
    apply in_map_iff in Hin. destruct Hin as [l' [<- Hl']]. apply in_seq in Hl'. cbn [fst].
    apply rowmajor_lt; lia.
Qed.
Lemma shape_dlfm (cw : Rmat) frames : shape (length cw) (ncolsR cw) (@data_linear_func_matrix ROps cw frames).
Proof. apply shape_reshape. Qed.

Theorem off_via_dlfm_spec (dl : Rmat) e P a l : enc_ok e P -> (a < P)%nat -> (l < ncolsR dl)%nat ->
  mgetR (@off_via_dlfm ROps dl e P) a l =
  sumR (map (fun d0 => E e d0 a * mgetR dl d0 l) (seq 0 (length (e_dw e)))).
Proof.
  intros He Ha Hl. unfold off_via_dlfm. rewrite mget_reshape by auto. rewrite scatter_gather_zeros.
  - rewrite hits_flat_map. apply sumR_map_ext. intros d0 _. rewrite hits_flat_map.
    unfold E. rewrite hits_as_map. rewrite <- sumR_map_mul_l. apply sumR_map_ext. intros pw Hpw.
    rewrite (hits_map (a * ncolsR dl + l) (fun l' => (fst pw * ncolsR dl + l')%nat)
                      (fun l' => mul ROps (mgetR dl d0 l') (snd pw))).
    transitivity (sumR (map (fun l' => if Nat.eqb l' l then (if Nat.eqb (fst pw) a then snd pw * mgetR dl d0 l' else 0) else 0)
                            (seq 0 (ncolsR dl)))).
    + apply sumR_map_ext. intros l' Hl'. apply in_seq in Hl'. rewrite rowmajor_eqb by lia. ropen.
      destruct (Nat.eqb (fst pw) a); destruct (Nat.eqb l' l); cbn [andb]; try reflexivity. rfix. ring.
    + rewrite sumR_seq_pick by lia. rfix. destruct (Nat.eqb (fst pw) a); ring.
  - apply Forall_forall. intros en Hin. apply in_flat_map in Hin. destruct Hin as [d [_ Hin]].
    apply in_flat_map in Hin. destruct Hin as [pw [Hpw Hin]].
    apply in_map_iff in Hin. destruct Hin as [l' [<- Hl']]. apply in_seq in Hl'. cbn [fst].
    apply rowmajor_lt; [now apply (He d) | lia].
Qed.
Lemma shape_off_via_dlfm (dl : Rmat) e P : shape P (ncolsR dl) (@off_via_dlfm ROps dl e P).
Proof. apply shape_reshape. Qed.

(* the identity behind Preloads.data_linear_func_matrix_dict: for EVERY encoding, frame table and weight matrix with as
   many rows as the encoding has data pixels *)
Theorem off_via_dlfm_eq_off_mapper_func e P (cw : Rmat) (frames : list (list (nat * R))) :
  enc_ok e P -> length (e_dw e) = length cw -> (0 < length cw)%nat ->
  @off_via_dlfm ROps (@data_linear_func_matrix ROps cw frames) e P = @off_mapper_func ROps e P cw frames.
Proof.
  intros He Hn Hpos.
  assert (Hnc : ncolsR (@data_linear_func_matrix ROps cw frames) = ncolsR cw).
  { apply (ncols_shape _ (length cw)); [apply shape_dlfm | exact Hpos]. }
  apply (mat_ext P (ncolsR cw)).
  - rewrite <- Hnc. apply shape_off_via_dlfm.
  - apply shape_off_mapper_func.
  - intros a l Ha Hl. rewrite off_via_dlfm_spec by (auto; rewrite Hnc; exact Hl).
    rewrite off_mapper_func_spec by auto. apply sumR_map_ext. intros d0 Hd0. apply in_seq in Hd0.
    rewrite dlfm_spec by lia. reflexivity.
Qed.

(* ================================================================================================ *)
(* Part 3: horizontally stacked matrices (Model/C15.v's np.hstack) and the data vector               *)
Section Hcat.
  Variables (d s : Rvec).
  Lemma map2_length {A B C} (f : A -> B -> C) : forall l1 l2, length l1 = length l2 -> length (map2 f l1 l2) = length l1.
  Proof. induction l1 as [|a l1 IH]; intros [|b l2] H; simpl in *; try discriminate; [reflexivity|]. now rewrite IH by lia. Qed.
  Lemma nth_map2 {A B C} (f : A -> B -> C) da db dc : forall l1 l2 i, length l1 = length l2 -> (i < length l1)%nat ->
    nth i (map2 f l1 l2) dc = f (nth i l1 da) (nth i l2 db).
  Proof.
    induction l1 as [|a l1 IH]; intros [|b l2] i H Hi; simpl in *; try discriminate; try lia.
    destruct i as [|i]; [reflexivity|]. apply IH; lia.
  Qed.
  Definition hcat (A B : Rmat) : Rmat := map2 (@app R) A B.
  Lemma shape_hcat n pa pb (A B : Rmat) : shape n pa A -> shape n pb B -> shape n (pa + pb) (hcat A B).
  Proof.
    intros [A1 A2] [B1 B2]. unfold C04.mat in *. rfix. split.
    - unfold hcat. rewrite map2_length by congruence. exact A1.
    - intros a Ha. unfold hcat. rewrite (nth_map2 (@app R) [] [] []) by (try congruence; lia).
      rewrite app_length, A2, B2 by assumption. reflexivity.
  Qed.
  Lemma mget_hcat n pa pb (A B : Rmat) i p : shape n pa A -> shape n pb B -> (i < n)%nat ->
    mgetR (hcat A B) i p = if Nat.ltb p pa then mgetR A i p else mgetR B i (p - pa).
  Proof.
    intros [A1 A2] [B1 B2] Hi. unfold C04.mat in *. rfix. rewrite !mget_R. unfold hcat.
    rewrite (nth_map2 (@app R) [] [] []) by (try congruence; lia).
    destruct (Nat.ltb p pa) eqn:E.
    - apply Nat.ltb_lt in E. apply app_nth1. rewrite A2; assumption.
    - apply Nat.ltb_ge in E. rewrite app_nth2 by (rewrite A2; assumption). now rewrite A2.
  Qed.
  Lemma dv_blurred_hcat n pa pb (A B : Rmat) : (0 < n)%nat -> shape n pa A -> shape n pb B ->
    @dv_blurred ROps (hcat A B) d s = @dv_blurred ROps A d s ++ @dv_blurred ROps B d s.
  Proof.
    intros Hn HA HB. pose proof (shape_hcat n pa pb A B HA HB) as HAB.
    pose proof (ncols_shape _ _ _ HA Hn) as NA. pose proof (ncols_shape _ _ _ HB Hn) as NB. pose proof (ncols_shape _ _ _ HAB Hn) as NAB.
    apply vec_ext.
    - rewrite app_length, !dv_blurred_length. congruence.
    - intros p Hp. rewrite dv_blurred_length, NAB in Hp. rewrite dv_blurred_spec by (rewrite NAB; exact Hp).
      destruct HAB as [LAB _]. destruct HA as [LA HA2]. destruct HB as [LB HB2]. unfold C04.mat in *. rfix. rewrite LAB.
      destruct (Nat.ltb p pa) eqn:E.
      + apply Nat.ltb_lt in E. rewrite app_nth1 by (rewrite dv_blurred_length, NA; exact E).
        rewrite dv_blurred_spec by (rewrite NA; exact E). unfold C04.mat in *; rfix. rewrite LA. apply sumR_map_ext. intros i Hi. apply in_seq in Hi.
        rewrite (mget_hcat n pa pb) by (try split; auto; lia). assert (Nat.ltb p pa = true) as -> by (apply Nat.ltb_lt; exact E). reflexivity.
      + apply Nat.ltb_ge in E. rewrite app_nth2 by (rewrite dv_blurred_length, NA; exact E). rewrite dv_blurred_length, NA.
        rewrite dv_blurred_spec by (rewrite NB; lia). unfold C04.mat in *; rfix. rewrite LB. apply sumR_map_ext. intros i Hi. apply in_seq in Hi.
        rewrite (mget_hcat n pa pb) by (try split; auto; lia). assert (Nat.ltb p pa = false) as -> by (apply Nat.ltb_ge; exact E). reflexivity.
  Qed.
  (* np.hstack as Model/C15.v folds it *)
  Lemma dv_blurred_fold n (t : list (Rmat * nat)) : (0 < n)%nat -> (forall Bp, In Bp t -> shape n (snd Bp) (fst Bp)) ->
    forall acc pacc, shape n pacc acc ->
    exists ptot, shape n ptot (fold_left (fun a B => map2 (@app R) a B) (map fst t) acc) /\
    @dv_blurred ROps (fold_left (fun a B => map2 (@app R) a B) (map fst t) acc) d s
    = @dv_blurred ROps acc d s ++ concat (map (fun Bp => @dv_blurred ROps (fst Bp) d s) t).
  Proof.
    intros Hn. induction t as [|[B p] t IH]; intros Ht acc pacc Hacc; simpl.
    - exists pacc. split; [exact Hacc|]. now rewrite app_nil_r.
    - assert (HB : shape n p B) by (apply (Ht (B, p)); now left).
      destruct (IH (fun Bp H => Ht Bp (or_intror H)) (hcat acc B) (pacc + p)%nat (shape_hcat n pacc p acc B Hacc HB)) as (ptot & Hs & He).
      exists ptot. split; [exact Hs|]. unfold hcat in He. rewrite He. fold (hcat acc B).
      rewrite (dv_blurred_hcat n pacc p acc B Hn Hacc HB). now rewrite <- app_assoc.
  Qed.
End Hcat.

(* ================================================================================================ *)
(* Part 4: the C04 kernels satisfy the three kernel identities on every well-formed input             *)
Section Instance.
  Variable c : @convolver ROps.
  Variable m : mask.
  Variable Kp : @kernel ROps.
  Variable encf : Rmat -> @C04.enc ROps.
  Variable dec : Rmat -> Rvec * list nat * list nat.
  Variable slv : Rmat -> Rvec -> res Rvec.
  Variable ldc ldr : Rmat -> res R.
  Definition KR : kernels R := @c04k ROps c m Kp encf dec slv ldc ldr.

  (* the operated mapping matrix of one linear object *)
  Definition opm (x : lobj R) : Rmat := match lo_ovr x with Some B => B | None => convolve_matrix c (lo_mm x) end.
  (* a mapper on np data pixels: its mapping matrix is np x P, it has no operated override, and its unique-mapping encoding
     stands for its mapping matrix (C04's [wf_obj] for LMapper) *)
  Definition wf_mapper (np : nat) (x : lobj R) : Prop :=
    (0 < lo_p x)%nat /\ lo_ovr x = None /\ length (lo_mm x) = np /\ ncolsR (lo_mm x) = lo_p x /\
    enc_ok (encf (lo_mm x)) (lo_p x) /\ represents (encf (lo_mm x)) (lo_mm x) np (lo_p x) /\
    length (e_dw (encf (lo_mm x))) = np /\ length (e_du (encf (lo_mm x))) = np.
  Definition wf_func (np : nat) (x : lobj R) : Prop := (0 < lo_p x)%nat /\ shape np (lo_p x) (opm x).
  Definition wf_input (np : nat) (inp : input R) : Prop :=
    (0 < np)%nat /\ frames_ok c np /\
    forall x, In x (in_objs inp) -> if lo_mapper x then wf_mapper np x else wf_func np x.

  Variable inp : input R.
  Variable np : nat.
  Hypothesis WF : wf_input np inp.

  Lemma lf_in l : In l (lf_fresh KR inp) -> exists x, In x (in_objs inp) /\ lo_mapper x = false /\ l = opm x.
  Proof.
    unfold lf_fresh. intro H. apply in_map_iff in H. destruct H as [[o r] [<- H]]. unfold funcs in H.
    apply filter_In in H. destruct H as [H1 H2]. unfold orng in H1. apply in_combine_l in H1. cbn [fst] in *.
    exists o. split; [exact H1|]. split; [now destruct (lo_mapper o)|]. unfold opm. destruct (lo_ovr o); reflexivity.
  Qed.
  Lemma lf_shape l : In l (lf_fresh KR inp) -> exists p, (0 < p)%nat /\ shape np p l.
  Proof.
    intro H. destruct (lf_in l H) as (x & Hx & Hm & ->). destruct WF as (_ & _ & W). specialize (W x Hx). rewrite Hm in W.
    destruct W as [Hp Hs]. eauto.
  Qed.
  Lemma mapper_wf x : In x (objs inp) -> lo_mapper x = true -> wf_mapper np x.
  Proof. intros Hx Hm. destruct WF as (_ & _ & W). specialize (W x Hx). now rewrite Hm in W. Qed.

  (* Preloads.mapper_operated_mapping_matrix_dict:  np.dot(operated_mapping_matrix.T, curvature_weights)  =
     curvature_matrix_off_diags_via_mapper_and_linear_func_curvature_vector_from *)
  Theorem c04_law_momm : law_momm KR inp.
  Proof.
    intros x l Hx Hm Hl. destruct (mapper_wf x Hx Hm) as (Hp & Hov & HM & HP & He & Hrep & Hdw & Hdu).
    destruct (lf_shape l Hl) as (p & Hp0 & Hls). destruct WF as (Hnp & Hfr & _).
    pose proof (ncols_shape _ _ _ Hls Hnp) as Ncl. destruct Hls as [Ll _].
    cbn [KR c04k k_dotT conv_mm k_cw k_off_mf].
    pose proof (shape_convolve_matrix c (lo_mm x)) as Hcs. fixR. rewrite HM, HP in Hcs.
    pose proof (ncols_shape _ _ _ Hcs Hnp) as Ncc.
    apply (mat_ext (lo_p x) p).
    - rewrite <- Ncc at 1. rewrite <- Ncl. rewrite <- (ncols_div_rows_sq l (C15.n inp)). apply shape_dotTN.
    - rewrite <- Ncl. rewrite <- (ncols_div_rows_sq l (C15.n inp)). apply shape_off_mapper_func.
    - intros a q Ha Hq.
      rewrite mget_dotTN by (rewrite ?ncols_div_rows_sq, ?Ncc, ?Ncl; assumption).
      rewrite wt_mapper_func_block with (n := np) by (auto; rewrite Ncl; exact Hq).
      destruct Hcs as [Lc _]. unfold C04.mat in *. rfix. rewrite Lc.
      apply sumR_map_ext. intros i Hi. apply in_seq in Hi.
      rewrite mget_div_rows_sq by (fixR; rewrite Ll; lia).
      rewrite (convolve_matrix_is_Cop c (lo_mm x) np i a HM Hfr) by (try lia; rewrite HP; exact Ha).
      unfold Bm. unfold Rdiv. rewrite <- !sumR_map_mul_l. apply sumR_map_ext. intros s0 Hs0. apply in_seq in Hs0.
      rewrite (Hrep s0 a) by lia. fixR. ring.
  Qed.

  (* Preloads.data_linear_func_matrix_dict *)
  Theorem c04_law_dlf : law_dlf KR inp.
  Proof.
    intros x l Hx Hm Hl. destruct (mapper_wf x Hx Hm) as (Hp & Hov & HM & HP & He & Hrep & Hdw & Hdu).
    destruct (lf_shape l Hl) as (p & Hp0 & [Ll _]). destruct WF as (Hnp & Hfr & _).
    cbn [KR c04k k_off_dlfm k_dlfm k_cw k_off_mf].
    apply off_via_dlfm_eq_off_mapper_func; [exact He | | ]; rewrite div_rows_sq_length; unfold C04.mat in *; rfix; rewrite Ll; [exact Hdw | exact Hnp].
  Qed.

  (* InversionImagingMapping.data_vector's short cut: the block-assembled mapper data vector IS the data vector *)
  Lemma c04_shape_dv_map : (forall o, In o (objs inp) -> lo_mapper o = true) -> shape_dv_map KR inp.
  Proof.
    intros Hall o Ho. destruct (mapper_wf o Ho (Hall o Ho)) as (Hp & Hov & HM & HP & _). destruct WF as (Hnp & _).
    unfold blk_map. cbn [KR c04k k_dv_bmm conv_mm]. rewrite dv_blurred_length.
    pose proof (shape_convolve_matrix c (lo_mm o)) as Hcs. fixR. rewrite HM, HP in Hcs. exact (ncols_shape _ _ _ Hcs Hnp).
  Qed.
  Lemma c04_hcat_dv_map : (forall o, In o (objs inp) -> lo_mapper o = true) -> hcat_dv_map KR inp.
  Proof.
    intros Hall. unfold hcat_dv_map, blk_map. cbn [KR c04k k_dv_bmm conv_mm]. destruct WF as (Hnp & _).
    assert (Hsh : forall o, In o (objs inp) -> shape np (lo_p o) (convolve_matrix c (lo_mm o))).
    { intros o Ho. destruct (mapper_wf o Ho (Hall o Ho)) as (Hp & Hov & HM & HP & _).
      pose proof (shape_convolve_matrix c (lo_mm o)) as Hcs. fixR. now rewrite HM, HP in Hcs. }
    revert Hsh. generalize (objs inp). intros [|o0 t] Hsh.
    - simpl. unfold dv_blurred. reflexivity.
    - simpl. unfold hstack.
      destruct (dv_blurred_fold (C15.d inp) (C15.n inp) np (map (fun o => (convolve_matrix c (lo_mm o), lo_p o)) t) Hnp) with
        (acc := convolve_matrix c (lo_mm o0)) (pacc := lo_p o0) as (ptot & _ & He).
      + intros Bp HBp. apply in_map_iff in HBp. destruct HBp as [o [<- Ho]]. cbn [fst snd]. apply Hsh. now right.
      + apply Hsh. now left.
      + rewrite !map_map in He. cbn [fst] in He. fixR. exact He.
  Qed.
  Lemma c04_mappers_plain : (forall o, In o (objs inp) -> lo_mapper o = true) -> mappers_plain inp.
  Proof. intros Hall o Ho. now destruct (mapper_wf o Ho (Hall o Ho)) as (_ & Hov & _). Qed.
  Lemma no_func_all_mappers : has_func inp = false -> forall o, In o (objs inp) -> lo_mapper o = true.
  Proof.
    intros Ef o Ho. pose proof (no_func_mappers R inp Ef) as Hm. unfold mappers, orng in Hm.
    destruct (In_nth _ _ o Ho) as (i & Hi & Hn).
    assert (Hin : In (o, nth i (ranges_from 0 (objs inp)) (0, 0)%nat) (combine (objs inp) (ranges_from 0 (objs inp)))).
    { rewrite <- Hn at 1. rewrite <- combine_nth by (now rewrite ranges_from_length). apply nth_In.
      rewrite combine_length, ranges_from_length, Nat.min_id. exact Hi. }
    rewrite <- Hm in Hin. apply filter_In in Hin. exact (proj2 Hin).
  Qed.
  Theorem c04_dvm_law_map : has_func inp = false -> p_dvm KR inp None = p_dv KR inp None.
  Proof.
    intro Ef. pose proof (no_func_all_mappers Ef) as Hall.
    apply dvm_law_map; [apply c04_shape_dv_map | apply c04_hcat_dv_map | apply c04_mappers_plain | exact Ef]; exact Hall.
  Qed.
  (* ... and of the w-tilde class (the shape law of data_vector_via_w_tilde_data_imaging_from) *)
  Lemma c04_shape_dv_wt : shape_dv_wt KR.
  Proof. intros wtd M p. cbn [KR c04k k_dv_wt]. apply dv_wtd_length. Qed.

  (* all kernel identities of [laws_for], for every class and every Preloads object *)
  Theorem c04_laws_for mode p : laws_for KR inp mode p.
  Proof.
    split; [intros _; apply c04_law_dlf|]. split; [intros _; apply c04_law_momm|].
    intros _ Ef. destruct mode as [w|]; [apply dvm_law_wt; [apply c04_shape_dv_wt | exact Ef] | now apply c04_dvm_law_map].
  Qed.

  (* ---- C15's theorems for the concrete kernels: no kernel hypothesis left ---- *)
  Theorem c04_preload_transparent p qs :
    factory_slots_neutral inp p ->
    (forall mode, make_inversion KR inp p = Ok mode -> fresh_store KR inp mode p) ->
    fst (run_inversion KR inp code p qs) = fst (run_inversion KR inp code empty_store qs).
  Proof. intros Hn Hf. apply preload_transparent; [exact Hn|]. intros mode Hm. split; [now apply Hf | apply c04_laws_for]. Qed.
  Theorem c04_reuse_any_history p h :
    factory_slots_neutral inp p ->
    (forall mode, make_inversion KR inp p = Ok mode -> fresh_store KR inp mode p) ->
    fst (run_history KR inp code p h) = map (fun qs => fst (run_inversion KR inp code empty_store qs)) h /\
    frozen_eq p (snd (run_history KR inp code p h)).
  Proof. intros Hn Hf. apply reuse_any_history; [exact Hn|]. intros mode Hm. split; [now apply Hf | apply c04_laws_for]. Qed.
  Theorem c04_every_read_is_specified mode h p :
    make_inversion KR inp p = Ok mode -> fresh_store KR inp mode p ->
    fst (run_history KR inp code p h) = map (fun qs => Ok (map (pure KR inp mode) qs)) h.
  Proof. intros Hm Hf. apply every_read_is_specified; [exact Hm | exact Hf | apply c04_laws_for]. Qed.
End Instance.
