(* C02 -- proofs (at ROps) about the generated geometry model Gen/Gen_geometry.v and the hand model of the elliptical masks *)
From Coq Require Import ZArith Reals Lra Lia List Bool Psatz.
From PAV Require Import Base.NumOps Gen.Gen_geometry Model.C02 Model.C02x.
Import ListNotations.
Local Open Scope R_scope.

(* NumOps projections at ROps, and the derived constants *)
Ltac rops := cbn [T add sub mul div opp ofZ leb ltb eqb floorZ sqrtT ROps fst snd] in *.
Ltac rsimp := unfold two, half, one, zero, sq in *; rops.

(* ------------------------------------------------------------------ truncation *)
Lemma trunc_unique (p : R) (i : Z) : (0 <= i)%Z -> IZR i <= p < IZR i + 1 -> @trunc ROps p = i.
Proof.
  intros Hi [H1 H2]. apply IZR_le in Hi. rewrite trunc_R_nonneg by lra. apply Rfloor_unique; lra.
Qed.
Lemma trunc_IZR (k : Z) : @trunc ROps (IZR k) = k.
Proof.
  destruct (Z_lt_le_dec k 0) as [Hn|Hp].
  - apply IZR_lt in Hn. rewrite trunc_R_neg by lra. rewrite <- opp_IZR, Rfloor_IZR. lia.
  - apply trunc_unique; [lia|lra].
Qed.

Lemma div_bounds a s lo hi : 0 < s -> lo * s <= a < hi * s -> lo <= a / s < hi.
Proof.
  intros Hs [H1 H2]. assert (E : a = a / s * s) by (field; lra).
  split.
  - apply Rmult_le_reg_r with s; [lra|]. lra.
  - apply Rmult_lt_reg_r with s; [lra|]. lra.
Qed.
Lemma div_bounds' a s lo hi : 0 < s -> lo * s < a <= hi * s -> lo < a / s <= hi.
Proof.
  intros Hs [H1 H2]. assert (E : a = a / s * s) by (field; lra).
  split.
  - apply Rmult_lt_reg_r with s; [lra|]. lra.
  - apply Rmult_le_reg_r with s; [lra|]. lra.
Qed.

(* ------------------------------------------------------------------ scalar conversions (generated definitions) *)
Lemma central_scaled_2d_eq H W sy sx oy ox :
  @central_scaled_coordinate_2d_from ROps (H, W) (sy, sx) (oy, ox) =
  (IZR (H - 1) / 2 + oy / sy, IZR (W - 1) / 2 - ox / sx).
Proof. reflexivity. Qed.

(* centre formula, continuous form: pixel position (pi, pj) |-> scaled coordinate *)
Lemma scaled2_is_centre H W sy sx oy ox pi pj : sy <> 0 -> sx <> 0 ->
  @scaled_coordinates_2d_from ROps (pi, pj) (H, W) (sy, sx) (oy, ox) = (@cy_spec ROps H sy oy pi, @cx_spec ROps W sx ox pj).
Proof.
  intros Hy Hx. unfold scaled_coordinates_2d_from, central_scaled_coordinate_2d_from, central_pixel_coordinates_2d_from, cy_spec, cx_spec.
  rsimp. f_equal; field; assumption.
Qed.

Lemma pix2_inside H W sy sx oy ox y x i j :
  0 < sy -> 0 < sx -> (0 <= i)%Z -> (0 <= j)%Z ->
  @cy_spec ROps H sy oy (IZR i) - sy / 2 < y <= @cy_spec ROps H sy oy (IZR i) + sy / 2 ->
  @cx_spec ROps W sx ox (IZR j) - sx / 2 <= x < @cx_spec ROps W sx ox (IZR j) + sx / 2 ->
  @pixel_coordinates_2d_from ROps (y, x) (H, W) (sy, sx) (oy, ox) = (i, j).
Proof.
  intros Hsy Hsx Hi Hj Hy Hx.
  unfold pixel_coordinates_2d_from, central_pixel_coordinates_2d_from, cy_spec, cx_spec in *. rsimp.
  set (cy := IZR (H - 1) / 2) in *. set (cx := IZR (W - 1) / 2) in *.
  f_equal; apply trunc_unique; try assumption.
  - assert (B : IZR i - cy - 1 / 2 <= (- y + oy) / sy < IZR i - cy + 1 / 2) by (apply div_bounds; [assumption | nra]).
    lra.
  - assert (B : IZR j - cx - 1 / 2 <= (x - ox) / sx < IZR j - cx + 1 / 2) by (apply div_bounds; [assumption | nra]).
    lra.
Qed.

(* index -> centre -> index *)
Lemma pix2_of_centre H W sy sx oy ox i j : 0 < sy -> 0 < sx -> (0 <= i)%Z -> (0 <= j)%Z ->
  @pixel_coordinates_2d_from ROps (@scaled_coordinates_2d_from ROps (IZR i, IZR j) (H, W) (sy, sx) (oy, ox)) (H, W) (sy, sx) (oy, ox) = (i, j).
Proof.
  intros Hsy Hsx Hi Hj. rewrite scaled2_is_centre by lra. apply pix2_inside; try assumption; lra.
Qed.
(* centre -> index -> centre *)
Lemma centre_of_pix2_of_centre H W sy sx oy ox i j : 0 < sy -> 0 < sx -> (0 <= i)%Z -> (0 <= j)%Z ->
  let c := @centre_spec ROps (H, W) (sy, sx) (oy, ox) (i, j) in
  let p := @pixel_coordinates_2d_from ROps c (H, W) (sy, sx) (oy, ox) in
  @scaled_coordinates_2d_from ROps (IZR (fst p), IZR (snd p)) (H, W) (sy, sx) (oy, ox) = c.
Proof.
  intros Hsy Hsx Hi Hj c p.
  assert (E : p = (i, j)).
  { unfold p, c, centre_spec. rops. apply pix2_inside; try assumption; lra. }
  rewrite E. cbn [fst snd]. rewrite scaled2_is_centre by lra. reflexivity.
Qed.

(* ---- 1D *)
Lemma scaled1_is_centre n s o p : s <> 0 ->
  @scaled_coordinates_1d_from ROps p n s o = @cx_spec ROps n s o p.
Proof.
  intros Hs. unfold scaled_coordinates_1d_from, central_scaled_coordinate_1d_from, central_pixel_coordinates_1d_from, cx_spec.
  rsimp. field; assumption.
Qed.
Lemma pix1_inside n s o x j : 0 < s -> (0 <= j)%Z ->
  @cx_spec ROps n s o (IZR j) - s / 2 <= x < @cx_spec ROps n s o (IZR j) + s / 2 ->
  @pixel_coordinates_1d_from ROps x n s o = j.
Proof.
  intros Hs Hj Hx. unfold pixel_coordinates_1d_from, central_pixel_coordinates_1d_from, cx_spec in *. rsimp.
  set (c := IZR (n - 1) / 2) in *. apply trunc_unique; try assumption.
  assert (B : IZR j - c - 1 / 2 <= (x - o) / s < IZR j - c + 1 / 2) by (apply div_bounds; [assumption | nra]).
  lra.
Qed.
Lemma pix1_of_centre n s o j : 0 < s -> (0 <= j)%Z ->
  @pixel_coordinates_1d_from ROps (@scaled_coordinates_1d_from ROps (IZR j) n s o) n s o = j.
Proof. intros Hs Hj. rewrite scaled1_is_centre by lra. apply pix1_inside; try assumption; lra. Qed.

(* ------------------------------------------------------------------ slim-grid loops (generated definitions) *)
(* row-wise: each routine is a map, so a statement about one row is a statement about every row *)
Lemma map_as_flat_map {A B} (f : A -> B) l : map f l = flat_map (fun c => map f [c]) l.
Proof.
  induction l as [|a l IH]; [reflexivity|].
  change (f a :: map f l = map f [a] ++ flat_map (fun c => map f [c]) l). rewrite <- IH. reflexivity.
Qed.
Lemma pixels_rowwise g sh s o :
  @grid_pixels_2d_slim_from ROps g sh s o = flat_map (fun c => @grid_pixels_2d_slim_from ROps [c] sh s o) g.
Proof. unfold grid_pixels_2d_slim_from. cbv zeta. apply map_as_flat_map. Qed.
Lemma centres_rowwise g sh s o :
  @grid_pixel_centres_2d_slim_from ROps g sh s o = flat_map (fun c => @grid_pixel_centres_2d_slim_from ROps [c] sh s o) g.
Proof. unfold grid_pixel_centres_2d_slim_from. cbv zeta. apply map_as_flat_map. Qed.
Lemma indexes_rowwise g sh s o :
  @grid_pixel_indexes_2d_slim_from ROps g sh s o = flat_map (fun c => @grid_pixel_indexes_2d_slim_from ROps [c] sh s o) g.
Proof.
  unfold grid_pixel_indexes_2d_slim_from, grid_pixel_centres_2d_slim_from. cbv zeta.
  rewrite map_map. cbn [map]. apply map_as_flat_map.
Qed.
Lemma scaled_rowwise g sh s o :
  @grid_scaled_2d_slim_from ROps g sh s o = flat_map (fun c => @grid_scaled_2d_slim_from ROps [c] sh s o) g.
Proof. unfold grid_scaled_2d_slim_from. cbv zeta. apply map_as_flat_map. Qed.

(* the array version of the index computation performs the division before adding the origin term; over R it is the scalar one *)
Lemma centres_are_pix2 g H W sy sx oy ox : sy <> 0 -> sx <> 0 ->
  @grid_pixel_centres_2d_slim_from ROps g (H, W) (sy, sx) (oy, ox) =
  map (fun c => let p := @pixel_coordinates_2d_from ROps c (H, W) (sy, sx) (oy, ox) in (IZR (fst p), IZR (snd p))) g.
Proof.
  intros Hy Hx. unfold grid_pixel_centres_2d_slim_from. apply map_ext. intros [y x].
  unfold pixel_coordinates_2d_from, central_scaled_coordinate_2d_from, central_pixel_coordinates_2d_from. rsimp.
  f_equal; f_equal; f_equal; field; assumption.
Qed.
Lemma indexes_are_pix2 g H W sy sx oy ox : sy <> 0 -> sx <> 0 ->
  @grid_pixel_indexes_2d_slim_from ROps g (H, W) (sy, sx) (oy, ox) =
  map (fun c => let p := @pixel_coordinates_2d_from ROps c (H, W) (sy, sx) (oy, ox) in IZR (fst p * W + snd p)) g.
Proof.
  intros Hy Hx. unfold grid_pixel_indexes_2d_slim_from. cbv zeta. rewrite centres_are_pix2 by assumption.
  rewrite map_map. apply map_ext. intros c. rsimp. cbv zeta. rops.
  rewrite <- mult_IZR, <- plus_IZR, trunc_IZR. reflexivity.
Qed.

(* ------------------------------------------------------------------ pixel-centre grids of a mask *)
Lemma gather1_as_map_filter {A} (b : Z -> bool) (f : Z -> A) l :
  flat_map (fun x => if b x then [] else [f x]) l = map f (filter (fun x => negb (b x)) l).
Proof. induction l as [|a l IH]; [reflexivity|]. cbn [flat_map filter]. destruct (b a); cbn [negb map app]; now rewrite IH. Qed.
Lemma gather2_as_map_filter {A} (b : Z -> Z -> bool) (f : Z -> Z -> A) ly lx :
  flat_map (fun y => flat_map (fun x => if b y x then [] else [f y x]) lx) ly =
  map (fun p => f (fst p) (snd p)) (filter (fun p => negb (b (fst p) (snd p))) (flat_map (fun i => map (fun j => (i, j)) lx) ly)).
Proof.
  induction ly as [|y ly IH]; [reflexivity|]. cbn [flat_map]. rewrite filter_app, map_app, <- IH. f_equal.
  rewrite gather1_as_map_filter. clear IH. induction lx as [|x lx IH]; [reflexivity|].
  cbn [map filter fst snd]. destruct (b y x); cbn [negb map fst snd]; now rewrite IH.
Qed.

Lemma grid_mask_centres m sy sx oy ox : sy <> 0 -> sx <> 0 ->
  @grid_2d_slim_via_mask_from ROps m (sy, sx) (oy, ox) = map (@centre_spec ROps (rows m, cols m) (sy, sx) (oy, ox)) (unmasked m).
Proof.
  intros Hy Hx. unfold grid_2d_slim_via_mask_from. cbv zeta. rewrite gather2_as_map_filter.
  unfold unmasked, coords, mshape, rows, cols, zrange, seqZ, getm, mget2. cbn [fst snd].
  apply map_ext. intros [i j].
  unfold centre_spec, cy_spec, cx_spec, central_scaled_coordinate_2d_from, central_pixel_coordinates_2d_from. rsimp.
  f_equal; field; assumption.
Qed.
Lemma grid1_mask_centres m s o : s <> 0 ->
  @grid_1d_slim_via_mask_from ROps m s o = map (@centre1_spec ROps (Z.of_nat (length m)) s o) (unmasked1 m).
Proof.
  intros Hs. unfold grid_1d_slim_via_mask_from. cbv zeta. rewrite gather1_as_map_filter.
  unfold unmasked1, zrange, seqZ, mget1. apply map_ext. intros j.
  unfold centre1_spec, cx_spec, central_scaled_coordinate_1d_from, central_pixel_coordinates_1d_from. rsimp. field; assumption.
Qed.

(* ------------------------------------------------------------------ continuous pixel coordinates and their inverse *)
Lemma map_id_ext {A} (f : A -> A) l : (forall a, f a = a) -> map f l = l.
Proof. intros E. induction l as [|a l IH]; cbn; [reflexivity | now rewrite E, IH]. Qed.
Lemma scaled_of_pixels g H W sy sx oy ox : sy <> 0 -> sx <> 0 ->
  @grid_scaled_2d_slim_from ROps (@grid_pixels_2d_slim_from ROps g (H, W) (sy, sx) (oy, ox)) (H, W) (sy, sx) (oy, ox) = g.
Proof.
  intros Hy Hx. unfold grid_scaled_2d_slim_from, grid_pixels_2d_slim_from. cbv zeta. rewrite map_map.
  apply map_id_ext. intros [y x]. rsimp. f_equal; field; assumption.
Qed.
Lemma pixels_of_scaled g H W sy sx oy ox : sy <> 0 -> sx <> 0 ->
  @grid_pixels_2d_slim_from ROps (@grid_scaled_2d_slim_from ROps g (H, W) (sy, sx) (oy, ox)) (H, W) (sy, sx) (oy, ox) = g.
Proof.
  intros Hy Hx. unfold grid_scaled_2d_slim_from, grid_pixels_2d_slim_from. cbv zeta. rewrite map_map.
  apply map_id_ext. intros [y x]. rsimp. f_equal; field; assumption.
Qed.
Lemma pixels_are_spec g H W sy sx oy ox : sy <> 0 -> sx <> 0 ->
  @grid_pixels_2d_slim_from ROps g (H, W) (sy, sx) (oy, ox) = map (@pixels_spec ROps (H, W) (sy, sx) (oy, ox)) g.
Proof.
  intros Hy Hx. unfold grid_pixels_2d_slim_from. cbv zeta. apply map_ext. intros [y x].
  unfold pixels_spec, hi_spec, lo_spec, central_scaled_coordinate_2d_from, central_pixel_coordinates_2d_from. rsimp.
  rewrite !minus_IZR. f_equal; field; assumption.
Qed.
Lemma scaled_are_spec g H W sy sx oy ox : sy <> 0 -> sx <> 0 ->
  @grid_scaled_2d_slim_from ROps g (H, W) (sy, sx) (oy, ox) = map (@scaled_spec ROps (H, W) (sy, sx) (oy, ox)) g.
Proof.
  intros Hy Hx. unfold grid_scaled_2d_slim_from. cbv zeta. apply map_ext. intros [y x].
  unfold scaled_spec, hi_spec, lo_spec, central_scaled_coordinate_2d_from, central_pixel_coordinates_2d_from. rsimp.
  rewrite !minus_IZR. f_equal; field; assumption.
Qed.
(* the integer pixel index is the floor of the continuous pixel coordinate wherever that is non-negative *)
Lemma centres_are_floor_of_pixels g sh s o :
  Forall (fun p => 0 <= fst p /\ 0 <= snd p) (@grid_pixels_2d_slim_from ROps g sh s o) ->
  @grid_pixel_centres_2d_slim_from ROps g sh s o =
  map (fun p => (IZR (Rfloor (fst p)), IZR (Rfloor (snd p)))) (@grid_pixels_2d_slim_from ROps g sh s o).
Proof.
  unfold grid_pixel_centres_2d_slim_from, grid_pixels_2d_slim_from. cbv zeta. rewrite map_map.
  induction g as [|c g IH]; intros Hf; [reflexivity|]. cbn [map] in *. inversion Hf as [|? ? [H1 H2] Hf']; subst.
  rewrite IH by assumption. cbn [fst snd] in H1, H2. rops.
  rewrite !trunc_R_nonneg by assumption. reflexivity.
Qed.
