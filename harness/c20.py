"""C20 -- triangle up-sampling tiles exactly; neighbourhoods and selections are faithful."""
import random
import numpy as np
from fractions import Fraction
from harness.common import cz, cq, cnat, cbool, clist, ctup, cres, import_aa, frac, exn_name

ID = "C20"
GEN = []
PROPS = "Props/C20.v"
COQ_CHECK = ("Model.C20x", "check")
COQ_FALLBACK = None
COQ_IMPORTS = ""
SHARD = 80
RULE = ("SCALE SWEEP in every stream: all lengths of a case are multiplied by a power of two 2^k, k in [-40, 40] (about a third "
        "of the cases at k = 0), with offsets that are zero, scaled with the set, or O(1) next to a tiny side; every inexact "
        "comparison uses a tolerance RELATIVE to the side (1e-9 * side, floored at 2^-44 * largest coordinate), every containment "
        "decision is kept at a RELATIVE margin (1e-6 in barycentric / side units, widened by the rounding estimate of the case; "
        "cases inside the band are skipped and counted). "
        "ArrayTriangles: random index triples over random dyadic (k/4) vertices of either sign (arbitrary, also degenerate and "
        "repeated corners, duplicate vertex rows; a malformed stream with out-of-range index rows), connected meshes cut from a skewed lattice, and the output of "
        "ArrayTriangles.for_limits_and_scale; CoordinateArrayTriangles: random integer coordinates in [-5,5]^2 of both parities "
        "(duplicates included), side in {1/4,1/2,1,3/2,2,3} * 2^k, offsets, both flip states, the output of "
        "CoordinateArrayTriangles.for_limits_and_scale, and objects reached through up_sample()/neighborhood()/for_indexes() chains of the real "
        "classes, including chains of 10-16 consecutive up_sample() calls that follow one child cell / one child triangle (side down to "
        "2^-16 of the start, areas below 1e-9). Operations: .triangles, .area, len, .up_sample(), .neighborhood(), .for_indexes (random index lists with "
        "repeats), .with_vertices, .vertices/.indices, .containing_indices(shape) with Point/Circle/Square/Triangle/Polygon "
        "shapes (sizes from 0 and 1/64 of the side upwards) whose reference point is placed by barycentric coordinates inside / on an edge / on a corner / outside a chosen "
        "triangle. SESSIONS: one object receives 5-9 operations in a row (repeated reads, the same operation twice, two Shape objects "
        "re-used on different triangle sets and after the object was replaced by its own up_sample()/neighborhood()/for_indexes()/"
        "with_vertices() result, a coordinate array turned into an ArrayTriangles by with_vertices(vertices)); for ArrayTriangles the user "
        "also edits vertices[j] = p in place between reads (area, the pooled shapes and up_sample/neighborhood/for_indexes are called "
        "before the write and again after it; half of the writes carry away a corner of a triangle a pooled shape was just reported for); "
        "every session contains two different shapes on one object and one shape re-used on a different set of the same length (the "
        "selection rotated by one); with_vertices of a coordinate array is also called with vertices other than its own; "
        "after every call the arrays handed in (indices, vertices, coordinates, the selection, "
        "the replacement vertices) and the shape's attributes must be unchanged and a second read must equal the first. "
        "INPUT KINDS (phase 4; the value of every entry is the same in all kinds, so the model case is unchanged): vertex arrays as float64, "
        "int64 (integer coordinates), float32 (only where every operation is exact in 24 bits), strided views of larger arrays, Fortran order, "
        "read-only arrays, aa.Grid2DIrregular; index arrays as int64 / int32 / uint8 / strided / read-only; coordinate arrays as int64 / int32 / "
        "int8 / integer-valued float64 / strided / read-only; selections as ndarray (int64, int32, read-only), Python list, negative "
        "(wrap-around) positions and boolean masks; side and offsets as float / int / numpy scalar; constructor arguments that have their "
        "DEFAULT value left out (side_length, x_offset, y_offset, flipped; scale of for_limits_and_scale), positional and keyword calls; Shape "
        "arguments as floats / numpy scalars / ints / tuples / lists / ndarrays, positional or keyword, through a user SUBCLASS of each Shape "
        "class and through the pytree round trip tree_unflatten(tree_flatten()). "
        "DIRECTED RARE STATES: every non-point shape accepts a triangle by its own test of the triangle's centroid OR by the inherited "
        "reference-point test; shapes are searched (exact rational evaluation of both tests, sizes of width / height / radius / corner offsets "
        "independent from 1/16 to 3 scales, candidates aimed at the centroid of another triangle) until the set is in the state "
        "'mixed' (one triangle accepted only by the centroid test AND another only by the reference point: elongated boxes, small "
        "circles near a corner, thin triangles through the transposed test), 'ref_only', 'own_only' or 'unsorted' (box with top > bottom / "
        "left > right, negative radius); every session and chain contains such a shape; every (lattice parity, flipped) state of a single "
        "cell, an edge-sharing pair and a column of three goes through neighborhood / up_sample / triangles, also after up_sample(). "
        "SIBLINGS: for_grid (= for_limits_and_scale of the grid's extreme coordinates and pixel scale), .means, iteration and len of both "
        "classes are read with .triangles; sessions also re-wire an index row in place (A.indices[r] = ...) between reads. "
        "Comparisons: exact rationals wherever every double operation is exact (checked per case by replaying the arithmetic in rationals); "
        "Non-trivial = at least two triangles; distinct = distinct JSON input.")
EXHAUSTIVE = {}
TRUSTED = ["hand-written Gallina model coq/Model/C20.v of abstract.py / array.py / abstract_coordinate_array.py / "
           "coordinate_array.py / shape.py, tied to /repo by this correspondence run (comparison evaluated inside Coq by vm_compute, coq/Model/C20x.v)",
           "numpy: vertices[indices] fancy indexing, np.unique(axis=0, return_inverse) = lexicographically sorted distinct rows + "
           "row positions, np.sort(axis=1), np.where, np.arange(start, stop, step) = start + i*step for i < ceil((stop-start)/step), "
           "x/0 -> inf/nan whose comparisons are False, vertices[j] = p overwrites row j of the stored array",
           "HEIGHT_FACTOR is a parameter h of the model (theorems hold for every h, most need h > 0 or nothing); the run passes the "
           "exact rational value of the double 3**0.5/2",
           "doubles: ArrayTriangles inputs are dyadic so midpoints, reflections and areas are exact (verified per case); elsewhere a "
           "tolerance of 1e-9 * side (at least 2^-44 * largest coordinate)"]
ASSUMPTIONS = ["real arithmetic (no rounding); coincident corners computed along different floating-point paths may differ in the "
               "last bit in the implementation (np.unique then keeps both): geometric comparison at 1e-9 * side",
               "NaN coordinates (the jax variants' padding) are not modelled; index arrays are in range (numpy raises IndexError "
               "otherwise) and non-negative",
               "for_limits_and_scale (both classes) is covered by correspondence only",
               "CoordinateArrayTriangles caches .triangles / flip_mask / vertices (cached_property in the code as it is): in-place edits "
               "of its coordinates are outside the property; ArrayTriangles reads its arrays on every call and is edited in place in the sessions"]

_skipped = {"in_band": 0, "steps_in_band": 0}
def extra_evidence():
    return {"skipped_in_band": _skipped["in_band"], "session_steps_skipped_in_band": _skipped["steps_in_band"],
            "directed_shape_states": dict(_directed), "input_kinds": dict(_kinds)}
_kinds = {}
def note_kind(k): _kinds[k] = _kinds.get(k, 0) + 1

SIDES = [Fraction(1, 4), Fraction(1, 2), Fraction(1), Fraction(3, 2), Fraction(2), Fraction(3)]
MARGIN = Fraction(1, 10 ** 6)
REL_TOL = Fraction(1, 10 ** 9)
EPS = Fraction(1, 2 ** 50)          # a few ulps, relative
MAXMAG = 2 ** 30                    # largest coordinate / side that the generators produce

def F(s): return Fraction(s)
def S(x): return str(Fraction(x))

def rep(x, bits=53):
    """is the rational x a double (bits=53) / a float32 (bits=24)?"""
    x = Fraction(x)
    if bits == 53:
        try: return Fraction(float(x)) == x
        except OverflowError: return False
    d = x.denominator
    if d & (d - 1): return False
    n = abs(x.numerator)
    if n == 0: return True
    n >>= (n & -n).bit_length() - 1
    return n.bit_length() <= bits and Fraction(1, 2 ** 100) <= abs(x) <= 2 ** 100

def pow2_floor(x):
    x = Fraction(x)
    e = x.numerator.bit_length() - x.denominator.bit_length()
    p = Fraction(2) ** e
    while p > x: p /= 2
    while 2 * p <= x: p *= 2
    return p

def scale_of(tris):
    """power of two just below the largest coordinate difference inside a triangle (1 if every triangle is a point)"""
    m = Fraction(0)
    for t in tris:
        for i in range(3):
            for j in range(i + 1, 3):
                m = max(m, abs(t[i][0] - t[j][0]), abs(t[i][1] - t[j][1]))
    return pow2_floor(m) if m > 0 else Fraction(1)

def mag_of(tris, extra=()):
    m = Fraction(0)
    for t in tris:
        for v in t: m = max(m, abs(v[0]), abs(v[1]))
    for x in extra: m = max(m, abs(Fraction(x)))
    return m

def tols_for(sc, mag):
    """(length tolerance, squared-length tolerance of one triangle), relative to the side"""
    tlen = max(REL_TOL * sc, Fraction(mag) / 2 ** 44)
    return (tlen, 8 * sc * tlen + 4 * tlen * tlen)
def ctl(tl): return ctup([cq(tl[0]), cq(tl[1])])      # replaced below once cqd is defined
NOTL = (Fraction(0), Fraction(0))

# ----------------------------------------------------------------------------- generators
def pick_scale(rng):
    """a third at 1; most of the rest tiny (an absolute tolerance of 1e-8 .. 1e-12 hidden in the code shows below ~2^-30)"""
    r = rng.random()
    if r < 0.33: k = 0
    elif r < 0.66: k = -rng.randint(30, 40)
    elif r < 0.80: k = -rng.randint(8, 29)
    elif r < 0.88: k = -rng.randint(1, 7)
    else: k = rng.randint(1, 40)
    return Fraction(2) ** k

def pick_offset(rng, sc):
    """zero, scaled with the set, or O(1) next to a small side (largest coordinate / side stays below 2^30)"""
    r = rng.random()
    if r < 0.45: return [Fraction(0), Fraction(0)]
    if r < 0.75 or sc < Fraction(1, 2 ** 24) or sc >= 1:
        return [sc * Fraction(rng.randint(-24, 24), 4), sc * Fraction(rng.randint(-24, 24), 4)]
    return [Fraction(rng.randint(-6, 6), 4), Fraction(rng.randint(-6, 6), 4)]

def place(v, sc, off): return [S(off[0] + sc * v[0]), S(off[1] + sc * v[1])]

def rand_pt(rng, lo=-8, hi=8, den=4):
    return [Fraction(rng.randint(lo, hi), den), Fraction(rng.randint(lo, hi), den)]

def gen_array(rng, sc=None, off=None):
    if sc is None: sc = pick_scale(rng)
    if off is None: off = pick_offset(rng, sc)
    A = gen_unit_array(rng)
    return {"idx": A["idx"], "verts": [place(v, sc, off) for v in A["verts"]], "sc": S(sc), "off": [S(off[0]), S(off[1])]}

def gen_unit_array(rng):
    style = rng.choice(["random", "random", "mesh", "mesh", "dup", "single"])
    if style == "single":
        vs = [rand_pt(rng) for _ in range(3)]
        return {"idx": [[0, 1, 2]], "verts": vs}
    if style == "mesh":
        # skewed lattice p = o + i*u + j*v ; cells split into two triangles; random subset
        o = [Fraction(rng.randint(-4, 4), 4), Fraction(rng.randint(-4, 4), 4)]
        u = [Fraction(rng.randint(1, 6), 2), Fraction(rng.randint(-2, 2), 2)]
        v = [Fraction(rng.randint(-2, 2), 2), Fraction(rng.randint(1, 6), 2)]
        if rng.random() < 0.3: u, v = v, u       # orientation of either sign
        ni, nj = rng.randint(1, 3), rng.randint(1, 2)
        pts = {}
        def pid(i, j):
            if (i, j) not in pts: pts[(i, j)] = len(pts)
            return pts[(i, j)]
        tris = []
        for i in range(ni):
            for j in range(nj):
                if rng.random() < 0.8: tris.append([pid(i, j), pid(i + 1, j), pid(i, j + 1)])
                if rng.random() < 0.8: tris.append([pid(i + 1, j), pid(i, j + 1), pid(i + 1, j + 1)])
        if not tris: tris.append([pid(0, 0), pid(1, 0), pid(0, 1)])
        verts = [None] * len(pts)
        for (i, j), k in pts.items():
            verts[k] = [o[0] + i * u[0] + j * v[0], o[1] + i * u[1] + j * v[1]]
        for t in tris: rng.shuffle(t)
        return {"idx": tris, "verts": verts}
    nv = rng.randint(3, 7)
    vs = [rand_pt(rng, -6, 6, rng.choice([1, 2, 4])) for _ in range(nv)]
    if style == "dup":
        vs.append(list(vs[rng.randrange(nv)])); vs.append(list(vs[rng.randrange(nv)])); nv += 2
    nt = rng.randint(1, 5)
    idx = []
    for _ in range(nt):
        if rng.random() < 0.12: idx.append([rng.randrange(nv) for _ in range(3)])      # corners may repeat
        else: idx.append(rng.sample(range(nv), 3))
    return {"idx": idx, "verts": vs}

def gen_coord(rng, sc=None, small=False):
    if sc is None: sc = pick_scale(rng)
    n = rng.choice([1, 1, 2, 3, 4, 5, 6]) if not small else rng.choice([1, 1, 2])
    r = rng.choice([1, 2, 5])
    coords = [[rng.randint(-r, r), rng.randint(-r, r)] for _ in range(n)]
    if n > 2 and rng.random() < 0.2: coords.append(list(coords[0]))
    if rng.random() < 0.3 and not small:      # an edge-connected cluster
        x, y = coords[0]
        coords = [[x, y], [x + 1, y], [x - 1, y], [x, y + 1], [x, y - 1]][:rng.randint(2, 5)]
    side = rng.choice(SIDES) * sc
    off = pick_offset(rng, sc)
    return {"coords": coords, "side": S(side), "xo": S(off[0]), "yo": S(off[1]), "fl": rng.random() < 0.5,
            "pre": rng.choice([[], [], [], [], ["up"], ["nbr"], ["up", "nbr"], ["nbr", "up"]]) if n <= 2 else
                   rng.choice([[], [], [], ["nbr"]]) if n <= 4 else []}

SIZES = [Fraction(0), Fraction(0), Fraction(1, 64), Fraction(1, 16), Fraction(1, 4), Fraction(1, 4), Fraction(1, 2), Fraction(3, 4),
         Fraction(1), Fraction(3, 2), Fraction(2), Fraction(3)]
WANTS = ["mixed", "mixed", "mixed", "ref_only", "own_only"]
def gen_shape(rng, inside=False, want=None):
    """shape described relative to a target triangle: barycentric position of its reference point; sizes in units of the
    set's scale"""
    kind = rng.choice(["point", "point", "circle", "square", "triangle", "polygon"])
    pos = rng.choice(["inside", "inside", "inside", "edge", "corner", "outside", "outside", "far"])
    if inside: pos = "inside"
    den = rng.choice([2, 4, 8])
    if pos == "inside":
        a = rng.randint(1, den - 1) if den > 2 else 1; b = rng.randint(0, den - a)
        bc = [Fraction(a, den), Fraction(b, den)]
        if rng.random() < 0.4: bc = [Fraction(rng.randint(1, 5), 12), Fraction(rng.randint(1, 5), 12)]
    elif pos == "edge": bc = rng.choice([[Fraction(0), Fraction(rng.randint(1, den - 1), den)],
                                         [Fraction(rng.randint(1, den - 1), den), Fraction(0)],
                                         [Fraction(1, 2), Fraction(1, 2)]])
    elif pos == "corner": bc = rng.choice([[Fraction(1), Fraction(0)], [Fraction(0), Fraction(1)], [Fraction(0), Fraction(0)]])
    elif pos == "outside": bc = [Fraction(rng.randint(-den, 2 * den), den), Fraction(rng.randint(-den, 2 * den), den)]
    else: bc = [Fraction(rng.randint(-20, 20)), Fraction(rng.randint(-20, 20))]
    d = {"kind": kind, "bc": [S(x) for x in bc], "which": rng.randrange(10 ** 6),
         "size": S(rng.choice(SIZES)), "aspect": S(Fraction(rng.randint(1, 12), 4)),
         "dscale": S(rng.choice([Fraction(1, 16), Fraction(1, 4), Fraction(1), Fraction(1)])),
         "seed": rng.randrange(10 ** 9)}
    r2 = random.Random(d["seed"] + 1)          # (a separate stream: the cases above stay what they were)
    d["pk"] = r2.choice(PKINDS)
    if want:
        d["kind"] = r2.choice(["circle", "square", "square", "triangle", "polygon"]) if want is True or kind == "point" else kind
        d["want"] = r2.choice(WANTS) if want is True else want
        if d["want"] == "mixed" and d["kind"] == "square" and r2.random() < 0.2: d["want"] = "unsorted"
    return d

A_STEPS = ["recontain", "tris", "tris", "area", "up", "up", "nbr", "for", "with", "contain", "contain", "contain", "edit", "edit",
           "move_up", "move_nbr", "move_for", "move_with"]
C_STEPS = ["recontain", "tris", "tris", "area", "up", "up", "nbr", "for", "repr", "contain", "contain", "contain",
           "move_up", "move_nbr", "move_for", "to_array"]
def gen_steps(rng, names, n):
    ks = [rng.choice(names) for _ in range(n)]
    # every session asks one object about two different shapes and re-uses a shape on a different set of the same length
    for must in ("contain", "recontain", "contain"):
        ks.insert(rng.randint(0, len(ks)), must)
    steps, nslot = [], 0
    for k in ks:
        st = {"k": k, "seed": rng.randrange(10 ** 9)}
        if k in ("contain", "recontain"):
            st["slot"] = nslot % 2 if nslot < 2 else rng.randrange(2)
            nslot += 1
            st["shape"] = gen_shape(rng, inside=k == "recontain", want=True if (k == "contain" and nslot % 2 == 0) else None)   # used when the slot is still empty
        steps.append(st)
    return steps

def with_kinds(rng, A, session=False):
    A["vk"] = rng.choice(["f64", "f64", "view", "fortran", "ro"] if session else VKINDS); A["ik"] = rng.choice(IKINDS)
    return A
def gen_array_k(rng, session=False, vk=None):
    """an ArrayTriangles input with its storage kinds; integer storage needs integer coordinates"""
    if vk is None: vk = rng.choice(["f64", "f64", "view", "fortran", "ro"] if session else VKINDS)
    if vk == "int":
        # mostly the smallest integer scale, every coordinate jittered by 0 / 1: corner sums are odd, midpoints half-integers
        # (a result buffer that inherits the integer dtype truncates them)
        small = rng.random() < 0.75
        sc = Fraction(4 * 2 ** (0 if small else rng.randint(1, 12)))
        A = gen_array(rng, sc=sc, off=[sc * rng.randint(-6, 6), sc * rng.randint(-6, 6)])
        if small: A["verts"] = [[S(F(v[0]) + rng.randint(0, 1)), S(F(v[1]) + rng.randint(0, 1))] for v in A["verts"]]
    elif vk == "f32":
        sc = pick_scale(rng)
        A = gen_array(rng, sc=sc, off=[sc * Fraction(rng.randint(-24, 24), 4), sc * Fraction(rng.randint(-24, 24), 4)])
    else: A = gen_array(rng)
    A["vk"] = vk; A["ik"] = rng.choice(IKINDS)
    return A
def gen_coord_k(rng, small=False, sc=None):
    C = gen_coord(rng, sc=sc, small=small)
    r = rng.random()
    if r < 0.2:        # the all-defaults configuration, arguments left out
        C.update(side="1", xo="0", yo="0", fl=False)
    elif r < 0.35: C.update(xo="0", yo="0")
    elif r < 0.45: C.update(side="1")
    C["dflt"] = rng.random() < 0.6
    C["ck"] = rng.choice(CKINDS); C["sk"] = rng.choice(["float", "float", "int", "np"]); C["posargs"] = rng.random() < 0.15
    return C

def gen_inputs(tier, rng):
    big = tier == "thorough"
    n = 300 if big else 24
    KCYCLE = ["f64", "int", "f32", "view", "f64", "fortran", "ro", "irr", "int"]       # every storage kind in every run
    SCYCLE = ["arr", "list", "neg", "bool", "i32", "ro", "arr"]
    for i in range(n):
        A = gen_array_k(rng, vk=KCYCLE[i % len(KCYCLE)])
        for op in ("a_tris", "a_up", "a_nbr"):
            yield dict(A, op=op)
        nt = len(A["idx"])
        yield dict(A, op="a_for", sel=[rng.randrange(nt) for _ in range(rng.randint(0 if i % 7 == 0 else 1, nt + 1))],
                   selk=SCYCLE[i % len(SCYCLE)], seed=rng.randrange(10 ** 9))
        sc, off = F(A["sc"]), [F(A["off"][0]), F(A["off"][1])]
        yield dict(A, op="a_with", verts2=[place(rand_pt(rng), sc, off) for _ in A["verts"]])
        for _ in range(2): yield dict(A, op="a_contain", shape=gen_shape(rng))
        yield dict(A, op="a_contain", shape=gen_shape(rng, want=True))
    # directed: rare states of the containment tests on meshes (neighbouring triangles), every non-point kind
    DIRECTED = [("circle", "mixed"), ("square", "mixed"), ("triangle", "mixed"), ("polygon", "mixed"), ("circle", "mixed"),
                ("square", "ref_only"), ("triangle", "own_only"), ("polygon", "ref_only"), ("circle", "own_only"),
                ("square", "mixed"), ("circle", "mixed"), ("square", "own_only"), ("square", "unsorted")]
    for i in range(78 if big else 13):
        A = gen_array_k(rng)
        while len(A["idx"]) < 3: A = gen_array_k(rng)
        kind, want = DIRECTED[i % len(DIRECTED)]
        yield dict(A, op="a_contain", shape=dict(gen_shape(rng, want=want), kind=kind))
    for i in range(n):
        C = gen_coord_k(rng)
        for op in ("c_tris", "c_up", "c_nbr", "c_repr"):
            yield dict(C, op=op)
        yield dict(C, op="c_for", selseed=rng.randrange(10 ** 9), selk=SCYCLE[(i + 3) % len(SCYCLE)])
        for _ in range(2): yield dict(C, op="c_contain", shape=gen_shape(rng))
        yield dict(C, op="c_contain", shape=gen_shape(rng, want=True))
    # directed: every (lattice parity, flipped) state of a single cell and of an edge-sharing pair, through every operation
    # whose code branches on it (flag-dependent row / column offsets), also on the result of up_sample() (always flipped)
    k = 0
    for fl in (False, True):
        for par in (0, 1):
            x = rng.randint(-4, 4); y = rng.randint(-4, 4)
            if (x + y) % 2 != par: y += 1
            sc = pick_scale(rng)
            for coords in ([[x, y]], [[x, y], [x + 1, y]], [[x, y], [x, y + 1], [x, y - 1]]):
                for pre in ([], ["up"]):
                    if pre and len(coords) > 1: continue
                    base = {"coords": coords, "side": S(rng.choice(SIDES) * sc), "xo": S(sc * rng.randint(-3, 3)),
                            "yo": S(sc * Fraction(rng.randint(-6, 6), 2)), "fl": fl, "pre": pre, "ck": CKINDS[k % len(CKINDS)],
                            "dflt": True}
                    k += 1
                    for op in ("c_nbr", "c_up", "c_tris"): yield dict(base, op=op)
                    if len(coords) == 2:
                        yield dict(base, op="c_contain", shape=gen_shape(rng, want="mixed"))
    for i in range(n // 2):
        sc = pick_scale(rng)
        off = pick_offset(rng, sc)
        lo = [off[j] + sc * Fraction(rng.randint(-8, 8), 4) for j in range(2)]
        ext = [sc * Fraction(rng.randint(0, 6), 4) for _ in range(2)]
        side = rng.choice(SIDES[1:]) * sc
        L = {"lims": [S(lo[0]), S(lo[0] + ext[0]), S(lo[1]), S(lo[1] + ext[1])], "scale": S(side)}
        yield dict(L, op="a_limits")
        Lc = dict(L, scale="1") if sc <= 1 and rng.random() < 0.5 else L          # scale has a default (1.0) in this constructor
        yield dict(Lc, op="c_limits", dflt=rng.random() < 0.6)
        yield dict(L, op=rng.choice(["al_up", "al_nbr", "al_for", "al_contain"]), seed=rng.randrange(10 ** 9), shape=gen_shape(rng))
    # for_grid: the limits of a uniform grid (any shape, pixel scale, origin) handed to for_limits_and_scale
    for i in range(30 if big else 5):
        ps = Fraction(rng.choice([1, 1, 2, 3])) * Fraction(2) ** rng.randint(-4, 3)
        yield {"op": "a_grid", "shape": [rng.randint(2, 4), rng.randint(1, 4)], "ps": S(ps),
               "origin": [S(ps * Fraction(rng.randint(-8, 8), 2)), S(ps * Fraction(rng.randint(-8, 8), 2))]}
    # sessions: one object, several calls (repeats, re-used shapes, in-place edits, the object replaced by its own results)
    for i in range(200 if big else 26):
        A = gen_array_k(rng, session=True)
        yield dict(A, op="a_session", steps=gen_steps(rng, A_STEPS, rng.randint(5, 9)))
    for i in range(200 if big else 26):
        C = gen_coord_k(rng, small=rng.random() < 0.5)
        C["pre"] = []
        yield dict(C, op="c_session", steps=gen_steps(rng, C_STEPS, rng.randint(5, 9)))
    # chains of consecutive up_sample() calls following one child (depth 10-16): sides down to 2^-16 of the start
    for i in range(24 if big else 5):
        depth = rng.randint(10, 16)
        sc = rng.choice([Fraction(1), Fraction(1), Fraction(1, 2 ** 10), Fraction(2) ** 20])
        A = gen_array(rng, sc=sc)
        A["idx"] = A["idx"][:2]
        yield dict(A, op="a_chain", picks=[rng.randrange(10 ** 6) for _ in range(depth)], shape=gen_shape(rng),
                   shape2=gen_shape(rng, want=True))
        C = gen_coord(rng, sc=sc, small=True)
        C["pre"] = []
        yield dict(C, op="c_chain", picks=[rng.randrange(10 ** 6) for _ in range(depth)], shape=gen_shape(rng),
                   shape2=gen_shape(rng, want=True))
    for i in range(30 if big else 8):
        yield {"op": "shape_init", "nv": i % 5, "seed": rng.randrange(10 ** 9), "sc": S(pick_scale(rng)), "pk": PKINDS[i % len(PKINDS)]}
    # malformed stream: an index row that addresses no vertex (numpy raises IndexError)
    for i in range(40 if big else 10):
        A = gen_array(rng)
        if i % 3:
            r = rng.randrange(len(A["idx"])); A["idx"][r][rng.randrange(3)] = len(A["verts"]) + rng.randint(0, 2)
        yield dict(A, op="a_checked", ik=IKINDS[i % len(IKINDS)])

# ----------------------------------------------------------------------------- Coq printing
def dy_parts(x):
    """(m, e) with x = m * 2^e, or None if x is not dyadic"""
    x = Fraction(x); d = x.denominator
    if d & (d - 1): return None
    n, e = x.numerator, -(d.bit_length() - 1)
    if d == 1 and n:
        tz = (n & -n).bit_length() - 1
        if tz > 8: n >>= tz; e = tz
    return n, e
def cqd(x):
    pr = dy_parts(x)
    return cq(x) if pr is None else f"(D {cz(pr[0])} {cz(pr[1])})"
def cpt(p):
    a, b = dy_parts(p[0]), dy_parts(p[1])
    if a is None or b is None: return ctup([cq(p[0]), cq(p[1])])
    return f"(P {cz(a[0])} {cz(a[1])} {cz(b[0])} {cz(b[1])})"
def ctri(t): return f"(Tr {cpt(t[0])} {cpt(t[1])} {cpt(t[2])})"
def ctris(ts): return clist([ctri(t) for t in ts])
def cidx(rows): return clist([f"(I3 {int(r[0])} {int(r[1])} {int(r[2])})" for r in rows])
def catri(idx, verts): return ctup([cidx(idx), clist([cpt(v) for v in verts])])
def czpts(cs): return clist([f"(Zp {cz(c[0])} {cz(c[1])})" for c in cs])
def ccs(c): return f"(mkq {czpts(c['coords'])} {cqd(c['side'])} {cqd(c['xo'])} {cqd(c['yo'])} {cbool(c['fl'])})"
def cnats(l): return "(NL " + clist([str(int(i)) for i in l]) + ")"

def fr_tris(arr): return [[[frac(v[0]), frac(v[1])] for v in t] for t in np.asarray(arr)]
def fr_pts(arr): return [[frac(v[0]), frac(v[1])] for v in np.asarray(arr)]
def int_rows(arr): return [[int(x) for x in r] for r in np.asarray(arr)]
def atri_of(obj): return int_rows(obj.indices), fr_pts(obj.vertices)
def cs_of(obj):
    co = np.asarray(obj.coordinates)
    ints = [[int(round(float(x))) for x in r] for r in co]
    assert all(float(a) == b for r, ri in zip(co, ints) for a, b in zip(r, ri)), "non-integer lattice coordinates"
    return {"coords": ints, "side": frac(obj.side_length), "xo": frac(obj.x_offset), "yo": frac(obj.y_offset),
            "fl": bool(obj.flipped)}

def cshape(sh):
    k = sh[0]
    if k == "point": return f"(QPoint {cpt(sh[1])})"
    if k == "circle": return f"(QCircle {cpt(sh[1])} {cqd(sh[2])})"
    if k == "triangle": return f"(QTriangle {cpt(sh[1])} {cpt(sh[2])} {cpt(sh[3])})"
    if k == "polygon": return f"(QPolygon {clist([cpt(p) for p in sh[1]])})"
    if k == "square": return f"(QSquare {cqd(sh[1])} {cqd(sh[2])} {cqd(sh[3])} {cqd(sh[4])})"
    raise ValueError(k)

PKINDS = ["float", "float", "np", "int", "arr", "lst", "sub", "pos", "tree"]
_subclasses = {}
def _sub(cls):
    """a user-defined SUBCLASS of a Shape class (nothing overridden): must be treated like the class itself"""
    if cls not in _subclasses: _subclasses[cls] = type("My" + cls.__name__, (cls,), {})
    return _subclasses[cls]
def py_shape(sh, pk="float"):
    """the Shape object; pk = KIND of the arguments: Python floats, numpy float64 scalars, Python ints where the value is an
    integer, numpy arrays / lists instead of tuples for corners, positional instead of keyword arguments, a subclass"""
    from autoarray.structures.triangles import shape as SH
    k = sh[0]
    def fl(x):
        x = Fraction(x)
        if pk == "np": return np.float64(float(x))
        if pk == "int" and x.denominator == 1 and abs(x) < 2 ** 50: return int(x)
        return float(x)
    def corner(p):
        if pk == "arr": return np.array([float(p[0]), float(p[1])])
        if pk == "lst": return [float(p[0]), float(p[1])]
        return (fl(p[0]), fl(p[1]))
    cls = {"point": SH.Point, "circle": SH.Circle, "triangle": SH.Triangle, "polygon": SH.Polygon, "square": SH.Square}[k]
    if pk == "sub": cls = _sub(cls)
    if pk == "tree" and "tree_unflatten" in vars(cls):      # (Square only inherits Point's, which cannot rebuild a Square)
        # sibling constructor: the pytree round trip tree_unflatten(tree_flatten()) rebuilds the shape
        children, aux = py_shape(sh, "float").tree_flatten()
        return cls.tree_unflatten(aux, children)
    if k == "point": return cls(fl(sh[1][0]), fl(sh[1][1])) if pk == "pos" else cls(x=fl(sh[1][0]), y=fl(sh[1][1]))
    if k == "circle":
        if pk == "pos": return cls(fl(sh[1][0]), fl(sh[1][1]), fl(sh[2]))
        return cls(x=fl(sh[1][0]), y=fl(sh[1][1]), radius=fl(sh[2]))
    if k == "triangle": return cls(*[corner(p) for p in sh[1:4]])
    if k == "polygon":
        if pk == "arr": return cls(np.array([[float(p[0]), float(p[1])] for p in sh[1]]).reshape(-1, 2))
        return cls([corner(p) for p in sh[1]])
    if k == "square":
        if pk == "pos": return cls(fl(sh[1]), fl(sh[2]), fl(sh[3]), fl(sh[4]))
        return cls(right=fl(sh[4]), top=fl(sh[1]), left=fl(sh[3]), bottom=fl(sh[2]))
    raise ValueError(k)

def shape_state(sh, P):
    """the attributes of the Shape object that its mask reads (to verify that a call does not change them)"""
    k = sh[0]
    st = [float(P.x), float(P.y)]
    if k == "circle": st.append(float(P.radius))
    if k == "triangle": st += [float(c) for q in (P.a, P.b, P.c) for c in q]
    if k == "polygon": st += [float(c) for q in P.vertices for c in q] + [float(c) for t in P.triangles for q in (t.a, t.b, t.c) for c in q]
    if k == "square": st += [float(P.top), float(P.bottom), float(P.left), float(P.right)]
    return st

# ----------------------------------------------------------------------------- exact margins of the containment decisions
# Everything below works on NORMALISED coordinates (divided by the power-of-two scale of the triangle set), so every
# margin is relative to the side of the triangles.
def is_dy(x):
    """small dyadic: every sum / product of a few of these is exact in double arithmetic"""
    x = Fraction(x); d = x.denominator
    return d & (d - 1) == 0 and d <= 1024 and abs(x) <= 4096
def mean_fr(l): return sum(l, Fraction(0)) / len(l)

class Band(Exception): pass

class Ctx:
    """uncertainties in NORMALISED units.  u: of a triangle corner as the implementation sees it versus the model (0 when the
    model is given the implementation's own doubles: the code then only forms exact differences of them); m: rounding of a
    computed quantity of the size of the coordinates (centroid, mean, midpoint of a square); magn: largest |coordinate| / scale"""
    def __init__(self, sc, mag, inexact_tris):
        self.sc = sc
        self.magn = Fraction(mag) / sc
        self.u = self.magn / 2 ** 46 if inexact_tris else Fraction(0)
        self.m = self.magn / 2 ** 50
        self.exact = not inexact_tris

def dec(margin, exact_ok, need=MARGIN):
    """a comparison whose two sides differ by `margin` (exactly): refuse the case if rounding could flip it"""
    m = abs(margin)
    if m >= need: return
    if m == 0 and exact_ok: return
    raise Band()

def bary_dec(p, a, b, c, exact_in, up, uc):
    """the six comparisons of the barycentric test of p in (a, b, c).  exact_in: p and the corners are exactly what the
    implementation uses; up / uc: absolute uncertainty of p / of a corner"""
    D1, D2, D3, D4 = b[1] - c[1], a[0] - c[0], c[0] - b[0], a[1] - c[1]
    P0, P1 = p[0] - c[0], p[1] - c[1]
    E1, E2 = c[1] - a[1], a[0] - c[0]
    den = D1 * D2 + D3 * D4
    # the code only uses coordinate differences: with exact inputs whose differences are small dyadics every product and sum is exact
    exact = exact_in and all(is_dy(x) for x in (D1, D2, D3, D4, P0, P1, E1))
    if den == 0:
        if not exact: raise Band()
        return
    L2 = max(D1 * D1 + D3 * D3, D2 * D2 + D4 * D4, (a[0] - b[0]) ** 2 + (a[1] - b[1]) ** 2)
    if abs(den) < MARGIN * L2: raise Band()           # too thin relative to its own size
    ad = abs(den)
    dden = EPS * (abs(D1 * D2) + abs(D3 * D4)) + 2 * uc * (abs(D1) + abs(D2) + abs(D3) + abs(D4))
    def coord(F1, G1, F2, G2):
        num = F1 * G1 + F2 * G2
        v = num / den
        dnum = EPS * (abs(F1 * G1) + abs(F2 * G2)) + 2 * uc * (abs(G1) + abs(G2)) + (up + uc) * (abs(F1) + abs(F2))
        return v, (dnum + abs(v) * dden) / ad + EPS * abs(v)
    ca, da = coord(D1, P0, D3, P1)
    cb, db = coord(E1, P0, E2, P1)
    cc = 1 - ca - cb
    # with small dyadic differences numerators and denominator are exact, so a quotient that is exactly 0 or 1 is computed
    # exactly; 1 - ca - cb is exact only if both quotients are themselves small dyadics
    for v, d in ((ca, da), (cb, db)):
        need = max(MARGIN, 64 * d)
        dec(v, exact, need); dec(1 - v, exact, need)
    okc = exact and is_dy(ca) and is_dy(cb)
    need = max(MARGIN, 64 * (da + db) + EPS)
    dec(cc, okc, need); dec(1 - cc, okc, need)

def ref_of(sh):
    k = sh[0]
    if k in ("point", "circle"): return sh[1]
    if k == "triangle": return [mean_fr([p[0] for p in sh[1:4]]), mean_fr([p[1] for p in sh[1:4]])]
    if k == "polygon": return [mean_fr([p[0] for p in sh[1]]), mean_fr([p[1] for p in sh[1]])]
    if k == "square": return [(sh[3] + sh[4]) / 2, (sh[1] + sh[2]) / 2]

def mean_exact(vals, sc):
    """is the mean of these (normalised) numbers computed without rounding (sequential sum, then one division)?"""
    s = Fraction(0)
    for v in vals:
        s += v
        if not rep(s * sc): return False
    return rep(s / len(vals) * sc)

def tri_shape_dec(a, b, c, t, cen, cen_exact, ctx):
    sw = lambda p: [p[1], p[0]]
    # Triangle.triangle_contains_mask: the corners of the shape are exact inputs, the centroid of the triangle is computed
    bary_dec(cen, sw(a), sw(b), sw(c), cen_exact, ctx.u + ctx.m, Fraction(0))
    # Point.mask with the mean of the shape's corners
    r = [mean_fr([a[0], b[0], c[0]]), mean_fr([a[1], b[1], c[1]])]
    r_exact = mean_exact([a[0], b[0], c[0]], ctx.sc) and mean_exact([a[1], b[1], c[1]], ctx.sc)
    bary_dec(r, t[0], t[1], t[2], ctx.exact and r_exact, Fraction(0) if r_exact else ctx.m, ctx.u)

def scale_shape(sh, f):
    k = sh[0]
    sp = lambda q: [q[0] * f, q[1] * f]
    if k == "point": return ("point", sp(sh[1]))
    if k == "circle": return ("circle", sp(sh[1]), sh[2] * f)
    if k == "square": return ("square",) + tuple(x * f for x in sh[1:])
    if k == "triangle": return ("triangle",) + tuple(sp(q) for q in sh[1:])
    return ("polygon", [sp(q) for q in sh[1]])

def check_band(sh, tris, inexact_tris):
    """raise Band if some decision of shape.mask(tris) is within the rounding band.  `inexact_tris`: the model's triangles are
    not bit-for-bit the implementation's (coordinate arrays)"""
    sc = scale_of(tris)
    ref = ref_of(sh)
    ctx = Ctx(sc, mag_of(tris, [ref[0], ref[1]]), inexact_tris)
    if ctx.magn > 4 * MAXMAG: raise Band()
    shn = scale_shape(sh, 1 / sc)
    trn = [[[v[0] / sc, v[1] / sc] for v in t] for t in tris]
    k = shn[0]
    r = ref_of(shn)
    # the reference point the implementation uses: given (point, circle) or computed by a mean (rounded)
    if k in ("point", "circle"): r_exact = True
    elif k == "square": r_exact = all(rep(x * sc) for x in (shn[3] + shn[4], shn[1] + shn[2], r[0], r[1]))
    elif k == "triangle": r_exact = mean_exact([q[0] for q in shn[1:4]], sc) and mean_exact([q[1] for q in shn[1:4]], sc)
    else: r_exact = mean_exact([q[0] for q in shn[1]], sc) and mean_exact([q[1] for q in shn[1]], sc)
    ur = Fraction(0) if r_exact else ctx.m
    for t in trn:
        cen = [mean_fr([v[0] for v in t]), mean_fr([v[1] for v in t])]
        cen_exact = ctx.exact and mean_exact([v[0] for v in t], sc) and mean_exact([v[1] for v in t], sc)
        uce = ctx.u + (Fraction(0) if cen_exact else ctx.m)
        bary_dec(r, t[0], t[1], t[2], ctx.exact and r_exact, ur, ctx.u)
        if k == "circle":
            a, b = cen[0] - r[0], cen[1] - r[1]
            d2 = a * a + b * b
            r2 = shn[2] ** 2
            ex = cen_exact and is_dy(a) and is_dy(b) and is_dy(shn[2])
            D = max(d2, r2)
            if D == 0:
                if not ex: raise Band()
                continue
            rootD = Fraction(float(D) ** 0.5) + Fraction(1, 2 ** 40)
            need = max(MARGIN * D, 64 * (4 * uce * rootD + 4 * uce * uce + EPS * D))
            dec(d2 - r2, ex, need)
        elif k == "square":
            need = max(MARGIN, 64 * uce)
            for m in (cen[0] - shn[3], shn[4] - cen[0], shn[2] - cen[1], cen[1] - shn[1]): dec(m, cen_exact, need)
        elif k == "triangle":
            tri_shape_dec(shn[1], shn[2], shn[3], t, cen, cen_exact, ctx)
        elif k == "polygon":
            vs = shn[1]
            for s2, s3 in zip(vs[1:], vs[2:]): tri_shape_dec(vs[0], s2, s3, t, cen, cen_exact, ctx)

NUDGES = [(0, 0), (Fraction(1, 16), Fraction(1, 32)), (Fraction(-3, 64), Fraction(1, 16)), (Fraction(5, 128), Fraction(-7, 128)),
          (Fraction(11, 64), Fraction(13, 128))]
def shape_for(desc, tris, inexact_tris):
    """the requested shape, nudged off the rounding band if necessary; None if every attempt is inside the band"""
    if desc.get("want") and desc["kind"] != "point":
        sh = directed_shape(desc, tris, inexact_tris)
        if sh is not None: return sh
    for nd in NUDGES:
        sh = build_shape(desc, tris, nd)
        try:
            check_band(sh, tris, inexact_tris)
            return sh
        except Band:
            continue
    return None

# ---- exact evaluation of the two tests every non-point shape combines (used only to STEER the generator towards rare states;
# the verdict is computed by the Coq model)
def _bary_in(p, a, b, c):
    den = (b[1] - c[1]) * (a[0] - c[0]) + (c[0] - b[0]) * (a[1] - c[1])
    if den == 0: return False
    u = ((b[1] - c[1]) * (p[0] - c[0]) + (c[0] - b[0]) * (p[1] - c[1])) / den
    v = ((c[1] - a[1]) * (p[0] - c[0]) + (a[0] - c[0]) * (p[1] - c[1])) / den
    w = 1 - u - v
    return 0 <= u <= 1 and 0 <= v <= 1 and 0 <= w <= 1
def two_tests(sh, tris):
    """per triangle: (accepted by the shape's own test on the triangle's centroid, accepted by the inherited test of the
    shape's reference point)"""
    k = sh[0]; r = ref_of(sh); out = []
    sw = lambda q: [q[1], q[0]]
    for t in tris:
        cen = [mean_fr([v[0] for v in t]), mean_fr([v[1] for v in t])]
        ref = _bary_in(r, t[0], t[1], t[2])
        if k == "circle": own = (cen[0] - r[0]) ** 2 + (cen[1] - r[1]) ** 2 <= sh[2] ** 2
        elif k == "square": own = sh[3] <= cen[0] <= sh[4] and sh[2] >= cen[1] >= sh[1]
        elif k == "triangle": own = _bary_in(cen, sw(sh[1]), sw(sh[2]), sw(sh[3]))
        elif k == "polygon":
            vs = sh[1]
            own = any(_bary_in(cen, sw(vs[0]), sw(b), sw(c)) or
                      _bary_in([mean_fr([vs[0][0], b[0], c[0]]), mean_fr([vs[0][1], b[1], c[1]])], t[0], t[1], t[2])
                      for b, c in zip(vs[1:], vs[2:]))
        else: own = False
        out.append((own, ref))
    return out

DSIZES = [Fraction(1, 16), Fraction(1, 8), Fraction(1, 8), Fraction(1, 4), Fraction(1, 2), Fraction(1), Fraction(2), Fraction(2), Fraction(3)]
def snap_shape(sh):
    """every parameter snapped to a double, so that the shape the code sees is the shape the model sees"""
    sn = lambda x: frac(float(x))
    snp = lambda q: [sn(q[0]), sn(q[1])]
    k = sh[0]
    if k == "point": return ("point", snp(sh[1]))
    if k == "circle": return ("circle", snp(sh[1]), sn(sh[2]))
    if k == "square": return ("square",) + tuple(sn(x) for x in sh[1:])
    if k == "triangle": return ("triangle",) + tuple(snp(q) for q in sh[1:])
    return ("polygon", [snp(q) for q in sh[1]])

def directed_shape(desc, tris, inexact_tris):
    """RARE STATES constructed deliberately.  A non-point shape accepts a triangle by its own test on the triangle's centroid
    OR by the inherited test of its reference point.  Random shapes almost always make the two tests agree on which triangles
    they accept.  desc['want']:
      'mixed'    -- some triangle is accepted ONLY by the centroid test and another ONLY by the reference-point test (needs
                    e.g. an elongated box / a small circle whose centre is in a triangle away from that triangle's centroid);
      'ref_only' -- no centroid is accepted, the reference point is inside a triangle;
      'own_only' -- centroids are accepted, the reference point is in no triangle;
      'unsorted' -- a box given with top > bottom or left > right / a circle with a negative radius that accepts no centroid
                    as it stands (the code compares with the bounds as given / squares the radius) although the box with
                    sorted bounds would.
    Candidates are drawn (reference point by barycentric coordinates biased towards the corners and edges of a triangle of
    the set; half-width and half-height / radius / corner offsets independently from 1/16 to 3 scales, boxes also with
    top > bottom or left > right, radii also negative) until one is in the wanted state and off the rounding band."""
    rng = random.Random(desc["seed"] * 31 + 7); sc = scale_of(tris); k = desc["kind"]; want = desc["want"]
    fallback = None
    for attempt in range(60):
        t = tris[rng.randrange(len(tris))]
        den = rng.choice([8, 8, 12, 16])
        if want == "own_only" and rng.random() < 0.7:
            a = rng.randint(-den // 2, den + den // 2); b = rng.randint(-den // 2, den + den // 2)
        else:
            a = rng.randint(1, den - 2); b = rng.randint(1, den - 1 - a)
            if rng.random() < 0.5: a, b = rng.choice([(1, 1), (den - 2, 1), (1, den - 2), (1, den // 2), (den // 2, 1)])
        ca, cb = Fraction(a, den), Fraction(b, den); cc = 1 - ca - cb
        p = [ca * t[0][0] + cb * t[1][0] + cc * t[2][0], ca * t[0][1] + cb * t[1][1] + cc * t[2][1]]
        # half of the candidates are sized to just reach the centroid of ANOTHER triangle of the set
        t2 = tris[rng.randrange(len(tris))]
        aim = [mean_fr([v[0] for v in t2]), mean_fr([v[1] for v in t2])] if rng.random() < 0.5 and t2 is not t else None
        norm = None
        if k == "circle":
            rad = sc * rng.choice(DSIZES)
            if aim is not None:
                rad = frac(float((aim[0] - p[0]) ** 2 + (aim[1] - p[1]) ** 2) ** 0.5) * Fraction(rng.choice([9, 10, 12]), 8)
            sh = ("circle", p, rad * (-1 if rng.random() < 0.08 or want == "unsorted" else 1))
            norm = ("circle", p, abs(rad))
        elif k == "square":
            hw, hh = sc * rng.choice(DSIZES), sc * rng.choice(DSIZES)
            if aim is not None:
                hw = abs(aim[0] - p[0]) * Fraction(9, 8) + sc * rng.choice([0, Fraction(1, 32), Fraction(1, 8)])
                hh = abs(aim[1] - p[1]) * Fraction(9, 8) + sc * rng.choice([0, Fraction(1, 32), Fraction(1, 8)])
            top, bottom, lft, rgt = p[1] - hh, p[1] + hh, p[0] - hw, p[0] + hw
            u = rng.random()
            norm = ("square", top, bottom, lft, rgt)
            if want == "unsorted": u = u / 10
            if u < 0.05: top, bottom = bottom, top
            elif u < 0.10: lft, rgt = rgt, lft
            sh = ("square", top, bottom, lft, rgt)
        else:
            dx, dy = sc * rng.choice(DSIZES), sc * rng.choice(DSIZES)
            n = 2 if k == "triangle" else rng.randint(2, 4)
            d = [[dx * Fraction(rng.randint(-8, 8), 8), dy * Fraction(rng.randint(-8, 8), 8)] for _ in range(n)]
            d.append([-sum(q[0] for q in d), -sum(q[1] for q in d)])          # offsets sum to zero: the mean is p
            pts = [[p[0] + q[0], p[1] + q[1]] for q in d]
            if k == "triangle" and aim is not None:
                # (the code tests the centroid against the TRANSPOSED corners) a thin triangle whose transposed image holds the
                # other centroid while its mean stays at p
                sa = [aim[1], aim[0]]; m = [p[0] - sa[0], p[1] - sa[1]]; w = [-m[1] / 2, m[0] / 2]
                if m != [0, 0]:
                    e = [[-(m[0] + w[0]) / 4, -(m[1] + w[1]) / 4], [-(m[0] - w[0]) / 4, -(m[1] - w[1]) / 4],
                         [m[0] * Fraction(7, 2), m[1] * Fraction(7, 2)]]
                    rng.shuffle(e)
                    pts = [[sa[0] + q[0], sa[1] + q[1]] for q in e]
            sh = ("triangle",) + tuple(pts) if k == "triangle" else ("polygon", pts)
        sh = snap_shape(sh)
        if norm is not None: norm = snap_shape(norm)
        tt = two_tests(sh, tris)
        own_only = any(o and not r for o, r in tt); ref_only = any(r and not o for o, r in tt)
        hit = {"mixed": own_only and ref_only, "ref_only": ref_only and not any(o for o, _ in tt),
               "own_only": own_only and not any(r for _, r in tt)}.get(want, False)
        if want == "unsorted":
            # the parameters as given accept no centroid, their sorted / absolute values would accept one
            hit = norm is not None and not any(o for o, _ in tt) and any(o and not r for o, r in two_tests(norm, tris))
        if not hit and (fallback is not None or attempt < 45): continue
        try: check_band(sh, tris, inexact_tris)
        except Band: continue
        if hit:
            _directed["hit:" + want] = _directed.get("hit:" + want, 0) + 1
            return sh
        fallback = sh
    _directed["miss:" + want] = _directed.get("miss:" + want, 0) + 1
    return fallback
_directed = {}

def build_shape(desc, tris, nudge=(0, 0)):
    """concrete shape whose reference point has the requested barycentric position in one of `tris`; its size is in units
    of the scale of the set"""
    rng = random.Random(desc["seed"])
    t = tris[desc["which"] % len(tris)]
    sc = scale_of(tris)
    ca, cb = F(desc["bc"][0]) + nudge[0], F(desc["bc"][1]) + nudge[1]; cc = 1 - ca - cb
    p = [ca * t[0][0] + cb * t[1][0] + cc * t[2][0], ca * t[0][1] + cb * t[1][1] + cc * t[2][1]]
    sh = _build_shape(desc, p, rng, sc)
    return snap_shape(sh)

def _build_shape(desc, p, rng, sc):
    size, asp = F(desc["size"]) * sc, F(desc["aspect"])
    ds = F(desc.get("dscale", "1")) * sc
    k = desc["kind"]
    if k == "point": return ("point", p)
    if k == "circle": return ("circle", p, size)
    if k == "square":
        hw, hh = size / 2, size * asp / 2
        return ("square", p[1] - hh, p[1] + hh, p[0] - hw, p[0] + hw)
    d = [[ds * Fraction(rng.randint(-8, 8), 4), ds * Fraction(rng.randint(-8, 8), 4)] for _ in range(rng.randint(2, 4))]
    if k == "triangle":
        d = d[:2]
        d.append([-d[0][0] - d[1][0], -d[0][1] - d[1][1]])      # offsets sum to zero: the mean is p
        return ("triangle",) + tuple([p[0] + q[0], p[1] + q[1]] for q in d)
    d.append([-sum(q[0] for q in d), -sum(q[1] for q in d)])
    return ("polygon", [[p[0] + q[0], p[1] + q[1]] for q in d])

# ----------------------------------------------------------------------------- is the double arithmetic exact on this set?
def exact_set(tris, bits=53):
    """every midpoint, reflection and area term of these triangles is computed without rounding by the implementation
    (in doubles, or in float32 when the vertex array is float32: bits=24)"""
    _rep = rep
    rep_ = lambda x: _rep(x, bits)
    terms = []
    for t in tris:
        for j in range(2):
            a, b, c = t[0][j], t[1][j], t[2][j]
            for s in (a + b, b + c, c + a, (a + b) / 2, (b + c) / 2, (c + a) / 2, b + c - a, a + c - b, a + b - c):
                if not rep_(s): return False
        (x0, y0), (x1, y1), (x2, y2) = t
        ps = [x0 * (y1 - y2), x1 * (y2 - y0), x2 * (y0 - y1)]
        for s in (y1 - y2, y2 - y0, y0 - y1, ps[0], ps[1], ps[2], ps[0] + ps[1], ps[0] + ps[1] + ps[2]):
            if not rep_(s): return False
        terms.append(abs(ps[0] + ps[1] + ps[2]))
    nz = [x for x in terms if x != 0]
    if nz:
        # np.sum adds in an unspecified (pairwise) order: exact if all terms are multiples of one unit and the total is short
        unit = min(Fraction(1, x.denominator) * (x.numerator & -x.numerator) for x in nz)
        if sum(nz) / unit >= 2 ** (bits - 1): return False
    return True

def tl_of_tris(tris, extra=()):
    return tols_for(scale_of(tris), mag_of(tris, extra))

# ----------------------------------------------------------------------------- the operations
def hq():
    from autoarray.structures.triangles.abstract import HEIGHT_FACTOR
    return frac(HEIGHT_FACTOR)

VKINDS = ["f64", "f64", "f64", "int", "f32", "view", "fortran", "ro", "irr"]
IKINDS = ["i64", "i64", "i32", "u8", "view", "ro"]
def mk_array(inp, allow32=True):
    """the ArrayTriangles object of the case.  INPUT KINDS: inp['vk'] = storage of the vertex array (float64, int64 when every
    coordinate is an integer, float32 when every operation on the set is exact in 24 bits, a non-contiguous view of a larger
    array, Fortran order, read-only, an aa.Grid2DIrregular), inp['ik'] = storage of the index array (int64 / int32 / uint8 /
    view / read-only).  The value of every entry is the same in all kinds."""
    from autoarray.structures.triangles.array import ArrayTriangles
    verts = [[F(v[0]), F(v[1])] for v in inp["verts"]]
    idx = [list(r) for r in inp["idx"]]
    vk, ik = inp.get("vk", "f64"), inp.get("ik", "i64")
    fl = [[float(v[0]), float(v[1])] for v in verts]
    inrange = all(0 <= i < len(verts) for r in idx for i in r)
    if vk == "int" and all(x.denominator == 1 and abs(x) < 2 ** 40 for v in verts for x in v):
        V = np.array([[int(v[0]), int(v[1])] for v in verts], dtype=np.int64).reshape(-1, 2)
    elif (vk == "f32" and allow32 and inrange and all(rep(x, 24) for v in verts for x in v)
          and exact_set(tris_of(idx, verts), 24)):
        V = np.array(fl, dtype=np.float32).reshape(-1, 2)
    else:
        V = np.array(fl, dtype=float).reshape(-1, 2)
        if vk == "view":
            big = np.full((2 * len(fl) + 1, 5), 7.25); big[1::2, 1:4:2] = V; V = big[1::2, 1:4:2]
        elif vk == "fortran": V = np.asfortranarray(V)
        elif vk == "ro": V.setflags(write=False)
        elif vk == "irr":
            import autoarray as aa
            V = aa.Grid2DIrregular(values=fl) if fl else V
    I = np.array(idx, dtype=int).reshape(-1, 3)
    if ik == "i32": I = I.astype(np.int32)
    elif ik == "u8" and len(verts) < 250 and inrange: I = I.astype(np.uint8)
    elif ik == "view":
        big = np.full((len(idx), 7), -1, dtype=int); big[:, 0:6:2] = I; I = big[:, 0:6:2]
    elif ik == "ro": I.setflags(write=False)
    A = ArrayTriangles(indices=I, vertices=V)
    return A, idx, verts

CKINDS = ["i64", "i64", "i32", "i8", "f64", "view", "ro"]
class _Sub: pass
def mk_coord(inp):
    """INPUT KINDS: inp['ck'] = storage of the coordinate array; inp['dflt'] = leave out every constructor argument that has
    its default value (side_length=1.0, x_offset=0.0, y_offset=0.0, flipped=False) so that the DEFAULTS are exercised;
    inp['sk'] = Python int / numpy scalar for side and offsets where the value allows it"""
    from autoarray.structures.triangles.coordinate_array import CoordinateArrayTriangles
    ck = inp.get("ck", "i64")
    co = np.array(inp["coords"], dtype=int).reshape(-1, 2)
    if ck == "i32": co = co.astype(np.int32)
    elif ck == "i8": co = co.astype(np.int8)
    elif ck == "f64": co = co.astype(float)
    elif ck == "view":
        big = np.full((2 * len(co) + 1, 4), 9, dtype=int); big[::2][:len(co), 1:3] = co; co = big[::2][:len(co), 1:3]
    elif ck == "ro": co.setflags(write=False)
    sk = inp.get("sk", "float")
    def num(x):
        x = F(x)
        if sk == "int" and x.denominator == 1 and abs(x) < 2 ** 50: return int(x)
        if sk == "np": return np.float64(float(x))
        return float(x)
    kw = {"side_length": num(inp["side"]), "x_offset": num(inp["xo"]), "y_offset": num(inp["yo"]), "flipped": bool(inp["fl"])}
    if inp.get("dflt"):
        for k, d in (("side_length", 1), ("x_offset", 0), ("y_offset", 0), ("flipped", False)):
            if kw[k] == d: del kw[k]
    if inp.get("posargs") and len(kw) == 4:
        C = CoordinateArrayTriangles(co, kw["side_length"], kw["x_offset"], kw["y_offset"], kw["flipped"])
    else:
        C = CoordinateArrayTriangles(coordinates=co, **kw)
    for step in inp.get("pre", []):
        C = C.up_sample() if step == "up" else C.neighborhood()
    return C

SELKINDS = ["arr", "arr", "list", "i32", "neg", "bool", "ro"]
def mk_sel(sel, n, selk, seed=0):
    """the selection handed to for_indexes, in one of several KINDS; returns (argument, the non-negative positions it denotes)"""
    sel = [int(i) for i in sel]
    if not sel or selk == "arr": return np.array(sel, dtype=int), sel
    if selk == "list": return list(sel), sel
    if selk == "i32": return np.array(sel, dtype=np.int32), sel
    if selk == "ro":
        a = np.array(sel, dtype=int); a.setflags(write=False); return a, sel
    if selk == "neg":      # numpy wrap-around: position i - n denotes triangle i
        r = random.Random(seed)
        return np.array([i - n if r.random() < 0.6 else i for i in sel], dtype=int), sel
    if selk == "bool":     # a mask selects the marked triangles in increasing order
        sel = sorted(set(sel)); m = np.zeros(n, dtype=bool); m[sel] = True
        return m, sel
    raise ValueError(selk)
def sel_fingerprint(a): return (type(a).__name__, np.asarray(a).dtype.str, np.asarray(a).tolist())

def skip(kind):
    _skipped["in_band"] += 1
    return {"coq": None, "out": "skipped: a decision lies inside the rounding band", "py_ok": None, "nontrivial": False,
            "kind": kind + ":in-band"}

def tris_of(idx, verts): return [[verts[i] for i in r] for r in idx]
def means_ok(M, tris, tol):
    """.means = the average of the three corners of every triangle (up to the rounding of the case)"""
    M = np.asarray(M)
    if len(tris) == 0: return M.size == 0
    if M.shape != (len(tris), 2): return False
    tol = tol + mag_of(tris) / 2 ** 20 if M.dtype == np.float32 else tol
    return all(abs(frac(M[i][j]) - mean_fr([v[j] for v in t])) <= tol for i, t in enumerate(tris) for j in range(2))

def array_op(A, idx, verts, op, arg=None, selk="arr", selseed=0):
    """one call on the ArrayTriangles object A whose exact current contents are (idx, verts).
    returns (coq cases, py_ok, out, result object or None); raises Band for a containment decision inside the band"""
    from autoarray.structures.triangles.array import ArrayTriangles
    cA = catri(idx, verts)
    tris = tris_of(idx, verts)
    bits = 24 if np.asarray(A.vertices).dtype == np.float32 else 53
    ex = exact_set(tris, bits)
    tl = NOTL if ex else tl_of_tris(tris)
    exb = cbool(ex); tls = ctl(tl)
    if op == "tris":
        T = A.triangles
        out = fr_tris(T)
        ok = len(A) == len(idx)
        # siblings of .triangles: iteration yields the rows of .triangles, .means their corner averages
        ok = ok and [fr_pts(t) for t in A] == out and means_ok(A.means, out, tl_of_tris(tris)[0])
        return [f"(KATris {cA} {ctris(out)})"], ok, {"triangles": str(out)[:400]}, None
    if op == "area":
        area = frac(A.area)
        return [f"(KAArea {tls} {exb} {cA} {cqd(area)})"], True, {"area": str(area)}, None
    if op == "up":
        U = A.up_sample()
        oi, ov = atri_of(U)
        ok = isinstance(U, ArrayTriangles) and len(U) == 4 * len(A) and bool(np.array_equal(U.triangles, A._up_sample_triangle()))
        return [f"(KAUp {tls} {exb} {cA} {catri(oi, ov)})"], ok, {"indices": oi, "vertices": str(ov)[:300]}, U
    if op == "nbr":
        N = A.neighborhood()
        oi, ov = atri_of(N)
        return [f"(KANbr {tls} {exb} {cA} {catri(oi, ov)})"], isinstance(N, ArrayTriangles), {"indices": oi, "vertices": str(ov)[:300]}, N
    if op == "for":
        sel_arg, sel = mk_sel(arg, len(idx), selk, selseed)
        fp = sel_fingerprint(sel_arg)
        R = A.for_indexes(sel_arg)
        oi, ov = atri_of(R)
        ok = bool(np.array_equal(R.triangles, A.triangles[np.array(sel, dtype=int)])) if sel else len(R) == 0
        ok = ok and sel_fingerprint(sel_arg) == fp          # the selection handed in is not modified
        return [f"(KAFor {tls} {exb} {cA} {cnats(sel)} {catri(oi, ov)})"], ok, {"indices": oi, "vertices": str(ov)[:300]}, R
    if op == "with":
        v2 = [[F(v[0]), F(v[1])] for v in arg]
        v2_arr = np.array([[float(v[0]), float(v[1])] for v in v2]).reshape(-1, 2)
        keep = v2_arr.copy()
        R = A.with_vertices(v2_arr)
        out = fr_tris(R.triangles)
        ok = bool(np.array_equal(v2_arr, keep))
        return [f"(KAWith {cA} {clist([cpt(v) for v in v2])} {ctris(out)})"], ok, str(out)[:400], R
    raise ValueError(op)

def contain_op(obj, tris, sh, P, coq_of):
    """containing_indices with the Shape object P (exact description sh), twice; the shape must not change"""
    before = shape_state(sh, P)
    out = [int(i) for i in obj.containing_indices(P)]
    again = [int(i) for i in obj.containing_indices(P)]
    ok = out == again and shape_state(sh, P) == before
    return [coq_of(out)], ok, out

def array_ops(A, idx, verts, op, inp, base):
    """single-operation streams on a fresh ArrayTriangles object"""
    keep_i, keep_v = np.array(A.indices).copy(), np.array(A.vertices).copy()
    if op == "contain":
        tris = tris_of(idx, verts)
        sh = shape_for(inp["shape"], tris, False)
        if sh is None: return skip(base["kind"])
        cases, ok, out = contain_op(A, tris, sh, py_shape(sh, inp["shape"].get("pk", "float")), lambda o: f"(KAContain {catri(idx, verts)} {cshape(sh)} {cnats(o)})")
        extra = {"shape": str(sh)[:300]}
    else:
        arg = inp.get("sel") if op == "for" else inp.get("verts2") if op == "with" else None
        cases, ok, out, _ = array_op(A, idx, verts, op, arg, inp.get("selk", "arr"), inp.get("seed", 0) or 0)
        if op == "tris":
            c2, ok2, out2, _ = array_op(A, idx, verts, "area")
            cases += c2; ok = ok and ok2; out = dict(out, **out2)
        extra = {}
    # the arrays handed to the constructor are not modified by the call
    ok = ok and bool(np.array_equal(A.indices, keep_i)) and bool(np.array_equal(A.vertices, keep_v))
    return dict(base, coq=cases[0], extra_coq=cases[1:], out=out, py_ok=ok, **extra)

# ---- CoordinateArrayTriangles
def coord_op(C, S0, it, op, arg=None, selk="arr", selseed=0):
    """one call on the CoordinateArrayTriangles object C with exact description S0 and triangles `it` (as first read)"""
    from autoarray.structures.triangles.array import ArrayTriangles
    from autoarray.structures.triangles.coordinate_array import CoordinateArrayTriangles
    h = hq()
    tl = tols_for(S0["side"], mag_of(it, [S0["xo"], S0["yo"]]))
    pre = f"{ctl(tl)} {cqd(h)} {ccs(S0)}"
    if op == "tris":
        t2 = fr_tris(C.triangles)
        ok = len(C) == len(S0["coords"]) and t2 == it
        ok = ok and [fr_pts(t) for t in C] == it and means_ok(C.means, it, tl[0])
        return [f"(KCTris {pre} {ctris(t2)})"], ok, {"triangles": str(t2)[:400]}, None
    if op == "area":
        area = frac(C.area)
        return [f"(KCArea {pre} {cqd(area)})"], True, {"area": str(area)}, None
    if op in ("up", "nbr", "for"):
        if op == "up": R = C.up_sample(); k = "KCUp"; mid = ""
        elif op == "nbr": R = C.neighborhood(); k = "KCNbr"; mid = ""
        else:
            sel_arg, sel = mk_sel(arg, len(S0["coords"]), selk, selseed)
            fp = sel_fingerprint(sel_arg)
            R = C.for_indexes(sel_arg); k = "KCFor"; mid = cnats(sel) + " "
        ok = isinstance(R, CoordinateArrayTriangles)
        if op == "for": ok = ok and sel_fingerprint(sel_arg) == fp
        if op == "up":
            ca = float(C.area)
            ok = ok and len(R) == 4 * len(C) and abs(float(R.area) - ca) <= 1e-9 * ca
        So = cs_of(R); ot = fr_tris(R.triangles) if len(So["coords"]) else []
        return ([f"({k} {pre} {ctris(it)} {mid}{ccs(So)} {ctris(ot)})"], ok,
                {"coords": So["coords"][:12], "side": str(So["side"]), "yo": str(So["yo"]), "fl": So["fl"]}, R)
    if op == "repr":
        oi, ov = int_rows(C.indices), fr_pts(C.vertices)
        W = C.with_vertices(C.vertices)
        ok = isinstance(W, ArrayTriangles) and bool(np.array_equal(W.triangles, C.triangles))
        cases = [f"(KCRepr {pre} {catri(oi, ov)})"]
        # with_vertices with OTHER vertices: the index rows of the coordinate array applied to the array handed in
        r = random.Random(len(ov) * 7919 + len(oi))
        v2 = [[v[0] + S0["side"] * Fraction(r.randint(-8, 8), 4), v[1] - S0["side"] * Fraction(r.randint(-8, 8), 4)] for v in ov]
        if all(rep(x) for v in v2 for x in v):
            v2_arr = np.array([[float(v[0]), float(v[1])] for v in v2]).reshape(-1, 2); keep2 = v2_arr.copy()
            W2 = C.with_vertices(v2_arr)
            ok = ok and isinstance(W2, ArrayTriangles) and bool(np.array_equal(v2_arr, keep2))
            cases.append(f"(KAWith {catri(oi, ov)} {clist([cpt(v) for v in v2])} {ctris(fr_tris(W2.triangles))})")
        return cases, ok, {"indices": oi, "vertices": str(ov)[:300]}, W
    raise ValueError(op)

def coord_contain_case(S0, it, sh):
    tl = tols_for(S0["side"], mag_of(it, [S0["xo"], S0["yo"]]))
    return lambda o: f"(KCContain {ctl(tl)} {cqd(hq())} {ccs(S0)} {ctris(it)} {cshape(sh)} {cnats(o)})"

def coord_unchanged(C, S0, keep):
    return cs_of(C) == S0 and bool(np.array_equal(np.asarray(C.coordinates), keep))

def too_wide(S0, it):
    """largest coordinate / side beyond what the generators are meant to produce (tolerances would be meaningless)"""
    return mag_of(it, [S0["xo"], S0["yo"]]) > 4 * MAXMAG * S0["side"]

# ----------------------------------------------------------------------------- sessions and chains
class Sess:
    def __init__(self):
        self.cases = []; self.ok = True; self.log = []; self.why = []
    def add(self, name, cases, ok, out=None):
        self.cases += cases
        if not ok: self.ok = False; self.why.append(name)
        self.log.append(name if out is None else f"{name}: {str(out)[:120]}")
    def row(self, kind, nontrivial):
        if not self.cases:
            return {"coq": None, "out": self.log, "py_ok": self.ok if not self.ok else None, "nontrivial": False, "kind": kind + ":empty"}
        return {"coq": self.cases[0], "extra_coq": self.cases[1:], "out": self.log, "py_ok": self.ok, "nontrivial": nontrivial,
                "kind": kind, "detail": "python-level relation failed at: " + ", ".join(self.why) if self.why else None}

def pool_shape(pool, st, tris, inexact):
    """the Shape object of slot st['slot'] (created relative to the current triangles at first use, then re-used as is)"""
    slot = st["slot"]
    if slot not in pool:
        sh = shape_for(st["shape"], tris, inexact)
        if sh is None: return None
        pool[slot] = (sh, py_shape(sh, st["shape"].get("pk", "float")))
        return pool[slot]
    sh, P = pool[slot]
    try: check_band(sh, tris, inexact)
    except Band: return None
    return pool[slot]

def a_steps(se, A, idx, verts, steps, pool, sc_hint):
    """steps on an ArrayTriangles object: (idx, verts) is the exact description of its CURRENT arrays"""
    base_idx, base_verts, edits = [list(r) for r in idx], [list(v) for v in verts], []
    rbase_idx, rbase_verts, rw = [list(r) for r in idx], [list(v) for v in verts], []       # history of index-row writes
    for n, st in enumerate(steps):
        k = st["k"]; r = random.Random(st["seed"]); name = f"{n}:{k}"
        nt = len(idx)
        if k in ("move_up", "move_nbr") and nt > 6: k = "up" if k == "move_up" else "nbr"
        if k == "edit" and not (isinstance(A.vertices, np.ndarray) and A.vertices.flags.writeable and A.vertices.dtype == np.float64):
            k = "tris"          # read-only / non-float storage: the user cannot write p into it
        if k in ("tris", "area", "up", "nbr", "move_up", "move_nbr"):
            cases, ok, out, R = array_op(A, idx, verts, k.replace("move_", ""))
        elif k in ("for", "move_for"):
            sel = [r.randrange(nt) for _ in range(r.randint(1, nt + 1))]
            cases, ok, out, R = array_op(A, idx, verts, "for", sel, r.choice(SELKINDS), st["seed"])
        elif k in ("with", "move_with"):
            sc = scale_of(tris_of(idx, verts)) if idx else sc_hint
            c0 = verts[0] if verts else [Fraction(0), Fraction(0)]
            v2 = [[c0[0] + sc * Fraction(r.randint(-8, 8), 4), c0[1] + sc * Fraction(r.randint(-8, 8), 4)] for _ in verts]
            if not all(rep(x) for v in v2 for x in v): continue
            cases, ok, out, R = array_op(A, idx, verts, "with", v2)
        elif k == "contain":
            tris = tris_of(idx, verts)
            got = pool_shape(pool, st, tris, False)
            if got is None:
                _skipped["steps_in_band"] += 1; continue
            sh, P = got
            cases, ok, out = contain_op(A, tris, sh, P, lambda o: f"(KAContain {catri(idx, verts)} {cshape(sh)} {cnats(o)})")
            R = None
        elif k == "recontain":
            # the same Shape object on this set and then on a DIFFERENT set of the same length (the selection rotated by one,
            # or the single triangle translated): the second answer must follow the second set
            tris = tris_of(idx, verts)
            got = pool_shape(pool, st, tris, False)
            if got is None:
                _skipped["steps_in_band"] += 1; continue
            sh, P = got
            cases, ok, out = contain_op(A, tris, sh, P, lambda o: f"(KAContain {catri(idx, verts)} {cshape(sh)} {cnats(o)})")
            if nt >= 2:
                B = A.for_indexes(np.array([(i + 1) % nt for i in range(nt)], dtype=int))
            else:
                sc = scale_of(tris)
                v2 = [[v[0] + 3 * sc, v[1] - 2 * sc] for v in verts]
                if not all(rep(x) for v in v2 for x in v): continue
                B = A.with_vertices(np.array([[float(v[0]), float(v[1])] for v in v2]).reshape(-1, 2))
            bi, bv = atri_of(B)
            try:
                check_band(sh, tris_of(bi, bv), False)
                c2, ok2, out2 = contain_op(B, tris_of(bi, bv), sh, P, lambda o: f"(KAContain {catri(bi, bv)} {cshape(sh)} {cnats(o)})")
                cases += c2; ok = ok and ok2 and len(bi) == nt; out = (out, out2)
            except Band:
                _skipped["steps_in_band"] += 1
            R = None
        elif k == "edit":
            # the user overwrites one row of the vertex array in place, then reads again.
            # every read-only observation is made BEFORE the write (so that anything remembered would be stale) ...
            sc = scale_of(tris_of(idx, verts))
            cases, ok, _, _ = array_op(A, idx, verts, "area")
            hit = []
            for sh, P in pool.values():
                try:
                    check_band(sh, tris_of(idx, verts), False)
                    c2, ok2, o2 = contain_op(A, tris_of(idx, verts), sh, P, lambda o, i_=idx, v_=verts, s_=sh: f"(KAContain {catri(i_, v_)} {cshape(s_)} {cnats(o)})")
                    cases += c2; ok = ok and ok2; hit += o2
                except Band: pass
            A.up_sample(); A.neighborhood(); A.for_indexes(np.array([0], dtype=int))       # results discarded
            if r.random() < 0.4 and isinstance(A.indices, np.ndarray) and A.indices.flags.writeable:
                # the user re-wires one triangle: A.indices[row] = three (other) vertex numbers, in place; every later read
                # is a function of the arrays as they are now
                row = r.randrange(nt); new_row = [r.randrange(len(verts)) for _ in range(3)]
                A.indices[row] = new_row
                idx = [list(q) for q in idx]; idx[row] = new_row
                base_idx, base_verts, edits = [list(q) for q in idx], [list(v) for v in verts], []
                rw.append((row, new_row))
                out = fr_tris(A.triangles)
                rws = clist([f"(Rw {int(e[0])} (I3 {int(e[1][0])} {int(e[1][1])} {int(e[1][2])}))" for e in rw])
                cases.append(f"(KARewires {catri(rbase_idx, rbase_verts)} {rws} {ctris(out)})")
                c2, ok2, _, _ = array_op(A, idx, verts, "tris")
                cases += c2; ok = ok and ok2
                c2, ok2, _, _ = array_op(A, idx, verts, "area")
                cases += c2; ok = ok and ok2
                which = ("up", "nbr", "for")[st["seed"] % 3] if nt <= 8 else "for"
                c2, ok2, _, _ = array_op(A, idx, verts, which, [row] if which == "for" else None)
                cases += c2; ok = ok and ok2
                for sh, P in pool.values():
                    try:
                        check_band(sh, tris_of(idx, verts), False)
                        c2, ok2, _ = contain_op(A, tris_of(idx, verts), sh, P, lambda o, i_=idx, v_=verts, s_=sh: f"(KAContain {catri(i_, v_)} {cshape(s_)} {cnats(o)})")
                        cases += c2; ok = ok and ok2
                    except Band: pass
                same = (bool(np.array_equal(np.asarray(A.indices), np.array(idx, dtype=int).reshape(-1, 3))) and fr_pts(A.vertices) == verts)
                se.add(name + ":index-row", cases, ok and same, out)
                if not same: return
                continue
            j = r.randrange(len(verts))
            p = [verts[j][0] + sc * Fraction(r.randint(-6, 6), 4), verts[j][1] + sc * Fraction(r.randint(-6, 6), 4)]
            u = r.random()
            if u < 0.25: p = list(verts[r.randrange(len(verts))])       # now coincides with another vertex
            elif u < 0.7 and hit:
                # a corner of a triangle that a pooled shape was just reported for is carried far away: the answer changes
                j = idx[hit[r.randrange(len(hit))]][r.randrange(3)]
                p = [verts[j][0] + sc * r.choice([-12, -9, 9, 12]), verts[j][1] + sc * r.choice([-12, -9, 9, 12])]
            if not (rep(p[0]) and rep(p[1])):
                se.add(name + ":no-write", cases, ok); continue
            A.vertices[j] = [float(p[0]), float(p[1])]
            verts = [list(v) for v in verts]; verts[j] = p
            edits.append((j, p))
            rbase_idx, rbase_verts, rw = [list(q) for q in idx], [list(v) for v in verts], []
            # ... and again AFTER it: triangles, area, the pooled shapes, and one of up_sample / neighborhood / for_indexes
            out = fr_tris(A.triangles)
            es = clist([f"(Ed {int(e[0])} {cpt(e[1])})" for e in edits])
            cases.append(f"(KAEdits {catri(base_idx, base_verts)} {es} {ctris(out)})")
            c2, ok2, _, _ = array_op(A, idx, verts, "area")
            cases += c2; ok = ok and ok2
            which = ("up", "nbr", "for")[st["seed"] % 3] if nt <= 8 else "for"
            c2, ok2, _, _ = array_op(A, idx, verts, which, [0] if which == "for" else None)
            cases += c2; ok = ok and ok2
            for sh, P in pool.values():
                try:
                    check_band(sh, tris_of(idx, verts), False)
                    c2, ok2, _ = contain_op(A, tris_of(idx, verts), sh, P, lambda o, i_=idx, v_=verts, s_=sh: f"(KAContain {catri(i_, v_)} {cshape(s_)} {cnats(o)})")
                    cases += c2; ok = ok and ok2
                except Band: pass
            R = None
        else: raise ValueError(k)
        # nothing that was handed in is modified by a call: the object's arrays are what the user last put there
        same = (bool(np.array_equal(np.asarray(A.indices), np.array(idx, dtype=int).reshape(-1, 3)))
                and fr_pts(A.vertices) == verts)
        se.add(name, cases, ok and same, out)
        if not same: return
        if k.startswith("move_") and R is not None and len(R.indices):
            A = R; idx, verts = atri_of(R)
            base_idx, base_verts, edits = [list(q) for q in idx], [list(v) for v in verts], []
            rbase_idx, rbase_verts, rw = [list(q) for q in idx], [list(v) for v in verts], []

def c_steps(se, C, steps, pool):
    S0 = cs_of(C); it = fr_tris(C.triangles); keep = np.array(C.coordinates).copy()
    for n, st in enumerate(steps):
        k = st["k"]; r = random.Random(st["seed"]); name = f"{n}:{k}"
        nc = len(S0["coords"])
        if too_wide(S0, it): return
        if k == "move_up" and nc > 3: k = "up"
        if k == "move_nbr" and nc > 4: k = "nbr"
        if k in ("tris", "area", "up", "nbr", "repr", "move_up", "move_nbr"):
            cases, ok, out, R = coord_op(C, S0, it, k.replace("move_", ""))
        elif k in ("for", "move_for"):
            sel = [r.randrange(nc) for _ in range(r.randint(1, nc + 1))]
            cases, ok, out, R = coord_op(C, S0, it, "for", sel, r.choice(SELKINDS), st["seed"])
        elif k == "contain":
            got = pool_shape(pool, st, it, True)
            if got is None:
                _skipped["steps_in_band"] += 1; continue
            sh, P = got
            cases, ok, out = contain_op(C, it, sh, P, coord_contain_case(S0, it, sh))
            R = None
        elif k == "recontain":
            got = pool_shape(pool, st, it, True)
            if got is None:
                _skipped["steps_in_band"] += 1; continue
            sh, P = got
            cases, ok, out = contain_op(C, it, sh, P, coord_contain_case(S0, it, sh))
            if nc >= 2: B = C.for_indexes(np.array([(i + 1) % nc for i in range(nc)], dtype=int))
            else:
                N = C.neighborhood(); B = N.for_indexes(np.array([r.randrange(len(cs_of(N)["coords"]))], dtype=int))
            Sb = cs_of(B); bt = fr_tris(B.triangles)
            try:
                check_band(sh, bt, True)
                c2, ok2, out2 = contain_op(B, bt, sh, P, coord_contain_case(Sb, bt, sh))
                cases += c2; ok = ok and ok2 and len(Sb["coords"]) == nc; out = (out, out2)
            except Band:
                _skipped["steps_in_band"] += 1
            R = None
        elif k == "to_array":
            # the coordinate array becomes an ArrayTriangles (with_vertices(vertices)); the session goes on with that object
            cases, ok, out, W = coord_op(C, S0, it, "repr")
            se.add(name, cases, ok and coord_unchanged(C, S0, keep), out)
            idx, verts = atri_of(W)
            rest = [dict(s, k=s["k"] if s["k"] in A_STEPS else "tris") for s in steps[n + 1:]]
            rest = [s for s in rest if s["k"] not in ("edit", "move_with", "with")]     # W.vertices is C's cached array
            a_steps(se, W, idx, verts, rest, pool, S0["side"])
            return
        else: raise ValueError(k)
        same = coord_unchanged(C, S0, keep) and fr_tris(C.triangles) == it
        se.add(name, cases, ok and same, out)
        if not same: return
        if k.startswith("move_") and R is not None and len(cs_of(R)["coords"]):
            C = R; S0 = cs_of(C); it = fr_tris(C.triangles); keep = np.array(C.coordinates).copy()

def run_case(inp):
    aa = import_aa()
    np.seterr(all="ignore")
    from autoarray.structures.triangles.array import ArrayTriangles
    from autoarray.structures.triangles.coordinate_array import CoordinateArrayTriangles
    op = inp["op"]
    h = hq()
    if op == "a_checked":
        A, idx, verts = mk_array(inp)
        try: out = ("ok", fr_tris(A.triangles))
        except Exception as e: out = ("raise", exn_name(e))
        return {"coq": f"(KATrisRes {catri(idx, verts)} {cres(out, ctris)})", "out": str(out)[:300], "py_ok": None,
                "nontrivial": len(idx) >= 2, "kind": op + (":raise" if out[0] == "raise" else "")}
    if op == "a_session":
        A, idx, verts = mk_array(inp)
        se = Sess()
        a_steps(se, A, idx, verts, inp["steps"], {}, F(inp["sc"]))
        return se.row(op, len(idx) >= 2)
    if op == "c_session":
        C = mk_coord(inp)
        se = Sess()
        c_steps(se, C, inp["steps"], {})
        return se.row(op, len(inp["coords"]) >= 2)
    if op == "a_chain":
        # consecutive up_sample() calls following one child triangle, then the usual reads on the tiny set
        A, idx, verts = mk_array(inp)
        se = Sess()
        for d, pick in enumerate(inp["picks"]):
            cases, ok, out, U = array_op(A, idx, verts, "up")
            se.add(f"{d}:up", cases, ok)
            ui, uv = atri_of(U)
            sel = [pick % len(ui)]
            if d % 4 == 3: sel.append((pick // 7) % len(ui))
            cases, ok, out, R = array_op(U, ui, uv, "for", sel)
            se.add(f"{d}:for", cases if d % 4 == 3 or d == len(inp["picks"]) - 1 else [], ok)
            A = R; idx, verts = atri_of(R)
        last = [{"k": "tris", "seed": 1}, {"k": "area", "seed": 2}, {"k": "contain", "seed": 3, "slot": 0, "shape": inp["shape"]},
                {"k": "nbr", "seed": 4}, {"k": "contain", "seed": 5, "slot": 1, "shape": inp["shape2"]}, {"k": "up", "seed": 6}]
        a_steps(se, A, idx, verts, last, {}, F(inp["sc"]))
        return se.row(op, True)
    if op == "c_chain":
        C = mk_coord(inp)
        se = Sess()
        for d, pick in enumerate(inp["picks"]):
            S0 = cs_of(C); it = fr_tris(C.triangles)
            if too_wide(S0, it): break
            cases, ok, out, U = coord_op(C, S0, it, "up")
            se.add(f"{d}:up", cases, ok)
            Su = cs_of(U); ut = fr_tris(U.triangles)
            sel = [pick % len(Su["coords"])]
            if d % 4 == 3: sel.append((pick // 7) % len(Su["coords"]))
            cases, ok, out, R = coord_op(U, Su, ut, "for", sel)
            se.add(f"{d}:for", cases if d % 4 == 3 or d == len(inp["picks"]) - 1 else [], ok)
            C = R
        last = [{"k": "tris", "seed": 1}, {"k": "area", "seed": 2}, {"k": "contain", "seed": 3, "slot": 0, "shape": inp["shape"]},
                {"k": "nbr", "seed": 4}, {"k": "repr", "seed": 7}, {"k": "contain", "seed": 5, "slot": 1, "shape": inp["shape2"]},
                {"k": "up", "seed": 6}]
        c_steps(se, C, last, {})
        return se.row(op, True)
    if op.startswith("a_") and op not in ("a_limits", "a_grid"):
        A, idx, verts = mk_array(inp, allow32=op != "a_contain")
        note_kind("vertices:" + (type(A.vertices).__name__ if not isinstance(A.vertices, np.ndarray) else
                                 A.vertices.dtype.name + ("" if A.vertices.flags.c_contiguous else ":strided") +
                                 ("" if A.vertices.flags.writeable else ":read-only")))
        note_kind("indices:" + A.indices.dtype.name)
        if op == "a_for": note_kind("selection:" + inp.get("selk", "arr"))
        if op == "a_contain":
            note_kind("shape-args:" + inp["shape"].get("pk", "float"))
        base = {"kind": op, "nontrivial": len(idx) >= 2, "py_ok": None}
        return array_ops(A, idx, verts, op[2:], inp, base)
    if op in ("a_limits", "a_grid", "al_up", "al_nbr", "al_for", "al_contain"):
        if op == "a_grid":
            # sibling constructor for_grid: the extreme coordinates and the pixel scale of the grid go to for_limits_and_scale
            grid = aa.Grid2D.uniform(shape_native=tuple(inp["shape"]), pixel_scales=float(F(inp["ps"])),
                                     origin=(float(F(inp["origin"][0])), float(F(inp["origin"][1]))))
            gy, gx = np.asarray(grid)[:, 0], np.asarray(grid)[:, 1]
            y0, y1, x0, x1 = frac(gy.min()), frac(gy.max()), frac(gx.min()), frac(gx.max()); sc = F(inp["ps"])
        else:
            y0, y1, x0, x1 = [F(v) for v in inp["lims"]]; sc = F(inp["scale"])
        if y1 == y0:      # np.arange(y, y + height, height): the row count ceil(((y+height)-y)/height) is rounding-dependent
            return skip(op)
        mag = max(abs(v) for v in (y0, y1, x0, x1)) + 2 * sc
        # row / column counts are ceilings of quotients: keep them away from an integer by more than the rounding of the sums
        slack = Fraction(1, 10 ** 9) + mag / sc / 2 ** 40
        for v in ((y1 + sc * h - y0) / (sc * h), (x1 + sc - x0) / sc, (x1 + sc - x0 + sc / 2) / sc):
            if v != round(v) and abs(v - round(v)) < slack: return skip(op)
        if op == "a_grid":
            keep_g = np.array(grid).copy()
            A = ArrayTriangles.for_grid(grid)
            B = ArrayTriangles.for_limits_and_scale(float(y0), float(y1), float(x0), float(x1), float(sc))
            ok_g = (isinstance(A, ArrayTriangles) and bool(np.array_equal(A.indices, B.indices))
                    and bool(np.array_equal(A.vertices, B.vertices)) and bool(np.array_equal(np.array(grid), keep_g)))
        else:
            A = ArrayTriangles.for_limits_and_scale(float(y0), float(y1), float(x0), float(x1), float(sc))
            ok_g = None
        idx, verts = atri_of(A)
        base = {"kind": op, "nontrivial": len(idx) >= 2, "py_ok": ok_g}
        if op in ("a_limits", "a_grid"):
            tl = tols_for(sc, mag)
            coq = f"(KALimits {ctl(tl)} {cqd(h)} {cqd(y0)} {cqd(y1)} {cqd(x0)} {cqd(x1)} {cqd(sc)} {catri(idx, verts)})"
            return dict(base, coq=coq, out={"n_triangles": len(idx), "n_vertices": len(verts), "indices": idx[:12]})
        if len(idx) > 40: return {"coq": None, "out": "too large", "py_ok": None, "nontrivial": False, "kind": op + ":skipped-large"}
        sub = op[3:]
        inp2 = dict(inp)
        if sub == "for":
            r = random.Random(inp["seed"])
            inp2["sel"] = [r.randrange(len(idx)) for _ in range(r.randint(1, 6))]
        return array_ops(A, idx, verts, sub, inp2, base)
    if op == "c_limits":
        x0, x1, y0, y1 = [F(v) for v in inp["lims"]]; sc = F(inp["scale"])
        for v in (y0 / (h * sc), y1 / (h * sc)):      # int() of a quotient by the irrational height
            if v != 0 and abs(v - round(v)) < MARGIN: return skip(op)
        if inp.get("dflt") and sc == 1:       # the default scale
            C = CoordinateArrayTriangles.for_limits_and_scale(float(x0), float(x1), float(y0), float(y1))
        elif inp.get("dflt"):
            C = CoordinateArrayTriangles.for_limits_and_scale(x_min=float(x0), y_max=float(y1), y_min=float(y0), x_max=float(x1), scale=float(sc))
        else:
            C = CoordinateArrayTriangles.for_limits_and_scale(float(x0), float(x1), float(y0), float(y1), float(sc))
        out = cs_of(C)
        tl = tols_for(sc, sc)
        coq = f"(KCLimits {ctl(tl)} {cqd(h)} {cqd(x0)} {cqd(x1)} {cqd(y0)} {cqd(y1)} {cqd(sc)} {ccs(out)})"
        return {"coq": coq, "out": {"n": len(out["coords"]), "coords": out["coords"][:10]}, "py_ok": None,
                "nontrivial": len(out["coords"]) >= 2, "kind": op}
    if op.startswith("c_"):
        C = mk_coord(inp)
        note_kind("coordinates:" + np.asarray(C.coordinates).dtype.name + ("+defaults" if inp.get("dflt") else ""))
        if op == "c_for": note_kind("selection:" + inp.get("selk", "arr"))
        S0 = cs_of(C)
        it = fr_tris(C.triangles)
        keep = np.array(C.coordinates).copy()
        base = {"kind": op + ("+" + "".join(s[0] for s in inp.get("pre", [])) if inp.get("pre") else ""),
                "nontrivial": len(S0["coords"]) >= 2, "py_ok": None}
        if len(S0["coords"]) > 60 or too_wide(S0, it):
            return {"coq": None, "out": "too large", "py_ok": None, "nontrivial": False, "kind": op + ":skipped-large"}
        sub = op[2:]
        if sub == "contain":
            sh = shape_for(inp["shape"], it, True)
            if sh is None: return skip(base["kind"])
            cases, ok, out = contain_op(C, it, sh, py_shape(sh, inp["shape"].get("pk", "float")), coord_contain_case(S0, it, sh))
            extra = {"shape": str(sh)[:300]}
        else:
            arg = None
            if sub == "for":
                r = random.Random(inp["selseed"]); n = len(S0["coords"])
                arg = [r.randrange(n) for _ in range(r.randint(0, n + 1))]
            cases, ok, out, _ = coord_op(C, S0, it, sub, arg, inp.get("selk", "arr"), inp.get("selseed", 0))
            if sub == "tris":
                c2, ok2, out2, _ = coord_op(C, S0, it, "area")
                cases += c2; ok = ok and ok2; out = dict(out, **out2)
            extra = {}
        ok = ok and coord_unchanged(C, S0, keep)
        return dict(base, coq=cases[0], extra_coq=cases[1:], out=out, py_ok=ok, **extra)
    if op == "shape_init":
        from autoarray.structures.triangles import shape as SH
        r = random.Random(inp["seed"])
        sc = F(inp.get("sc", "1"))
        vs = [[sc * Fraction(r.randint(-8, 8), 4), sc * Fraction(r.randint(-8, 8), 4)] for _ in range(inp["nv"])]
        try:
            P = py_shape(("polygon", vs), inp.get("pk", "float"))
            out = ("ok", [frac(P.x), frac(P.y)])
        except Exception as e:
            out = ("raise", exn_name(e))
        tl = tols_for(sc, 4 * sc)
        return {"coq": f"(KShapeInit {ctl(tl)} (QPolygon {clist([cpt(p) for p in vs])}) {cres(out, cpt)})", "out": str(out), "py_ok": None,
                "nontrivial": inp["nv"] >= 3, "kind": op}
    raise ValueError(op)
