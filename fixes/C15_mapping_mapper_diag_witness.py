import numpy as np
import autoarray as aa
mask = aa.Mask2D(mask=np.array([[True]*4,[True,False,False,True],[True,False,False,True],[True]*4]), pixel_scales=1.0)
ds = aa.Imaging(data=aa.Array2D.no_mask(np.arange(16.).reshape(4,4), pixel_scales=1.0),
                noise_map=aa.Array2D.no_mask(np.ones((4,4)), pixel_scales=1.0),
                psf=aa.Kernel2D.no_mask(np.array([[1.0]]), pixel_scales=1.0, normalize=False), use_normalized_psf=False).apply_mask(mask=mask)
os_ = aa.OverSamplerUniform(mask=mask, sub_size=1)
grid = os_.over_sampled_grid
mesh = aa.Mesh2DRectangular.overlay_grid(shape_native=(2,2), grid=grid)
mapper = aa.MapperRectangular(mapper_grids=aa.MapperGrids(mask=mask, source_plane_data_grid=grid, source_plane_mesh_grid=mesh),
                              over_sampler=os_, border_relocator=None, regularization=aa.reg.Constant(coefficient=1.0))
gridf = aa.Grid2D.from_mask(mask=mask)
def func(v): return aa.m.MockLinearObjFuncList(parameters=1, grid=gridf, mapping_matrix=np.array([[1.0],[v],[1.0],[1.0]]), regularization=None)
st = lambda: aa.SettingsInversion(use_w_tilde=True, use_positive_only_solver=False, no_regularization_add_to_curvature_diag_value=0.25)
for order in ("func first", "mapper first"):
    objs = lambda f: [f, mapper] if order == "func first" else [mapper, f]
    # the two fits of the preload set-up use the mapping formalism (Preloads(use_w_tilde=False)); the linear function varies
    inv0 = aa.Inversion(dataset=ds, linear_obj_list=objs(func(2.0)), settings=st(), preloads=aa.Preloads(use_w_tilde=False))
    inv1 = aa.Inversion(dataset=ds, linear_obj_list=objs(func(3.0)), settings=st(), preloads=aa.Preloads(use_w_tilde=False))
    f0 = aa.m.MockFitImaging(dataset=ds, inversion=inv0, noise_map=ds.noise_map); f1 = aa.m.MockFitImaging(dataset=ds, inversion=inv1, noise_map=ds.noise_map)
    pre = aa.Preloads()
    pre.set_w_tilde_imaging(f0, f1)
    try:
        pre.set_curvature_matrix(f0, f1)
    except Exception as e:
        print(order, ": set_curvature_matrix raised", type(e).__name__, e); continue
    fresh = aa.Inversion(dataset=ds, linear_obj_list=objs(func(2.0)), settings=st())
    withp = aa.Inversion(dataset=ds, linear_obj_list=objs(func(2.0)), settings=st(), preloads=pre)
    print(order, ":", type(inv0).__name__, "->", type(withp).__name__, "mapper_diag preloaded:", pre.curvature_matrix_mapper_diag is not None)
    print("   diag(F) fresh", np.diag(fresh.curvature_matrix), " with preloads", np.diag(withp.curvature_matrix))
    print("   reconstruction fresh", fresh.reconstruction, " with preloads", withp.reconstruction)
