(* C14 -- part 9: public forms of the zoom-geometry theorems (value AND coordinate of every pixel of the zoomed
   frame), the centring on the bounding box, and small witnesses (even kernels). *)
From Coq Require Import ZArith List Bool Lia Reals Lra.
From PAV Require Import Base.Res Base.Check Base.NumOps Model.C14 Model.C14g
     Proofs.C14 Proofs.C14b Proofs.C14c Proofs.C14d Proofs.C14f Proofs.C14g.
Import ListNotations.
Local Open Scope Z_scope.

(* Mask2D.zoom_region is centred on THE bounding box of the unmasked pixels, contains it, keeps its longer side and
   grows the shorter one to the longer one or to one less *)
Lemma zoom_region_centred_on_bbox (m : list (list bool)) y0 y1 x0 x1 :
  zoom_region m = Ok (y0, y1, x0, x1) ->
  exists a0 a1 b0 b1, is_bbox m a0 a1 b0 b1 /\
    y0 + (y1 - 1) = a0 + a1 /\ x0 + (x1 - 1) = b0 + b1 /\ y0 <= a0 /\ a1 < y1 /\ x0 <= b0 /\ b1 < x1 /\
    Z.max (a1 - a0) (b1 - b0) - 1 <= y1 - 1 - y0 <= Z.max (a1 - a0) (b1 - b0) /\
    Z.max (a1 - a0) (b1 - b0) - 1 <= x1 - 1 - x0 <= Z.max (a1 - a0) (b1 - b0).
Proof.
  intros EZ. destruct (zoom_region_centred m _ _ _ _ EZ) as (a0 & a1 & b0 & b1 & EB & REST).
  exists a0, a1, b0, b1. split; [now apply bbox_is_bbox | exact REST].
Qed.

Lemma is_bbox_region (m : list (list bool)) a0 a1 b0 b1 :
  is_bbox m a0 a1 b0 b1 -> exists y0 y1 x0 x1, zoom_region m = Ok (y0, y1, x0, x1) /\ y0 + (y1 - 1) = a0 + a1 /\ x0 + (x1 - 1) = b0 + b1.
Proof.
  intros HB. assert (HN : unmasked_coords m <> []) by (destruct HB as ((x & I) & _); intros E; rewrite E in I; destruct I).
  destruct (zoom_region_ok m HN) as ([[[y0 y1] x0] x1] & EZ). exists y0, y1, x0, x1. split; [exact EZ|].
  destruct (zoom_region_centred m _ _ _ _ EZ) as (c0 & c1 & d0 & d1 & EB & S0 & S1 & _).
  pose proof (is_bbox_unique m _ _ _ _ _ _ _ _ HB (bbox_is_bbox m _ _ _ _ EB)) as EQ. inversion EQ. subst. split; assumption.
Qed.

(* Mask2D.mask_centre is the scaled coordinate of the centre of the unmasked bounding box (any sign of the pixel scales) *)
Lemma mask_centre_is_bbox_centre (m : list (list bool)) a0 a1 b0 b1 (sy sx oy ox : R) :
  is_bbox m a0 a1 b0 b1 -> sy <> 0%R -> sx <> 0%R ->
  @mask_centre ROps m (sy, sx, oy, ox) = Ok (@point_spec2 ROps (nrows m) (ncols m) (sy, sx, oy, ox) (a0 + a1) (b0 + b1)).
Proof.
  intros HB Hy Hx. destruct (is_bbox_region m _ _ _ _ HB) as (y0 & y1 & x0 & x1 & EZ & <- & <-).
  now apply mask_centre_region.
Qed.

(* a pixel centre is the point with even doubled index *)
Lemma point_spec2_pixel H W (g : @geom ROps) y x : @point_spec2 ROps H W g (2 * y) (2 * x) = @pixel_centre_spec ROps H W g y x.
Proof.
  destruct g as [[[sy sx] oy] ox]. unfold point_spec2, pixel_centre_spec, two. cbn [T add sub mul div opp ofZ ROps].
  rewrite !mult_IZR. f_equal; field.
Qed.

(* MAIN: Array2D.zoomed_around_mask, EVERY buffer with a non-negative window: pixel (i, j) of the result holds the value of
   the zero-extended array at (y0 - b + i, x0 - b + j) AND, in the geometry of the result's mask, the scaled coordinate that
   pixel has in the original frame *)
Lemma zoomed_keeps_value_and_coordinate {B} (zero : B) (arr : arr2d B) H W b y0 y1 x0 x1 (sy sx oy ox : R) :
  rectb H W (fst arr) = true -> rectb H W (snd arr) = true -> 0 < H ->
  zoom_region (snd arr) = Ok (y0, y1, x0, x1) -> sy <> 0%R -> sx <> 0%R ->
  let h := (y1 - y0) + 2 * b in let w := (x1 - x0) + 2 * b in
  0 <= h -> 0 <= w ->
  exists e cy cx, zoomed_around_mask zero arr b = Ok e /\
    @mask_centre ROps (snd arr) (sy, sx, oy, ox) = Ok (cy, cx) /\
    @zoomed_geometry ROps (snd arr) (sy, sx, oy, ox) b = Ok ((h, w), (sy, sx, cy, cx)) /\ rectb h w e = true /\
    forall i j, 0 <= i < h -> 0 <= j < w ->
      (forall d, zget2 d e i j = ext_get zero (fst arr) (y0 - b + i) (x0 - b + j)) /\
      @pixel_centre_spec ROps h w (sy, sx, cy, cx) i j = @pixel_centre_spec ROps H W (sy, sx, oy, ox) (y0 - b + i) (x0 - b + j).
Proof.
  intros HA HM HP EZ Hy Hx h w N0 N1.
  pose proof (Entries_self true _ _ _ HM HP) as XM. destruct (Entries_shape _ _ _ _ XM HP) as [S0 S1].
  eexists _, _, _. split; [apply (zoom_is_window zero arr H W b y0 y1 x0 x1 HA HP EZ N0 N1)|].
  split; [rewrite (mask_centre_region (snd arr) sy sx oy ox y0 y1 x0 x1 EZ Hy Hx); f_equal; apply surjective_pairing|].
  split; [apply (zoomed_geometry_region (snd arr) sy sx oy ox y0 y1 x0 x1 EZ Hy Hx b N0 N1)|].
  pose proof (window_spec_entries zero (fst arr) H W (y0 - b) (x0 - b) h w HA HP N0 N1) as (_ & _ & RW & GW).
  split; [apply Rect_rectb; assumption|].
  intros i j Hi Hj. split.
  - intros d. fold h w. rewrite (GW i j d Hi Hj). rewrite (ext_get_inr zero (fst arr) H W) by assumption.
    destruct (inr (y0 - b + i) H && inr (x0 - b + j) W) eqn:E; [|reflexivity].
    apply andb_prop in E. destruct E as [E1 E2]. unfold inr in E1, E2. boolp.
    unfold zget2, get2. apply nth_indep. destruct (Entries_self zero _ _ _ HA HP) as (_ & _ & [_ XC] & _). rewrite XC; lia.
  - rewrite <- S0, <- S1. apply (zoomed_frame_keeps_coordinates (snd arr) sy sx oy ox y0 y1 x0 x1 b i j).
Qed.

(* Mask2D.zoom_mask_unmasked: the all-False mask of the zoom region carries, for every one of its pixels, the scaled
   coordinate of the pixel of the original frame it covers; its origin is mask_centre *)
Lemma zoom_mask_unmasked_keeps_coordinates (m : list (list bool)) y0 y1 x0 x1 (sy sx oy ox : R) :
  zoom_region m = Ok (y0, y1, x0, x1) -> sy <> 0%R -> sx <> 0%R ->
  exists cy cx, @mask_centre ROps m (sy, sx, oy, ox) = Ok (cy, cx) /\
    @zoom_mask_unmasked ROps m (sy, sx, oy, ox) = Ok ((y1 - y0, x1 - x0), (sy, sx, cy, cx)) /\
    @zoomed_geometry ROps m (sy, sx, oy, ox) 0 = Ok ((y1 - y0, x1 - x0), (sy, sx, cy, cx)) /\
    forall i j, @pixel_centre_spec ROps (y1 - y0) (x1 - x0) (sy, sx, cy, cx) i j
                = @pixel_centre_spec ROps (nrows m) (ncols m) (sy, sx, oy, ox) (y0 + i) (x0 + j).
Proof.
  intros EZ Hy Hx. destruct (zoom_region_contains m _ _ _ _ EZ) as (L0 & L1 & _).
  eexists _, _. split; [rewrite (mask_centre_region m sy sx oy ox y0 y1 x0 x1 EZ Hy Hx); f_equal; apply surjective_pairing|].
  split; [apply (zoom_mask_unmasked_region m sy sx oy ox y0 y1 x0 x1 EZ Hy Hx)|]. split.
  - rewrite (zoomed_geometry_region m sy sx oy ox y0 y1 x0 x1 EZ Hy Hx 0) by lia. do 3 f_equal; lia.
  - intros i j. pose proof (zoomed_frame_keeps_coordinates m sy sx oy ox y0 y1 x0 x1 0 i j) as HK. cbv zeta in HK.
    replace (y1 - y0 + 2 * 0) with (y1 - y0) in HK by lia. replace (x1 - x0 + 2 * 0) with (x1 - x0) in HK by lia.
    replace (y0 - 0 + i) with (y0 + i) in HK by lia. replace (x0 - 0 + j) with (x0 + j) in HK by lia. exact HK.
Qed.

(* Mask2D.zoom_centre / zoom_offset_pixels / zoom_offset_scaled: centre of the bounding box in pixel units, its offset from
   the centre of the frame in pixels and in scaled units *)
Lemma zoom_offsets (m : list (list bool)) a0 a1 b0 b1 (sy sx oy ox : R) :
  is_bbox m a0 a1 b0 b1 -> sy <> 0%R -> sx <> 0%R ->
  let cy := (IZR (a0 + a1) / 2)%R in let cx := (IZR (b0 + b1) / 2)%R in
  let py := (cy - IZR (nrows m - 1) / 2)%R in let px := (cx - IZR (ncols m - 1) / 2)%R in
  @zoom_centre ROps m (sy, sx, oy, ox) = Ok (cy, cx) /\
  @zoom_offset_pixels ROps m (sy, sx, oy, ox) = Ok (py, px) /\
  @zoom_offset_scaled ROps m (sy, sx, oy, ox) = Ok ((- sy * py)%R, (sx * px)%R).
Proof.
  intros HB Hy Hx. cbv zeta. destruct (is_bbox_region m _ _ _ _ HB) as (y0 & y1 & x0 & x1 & EZ & <- & <-).
  split; [now apply zoom_centre_region|]. split; [now apply zoom_offset_pixels_region | now apply zoom_offset_scaled_region].
Qed.

Lemma zoomed_geometry_negative_window_raises (m : list (list bool)) (sy sx oy ox : R) y0 y1 x0 x1 b :
  zoom_region m = Ok (y0, y1, x0, x1) -> (y1 - y0) + 2 * b < 0 \/ (x1 - x0) + 2 * b < 0 ->
  @zoomed_geometry ROps m (sy, sx, oy, ox) b = Raise OtherException.
Proof. intros EZ. exact (zoomed_geometry_raises m sy sx oy ox y0 y1 x0 x1 EZ b). Qed.

(* ------------------------------------------------------------------ witnesses *)
(* the odd-kernel hypothesis of pad-then-trim is needed: a 2x2 kernel pads one row / column that the trim does not remove *)
Lemma even_kernel_pad_trim_not_identity :
  exists (arr : arr2d Z),
    bind (padded_before_convolution_from 0 arr (2, 2) 0) (fun p => trimmed_after_convolution_from 0 p (2, 2))
    <> Ok (normal_arr 0 arr).
Proof. exists ([[5]], [[false]]). vm_compute. discriminate. Qed.

(* Mask2D.trimmed_array_from with a parity-changing image shape returns one row / column more than requested *)
Lemma trimmed_array_parity_change_witness :
  trimmed_array_from (3, 3) [[1; 2; 3]; [4; 5; 6]; [7; 8; 9]] (2, 2) = [[1; 2; 3]; [4; 5; 6]; [7; 8; 9]].
Proof. vm_compute. reflexivity. Qed.

(* ------------------------------------------------------------------ Grid2D.padded_grid_from (PSF padding of a grid) *)
(* for an odd kernel the padded grid lists, for every pixel (i, j) of the padded frame, the coordinate that pixel
   (i - (k0-1)/2, j - (k1-1)/2) has in the ORIGINAL frame (for the pixels of the original frame: their own coordinate) *)
Lemma padded_grid_keeps_coordinates H W k0 k1 (g : @geom ROps) :
  0 < H -> 0 <= W -> Z.odd k0 = true -> Z.odd k1 = true -> 1 <= k0 -> 1 <= k1 ->
  @padded_grid_from ROps H W (k0, k1) g =
  map (fun p => @pixel_centre_code ROps H W g (fst p - (k0 - 1) / 2) (snd p - (k1 - 1) / 2))
      (unmasked_coords (all_false_mask (H + k0 - 1) (W + k1 - 1))).
Proof.
  intros HP HW O0 O1 K0 K1. unfold padded_grid_from. cbn [fst snd].
  set (R0 := H + k0 - 1). set (R1 := W + k1 - 1).
  assert (HE : Entries (all_false_mask R0 R1) R0 R1 (fun i j => false)).
  { unfold all_false_mask. apply (Entries_tab2 R0 R1 (fun _ _ => false)); unfold R0, R1; lia. }
  destruct (Entries_shape _ _ _ _ HE ltac:(unfold R0; lia)) as [S0 S1].
  rewrite (grid_scan _ _ _ _ g HE), (unmasked_coords_scan _ _ _ _ HE), map_scan, S0, S1. cbn [fst snd].
  apply scan_ext. intros y x _ _. split; [reflexivity|]. intros _.
  rewrite (centre_code_shift H W R0 R1 g).
  - apply Z.odd_spec in O0. apply Z.odd_spec in O1. destruct O0 as [q0 Q0]. destruct O1 as [q1 Q1].
    f_equal; unfold R0, R1; subst k0 k1.
    + replace (2 * q0 + 1 - 1) with (q0 * 2) by lia. rewrite Z.div_mul by lia.
      replace (H + (2 * q0 + 1) - 1) with (H + q0 * 2) by lia. rewrite Z.div_add by lia. lia.
    + replace (2 * q1 + 1 - 1) with (q1 * 2) by lia. rewrite Z.div_mul by lia.
      replace (W + (2 * q1 + 1) - 1) with (W + q1 * 2) by lia. rewrite Z.div_add by lia. lia.
  - unfold R0. replace (H + k0 - 1 - H) with (k0 - 1) by lia. rewrite Z.even_sub. rewrite <- Z.negb_odd, O0. reflexivity.
  - unfold R1. replace (W + k1 - 1 - W) with (k1 - 1) by lia. rewrite Z.even_sub. rewrite <- Z.negb_odd, O1. reflexivity.
Qed.
(* the padded frame has the stated shape and every pixel of it is listed (nothing is masked) *)
Lemma flat_map_const_length {C} (G : nat -> list C) n1 : (forall y, length (G y) = n1) ->
  forall n0 s, length (flat_map G (seq s n0)) = (n0 * n1)%nat.
Proof.
  intros HG. induction n0 as [|n0 IH]; intros s; [reflexivity|].
  cbn [seq flat_map]. rewrite app_length, HG, IH. reflexivity.
Qed.
Lemma padded_grid_length H W k0 k1 (g : @geom ROps) : 0 < H + k0 - 1 -> 0 <= W + k1 - 1 ->
  length (@padded_grid_from ROps H W (k0, k1) g) = (Z.to_nat (H + k0 - 1) * Z.to_nat (W + k1 - 1))%nat.
Proof.
  intros H0 H1. unfold padded_grid_from. cbn [fst snd]. set (R0 := H + k0 - 1). set (R1 := W + k1 - 1).
  assert (HE : Entries (all_false_mask R0 R1) R0 R1 (fun i j => false)).
  { unfold all_false_mask. apply (Entries_tab2 R0 R1 (fun _ _ => false)); lia. }
  rewrite (grid_scan _ _ _ _ g HE). unfold scan.
  apply flat_map_const_length. intros y.
  rewrite (flat_map_const_length _ 1%nat); [lia|]. intros x. reflexivity.
Qed.
