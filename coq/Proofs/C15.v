From Coq Require Import List Arith Bool Lia.
From PAV Require Import Base.Res Base.Check Model.C15.
Import ListNotations.
