From PAV Require Import Model.C04.
