(* Boolean equality combinators and the case-runner used by generated correspondence files.
   A correspondence file defines [cases : list C] and evaluates [run_cases check cases], where
   [check c] returns a verdict code:
     0  model output = implementation output (and, where a spec checker exists, it accepts it)
     1  model <> implementation, but the spec checker accepts the implementation's output
     2  model <> implementation and the spec checker REJECTS the implementation's output
     3  model = implementation but the spec checker rejects it (model itself violates the spec)
   Only the (index, code) pairs with code <> 0 are printed. *)
From Coq Require Import List ZArith QArith Qabs Bool.
Import ListNotations.

Fixpoint list_eqb {A} (eqb : A -> A -> bool) (l1 l2 : list A) : bool :=
  match l1, l2 with
  | [], [] => true
  | x :: t1, y :: t2 => eqb x y && list_eqb eqb t1 t2
  | _, _ => false
  end.
Definition prod_eqb {A B} (ea : A -> A -> bool) (eb : B -> B -> bool) (p q : A * B) : bool :=
  ea (fst p) (fst q) && eb (snd p) (snd q).
Definition option_eqb {A} (eqb : A -> A -> bool) (x y : option A) : bool :=
  match x, y with
  | Some a, Some b => eqb a b
  | None, None => true
  | _, _ => false
  end.
Definition Qabs_le_tol (tol a b : Q) : bool := Qle_bool (Qabs (a - b)) tol.

Definition verdict (agree spec_ok : bool) : nat :=
  match agree, spec_ok with
  | true, true => 0 | false, true => 1 | false, false => 2 | true, false => 3
  end.

Fixpoint run_from {C} (check : C -> nat) (i : nat) (cs : list C) : list (nat * nat) :=
  match cs with
  | [] => []
  | c :: t => let v := check c in
              if Nat.eqb v 0 then run_from check (S i) t else (i, v) :: run_from check (S i) t
  end.
Definition run_cases {C} (check : C -> nat) (cs : list C) : list (nat * nat) := run_from check 0 cs.
