(* C02 -- proofs (at ROps) about the generated geometry model Gen/Gen_geometry.v and the hand model of the elliptical masks *)
From Coq Require Import ZArith Reals Lra Lia List Bool Psatz.
From PAV Require Import Base.NumOps Gen.Gen_geometry Model.C02 Model.C02x.
Import ListNotations.
Local Open Scope R_scope.

(* NumOps projections at ROps, and the derived constants *)
Ltac rops := cbn [T add sub mul div opp ofZ leb ltb eqb floorZ sqrtT ROps fst snd] in *.
Ltac rsimp := unfold two, half, one, zero, sq in *; rops.
Ltac fnz := field; repeat split; assumption.      (* field, side conditions s <> 0 from the context *)
Ltac tup := repeat match goal with |- (_, _) = (_, _) => apply f_equal2 end.

(* ------------------------------------------------------------------ truncation *)
Lemma trunc_unique (p : R) (i : Z) : (0 <= i)%Z -> IZR i <= p < IZR i + 1 -> @trunc ROps p = i.
Proof.
  intros Hi [H1 H2]. apply IZR_le in Hi. rewrite trunc_R_nonneg by lra. apply Rfloor_unique; lra.
Qed.
Lemma trunc_IZR (k : Z) : @trunc ROps (IZR k) = k.
Proof.
  destruct (Z_lt_le_dec k 0) as [Hn|Hp].
  - apply IZR_lt in Hn. rewrite trunc_R_neg by lra. rewrite <- opp_IZR, Rfloor_IZR. lia.
  - apply trunc_unique; [lia|lra].
Qed.

Lemma div_bounds a s lo hi : 0 < s -> lo * s <= a < hi * s -> lo <= a / s < hi.
Proof.
  intros Hs [H1 H2]. assert (E : a = a / s * s) by (field; lra).
  split.
  - apply Rmult_le_reg_r with s; [lra|]. lra.
  - apply Rmult_lt_reg_r with s; [lra|]. lra.
Qed.
Lemma div_bounds' a s lo hi : 0 < s -> lo * s < a <= hi * s -> lo < a / s <= hi.
Proof.
  intros Hs [H1 H2]. assert (E : a = a / s * s) by (field; lra).
  split.
  - apply Rmult_lt_reg_r with s; [lra|]. lra.
  - apply Rmult_le_reg_r with s; [lra|]. lra.
Qed.

(* ------------------------------------------------------------------ scalar conversions (generated definitions) *)
(* centre formula, continuous form: pixel position (pi, pj) |-> scaled coordinate *)
Lemma scaled2_is_centre H W sy sx oy ox pi pj : sy <> 0 -> sx <> 0 ->
  @scaled_coordinates_2d_from ROps (pi, pj) (H, W) (sy, sx) (oy, ox) = (@cy_spec ROps H sy oy pi, @cx_spec ROps W sx ox pj).
Proof.
  intros Hy Hx. unfold scaled_coordinates_2d_from, central_scaled_coordinate_2d_from, central_pixel_coordinates_2d_from, cy_spec, cx_spec.
  rsimp. f_equal; fnz.
Qed.

Lemma pix2_inside H W sy sx oy ox y x i j :
  0 < sy -> 0 < sx -> (0 <= i)%Z -> (0 <= j)%Z ->
  @cy_spec ROps H sy oy (IZR i) - sy / 2 < y <= @cy_spec ROps H sy oy (IZR i) + sy / 2 ->
  @cx_spec ROps W sx ox (IZR j) - sx / 2 <= x < @cx_spec ROps W sx ox (IZR j) + sx / 2 ->
  @pixel_coordinates_2d_from ROps (y, x) (H, W) (sy, sx) (oy, ox) = (i, j).
Proof.
  intros Hsy Hsx Hi Hj Hy Hx.
  unfold pixel_coordinates_2d_from, central_pixel_coordinates_2d_from, cy_spec, cx_spec in *. rsimp.
  set (cy := IZR (H - 1) / 2) in *. set (cx := IZR (W - 1) / 2) in *.
  f_equal; apply trunc_unique; try assumption.
  - assert (B : IZR i - cy - 1 / 2 <= (- y + oy) / sy < IZR i - cy + 1 / 2) by (apply div_bounds; [assumption | nra]).
    lra.
  - assert (B : IZR j - cx - 1 / 2 <= (x - ox) / sx < IZR j - cx + 1 / 2) by (apply div_bounds; [assumption | nra]).
    lra.
Qed.

(* index -> centre -> index *)
Lemma pix2_of_centre H W sy sx oy ox i j : 0 < sy -> 0 < sx -> (0 <= i)%Z -> (0 <= j)%Z ->
  @pixel_coordinates_2d_from ROps (@scaled_coordinates_2d_from ROps (IZR i, IZR j) (H, W) (sy, sx) (oy, ox)) (H, W) (sy, sx) (oy, ox) = (i, j).
Proof.
  intros Hsy Hsx Hi Hj. rewrite scaled2_is_centre by lra. apply pix2_inside; try assumption; lra.
Qed.
(* centre -> index -> centre *)
Lemma centre_of_pix2_of_centre H W sy sx oy ox i j : 0 < sy -> 0 < sx -> (0 <= i)%Z -> (0 <= j)%Z ->
  let c := @centre_spec ROps (H, W) (sy, sx) (oy, ox) (i, j) in
  let p := @pixel_coordinates_2d_from ROps c (H, W) (sy, sx) (oy, ox) in
  @scaled_coordinates_2d_from ROps (IZR (fst p), IZR (snd p)) (H, W) (sy, sx) (oy, ox) = c.
Proof.
  intros Hsy Hsx Hi Hj c p.
  assert (E : p = (i, j)).
  { unfold p, c, centre_spec. rops. apply pix2_inside; try assumption; lra. }
  rewrite E. cbn [fst snd]. rewrite scaled2_is_centre by lra. reflexivity.
Qed.

(* ---- 1D *)
Lemma scaled1_is_centre n s o p : s <> 0 ->
  @scaled_coordinates_1d_from ROps p n s o = @cx_spec ROps n s o p.
Proof.
  intros Hs. unfold scaled_coordinates_1d_from, central_scaled_coordinate_1d_from, central_pixel_coordinates_1d_from, cx_spec.
  rsimp. fnz.
Qed.
Lemma pix1_inside n s o x j : 0 < s -> (0 <= j)%Z ->
  @cx_spec ROps n s o (IZR j) - s / 2 <= x < @cx_spec ROps n s o (IZR j) + s / 2 ->
  @pixel_coordinates_1d_from ROps x n s o = j.
Proof.
  intros Hs Hj Hx. unfold pixel_coordinates_1d_from, central_pixel_coordinates_1d_from, cx_spec in *. rsimp.
  set (c := IZR (n - 1) / 2) in *. apply trunc_unique; try assumption.
  assert (B : IZR j - c - 1 / 2 <= (x - o) / s < IZR j - c + 1 / 2) by (apply div_bounds; [assumption | nra]).
  lra.
Qed.
Lemma pix1_of_centre n s o j : 0 < s -> (0 <= j)%Z ->
  @pixel_coordinates_1d_from ROps (@scaled_coordinates_1d_from ROps (IZR j) n s o) n s o = j.
Proof. intros Hs Hj. rewrite scaled1_is_centre by lra. apply pix1_inside; try assumption; lra. Qed.

(* ------------------------------------------------------------------ slim-grid loops (generated definitions) *)
(* row-wise: each routine is a map, so a statement about one row is a statement about every row *)
Lemma map_as_flat_map {A B} (f : A -> B) l : map f l = flat_map (fun c => map f [c]) l.
Proof.
  induction l as [|a l IH]; [reflexivity|].
  change (f a :: map f l = map f [a] ++ flat_map (fun c => map f [c]) l). rewrite <- IH. reflexivity.
Qed.
Lemma pixels_rowwise g sh s o :
  @grid_pixels_2d_slim_from ROps g sh s o = flat_map (fun c => @grid_pixels_2d_slim_from ROps [c] sh s o) g.
Proof. unfold grid_pixels_2d_slim_from. cbv zeta. apply map_as_flat_map. Qed.
Lemma centres_rowwise g sh s o :
  @grid_pixel_centres_2d_slim_from ROps g sh s o = flat_map (fun c => @grid_pixel_centres_2d_slim_from ROps [c] sh s o) g.
Proof. unfold grid_pixel_centres_2d_slim_from. cbv zeta. apply map_as_flat_map. Qed.
Lemma indexes_rowwise g sh s o :
  @grid_pixel_indexes_2d_slim_from ROps g sh s o = flat_map (fun c => @grid_pixel_indexes_2d_slim_from ROps [c] sh s o) g.
Proof.
  unfold grid_pixel_indexes_2d_slim_from, grid_pixel_centres_2d_slim_from. cbv zeta.
  rewrite map_map. cbn [map]. apply map_as_flat_map.
Qed.
Lemma scaled_rowwise g sh s o :
  @grid_scaled_2d_slim_from ROps g sh s o = flat_map (fun c => @grid_scaled_2d_slim_from ROps [c] sh s o) g.
Proof. unfold grid_scaled_2d_slim_from. cbv zeta. apply map_as_flat_map. Qed.

(* the array version of the index computation performs the division before adding the origin term; over R it is the scalar one *)
Lemma centres_are_pix2 g H W sy sx oy ox : sy <> 0 -> sx <> 0 ->
  @grid_pixel_centres_2d_slim_from ROps g (H, W) (sy, sx) (oy, ox) =
  map (fun c => let p := @pixel_coordinates_2d_from ROps c (H, W) (sy, sx) (oy, ox) in (IZR (fst p), IZR (snd p))) g.
Proof.
  intros Hy Hx. unfold grid_pixel_centres_2d_slim_from. apply map_ext. intros [y x].
  unfold pixel_coordinates_2d_from, central_scaled_coordinate_2d_from, central_pixel_coordinates_2d_from. rsimp.
  f_equal; f_equal; f_equal; fnz.
Qed.
Lemma indexes_are_pix2 g H W sy sx oy ox : sy <> 0 -> sx <> 0 ->
  @grid_pixel_indexes_2d_slim_from ROps g (H, W) (sy, sx) (oy, ox) =
  map (fun c => let p := @pixel_coordinates_2d_from ROps c (H, W) (sy, sx) (oy, ox) in IZR (fst p * W + snd p)) g.
Proof.
  intros Hy Hx. unfold grid_pixel_indexes_2d_slim_from. cbv zeta. rewrite centres_are_pix2 by assumption.
  rewrite map_map. apply map_ext. intros c. rsimp. cbv zeta. rops. f_equal.
  match goal with |- trunc ?e = ?k => replace e with (IZR k) by (rewrite plus_IZR, mult_IZR; ring) end.
  apply trunc_IZR.
Qed.

(* ------------------------------------------------------------------ pixel-centre grids of a mask *)
Lemma gather1_as_map_filter {A} (b : Z -> bool) (f : Z -> A) l :
  flat_map (fun x => if b x then [] else [f x]) l = map f (filter (fun x => negb (b x)) l).
Proof. induction l as [|a l IH]; [reflexivity|]. cbn [flat_map filter]. destruct (b a); cbn [negb map app]; now rewrite IH. Qed.
Lemma gather2_as_map_filter {A} (b : Z -> Z -> bool) (f : Z -> Z -> A) ly lx :
  flat_map (fun y => flat_map (fun x => if b y x then [] else [f y x]) lx) ly =
  map (fun p => f (fst p) (snd p)) (filter (fun p => negb (b (fst p) (snd p))) (flat_map (fun i => map (fun j => (i, j)) lx) ly)).
Proof.
  induction ly as [|y ly IH]; [reflexivity|]. cbn [flat_map]. rewrite filter_app, map_app, <- IH. f_equal.
  rewrite gather1_as_map_filter. clear IH. induction lx as [|x lx IH]; [reflexivity|].
  cbn [map filter fst snd]. destruct (b y x); cbn [negb map fst snd]; now rewrite IH.
Qed.

Lemma grid_mask_centres m sy sx oy ox : sy <> 0 -> sx <> 0 ->
  @grid_2d_slim_via_mask_from ROps m (sy, sx) (oy, ox) = map (@centre_spec ROps (rows m, cols m) (sy, sx) (oy, ox)) (unmasked m).
Proof.
  intros Hy Hx. unfold grid_2d_slim_via_mask_from. cbv zeta. rewrite gather2_as_map_filter.
  unfold unmasked, coords, mshape, rows, cols, zrange, seqZ, getm, mget2. cbn [fst snd].
  apply map_ext. intros [i j].
  unfold centre_spec, cy_spec, cx_spec, central_scaled_coordinate_2d_from, central_pixel_coordinates_2d_from. rsimp.
  f_equal; fnz.
Qed.
Lemma grid1_mask_centres m s o : s <> 0 ->
  @grid_1d_slim_via_mask_from ROps m s o = map (@centre1_spec ROps (Z.of_nat (length m)) s o) (unmasked1 m).
Proof.
  intros Hs. unfold grid_1d_slim_via_mask_from. cbv zeta. rewrite gather1_as_map_filter.
  unfold unmasked1, zrange, seqZ, mget1. apply map_ext. intros j.
  unfold centre1_spec, cx_spec, central_scaled_coordinate_1d_from, central_pixel_coordinates_1d_from. rsimp. fnz.
Qed.

(* ------------------------------------------------------------------ continuous pixel coordinates and their inverse *)
Lemma map_id_ext {A} (f : A -> A) l : (forall a, f a = a) -> map f l = l.
Proof. intros E. induction l as [|a l IH]; cbn; [reflexivity | now rewrite E, IH]. Qed.
Lemma scaled_of_pixels g H W sy sx oy ox : sy <> 0 -> sx <> 0 ->
  @grid_scaled_2d_slim_from ROps (@grid_pixels_2d_slim_from ROps g (H, W) (sy, sx) (oy, ox)) (H, W) (sy, sx) (oy, ox) = g.
Proof.
  intros Hy Hx. unfold grid_scaled_2d_slim_from, grid_pixels_2d_slim_from. cbv zeta. rewrite map_map.
  apply map_id_ext. intros [y x]. rsimp. f_equal; fnz.
Qed.
Lemma pixels_of_scaled g H W sy sx oy ox : sy <> 0 -> sx <> 0 ->
  @grid_pixels_2d_slim_from ROps (@grid_scaled_2d_slim_from ROps g (H, W) (sy, sx) (oy, ox)) (H, W) (sy, sx) (oy, ox) = g.
Proof.
  intros Hy Hx. unfold grid_scaled_2d_slim_from, grid_pixels_2d_slim_from. cbv zeta. rewrite map_map.
  apply map_id_ext. intros [y x]. rsimp. f_equal; fnz.
Qed.
Lemma pixels_are_spec g H W sy sx oy ox : sy <> 0 -> sx <> 0 ->
  @grid_pixels_2d_slim_from ROps g (H, W) (sy, sx) (oy, ox) = map (@pixels_spec ROps (H, W) (sy, sx) (oy, ox)) g.
Proof.
  intros Hy Hx. unfold grid_pixels_2d_slim_from. cbv zeta. apply map_ext. intros [y x].
  unfold pixels_spec, hi_spec, lo_spec, central_scaled_coordinate_2d_from, central_pixel_coordinates_2d_from. rsimp.
  rewrite !minus_IZR. f_equal; fnz.
Qed.
Lemma scaled_are_spec g H W sy sx oy ox : sy <> 0 -> sx <> 0 ->
  @grid_scaled_2d_slim_from ROps g (H, W) (sy, sx) (oy, ox) = map (@scaled_spec ROps (H, W) (sy, sx) (oy, ox)) g.
Proof.
  intros Hy Hx. unfold grid_scaled_2d_slim_from. cbv zeta. apply map_ext. intros [y x].
  unfold scaled_spec, hi_spec, lo_spec, central_scaled_coordinate_2d_from, central_pixel_coordinates_2d_from. rsimp.
  rewrite !minus_IZR. f_equal; fnz.
Qed.
(* the integer pixel index is the floor of the continuous pixel coordinate wherever that is non-negative *)
Lemma trunc_floor_eq a b : a = b -> 0 <= b -> @trunc ROps a = Rfloor b.
Proof. intros E Hb. subst a. now apply trunc_R_nonneg. Qed.
Lemma centres_are_floor_of_pixels g H W sy sx oy ox : sy <> 0 -> sx <> 0 ->
  Forall (fun p => 0 <= fst p /\ 0 <= snd p) (@grid_pixels_2d_slim_from ROps g (H, W) (sy, sx) (oy, ox)) ->
  @grid_pixel_centres_2d_slim_from ROps g (H, W) (sy, sx) (oy, ox) =
  map (fun p => (IZR (Rfloor (fst p)), IZR (Rfloor (snd p)))) (@grid_pixels_2d_slim_from ROps g (H, W) (sy, sx) (oy, ox)).
Proof.
  intros Hy Hx. unfold grid_pixel_centres_2d_slim_from, grid_pixels_2d_slim_from. cbv zeta. rewrite map_map.
  induction g as [|c g IH]; intros Hf; [reflexivity|]. cbn [map] in *. inversion Hf as [|? ? [H1 H2] Hf']; subst.
  rewrite IH by assumption. cbn [fst snd] in H1, H2. rops.
  f_equal. f_equal; f_equal; (apply trunc_floor_eq; [fnz | assumption]).
Qed.

(* ------------------------------------------------------------------ extent *)
Lemma extent2_eq H W sy sx oy ox :
  @Geometry2D_extent ROps (H, W) (sy, sx) (oy, ox) = @extent_spec ROps (H, W) (sy, sx) (oy, ox).
Proof.
  unfold Geometry2D_extent, Geometry2D_scaled_minima, Geometry2D_scaled_maxima, Geometry2D_shape_native_scaled,
    extent_spec, lo_spec, hi_spec. rsimp. tup; field.
Qed.
Lemma extent1_eq n s o : @Geometry1D_extent ROps n s o = @extent1_spec ROps n s o.
Proof.
  unfold Geometry1D_extent, Geometry1D_scaled_minima, Geometry1D_scaled_maxima, Geometry1D_shape_slim_scaled,
    extent1_spec, lo_spec, hi_spec. rsimp. tup; field.
Qed.

(* one axis: [o - n s/2, o + n s/2] is the union of the n closed pixel intervals *)
Lemma axis_cover n s o v : (1 <= n)%Z -> 0 < s ->
  (@lo_spec ROps n s o <= v <= @hi_spec ROps n s o) <->
  exists j, (0 <= j < n)%Z /\ @in_interval ROps (@cx_spec ROps n s o (IZR j)) s v = true.
Proof.
  intros Hn Hs. unfold lo_spec, hi_spec, in_interval, cx_spec. rsimp. rewrite minus_IZR.
  assert (Hn' : 1 <= IZR n) by (apply IZR_le in Hn; exact Hn).
  split.
  - intros [H1 H2].
    set (t := (v - o) / s + IZR n / 2).
    assert (Ev : v = o + (t - IZR n / 2) * s) by (unfold t; field; lra).
    assert (Ht : 0 <= t <= IZR n).
    { assert (B : - (IZR n / 2) <= (v - o) / s < IZR n / 2 + 1) by (apply div_bounds; [assumption | nra]).
      assert (B2 : - (IZR n / 2) - 1 < (v - o) / s <= IZR n / 2) by (apply div_bounds'; [assumption | nra]).
      unfold t. lra. }
    pose proof (Rfloor_spec t) as [F1 F2]. set (k := Rfloor t) in *.
    assert (Hk0 : (0 <= k)%Z).
    { assert (A : IZR (-1) < IZR k) by (cbn; lra). apply lt_IZR in A. lia. }
    destruct (Z_lt_le_dec k n) as [Hlt|Hge].
    + exists k. split; [lia|]. apply andb_true_iff. split; apply Rleb_true; rewrite Ev; nra.
    + exists (n - 1)%Z. split; [lia|]. apply IZR_le in Hge. rewrite minus_IZR.
      apply andb_true_iff. split; apply Rleb_true; rewrite Ev; nra.
  - intros [j [[Hj0 Hj1] Hin]]. apply andb_true_iff in Hin. destruct Hin as [A B]. apply Rleb_true in A, B.
    apply IZR_le in Hj0. assert (Hj1' : IZR j <= IZR n - 1) by (rewrite <- minus_IZR; apply IZR_le; lia).
    split; nra.
Qed.
(* the y axis runs downward in the row index: row i is column H-1-i of the mirrored axis *)
Lemma cy_as_cx H sy oy i : @cy_spec ROps H sy oy (IZR i) = @cx_spec ROps H sy oy (IZR (H - 1 - i)).
Proof. unfold cy_spec, cx_spec. rsimp. rewrite !minus_IZR. field. Qed.

Lemma extent_is_union_of_squares H W sy sx oy ox y x : (1 <= H)%Z -> (1 <= W)%Z -> 0 < sy -> 0 < sx ->
  let '(xmin, xmax, ymin, ymax) := @Geometry2D_extent ROps (H, W) (sy, sx) (oy, ox) in
  (xmin <= x <= xmax /\ ymin <= y <= ymax) <->
  exists i j, (0 <= i < H)%Z /\ (0 <= j < W)%Z /\ @in_square ROps (H, W) (sy, sx) (oy, ox) (i, j) (y, x) = true.
Proof.
  intros HH HW Hsy Hsx. rewrite extent2_eq. unfold extent_spec. cbn [fst snd].
  rewrite (axis_cover W sx ox x HW Hsx), (axis_cover H sy oy y HH Hsy). unfold in_square, centre_spec. cbn [fst snd]. rops.
  split.
  - intros [[j [Hj Bx]] [i' [Hi By]]]. exists (H - 1 - i')%Z, j. split; [lia|]. split; [assumption|].
    rewrite cy_as_cx. replace (H - 1 - (H - 1 - i'))%Z with i' by lia. now rewrite By, Bx.
  - intros [i [j [Hi [Hj B]]]]. apply andb_true_iff in B. destruct B as [By Bx]. split.
    + exists j. now split.
    + exists (H - 1 - i)%Z. split; [lia|]. now rewrite <- cy_as_cx.
Qed.
Lemma extent1_is_union_of_intervals n s o x : (1 <= n)%Z -> 0 < s ->
  let '(xmin, xmax) := @Geometry1D_extent ROps n s o in
  (xmin <= x <= xmax) <-> exists j, (0 <= j < n)%Z /\ @in_interval ROps (@centre1_spec ROps n s o j) s x = true.
Proof. intros Hn Hs. rewrite extent1_eq. unfold extent1_spec, centre1_spec. rops. now apply axis_cover. Qed.

(* ------------------------------------------------------------------ radial predicates *)
Lemma bool_eq_iff (a b : bool) : (a = true <-> b = true) -> a = b.
Proof. destruct a, b; intros [H1 H2]; auto; try (symmetry; auto). Qed.

Lemma sqrt_leb_sq a r : 0 <= a -> Rleb (sqrt a) r = @sqrt_le ROps a r.
Proof.
  intros Ha. unfold sqrt_le. rsimp. apply bool_eq_iff. rewrite andb_true_iff, !Rleb_true. split.
  - intros Hs. pose proof (sqrt_pos a) as Hp. split; [lra|]. rewrite <- (sqrt_sqrt a Ha). nra.
  - intros [Hr Hle]. rewrite <- (sqrt_square r Hr). apply sqrt_le_1_alt. exact Hle.
Qed.
Lemma sqrt_geb_sq a r : 0 <= a -> Rleb r (sqrt a) = @sqrt_ge ROps a r.
Proof.
  intros Ha. unfold sqrt_ge. rsimp. apply bool_eq_iff. rewrite orb_true_iff, !Rleb_true. split.
  - intros Hs. destruct (Rle_dec r 0) as [Hr|Hr]; [left; exact Hr|right]. rewrite <- (sqrt_sqrt a Ha). nra.
  - intros [Hr|Hle]; [pose proof (sqrt_pos a); lra|].
    destruct (Rle_dec r 0) as [Hr|Hr]; [pose proof (sqrt_pos a); lra|].
    rewrite <- (sqrt_square r) by lra. apply sqrt_le_1_alt. exact Hle.
Qed.
(* Prop forms of the squared predicates: they are the documented inequalities on the distance itself *)
Lemma sqrt_le_iff a r : 0 <= a -> (@sqrt_le ROps a r = true <-> sqrt a <= r).
Proof. intros Ha. rewrite <- sqrt_leb_sq by assumption. apply Rleb_true. Qed.
Lemma sqrt_ge_iff a r : 0 <= a -> (@sqrt_ge ROps a r = true <-> r <= sqrt a).
Proof. intros Ha. rewrite <- sqrt_geb_sq by assumption. apply Rleb_true. Qed.

Lemma if_negb (b : bool) : (if b then false else true) = negb b.
Proof. destruct b; reflexivity. Qed.
Lemma dist2_nonneg (d : R * R) : 0 <= @dist2 ROps d.
Proof. unfold dist2. rsimp. nra. Qed.

Ltac mask_pointwise y x :=
  unfold mask_of, zrange, seqZ; cbn [fst snd]; apply map_ext; intros y; apply map_ext; intros x; rops.
(* the argument of the code's sqrt, whatever its algebraic form, is the squared distance of the specification *)
Ltac code_radius2_is H W sy sx cy cx y x :=
  match goal with |- context [sqrt ?A] =>
    replace A with (@dist2 ROps (@offset ROps (H, W) (sy, sx) (cy, cx) (y, x)))
      by (unfold dist2, offset, centre_spec, cy_spec, cx_spec, mask_2d_centres_from; rsimp; fnz)
  end;
  rewrite ?sqrt_leb_sq, ?sqrt_geb_sq by apply dist2_nonneg.

Lemma circular_is_spec H W sy sx r cy cx : sy <> 0 -> sx <> 0 ->
  @mask_2d_circular_from ROps (H, W) (sy, sx) r (cy, cx) = mask_of (H, W) (@circ_inside ROps (H, W) (sy, sx) r (cy, cx)).
Proof.
  intros Hy Hx. unfold mask_2d_circular_from. cbv zeta. mask_pointwise y x. code_radius2_is H W sy sx cy cx y x.
  unfold circ_inside. destruct (@sqrt_le ROps _ r); reflexivity.
Qed.
Lemma annular_is_spec H W sy sx ri ro cy cx : sy <> 0 -> sx <> 0 ->
  @mask_2d_circular_annular_from ROps (H, W) (sy, sx) ri ro (cy, cx) =
  mask_of (H, W) (@ann_inside ROps (H, W) (sy, sx) ri ro (cy, cx)).
Proof.
  intros Hy Hx. unfold mask_2d_circular_annular_from. cbv zeta. mask_pointwise y x. code_radius2_is H W sy sx cy cx y x.
  unfold ann_inside. cbv zeta. destruct (@sqrt_le ROps _ ro), (@sqrt_ge ROps _ ri); reflexivity.
Qed.
Lemma anti_annular_is_spec H W sy sx ri ro ro2 cy cx : sy <> 0 -> sx <> 0 ->
  @mask_2d_circular_anti_annular_from ROps (H, W) (sy, sx) ri ro ro2 (cy, cx) =
  mask_of (H, W) (@anti_inside ROps (H, W) (sy, sx) ri ro ro2 (cy, cx)).
Proof.
  intros Hy Hx. unfold mask_2d_circular_anti_annular_from. cbv zeta. mask_pointwise y x. code_radius2_is H W sy sx cy cx y x.
  unfold anti_inside. cbv zeta. destruct (@sqrt_le ROps _ ri), (@sqrt_le ROps _ ro2), (@sqrt_ge ROps _ ro); reflexivity.
Qed.

(* executable (cos, sin)-pair form of the elliptical radius: it is sqrt of the specification's ell2 at the offset (-ys, xs)
   (the code's y runs downward) *)
Lemma ell_cs_sqrt ys xs c s q : q <> 0 ->
  @elliptical_radius_from_cs ROps ys xs (c, s) q = sqrt (@ell2 ROps (- ys, xs) (c, s) q) /\ 0 <= @ell2 ROps (- ys, xs) (c, s) q.
Proof.
  intros Hq. unfold ell2, elliptical_radius_from_cs. rsimp. split.
  - f_equal. field. assumption.
  - assert (A : forall u v : R, 0 <= u * u + v * v) by (intros; nra). apply A.
Qed.
Lemma ell2_nonneg d c s q : q <> 0 -> 0 <= @ell2 ROps d (c, s) q.
Proof. intros Hq. unfold ell2. rsimp. assert (A : forall u v : R, 0 <= u * u + v * v) by (intros; nra). apply A. Qed.
(* the argument (-ys, xs) of ell2 after [ell_cs_sqrt], whatever the algebraic form of the code's ys / xs, is the offset *)
Ltac code_ell2_is H W sy sx cy cx y x :=
  repeat match goal with |- context [sqrt (@ell2 ROps ?D ?CS ?Q)] =>
    lazymatch D with
    | @offset _ _ _ _ _ => fail
    | _ => replace (@ell2 ROps D CS Q) with (@ell2 ROps (@offset ROps (H, W) (sy, sx) (cy, cx) (y, x)) CS Q)
             by (unfold ell2, offset, centre_spec, cy_spec, cx_spec, mask_2d_centres_from; rsimp; fnz)
    end
  end;
  rewrite ?sqrt_leb_sq, ?sqrt_geb_sq by (apply ell2_nonneg; assumption).

Lemma elliptical_is_spec H W sy sx R q c s cy cx : sy <> 0 -> sx <> 0 -> q <> 0 ->
  @mask_2d_elliptical_from_cs ROps (H, W) (sy, sx) R q (c, s) (cy, cx) =
  mask_of (H, W) (@ell_inside ROps (H, W) (sy, sx) R q (c, s) (cy, cx)).
Proof.
  intros Hy Hx Hq. unfold mask_2d_elliptical_from_cs. cbv zeta. mask_pointwise y x.
  rewrite (proj1 (ell_cs_sqrt _ _ c s q Hq)). code_ell2_is H W sy sx cy cx y x.
  unfold ell_inside. destruct (@sqrt_le ROps _ R); reflexivity.
Qed.
Lemma elliptical_annular_is_spec H W sy sx Ri qi ci si Ro qo co so cy cx : sy <> 0 -> sx <> 0 -> qi <> 0 -> qo <> 0 ->
  @mask_2d_elliptical_annular_from_cs ROps (H, W) (sy, sx) Ri qi (ci, si) Ro qo (co, so) (cy, cx) =
  mask_of (H, W) (@ellann_inside ROps (H, W) (sy, sx) Ri qi (ci, si) Ro qo (co, so) (cy, cx)).
Proof.
  intros Hy Hx Hqi Hqo. unfold mask_2d_elliptical_annular_from_cs. cbv zeta. mask_pointwise y x.
  rewrite (proj1 (ell_cs_sqrt _ _ ci si qi Hqi)), (proj1 (ell_cs_sqrt _ _ co so qo Hqo)).
  code_ell2_is H W sy sx cy cx y x.
  unfold ellann_inside. cbv zeta. destruct (@sqrt_ge ROps _ Ri), (@sqrt_le ROps _ Ro); reflexivity.
Qed.

(* ------------------------------------------------------------------ composed statements used by Props/C02.v *)
(* point c lies in the half-open square of pixel p (the top edge and the left edge belong to the pixel) *)
Definition in_pixel (sh : Z * Z) (s o : R * R) (p : Z * Z) (c : R * R) : Prop :=
  @cy_spec ROps (fst sh) (fst s) (fst o) (IZR (fst p)) - fst s / 2 < fst c <= @cy_spec ROps (fst sh) (fst s) (fst o) (IZR (fst p)) + fst s / 2 /\
  @cx_spec ROps (snd sh) (snd s) (snd o) (IZR (snd p)) - snd s / 2 <= snd c < @cx_spec ROps (snd sh) (snd s) (snd o) (IZR (snd p)) + snd s / 2.
Definition in_array (sh : Z * Z) (p : Z * Z) : Prop := (0 <= fst p < fst sh)%Z /\ (0 <= snd p < snd sh)%Z.

Lemma index_of_interior_point H W sy sx oy ox c p : 0 < sy -> 0 < sx -> in_array (H, W) p -> in_pixel (H, W) (sy, sx) (oy, ox) p c ->
  @pixel_coordinates_2d_from ROps c (H, W) (sy, sx) (oy, ox) = p /\
  @grid_pixel_centres_2d_slim_from ROps [c] (H, W) (sy, sx) (oy, ox) = [(IZR (fst p), IZR (snd p))] /\
  @grid_pixel_indexes_2d_slim_from ROps [c] (H, W) (sy, sx) (oy, ox) = [IZR (fst p * W + snd p)].
Proof.
  intros Hsy Hsx [[Hi _] [Hj _]] [Hy Hx]. destruct c as [y x], p as [i j]. cbn [fst snd] in *.
  assert (E : @pixel_coordinates_2d_from ROps (y, x) (H, W) (sy, sx) (oy, ox) = (i, j)) by (apply pix2_inside; assumption).
  split; [exact E|]. rewrite centres_are_pix2, indexes_are_pix2 by lra. cbn [map]. cbv zeta. rops. rewrite E. cbn [fst snd]. split; reflexivity.
Qed.
Lemma index_of_interior_points H W sy sx oy ox g ps : 0 < sy -> 0 < sx ->
  Forall2 (fun c p => in_array (H, W) p /\ in_pixel (H, W) (sy, sx) (oy, ox) p c) g ps ->
  @grid_pixel_centres_2d_slim_from ROps g (H, W) (sy, sx) (oy, ox) = map (fun p => (IZR (fst p), IZR (snd p))) ps /\
  @grid_pixel_indexes_2d_slim_from ROps g (H, W) (sy, sx) (oy, ox) = map (fun p => IZR (fst p * W + snd p)) ps.
Proof.
  intros Hsy Hsx HF. rewrite centres_rowwise, indexes_rowwise.
  induction HF as [|c p g ps [Ha Hp] HF [IH1 IH2]]; [split; reflexivity|].
  destruct (index_of_interior_point H W sy sx oy ox c p Hsy Hsx Ha Hp) as [_ [E1 E2]].
  cbn [flat_map map]. rops. rewrite E1, E2, IH1, IH2. split; reflexivity.
Qed.

Lemma seqZ_nonneg n j : In j (seqZ n) -> (0 <= j < n)%Z.
Proof. unfold seqZ. rewrite in_map_iff. intros [k [E Hk]]. apply in_seq in Hk. lia. Qed.
Lemma unmasked_in_array m p : In p (unmasked m) -> in_array (rows m, cols m) p.
Proof.
  unfold unmasked, coords. rewrite filter_In, in_flat_map. intros [[i [Hi Hp]] _].
  rewrite in_map_iff in Hp. destruct Hp as [j [E Hj]]. subst p. apply seqZ_nonneg in Hi, Hj. split; assumption.
Qed.
(* the pixel-centre grid of a mask converts back to the (row, column) of each unmasked pixel and to its flat index *)
Lemma grid_of_mask_indexes_to_itself m sy sx oy ox : 0 < sy -> 0 < sx ->
  let g := @grid_2d_slim_via_mask_from ROps m (sy, sx) (oy, ox) in
  @grid_pixel_centres_2d_slim_from ROps g (rows m, cols m) (sy, sx) (oy, ox) = map (fun p => (IZR (fst p), IZR (snd p))) (unmasked m) /\
  @grid_pixel_indexes_2d_slim_from ROps g (rows m, cols m) (sy, sx) (oy, ox) = map (fun p => IZR (fst p * cols m + snd p)) (unmasked m).
Proof.
  intros Hsy Hsx g. unfold g. rewrite grid_mask_centres by lra. apply index_of_interior_points; try assumption.
  pose proof (unmasked_in_array m) as HA. induction (unmasked m) as [|p l IH]; [constructor|].
  constructor.
  - split; [apply HA; left; reflexivity|]. unfold in_pixel, centre_spec. cbn [fst snd]. rops. split; lra.
  - apply IH. intros q Hq. apply HA. right. exact Hq.
Qed.

(* element form of the mask theorems *)
Lemma mask_of_get sh inside i j : (0 <= i < fst sh)%Z -> (0 <= j < snd sh)%Z ->
  getm (mask_of sh inside) (i, j) = negb (inside (i, j)).
Proof.
  intros Hi Hj. unfold getm, mask_of, seqZ. cbn [fst snd].
  assert (N : forall n k, (0 <= k < n)%Z -> nth (Z.to_nat k) (seq 0 (Z.to_nat n)) 0%nat = Z.to_nat k).
  { intros n k Hk. rewrite seq_nth by lia. reflexivity. }
  rewrite nth_indep with (d' := map (fun j0 => negb (inside (Z.of_nat 0, j0))) (map Z.of_nat (seq 0 (Z.to_nat (snd sh)))))
    by (rewrite !map_length, seq_length; lia).
  rewrite (map_nth (fun i0 => map (fun j0 => negb (inside (i0, j0))) (map Z.of_nat (seq 0 (Z.to_nat (snd sh)))))
                   (map Z.of_nat (seq 0 (Z.to_nat (fst sh)))) (Z.of_nat 0) (Z.to_nat i)).
  rewrite (map_nth Z.of_nat), N by assumption. rewrite Z2Nat.id by lia.
  rewrite nth_indep with (d' := negb (inside (i, Z.of_nat 0))) by (rewrite !map_length, seq_length; lia).
  rewrite (map_nth (fun j0 => negb (inside (i, j0)))), (map_nth Z.of_nat), N by assumption. rewrite Z2Nat.id by lia. reflexivity.
Qed.
(* circular: unmasked iff the distance of the pixel centre (relative to the mask origin) from the requested centre is <= r *)
Lemma circular_element H W sy sx r cy cx i j : sy <> 0 -> sx <> 0 -> (0 <= i < H)%Z -> (0 <= j < W)%Z ->
  getm (@mask_2d_circular_from ROps (H, W) (sy, sx) r (cy, cx)) (i, j) = false <->
  sqrt (@dist2 ROps (@offset ROps (H, W) (sy, sx) (cy, cx) (i, j))) <= r.
Proof.
  intros Hy Hx Hi Hj. rewrite circular_is_spec, mask_of_get by assumption. rewrite negb_false_iff. unfold circ_inside.
  apply sqrt_le_iff. unfold dist2. rsimp. nra.
Qed.
Lemma circular_element_explicit H W sy sx r cy cx i j : sy <> 0 -> sx <> 0 -> (0 <= i < H)%Z -> (0 <= j < W)%Z ->
  getm (@mask_2d_circular_from ROps (H, W) (sy, sx) r (cy, cx)) (i, j) = false <->
  sqrt (((IZR (H - 1) / 2 - IZR i) * sy - cy) ^ 2 + ((IZR j - IZR (W - 1) / 2) * sx - cx) ^ 2) <= r.
Proof.
  intros Hy Hx Hi Hj. rewrite (circular_element H W sy sx r cy cx i j Hy Hx Hi Hj).
  unfold dist2, offset, centre_spec, cy_spec, cx_spec, sq, two, zero. cbn [T add sub mul div ofZ ROps fst snd].
  replace (0 + (IZR (H - 1) / 2 - IZR i) * sy - cy) with ((IZR (H - 1) / 2 - IZR i) * sy - cy) by lra.
  replace (0 + (IZR j - IZR (W - 1) / 2) * sx - cx) with ((IZR j - IZR (W - 1) / 2) * sx - cx) by lra.
  cbn [pow]. rewrite !Rmult_1_r. reflexivity.
Qed.
