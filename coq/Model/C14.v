(* C14 -- resize, pad and trim keep data centred and attached to its coordinates.
   Executable Gallina only, no proofs:
     (a) MODEL of the anchored code (array_2d_util.resized_array_2d_from / extracted_array_2d_from,
         Array2D.resized_from / padded_before_convolution_from / trimmed_after_convolution_from /
         zoomed_around_mask, Mask2D.resized_from / trimmed_array_from / zoom_region, the automatic padding of
         Imaging.__init__ / apply_mask, grid_2d_slim_via_mask_from) keeping the code's loops (scatter writes
         into a zeros array), its window arithmetic, its guards and its branch order;
     (b) the independent SPECIFICATION (centred crop = firstn/skipn, centred embedding = repeat pad ++ l ++
         repeat pad, per axis; pixel-centre formula oy + ((H-1)/2 - i) sy);
     (c) helpers of the correspondence (the case type, [agree], [spec_ok], [check] are in Model/C14k.v).
   Indices over Z / nat, element type polymorphic; numbers of the coordinate clause over NumOps. *)
From Coq Require Import ZArith QArith List Bool Lia.
From PAV Require Import Base.Res Base.Check Base.NumOps.
Import ListNotations.
Local Open Scope Z_scope.

(* ------------------------------------------------------------------ arrays as lists of rows *)
Definition get2 {A} (d : A) (m : list (list A)) (y x : nat) : A := nth x (nth y m []) d.
Definition zget2 {A} (d : A) (m : list (list A)) (y x : Z) : A := get2 d m (Z.to_nat y) (Z.to_nat x).
Fixpoint set1 {B} (l : list B) (i : nat) (v : B) : list B :=
  match l, i with
  | [], _ => []
  | _ :: t, O => v :: t
  | h :: t, S j => h :: set1 t j v
  end.
(* out[y, x] = v *)
Definition set2 {A} (m : list (list A)) (y x : nat) (v : A) : list (list A) := set1 m y (set1 (nth y m []) x v).
(* np.zeros(shape=(r0, r1)) *)
Definition zeros {A} (z : A) (r0 r1 : nat) : list (list A) := repeat (repeat z r1) r0.
(* array.shape *)
Definition nrows {A} (m : list (list A)) : Z := Z.of_nat (length m).
Definition ncols {A} (m : list (list A)) : Z := Z.of_nat (length (hd [] m)).
Definition rectb {A} (H W : Z) (m : list (list A)) : bool :=
  (Z.of_nat (length m) =? H) && forallb (fun row => Z.of_nat (length row) =? W) m.
Definition tab2 {A} (H W : nat) (f : nat -> nat -> A) : list (list A) :=
  map (fun y => map (fun x => f y x) (seq 0 W)) (seq 0 H).

(* for yr, y in enumerate(range(y_min, y_max)): for xr, x in enumerate(range(x_min, x_max)): <write or skip>
   [w yr xr = Some v] is the write out[yr, xr] = v, [None] is "no statement executed" *)
Definition loop2 {A} (n0 n1 : nat) (w : nat -> nat -> option A) (out : list (list A)) : list (list A) :=
  fold_left (fun o yr =>
    fold_left (fun o xr => match w yr xr with Some v => set2 o yr xr v | None => o end) (seq 0 n1) o)
    (seq 0 n0) out.

(* int(n / 2): float division then truncation toward zero *)
Definition int_half (n : Z) : Z := Z.quot n 2.

Section Util.
  Context {A : Type} (zero : A).

  (* array_2d_util.resized_array_2d_from *)
  Definition resized_array_2d_from (a : list (list A)) (rs origin : Z * Z) (pad : A) : res (list (list A)) :=
    let H := nrows a in let W := ncols a in
    let y_is_even := Z.even H in
    let x_is_even := Z.even W in
    let origin :=
      if (fst origin =? -1) && (snd origin =? -1) then
        let y_centre := if y_is_even then int_half H else int_half H in
        let x_centre := if x_is_even then int_half W else int_half W in
        (y_centre, x_centre)
      else origin in
    if (fst rs <? 0) || (snd rs <? 0) then Raise OtherException      (* np.zeros: ValueError *)
    else
    let y_min := if y_is_even then fst origin - int_half (fst rs) else fst origin - int_half (fst rs) in
    let y_max := if y_is_even then fst origin + int_half (fst rs) + 1 else fst origin + int_half (fst rs) + 1 in
    let x_min := if x_is_even then snd origin - int_half (snd rs) else snd origin - int_half (snd rs) in
    let x_max := if x_is_even then snd origin + int_half (snd rs) + 1 else snd origin + int_half (snd rs) + 1 in
    let dest_ok (yr xr : nat) :=
      (0 <=? Z.of_nat yr) && (Z.of_nat yr <? fst rs) && (0 <=? Z.of_nat xr) && (Z.of_nat xr <? snd rs) in
    Ok (loop2 (Z.to_nat (y_max - y_min)) (Z.to_nat (x_max - x_min))
          (fun yr xr =>
             let y := y_min + Z.of_nat yr in let x := x_min + Z.of_nat xr in
             if (0 <=? y) && (y <? H) && (0 <=? x) && (x <? W)
             then (if dest_ok yr xr then Some (zget2 zero a y x) else None)
             else (if dest_ok yr xr then Some pad else None))
          (zeros zero (Z.to_nat (fst rs)) (Z.to_nat (snd rs)))).

  (* array_2d_util.extracted_array_2d_from *)
  Definition extracted_array_2d_from (a : list (list A)) (y0 y1 x0 x1 : Z) : res (list (list A)) :=
    let H := nrows a in let W := ncols a in
    if (y1 - y0 <? 0) || (x1 - x0 <? 0) then Raise OtherException     (* np.zeros: ValueError *)
    else
    Ok (loop2 (Z.to_nat (y1 - y0)) (Z.to_nat (x1 - x0))
          (fun yr xr =>
             let y := y0 + Z.of_nat yr in let x := x0 + Z.of_nat xr in
             if (0 <=? y) && (0 <=? x) && (y <=? H - 1) && (x <=? W - 1) then Some (zget2 zero a y x) else None)
          (zeros zero (Z.to_nat (y1 - y0)) (Z.to_nat (x1 - x0)))).

  (* a[lo:hi] with python's treatment of negative / out-of-range bounds *)
  Definition py_norm (n i : Z) : Z := Z.max 0 (Z.min n (if i <? 0 then i + n else i)).
  Definition pyslice {B} (l : list B) (lo hi : Z) : list B :=
    let n := Z.of_nat (length l) in
    firstn (Z.to_nat (py_norm n hi - py_norm n lo)) (skipn (Z.to_nat (py_norm n lo)) l).
  Definition pyslice2 (m : list (list A)) (y0 y1 x0 x1 : Z) : list (list A) :=
    map (fun row => pyslice row x0 x1) (pyslice m y0 y1).

  (* convert_array_2d on a native array: check_array_2d_and_mask_2d, then array_2d *= np.invert(mask_2d) *)
  Definition shape_eqb {B C} (a : list (list B)) (m : list (list C)) : bool :=
    (nrows a =? nrows m) && (ncols a =? ncols m).
  Definition mask_apply (a : list (list A)) (m : list (list bool)) : res (list (list A)) :=
    if shape_eqb a m then
      Ok (tab2 (length a) (length (hd [] a)) (fun y x => if get2 true m y x then zero else get2 zero a y x))
    else Raise ArrayException.

  (* array_2d_slim_from: row-major scan appending the unmasked values *)
  Definition slim_of (a : list (list A)) (m : list (list bool)) : list A :=
    flat_map (fun y => flat_map (fun x => if get2 true m y x then [] else [get2 zero a y x])
                                (seq 0 (length (hd [] m)))) (seq 0 (length m)).
End Util.

(* Mask2D.resized_from: the bool mask goes through a float array and .astype("bool") *)
Definition mask_resized_from (m : list (list bool)) (rs : Z * Z) (pad_value : Z) : res (list (list bool)) :=
  resized_array_2d_from false m rs (-1, -1) (negb (pad_value =? 0)).

(* ------------------------------------------------------------------ Array2D = (native values, mask) *)
Definition arr2d (A : Type) := (list (list A) * list (list bool))%type.

Section Arr2D.
  Context {A : Type} (zero : A).

  Definition bind {B C} (x : res B) (f : B -> res C) : res C :=
    match x with Ok b => f b | Raise e => Raise e end.

  (* Array2D.resized_from *)
  Definition array_resized_from (arr : arr2d A) (new_shape : Z * Z) (mask_pad_value : Z) : res (arr2d A) :=
    bind (resized_array_2d_from zero (fst arr) new_shape (-1, -1) zero) (fun resized_array_2d =>
    bind (mask_resized_from (snd arr) new_shape mask_pad_value) (fun resized_mask =>
    bind (mask_apply zero resized_array_2d resized_mask) (fun array =>
    Ok (array, resized_mask)))).

  (* Array2D.padded_before_convolution_from *)
  Definition padded_before_convolution_from (arr : arr2d A) (k : Z * Z) (mask_pad_value : Z) : res (arr2d A) :=
    let new_shape := (nrows (snd arr) + (fst k - 1), ncols (snd arr) + (snd k - 1)) in
    array_resized_from arr new_shape mask_pad_value.

  (* int(np.ceil(k / 2)) *)
  Definition ceil_half (k : Z) : Z := - ((- k) / 2).

  (* Array2D.trimmed_after_convolution_from *)
  Definition trimmed_after_convolution_from (arr : arr2d A) (k : Z * Z) : res (arr2d A) :=
    let psf_cut_y := ceil_half (fst k) - 1 in
    let psf_cut_x := ceil_half (snd k) - 1 in
    let array_y := nrows (snd arr) in
    let array_x := ncols (snd arr) in
    let trimmed := pyslice2 (fst arr) psf_cut_y (array_y - psf_cut_y) psf_cut_x (array_x - psf_cut_x) in
    bind (mask_resized_from (snd arr) (nrows trimmed, ncols trimmed) 0) (fun resized_mask =>
    bind (mask_apply zero trimmed resized_mask) (fun array =>
    Ok (array, resized_mask))).

  (* Mask2D.trimmed_array_from(padded_array, image_shape); [mshape] = self.shape; returns the native values
     of the no_mask Array2D *)
  Definition trimmed_array_from (mshape : Z * Z) (padded_native : list (list A)) (image_shape : Z * Z)
    : list (list A) :=
    let pad_size_0 := fst mshape - fst image_shape in
    let pad_size_1 := snd mshape - snd image_shape in
    pyslice2 padded_native (pad_size_0 / 2) (fst mshape - pad_size_0 / 2) (pad_size_1 / 2) (snd mshape - pad_size_1 / 2).
End Arr2D.

(* ------------------------------------------------------------------ zoom *)
(* np.where(np.invert(mask)): row-major list of unmasked (y, x) *)
Definition unmasked_coords (m : list (list bool)) : list (Z * Z) :=
  flat_map (fun y => flat_map (fun x => if get2 true m y x then [] else [(Z.of_nat y, Z.of_nat x)])
                              (seq 0 (length (hd [] m)))) (seq 0 (length m)).
Definition zmin_list (d : Z) (l : list Z) : Z := fold_left Z.min l d.
Definition zmax_list (d : Z) (l : list Z) : Z := fold_left Z.max l d.

(* Mask2D.zoom_region *)
Definition zoom_region (m : list (list bool)) : res (Z * Z * Z * Z) :=
  match unmasked_coords m with
  | [] => Raise OtherException               (* np.amin of an empty array: ValueError *)
  | (yy, xx) :: rest =>
      let y0 := zmin_list yy (map fst rest) in let x0 := zmin_list xx (map snd rest) in
      let y1 := zmax_list yy (map fst rest) in let x1 := zmax_list xx (map snd rest) in
      let ylength := y1 - y0 in
      let xlength := x1 - x0 in
      let '(y0, y1, x0, x1) :=
        if ylength >? xlength then
          let length_difference := ylength - xlength in
          (y0, y1, x0 - int_half length_difference, x1 + int_half length_difference)
        else if xlength >? ylength then
          let length_difference := xlength - ylength in
          (y0 - int_half length_difference, y1 + int_half length_difference, x0, x1)
        else (y0, y1, x0, x1) in
      Ok (y0, y1 + 1, x0, x1 + 1)
  end.

(* Array2D.zoomed_around_mask: native values of the (unmasked) result *)
Definition zoomed_around_mask {A} (zero : A) (arr : arr2d A) (buffer : Z) : res (list (list A)) :=
  bind (zoom_region (snd arr)) (fun '(z0, z1, z2, z3) =>
  extracted_array_2d_from zero (fst arr) (z0 - buffer) (z1 + buffer) (z2 - buffer) (z3 + buffer)).

(* ------------------------------------------------------------------ automatic padding of Imaging *)
(* python range(lo, hi) *)
Definition zrange (lo hi : Z) : list Z := map (fun i => lo + Z.of_nat i) (seq 0 (Z.to_nat (hi - lo))).

(* does data.mask.derive_mask.blurring_from(kernel_shape_native) raise MaskException?
   (DeriveMask2D.blurring_from: even kernel; mask_2d_util.blurring_mask_2d_from: a footprint leaves the frame) *)
Definition blurring_raises (m : list (list bool)) (k : Z * Z) : bool :=
  if Z.even (fst k) || Z.even (snd k) then true else
  let H := nrows m in let W := ncols m in
  existsb (fun y => existsb (fun x =>
    if get2 true m y x then false else
      existsb (fun y1 => existsb (fun x1 =>
        negb ((0 <=? Z.of_nat x + x1) && (Z.of_nat x + x1 <=? W - 1)
              && (0 <=? Z.of_nat y + y1) && (Z.of_nat y + y1 <=? H - 1)))
        (zrange ((- snd k + 1) / 2) ((snd k + 1) / 2)))
        (zrange ((- fst k + 1) / 2) ((fst k + 1) / 2)))
    (seq 0 (length (hd [] m)))) (seq 0 (length m)).

(* Imaging.apply_mask(mask) on an unmasked dataset: Array2D(values=native, mask=mask) for data and noise map,
   then Imaging.__init__(pad_for_convolver=True) *)
Definition imaging_apply_mask {A} (zero : A) (data noise : list (list A)) (mask : list (list bool))
    (psf_shape : option (Z * Z)) : res (arr2d A * arr2d A) :=
  bind (mask_apply zero data mask) (fun d =>
  bind (mask_apply zero noise mask) (fun n =>
  match psf_shape with
  | Some k =>
      if blurring_raises mask k then
        bind (padded_before_convolution_from zero (d, mask) k 1) (fun data' =>
        bind (padded_before_convolution_from zero (n, mask) k 1) (fun noise' =>
        Ok (data', noise')))
      else Ok ((d, mask), (n, mask))
  | None => Ok ((d, mask), (n, mask))
  end)).

(* AbstractDataset.trimmed_after_convolution_from(kernel_shape): data and noise map are trimmed one after the other *)
Definition dataset_trimmed {A} (zero : A) (dn : arr2d A * arr2d A) (k : Z * Z) : res (arr2d A * arr2d A) :=
  bind (trimmed_after_convolution_from zero (fst dn) k) (fun d =>
  bind (trimmed_after_convolution_from zero (snd dn) k) (fun n => Ok (d, n))).

(* ------------------------------------------------------------------ scaled coordinates (NumOps) *)
Section Coords.
  Context {O : NumOps}.
  Local Notation T := (T O).
  Definition geom := (T * T * T * T)%type.          (* pixel_scales (sy, sx), origin (oy, ox) *)

  (* geometry_util.central_scaled_coordinate_2d_from *)
  Definition central_scaled (H W : Z) (g : geom) : T * T :=
    let '(sy, sx, oy, ox) := g in
    (add O (div O (ofZ O (H - 1)) two) (div O oy sy), sub O (div O (ofZ O (W - 1)) two) (div O ox sx)).
  (* the two assignments in the body of grid_2d_slim_via_mask_from *)
  Definition pixel_centre_code (H W : Z) (g : geom) (y x : Z) : T * T :=
    let '(sy, sx, oy, ox) := g in
    let c := central_scaled H W g in
    (mul O (opp O (sub O (ofZ O y) (fst c))) sy, mul O (sub O (ofZ O x) (snd c)) sx).
  (* grid_2d_util.grid_2d_slim_via_mask_from *)
  Definition grid_slim_via_mask (m : list (list bool)) (g : geom) : list (T * T) :=
    let H := nrows m in let W := ncols m in
    flat_map (fun y => flat_map (fun x =>
      if get2 true m y x then [] else [pixel_centre_code H W g (Z.of_nat y) (Z.of_nat x)])
      (seq 0 (length (hd [] m)))) (seq 0 (length m)).

  (* SPEC: centre of pixel (y, x) of an H x W frame *)
  Definition pixel_centre_spec (H W : Z) (g : geom) (y x : Z) : T * T :=
    let '(sy, sx, oy, ox) := g in
    (add O oy (mul O (sub O (div O (ofZ O (H - 1)) two) (ofZ O y)) sy),
     add O ox (mul O (sub O (ofZ O x) (div O (ofZ O (W - 1)) two)) sx)).
End Coords.

(* ================================================================== SPECIFICATION *)
(* one axis: centred crop (r <= n) or centred embedding (r > n); top margin n/2 - r/2 resp. r/2 - n/2 *)
Definition resize1 {B} (pad : B) (l : list B) (r : Z) : list B :=
  let n := Z.of_nat (length l) in
  if r <=? n then firstn (Z.to_nat r) (skipn (Z.to_nat (n / 2 - r / 2)) l)
  else repeat pad (Z.to_nat (r / 2 - n / 2)) ++ l ++ repeat pad (Z.to_nat (r - n - (r / 2 - n / 2))).
(* two axes; [W] is the number of columns of [m] (needed when m has no rows) *)
Definition resize_spec {A} (pad : A) (m : list (list A)) (r0 r1 : Z) : list (list A) :=
  resize1 (repeat pad (Z.to_nat r1)) (map (fun row => resize1 pad row r1) m) r0.

(* masked entries are zero: zip form, independent of the tabulated [mask_apply] *)
Definition zip_mask {A} (zero : A) (a : list (list A)) (m : list (list bool)) : list (list A) :=
  map (fun rm : list A * list bool =>
         map (fun vb : A * bool => if snd vb then zero else fst vb) (combine (fst rm) (snd rm))) (combine a m).

(* Array2D.resized_from: values and mask are resized separately (centred crop / embedding), then masked entries are zero *)
Definition resized_arr_spec {A} (zero : A) (arr : arr2d A) (r0 r1 : Z) (mpv : Z) : arr2d A :=
  let m' := resize_spec (negb (mpv =? 0)) (snd arr) r0 r1 in
  (zip_mask zero (resize_spec zero (fst arr) r0 r1) m', m').
(* what an Array2D holds: masked entries are zero *)
Definition normal_arr {A} (zero : A) (arr : arr2d A) : arr2d A := (zip_mask zero (fst arr) (snd arr), snd arr).

(* the (coordinate, data, noise) triples of the unmasked pixels, row-major *)
Definition triples_spec {O : NumOps} {A} (zero : A) (data noise : list (list A)) (m : list (list bool)) (g : @geom O)
  : list ((T O * T O) * (A * A)) :=
  let H := nrows m in let W := ncols m in
  flat_map (fun y => flat_map (fun x =>
    if get2 true m y x then []
    else [(pixel_centre_spec H W g (Z.of_nat y) (Z.of_nat x), (get2 zero data y x, get2 zero noise y x))])
    (seq 0 (length (hd [] m)))) (seq 0 (length m)).

(* the triples read off a masked dataset (data, noise map): grid of the mask, slim data, slim noise *)
Definition triples_of {O : NumOps} {A} (zero : A) (g : @geom O) (d n : arr2d A) : list ((T O * T O) * (A * A)) :=
  combine (grid_slim_via_mask (snd d) g) (combine (slim_of zero (fst d) (snd d)) (slim_of zero (fst n) (snd n))).

(* zero-extended read *)
Definition ext_get {A} (zero : A) (a : list (list A)) (y x : Z) : A :=
  if (0 <=? y) && (y <? nrows a) && (0 <=? x) && (x <? ncols a) then zget2 zero a y x else zero.
(* [e] is the window of the zero-extended [a] with top-left corner (oy, ox) *)
Definition is_window {A} (eqb : A -> A -> bool) (zero : A) (a e : list (list A)) (oy ox : Z) : bool :=
  forallb (fun i => forallb (fun j => eqb (get2 zero e i j) (ext_get zero a (oy + Z.of_nat i) (ox + Z.of_nat j)))
                            (seq 0 (length (hd [] e)))) (seq 0 (length e)).
(* every unmasked pixel lies in the window with corner (oy, ox) and shape (h, w) *)
Definition window_contains (m : list (list bool)) (oy ox h w : Z) : bool :=
  forallb (fun p => (oy <=? fst p) && (fst p <? oy + h) && (ox <=? snd p) && (snd p <? ox + w)) (unmasked_coords m).

(* the blurring footprint of every unmasked pixel stays inside the frame (odd kernel) *)
Definition footprint_inside (m : list (list bool)) (k : Z * Z) : bool :=
  forallb (fun p => ((fst k - 1) / 2 <=? fst p) && (fst p + (fst k - 1) / 2 <? nrows m)
                    && ((snd k - 1) / 2 <=? snd p) && (snd p + (snd k - 1) / 2 <? ncols m)) (unmasked_coords m).

(* ================================================================== correspondence *)
Definition zarr := list (list Z).
Definition barr := list (list bool).
Definition a2 := (zarr * barr)%type.
Definition qgeom := (Q * Q * Q * Q)%type.

Definition zarr_eqb := list_eqb (list_eqb Z.eqb).
Definition barr_eqb := list_eqb (list_eqb Bool.eqb).
Definition a2_eqb := prod_eqb zarr_eqb barr_eqb.
Definition qq_eqb := prod_eqb Qeq_bool Qeq_bool.
Definition reg_eqb (a b : Z * Z * Z * Z) : bool :=
  let '(a0, a1, a2, a3) := a in let '(b0, b1, b2, b3) := b in
  (a0 =? b0) && (a1 =? b1) && (a2 =? b2) && (a3 =? b3).
Definition am_eqb := prod_eqb (prod_eqb barr_eqb (prod_eqb (list_eqb Z.eqb) (list_eqb Z.eqb))) (list_eqb qq_eqb).
Definition mc_eqb := prod_eqb barr_eqb (list_eqb qq_eqb).
Definition amt_eqb := prod_eqb (prod_eqb barr_eqb (prod_eqb zarr_eqb zarr_eqb)) (list_eqb qq_eqb).

Definition shape2 {B} (m : list (list B)) : Z * Z := (nrows m, ncols m).

(* ---- what the SPECIFICATION says about an implementation result (never calls the model) ---- *)
Definition nonneg2 (s : Z * Z) : bool := (0 <=? fst s) && (0 <=? snd s).
Definition ge2 (s t : Z * Z) : bool := (fst t <=? fst s) && (snd t <=? snd s).
Definition odd_kernel (k : Z * Z) : bool := Z.odd (fst k) && Z.odd (snd k) && (1 <=? fst k) && (1 <=? snd k).
Definition proper {B} (m : list (list B)) : bool := (1 <=? nrows m) && (1 <=? ncols m) && rectb (nrows m) (ncols m) m.
Definition proper2 (a : a2) : bool := proper (fst a) && proper (snd a) && shape_eqb (fst a) (snd a).
Definition same_parity (s t : Z * Z) : bool := Z.even (fst s - fst t) && Z.even (snd s - snd t).
Definition resized_a2_spec (a : a2) (rs : Z * Z) (mpv : Z) : a2 := resized_arr_spec 0 a (fst rs) (snd rs) mpv.
Definition normal_a2 (a : a2) : a2 := normal_arr 0 a.
Definition qtriple_eqb (p q : (Q * Q) * (Z * Z)) : bool := qq_eqb (fst p) (fst q) && prod_eqb Z.eqb Z.eqb (snd p) (snd q).
(* search the top-left corner of the zoom window among all offsets that keep the first unmasked pixel inside *)
Definition zoom_ok (a : a2) (e : zarr) : bool :=
  match unmasked_coords (snd a) with
  | [] => false
  | (py, px) :: _ =>
      let h := nrows e in let w := ncols e in
      existsb (fun oy => existsb (fun ox =>
          is_window Z.eqb 0 (zip_mask 0 (fst a) (snd a)) e oy ox && window_contains (snd a) oy ox h w)
        (zrange (px - w + 1) (px + 1))) (zrange (py - h + 1) (py + 1))
  end.

