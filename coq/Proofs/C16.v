(* C16 -- lemmas about the model of the FITS write / read chain (Model/C16.v). *)
From Coq Require Import ZArith QArith Reals Lra List Bool Lia Arith.
From PAV Require Import Base.NumOps Base.Check Model.C16.
Import ListNotations.

(* ================================================================== paths *)
Lemma path_eqb_refl p : path_eqb p p = true.
Proof. induction p as [|x p IH]; cbn; [reflexivity|]. now rewrite Nat.eqb_refl, IH. Qed.
Lemma path_eqb_eq p q : path_eqb p q = true <-> p = q.
Proof.
  split; [|intros ->; apply path_eqb_refl].
  revert q; induction p as [|x p IH]; intros [|y q] H; cbn in H; try discriminate; [reflexivity|].
  apply andb_prop in H. destruct H as [H1 H2]. apply Nat.eqb_eq in H1. apply IH in H2. now subst.
Qed.
Lemma path_eqb_neq p q : path_eqb p q = false <-> p <> q.
Proof.
  split.
  - intros H E. apply path_eqb_eq in E. congruence.
  - intros H. destruct (path_eqb p q) eqn:E; [|reflexivity]. apply path_eqb_eq in E. contradiction.
Qed.
Lemma path_eqb_sym p q : path_eqb p q = path_eqb q p.
Proof.
  destruct (path_eqb p q) eqn:E.
  - apply path_eqb_eq in E. subst. symmetry. apply path_eqb_refl.
  - symmetry. apply path_eqb_neq. apply path_eqb_neq in E. congruence.
Qed.

Lemma prefixes_length d q : In q (prefixes d) -> (1 <= length q <= length d)%nat.
Proof.
  revert q; induction d as [|x d IH]; intros q H; cbn in H; [contradiction|].
  destruct H as [<-|H]; cbn; [lia|].
  apply in_map_iff in H. destruct H as [q' [<- H]]. apply IH in H. cbn. lia.
Qed.
Lemma prefixes_self d : d <> [] -> In d (prefixes d).
Proof.
  induction d as [|x d IH]; intros H; [congruence|]. cbn.
  destruct d as [|y d]; [now left|]. right. apply in_map. apply IH. discriminate.
Qed.
Lemma dirname_length p : p <> [] -> S (length (dirname p)) = length p.
Proof.
  unfold dirname. induction p as [|x p IH]; intros H; [congruence|].
  destruct p as [|y p]; [reflexivity|]. cbn [removelast length] in *. rewrite IH; [reflexivity|discriminate].
Qed.
Lemma not_in_prefixes_dirname p : p <> [] -> ~ In p (prefixes (dirname p)).
Proof. intros H Hin. apply prefixes_length in Hin. apply dirname_length in H. lia. Qed.

(* ================================================================== file system *)
Section FSProofs.
  Context {C : Type}.
  Implicit Types (fs : fsys C) (p q d : path) (c : C).

  Lemma is_dir_true fs d : is_dir fs d = true <-> In d (dirs fs).
  Proof.
    unfold is_dir. rewrite existsb_exists. split.
    - intros [x [Hx E]]. apply path_eqb_eq in E. now subst.
    - intros H. exists d. split; [assumption|apply path_eqb_refl].
  Qed.

  Lemma lookup_app_none (fl : list (path * C)) p c : lookup fl p = None -> lookup (fl ++ [(p, c)]) p = Some c.
  Proof.
    induction fl as [|[q c'] fl IH]; cbn; intros H.
    - now rewrite path_eqb_refl.
    - destruct (path_eqb p q); [discriminate|]. now apply IH.
  Qed.
  Lemma lookup_app_other (fl : list (path * C)) p q c : q <> p -> lookup (fl ++ [(p, c)]) q = lookup fl q.
  Proof.
    intros Hne. induction fl as [|[r c'] fl IH]; cbn.
    - apply path_eqb_neq in Hne. now rewrite Hne.
    - destruct (path_eqb q r); [reflexivity|assumption].
  Qed.
  Lemma lookup_filter_same (fl : list (path * C)) p :
    lookup (filter (fun e => negb (path_eqb p (fst e))) fl) p = None.
  Proof.
    induction fl as [|[q c'] fl IH]; cbn; [reflexivity|].
    destruct (path_eqb p q) eqn:E; cbn; [assumption|]. now rewrite E.
  Qed.
  Lemma lookup_filter_other (fl : list (path * C)) p q : q <> p ->
    lookup (filter (fun e => negb (path_eqb p (fst e))) fl) q = lookup fl q.
  Proof.
    intros Hne. induction fl as [|[r c'] fl IH]; cbn; [reflexivity|].
    destruct (path_eqb p r) eqn:E; cbn.
    - apply path_eqb_eq in E. subst r. apply path_eqb_neq in Hne. now rewrite Hne.
    - destruct (path_eqb q r); [reflexivity|assumption].
  Qed.
  Lemma lookup_in (fl : list (path * C)) p c : lookup fl p = Some c -> In (p, c) fl.
  Proof.
    induction fl as [|[q c'] fl IH]; cbn; intros H; [discriminate|].
    destruct (path_eqb p q) eqn:E.
    - apply path_eqb_eq in E. injection H as ->. subst q. now left.
    - right. now apply IH.
  Qed.
  Lemma filter_absent (fl : list (path * C)) p :
    lookup fl p = None -> filter (fun e => negb (path_eqb p (fst e))) fl = fl.
  Proof.
    induction fl as [|[q c'] fl IH]; cbn; intros H; [reflexivity|].
    destruct (path_eqb p q); [discriminate|]. cbn. now rewrite IH.
  Qed.

  (* the specification side, read off directly *)
  Lemma write_spec_refuses fs p c : is_file fs p = true -> write_spec fs p false c = (fs, Some FileExists).
  Proof. intros H. unfold write_spec. now rewrite H. Qed.
  Lemma write_spec_accepts fs p ow c : fresh_or_overwrite fs p ow = true ->
    write_spec fs p ow c =
      (mkfs (dirs fs ++ filter (fun q => negb (is_dir fs q)) (prefixes (dirname p)))
            (filter (fun e => negb (path_eqb p (fst e))) (files fs) ++ [(p, c)]), None).
  Proof.
    unfold fresh_or_overwrite, write_spec. intros H.
    destruct (is_file fs p), ow; cbn in *; try reflexivity; discriminate.
  Qed.

  (* ---- the code's sequence (split, exists, makedirs, remove, writeto) meets the specification ---- *)
  Lemma wf_dir_prefixes fs d : fs_wf fs = true -> is_dir fs d = true ->
    filter (fun q => negb (is_dir fs q)) (prefixes d) = [].
  Proof.
    intros Hwf Hd. unfold fs_wf in Hwf. apply andb_prop in Hwf. destruct Hwf as [Hwf _].
    rewrite forallb_forall in Hwf. apply is_dir_true in Hd. specialize (Hwf _ Hd).
    revert Hwf. generalize (prefixes d). intros l. induction l as [|q l IH]; cbn; intros H; [reflexivity|].
    apply andb_prop in H. destruct H as [H1 H2]. rewrite H1. cbn. now apply IH.
  Qed.
  Lemma wf_file_dir fs p : fs_wf fs = true -> is_file fs p = true -> dirname p <> [] -> is_dir fs (dirname p) = true.
  Proof.
    intros Hwf Hf Hne. unfold fs_wf in Hwf. apply andb_prop in Hwf. destruct Hwf as [_ Hwf].
    rewrite forallb_forall in Hwf. unfold is_file in Hf.
    assert (Hin : exists c, In (p, c) (files fs)).
    { destruct (lookup (files fs) p) as [c|] eqn:E; [|discriminate]. exists c. now apply lookup_in. }
    destruct Hin as [c Hin]. specialize (Hwf _ Hin). cbn [fst] in Hwf.
    rewrite forallb_forall in Hwf. apply Hwf. now apply prefixes_self.
  Qed.

  Lemma is_dir_app fs l (fl : list (path * C)) d : is_dir (mkfs (dirs fs ++ l) fl) d = is_dir fs d || existsb (path_eqb d) l.
  Proof. unfold is_dir. cbn. apply existsb_app. Qed.

  Theorem to_fits_meets_spec fs p ow c :
    fs_wf fs = true -> target_ok fs p = true -> to_fits fs p ow c = write_spec fs p ow c.
  Proof.
    intros Hwf Hok. unfold target_ok in Hok.
    apply andb_prop in Hok. destruct Hok as [Hok Hnf]. apply andb_prop in Hok. destruct Hok as [Hne Hnd].
    apply negb_true_iff in Hnd, Hnf.
    assert (Hp : p <> []) by (destruct p; [discriminate|discriminate]).
    remember (dirname p) as d eqn:Hdn.
    (* the directory part is not a file *)
    assert (Hdf : d <> [] -> is_file fs d = false).
    { intros Hd0. destruct (is_file fs d) eqn:E; [|reflexivity].
      assert (existsb (is_file fs) (prefixes d) = true); [|congruence].
      apply existsb_exists. exists d. split; [now apply prefixes_self|assumption]. }
    (* p itself is not among the created directories *)
    assert (Hpn : existsb (path_eqb p) (filter (fun q => negb (is_dir fs q)) (prefixes d)) = false).
    { destruct (existsb (path_eqb p) _) eqn:E; [|reflexivity]. apply existsb_exists in E. destruct E as [x [Hx E]].
      apply path_eqb_eq in E. subst x. apply filter_In in Hx. destruct Hx as [Hx _].
      exfalso. rewrite Hdn in Hx. now apply (not_in_prefixes_dirname p). }
    unfold to_fits. cbv zeta. rewrite <- Hdn.
    (* state after the optional makedirs *)
    assert (Hmk : exists l,
       (if negb (is_nil d) && negb (os_exists fs d) then os_makedirs fs d else FOk fs) = FOk (mkfs (dirs fs ++ l) (files fs))
       /\ l = filter (fun q => negb (is_dir fs q)) (prefixes d)
       /\ (is_file fs p = true -> mkfs (dirs fs ++ l) (files fs) = fs -> True)
       /\ (d <> [] -> is_dir (mkfs (dirs fs ++ l) (files fs)) d = true)).
    { exists (filter (fun q => negb (is_dir fs q)) (prefixes d)).
      destruct d as [|x d'] eqn:Ed.
      - cbn. split; [|auto]. destruct fs; cbn. now rewrite app_nil_r.
      - assert (Hd : x :: d' <> []) by discriminate.
        cbn [is_nil negb andb]. unfold os_exists at 1. rewrite (Hdf Hd), orb_false_r.
        destruct (is_dir fs (x :: d')) eqn:Edir; cbn [negb].
        + rewrite (wf_dir_prefixes _ _ Hwf Edir). split; [|split; [reflexivity|split; [auto|]]].
          * destruct fs; cbn. now rewrite app_nil_r.
          * intros _. rewrite is_dir_app, Edir. reflexivity.
        + unfold os_makedirs, os_exists. rewrite Edir, (Hdf Hd). cbn [orb].
          split; [reflexivity|split; [reflexivity|split; [auto|]]].
          intros _. rewrite is_dir_app. apply orb_true_iff. right. apply existsb_exists.
          exists (x :: d'). split; [|apply path_eqb_refl]. apply filter_In. split; [now apply prefixes_self|].
          now rewrite Edir. }
    destruct Hmk as [l [Hmk [Hl [_ Hdd]]]]. rewrite Hmk. clear Hmk.
    set (fs1 := mkfs (dirs fs ++ l) (files fs)) in *.
    assert (Hex1 : os_exists fs1 p = is_file fs p).
    { unfold os_exists. destruct p as [|x p']; [congruence|]. unfold fs1. rewrite is_dir_app, Hnd, Hl, Hpn. reflexivity. }
    assert (Hdirok : forall fl : list (path * C), (match d with [] => true | _ => is_dir (mkfs (dirs fs1) fl) d end) = true).
    { intros fl. destruct d as [|x d'] eqn:Ed; [reflexivity|]. rewrite <- Ed in *.
      assert (Hd : d <> []) by (rewrite Ed; discriminate). apply Hdd in Hd. exact Hd. }
    assert (Hdir_fl : forall fl : list (path * C), is_dir (mkfs (dirs fs1) fl) p = false).
    { intros fl. unfold is_dir; cbn [dirs]. unfold fs1; cbn [dirs]. rewrite existsb_app.
      fold (is_dir fs p). rewrite Hnd, Hl, Hpn. reflexivity. }
    rewrite Hex1.
    destruct (is_file fs p) eqn:Ef.
    - (* the target exists *)
      destruct ow; cbn [andb].
      + (* overwrite: remove, then write *)
        rewrite write_spec_accepts by reflexivity.
        unfold writeto, os_remove. rewrite <- Hdn.
        assert (Hex2 : os_exists (mkfs (dirs fs1) (filter (fun e => negb (path_eqb p (fst e))) (files fs1))) p = false).
        { unfold os_exists. destruct p as [|x p']; [congruence|]. rewrite Hdir_fl. unfold is_file; cbn [files].
          now rewrite lookup_filter_same. }
        rewrite Hex2. specialize (Hdirok (filter (fun e => negb (path_eqb p (fst e))) (files fs1))).
        destruct d; [|rewrite Hdirok]; cbn [dirs files]; unfold fs1; cbn [dirs files]; rewrite Hl; reflexivity.
      + (* no overwrite: refused, nothing changed *)
        rewrite write_spec_refuses by assumption.
        unfold writeto. rewrite Hex1.
        (* the directory of an existing file exists, so nothing was created *)
        assert (Hl0 : l = []).
        { rewrite Hl. destruct d as [|x d'] eqn:Ed; [reflexivity|]. rewrite <- Ed in *.
          apply wf_dir_prefixes; [assumption|]. rewrite Hdn. apply wf_file_dir; [assumption|assumption|]. rewrite <- Hdn, Ed. discriminate. }
        unfold fs1. rewrite Hl0, app_nil_r. destruct fs; reflexivity.
    - (* fresh target *)
      assert (Hlk : lookup (files fs) p = None).
      { unfold is_file in Ef. destruct (lookup (files fs) p); [discriminate|reflexivity]. }
      rewrite andb_false_r.
      rewrite write_spec_accepts by (unfold fresh_or_overwrite; rewrite Ef; apply orb_true_r).
      unfold writeto. rewrite Hex1. rewrite <- Hdn.
      specialize (Hdirok (files fs1)).
      assert (Hfs1 : mkfs (dirs fs1) (files fs1) = fs1) by reflexivity. rewrite Hfs1 in Hdirok.
      rewrite (filter_absent _ _ Hlk).
      destruct d; [|rewrite Hdirok]; unfold fs1; cbn [dirs files]; rewrite Hl; reflexivity.
  Qed.

  (* ---- consequences, stated on the code's sequence ---- *)
  Theorem to_fits_existing_without_overwrite fs p c :
    fs_wf fs = true -> target_ok fs p = true -> is_file fs p = true ->
    to_fits fs p false c = (fs, Some FileExists).
  Proof. intros Hwf Hok Hf. rewrite to_fits_meets_spec by assumption. now apply write_spec_refuses. Qed.

  Lemma existsb_filter_dirs fs q l :
    is_dir fs q || existsb (path_eqb q) (filter (fun r => negb (is_dir fs r)) l) = is_dir fs q || existsb (path_eqb q) l.
  Proof.
    destruct (is_dir fs q) eqn:Eq; [reflexivity|]. cbn [orb].
    induction l as [|r l IH]; [reflexivity|]. cbn [filter existsb].
    destruct (is_dir fs r) eqn:Er; cbn [negb existsb].
    - rewrite IH. destruct (path_eqb q r) eqn:E; [|reflexivity]. apply path_eqb_eq in E. congruence.
    - now rewrite IH.
  Qed.

  Theorem to_fits_success fs p ow c :
    fs_wf fs = true -> target_ok fs p = true -> fresh_or_overwrite fs p ow = true ->
    exists fs', to_fits fs p ow c = (fs', None)
      /\ lookup (files fs') p = Some c
      /\ (forall q, q <> p -> lookup (files fs') q = lookup (files fs) q)
      /\ (forall q, is_dir fs' q = is_dir fs q || existsb (path_eqb q) (prefixes (dirname p)))
      /\ (dirname p = [] -> dirs fs' = dirs fs).
  Proof.
    intros Hwf Hok Hfo. rewrite to_fits_meets_spec, write_spec_accepts by assumption.
    eexists. split; [reflexivity|]. cbn [files dirs]. repeat split.
    - apply lookup_app_none, lookup_filter_same.
    - intros q Hq. rewrite lookup_app_other by assumption. now apply lookup_filter_other.
    - intros q. rewrite is_dir_app. apply existsb_filter_dirs.
    - intros ->. cbn. apply app_nil_r.
  Qed.

  (* the states of a real directory tree are closed under the write *)
  Lemma prefixes_trans d q r : In q (prefixes d) -> In r (prefixes q) -> In r (prefixes d).
  Proof.
    revert q r; induction d as [|x d IH]; intros q r Hq Hr; cbn in Hq; [contradiction|].
    destruct Hq as [<-|Hq].
    - cbn in Hr. destruct Hr as [<-|[]]. now left.
    - apply in_map_iff in Hq. destruct Hq as [q' [<- Hq']]. cbn in Hr. destruct Hr as [<-|Hr]; [now left|].
      apply in_map_iff in Hr. destruct Hr as [r' [<- Hr']]. right. apply in_map. now apply (IH q').
  Qed.
  Theorem write_spec_keeps_wf fs p ow c : fs_wf fs = true -> fs_wf (fst (write_spec fs p ow c)) = true.
  Proof.
    intros Hwf. unfold write_spec. destruct (is_file fs p && negb ow); [exact Hwf|]. cbn [fst].
    set (fs' := mkfs _ _).
    assert (Hmono : forall q, is_dir fs q = true -> is_dir fs' q = true).
    { intros q Hq. unfold fs'. rewrite is_dir_app, Hq. reflexivity. }
    assert (Hnew : forall q, In q (prefixes (dirname p)) -> is_dir fs' q = true).
    { intros q Hq. unfold fs'. rewrite is_dir_app, existsb_filter_dirs. apply orb_true_iff. right.
      apply existsb_exists. exists q. split; [assumption|apply path_eqb_refl]. }
    unfold fs_wf in Hwf. apply andb_prop in Hwf. destruct Hwf as [Hd Hf].
    rewrite forallb_forall in Hd, Hf.
    unfold fs_wf. apply andb_true_intro. split; apply forallb_forall.
    - intros d Hin. apply forallb_forall. intros q Hq. unfold fs' in Hin. cbn [dirs] in Hin.
      apply in_app_or in Hin. destruct Hin as [Hin|Hin].
      + apply Hmono. specialize (Hd _ Hin). rewrite forallb_forall in Hd. now apply Hd.
      + apply filter_In in Hin. destruct Hin as [Hin _]. apply Hnew. now apply (prefixes_trans _ d).
    - intros [q cq] Hin. cbn [fst]. apply forallb_forall. intros r Hr. unfold fs' in Hin. cbn [files] in Hin.
      apply in_app_or in Hin. destruct Hin as [Hin|Hin].
      + apply filter_In in Hin. destruct Hin as [Hin _]. apply Hmono. specialize (Hf _ Hin). cbn [fst] in Hf.
        rewrite forallb_forall in Hf. now apply Hf.
      + destruct Hin as [Hin|[]]. injection Hin as <- <-. now apply Hnew.
  Qed.
  Corollary to_fits_keeps_wf fs p ow c :
    fs_wf fs = true -> target_ok fs p = true -> fs_wf (fst (to_fits fs p ow c)) = true.
  Proof. intros Hwf Hok. rewrite to_fits_meets_spec by assumption. now apply write_spec_keeps_wf. Qed.
End FSProofs.

(* ================================================================== reading what was written *)
Lemma py_nth_single {A} (h : A) k :
  py_nth [h] k = if ((k =? 0) || (k =? -1))%Z then Some h else None.
Proof.
  unfold py_nth. cbn [length Z.of_nat].
  destruct (Z.leb_spec 0 k) as [H0|H0].
  - destruct (Z.eqb_spec k 0) as [->|Hk]; [reflexivity|].
    destruct (Z.eqb_spec k (-1)) as [->|_]; [lia|]. cbn [orb].
    destruct (Z.to_nat k) as [|n] eqn:E; [lia|]. now destruct n.
  - destruct (Z.eqb_spec k 0) as [->|_]; [lia|].
    destruct (Z.leb_spec (- Z.pos (Pos.of_succ_nat 0)) k) as [H1|H1].
    + destruct (Z.eqb_spec k (-1)) as [->|Hk]; [reflexivity|]. lia.
    + destruct (Z.eqb_spec k (-1)) as [->|Hk]; [lia|]. reflexivity.
Qed.

Section ReadBack.
  Context {V X : Type}.
  Implicit Types (fs : fitsfs V X) (h : hdu V X).
  Lemma hdu_at_written fs p h k : lookup (files fs) p = Some [h] ->
    hdu_at fs p k = if sole_index k then FOk h else FRaise IndexErr.
  Proof.
    intros H. unfold hdu_at, fits_open. rewrite H. cbn [fbind]. rewrite py_nth_single. unfold sole_index.
    now destruct ((k =? 0) || (k =? -1))%Z.
  Qed.
End ReadBack.

(* ================================================================== values
   The value-level statements need only five laws of the number system, collected in [lawful]; they hold for
   Coq's real numbers ([reals_lawful] at the end of the file), and every statement of the section is proved for an
   arbitrary lawful [O] (inside the section [RO] is that arbitrary O). *)
Record lawful (O : NumOps) : Prop := {
  law_eqb_refl : forall x : T O, eqb O x x = true;                     (* x == x *)
  law_eqb_eq : forall x y : T O, eqb O x y = true -> x = y;            (* x == y only for equal values *)
  law_one_nonzero : eqb O (@one O) (@zero O) = false;                  (* 1.0 != 0.0 *)
  law_mul_one : forall x : T O, mul O x (@one O) = x;                  (* x * 1.0 == x *)
  law_div_one : forall x : T O, div O x (@one O) = x                   (* x / 1.0 == x *)
}.

Section Values.
Context {O : NumOps} (L : lawful O).
Local Notation RO := O.
Definition maskmul (v : T RO) (m : bool) : T RO := mul RO v (@tofloat RO (negb m)).

Lemma tobool_tofloat b : @tobool RO (@tofloat RO b) = b.
Proof.
  unfold tobool, tofloat. destruct b.
  - now rewrite (law_one_nonzero O L).
  - now rewrite (law_eqb_refl O L).
Qed.
Lemma maskmul_false v : maskmul v false = v.
Proof. unfold maskmul, tofloat. cbn [negb]. apply (law_mul_one O L). Qed.
Lemma Reqb_refl (x : T RO) : eqb RO x x = true.
Proof. apply (law_eqb_refl O L). Qed.

Lemma slim_row_maskmul (m : list bool) : forall v : list (T RO), @slim_row RO m (map2 maskmul v m) = @slim_row RO m v.
Proof.
  induction m as [|b m IH]; intros [|x v]; try reflexivity.
  cbn [map2 slim_row]. destruct b; [apply IH|]. now rewrite maskmul_false, IH.
Qed.
Lemma native_row_slim_row (m : list bool) : forall (v rest : list (T RO)), length v = length m ->
  @native_row RO m (@slim_row RO m v ++ rest) = (@zero_fill_row RO m v, rest).
Proof.
  induction m as [|b m IH]; intros [|x v] rest Hl; cbn in Hl; try discriminate; [reflexivity|].
  injection Hl as Hl. cbn [slim_row native_row zero_fill_row map2]. destruct b.
  - rewrite (IH v rest Hl). reflexivity.
  - cbn [app]. rewrite (IH v rest Hl). reflexivity.
Qed.
Lemma native_from_slim (m : list (list bool)) : forall (v : list (list (T RO))) (rest : list (T RO)), same_len2 v m = true ->
  @native_from RO m (concat (map2 (@slim_row RO) m v) ++ rest) = @zero_fill RO m v.
Proof.
  induction m as [|r m IH]; intros [|x v] rest H; cbn in H; try discriminate; [reflexivity|].
  apply andb_prop in H. destruct H as [H1 H2]. apply Nat.eqb_eq in H1.
  cbn [map2 concat native_from zero_fill]. rewrite <- app_assoc, (native_row_slim_row r x _ H1).
  now rewrite (IH v rest H2).
Qed.
Lemma map2_maskmul_slim (m : list (list bool)) : forall v : list (list (T RO)),
  map2 (@slim_row RO) m (map2 (map2 maskmul) v m) = map2 (@slim_row RO) m v.
Proof.
  induction m as [|r m IH]; intros [|x v]; try reflexivity.
  cbn [map2]. now rewrite slim_row_maskmul, IH.
Qed.

Lemma same_len2_all_false {A} (v : list (list A)) : same_len2 v (all_false2 v) = true.
Proof.
  induction v as [|r v IH]; [reflexivity|]. cbn. rewrite map_length, Nat.eqb_refl. exact IH.
Qed.
Lemma zero_fill_row_all_false (r : list (T RO)) : @zero_fill_row RO (all_false1 r) r = r.
Proof. induction r as [|x r IH]; [reflexivity|]. cbn. f_equal. exact IH. Qed.
Lemma zero_fill_all_false (v : list (list (T RO))) : @zero_fill RO (all_false2 v) v = v.
Proof.
  induction v as [|r v IH]; [reflexivity|]. cbn [all_false2 map zero_fill map2].
  f_equal; [apply zero_fill_row_all_false|exact IH].
Qed.

(* ---- Array2D(values, mask): the native form is the input with zeros at the masked pixels ---- *)
Theorem Array2D_new_native vals mask sc : same_len2 vals mask = true ->
  exists a, @Array2D_new RO vals mask sc = FOk a
    /\ Array2D_native a = @zero_fill RO mask vals /\ a_mask a = mask /\ a_scales a = sc.
Proof.
  intros H. unfold Array2D_new. rewrite H. eexists. split; [reflexivity|].
  unfold Array2D_native. cbn [a_mask a_slim a_scales]. repeat split.
  unfold slim_from. change (fun (v : T RO) (m : bool) => mul RO v (tofloat (negb m))) with maskmul.
  rewrite map2_maskmul_slim. rewrite <- (app_nil_r (concat _)). now apply native_from_slim.
Qed.
Theorem Array2D_no_mask_native vals sc :
  exists a, @Array2D_no_mask RO vals sc = FOk a
    /\ Array2D_native a = vals /\ a_mask a = all_false2 vals /\ a_scales a = sc.
Proof.
  unfold Array2D_no_mask. destruct (Array2D_new_native vals (all_false2 vals) sc (same_len2_all_false vals))
    as [a [H1 [H2 [H3 H4]]]].
  exists a. split; [exact H1|]. rewrite H2, zero_fill_all_false. auto.
Qed.

(* ---- header: PIXSCALE for equal scales, PIXSCALEY / PIXSCALEX otherwise; the reader inverts both ---- *)
Theorem pixel_scale_header_roundtrip (sy sx : T RO) :
  @pixel_scales_via_header_from RO (@pixel_scale_header RO (@scales2 RO (sy, sx))) = FOk (sy, sx).
Proof.
  unfold pixel_scale_header, scales2. cbn [fst snd forallb nth]. rewrite Reqb_refl. cbn [andb].
  destruct (eqb RO sx sy) eqn:E; cbn [andb].
  - apply (law_eqb_eq O L) in E. subst. reflexivity.
  - reflexivity.
Qed.
Theorem pixel_scale_header_iso (s : T RO) : @pixel_scale_header RO (@scales2 RO (s, s)) = [(PIXSCALE, s)].
Proof. unfold pixel_scale_header, scales2. cbn [fst snd forallb nth]. now rewrite Reqb_refl. Qed.
Theorem pixel_scale_header_aniso (sy sx : T RO) : sy <> sx ->
  @pixel_scale_header RO (@scales2 RO (sy, sx)) = [(PIXSCALEY, sy); (PIXSCALEX, sx)].
Proof.
  intros H. unfold pixel_scale_header, scales2. cbn [fst snd forallb nth]. rewrite Reqb_refl.
  destruct (eqb RO sx sy) eqn:E; [apply (law_eqb_eq O L) in E; congruence|reflexivity].
Qed.
Theorem pixel_scale_header_1d (s : T RO) : @pixel_scale_header RO [s] = [(PIXSCALE, s)].
Proof. unfold pixel_scale_header. cbn [forallb nth]. now rewrite Reqb_refl. Qed.

(* ---- HDU route, 2-D arrays and kernels ---- *)
Lemma flip_unflip {V X} flip (a : list X) (hd : header V) :
  flip_hdu_for_ds9 flip (hdata (hdu_for_output_from_2d flip a hd)) = a
  /\ hhdr (hdu_for_output_from_2d flip a hd) = hd.
Proof.
  unfold flip_hdu_for_ds9, hdu_for_output_from_2d, flipud. destruct flip; cbn [hdata hhdr]; split; auto using rev_involutive.
Qed.
Theorem Array2D_hdu_roundtrip flip (a : @array2d RO) :
  exists a', Array2D_from_primary_hdu flip (Array2D_hdu_for_output flip a) = FOk a'
    /\ Array2D_native a' = Array2D_native a
    /\ a_mask a' = all_false2 (Array2D_native a)
    /\ a_scales a' = a_scales a.
Proof.
  unfold Array2D_from_primary_hdu, Array2D_hdu_for_output.
  destruct (flip_unflip flip (Array2D_native a) (pixel_scale_header (scales2 (a_scales a)))) as [-> ->].
  destruct (a_scales a) as [sy sx] eqn:Es. rewrite pixel_scale_header_roundtrip. cbn [fbind].
  apply Array2D_no_mask_native.
Qed.

(* ---- file route, 2-D arrays and kernels ---- *)
Theorem Array2D_output_is_to_fits flip (fs : fitsfs (T RO) (list (T RO))) (a : @array2d RO) p ow :
  Array2D_output_to_fits flip fs a p ow = to_fits fs p ow [Array2D_hdu_for_output flip a].
Proof. reflexivity. Qed.

Lemma via_fits_written_2d {V X} flip (fs : fitsfs V X) p (arr : list X) hd k :
  lookup (files fs) p = Some [hdu_for_output_from_2d flip arr hd] ->
  numpy_array_2d_via_fits_from flip fs p k = (if sole_index k then FOk arr else FRaise IndexErr)
  /\ header_obj_from fs p k = (if sole_index k then FOk hd else FRaise IndexErr).
Proof.
  intros H. unfold numpy_array_2d_via_fits_from, header_obj_from. rewrite (hdu_at_written _ _ _ k H).
  destruct (sole_index k); cbn [fbind]; [|split; reflexivity].
  destruct (flip_unflip flip arr hd) as [H1 H2]. rewrite H2. split; [|reflexivity].
  unfold flip_hdu_for_ds9 in H1. destruct flip; now rewrite H1.
Qed.

Theorem Array2D_file_roundtrip flip (fs : fitsfs (T RO) (list (T RO))) (a : @array2d RO) p ow sc k :
  fs_wf fs = true -> target_ok fs p = true -> fresh_or_overwrite fs p ow = true -> sole_index k = true ->
  exists fs' a' hs hh,
    Array2D_output_to_fits flip fs a p ow = (fs', None)
    /\ Array2D_from_fits flip fs' p sc k = FOk (a', hs, hh)
    /\ Array2D_native a' = Array2D_native a
    /\ a_mask a' = all_false2 (Array2D_native a)
    /\ a_scales a' = sc
    /\ pixel_scales_via_header_from hs = FOk (a_scales a)
    /\ pixel_scales_via_header_from hh = FOk (a_scales a).
Proof.
  intros Hwf Hok Hfo Hk. rewrite Array2D_output_is_to_fits.
  destruct (to_fits_success fs p ow [Array2D_hdu_for_output flip a] Hwf Hok Hfo) as [fs' [Hw [Hl _]]].
  unfold Array2D_hdu_for_output in Hl.
  destruct (Array2D_no_mask_native (Array2D_native a) sc) as [a' [Ha' [Hn [Hm Hs]]]].
  exists fs', a'. do 2 eexists. split; [exact Hw|]. split.
  - unfold Array2D_from_fits.
    destruct (via_fits_written_2d flip fs' p _ _ k Hl) as [-> ->].
    destruct (via_fits_written_2d flip fs' p _ _ 0%Z Hl) as [_ ->].
    rewrite Hk. cbn [sole_index Z.eqb orb fbind]. rewrite Ha'. cbn [fbind]. reflexivity.
  - repeat split; try assumption; destruct (a_scales a); apply pixel_scale_header_roundtrip.
Qed.
Theorem Array2D_file_bad_hdu flip (fs : fitsfs (T RO) (list (T RO))) (a : @array2d RO) p ow sc k :
  fs_wf fs = true -> target_ok fs p = true -> fresh_or_overwrite fs p ow = true -> sole_index k = false ->
  Array2D_from_fits flip (fst (Array2D_output_to_fits flip fs a p ow)) p sc k = FRaise IndexErr.
Proof.
  intros Hwf Hok Hfo Hk. rewrite Array2D_output_is_to_fits.
  destruct (to_fits_success fs p ow [Array2D_hdu_for_output flip a] Hwf Hok Hfo) as [fs' [Hw [Hl _]]].
  rewrite Hw. cbn [fst]. unfold Array2D_hdu_for_output in Hl. unfold Array2D_from_fits.
  destruct (via_fits_written_2d flip fs' p _ _ k Hl) as [-> _]. now rewrite Hk.
Qed.
(* Kernel2D.from_fits(normalize=False) returns the array read by Array2D.from_fits *)
Theorem Kernel2D_file_roundtrip flip (fs : fitsfs (T RO) (list (T RO))) (a : @array2d RO) p ow sc k :
  fs_wf fs = true -> target_ok fs p = true -> fresh_or_overwrite fs p ow = true -> sole_index k = true ->
  exists fs' a' hs hh,
    Array2D_output_to_fits flip fs a p ow = (fs', None)
    /\ Kernel2D_from_fits flip fs' p k sc false = FOk (a', hs, hh)
    /\ Array2D_native a' = Array2D_native a
    /\ a_scales a' = sc
    /\ pixel_scales_via_header_from hs = FOk (a_scales a).
Proof.
  intros Hwf Hok Hfo Hk.
  destruct (Array2D_file_roundtrip flip fs a p ow sc k Hwf Hok Hfo Hk) as [fs' [a' [hs [hh [Hw [Hr [Hn [Hm [Hs [Hh1 Hh2]]]]]]]]]].
  exists fs', a', hs, hh. split; [exact Hw|]. split; [|auto].
  unfold Kernel2D_from_fits. rewrite Hr. cbn [fbind fst].
  unfold Array2D_from_fits in Hr.
  destruct (numpy_array_2d_via_fits_from flip fs' p k); [|discriminate]. cbn [fbind] in Hr.
  destruct (header_obj_from fs' p 0) as [h0|]; [|discriminate]. cbn [fbind] in Hr.
  destruct (header_obj_from fs' p k) as [hk|]; [|discriminate]. cbn [fbind] in Hr.
  destruct (Array2D_no_mask a0 sc); [|discriminate]. cbn [fbind] in Hr. injection Hr as -> -> ->.
  reflexivity.
Qed.

(* ---- Mask2D ---- *)
Lemma tobool_tofloat_rows (m : list (list bool)) : map (map (@tobool RO)) (map (map (@tofloat RO)) m) = m.
Proof.
  induction m as [|r m IH]; [reflexivity|]. cbn [map]. rewrite IH. f_equal.
  induction r as [|b r IHr]; [reflexivity|]. cbn [map]. now rewrite tobool_tofloat, IHr.
Qed.
Lemma negtobool_tofloat_rows (m : list (list bool)) :
  map (map (fun v => negb (@tobool RO v))) (map (map (@tofloat RO)) m) = map (map negb) m.
Proof.
  induction m as [|r m IH]; [reflexivity|]. cbn [map]. rewrite IH. f_equal.
  induction r as [|b r IHr]; [reflexivity|]. cbn [map]. now rewrite tobool_tofloat, IHr.
Qed.
Theorem Mask2D_hdu_roundtrip flip (m : @mask2d RO) :
  Mask2D_from_primary_hdu flip (Mask2D_hdu_for_output flip m) = FOk m.
Proof.
  unfold Mask2D_from_primary_hdu, Mask2D_hdu_for_output.
  destruct (flip_unflip flip (map (map (@tofloat RO)) (m_mask m)) (pixel_scale_header (scales2 (m_scales m)))) as [-> ->].
  destruct m as [mm [sy sx]]. cbn [m_mask m_scales]. rewrite pixel_scale_header_roundtrip. cbn [fbind].
  now rewrite tobool_tofloat_rows.
Qed.
Theorem Mask2D_output_is_to_fits flip (fs : fitsfs (T RO) (list (T RO))) (m : @mask2d RO) p ow :
  Mask2D_output_to_fits flip fs m p ow = to_fits fs p ow [Mask2D_hdu_for_output flip m].
Proof. reflexivity. Qed.
Theorem Mask2D_file_roundtrip flip (fs : fitsfs (T RO) (list (T RO))) (m : @mask2d RO) p ow sc k inv :
  fs_wf fs = true -> target_ok fs p = true -> fresh_or_overwrite fs p ow = true -> sole_index k = true ->
  exists fs',
    Mask2D_output_to_fits flip fs m p ow = (fs', None)
    /\ Mask2D_from_fits flip fs' p sc k None inv
       = FOk (mkmask2 (if inv then map (map negb) (m_mask m) else m_mask m) sc)
    /\ (do h <- header_obj_from fs' p k; pixel_scales_via_header_from h) = FOk (m_scales m).
Proof.
  intros Hwf Hok Hfo Hk. rewrite Mask2D_output_is_to_fits.
  destruct (to_fits_success fs p ow [Mask2D_hdu_for_output flip m] Hwf Hok Hfo) as [fs' [Hw [Hl _]]].
  unfold Mask2D_hdu_for_output in Hl.
  exists fs'. split; [exact Hw|].
  destruct (via_fits_written_2d flip fs' p _ _ k Hl) as [Hv Hh]. unfold Mask2D_from_fits. rewrite Hv, Hh, Hk.
  cbn [fbind]. split.
  - destruct inv; [now rewrite negtobool_tofloat_rows|now rewrite tobool_tofloat_rows].
  - destruct (m_scales m). apply pixel_scale_header_roundtrip.
Qed.

(* ---- one dimension ---- *)
Lemma slim_row_length_le (m : list bool) : forall v : list (T RO), (length (@slim_row RO m v) <= length m)%nat.
Proof.
  induction m as [|b m IH]; intros [|x v]; cbn [slim_row length]; try lia.
  destruct b; cbn [length]; specialize (IH v); lia.
Qed.
Lemma slim_row_full (m : list bool) : forall v : list (T RO), length v = length m ->
  length (@slim_row RO m v) = length m ->
  @slim_row RO m v = v /\ @zero_fill_row RO m v = v /\ map2 maskmul v m = v.
Proof.
  induction m as [|b m IH]; intros [|x v] Hl Hs; cbn in Hl; try discriminate; [repeat split|].
  injection Hl as Hl. cbn [slim_row] in *. destruct b.
  - pose proof (slim_row_length_le m v). cbn [length] in Hs. lia.
  - cbn [length] in Hs. injection Hs as Hs. destruct (IH v Hl Hs) as [H1 [H2 H3]].
    cbn [zero_fill_row map2]. unfold zero_fill_row in H2. rewrite H1, H2, H3, maskmul_false. repeat split.
Qed.
Lemma convert_1d_slim (vals : list (T RO)) mask : length vals = length mask ->
  @convert_array_1d RO vals mask false = @slim_row RO mask vals.
Proof. intros H. unfold convert_array_1d. cbv zeta. apply Nat.eqb_eq in H. rewrite H. reflexivity. Qed.
Lemma convert_1d_native (vals : list (T RO)) mask : length vals = length mask ->
  @convert_array_1d RO (@slim_row RO mask vals) mask true = @zero_fill_row RO mask vals.
Proof.
  intros H. unfold convert_array_1d. cbv zeta.
  destruct (Nat.eqb (length (@slim_row RO mask vals)) (length mask)) eqn:E; cbn [Bool.eqb negb].
  - apply Nat.eqb_eq in E. destruct (slim_row_full mask vals H E) as [H1 [H2 H3]].
    rewrite H1, H2. exact H3.
  - rewrite <- (app_nil_r (slim_row mask vals)), (native_row_slim_row mask vals [] H). reflexivity.
Qed.
Theorem Array1D_new_native (vals : list (T RO)) mask sc : length vals = length mask ->
  Array1D_native (@Array1D_new RO vals mask sc) = @zero_fill_row RO mask vals
  /\ b_mask (@Array1D_new RO vals mask sc) = mask /\ b_scale (@Array1D_new RO vals mask sc) = sc.
Proof.
  intros H. unfold Array1D_native, Array1D_new. cbn [b_vals b_mask b_scale].
  rewrite (convert_1d_slim vals mask H), (convert_1d_native vals mask H). auto.
Qed.
Theorem Array1D_no_mask_native (vals : list (T RO)) sc :
  Array1D_native (@Array1D_no_mask RO vals sc) = vals
  /\ b_mask (@Array1D_no_mask RO vals sc) = all_false1 vals /\ b_scale (@Array1D_no_mask RO vals sc) = sc.
Proof.
  unfold Array1D_no_mask. destruct (Array1D_new_native vals (all_false1 vals) sc) as [H1 [H2 H3]].
  - unfold all_false1. now rewrite map_length.
  - fold (all_false1 vals). rewrite H1, zero_fill_row_all_false. auto.
Qed.
Theorem Array1D_hdu_roundtrip flip (a : @array1d RO) :
  exists a', Array1D_from_primary_hdu (Array1D_hdu_for_output flip a) = FOk a'
    /\ Array1D_native a' = Array1D_native a
    /\ b_mask a' = all_false1 (Array1D_native a)
    /\ b_scale a' = b_scale a.
Proof.
  unfold Array1D_from_primary_hdu, Array1D_hdu_for_output, hdu_for_output_from_1d. cbn [hhdr hdata].
  rewrite pixel_scale_header_1d. cbn [hlookup hkey_eqb].
  eexists. split; [reflexivity|]. apply Array1D_no_mask_native.
Qed.
Lemma via_fits_written_1d {V X} (fs : fitsfs V X) p (arr : list X) hd k :
  lookup (files fs) p = Some [hdu_for_output_from_1d arr hd] ->
  numpy_array_1d_via_fits_from fs p k = (if sole_index k then FOk arr else FRaise IndexErr)
  /\ header_obj_from fs p k = (if sole_index k then FOk hd else FRaise IndexErr).
Proof.
  intros H. unfold numpy_array_1d_via_fits_from, header_obj_from. rewrite (hdu_at_written _ _ _ k H).
  destruct (sole_index k); cbn [fbind]; split; reflexivity.
Qed.
Theorem Array1D_output_is_to_fits flip (fs : fitsfs (T RO) (T RO)) (a : @array1d RO) p ow :
  Array1D_output_to_fits fs a p ow = to_fits fs p ow [Array1D_hdu_for_output flip a].
Proof. reflexivity. Qed.
Theorem Array1D_file_roundtrip (fs : fitsfs (T RO) (T RO)) (a : @array1d RO) p ow sc k :
  fs_wf fs = true -> target_ok fs p = true -> fresh_or_overwrite fs p ow = true -> sole_index k = true ->
  exists fs' a' hs hh,
    Array1D_output_to_fits fs a p ow = (fs', None)
    /\ Array1D_from_fits fs' p sc k = FOk (a', hs, hh)
    /\ Array1D_native a' = Array1D_native a
    /\ b_mask a' = all_false1 (Array1D_native a)
    /\ b_scale a' = sc
    /\ hlookup PIXSCALE hs = Some (b_scale a) /\ hlookup PIXSCALE hh = Some (b_scale a).
Proof.
  intros Hwf Hok Hfo Hk. rewrite (Array1D_output_is_to_fits false).
  destruct (to_fits_success fs p ow [Array1D_hdu_for_output false a] Hwf Hok Hfo) as [fs' [Hw [Hl _]]].
  unfold Array1D_hdu_for_output in Hl.
  exists fs'. do 3 eexists. split; [exact Hw|]. split.
  - unfold Array1D_from_fits.
    destruct (via_fits_written_1d fs' p _ _ k Hl) as [-> ->].
    destruct (via_fits_written_1d fs' p _ _ 0%Z Hl) as [_ ->].
    rewrite Hk. cbn [sole_index Z.eqb orb fbind]. reflexivity.
  - destruct (Array1D_no_mask_native (Array1D_native a) sc) as [H1 [H2 H3]].
    repeat split; try assumption; rewrite pixel_scale_header_1d; reflexivity.
Qed.

Lemma tobool_tofloat_row (r : list bool) : map (@tobool RO) (map (@tofloat RO) r) = r.
Proof. induction r as [|b r IH]; [reflexivity|]. cbn [map]. now rewrite tobool_tofloat, IH. Qed.
Theorem Mask1D_hdu_roundtrip (m : @mask1d RO) : Mask1D_from_primary_hdu (Mask1D_hdu_for_output m) = FOk m.
Proof.
  unfold Mask1D_from_primary_hdu, Mask1D_hdu_for_output, hdu_for_output_from_1d. cbn [hhdr hdata].
  rewrite pixel_scale_header_1d. cbn [hlookup hkey_eqb]. rewrite tobool_tofloat_row. now destruct m.
Qed.
Theorem Mask1D_output_is_to_fits (fs : fitsfs (T RO) (T RO)) (m : @mask1d RO) p ow :
  Mask1D_output_to_fits fs m p ow = to_fits fs p ow [Mask1D_hdu_for_output m].
Proof. reflexivity. Qed.
Theorem Mask1D_file_roundtrip (fs : fitsfs (T RO) (T RO)) (m : @mask1d RO) p ow sc k :
  fs_wf fs = true -> target_ok fs p = true -> fresh_or_overwrite fs p ow = true -> sole_index k = true ->
  exists fs',
    Mask1D_output_to_fits fs m p ow = (fs', None)
    /\ Mask1D_from_fits fs' p sc k = FOk (mkmask1 (n_mask m) sc)
    /\ (do h <- header_obj_from fs' p k; FOk (hlookup PIXSCALE h)) = FOk (Some (n_scale m)).
Proof.
  intros Hwf Hok Hfo Hk. rewrite Mask1D_output_is_to_fits.
  destruct (to_fits_success fs p ow [Mask1D_hdu_for_output m] Hwf Hok Hfo) as [fs' [Hw [Hl _]]].
  unfold Mask1D_hdu_for_output in Hl.
  exists fs'. split; [exact Hw|].
  destruct (via_fits_written_1d fs' p _ _ k Hl) as [Hv Hh]. unfold Mask1D_from_fits. rewrite Hv, Hh, Hk.
  cbn [fbind]. rewrite tobool_tofloat_row, pixel_scale_header_1d. split; reflexivity.
Qed.

(* ================================================================== composed statements used by Props/C16.v *)
Theorem Array2D_masked_hdu_roundtrip flip (vals : list (list (T RO))) mask sc : same_len2 vals mask = true ->
  exists a a', @Array2D_new RO vals mask sc = FOk a
    /\ Array2D_from_primary_hdu flip (Array2D_hdu_for_output flip a) = FOk a'
    /\ Array2D_native a' = @zero_fill RO mask vals
    /\ a_mask a' = all_false2 (@zero_fill RO mask vals)
    /\ a_scales a' = sc.
Proof.
  intros H. destruct (Array2D_new_native vals mask sc H) as [a [Ha [Hn [Hm Hs]]]].
  destruct (Array2D_hdu_roundtrip flip a) as [a' [Hr [Hn' [Hm' Hs']]]].
  exists a, a'. rewrite Hn', Hm', Hs', Hn, Hs. auto.
Qed.
Theorem Array1D_masked_hdu_roundtrip flip (vals : list (T RO)) mask sc : length vals = length mask ->
  exists a', Array1D_from_primary_hdu (Array1D_hdu_for_output flip (@Array1D_new RO vals mask sc)) = FOk a'
    /\ Array1D_native a' = @zero_fill_row RO mask vals
    /\ b_scale a' = sc.
Proof.
  intros H. destruct (Array1D_new_native vals mask sc H) as [Hn [Hm Hs]].
  destruct (Array1D_hdu_roundtrip flip (@Array1D_new RO vals mask sc)) as [a' [Hr [Hn' [Hm' Hs']]]].
  exists a'. rewrite Hn', Hs', Hn, Hs. auto.
Qed.

End Values.

Section FSStatements.
  Context {C : Type}.
  Implicit Types (fs : fsys C) (p q : path) (c : C).
  Theorem overwrite_replaces fs p c : fs_wf fs = true -> target_ok fs p = true ->
    exists fs', to_fits fs p true c = (fs', None)
      /\ lookup (files fs') p = Some c
      /\ (forall q, q <> p -> lookup (files fs') q = lookup (files fs) q).
  Proof.
    intros Hwf Hok. destruct (to_fits_success fs p true c Hwf Hok eq_refl) as [fs' [H1 [H2 [H3 _]]]].
    exists fs'. auto.
  Qed.
  Theorem missing_dirs_created fs p ow c : fs_wf fs = true -> target_ok fs p = true -> fresh_or_overwrite fs p ow = true ->
    exists fs', to_fits fs p ow c = (fs', None)
      /\ (forall q, In q (prefixes (dirname p)) -> is_dir fs' q = true)
      /\ (forall q, is_dir fs q = true -> is_dir fs' q = true)
      /\ (forall q, is_dir fs' q = true -> is_dir fs q = true \/ In q (prefixes (dirname p)))
      /\ lookup (files fs') p = Some c.
  Proof.
    intros Hwf Hok Hfo. destruct (to_fits_success fs p ow c Hwf Hok Hfo) as [fs' [H1 [H2 [_ [H4 _]]]]].
    exists fs'. split; [exact H1|]. repeat split; try assumption.
    - intros q Hq. rewrite H4. apply orb_true_iff. right. apply existsb_exists. exists q. split; [assumption|apply path_eqb_refl].
    - intros q Hq. rewrite H4, Hq. reflexivity.
    - intros q Hq. rewrite H4 in Hq. apply orb_true_iff in Hq. destruct Hq as [Hq|Hq]; [now left|right].
      apply existsb_exists in Hq. destruct Hq as [x [Hx E]]. apply path_eqb_eq in E. now subst.
  Qed.
  Theorem bare_name_writes_cwd fs (name : nat) ow c :
    fs_wf fs = true -> target_ok fs [name] = true -> fresh_or_overwrite fs [name] ow = true ->
    exists fs', to_fits fs [name] ow c = (fs', None)
      /\ dirs fs' = dirs fs
      /\ lookup (files fs') [name] = Some c
      /\ (forall q, q <> [name] -> lookup (files fs') q = lookup (files fs) q).
  Proof.
    intros Hwf Hok Hfo. destruct (to_fits_success fs [name] ow c Hwf Hok Hfo) as [fs' [H1 [H2 [H3 [_ H5]]]]].
    exists fs'. repeat split; auto.
  Qed.
End FSStatements.

(* ================================================================== the laws hold for the real numbers *)
Theorem reals_lawful : lawful ROps.
Proof.
  constructor; unfold one, zero; cbn [T eqb mul div ofZ ROps].
  - intros x. unfold Reqb. destruct (Req_EM_T x x); [reflexivity|contradiction].
  - intros x y H. now apply Reqb_true.
  - apply Reqb_false. lra.
  - intros x. lra.
  - intros x. field.
Qed.
