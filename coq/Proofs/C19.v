(* C19 -- lemmas about the GENERATED definitions (Gen/Gen_layout.v) and the spec (Model/C19.v). *)
From Coq Require Import ZArith List Bool Lia.
From PAV Require Import Base.Res Base.Check Gen.Gen_layout Model.C19.
Import ListNotations.
Local Open Scope Z_scope.

Ltac split_cmp :=
  match goal with
  | |- context [ ?a >=? ?b ] => destruct (Z.geb_spec a b)
  | |- context [ ?a <=? ?b ] => destruct (Z.leb_spec a b)
  | |- context [ ?a >? ?b ] => destruct (Z.gtb_spec a b)
  | |- context [ ?a <? ?b ] => destruct (Z.ltb_spec a b)
  | |- context [ ?a =? ?b ] => destruct (Z.eqb_spec a b)
  end.
Ltac feq := repeat match goal with
  | |- Ok _ = Ok _ => f_equal | |- Some _ = Some _ => f_equal | |- (_, _) = (_, _) => f_equal end.
Ltac crunch := repeat (split_cmp; cbv [andb orb negb]); intros; try reflexivity; try lia; try (feq; lia).
Ltac boolhyps :=
  repeat match goal with
  | H : _ && _ = true |- _ => apply andb_prop in H; destruct H
  | H : _ || _ = true |- _ => apply orb_prop in H
  | H : (_ <=? _) = true |- _ => apply Z.leb_le in H
  | H : (_ <? _) = true |- _ => apply Z.ltb_lt in H
  | H : (_ =? _) = true |- _ => apply Z.eqb_eq in H
  end.

(* ---------- constructors: invalid regions are rejected, valid ones returned unchanged ---------- *)
Lemma init1_spec r : Region1D_init r = if valid1b r then Ok r else Raise RegionException.
Proof. destruct r as [a b]. unfold Region1D_init, valid1b. cbn [fst snd]. crunch. Qed.

Lemma init2_spec r : Region2D_init r = if valid2b r then Ok r else Raise RegionException.
Proof. destruct r as [[[a b] c] d]. unfold Region2D_init, valid2b. cbn [fst snd]. crunch. Qed.

(* ---------- front / trailing sub-regions ---------- *)
Definition want1 (w : reg1) : res reg1 := if valid1b w then Ok w else Raise RegionException.
Definition want2 (w : reg2) : res reg2 := if valid2b w then Ok w else Raise RegionException.

Ltac sub_region :=
  intros;
  repeat match goal with r : reg2 |- _ => destruct r as [[[? ?] ?] ?] | r : reg1 |- _ => destruct r as [? ?] end;
  cbv [Region1D_front_region_from Region1D_trailing_region_from
       Region2D_parallel_front_region_from Region2D_parallel_trailing_region_from
       Region2D_parallel_full_region_from Region2D_serial_front_region_from
       Region2D_serial_trailing_region_from Region2D_serial_towards_roe_full_region_from
       Region2D_serial_x_front_range_from
       Region1D_x0 Region1D_x1 Region1D_total_pixels Region2D_x0 Region2D_x1 Region2D_y0 Region2D_y1
       Region2D_total_rows Region2D_total_columns want1 want2 fst snd];
  rewrite ?init1_spec, ?init2_spec;
  repeat match goal with |- context [valid1b ?w] => destruct (valid1b w) eqn:? | |- context [valid2b ?w] => destruct (valid2b w) eqn:? end;
  try reflexivity;
  repeat match goal with H : valid1b _ = _ |- _ => revert H | H : valid2b _ = _ |- _ => revert H end;
  unfold valid1b, valid2b; crunch.

Lemma front1_pixels (s : reg1) a b :
  Region1D_front_region_from s (Some (a, b)) None = want1 (fst s + a, fst s + b).
Proof. sub_region. Qed.
Lemma front1_from_end (s : reg1) p n :
  Region1D_front_region_from s p (Some n) = want1 (snd s - n, snd s).
Proof. sub_region. Qed.
Lemma trail1_pixels (s : reg1) a b :
  Region1D_trailing_region_from s (a, b) = want1 (snd s + a, snd s + b).
Proof. sub_region. Qed.

Lemma par_front_pixels y0 y1 x0 x1 a b :
  Region2D_parallel_front_region_from (y0, y1, x0, x1) (Some (a, b)) None = want2 (y0 + a, y0 + b, x0, x1).
Proof. sub_region. Qed.
Lemma par_front_from_end y0 y1 x0 x1 p n :
  Region2D_parallel_front_region_from (y0, y1, x0, x1) p (Some n) = want2 (y1 - n, y1, x0, x1).
Proof. sub_region. Qed.
Lemma par_trail_pixels y0 y1 x0 x1 a b :
  Region2D_parallel_trailing_region_from (y0, y1, x0, x1) (a, b) = want2 (y1 + a, y1 + b, x0, x1).
Proof. sub_region. Qed.
Lemma par_full y0 y1 x0 x1 (sh : reg1) :
  Region2D_parallel_full_region_from (y0, y1, x0, x1) sh = want2 (y0, y1, 0, snd sh).
Proof. sub_region. Qed.
Lemma ser_front_pixels y0 y1 x0 x1 a b :
  Region2D_serial_front_region_from (y0, y1, x0, x1) (Some (a, b)) None = want2 (y0, y1, x0 + a, x0 + b).
Proof. sub_region. Qed.
Lemma ser_front_from_end y0 y1 x0 x1 p n :
  Region2D_serial_front_region_from (y0, y1, x0, x1) p (Some n) = want2 (y0, y1, x1 - n, x1).
Proof. sub_region. Qed.
Lemma ser_trail_pixels y0 y1 x0 x1 a b :
  Region2D_serial_trailing_region_from (y0, y1, x0, x1) (a, b) = want2 (y0, y1, x1 + a, x1 + b).
Proof. sub_region. Qed.
Lemma ser_roe_full y0 y1 x0 x1 (sh : reg1) a b :
  Region2D_serial_towards_roe_full_region_from (y0, y1, x0, x1) sh (a, b) = want2 (0, fst sh, x0 + a, x0 + b).
Proof. sub_region. Qed.

(* ---------- extraction = interval intersection ---------- *)
Lemma x0x1_is_overlap x0o x1o x0e x1e :
  valid1b (x0o, x1o) = true -> valid1b (x0e, x1e) = true ->
  x0x1_after_extraction x0o x1o x0e x1e =
  match overlap1 x0o x1o x0e x1e with Some (u, v) => (Some u, Some v) | None => (None, None) end.
Proof.
  unfold valid1b. intros Ho He. boolhyps.
  unfold x0x1_after_extraction, overlap1.
  pose proof (Z.max_spec x0o x0e) as Hmax. pose proof (Z.min_spec x1o x1e) as Hmin.
  set (lo := Z.max x0o x0e) in *. set (hi := Z.min x1o x1e) in *.
  repeat (split_cmp; cbv [andb orb negb]); try lia; try reflexivity; try (feq; lia).
Qed.

Lemma overlap1_valid a b c d u v :
  valid1b (c, d) = true -> overlap1 a b c d = Some (u, v) -> 0 <= u < v.
Proof.
  unfold valid1b, overlap1. intros H. boolhyps.
  destruct (Z.ltb_spec (Z.max a c) (Z.min b d)); intros E; inversion E; subst. lia.
Qed.

Lemma extraction_is_overlap (o e : reg2) :
  valid2b o = true -> valid2b e = true ->
  region_after_extraction (Some o) e = Ok (overlap2 o e).
Proof.
  destruct o as [[[oy0 oy1] ox0] ox1], e as [[[ey0 ey1] ex0] ex1].
  unfold valid2b. intros Ho He. boolhyps.
  assert (V1 : valid1b (oy0, oy1) = true) by (unfold valid1b; crunch).
  assert (V2 : valid1b (ey0, ey1) = true) by (unfold valid1b; crunch).
  assert (V3 : valid1b (ox0, ox1) = true) by (unfold valid1b; crunch).
  assert (V4 : valid1b (ex0, ex1) = true) by (unfold valid1b; crunch).
  unfold region_after_extraction, overlap2. cbn [fst snd].
  rewrite (x0x1_is_overlap _ _ _ _ V1 V2), (x0x1_is_overlap _ _ _ _ V3 V4).
  destruct (overlap1 oy0 oy1 ey0 ey1) as [[a b]|] eqn:E1; cbn [fst snd]; [|reflexivity].
  destruct (overlap1 ox0 ox1 ex0 ex1) as [[c d]|] eqn:E2; cbn [fst snd]; [|reflexivity].
  pose proof (overlap1_valid _ _ _ _ _ _ V2 E1). pose proof (overlap1_valid _ _ _ _ _ _ V4 E2).
  rewrite init2_spec. unfold valid2b.
  replace ((0 <=? a) && (a <? b) && (0 <=? c) && (c <? d)) with true by (symmetry; crunch).
  reflexivity.
Qed.

Lemma extraction_none e : region_after_extraction None e = Ok None.
Proof. reflexivity. Qed.

(* overlap2 really is the intersection: a window pixel (i,j) is addressed by the returned region
   iff the corresponding original pixel (i+ey0, j+ex0) lies in the original region *)
Definition in_reg (r : reg2) (i j : Z) : Prop :=
  let '(y0, y1, x0, x1) := r in y0 <= i < y1 /\ x0 <= j < x1.
Lemma overlap2_is_intersection (o e : reg2) i j :
  let '(ey0, ey1, ex0, ex1) := e in
  0 <= i < ey1 - ey0 -> 0 <= j < ex1 - ex0 ->
  (match overlap2 o e with Some r => in_reg r i j | None => False end) <-> in_reg o (i + ey0) (j + ex0).
Proof.
  destruct o as [[[oy0 oy1] ox0] ox1], e as [[[ey0 ey1] ex0] ex1]. intros Hi Hj.
  unfold overlap2, overlap1, in_reg.
  destruct (Z.ltb_spec (Z.max oy0 ey0) (Z.min oy1 ey1)); destruct (Z.ltb_spec (Z.max ox0 ex0) (Z.min ox1 ex1)); lia.
Qed.

(* ---------- rotation: generated code = spec ---------- *)
Lemma rot_array_ok {A} (m : list (list A)) c :
  cornerb c = true -> rotate_array_via_roe_corner_from m c = Some (rot_array_spec m c).
Proof.
  destruct c as [a b]. unfold cornerb, rotate_array_via_roe_corner_from, rot_array_spec. cbn [fst snd].
  intros H. boolhyps.
  repeat match goal with H : _ \/ _ |- _ => destruct H end; boolhyps; subst; reflexivity.
Qed.

Lemma rot_region_ok (r : reg2) s c :
  inside2b s r = true -> cornerb c = true ->
  rotate_region_via_roe_corner_from (Some r) s c = Ok (Some (rot_region_spec r s c)).
Proof.
  destruct r as [[[y0 y1] x0] x1], s as [H W], c as [a b].
  unfold inside2b, valid2b, cornerb. cbn [fst snd]. intros Hi Hc. boolhyps.
  unfold rotate_region_via_roe_corner_from, rot_region_spec. cbn [fst snd].
  rewrite !init2_spec. unfold valid2b.
  repeat match goal with H : _ \/ _ |- _ => destruct H end; boolhyps; subst; cbn [Z.eqb andb orb];
  crunch.
Qed.

(* ---------- slices and reversal ---------- *)
Lemma slice1_rev {A} (l : list A) a b n :
  Z.of_nat (length l) = n -> 0 <= a <= b -> b <= n ->
  slice1 (rev l) (n - b) (n - a) = rev (slice1 l a b).
Proof.
  intros Hn Hab Hb. unfold slice1.
  replace (Z.to_nat (n - a - (n - b))) with (Z.to_nat b - Z.to_nat a)%nat by lia.
  replace (Z.to_nat (b - a)) with (Z.to_nat b - Z.to_nat a)%nat by lia.
  assert (Hl : length l = Z.to_nat n) by lia.
  rewrite skipn_rev. replace (length l - Z.to_nat (n - b))%nat with (Z.to_nat b) by lia.
  rewrite firstn_rev. rewrite firstn_length_le by lia.
  replace (Z.to_nat b - (Z.to_nat b - Z.to_nat a))%nat with (Z.to_nat a) by lia.
  f_equal.
  rewrite firstn_skipn_comm. f_equal. f_equal. lia.
Qed.

Lemma slice1_map {A B} (f : A -> B) l a b : slice1 (map f l) a b = map f (slice1 l a b).
Proof. unfold slice1. now rewrite skipn_map, firstn_map. Qed.

Lemma In_firstn {A} n : forall (l : list A) x, In x (firstn n l) -> In x l.
Proof. induction n as [|n IH]; intros [|y l] x; cbn; auto; try tauto. intros [E|Hin]; auto. Qed.
Lemma In_skipn {A} n : forall (l : list A) x, In x (skipn n l) -> In x l.
Proof. induction n as [|n IH]; intros [|y l] x; cbn; auto. Qed.
Lemma slice1_In {A} (l : list A) a b x : In x (slice1 l a b) -> In x l.
Proof. unfold slice1. intros H. apply In_firstn in H. eapply In_skipn; eauto. Qed.

Lemma rectb_rows {A} H W (m : list (list A)) :
  rectb H W m = true -> Z.of_nat (length m) = H /\ forall row, In row m -> Z.of_nat (length row) = W.
Proof.
  unfold rectb. intros E. boolhyps. split; [assumption|].
  intros row Hin. rewrite forallb_forall in H1. apply Z.eqb_eq. now apply H1.
Qed.

Lemma slice2_flip_rows {A} (m : list (list A)) H y0 y1 x0 x1 :
  Z.of_nat (length m) = H -> 0 <= y0 <= y1 -> y1 <= H ->
  slice2 (rev m) (H - y1, H - y0, x0, x1) = rev (slice2 m (y0, y1, x0, x1)).
Proof.
  intros. unfold slice2. rewrite (slice1_rev m y0 y1 H) by assumption. now rewrite map_rev.
Qed.

Lemma slice2_flip_cols {A} (m : list (list A)) W y0 y1 x0 x1 :
  (forall row, In row m -> Z.of_nat (length row) = W) -> 0 <= x0 <= x1 -> x1 <= W ->
  slice2 (map (@rev A) m) (y0, y1, W - x1, W - x0) = map (@rev A) (slice2 m (y0, y1, x0, x1)).
Proof.
  intros Hrows ? ?. unfold slice2. rewrite slice1_map, !map_map.
  apply map_ext_in. intros row Hin. apply slice1_rev; auto.
  apply Hrows. eapply slice1_In; eauto.
Qed.

Lemma rotate_commutes {A} (m : list (list A)) H W (r : reg2) c :
  rectb H W m = true -> inside2b (H, W) r = true -> cornerb c = true ->
  slice2 (rot_array_spec m c) (rot_region_spec r (H, W) c) = rot_array_spec (slice2 m r) c.
Proof.
  intros Hrect Hin Hc. destruct (rectb_rows _ _ _ Hrect) as [Hlen Hrows].
  destruct r as [[[y0 y1] x0] x1], c as [a b].
  unfold inside2b, valid2b, cornerb in *. cbn [fst snd] in *. boolhyps.
  unfold rot_array_spec, rot_region_spec. cbn [fst snd].
  assert (Hrows' : forall row, In row (rev m) -> Z.of_nat (length row) = W)
    by (intros row Hr; apply Hrows; now apply in_rev).
  destruct (a =? 0); destruct (b =? 1).
  - rewrite (slice2_flip_cols (rev m) W) by (auto; lia).
    now rewrite (slice2_flip_rows m H) by (auto; lia).
  - now rewrite (slice2_flip_rows m H) by (auto; lia).
  - now rewrite (slice2_flip_cols m W) by (auto; lia).
  - reflexivity.
Qed.

Lemma rot_array_involutive {A} (m : list (list A)) c : rot_array_spec (rot_array_spec m c) c = m.
Proof.
  unfold rot_array_spec. destruct (fst c =? 0); destruct (snd c =? 1);
  rewrite <- ?map_rev, ?rev_involutive, ?map_map; try reflexivity;
  rewrite <- (map_id m) at 2; apply map_ext; intros; apply rev_involutive.
Qed.

Lemma rot_region_involutive (r : reg2) s c : rot_region_spec (rot_region_spec r s c) s c = r.
Proof.
  destruct r as [[[y0 y1] x0] x1]. unfold rot_region_spec.
  destruct (fst c =? 0); destruct (snd c =? 1); feq; lia.
Qed.

Lemma rot_region_inside (r : reg2) s c : inside2b s r = true -> inside2b s (rot_region_spec r s c) = true.
Proof.
  destruct r as [[[y0 y1] x0] x1], s as [H W]. unfold inside2b, valid2b, rot_region_spec. cbn [fst snd].
  intros Hi. boolhyps. destruct (fst c =? 0); destruct (snd c =? 1); crunch.
Qed.
