(* C02 -- model side of the correspondence check.
   The model of every anchored routine is GENERATED from /repo on every run (Gen/Gen_geometry.v, py2v plug-in
   py2v/gen_geometry.py).  The elliptical constructors go through arctan2 / radians / sin / cos: they are generated over R
   only and cannot be executed.  Their EXECUTABLE form is written here by hand in the code's loop shape, with the angle
   given by its (cos, sin) pair and the angle-addition identities applied
       r cos(theta + a) = x cos a - y sin a ,   r sin(theta + a) = y cos a + x sin a      (r cos theta = x, r sin theta = y);
   Proofs/C02r.v proves that it equals the generated trigonometric code for every angle (C02_elliptical_executable_model).
   No proofs here. *)
From Coq Require Import ZArith List Bool QArith.
From PAV Require Import Base.Res Base.Check Base.NumOps Gen.Gen_geometry Model.C02.
Import ListNotations.
Local Open Scope Z_scope.

Section Hand.
  Context {O : NumOps}.
  Notation T := (T O).
  (* mask_2d_util.elliptical_radius_from, with (cos a, sin a) = cs in place of the angle in degrees *)
  Definition elliptical_radius_from_cs (y_scaled x_scaled : T) (cs : T * T) (axis_ratio : T) : T :=
    let y_scaled_elliptical := add O (mul O y_scaled (fst cs)) (mul O x_scaled (snd cs)) in
    let x_scaled_elliptical := sub O (mul O x_scaled (fst cs)) (mul O y_scaled (snd cs)) in
    sqrtT O (add O (mul O x_scaled_elliptical x_scaled_elliptical)
                   (mul O (div O y_scaled_elliptical axis_ratio) (div O y_scaled_elliptical axis_ratio))).
  (* mask_2d_util.mask_2d_elliptical_from *)
  Definition mask_2d_elliptical_from_cs (shape_native : Z * Z) (pixel_scales : T * T) (major_axis_radius axis_ratio : T)
             (cs centre : T * T) : list (list bool) :=
    let centres_scaled := mask_2d_centres_from shape_native pixel_scales centre in
    map (fun y : Z => map (fun x : Z =>
        let y_scaled := mul O (sub O (ofZ O y) (fst centres_scaled)) (fst pixel_scales) in
        let x_scaled := mul O (sub O (ofZ O x) (snd centres_scaled)) (snd pixel_scales) in
        let r_scaled_elliptical := elliptical_radius_from_cs y_scaled x_scaled cs axis_ratio in
        if leb O r_scaled_elliptical major_axis_radius then false else true)
      (zrange (snd shape_native))) (zrange (fst shape_native)).
  (* mask_2d_util.mask_2d_elliptical_annular_from *)
  Definition mask_2d_elliptical_annular_from_cs (shape_native : Z * Z) (pixel_scales : T * T)
             (inner_major_axis_radius inner_axis_ratio : T) (inner_cs : T * T)
             (outer_major_axis_radius outer_axis_ratio : T) (outer_cs centre : T * T) : list (list bool) :=
    let centres_scaled := mask_2d_centres_from shape_native pixel_scales centre in
    map (fun y : Z => map (fun x : Z =>
        let y_scaled := mul O (sub O (ofZ O y) (fst centres_scaled)) (fst pixel_scales) in
        let x_scaled := mul O (sub O (ofZ O x) (snd centres_scaled)) (snd pixel_scales) in
        let inner_r_scaled_elliptical := elliptical_radius_from_cs y_scaled x_scaled inner_cs inner_axis_ratio in
        let outer_r_scaled_elliptical := elliptical_radius_from_cs y_scaled x_scaled outer_cs outer_axis_ratio in
        if andb (leb O inner_major_axis_radius inner_r_scaled_elliptical)
                (leb O outer_r_scaled_elliptical outer_major_axis_radius) then false else true)
      (zrange (snd shape_native))) (zrange (fst shape_native)).
  (* Mask2D.elliptical / elliptical_annular with the angles given by their (cos, sin) pairs: the generated class methods
     (Gen_geometry.v, over R only) with the executable form of the util routine inside *)
  Definition Mask2D_elliptical_cs (shape_native : Z * Z) (major_axis_radius axis_ratio : T) (cs pixel_scales origin centre : T * T)
             (invert : bool) :=
    Mask2D_new (mask_2d_elliptical_from_cs shape_native pixel_scales major_axis_radius axis_ratio cs centre) pixel_scales origin invert.
  Definition Mask2D_elliptical_annular_cs (shape_native : Z * Z) (inner_major_axis_radius inner_axis_ratio : T) (inner_cs : T * T)
             (outer_major_axis_radius outer_axis_ratio : T) (outer_cs pixel_scales origin centre : T * T) (invert : bool) :=
    Mask2D_new (mask_2d_elliptical_annular_from_cs shape_native pixel_scales inner_major_axis_radius inner_axis_ratio inner_cs
                                                   outer_major_axis_radius outer_axis_ratio outer_cs centre) pixel_scales origin invert.
  (* Grid1D.uniform_from_zero (hand model in the code's shape: the origin-0 pixel centres minus their minimum, handed to no_mask) *)
  Definition list_min (l : list T) : T := fold_left (fun a b => if ltb O b a then b else a) l (hd zero l).
  Definition Grid1D_uniform_from_zero (shape_native : Z) (pixel_scales : T) : list T * (list bool * T * T) :=
    let grid_slim := grid_1d_slim_via_shape_slim_from shape_native pixel_scales zero in
    let grid_slim := map (fun v => sub O v (list_min grid_slim)) grid_slim in
    Grid1D_no_mask grid_slim pixel_scales zero.
End Hand.

Definition eqq (tol : Q) : Q -> Q -> bool := qtol tol.
Definition lq2 (tol : Q) : list Q2 -> list Q2 -> bool := list_eqb (q2tol tol).

Definition gobj_tol (tol : Q) (a b : gobj) : bool := lq2 tol (fst a) (fst b) && mobj_eqb (snd a) (snd b).
Definition g1obj_tol (tol : Q) (a b : g1obj) : bool := list_eqb (qtol tol) (fst a) (fst b) && m1obj_eqb (snd a) (snd b).

Definition agree (k : case) : bool :=
  match k with
  | KCentral1 n s o tol outp outs =>
      qtol tol (@central_pixel_coordinates_1d_from QOps n) outp && qtol tol (@central_scaled_coordinate_1d_from QOps n s o) outs
  | KCentral2 sh s o tol outp outs =>
      q2tol tol (@central_pixel_coordinates_2d_from QOps sh) outp && q2tol tol (@central_scaled_coordinate_2d_from QOps sh s o) outs
  | KMaskCentres sh s c tol out => q2tol tol (@mask_2d_centres_from QOps sh s c) out
  | KPix1 n s o x out => Z.eqb (@pixel_coordinates_1d_from QOps x n s o) out
  | KPix2 sh s o c out => z2_eqb (@pixel_coordinates_2d_from QOps c sh s o) out
  | KScaled1 n s o p tol out => qtol tol (@scaled_coordinates_1d_from QOps p n s o) out
  | KScaled2 sh s o p tol out => q2tol tol (@scaled_coordinates_2d_from QOps p sh s o) out
  | KExtent1 n s o tol out => q2tol tol (@Geometry1D_extent QOps n s o) out
  | KExtent2 sh s o tol out => q4tol tol (@Geometry2D_extent QOps sh s o) out
  | KExtentGrid sh s o tol ext g =>
      q4tol tol (@Geometry2D_extent QOps sh s o) ext &&
      lq2 tol (@grid_2d_slim_via_mask_from QOps (repeat (repeat false (Z.to_nat (snd sh))) (Z.to_nat (fst sh))) s o) g
  | KGridPixels sh s o g tol out => lq2 tol (@grid_pixels_2d_slim_from QOps g sh s o) out
  | KGridCentres sh s o g out => lq2 0 (@grid_pixel_centres_2d_slim_from QOps g sh s o) out
  | KGridIndexes sh s o g out => list_eqb Qeq_bool (@grid_pixel_indexes_2d_slim_from QOps g sh s o) out
  | KGridScaled sh s o g tol out => lq2 tol (@grid_scaled_2d_slim_from QOps g sh s o) out
  | KGridMask m s o tol out => lq2 tol (@grid_2d_slim_via_mask_from QOps m s o) out
  | KGrid1Mask m s o tol out => list_eqb (qtol tol) (@grid_1d_slim_via_mask_from QOps m s o) out
  | KCirc sh s r c out => mask_eqb (@mask_2d_circular_from QOps sh s r c) out
  | KAnn sh s ri ro c out => mask_eqb (@mask_2d_circular_annular_from QOps sh s ri ro c) out
  | KAnti sh s ri ro ro2 c out => mask_eqb (@mask_2d_circular_anti_annular_from QOps sh s ri ro ro2 c) out
  | KEll sh s R q cs c out => mask_eqb (@mask_2d_elliptical_from_cs QOps sh s R q cs c) out
  | KEllAnn sh s Ri qi csi Ro qo cso c out => mask_eqb (@mask_2d_elliptical_annular_from_cs QOps sh s Ri qi csi Ro qo cso c) out
  | KAllFalseC sh s o inv out => mobj_eqb (@Mask2D_all_false QOps sh s o inv) out
  | KCircC sh r s o c inv out => mobj_eqb (@Mask2D_circular QOps sh r s o c inv) out
  | KAnnC sh ri ro s o c inv out => mobj_eqb (@Mask2D_circular_annular QOps sh ri ro s o c inv) out
  | KAntiC sh ri ro ro2 s o c inv out => mobj_eqb (@Mask2D_circular_anti_annular QOps sh ri ro ro2 s o c inv) out
  | KEllC sh R q cs s o c inv out => mobj_eqb (@Mask2D_elliptical_cs QOps sh R q cs s o c inv) out
  | KEllAnnC sh Ri qi csi Ro qo cso s o c inv out => mobj_eqb (@Mask2D_elliptical_annular_cs QOps sh Ri qi csi Ro qo cso s o c inv) out
  | KGeoOf M out =>
      let g := @Mask2D_geometry QOps M in
      z2_eqb (fst (fst g)) (fst (fst out)) && q2eq (snd (fst g)) (snd (fst out)) && q2eq (snd g) (snd out)
  | KGeoGrid which sh s o G tol out =>
      if which =? 0 then gobj_tol tol (@Geometry2D_grid_pixels_2d_from QOps sh s o G) out
      else if which =? 1 then gobj_tol 0 (@Geometry2D_grid_pixel_centres_2d_from QOps sh s o G) out
      else gobj_tol tol (@Geometry2D_grid_scaled_2d_from QOps sh s o G) out
  | KGeoIndexes sh s o G out =>
      let r := @Geometry2D_grid_pixel_indexes_2d_from QOps sh s o G in
      list_eqb Qeq_bool (fst r) (fst out) && mobj_eqb (snd r) (snd out)
  | KSnap sh s o c tol out => q2tol tol (@Geometry2D_scaled_coordinate_2d_to_scaled_at_pixel_centre_from QOps sh s o c) out
  | KUniformC sh s o tol out => gobj_tol tol (@Grid2D_uniform QOps sh s o) out
  | KFromMaskC M tol out => gobj_tol tol (@Grid2D_from_mask QOps M) out
  | KDeriveAllFalseC M tol out => gobj_tol tol (@DeriveGrid2D_all_false QOps M) out
  | KDeriveUnmaskedC M tol out => gobj_tol tol (@DeriveGrid2D_unmasked QOps M) out
  | KNative3 sh s o g out => list_eqb (lq2 0) (@grid_pixel_centres_2d_from QOps g sh s o) out
  | KAllFalse1C n s o inv out => m1obj_eqb (@Mask1D_all_false QOps n s o inv) out
  | KGeoOf1 M out =>
      let g := @Mask1D_geometry QOps M in
      Z.eqb (fst (fst g)) (fst (fst out)) && Qeq_bool (snd (fst g)) (snd (fst out)) && Qeq_bool (snd g) (snd out)
  | KUniform1C n s o tol out => g1obj_tol tol (@Grid1D_uniform QOps n s o) out
  | KFromMask1C M tol out => g1obj_tol tol (@Grid1D_from_mask QOps M) out
  | KDeriveAllFalse1 M tol out => true       (* not modelled: the specification alone judges it (see props/C02.findings.json) *)
  | KUniformFromZero1 n s tol out => g1obj_tol tol (@Grid1D_uniform_from_zero QOps n s) out
  end.

Definition check (k : case) : nat := verdict (agree k) (spec_ok k).
