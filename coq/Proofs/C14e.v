(* C14 -- part 5: after Imaging.apply_mask the blurring footprint of every unmasked pixel lies inside the frame. *)
From Coq Require Import ZArith List Bool Lia Reals.
From PAV Require Import Base.Res Base.Check Base.NumOps Model.C14 Proofs.C14 Proofs.C14b Proofs.C14c Proofs.C14d.
Import ListNotations.
Local Open Scope Z_scope.

Lemma existsb_false {X} (f : X -> bool) (l : list X) : existsb f l = false -> forall x, In x l -> f x = false.
Proof.
  intros HE x Hx. destruct (f x) eqn:E; [|reflexivity].
  assert (existsb f l = true) by (apply existsb_exists; exists x; split; assumption). congruence.
Qed.
Lemma In_zrange lo hi v : lo <= v < hi -> In v (zrange lo hi).
Proof.
  intros Hv. unfold zrange. apply in_map_iff. exists (Z.to_nat (v - lo)). split; [lia|]. apply in_seq. lia.
Qed.

Lemma footprint_intro (m : list (list bool)) R0 R1 g k0 k1 :
  Entries m R0 R1 g -> 0 < R0 ->
  (forall y x, 0 <= y < R0 -> 0 <= x < R1 -> g y x = false ->
     (k0 - 1) / 2 <= y /\ y + (k0 - 1) / 2 < R0 /\ (k1 - 1) / 2 <= x /\ x + (k1 - 1) / 2 < R1) ->
  footprint_inside m (k0, k1) = true.
Proof.
  intros HE HP HF. destruct (Entries_shape _ _ _ _ HE HP) as [S0 S1].
  unfold footprint_inside. apply forallb_forall. intros [y x] Hp. rewrite S0, S1. cbn [fst snd].
  apply (In_unmasked _ _ _ _ _ _ HE) in Hp. destruct Hp as (Hy & Hx & G).
  destruct (HF y x Hy Hx G) as (F1 & F2 & F3 & F4).
  rewrite !andb_true_iff. repeat split; try (apply Z.leb_le; lia); apply Z.ltb_lt; lia.
Qed.

(* the blurring-mask test did not raise: every footprint is inside the frame *)
Lemma not_raises_footprint_inside (m : list (list bool)) H W k0 k1 :
  rectb H W m = true -> 0 < H -> Z.odd k0 = true -> Z.odd k1 = true -> 1 <= k0 -> 1 <= k1 ->
  blurring_raises m (k0, k1) = false -> footprint_inside m (k0, k1) = true.
Proof.
  intros HM HP O0 O1 Hk0 Hk1 HB. pose proof (Entries_self true _ _ _ HM HP) as XM.
  destruct (Entries_shape _ _ _ _ XM HP) as [S0 S1]. pose proof XM as (_ & HW & [HL HC] & _).
  assert (C0 : k0 - 1 = 2 * ((k0 - 1) / 2)) by (rewrite Z.odd_spec in O0; destruct O0 as [q ->]; zdiv).
  assert (C1 : k1 - 1 = 2 * ((k1 - 1) / 2)) by (rewrite Z.odd_spec in O1; destruct O1 as [q ->]; zdiv).
  set (c0 := (k0 - 1) / 2) in *. set (c1 := (k1 - 1) / 2) in *.
  apply (footprint_intro m H W _ k0 k1 XM HP). fold c0 c1. intros y x Hy Hx G.
  unfold blurring_raises in HB. cbn [fst snd] in HB. rewrite S0, S1 in HB.
  rewrite <- Z.negb_odd, O0, <- Z.negb_odd, O1 in HB. cbn [negb orb] in HB.
  pose proof (existsb_false _ _ HB (Z.to_nat y)) as HB1.
  assert (I1 : In (Z.to_nat y) (seq 0 (length m))) by (apply in_seq; lia). specialize (HB1 I1). cbv beta in HB1.
  pose proof (existsb_false _ _ HB1 (Z.to_nat x)) as HB2.
  assert (I2 : In (Z.to_nat x) (seq 0 (length (hd [] m)))) by (apply in_seq; rewrite hd_nth0, HC; lia). specialize (HB2 I2). cbv beta in HB2.
  unfold zget2 in G. rewrite G in HB2. rewrite !Z2Nat.id in HB2 by lia.
  assert (LO0 : (- k0 + 1) / 2 = - c0) by zdiv. assert (HI0 : (k0 + 1) / 2 = c0 + 1) by zdiv.
  assert (LO1 : (- k1 + 1) / 2 = - c1) by zdiv. assert (HI1 : (k1 + 1) / 2 = c1 + 1) by zdiv.
  rewrite LO0, HI0, LO1, HI1 in HB2.
  assert (Q : forall y1 x1, - c0 <= y1 < c0 + 1 -> - c1 <= x1 < c1 + 1 ->
            0 <= x + x1 /\ x + x1 <= W - 1 /\ 0 <= y + y1 /\ y + y1 <= H - 1).
  { intros y1 x1 Hy1 Hx1. pose proof (existsb_false _ _ HB2 y1 (In_zrange _ _ _ Hy1)) as HB3.
    cbv beta in HB3. pose proof (existsb_false _ _ HB3 x1 (In_zrange _ _ _ Hx1)) as HB4. cbv beta in HB4.
    apply negb_false_iff in HB4. boolp. lia. }
  pose proof (Q (- c0) (- c1) ltac:(lia) ltac:(lia)). pose proof (Q c0 c1 ltac:(lia) ltac:(lia)). lia.
Qed.

(* the centred embedding for an odd kernel, padded with masked pixels, has every footprint inside *)
Lemma padded_footprint_inside (m : list (list bool)) H W k0 k1 :
  rectb H W m = true -> 0 < H -> Z.odd k0 = true -> Z.odd k1 = true -> 1 <= k0 -> 1 <= k1 ->
  footprint_inside (resize_spec true m (H + (k0 - 1)) (W + (k1 - 1))) (k0, k1) = true.
Proof.
  intros HM HP O0 O1 Hk0 Hk1. pose proof (Entries_self true _ _ _ HM HP) as XM. pose proof XM as (_ & HW & _).
  assert (C0 : k0 - 1 = 2 * ((k0 - 1) / 2)) by (rewrite Z.odd_spec in O0; destruct O0 as [q ->]; zdiv).
  assert (C1 : k1 - 1 = 2 * ((k1 - 1) / 2)) by (rewrite Z.odd_spec in O1; destruct O1 as [q ->]; zdiv).
  assert (N0 : 0 <= H + (k0 - 1)) by lia. assert (N1 : 0 <= W + (k1 - 1)) by lia.
  pose proof (resize_spec_entries true m H W _ _ _ XM N0 N1) as XR.
  apply (footprint_intro _ _ _ _ k0 k1 XR ltac:(lia)). intros y x Hy Hx G.
  unfold resized_fun, inr in G.
  set (c0 := (k0 - 1) / 2) in *. set (c1 := (k1 - 1) / 2) in *.
  assert (D0 : H / 2 - (H + (k0 - 1)) / 2 = - c0) by zdiv. assert (D1 : W / 2 - (W + (k1 - 1)) / 2 = - c1) by zdiv.
  rewrite D0, D1 in G.
  destruct (Z.leb_spec 0 (y + - c0)), (Z.ltb_spec (y + - c0) H), (Z.leb_spec 0 (x + - c1)), (Z.ltb_spec (x + - c1) W);
    cbn [andb] in G; try discriminate. lia.
Qed.

(* MAIN 8: whichever branch Imaging.__init__ takes, on the resulting mask the blurring footprint (odd PSF) of every
   unmasked pixel lies inside the frame -- the padding achieves what it is for *)
Lemma apply_mask_footprint_inside {B} (zero : B) (data noise : list (list B)) (m : list (list bool)) H W k :
  rectb H W data = true -> rectb H W noise = true -> rectb H W m = true -> 0 < H -> odd_kernel k = true ->
  exists d' n', imaging_apply_mask zero data noise m (Some k) = Ok (d', n') /\ footprint_inside (snd d') k = true.
Proof.
  intros HD HN HM HP HK. destruct k as [k0 k1]. unfold odd_kernel in HK. cbn [fst snd] in HK. boolp.
  pose proof (rectb_W_nonneg _ _ _ HM HP) as HW.
  pose proof (Entries_self zero _ _ _ HD HP) as XD. pose proof (Entries_self zero _ _ _ HN HP) as XN.
  pose proof (Entries_self true _ _ _ HM HP) as XM.
  destruct (mask_apply_entries zero data m H W _ _ XD XM) as (d & ED & YD).
  destruct (mask_apply_entries zero noise m H W _ _ XN XM) as (n & EN & YN).
  unfold imaging_apply_mask. rewrite ED, EN. cbn [bind].
  destruct (blurring_raises m (k0, k1)) eqn:EB.
  - assert (PD : properA H W (d, m)) by (split; [destruct YD as (_ & _ & RD & _); apply Rect_rectb; [lia | lia | exact RD] | split; assumption]).
    assert (PN : properA H W (n, m)) by (split; [destruct YN as (_ & _ & RN & _); apply Rect_rectb; [lia | lia | exact RN] | split; assumption]).
    rewrite (padded_is_spec zero (d, m) H W k0 k1 1 PD) by lia. rewrite (padded_is_spec zero (n, m) H W k0 k1 1 PN) by lia.
    cbn [bind]. eexists. eexists. split; [reflexivity|]. unfold resized_arr_spec. cbn [fst snd negb Z.eqb].
    apply padded_footprint_inside; assumption.
  - eexists. eexists. split; [reflexivity|]. cbn [fst snd]. now apply (not_raises_footprint_inside m H W).
Qed.

(* PSF padding (odd kernel) is a parity-preserving resize: pixel (i, j) moves to (i + (k0-1)/2, j + (k1-1)/2) and keeps
   its mask entry, its value and its scaled coordinate *)
Lemma psf_padding_keeps_coordinates {B} (zero : B) (arr : arr2d B) H W k0 k1 mpv (g : rgeom) :
  rectb H W (fst arr) = true -> rectb H W (snd arr) = true -> 0 < H ->
  Z.odd k0 = true -> Z.odd k1 = true -> 1 <= k0 -> 1 <= k1 ->
  exists out, padded_before_convolution_from zero arr (k0, k1) mpv = Ok out /\
    forall i j, 0 <= i < H -> 0 <= j < W ->
      let i' := i + (k0 - 1) / 2 in let j' := j + (k1 - 1) / 2 in
      zget2 true (snd out) i' j' = zget2 true (snd arr) i j /\
      zget2 zero (fst out) i' j' = zget2 zero (fst (normal_arr zero arr)) i j /\
      @pixel_centre_code ROps (H + (k0 - 1)) (W + (k1 - 1)) g i' j' = @pixel_centre_code ROps H W g i j.
Proof.
  intros HA HM HP O0 O1 Hk0 Hk1. pose proof (rectb_W_nonneg _ _ _ HM HP) as HW.
  assert (C0 : k0 - 1 = 2 * ((k0 - 1) / 2)) by (rewrite Z.odd_spec in O0; destruct O0 as [q ->]; zdiv).
  assert (C1 : k1 - 1 = 2 * ((k1 - 1) / 2)) by (rewrite Z.odd_spec in O1; destruct O1 as [q ->]; zdiv).
  set (c0 := (k0 - 1) / 2) in *. set (c1 := (k1 - 1) / 2) in *.
  assert (E0 : Z.even (H + (k0 - 1) - H) = true) by (rewrite Z.even_spec; exists c0; lia).
  assert (E1 : Z.even (W + (k1 - 1) - W) = true) by (rewrite Z.even_spec; exists c1; lia).
  destruct (parity_preserving_resize_keeps_coordinates zero arr H W (H + (k0 - 1)) (W + (k1 - 1)) mpv g HA HM HP
              ltac:(lia) ltac:(lia) E0 E1) as (out & EQ & _ & _ & HK).
  exists out. split.
  - pose proof (Entries_self true _ _ _ HM HP) as XM. destruct (Entries_shape _ _ _ _ XM HP) as [S0 S1].
    unfold padded_before_convolution_from. rewrite S0, S1. exact EQ.
  - intros i j Hi Hj. cbv zeta.
    assert (D0 : H / 2 - (H + (k0 - 1)) / 2 = - c0) by zdiv. assert (D1 : W / 2 - (W + (k1 - 1)) / 2 = - c1) by zdiv.
    specialize (HK (i + c0) (j + c1) ltac:(lia) ltac:(lia)). cbv zeta in HK. rewrite D0, D1 in HK.
    replace (i + c0 + - c0) with i in HK by lia. replace (j + c1 + - c1) with j in HK by lia.
    apply HK; lia.
Qed.

(* Imaging.apply_mask pads (odd PSF, blurring region leaving the frame); AbstractDataset.trimmed_after_convolution_from
   for the same kernel then gives back the masked data and noise map on the original mask *)
Lemma apply_mask_then_trim_id {B} (zero : B) (data noise : list (list B)) (m : list (list bool)) H W k :
  rectb H W data = true -> rectb H W noise = true -> rectb H W m = true -> 0 < H -> odd_kernel k = true ->
  blurring_raises m k = true ->
  bind (imaging_apply_mask zero data noise m (Some k)) (fun dn => dataset_trimmed zero dn k)
  = Ok ((zip_mask zero data m, m), (zip_mask zero noise m, m)).
Proof.
  intros HD HN HM HP HK EB. destruct k as [k0 k1]. unfold odd_kernel in HK. cbn [fst snd] in HK. boolp.
  pose proof (rectb_W_nonneg _ _ _ HM HP) as HW.
  pose proof (Entries_self zero _ _ _ HD HP) as XD. pose proof (Entries_self zero _ _ _ HN HP) as XN.
  pose proof (Entries_self true _ _ _ HM HP) as XM.
  destruct (mask_apply_entries zero data m H W _ _ XD XM) as (d & ED & YD).
  destruct (mask_apply_entries zero noise m H W _ _ XN XM) as (n & EN & YN).
  assert (ZD : d = zip_mask zero data m) by (apply (Entries_ext zero _ _ _ _ _ _ YD (zip_mask_entries zero _ _ _ _ _ _ XD XM)); reflexivity).
  assert (ZN : n = zip_mask zero noise m) by (apply (Entries_ext zero _ _ _ _ _ _ YN (zip_mask_entries zero _ _ _ _ _ _ XN XM)); reflexivity).
  assert (PD : properA H W (d, m)) by (split; [destruct YD as (_ & _ & RD & _); apply Rect_rectb; [lia | lia | exact RD] | split; assumption]).
  assert (PN : properA H W (n, m)) by (split; [destruct YN as (_ & _ & RN & _); apply Rect_rectb; [lia | lia | exact RN] | split; assumption]).
  pose proof (pad_then_trim_id zero (d, m) H W k0 k1 1 PD ltac:(assumption) ltac:(assumption) ltac:(lia) ltac:(lia)) as TD.
  pose proof (pad_then_trim_id zero (n, m) H W k0 k1 1 PN ltac:(assumption) ltac:(assumption) ltac:(lia) ltac:(lia)) as TN.
  unfold imaging_apply_mask. rewrite ED, EN. cbn [bind]. rewrite EB.
  destruct (padded_before_convolution_from zero (d, m) (k0, k1) 1) as [pd|e]; [|discriminate TD].
  destruct (padded_before_convolution_from zero (n, m) (k0, k1) 1) as [pn|e]; [|discriminate TN].
  cbn [bind] in *. unfold dataset_trimmed. cbn [fst snd]. rewrite TD, TN. cbn [bind]. unfold normal_arr. cbn [fst snd].
  assert (MD : zip_mask zero d m = d).
  { apply (Entries_ext zero _ _ _ _ _ _ (zip_mask_entries zero _ _ _ _ _ _ YD XM) YD). intros i j _ _. unfold masked_fun.
    destruct (zget2 true m i j); reflexivity. }
  assert (MN : zip_mask zero n m = n).
  { apply (Entries_ext zero _ _ _ _ _ _ (zip_mask_entries zero _ _ _ _ _ _ YN XM) YN). intros i j _ _. unfold masked_fun.
    destruct (zget2 true m i j); reflexivity. }
  rewrite MD, MN, ZD, ZN. reflexivity.
Qed.

Lemma existsb_false_intro {X} (f : X -> bool) (l : list X) : (forall x, In x l -> f x = false) -> existsb f l = false.
Proof.
  intros HF. destruct (existsb f l) eqn:E; [|reflexivity]. apply existsb_exists in E. destruct E as (x & Hx & Fx).
  rewrite (HF x Hx) in Fx. discriminate.
Qed.
Lemma In_zrange_inv lo hi v : In v (zrange lo hi) -> lo <= v < hi.
Proof. unfold zrange. intros HI. apply in_map_iff in HI. destruct HI as (i & <- & Hi). apply in_seq in Hi. lia. Qed.

(* when every footprint is inside the frame the blurring-mask test does not raise *)
Lemma footprint_inside_not_raises (m : list (list bool)) H W k0 k1 :
  rectb H W m = true -> 0 < H -> Z.odd k0 = true -> Z.odd k1 = true -> 1 <= k0 -> 1 <= k1 ->
  footprint_inside m (k0, k1) = true -> blurring_raises m (k0, k1) = false.
Proof.
  intros HM HP O0 O1 Hk0 Hk1 HF. pose proof (Entries_self true _ _ _ HM HP) as XM.
  destruct (Entries_shape _ _ _ _ XM HP) as [S0 S1]. pose proof XM as (_ & HW & [HL HC] & _).
  assert (C0 : k0 - 1 = 2 * ((k0 - 1) / 2)) by (rewrite Z.odd_spec in O0; destruct O0 as [q ->]; zdiv).
  assert (C1 : k1 - 1 = 2 * ((k1 - 1) / 2)) by (rewrite Z.odd_spec in O1; destruct O1 as [q ->]; zdiv).
  unfold footprint_inside in HF. rewrite forallb_forall in HF. rewrite S0, S1 in HF. cbn [fst snd] in HF.
  set (c0 := (k0 - 1) / 2) in *. set (c1 := (k1 - 1) / 2) in *.
  unfold blurring_raises. cbn [fst snd]. rewrite S0, S1.
  rewrite <- Z.negb_odd, O0, <- Z.negb_odd, O1. cbn [negb orb].
  assert (LO0 : (- k0 + 1) / 2 = - c0) by zdiv. assert (HI0 : (k0 + 1) / 2 = c0 + 1) by zdiv.
  assert (LO1 : (- k1 + 1) / 2 = - c1) by zdiv. assert (HI1 : (k1 + 1) / 2 = c1 + 1) by zdiv.
  rewrite LO0, HI0, LO1, HI1.
  apply existsb_false_intro. intros y Hy. apply in_seq in Hy. apply existsb_false_intro. intros x Hx. apply in_seq in Hx.
  rewrite hd_nth0, HC in Hx by lia.
  destruct (get2 true m y x) eqn:G; [reflexivity|].
  assert (Hin : In (Z.of_nat y, Z.of_nat x) (unmasked_coords m)).
  { apply (In_unmasked _ _ _ _ _ _ XM). repeat split; try lia. unfold zget2. now rewrite !Nat2Z.id. }
  specialize (HF _ Hin). cbn [fst snd] in HF. boolp.
  apply existsb_false_intro. intros y1 Hy1. apply In_zrange_inv in Hy1.
  apply existsb_false_intro. intros x1 Hx1. apply In_zrange_inv in Hx1.
  apply negb_false_iff. rewrite !andb_true_iff. repeat split; apply Z.leb_le; lia.
Qed.

(* the automatic padding happens exactly when some unmasked pixel's blurring footprint leaves the frame *)
Lemma blurring_raises_iff (m : list (list bool)) H W k :
  rectb H W m = true -> 0 < H -> odd_kernel k = true -> blurring_raises m k = negb (footprint_inside m k).
Proof.
  intros HM HP HK. destruct k as [k0 k1]. unfold odd_kernel in HK. cbn [fst snd] in HK. boolp.
  destruct (footprint_inside m (k0, k1)) eqn:EF; cbn [negb].
  - apply (footprint_inside_not_raises m H W); assumption || lia.
  - destruct (blurring_raises m (k0, k1)) eqn:EB; [reflexivity|].
    assert (X : footprint_inside m (k0, k1) = true) by (apply (not_raises_footprint_inside m H W k0 k1); assumption || lia).
    congruence.
Qed.
