(* C07 -- the split-cross table of a Delaunay mapper satisfies the hypothesis of the split-scheme theorems.
   MapperDelaunay.pix_sub_weights_split_cross builds its table with the very routines property C06 models
   (mapper_util.pix_indexes_for_sub_slim_index_delaunay_from / pixel_weights_delaunay_from, [C06.del_mappings] / [C06.del_weights]),
   applied to the 4 cross points of every mesh vertex, then appends a column (-1 / 0.0).  Given scipy's contract for the
   triangulation (every simplex has three distinct in-range vertices; find_simplex returns -1 or a simplex index) the table
   meets [split_rows_ok 4]: the split schemes are symmetric positive definite with the stated form on EVERY Delaunay mesh. *)
From Coq Require Import ZArith List Bool Lia Arith Reals Lra.
From PAV Require Import Base.Res Base.Check Base.NumOps Base.Sum Model.C07 Model.C07Split Proofs.C07.
From PAV Require Model.C06 Proofs.C06.
Import ListNotations.

Definition simplices_ok (P : nat) (simplices : list (list Z)) : Prop :=
  forall row, In row simplices -> exists a b c, row = [a; b; c] /\ (0 <= a < Z.of_nat P)%Z /\ (0 <= b < Z.of_nat P)%Z /\ (0 <= c < Z.of_nat P)%Z
                                                /\ a <> b /\ a <> c /\ b <> c.
Definition simplex_for_ok (simplices : list (list Z)) (simplex_for : list Z) : Prop :=
  forall t, In t simplex_for -> t = (-1)%Z \/ (0 <= t < Z.of_nat (length simplices))%Z.

Lemma del_weight_row_length (mesh : list (R * R)) p row : length (@C06.del_weight_row ROps mesh p row) = 3%nat.
Proof. unfold C06.del_weight_row. destruct (negb _); reflexivity. Qed.

Lemma row_cases (cross_pts points : list (R * R)) simplex_for simplices : points <> [] ->
  simplices_ok (length points) simplices -> simplex_for_ok simplices simplex_for ->
  forall row, In row (fst (@C06.del_mappings ROps cross_pts simplex_for simplices points)) ->
    (exists k, row = [Z.of_nat k; -1; -1]%Z /\ (k < length points)%nat)
    \/ (exists a b c, row = [a; b; c] /\ (0 <= a < Z.of_nat (length points))%Z /\ (0 <= b < Z.of_nat (length points))%Z
                      /\ (0 <= c < Z.of_nat (length points))%Z /\ a <> b /\ a <> c /\ b <> c).
Proof.
  intros Hne HS HF row Hin. unfold C06.del_mappings in Hin. cbn [fst] in Hin. apply in_map_iff in Hin. destruct Hin as [[p t] [E Hpt]].
  cbn [fst snd] in E. destruct (t =? -1)%Z eqn:Et.
  - left. eexists. split; [symmetry; exact E|].
    pose proof (C06.argmin_spec (map (fun v => @C06.sqdist ROps v p) points)) as A. cbn zeta in A.
    rewrite map_length in A. apply A. destruct points; [congruence|discriminate].
  - right. apply Z.eqb_neq in Et. apply in_combine_r in Hpt. destruct (HF t Hpt) as [->|Ht]; [congruence|].
    assert (Hr : In (nth (Z.to_nat t) simplices [(-1)%Z; (-1)%Z; (-1)%Z]) simplices) by (apply nth_In; lia).
    rewrite E in Hr. exact (HS row Hr).
Qed.

Lemma nodupb3 a b c : a <> b -> a <> c -> b <> c -> (0 <= a)%Z -> (0 <= b)%Z -> (0 <= c)%Z -> nodupb (map Z.to_nat [a; b; c]) = true.
Proof.
  intros H1 H2 H3 Ha Hb Hc. cbn [map nodupb existsb].
  assert (E1 : Nat.eqb (Z.to_nat a) (Z.to_nat b) = false) by (apply Nat.eqb_neq; lia).
  assert (E2 : Nat.eqb (Z.to_nat a) (Z.to_nat c) = false) by (apply Nat.eqb_neq; lia).
  assert (E3 : Nat.eqb (Z.to_nat b) (Z.to_nat c) = false) by (apply Nat.eqb_neq; lia).
  rewrite E1, E2, E3. reflexivity.
Qed.

Theorem T_delaunay_split_rows_ok (cross_pts points : list (R * R)) simplex_for simplices : points <> [] ->
  length cross_pts = (4 * length points)%nat -> length simplex_for = length cross_pts ->
  simplices_ok (length points) simplices -> simplex_for_ok simplices simplex_for ->
  split_rows_ok 4 (@split_table ROps cross_pts simplex_for simplices points) = true
  /\ length (@split_table ROps cross_pts simplex_for simplices points) = (4 * length points)%nat.
Proof.
  intros Hne HL HLs HS HF.
  set (mp := fst (@C06.del_mappings ROps cross_pts simplex_for simplices points)).
  set (sz := snd (@C06.del_mappings ROps cross_pts simplex_for simplices points)).
  assert (Lmp : length mp = (4 * length points)%nat).
  { unfold mp, C06.del_mappings. cbn [fst]. rewrite map_length, combine_length. unfold C06.pt in *; tr; lia. }
  assert (Esz : sz = map (fun r : list Z => length (filter (fun v => (0 <=? v)%Z) r)) mp) by reflexivity.
  assert (Lwt : length (@C06.del_weights ROps cross_pts points mp) = (4 * length points)%nat).
  { unfold C06.del_weights. rewrite map_length, combine_length. unfold C06.pt in *; tr; lia. }
  assert (Ltab : length (@split_table ROps cross_pts simplex_for simplices points) = (4 * length points)%nat).
  { unfold split_table. cbn zeta. fold mp sz. rewrite map_length, !combine_length, Esz, map_length. unfold C06.pt in *; tr; lia. }
  split; [|exact Ltab]. unfold split_rows_ok. rewrite Ltab.
  replace (4 * length points / 4)%nat with (length points) by (rewrite Nat.mul_comm, Nat.div_mul; lia).
  rewrite Nat.eqb_refl. cbn [andb]. apply forallb_forall. intros [[m s] w] Hin.
  unfold split_table in Hin. cbn zeta in Hin. fold mp sz in Hin. apply in_map_iff in Hin. destruct Hin as [[[m0 s0] w0] [E Hin]].
  cbn [fst snd] in E. inversion E; subst m s w. clear E.
  pose proof (in_combine_l _ _ _ _ Hin) as Hms. pose proof (in_combine_r _ _ _ _ Hin) as Hw.
  assert (Hs0 : s0 = length (filter (fun v => (0 <=? v)%Z) m0)).
  { rewrite Esz in Hms. clear - Hms. induction mp as [|r mp IH]; cbn [map combine] in Hms; [destruct Hms|].
    destruct Hms as [E|H]; [inversion E; reflexivity|apply IH; exact H]. }
  pose proof (in_combine_l _ _ _ _ Hms) as Hm0.
  assert (Lw0 : length w0 = 3%nat).
  { unfold C06.del_weights in Hw. apply in_map_iff in Hw. destruct Hw as [pr [<- _]]. apply del_weight_row_length. }
  unfold split_row_ok. tr. rewrite !app_length, Lw0. cbn [length Nat.add Nat.sub].
  destruct (row_cases cross_pts points simplex_for simplices Hne HS HF m0 Hm0) as [[k [-> Hk]]|[a [b [c [-> [Ha [Hb [Hc [N1 [N2 N3]]]]]]]]]].
  - assert (F : filter (fun v => (0 <=? v)%Z) [Z.of_nat k; -1; -1]%Z = [Z.of_nat k]).
    { cbn [filter]. assert (X : (0 <=? Z.of_nat k)%Z = true) by (apply Z.leb_le; lia). rewrite X. reflexivity. }
    rewrite Hs0, F. cbn [length app firstn forallb map nodupb existsb negb andb Nat.leb Nat.ltb Nat.eqb].
    assert (X1 : (0 <=? Z.of_nat k)%Z = true) by (apply Z.leb_le; lia).
    assert (X2 : (Z.of_nat k <? Z.of_nat (length points))%Z = true) by (apply Z.ltb_lt; lia).
    rewrite X1, X2. reflexivity.
  - assert (F : filter (fun v => (0 <=? v)%Z) [a; b; c] = [a; b; c]).
    { cbn [filter]. assert (Xa : (0 <=? a)%Z = true) by (apply Z.leb_le; lia). assert (Xb : (0 <=? b)%Z = true) by (apply Z.leb_le; lia).
      assert (Xc : (0 <=? c)%Z = true) by (apply Z.leb_le; lia). rewrite Xa, Xb, Xc. reflexivity. }
    rewrite Hs0, F. cbn [length app firstn]. rewrite (nodupb3 a b c) by lia.
    cbn [forallb Nat.leb Nat.ltb Nat.eqb andb].
    assert (Xa : ((0 <=? a) && (a <? Z.of_nat (length points)))%Z = true) by (apply andb_true_iff; split; [apply Z.leb_le|apply Z.ltb_lt]; lia).
    assert (Xb : ((0 <=? b) && (b <? Z.of_nat (length points)))%Z = true) by (apply andb_true_iff; split; [apply Z.leb_le|apply Z.ltb_lt]; lia).
    assert (Xc : ((0 <=? c) && (c <? Z.of_nat (length points)))%Z = true) by (apply andb_true_iff; split; [apply Z.leb_le|apply Z.ltb_lt]; lia).
    rewrite Xa, Xb, Xc. reflexivity.
Qed.

(* hence ConstantSplit / AdaptiveBrightnessSplit on every Delaunay mesh: no exception, square, symmetric, the stated quadratic form,
   positive definite *)
Local Open Scope R_scope.
Theorem T_delaunay_split_schemes (eps : R) (w : list R) (cross_pts points : list (R * R)) simplex_for simplices : points <> [] ->
  length cross_pts = (4 * length points)%nat -> length simplex_for = length cross_pts ->
  simplices_ok (length points) simplices -> simplex_for_ok simplices simplex_for ->
  let rows := @split_table ROps cross_pts simplex_for simplices points in
  exists rows' H, @reg_split ROps 4 rows = Ok rows' /\ @split_matrix ROps eps w rows' = Ok H
    /\ square_n (length points) H /\ symmetric_n (length points) H
    /\ (forall x, length x = length points -> @quad ROps H x = @qf_split ROps eps w (map prow0 rows) x)
    /\ (0 < eps -> forall x, length x = length points -> nonzero x -> 0 < @quad ROps H x).
Proof.
  intros Hne HL HLs HS HF rows. destruct (T_delaunay_split_rows_ok cross_pts points simplex_for simplices Hne HL HLs HS HF) as [Hok Hlen].
  fold rows in Hok, Hlen.
  destruct (T_split_pipeline eps w 4 rows Hok) as [rows' [H [E1 [E2 [Hsq [Hsym [Hq Hpd]]]]]]].
  assert (EP : (length rows / 4)%nat = length points) by (rewrite Hlen, Nat.mul_comm, Nat.div_mul; lia).
  exists rows', H. rewrite <- EP. repeat (split; [assumption|]). exact Hpd.
Qed.
