(* C16, phase 2 -- proofs about HISTORIES (Model.C16h):
   (1) a generic simulation theorem: two classes of objects whose operations are related step by step produce the same
       observations on every history on which the first raises nothing ([hrun_sim]);
   (2) the stored-buffer model of Array2D / Kernel2D (slim or native buffer, store_native, native_binned_only, raw
       values at masked pixels after arithmetic and in-place edits) simulates the class whose state is the LOGICAL
       content of the array, the native grid with zeros at the masked pixels ([arr2_sim], [hist2_refines]);
   (3) on the logical content the FITS routes return the content itself ([log2_*]). *)
From Coq Require Import ZArith QArith List Bool Lia Reals.
From PAV Require Import Base.NumOps Base.Check Model.C16h Proofs.C16.
Import ListNotations.

(* ================================================================== (1) simulation of histories *)
Section Sim.
  Context {O : NumOps} {S1 S2 X R : Type} (c1 : @hclass O S1 X R) (c2 : @hclass O S2 X R) (Rel : S1 -> S2 -> Prop).
  Definition sim1 (f1 : S1 -> fres S1) (f2 : S2 -> fres S2) : Prop :=
    forall a g a', Rel a g -> f1 a = FOk a' -> exists g', f2 g = FOk g' /\ Rel a' g'.
  Record hsim : Prop := {
    sim_op : forall o, sim1 (h_op _ _ _ c1 o) (h_op _ _ _ c2 o);
    sim_bop : forall b a g r gr a', Rel a g -> Rel r gr -> h_bop _ _ _ c1 b a r = FOk a' ->
              exists g', h_bop _ _ _ c2 b g gr = FOk g' /\ Rel a' g';
    sim_native : sim1 (h_native _ _ _ c1) (h_native _ _ _ c2);
    sim_slim : sim1 (h_slim _ _ _ c1) (h_slim _ _ _ c2);
    sim_set1 : forall k v, sim1 (h_set1 _ _ _ c1 k v) (h_set1 _ _ _ c2 k v);
    sim_set2 : forall y x v, sim1 (h_set2 _ _ _ c1 y x v) (h_set2 _ _ _ c2 y x v);
    sim_peek : forall a g n, Rel a g -> h_peek _ _ _ c1 a = FOk n -> h_peek _ _ _ c2 g = FOk n;
    sim_hdu : forall flip a g h, Rel a g -> h_hdu _ _ _ c1 flip a = FOk h -> h_hdu _ _ _ c2 flip g = FOk h;
    sim_write : forall flip fs a g p ow x, Rel a g -> h_write _ _ _ c1 flip fs a p ow = FOk x -> h_write _ _ _ c2 flip fs g p ow = FOk x;
    sim_read_hdu : forall flip h, h_read_hdu _ _ _ c1 flip h = h_read_hdu _ _ _ c2 flip h;
    sim_read_file : forall flip fs p k, h_read_file _ _ _ c1 flip fs p k = h_read_file _ _ _ c2 flip fs p k }.
  Definition st_rel (s1 : @hstate O S1 X) (s2 : @hstate O S2 X) : Prop :=
    Rel (st_cur s1) (st_cur s2) /\ Rel (st_reg s1) (st_reg s2) /\ st_alias s1 = st_alias s2
    /\ st_flip s1 = st_flip s2 /\ st_fs s1 = st_fs s2.

  Hypothesis H : hsim.
  Lemma hstep_sim s s1 s2 s1' : st_rel s1 s2 -> hstep c1 s s1 = FOk s1' ->
    exists s2', hstep c2 s s2 = FOk s2' /\ st_rel s1' s2'.
  Proof.
    intros [Hc [Hr [Ha [Hf Hs]]]] E. destruct s; cbn [hstep] in *.
    - destruct (h_op _ _ _ c1 o (st_cur s1)) as [a'|e] eqn:E1; cbn [fbind] in E; [|discriminate].
      destruct (sim_op H o _ _ _ Hc E1) as [g' [E2 Hg]]. rewrite E2. cbn [fbind]. injection E as <-.
      eexists; split; [reflexivity|]. unfold st_rel, rebind; cbn. auto.
    - destruct (h_bop _ _ _ c1 b (st_cur s1) (st_reg s1)) as [a'|e] eqn:E1; cbn [fbind] in E; [|discriminate].
      destruct (sim_bop H b _ _ _ _ _ Hc Hr E1) as [g' [E2 Hg]]. rewrite E2. cbn [fbind]. injection E as <-.
      eexists; split; [reflexivity|]. unfold st_rel, rebind; cbn. auto.
    - injection E as <-. eexists; split; [reflexivity|]. unfold st_rel; cbn. auto.
    - injection E as <-. eexists; split; [reflexivity|]. unfold st_rel; cbn. auto.
    - destruct (h_native _ _ _ c1 (st_cur s1)) as [a'|e] eqn:E1; cbn [fbind] in E; [|discriminate].
      destruct (sim_native H _ _ _ Hc E1) as [g' [E2 Hg]]. rewrite E2. cbn [fbind]. injection E as <-.
      eexists; split; [reflexivity|]. unfold st_rel, rebind; cbn. auto.
    - destruct (h_slim _ _ _ c1 (st_cur s1)) as [a'|e] eqn:E1; cbn [fbind] in E; [|discriminate].
      destruct (sim_slim H _ _ _ Hc E1) as [g' [E2 Hg]]. rewrite E2. cbn [fbind]. injection E as <-.
      eexists; split; [reflexivity|]. unfold st_rel, rebind; cbn. auto.
    - injection E as <-. eexists; split; [reflexivity|]. unfold st_rel, rebind; cbn. auto.
    - destruct (h_set1 _ _ _ c1 k v (st_cur s1)) as [a'|e] eqn:E1; cbn [fbind] in E; [|discriminate].
      destruct (sim_set1 H k v _ _ _ Hc E1) as [g' [E2 Hg]]. rewrite E2. cbn [fbind]. injection E as <-.
      eexists; split; [reflexivity|]. unfold st_rel, mutate; cbn. rewrite <- Ha. destruct (st_alias s1); auto.
    - destruct (h_set2 _ _ _ c1 y x v (st_cur s1)) as [a'|e] eqn:E1; cbn [fbind] in E; [|discriminate].
      destruct (sim_set2 H y x v _ _ _ Hc E1) as [g' [E2 Hg]]. rewrite E2. cbn [fbind]. injection E as <-.
      eexists; split; [reflexivity|]. unfold st_rel, mutate; cbn. rewrite <- Ha. destruct (st_alias s1); auto.
    - injection E as <-. eexists; split; [reflexivity|]. unfold st_rel; cbn. auto.
    - injection E as <-. eexists; split; [reflexivity|]. unfold st_rel; cbn. auto.
    - injection E as <-. eexists; split; [reflexivity|]. unfold st_rel; cbn. auto.
    - injection E as <-. eexists; split; [reflexivity|]. unfold st_rel; cbn. auto.
  Qed.

  Lemma hrun_step s rest (st : @hstate O S1 X) (c : @hclass O S1 X R) :
    match s with SPeek | SHdu | SFile _ _ _ => False | _ => True end ->
    hrun c (s :: rest) st = match hstep c s st with FOk st' => hrun c rest st' | FRaise e => [OErr e] end.
  Proof. destruct s; intros Hs; try contradiction; reflexivity. Qed.
  Lemma hrun_step2 s rest (st : @hstate O S2 X) (c : @hclass O S2 X R) :
    match s with SPeek | SHdu | SFile _ _ _ => False | _ => True end ->
    hrun c (s :: rest) st = match hstep c s st with FOk st' => hrun c rest st' | FRaise e => [OErr e] end.
  Proof. destruct s; intros Hs; try contradiction; reflexivity. Qed.

  Theorem hrun_sim steps : forall s1 s2, st_rel s1 s2 -> no_err (hrun c1 steps s1) = true ->
    hrun c1 steps s1 = hrun c2 steps s2.
  Proof.
    induction steps as [|s rest IH]; intros s1 s2 Hrel Hne; [reflexivity|].
    assert (Hobj : match s with SPeek | SHdu | SFile _ _ _ => False | _ => True end ->
                   hrun c1 (s :: rest) s1 = hrun c2 (s :: rest) s2).
    { intros Hs. rewrite (hrun_step s rest s1 c1 Hs) in *. rewrite (hrun_step2 s rest s2 c2 Hs).
      destruct (hstep c1 s s1) as [s1'|e] eqn:E; [|cbn in Hne; discriminate].
      destruct (hstep_sim s s1 s2 s1' Hrel E) as [s2' [E2 Hrel']]. rewrite E2. now apply IH. }
    destruct Hrel as [Hc [Hr [Ha [Hf Hs]]]].
    destruct s; try (apply Hobj; exact I).
    - (* SPeek *) cbn [hrun] in *.
      destruct (h_peek _ _ _ c1 (st_cur s1)) as [n|e] eqn:E; [|cbn in Hne; discriminate].
      rewrite (sim_peek H _ _ _ Hc E). cbn [no_err forallb] in Hne. f_equal. apply IH; [unfold st_rel; auto|exact Hne].
    - (* SHdu *) cbn [hrun] in *.
      destruct (h_hdu _ _ _ c1 (st_flip s1) (st_cur s1)) as [h|e] eqn:E; [|cbn in Hne; discriminate].
      rewrite <- Hf, (sim_hdu H _ _ _ _ Hc E), (sim_read_hdu H). cbn [no_err forallb] in Hne.
      f_equal. apply IH; [unfold st_rel; auto|exact Hne].
    - (* SFile *) cbn [hrun] in *.
      destruct (h_write _ _ _ c1 (st_flip s1) (st_fs s1) (st_cur s1) p ow) as [[fs' w]|e] eqn:E; [|cbn in Hne; discriminate].
      rewrite <- Hf, <- Hs, (sim_write H _ _ _ _ _ _ _ Hc E), (sim_read_file H). cbn [no_err forallb] in Hne.
      f_equal. apply IH; [unfold st_rel; cbn; auto|exact Hne].
  Qed.
End Sim.

(* ================================================================== list facts *)
Lemma map_as_map2 {A B} (f : A -> B) (l : list A) : map f l = map2 (fun x _ => f x) l l.
Proof. induction l as [|x l IH]; [reflexivity|]. cbn. now rewrite IH. Qed.
Lemma map_map_as_map2 {A B} (f : A -> B) (g : list (list A)) : map (map f) g = map2 (map2 (fun x _ => f x)) g g.
Proof. induction g as [|r g IH]; [reflexivity|]. cbn. now rewrite IH, map_as_map2. Qed.
Lemma upd_at_length {B} (l : list B) : forall i f, length (upd_at l i f) = length l.
Proof. induction l as [|b l IH]; intros [|i] f; cbn; auto. Qed.
Lemma map2_length {A B C} (f : A -> B -> C) (a : list A) : forall b : list B, length a = length b -> length (map2 f a b) = length a.
Proof. induction a as [|x a IH]; intros [|y b] Hl; cbn in *; try discriminate; auto. Qed.
Lemma same_len2_map {A A' B} (f : A -> A') (n : list (list A)) : forall m : list (list B), same_len2 (map (map f) n) m = same_len2 n m.
Proof. induction n as [|r n IH]; intros [|mr m]; cbn; auto. now rewrite map_length, IH. Qed.
Lemma same_len2_map2 {A B C D} (f : A -> B -> C) (n1 : list (list A)) : forall (n2 : list (list B)) (m : list (list D)),
  same_len2 n1 m = true -> same_len2 n2 m = true -> same_len2 (map2 (map2 f) n1 n2) m = true.
Proof.
  induction n1 as [|r1 n1 IH]; intros [|r2 n2] [|mr m] H1 H2; cbn in *; try discriminate; auto.
  apply andb_prop in H1, H2. destruct H1 as [A1 B1], H2 as [A2 B2]. apply Nat.eqb_eq in A1, A2.
  rewrite map2_length by congruence. rewrite A1, Nat.eqb_refl. cbn. now apply IH.
Qed.
Lemma same_len2_sym_lens {A B C} (n1 : list (list A)) : forall (n2 : list (list B)) (m : list (list C)),
  same_len2 n1 m = true -> same_len2 n2 m = true -> same_len2 n1 n2 = true.
Proof.
  induction n1 as [|r1 n1 IH]; intros [|r2 n2] [|mr m] H1 H2; cbn in *; try discriminate; auto.
  apply andb_prop in H1, H2. destruct H1 as [A1 B1], H2 as [A2 B2]. apply Nat.eqb_eq in A1, A2.
  rewrite A1, <- A2, Nat.eqb_refl. cbn. now apply (IH n2 m).
Qed.
Lemma same_len2_upd {A B} (n : list (list A)) : forall (m : list (list B)) y x (v : A),
  same_len2 (set2 n y x v) m = same_len2 n m.
Proof.
  unfold set2. induction n as [|r n IH]; intros [|mr m] [|y] x v; cbn; auto.
  - now rewrite upd_at_length.
  - now rewrite IH.
Qed.
Lemma count_unmasked_cons r m : count_unmasked (r :: m) = (unmasked_in r + count_unmasked m)%nat.
Proof. unfold count_unmasked, unmasked_in. cbn [concat]. now rewrite filter_app, app_length. Qed.

(* ================================================================== (2) Array2D with a stored buffer *)
Section Arr2.
  Context {O : NumOps} (L : lawful O) (Lz : forall x : T O, mul O x (@zero O) = @zero O).   (* x * 0.0 == 0.0 *)
  Local Notation V := (T O).

  Lemma maskmul_eq (v : V) (b : bool) : mul O v (tofloat (negb b)) = if b then zero else v.
  Proof. destruct b; cbn [negb tofloat]; [apply Lz | apply (law_mul_one O L)]. Qed.
  Lemma maskmul_row (r : list V) : forall mr, map2 (fun v b => mul O v (tofloat (negb b))) r mr = zero_fill_row mr r.
  Proof.
    unfold zero_fill_row. induction r as [|v r IH]; intros [|b mr]; try reflexivity.
    cbn [map2]. now rewrite maskmul_eq, IH.
  Qed.
  Lemma maskmul2_zero_fill (n : list (list V)) : forall m, maskmul2 n m = zero_fill m n.
  Proof.
    unfold maskmul2, zero_fill. induction n as [|r n IH]; intros [|mr m]; try reflexivity.
    cbn [map2]. now rewrite maskmul_row, IH.
  Qed.
  Lemma zero_fill_row_idem (m : list bool) : forall r : list V, zero_fill_row m (zero_fill_row m r) = zero_fill_row m r.
  Proof. unfold zero_fill_row. induction m as [|b m IH]; intros [|v r]; try reflexivity. cbn [map2]. rewrite IH. now destruct b. Qed.
  Lemma zero_fill_idem (m : list (list bool)) : forall n : list (list V), zero_fill m (zero_fill m n) = zero_fill m n.
  Proof. unfold zero_fill. induction m as [|mr m IH]; intros [|r n]; try reflexivity. cbn [map2]. now rewrite zero_fill_row_idem, IH. Qed.
  Lemma same_len2_zero_fill (m : list (list bool)) : forall n : list (list V), same_len2 n m = true -> same_len2 (zero_fill m n) m = true.
  Proof.
    unfold zero_fill. induction m as [|mr m IH]; intros [|r n] H; cbn in *; try discriminate; auto.
    apply andb_prop in H. destruct H as [A B]. apply Nat.eqb_eq in A. unfold zero_fill_row.
    rewrite map2_length by congruence. rewrite Nat.eqb_refl. cbn. now apply IH.
  Qed.

  (* ---- native_row / native_from ---- *)
  Lemma native_row_true m (s : list V) : native_row (true :: m) s = (zero :: fst (native_row m s), snd (native_row m s)).
  Proof. cbn [native_row]. now destruct (native_row m s). Qed.
  Lemma native_row_false_cons m v (s : list V) : native_row (false :: m) (v :: s) = (v :: fst (native_row m s), snd (native_row m s)).
  Proof. cbn [native_row]. now destruct (native_row m s). Qed.
  Lemma native_from_cons r m (s : list V) : native_from (r :: m) s = fst (native_row r s) :: native_from m (snd (native_row r s)).
  Proof. cbn [native_from]. now destruct (native_row r s). Qed.
  Lemma native_row_fst_len m : forall s : list V, length (fst (native_row m s)) = length m.
  Proof.
    induction m as [|b m IH]; intros s; [reflexivity|]. destruct b.
    - rewrite native_row_true. cbn. now rewrite IH.
    - destruct s as [|v s]; [|rewrite native_row_false_cons; cbn; now rewrite IH].
      cbn [native_row]. specialize (IH []). destruct (native_row m []). cbn in *. now rewrite IH.
  Qed.
  Lemma native_row_fst_zero m : forall s : list V, zero_fill_row m (fst (native_row m s)) = fst (native_row m s).
  Proof.
    unfold zero_fill_row. induction m as [|b m IH]; intros s; [reflexivity|]. destruct b.
    - rewrite native_row_true. cbn [fst map2]. now rewrite IH.
    - destruct s as [|v s]; [|rewrite native_row_false_cons; cbn [fst map2]; now rewrite IH].
      cbn [native_row]. specialize (IH []). destruct (native_row m []). cbn [fst map2] in *. now rewrite IH.
  Qed.
  Lemma native_row_snd_len m : forall s : list V, length (snd (native_row m s)) = (length s - unmasked_in m)%nat.
  Proof.
    unfold unmasked_in. induction m as [|b m IH]; intros s; [cbn; lia|]. destruct b.
    - rewrite native_row_true. cbn [snd filter negb]. apply IH.
    - destruct s as [|v s]; [|rewrite native_row_false_cons; cbn [snd filter negb length]; rewrite IH; lia].
      cbn [native_row]. specialize (IH []). destruct (native_row m []). cbn in *. lia.
  Qed.
  Lemma native_from_zero m : forall s : list V, zero_fill m (native_from m s) = native_from m s.
  Proof.
    unfold zero_fill. induction m as [|r m IH]; intros s; [reflexivity|].
    rewrite native_from_cons. cbn [map2]. now rewrite native_row_fst_zero, IH.
  Qed.
  Lemma native_from_shape m : forall s : list V, same_len2 (native_from m s) m = true.
  Proof.
    induction m as [|r m IH]; intros s; [reflexivity|].
    rewrite native_from_cons. cbn [same_len2]. now rewrite native_row_fst_len, Nat.eqb_refl, IH.
  Qed.

  (* an elementwise operation on two slim buffers is the operation on the native grids, re-masked *)
  Lemma native_row_zip (f : V -> V -> V) m : forall s1 s2, (unmasked_in m <= length s1)%nat -> (unmasked_in m <= length s2)%nat ->
    native_row m (map2 f s1 s2)
    = (zero_fill_row m (map2 f (fst (native_row m s1)) (fst (native_row m s2))),
       map2 f (snd (native_row m s1)) (snd (native_row m s2))).
  Proof.
    unfold unmasked_in, zero_fill_row. induction m as [|b m IH]; intros s1 s2 H1 H2; [reflexivity|]. destruct b.
    - rewrite !native_row_true. cbn [fst snd map2]. cbn [filter negb] in H1, H2. now rewrite (IH s1 s2 H1 H2).
    - cbn [filter negb length] in H1, H2. destruct s1 as [|x s1]; [cbn in H1; lia|]. destruct s2 as [|y s2]; [cbn in H2; lia|].
      cbn [map2]. rewrite !native_row_false_cons. cbn [fst snd map2]. cbn [length] in H1, H2.
      rewrite (IH s1 s2) by lia. reflexivity.
  Qed.
  Lemma native_from_zip (f : V -> V -> V) m : forall s1 s2, (count_unmasked m <= length s1)%nat -> (count_unmasked m <= length s2)%nat ->
    native_from m (map2 f s1 s2) = zero_fill m (map2 (map2 f) (native_from m s1) (native_from m s2)).
  Proof.
    unfold zero_fill. induction m as [|r m IH]; intros s1 s2 H1 H2; [reflexivity|].
    rewrite count_unmasked_cons in H1, H2. rewrite !native_from_cons. cbn [map2].
    rewrite native_row_zip by lia. cbn [fst snd]. f_equal.
    apply IH; rewrite native_row_snd_len; lia.
  Qed.
  Lemma native_from_map (f : V -> V) m s : (count_unmasked m <= length s)%nat ->
    native_from m (map f s) = zero_fill m (map (map f) (native_from m s)).
  Proof. intros H. rewrite map_as_map2, map_map_as_map2. now apply native_from_zip. Qed.

  (* the same on two native buffers *)
  Lemma zero_fill_row_zip (f : V -> V -> V) m : forall r1 r2,
    zero_fill_row m (map2 f r1 r2) = zero_fill_row m (map2 f (zero_fill_row m r1) (zero_fill_row m r2)).
  Proof.
    unfold zero_fill_row. induction m as [|b m IH]; intros [|x r1] [|y r2]; try reflexivity.
    cbn [map2]. rewrite IH. now destruct b.
  Qed.
  Lemma zero_fill_zip (f : V -> V -> V) m : forall n1 n2,
    zero_fill m (map2 (map2 f) n1 n2) = zero_fill m (map2 (map2 f) (zero_fill m n1) (zero_fill m n2)).
  Proof.
    unfold zero_fill. induction m as [|mr m IH]; intros [|r1 n1] [|r2 n2]; try reflexivity.
    cbn [map2]. now rewrite IH, zero_fill_row_zip.
  Qed.
  Lemma zero_fill_map (f : V -> V) m n : zero_fill m (map (map f) n) = zero_fill m (map (map f) (zero_fill m n)).
  Proof. rewrite !map_map_as_map2. apply zero_fill_zip. Qed.

  (* ---- slim_from ---- *)
  Lemma slim_row_len m : forall v : list V, length v = length m -> length (slim_row m v) = unmasked_in m.
  Proof.
    unfold unmasked_in. induction m as [|b m IH]; intros [|x v] Hl; cbn in Hl; try discriminate; [reflexivity|].
    injection Hl as Hl. cbn [slim_row filter negb]. destruct b; cbn [negb length]; now rewrite IH.
  Qed.
  Lemma slim_from_len m : forall n : list (list V), same_len2 n m = true -> length (slim_from m n) = count_unmasked m.
  Proof.
    unfold slim_from. induction m as [|mr m IH]; intros [|r n] H; cbn in H; try discriminate; [reflexivity|].
    apply andb_prop in H. destruct H as [A B]. apply Nat.eqb_eq in A.
    cbn [map2 concat]. rewrite app_length, count_unmasked_cons, slim_row_len, IH; auto.
  Qed.
  Lemma native_from_slim_from m (n : list (list V)) : same_len2 n m = true -> native_from m (slim_from m n) = zero_fill m n.
  Proof. intros H. unfold slim_from. rewrite <- (app_nil_r (concat _)). now apply native_from_slim. Qed.

  (* ---- in-place assignment to one element of the buffer ---- *)
  Lemma native_row_upd m : forall (s : list V) k v, (unmasked_in m <= length s)%nat ->
    native_row m (upd_at s k (fun _ => v))
    = if (k <? unmasked_in m)%nat then (set_unmasked_row m (fst (native_row m s)) k v, snd (native_row m s))
      else (fst (native_row m s), upd_at (snd (native_row m s)) (k - unmasked_in m) (fun _ => v)).
  Proof.
    unfold unmasked_in. induction m as [|b m IH]; intros s k v Hl.
    - cbn. now rewrite Nat.sub_0_r.
    - destruct b.
      + cbn [filter negb] in *. rewrite !native_row_true, (IH s k v Hl).
        destruct (k <? length (filter negb m))%nat; reflexivity.
      + cbn [filter negb length] in *. destruct s as [|x s]; [cbn in Hl; lia|]. cbn [length] in Hl.
        destruct k as [|j].
        * cbn [upd_at]. rewrite !native_row_false_cons. reflexivity.
        * cbn [upd_at]. rewrite !native_row_false_cons, (IH s j v) by lia.
          change (S j <? S (length (filter negb m)))%nat with (j <? length (filter negb m))%nat.
          change (S j - S (length (filter negb m)))%nat with (j - length (filter negb m))%nat.
          destruct (j <? length (filter negb m))%nat; reflexivity.
  Qed.
  Lemma native_from_upd m : forall (s : list V) k v, (count_unmasked m <= length s)%nat ->
    native_from m (upd_at s k (fun _ => v)) = set_unmasked m (native_from m s) k v.
  Proof.
    induction m as [|r m IH]; intros s k v Hl; [reflexivity|].
    rewrite count_unmasked_cons in Hl. rewrite !native_from_cons, native_row_upd by lia. cbn [set_unmasked].
    destruct (k <? unmasked_in r)%nat; cbn [fst snd]; [reflexivity|].
    f_equal. apply IH. rewrite native_row_snd_len. lia.
  Qed.
  Lemma zero_fill_row_upd mr : forall (r : list V) x v,
    zero_fill_row mr (upd_at r x (fun _ => v)) = if nth x mr true then zero_fill_row mr r else upd_at (zero_fill_row mr r) x (fun _ => v).
  Proof.
    unfold zero_fill_row. induction mr as [|b mr IH]; intros r x v.
    - cbn. now destruct x.
    - destruct r as [|y r]; [destruct x; cbn; repeat match goal with |- context [if ?c then _ else _] => destruct c end; reflexivity|].
      destruct x as [|j].
      + cbn. now destruct b.
      + cbn [upd_at map2 nth]. rewrite IH. now destruct (nth j mr true).
  Qed.
  Lemma zero_fill_upd m : forall (n : list (list V)) y x v,
    zero_fill m (set2 n y x v) = if masked_at m y x then zero_fill m n else set2 (zero_fill m n) y x v.
  Proof.
    unfold zero_fill, set2, masked_at. induction m as [|mr m IH]; intros n y x v.
    - cbn. destruct y; now destruct x.
    - destruct n as [|r n]; [destruct y; cbn; repeat match goal with |- context [if ?c then _ else _] => destruct c end; reflexivity|].
      destruct y as [|j].
      + cbn [upd_at map2 nth]. rewrite zero_fill_row_upd. now destruct (nth x mr true).
      + cbn [upd_at map2 nth]. rewrite IH. now destruct (nth x (nth j m []) true).
  Qed.

  (* ---- the logical content of a stored array, and the objects a history can reach ---- *)
  Definition logical (a : @sarr O) : list (list V) :=
    match s_buf a with BSlim s => native_from (s_mask a) s | BNative n => zero_fill (s_mask a) n end.
  Definition sarr_wf (a : @sarr O) : Prop :=
    match s_buf a with BSlim s => length s = count_unmasked (s_mask a) | BNative n => same_len2 n (s_mask a) = true end.
  Definition rel2 (mask : list (list bool)) (sc : V * V) (a : @sarr O) (g : list (list V)) : Prop :=
    sarr_wf a /\ s_mask a = mask /\ s_scales a = sc /\ logical a = g.

  (* masked pixels of the logical content are zero, whatever the buffer holds there *)
  Theorem logical_zero_filled a : zero_fill (s_mask a) (logical a) = logical a.
  Proof. unfold logical. destruct (s_buf a); [apply native_from_zero|apply zero_fill_idem]. Qed.
  Theorem logical_shape a : sarr_wf a -> same_len2 (logical a) (s_mask a) = true.
  Proof. unfold logical, sarr_wf. destruct (s_buf a); intros H; [apply native_from_shape|now apply same_len2_zero_fill]. Qed.

  Theorem sarr_init_logical nbo vals mask sc sn : same_len2 vals mask = true ->
    exists a, sarr_init nbo (BNative vals) mask sc sn false = FOk a /\ rel2 mask sc a (zero_fill mask vals).
  Proof.
    intros H. unfold sarr_init, convert_array_2d. rewrite H. cbn [fbind]. eexists. split; [reflexivity|].
    unfold rel2, sarr_wf, logical. cbn [s_buf s_mask s_scales]. rewrite maskmul2_zero_fill.
    pose proof (same_len2_zero_fill mask vals H) as H'.
    destruct (sn || nbo); repeat split; auto.
    - apply zero_fill_idem.
    - now apply slim_from_len.
    - rewrite native_from_slim_from by exact H'. apply zero_fill_idem.
  Qed.
  Lemma sarr_native_values_logical nbo a : sarr_wf a -> sarr_native_values nbo a = FOk (logical a).
  Proof.
    unfold sarr_wf, logical, sarr_native_values, sarr_native, sarr_init, convert_array_2d. destruct (s_buf a) as [s|n]; intros H.
    - rewrite H, Nat.eqb_refl. reflexivity.
    - rewrite H. cbn [orb fbind s_buf]. now rewrite maskmul2_zero_fill.
  Qed.
  Lemma sarr_to_native_rel nbo mask sc a g : rel2 mask sc a g ->
    exists a', sarr_init nbo (s_buf a) (s_mask a) (s_scales a) true false = FOk a' /\ rel2 mask sc a' g.
  Proof.
    intros [Hw [Hm [Hs Hl]]]. unfold sarr_init, convert_array_2d. unfold sarr_wf in Hw. unfold logical in Hl.
    destruct (s_buf a) as [s|n].
    - rewrite Hw, Nat.eqb_refl. cbn [orb fbind]. eexists. split; [reflexivity|].
      unfold rel2, sarr_wf, logical. cbn [s_buf s_mask s_scales]. repeat split; auto.
      + apply native_from_shape.
      + now rewrite native_from_zero.
    - rewrite Hw. cbn [orb fbind]. eexists. split; [reflexivity|].
      unfold rel2, sarr_wf, logical. cbn [s_buf s_mask s_scales]. rewrite maskmul2_zero_fill. repeat split; auto.
      + now apply same_len2_zero_fill.
      + now rewrite zero_fill_idem.
  Qed.
  Lemma sarr_to_slim_rel mask sc a g : rel2 mask sc a g ->
    exists a', sarr_init false (s_buf a) (s_mask a) (s_scales a) false false = FOk a' /\ rel2 mask sc a' g.
  Proof.
    intros [Hw [Hm [Hs Hl]]]. unfold sarr_init, convert_array_2d. unfold sarr_wf in Hw. unfold logical in Hl.
    destruct (s_buf a) as [s|n].
    - rewrite Hw, Nat.eqb_refl. cbn [orb fbind]. eexists. split; [reflexivity|].
      unfold rel2, sarr_wf, logical. cbn [s_buf s_mask s_scales]. repeat split; auto.
    - rewrite Hw. cbn [orb fbind]. eexists. split; [reflexivity|].
      unfold rel2, sarr_wf, logical. cbn [s_buf s_mask s_scales]. rewrite maskmul2_zero_fill.
      pose proof (same_len2_zero_fill _ _ Hw) as H'. repeat split; auto.
      + now apply slim_from_len.
      + rewrite native_from_slim_from by exact H'. now rewrite zero_fill_idem.
  Qed.

  (* what a stored array writes is its logical content, flipped when the flag is on, under the cards of its scales *)
  Theorem sarr_hdu_logical nbo flip a : sarr_wf a ->
    sarr_hdu_for_output nbo flip a = FOk (hdu_for_output_from_2d flip (logical a) (pixel_scale_header (scales2 (s_scales a)))).
  Proof. intros H. unfold sarr_hdu_for_output. now rewrite (sarr_native_values_logical nbo a H). Qed.
  Theorem sarr_output_logical nbo flip fs a p ow : sarr_wf a ->
    sarr_output_to_fits nbo flip fs a p ow
    = FOk (to_fits fs p ow [hdu_for_output_from_2d flip (logical a) (pixel_scale_header (scales2 (s_scales a)))]).
  Proof. intros H. unfold sarr_output_to_fits. now rewrite (sarr_native_values_logical nbo a H). Qed.

  Theorem arr2_sim nbo is_kernel mask sc sc_read :
    hsim (class_arr2 nbo is_kernel sc_read) (class_log2 mask sc is_kernel sc_read) (rel2 mask sc).
  Proof.
    constructor.
    - (* obj <op> c *)
      intros o a g a' [Hw [Hm [Hs Hl]]] E. cbn in E. injection E as <-. eexists. split; [reflexivity|].
      unfold rel2, sarr_wf, logical, sarr_with, lop2 in *. cbn [s_buf s_mask s_scales]. rewrite <- Hl, <- Hm.
      destruct (s_buf a) as [s|n]; cbn [map_buf]; repeat split; auto.
      + now rewrite map_length.
      + apply native_from_map. lia.
      + now rewrite same_len2_map.
      + apply zero_fill_map.
    - (* obj <op> other *)
      intros b a g r gr a' [Hw [Hm [Hs Hl]]] [Hw' [Hm' [Hs' Hl']]] E. cbn in E.
      unfold rel2, sarr_wf, logical, lbop2 in *. rewrite Hm' in *. rewrite Hm in *.
      destruct (s_buf a) as [s|n], (s_buf r) as [s'|n']; cbn [zip_buf] in E; try discriminate.
      + destruct (same_len1 s s') eqn:El; cbn [fbind] in E; [|discriminate]. injection E as <-.
        eexists. split; [reflexivity|]. unfold sarr_with. cbn [s_buf s_mask s_scales]. rewrite Hm, <- Hl, <- Hl'.
        repeat split; auto.
        * rewrite map2_length; [exact Hw|]. rewrite Hw, Hw'. reflexivity.
        * apply native_from_zip; lia.
      + destruct (same_len2 n n') eqn:El; cbn [fbind] in E; [|discriminate]. injection E as <-.
        eexists. split; [reflexivity|]. unfold sarr_with. cbn [s_buf s_mask s_scales]. rewrite Hm, <- Hl, <- Hl'.
        repeat split; auto.
        * now apply same_len2_map2.
        * apply zero_fill_zip.
    - (* .native *)
      intros a g a' Hr E. cbn in E. unfold sarr_native in E.
      destruct (sarr_to_native_rel nbo mask sc a g Hr) as [a2 [E2 Hr2]]. rewrite E2 in E. injection E as <-.
      eexists. split; [reflexivity|exact Hr2].
    - (* .slim *)
      intros a g a' Hr E. cbn in E. unfold sarr_slim in E. destruct nbo.
      + destruct (sarr_to_native_rel true mask sc a g Hr) as [a2 [E2 Hr2]].
        unfold sarr_init in E, E2. cbn [orb] in E, E2. rewrite E2 in E. injection E as <-.
        eexists. split; [reflexivity|exact Hr2].
      + destruct (sarr_to_slim_rel mask sc a g Hr) as [a2 [E2 Hr2]]. rewrite E2 in E. injection E as <-.
        eexists. split; [reflexivity|exact Hr2].
    - (* obj[k] = v *)
      intros k v a g a' [Hw [Hm [Hs Hl]]] E. cbn in E. unfold rel2, sarr_wf, logical, lset1_2 in *.
      destruct (s_buf a) as [s|n]; cbn [buf_set1 fbind] in E; [|discriminate].
      destruct (k <? length s)%nat; cbn [fbind] in E; [|discriminate]. injection E as <-.
      eexists. split; [reflexivity|]. unfold sarr_with. cbn [s_buf s_mask s_scales]. rewrite <- Hl, <- Hm.
      repeat split; auto.
      + now rewrite upd_at_length.
      + apply native_from_upd. lia.
    - (* obj[y, x] = v *)
      intros y x v a g a' [Hw [Hm [Hs Hl]]] E. cbn in E. unfold rel2, sarr_wf, logical, lset2_2 in *.
      destruct (s_buf a) as [s|n]; cbn [buf_set2 fbind] in E; [discriminate|].
      destruct ((y <? length n)%nat && (x <? length (nth y n []))%nat); cbn [fbind] in E; [|discriminate]. injection E as <-.
      eexists. split; [reflexivity|]. unfold sarr_with. cbn [s_buf s_mask s_scales]. rewrite <- Hl, <- Hm.
      repeat split; auto.
      + now rewrite same_len2_upd.
      + unfold lset2_2. now rewrite zero_fill_upd.
    - (* np.array(obj.native) *)
      intros a g n [Hw [Hm [Hs Hl]]] E. cbn in E |- *. rewrite (sarr_native_values_logical nbo a Hw) in E. congruence.
    - (* hdu_for_output *)
      intros flip a g h [Hw [Hm [Hs Hl]]] E. cbn in E |- *. unfold sarr_hdu_for_output in E.
      rewrite (sarr_native_values_logical nbo a Hw) in E. cbn [fbind] in E. congruence.
    - (* output_to_fits *)
      intros flip fs a g p ow x [Hw [Hm [Hs Hl]]] E. cbn in E |- *. unfold sarr_output_to_fits in E.
      rewrite (sarr_native_values_logical nbo a Hw) in E. cbn [fbind] in E. congruence.
    - reflexivity.
    - reflexivity.
  Qed.

  (* A history of an Array2D / Kernel2D built with any store_native, under either value of native_binned_only, shows
     exactly what the same history shows on the logical content (the native grid with zeros at the masked pixels):
     arithmetic on the raw buffer, .native / .slim, copies, aliases and in-place edits never leak a masked-pixel value
     or a stale value into np.array(obj.native), hdu_for_output or output_to_fits. *)
  Theorem hist2_refines nbo is_kernel sc_read sn vals mask sc flip fs steps : same_len2 vals mask = true ->
    exists a, sarr_init nbo (BNative vals) mask sc sn false = FOk a /\
      (no_err (hrun (class_arr2 nbo is_kernel sc_read) steps (@mkhst O _ _ a a true flip fs)) = true ->
       hrun (class_arr2 nbo is_kernel sc_read) steps (@mkhst O _ _ a a true flip fs)
       = hrun (class_log2 mask sc is_kernel sc_read) steps (@mkhst O _ _ (zero_fill mask vals) (zero_fill mask vals) true flip fs)).
  Proof.
    intros H. destruct (sarr_init_logical nbo vals mask sc sn H) as [a [E Hr]]. exists a. split; [exact E|].
    intros Hne. apply (hrun_sim _ _ _ (arr2_sim nbo is_kernel mask sc sc_read)); [|exact Hne].
    unfold st_rel. cbn. auto.
  Qed.
End Arr2.

(* ================================================================== (3) the FITS routes on the logical content *)
Section Log2.
  Context {O : NumOps} (L : lawful O).
  Local Notation V := (T O).
  Implicit Types (g : list (list V)) (mask : list (list bool)) (sc sc_read : V * V).

  (* hdu_for_output -> from_primary_hdu returns the content, an all-False mask and the scales decoded from the cards *)
  Theorem log2_hdu_roundtrip mask sc is_kernel sc_read flip g :
    exists h, h_hdu _ _ _ (class_log2 mask sc is_kernel sc_read) flip g = FOk h
      /\ hdata h = (if flip then rev g else g)
      /\ h_read_hdu _ _ _ (class_log2 mask sc is_kernel sc_read) flip h = FOk (g, all_false2 g, sc, [], []).
  Proof.
    eexists. split; [reflexivity|]. split; [unfold hdu_for_output_from_2d, flipud; now destruct flip|].
    cbn [h_read_hdu class_log2]. unfold Array2D_from_primary_hdu.
    destruct (flip_unflip flip g (pixel_scale_header (scales2 sc))) as [-> ->].
    destruct sc as [sy sx]. rewrite (pixel_scale_header_roundtrip L). cbn [fbind].
    destruct (Array2D_no_mask_native L g (sy, sx)) as [a [-> [Hn [Hm Hs]]]].
    unfold observe2h_g. cbn [fbind]. now rewrite Hn, Hm, Hs.
  Qed.

  (* output_to_fits -> from_fits on a well-formed tree, target fresh or overwritten, hdu 0 or -1 *)
  Theorem log2_file_roundtrip mask sc is_kernel sc_read flip (fs : fitsfs V (list V)) g p ow k :
    fs_wf fs = true -> target_ok fs p = true -> fresh_or_overwrite fs p ow = true -> sole_index k = true ->
    exists fs' m hs hh,
      h_write _ _ _ (class_log2 mask sc is_kernel sc_read) flip fs g p ow
        = FOk (to_fits fs p ow [hdu_for_output_from_2d flip g (pixel_scale_header (scales2 sc))])
      /\ to_fits fs p ow [hdu_for_output_from_2d flip g (pixel_scale_header (scales2 sc))] = (fs', None)
      /\ h_read_file _ _ _ (class_log2 mask sc is_kernel sc_read) flip fs' p k = FOk (g, m, sc_read, hs, hh)
      /\ pixel_scales_via_header_from hs = FOk sc.
  Proof.
    intros Hwf Hok Hfo Hk.
    destruct (Array2D_no_mask_native L g sc) as [a0 [_ [Hn [_ Hs]]]].
    assert (Hw0 : Array2D_output_to_fits flip fs a0 p ow
                  = to_fits fs p ow [hdu_for_output_from_2d flip g (pixel_scale_header (scales2 sc))]).
    { unfold Array2D_output_to_fits, numpy_array_2d_to_fits. now rewrite Hn, Hs. }
    destruct is_kernel.
    - destruct (Kernel2D_file_roundtrip L flip fs a0 p ow sc_read k Hwf Hok Hfo Hk) as [fs' [a' [hs [hh [Hw [Hr [Hn' [Hs' Hh]]]]]]]].
      exists fs', (a_mask a'), hs, hh. split; [reflexivity|]. split; [now rewrite <- Hw0|]. split.
      + cbn -[Kernel2D_from_fits Array2D_from_fits observe2_g]. rewrite Hr. unfold observe2_g. cbn [fbind]. now rewrite Hn', Hn, Hs'.
      + now rewrite Hh, Hs.
    - destruct (Array2D_file_roundtrip L flip fs a0 p ow sc_read k Hwf Hok Hfo Hk) as [fs' [a' [hs [hh [Hw [Hr [Hn' [Hm' [Hs' [Hh _]]]]]]]]]].
      exists fs', (a_mask a'), hs, hh. split; [reflexivity|]. split; [now rewrite <- Hw0|]. split.
      + cbn -[Kernel2D_from_fits Array2D_from_fits observe2_g]. rewrite Hr. unfold observe2_g. cbn [fbind]. now rewrite Hn', Hn, Hs'.
      + now rewrite Hh, Hs.
  Qed.

  (* every logical step keeps the masked pixels at zero *)
  Lemma set_unmasked_row_zero (m : list bool) : forall (r : list V) k v, zero_fill_row m r = r -> zero_fill_row m (set_unmasked_row m r k v) = set_unmasked_row m r k v.
  Proof.
    unfold zero_fill_row. induction m as [|b m IH]; intros [|x r] k v H; try reflexivity; try (cbn in H; discriminate).
    cbn [map2] in H. injection H as H1 H2. cbn [set_unmasked_row]. destruct b.
    - cbn [map2]. rewrite IH by exact H2. now rewrite H1.
    - destruct k; cbn [map2]; [now rewrite H2|now rewrite IH].
  Qed.
  Lemma set_unmasked_zero mask : forall g k v, zero_fill mask g = g -> zero_fill mask (set_unmasked mask g k v) = set_unmasked mask g k v.
  Proof.
    unfold zero_fill. induction mask as [|mr m IH]; intros [|r g] k v H; try reflexivity; try (cbn in H; discriminate).
    cbn [map2] in H. injection H as H1 H2. cbn [set_unmasked]. destruct (k <? unmasked_in mr)%nat; cbn [map2].
    - now rewrite set_unmasked_row_zero, H2.
    - now rewrite H1, IH.
  Qed.
End Log2.

(* ================================================================== (4) Array1D: the stored buffer is slim or native by its length *)
Section Arr1.
  Context {O : NumOps} (L : lawful O) (Lz : forall x : T O, mul O x (@zero O) = @zero O).
  Local Notation V := (T O).

  Lemma unmasked_in_le (m : list bool) : (unmasked_in m <= length m)%nat.
  Proof. unfold unmasked_in. induction m as [|b m IH]; cbn; [lia|]. destruct b; cbn; lia. Qed.
  (* a mask without masked pixels *)
  Lemma full_slim_row (m : list bool) : unmasked_in m = length m -> forall v : list V, length v = length m -> slim_row m v = v.
  Proof.
    unfold unmasked_in. induction m as [|b m IH]; intros Hf [|x v] Hl; cbn in Hl; try discriminate; [reflexivity|].
    injection Hl as Hl. pose proof (unmasked_in_le m) as Hle. unfold unmasked_in in Hle.
    destruct b; cbn [filter negb length] in Hf; [lia|]. cbn [slim_row]. f_equal. apply IH; [lia|exact Hl].
  Qed.
  Lemma full_nth (m : list bool) : unmasked_in m = length m -> forall k, (k < length m)%nat -> nth k m true = false.
  Proof.
    unfold unmasked_in. induction m as [|b m IH]; intros Hf k Hk; cbn in Hk; [lia|].
    pose proof (unmasked_in_le m) as Hle. unfold unmasked_in in Hle.
    destruct b; cbn [filter negb length] in Hf; [lia|]. destruct k; [reflexivity|]. cbn [nth]. apply IH; lia.
  Qed.
  Lemma full_set_unmasked_row (m : list bool) : unmasked_in m = length m -> forall (r : list V) k v,
    set_unmasked_row m r k v = if (k <? length m)%nat then upd_at r k (fun _ => v) else r.
  Proof.
    unfold unmasked_in. induction m as [|b m IH]; intros Hf r k v.
    - cbn. now destruct r.
    - pose proof (unmasked_in_le m) as Hle. unfold unmasked_in in Hle.
      destruct b; cbn [filter negb length] in Hf; [lia|]. destruct r as [|x r]; [cbn [set_unmasked_row upd_at]; now destruct (k <? length (false :: m))%nat|].
      cbn [set_unmasked_row]. destruct k; [reflexivity|]. rewrite IH by lia. cbn [upd_at length].
      change (S k <? S (length m))%nat with (k <? length m)%nat. now destruct (k <? length m)%nat.
  Qed.
  Lemma upd_at_beyond {B} (l : list B) : forall k f, (length l <= k)%nat -> upd_at l k f = l.
  Proof. induction l as [|b l IH]; intros [|k] f Hk; cbn in *; try lia; auto. f_equal. apply IH. lia. Qed.

  Lemma zero_fill_row_map (f : V -> V) m (r : list V) : zero_fill_row m (map f r) = zero_fill_row m (map f (zero_fill_row m r)).
  Proof. rewrite !map_as_map2. apply zero_fill_row_zip. Qed.
  Lemma zero_fill_row_len m : forall r : list V, length r = length m -> length (zero_fill_row m r) = length m.
  Proof. intros r H. unfold zero_fill_row. rewrite map2_length; congruence. Qed.

  Definition wf1 (a : @array1d O) : Prop :=
    length (b_vals a) = length (b_mask a) \/ length (b_vals a) = unmasked_in (b_mask a).
  Definition rel1 (mask : list bool) (sc : V) (a : @array1d O) (g : list V) : Prop :=
    wf1 a /\ b_mask a = mask /\ b_scale a = sc /\ Array1D_native a = g.

  Lemma native1_eq (vals : list V) mask :
    convert_array_1d vals mask true
    = if Nat.eqb (length vals) (length mask) then zero_fill_row mask vals else fst (native_row mask vals).
  Proof.
    unfold convert_array_1d. destruct (Nat.eqb (length vals) (length mask)); cbn [Bool.eqb negb]; [|reflexivity].
    apply (maskmul_row L Lz).
  Qed.
  Lemma slim1_eq (vals : list V) mask :
    convert_array_1d vals mask false = if Nat.eqb (length vals) (length mask) then slim_row mask vals else vals.
  Proof. unfold convert_array_1d. now destruct (Nat.eqb (length vals) (length mask)). Qed.
  Lemma native1_len (vals : list V) mask : length vals = length mask \/ length vals = unmasked_in mask ->
    length (convert_array_1d vals mask true) = length mask.
  Proof.
    intros H. rewrite native1_eq. destruct (Nat.eqb (length vals) (length mask)) eqn:E.
    - apply Nat.eqb_eq in E. now apply zero_fill_row_len.
    - apply native_row_fst_len.
  Qed.
  Lemma native1_idem (vals : list V) mask : length vals = length mask \/ length vals = unmasked_in mask ->
    convert_array_1d (convert_array_1d vals mask true) mask true = convert_array_1d vals mask true.
  Proof.
    intros H. rewrite (native1_eq (convert_array_1d vals mask true)), (native1_len vals mask H), Nat.eqb_refl.
    rewrite native1_eq. destruct (Nat.eqb (length vals) (length mask)); [apply zero_fill_row_idem|apply native_row_fst_zero].
  Qed.
  (* an elementwise operation on two buffers of the same (slim or native) length *)
  Lemma native1_zip (f : V -> V -> V) (v1 v2 : list V) mask :
    (length v1 = length mask \/ length v1 = unmasked_in mask) -> length v1 = length v2 ->
    convert_array_1d (map2 f v1 v2) mask true
    = zero_fill_row mask (map2 f (convert_array_1d v1 mask true) (convert_array_1d v2 mask true)).
  Proof.
    intros H Hl. rewrite !native1_eq, map2_length by exact Hl. rewrite <- Hl.
    destruct (Nat.eqb (length v1) (length mask)) eqn:E.
    - apply zero_fill_row_zip.
    - apply Nat.eqb_neq in E. destruct H as [H|H]; [contradiction|].
      rewrite native_row_zip by lia. reflexivity.
  Qed.

  Theorem arr1_sim mask sc sc_read : hsim (class_arr1 sc_read) (class_log1 mask sc sc_read) (rel1 mask sc).
  Proof.
    constructor.
    - intros o a g a' [Hw [Hm [Hs Hl]]] E. cbn in E. injection E as <-. eexists. split; [reflexivity|].
      unfold rel1, wf1, arr1_with, lop1, Array1D_native in *. cbn [b_vals b_mask b_scale]. rewrite map_length.
      repeat split; auto. rewrite <- Hl, <- Hm, map_as_map2, (map_as_map2 _ (convert_array_1d _ _ _)).
      now apply native1_zip.
    - intros b a g r gr a' [Hw [Hm [Hs Hl]]] [Hw' [Hm' [Hs' Hl']]] E. cbn in E.
      destruct (same_len1 (b_vals a) (b_vals r)) eqn:El; [|discriminate]. injection E as <-.
      unfold same_len1 in El. apply Nat.eqb_eq in El.
      eexists. split; [reflexivity|]. unfold rel1, wf1, arr1_with, lbop1, Array1D_native in *. cbn [b_vals b_mask b_scale].
      rewrite map2_length by exact El. repeat split; auto. rewrite <- Hl, <- Hl', Hm', <- Hm. now apply native1_zip.
    - intros a g a' [Hw [Hm [Hs Hl]]] E. cbn in E. injection E as <-. eexists. split; [reflexivity|].
      unfold rel1, wf1, arr1_with, Array1D_native in *. cbn [b_vals b_mask b_scale].
      repeat split; auto; [left; now apply native1_len|rewrite native1_idem by exact Hw; exact Hl].
    - intros a g a' [Hw [Hm [Hs Hl]]] E. cbn in E. injection E as <-. eexists. split; [reflexivity|].
      unfold rel1, wf1, arr1_with, Array1D_native in *. cbn [b_vals b_mask b_scale].
      rewrite !slim1_eq. destruct (Nat.eqb (length (b_vals a)) (length (b_mask a))) eqn:E.
      + apply Nat.eqb_eq in E. repeat split; auto.
        * right. now apply slim_row_len.
        * rewrite <- Hl, !native1_eq, slim_row_len by exact E. rewrite E, Nat.eqb_refl.
          destruct (Nat.eqb (unmasked_in (b_mask a)) (length (b_mask a))) eqn:F.
          -- apply Nat.eqb_eq in F. now rewrite full_slim_row.
          -- rewrite <- (app_nil_r (slim_row _ _)), native_row_slim_row by exact E. reflexivity.
      + repeat split; auto.
    - intros k v a g a' [Hw [Hm [Hs Hl]]] E. cbn in E. unfold arr1_set in E.
      destruct (Nat.eqb (length (b_vals a)) (length (filter negb (b_mask a)))) eqn:E1; [|discriminate].
      destruct (k <? length (b_vals a))%nat eqn:E2; [|discriminate]. injection E as <-.
      apply Nat.eqb_eq in E1. apply Nat.ltb_lt in E2. fold (unmasked_in (b_mask a)) in E1.
      eexists. split; [reflexivity|]. unfold rel1, wf1, arr1_with, lset1_1, Array1D_native in *. cbn [b_vals b_mask b_scale].
      rewrite upd_at_length. repeat split; auto. rewrite <- Hl, <- Hm, !native1_eq, upd_at_length.
      destruct (Nat.eqb (length (b_vals a)) (length (b_mask a))) eqn:F.
      + apply Nat.eqb_eq in F. assert (Hfull : unmasked_in (b_mask a) = length (b_mask a)) by congruence.
        rewrite zero_fill_row_upd, full_nth, full_set_unmasked_row by (auto; lia).
        assert (Hk : (k <? length (b_mask a))%nat = true) by (apply Nat.ltb_lt; lia). now rewrite Hk.
      + rewrite native_row_upd by lia. assert (Hk : (k <? unmasked_in (b_mask a))%nat = true) by (apply Nat.ltb_lt; lia).
        now rewrite Hk.
    - intros y x v a g a' [Hw [Hm [Hs Hl]]] E. cbn in E. destruct y; [|discriminate]. unfold arr1_set in E.
      destruct (Nat.eqb (length (b_vals a)) (length (b_mask a))) eqn:E1; [|discriminate].
      destruct (x <? length (b_vals a))%nat eqn:E2; [|discriminate]. injection E as <-.
      eexists. split; [reflexivity|]. unfold rel1, wf1, arr1_with, lset2_1, Array1D_native in *. cbn [b_vals b_mask b_scale].
      rewrite upd_at_length. repeat split; auto. rewrite <- Hl, <- Hm, !native1_eq, upd_at_length, E1.
      apply zero_fill_row_upd.
    - intros a g n [Hw [Hm [Hs Hl]]] E. cbn in E |- *. congruence.
    - intros flip a g h [Hw [Hm [Hs Hl]]] E. cbn in E |- *. unfold Array1D_hdu_for_output in E. congruence.
    - intros flip fs a g p ow x [Hw [Hm [Hs Hl]]] E. cbn in E |- *. unfold Array1D_output_to_fits in E. congruence.
    - reflexivity.
    - reflexivity.
  Qed.

  Theorem hist1_refines sc_read sn (vals : list V) mask sc flip fs steps : length vals = length mask ->
    let a := mkarr1 (convert_array_1d vals mask sn) mask sc in
    no_err (hrun (class_arr1 sc_read) steps (@mkhst O _ _ a a true flip fs)) = true ->
    hrun (class_arr1 sc_read) steps (@mkhst O _ _ a a true flip fs)
    = hrun (class_log1 mask sc sc_read) steps (@mkhst O _ _ (zero_fill_row mask vals) (zero_fill_row mask vals) true flip fs).
  Proof.
    intros Hl a Hne. apply (hrun_sim _ _ _ (arr1_sim mask sc sc_read)); [|exact Hne].
    assert (Hr : rel1 mask sc a (zero_fill_row mask vals)).
    { unfold rel1, wf1, a, Array1D_native. cbn [b_vals b_mask b_scale]. destruct sn.
      - rewrite native1_idem by (left; exact Hl). rewrite native1_len by (left; exact Hl).
        repeat split; auto. rewrite native1_eq, Hl, Nat.eqb_refl. reflexivity.
      - rewrite !slim1_eq, Hl, Nat.eqb_refl.
        repeat split; auto; [right; now apply slim_row_len|].
        rewrite native1_eq, slim_row_len by exact Hl.
        destruct (Nat.eqb (unmasked_in mask) (length mask)) eqn:F.
        + apply Nat.eqb_eq in F. now rewrite full_slim_row.
        + rewrite <- (app_nil_r (slim_row _ _)), native_row_slim_row by exact Hl. reflexivity. }
    unfold st_rel. cbn. auto.
  Qed.
End Arr1.

(* x * 0 = 0 at the reals *)
Lemma reals_mul_zero : forall x : T ROps, mul ROps x (@zero ROps) = @zero ROps.
Proof. intros x. unfold zero. cbn. apply Rmult_0_r. Qed.

(* ================================================================== phase 3: the READERS are functions of the file alone
   (the cases KRead2 / KRead1 of Model.C16h): whatever wrote the file, whatever was read or written before, and whatever
   the header says, Array2D.from_fits returns the selected HDU's data (turned back when the flag is on), unmasked, with
   the pixel scales of the ARGUMENT, the cards of HDU 0 as header_sci_obj and those of the selected HDU as header_hdu_obj. *)
Section Readers.
  Context {O : NumOps} (L : lawful O).
  Local Notation V := (T O).

  Theorem Array2D_from_fits_of_file flip (fs : fitsfs V (list V)) p sc k hl h h0 :
    lookup (files fs) p = Some hl -> py_nth hl k = Some h -> py_nth hl 0 = Some h0 ->
    exists a, Array2D_from_fits flip fs p sc k = FOk (a, hhdr h0, hhdr h)
      /\ Array2D_native a = flip_hdu_for_ds9 flip (hdata h)
      /\ a_mask a = all_false2 (flip_hdu_for_ds9 flip (hdata h)) /\ a_scales a = sc.
  Proof.
    intros Hf Hk H0.
    destruct (Array2D_no_mask_native L (flip_hdu_for_ds9 flip (hdata h)) sc) as [a [E [H1 [H2 H3]]]].
    exists a. split; [|auto].
    unfold Array2D_from_fits, numpy_array_2d_via_fits_from, header_obj_from, hdu_at, fits_open.
    rewrite Hf. cbn [fbind]. rewrite Hk, H0. cbn [fbind].
    unfold flip_hdu_for_ds9 in E. destruct flip; cbn [fbind]; rewrite E; reflexivity.
  Qed.
  Theorem Array2D_from_fits_no_file flip (fs : fitsfs V (list V)) p sc k :
    lookup (files fs) p = None -> Array2D_from_fits flip fs p sc k = FRaise FileNotFound.
  Proof. intros Hf. unfold Array2D_from_fits, numpy_array_2d_via_fits_from, hdu_at, fits_open. now rewrite Hf. Qed.
  Theorem Array2D_from_fits_bad_index flip (fs : fitsfs V (list V)) p sc k hl :
    lookup (files fs) p = Some hl -> py_nth hl k = None -> Array2D_from_fits flip fs p sc k = FRaise IndexErr.
  Proof. intros Hf Hk. unfold Array2D_from_fits, numpy_array_2d_via_fits_from, hdu_at, fits_open. rewrite Hf. cbn [fbind]. now rewrite Hk. Qed.

  Theorem Array1D_from_fits_of_file (fs : fitsfs V V) p sc k hl h h0 :
    lookup (files fs) p = Some hl -> py_nth hl k = Some h -> py_nth hl 0 = Some h0 ->
    exists a, Array1D_from_fits fs p sc k = FOk (a, hhdr h0, hhdr h)
      /\ Array1D_native a = hdata h /\ b_mask a = all_false1 (hdata h) /\ b_scale a = sc.
  Proof.
    intros Hf Hk H0.
    destruct (Array1D_no_mask_native L (hdata h) sc) as [H1 [H2 H3]].
    exists (Array1D_no_mask (hdata h) sc). split; [|auto].
    unfold Array1D_from_fits, numpy_array_1d_via_fits_from, header_obj_from, hdu_at, fits_open.
    rewrite Hf. cbn [fbind]. rewrite Hk, H0. reflexivity.
  Qed.
End Readers.
