(* C08x -- lemmas about Model/C08x.v.
   Part 1 (every NumOps): the extended-value maps refine the option-valued maps of Model/C08.v and commute with
   the selection of unmasked pixels.  Part 2 (reals, ln slot arbitrary): signal to noise and residual flux fraction
   on EVERY stored pixel; the util-level residual-flux-fraction functions.  Part 3: noise covariance.
   Part 4: the interferometer fit is the real fit on the 2n real components. *)
From Coq Require Import ZArith QArith Reals Lra Lia List Bool Arith.
From PAV Require Import Base.NumOps Base.Res Base.Check Base.Sum Model.C08 Model.C08x Proofs.C08.
Import ListNotations.
Local Open Scope nat_scope.

(* ================================================================== 0. list glue *)
Section Glue.
  Context {A B C D : Type}.
  Lemma map_map2 (g : C -> D) (f : A -> B -> C) l1 : forall l2, map g (map2 f l1 l2) = map2 (fun a b => g (f a b)) l1 l2.
  Proof. induction l1 as [|a l1 IH]; intros [|b l2]; simpl; auto. rewrite IH. reflexivity. Qed.
  Lemma map_map2w (g : C -> D) dflt (f : A -> B -> C) m : forall l1 l2,
    map g (map2w dflt f m l1 l2) = map2w (g dflt) (fun a b => g (f a b)) m l1 l2.
  Proof. induction m as [|b m IH]; intros [|a l1] [|c l2]; simpl; auto. rewrite IH. destruct b; reflexivity. Qed.
  Lemma map2_ext (f g : A -> B -> C) : (forall a b, f a b = g a b) -> forall l1 l2, map2 f l1 l2 = map2 g l1 l2.
  Proof. intros H. induction l1 as [|a l1 IH]; intros [|b l2]; simpl; auto. rewrite H, IH. reflexivity. Qed.
  Lemma map2w_ext dflt (f g : A -> B -> C) : (forall a b, f a b = g a b) ->
    forall m l1 l2, map2w dflt f m l1 l2 = map2w dflt g m l1 l2.
  Proof. intros H. induction m as [|b m IH]; intros [|a l1] [|c l2]; simpl; auto. rewrite H, IH. reflexivity. Qed.
  Lemma map2_app (f : A -> B -> C) l1 : forall l2 l3 l4, length l2 = length l1 ->
    map2 f (l1 ++ l3) (l2 ++ l4) = map2 f l1 l2 ++ map2 f l3 l4.
  Proof. induction l1 as [|a l1 IH]; intros [|b l2] l3 l4 H; simpl in *; try discriminate; auto. rewrite IH by lia. reflexivity. Qed.
  (* a where-masked operation with an all-False mask is the plain operation *)
  Lemma map2w_all_false dflt (f : A -> B -> C) l1 : forall l2, length l2 = length l1 ->
    map2w dflt f (repeat false (length l1)) l1 l2 = map2 f l1 l2.
  Proof. induction l1 as [|a l1 IH]; intros [|b l2] H; simpl in *; try discriminate; auto. rewrite IH by lia. reflexivity. Qed.
End Glue.

Lemma map2_as_map {A B C} (f : A -> B -> C) (da : A) (db : B) l1 l2 : length l2 = length l1 ->
  map2 f l1 l2 = map (fun i => f (nth i l1 da) (nth i l2 db)) (seq 0 (length l1)).
Proof.
  intros H. destruct l1 as [|a0 l1'] eqn:E.
  - destruct l2; reflexivity.
  - rewrite <- E in *. apply (map_seq_ext (f da db)).
    + apply map2_length. exact H.
    + intros i Hi. apply nth_map2; assumption.
Qed.
Lemma count_true_repeat_false n : count_true (repeat false n) = 0.
Proof. unfold count_true. induction n; simpl; auto. Qed.

Definition erase {A} (x : xval A) : option A := match x with XFin a => Some a | _ => None end.

(* ================================================================== 1. every NumOps *)
Section XAny.
  Context {O : NumOps}.
  Implicit Types f : fit (T O).

  Lemma erase_snr (d n : T O) : erase (xclip (xdiv d n)) = snr_elem d n.
  Proof.
    unfold xdiv, snr_elem. destruct (eqb O n zero).
    - destruct (ltb O d zero); [reflexivity|]. destruct (ltb O zero d); reflexivity.
    - reflexivity.
  Qed.
  Lemma erase_div (a b : T O) : erase (xdiv a b) = divopt a b.
  Proof.
    unfold xdiv, divopt. destruct (eqb O b zero); [|reflexivity].
    destruct (ltb O a zero); [reflexivity|]. destruct (ltb O zero a); reflexivity.
  Qed.
  (* forgetting which non-finite value it is gives the maps of Model/C08.v *)
  Theorem snr_x_refines f : map erase (fit_signal_to_noise_map_x f) = fit_signal_to_noise_map f.
  Proof.
    unfold fit_signal_to_noise_map_x, fit_signal_to_noise_map. rewrite map_map, map_map2.
    apply map2_ext. intros d n. apply erase_snr.
  Qed.
  Theorem rff_x_refines f : map erase (fit_residual_flux_fraction_map_x f) = fit_residual_flux_fraction_map f.
  Proof.
    unfold fit_residual_flux_fraction_map_x, fit_residual_flux_fraction_map. destruct (use_mask f).
    - unfold residual_flux_fraction_map_with_mask_from_x, residual_flux_fraction_map_with_mask_from.
      rewrite map_map2w. apply map2w_ext. intros a b. apply erase_div.
    - unfold residual_flux_fraction_map_from_x, residual_flux_fraction_map_from.
      rewrite map_map2. apply map2_ext. intros a b. apply erase_div.
  Qed.
  Theorem util_rff_x_refines (r d : list (T O)) mk :
    map erase (residual_flux_fraction_map_from_x r d) = residual_flux_fraction_map_from r d /\
    map erase (residual_flux_fraction_map_with_mask_from_x r d mk) = residual_flux_fraction_map_with_mask_from r d mk.
  Proof.
    split.
    - unfold residual_flux_fraction_map_from_x, residual_flux_fraction_map_from.
      rewrite map_map2. apply map2_ext. intros a b. apply erase_div.
    - unfold residual_flux_fraction_map_with_mask_from_x, residual_flux_fraction_map_with_mask_from.
      rewrite map_map2w. apply map2w_ext. intros a b. apply erase_div.
  Qed.

  (* masked-native evaluation = slim evaluation of the selected values, also for the extended-value maps *)
  Lemma snr_x_slim f : select (mask f) (fit_signal_to_noise_map_x f) = fit_signal_to_noise_map_x (slim_of f).
  Proof. unfold fit_signal_to_noise_map_x. rewrite select_map, select_map2, data_slim. reflexivity. Qed.
  Lemma rff_x_slim f : use_mask f = true ->
    select (mask f) (fit_residual_flux_fraction_map_x f) = fit_residual_flux_fraction_map_x (slim_of f).
  Proof.
    intros U. unfold fit_residual_flux_fraction_map_x. rewrite U. simpl.
    unfold residual_flux_fraction_map_with_mask_from_x, residual_flux_fraction_map_from_x.
    rewrite select_map2w, residual_slim, data_slim by exact U. reflexivity.
  Qed.
  Theorem x_maps_modes_agree f g :
    (use_mask f = true ->
       select (mask f) (fit_signal_to_noise_map_x f) = fit_signal_to_noise_map_x (slim_of f) /\
       select (mask f) (fit_residual_flux_fraction_map_x f) = fit_residual_flux_fraction_map_x (slim_of f)) /\
    (agree_on_unmasked f g ->
       select (mask f) (fit_signal_to_noise_map_x f) = select (mask f) (fit_signal_to_noise_map_x g) /\
       select (mask f) (fit_residual_flux_fraction_map_x f) = select (mask f) (fit_residual_flux_fraction_map_x g)).
  Proof.
    split.
    - intros U. split; [apply snr_x_slim | apply rff_x_slim; exact U].
    - intros (HM & Uf & Ug & HS & HI & HD & HN & HMo).
      assert (E : slim_of f = slim_of g).
      { unfold slim_of. rewrite <- HM, HS, HI, HD, HN, HMo. reflexivity. }
      rewrite HM at 2 4. rewrite (snr_x_slim f), (snr_x_slim g), (rff_x_slim f Uf), (rff_x_slim g Ug), E. split; reflexivity.
  Qed.

  (* the composition layer of Model/C08.v is the generic one *)
  Lemma fit_composition_generic (tp : T O) f :
    fit_log_likelihood tp f = ll_from (fit_chi_squared f) (fit_noise_normalization tp f) /\
    fit_log_likelihood_with_regularization tp f = llreg_from (fit_chi_squared f) (fit_noise_normalization tp f) (inversion f) /\
    fit_log_evidence tp f = evidence_from (fit_chi_squared f) (fit_noise_normalization tp f) (inversion f) /\
    fit_figure_of_merit tp f = fom_from (fit_chi_squared f) (fit_noise_normalization tp f) (inversion f) /\
    fit_reduced_chi_squared f = redchi_from (fit_chi_squared f) (length (mask f) - count_true (mask f)).
  Proof.
    unfold fit_figure_of_merit, fit_log_evidence, fit_log_likelihood_with_regularization, fit_log_likelihood,
      fom_from, evidence_from, llreg_from, ll_from, fit_reduced_chi_squared, redchi_from.
    destruct (inversion f); repeat split; reflexivity.
  Qed.
End XAny.

(* ================================================================== 2. reals: the maps on every stored pixel *)
Local Open Scope R_scope.
Section XR.
  Variable lnf : R -> R.
  Notation O := (RL lnf).
  Variable tp : T O.
  Implicit Types f : fit (T O).

  Lemma snr_point (d n : R) : @xclip O (@xdiv O d n) = @s_snr_x O d n.
  Proof.
    unfold xclip, xdiv, s_snr_x, maxT. rops.
    destruct (Reqb n 0) eqn:E0.
    - destruct (Rltb d 0) eqn:E1, (Rltb 0 d) eqn:E2; rbool; try reflexivity; exfalso; lra.
    - destruct (Rltb (d / n) 0) eqn:E1, (Rltb 0 (d / n)) eqn:E2; rbool; try reflexivity; try (exfalso; lra).
      f_equal. lra.
  Qed.
  Lemma quot_point (r d : R) : @xdiv O r d = @s_quot_x O r d.
  Proof.
    unfold xdiv, s_quot_x. rops. destruct (Reqb d 0); [|reflexivity].
    destruct (Rltb r 0) eqn:E1, (Rltb 0 r) eqn:E2; rbool; try reflexivity; exfalso; lra.
  Qed.

  Lemma snr_x_length f : fit_okb f = true -> length (fit_signal_to_noise_map_x f) = length (data f).
  Proof.
    intros H. destruct (okb_lengths lnf f H) as (HN & _). pose proof (fit_data_length lnf f) as HD.
    unfold fit_signal_to_noise_map_x. rewrite map_length, map2_length. all: rlia.
  Qed.
  (* signal to noise on EVERY stored pixel: masked or not, whatever the sign of the noise value *)
  Lemma snr_x_nth f i : fit_okb f = true -> (i < length (data f))%nat ->
    nth i (fit_signal_to_noise_map_x f) XNaN = s_snr_x (s_data f i) (at_ (noise f) i).
  Proof.
    intros H Hi. destruct (okb_lengths lnf f H) as (HN & _). pose proof (fit_data_length lnf f) as HD.
    pose proof (fit_data_nth lnf f i Hi) as DN. unfold fit_signal_to_noise_map_x, at_.
    rewrite (nth_map_in _ XNaN) by (rewrite map2_length; rlia).
    rw (nth_map2 (@xdiv O) XNaN 0 0); try rlia. tR. rewrite DN. apply snr_point.
  Qed.
  Lemma rff_x_length f : fit_okb f = true -> length (fit_residual_flux_fraction_map_x f) = length (data f).
  Proof.
    intros H. destruct (okb_lengths lnf f H) as (HN & HM & HK & _). pose proof (residual_length lnf f H) as HR.
    pose proof (fit_data_length lnf f) as HD.
    unfold fit_residual_flux_fraction_map_x. destruct (use_mask f) eqn:U.
    - unfold residual_flux_fraction_map_with_mask_from_x. rewrite map2w_length; specialize (HK eq_refl); rlia.
    - unfold residual_flux_fraction_map_from_x. rewrite map2_length; rlia.
  Qed.
  Lemma rff_x_nth f i : fit_okb f = true -> (i < length (data f))%nat ->
    nth i (fit_residual_flux_fraction_map_x f) XNaN =
    if excluded f i then XFin 0 else s_quot_x (s_residual f i) (s_data f i).
  Proof.
    intros H Hi. destruct (okb_lengths lnf f H) as (HN & HM & HK & _). pose proof (residual_length lnf f H) as HR.
    pose proof (fit_data_length lnf f) as HD. pose proof (fit_data_nth lnf f i Hi) as DN.
    pose proof (residual_nth lnf f i H Hi) as RN. unfold fit_residual_flux_fraction_map_x.
    unfold excluded in *. destruct (use_mask f) eqn:U; cbn [andb] in *.
    - unfold residual_flux_fraction_map_with_mask_from_x. specialize (HK eq_refl).
      rw (nth_map2w (XFin (@zero O)) (@xdiv O) XNaN 0 0); try rlia. tR. rewrite RN, DN.
      destruct (nth i (mask f) true); [reflexivity | apply quot_point].
    - unfold residual_flux_fraction_map_from_x. rw (nth_map2 (@xdiv O) XNaN 0 0); try rlia. tR. rewrite RN, DN.
      apply quot_point.
  Qed.

  (* ---- the util-level residual-flux-fraction functions of fit_util.py *)
  Lemma util_rff_x (r d : list R) (mk : list bool) : length d = length r -> length mk = length r ->
    length (@residual_flux_fraction_map_from_x O r d) = length r /\
    length (@residual_flux_fraction_map_with_mask_from_x O r d mk) = length r /\
    forall i, (i < length r)%nat ->
      nth i (@residual_flux_fraction_map_from_x O r d) XNaN = @s_quot_x O (nth i r 0) (nth i d 0) /\
      nth i (@residual_flux_fraction_map_with_mask_from_x O r d mk) XNaN =
        if nth i mk true then XFin 0 else @s_quot_x O (nth i r 0) (nth i d 0).
  Proof.
    intros Hd Hm. unfold residual_flux_fraction_map_from_x, residual_flux_fraction_map_with_mask_from_x.
    split; [apply map2_length; exact Hd|]. split; [rewrite map2w_length; rlia|].
    intros i Hi. split.
    - rw (nth_map2 (@xdiv O) XNaN 0 0 r d i Hi Hd). apply quot_point.
    - rw (nth_map2w (XFin (@zero O)) (@xdiv O) XNaN 0 0 mk r d i); try lia.
      destruct (nth i mk true); [reflexivity | apply quot_point].
  Qed.
  Lemma util_rff_opt (r d : list R) (mk : list bool) : length d = length r -> length mk = length r ->
    forall i, (i < length r)%nat ->
      nth i (@residual_flux_fraction_map_from O r d) None = (if Reqb (nth i d 0) 0 then None else Some (nth i r 0 / nth i d 0)) /\
      nth i (@residual_flux_fraction_map_with_mask_from O r d mk) None =
        if nth i mk true then Some 0 else if Reqb (nth i d 0) 0 then None else Some (nth i r 0 / nth i d 0).
  Proof.
    intros Hd Hm i Hi. unfold residual_flux_fraction_map_from, residual_flux_fraction_map_with_mask_from. split.
    - rw (nth_map2 (@divopt O) None 0 0 r d i Hi Hd). unfold divopt. rops. reflexivity.
    - rw (nth_map2w (Some (@zero O)) (@divopt O) None 0 0 mk r d i); try lia.
      destruct (nth i mk true); [reflexivity|]. unfold divopt. rops. reflexivity.
  Qed.
End XR.

(* ================================================================== 3. composition on a given chi-squared; noise covariance *)
Lemma seq_add_map n m : seq n m = map (Nat.add n) (seq 0 m).
Proof.
  revert n. induction m as [|m IH]; intros n; [reflexivity|]. simpl. rewrite Nat.add_0_r. f_equal.
  rewrite (IH (S n)), (IH 1%nat), map_map. apply map_ext. intros k. lia.
Qed.
Lemma sum_delta n i (g : nat -> R) : (i < n)%nat ->
  sumR (map (fun k => (if Nat.eqb i k then 1 else 0) * g k) (seq 0 n)) = g i.
Proof.
  intros Hi.
  rewrite (sumR_map_ext _ (fun k => if Nat.eqb k i then g k else 0)).
  - rewrite (sumR_indicator Nat.eqb g i (seq 0 n) Nat.eqb_eq (seq_NoDup n 0)).
    assert (E : existsb (fun s => Nat.eqb s i) (seq 0 n) = true).
    { apply existsb_exists. exists i. split; [apply in_seq; lia | apply Nat.eqb_refl]. }
    rewrite E. reflexivity.
  - intros k _. rewrite (Nat.eqb_sym i k). destruct (Nat.eqb k i); lra.
Qed.

Section CompR.
  Variable lnf : R -> R.
  Notation O := (RL lnf).
  Variable tp : T O.
  Implicit Types (f : fit (T O)) (iv : inv (T O)).

  Lemma ll_from_spec (chi nn : R) : @ll_from O chi nn = @s_ll_of O chi nn.
  Proof. unfold ll_from, s_ll_of, log_likelihood_from. rops. lra. Qed.
  Lemma llreg_from_spec (chi nn : R) iv : inv_okb iv = true ->
    @llreg_from O chi nn (Some iv) = Some (@s_llreg_of O chi nn iv).
  Proof.
    intros HV. unfold llreg_from, s_llreg_of, log_likelihood_with_regularization_from. f_equal.
    rewrite (regularization_term_is_spec lnf iv HV). rops. lra.
  Qed.
  Lemma evidence_from_spec (chi nn : R) iv : inv_okb iv = true ->
    @evidence_from O chi nn (Some iv) = Some (@s_evidence_of O chi nn iv).
  Proof.
    intros HV. unfold evidence_from, s_evidence_of, s_ll_of, log_evidence_from. f_equal.
    destruct (log_det_terms_are_restricted iv HV) as [E1 E2]. rewrite E1, E2.
    destruct (has_reg (objs iv)) eqn:G.
    - rewrite (regularization_term_is_spec lnf iv HV). rops. lra.
    - unfold regularization_term. rewrite G. cbn [negb]. rops. lra.
  Qed.
  Lemma fom_from_spec (chi nn : R) (ivo : option (inv (T O))) :
    match ivo with Some iv => inv_okb iv = true | None => True end ->
    @fom_from O chi nn ivo = Some (@s_fom_of O chi nn ivo).
  Proof.
    unfold fom_from, s_fom_of. destruct ivo as [iv|]; intros HV.
    - apply evidence_from_spec. exact HV.
    - rewrite ll_from_spec. reflexivity.
  Qed.
  Lemma redchi_from_spec (chi : R) (n : nat) :
    @redchi_from O chi n = if Nat.eqb n 0 then Raise OtherException else Ok (chi / INR n).
  Proof. unfold redchi_from. destruct (Nat.eqb n 0); [reflexivity|]. rops. rewrite <- INR_IZR_INZ. reflexivity. Qed.

  (* ---- a @ b as an indexed sum *)
  Lemma dotT_as_sum (a b : list R) : length b = length a ->
    @dotT O a b = sumR (map (fun i => nth i a 0 * nth i b 0) (seq 0 (length a))).
  Proof.
    intros H. unfold dotT. rw (map2_as_map (mul O) (0 : T O) (0 : T O) a b H). rw (sumT_RL lnf). rops. reflexivity.
  Qed.
  Lemma ncols_square n (M : list (list R)) : squareb n M = true -> @ncols O M = n.
  Proof.
    intros HS. destruct (squareb_spec (O := O) n M HS) as [HL HR]. unfold ncols. destruct M as [|r M]; [exact HL|].
    simpl in HL. specialize (HR 0%nat ltac:(lia)). exact HR.
  Qed.
  Lemma col_nth (M : list (list R)) i j : (i < length M)%nat -> nth i (@col O M j) 0 = @mat_at O M i j.
  Proof. intros Hi. unfold col, mat_at. rw (nth_map_in (fun row : list R => nth j row (@zero O)) [] 0 M i Hi). reflexivity. Qed.
  Lemma vecmat_nth (r : list R) (M : list (list R)) j : squareb (length r) M = true -> (j < length r)%nat ->
    nth j (@vecmat O r M) 0 = sumR (map (fun i => nth i r 0 * @mat_at O M i j) (seq 0 (length r))).
  Proof.
    intros HS Hj. destruct (squareb_spec (O := O) _ M HS) as [HL HR]. unfold vecmat. rewrite (ncols_square _ M HS).
    rw (nth_map_in (fun j => @dotT O r (@col O M j)) 0%nat 0 (seq 0 (length r)) j ltac:(rewrite seq_length; exact Hj)).
    rewrite seq_nth by exact Hj. cbn [Nat.add].
    rewrite dotT_as_sum by (unfold col; rewrite map_length; exact HL).
    apply sumR_map_ext. intros i Hin. apply in_seq in Hin. rewrite col_nth by lia. reflexivity.
  Qed.
  Lemma vecmat_length (r : list R) (M : list (list R)) : squareb (length r) M = true -> length (@vecmat O r M) = length r.
  Proof. intros HS. unfold vecmat. rewrite map_length, seq_length. apply ncols_square. exact HS. Qed.

  (* residual @ C_inv @ residual is the quadratic form *)
  Theorem cov_quadratic_form (r : list R) (Ci : list (list R)) : squareb (length r) Ci = true ->
    @chi_squared_with_noise_covariance_from O r Ci = @s_quadratic_form O r Ci.
  Proof.
    intros HS. unfold chi_squared_with_noise_covariance_from, s_quadratic_form.
    rewrite dotT_as_sum by (symmetry; apply vecmat_length; exact HS). rw (vecmat_length r Ci HS).
    rw (sumT_RL lnf).
    transitivity (sumR (map (fun j => sumR (map (fun i => nth i r 0 * @mat_at O Ci i j * nth j r 0) (seq 0 (length r)))) (seq 0 (length r)))).
    - apply sumR_map_ext. intros j Hj. apply in_seq in Hj. rw (vecmat_nth r Ci j HS ltac:(lia)).
      rewrite Rmult_comm, <- sumR_map_scal. apply sumR_map_ext. intros i _. ring.
    - rewrite sumR_swap. apply sumR_map_ext. intros i _. tR. rewrite (sumT_RL lnf). unfold at_. rops. reflexivity.
  Qed.

  (* with C_inv a (left) inverse of C and C x = r:  r^T C_inv r = r . x  -- i.e. chi-squared = r^T C^-1 r *)
  Theorem cov_is_inverse_form (r x : list R) (C Ci : list (list R)) :
    squareb (length r) Ci = true -> length x = length r ->
    (forall i k, (i < length r)%nat -> (k < length r)%nat ->
       @s_matmul_at O (length r) Ci C i k = if Nat.eqb i k then 1 else 0) ->
    (forall j, (j < length r)%nat -> @s_matvec_at O C x j = @at_ O r j) ->
    @chi_squared_with_noise_covariance_from O r Ci = @s_dot O r x.
  Proof.
    intros HS HX HI HC. rewrite (cov_quadratic_form r Ci HS). unfold s_quadratic_form, s_dot. tR. rewrite !(sumT_RL lnf).
    apply sumR_map_ext. intros i Hi. apply in_seq in Hi. tR. rewrite (sumT_RL lnf).
    set (n := length r) in *.
    transitivity (@at_ O r i * sumR (map (fun j => @mat_at O Ci i j * @at_ O r j) (seq 0 n))).
    { rewrite <- sumR_map_scal. apply sumR_map_ext. intros j _. rops. ring. }
    rops. f_equal.
    (* sum_j Ci_ij r_j = sum_j Ci_ij sum_k C_jk x_k = sum_k (sum_j Ci_ij C_jk) x_k = x_i *)
    transitivity (sumR (map (fun j => sumR (map (fun k => @mat_at O Ci i j * @mat_at O C j k * @at_ O x k) (seq 0 n))) (seq 0 n))).
    { apply sumR_map_ext. intros j Hj. apply in_seq in Hj. rewrite <- (HC j ltac:(lia)). unfold s_matvec_at. tR. rewrite HX. fold n.
      rewrite (sumT_RL lnf), <- sumR_map_scal. apply sumR_map_ext. intros k _. rops. ring. }
    rewrite sumR_swap.
    transitivity (sumR (map (fun k => (if Nat.eqb i k then 1 else 0) * @at_ O x k) (seq 0 n))).
    { apply sumR_map_ext. intros k Hk. apply in_seq in Hk. rewrite <- (HI i k ltac:(lia) ltac:(lia)). unfold s_matmul_at.
      tR. rewrite (sumT_RL lnf), Rmult_comm, <- sumR_map_scal. apply sumR_map_ext. intros j _. rops. ring. }
    apply (sum_delta n i (fun k => @at_ O x k)). lia.
  Qed.

  (* uncorrelated noise: with C_inv = diag(1 / noise^2) the covariance chi-squared is the ordinary one *)
  Theorem cov_diagonal_is_plain (r nz : list R) (Ci : list (list R)) :
    squareb (length r) Ci = true -> length nz = length r ->
    (forall i, (i < length r)%nat -> nth i nz 0 <> 0) ->
    (forall i j, (i < length r)%nat -> (j < length r)%nat ->
       @mat_at O Ci i j = if Nat.eqb i j then / (nth i nz 0 * nth i nz 0) else 0) ->
    @chi_squared_with_noise_covariance_from O r Ci = @chi_squared_from O (@chi_squared_map_from O r nz).
  Proof.
    intros HS HN HP HD. rewrite (cov_quadratic_form r Ci HS).
    unfold s_quadratic_form, chi_squared_from, chi_squared_map_from.
    rw (map2_as_map (div O) (0 : T O) (0 : T O) r nz HN). rewrite map_map, !(sumT_RL lnf).
    apply sumR_map_ext. intros i Hi. apply in_seq in Hi. tR. rewrite (sumT_RL lnf).
    set (n := length r) in *.
    transitivity (sumR (map (fun j => (if Nat.eqb i j then 1 else 0) * (nth i r 0 * / (nth i nz 0 * nth i nz 0) * nth j r 0)) (seq 0 n))).
    { apply sumR_map_ext. intros j Hj. apply in_seq in Hj. rewrite (HD i j ltac:(lia) ltac:(lia)). unfold at_. rops.
      destruct (Nat.eqb i j); ring. }
    rewrite (sum_delta n i (fun j => nth i r 0 * / (nth i nz 0 * nth i nz 0) * nth j r 0)) by lia.
    rops. specialize (HP i ltac:(lia)). field. exact HP.
  Qed.

  (* ---- FitDataset with a noise covariance matrix *)
  Lemma cfit_okb_parts f (Ci : list (list R)) : @cfit_okb O f Ci = true ->
    fit_okb f = true /\ use_mask f = false /\ squareb (length (data f)) Ci = true.
  Proof.
    unfold cfit_okb. intros H. apply andb_prop in H as [H H3]. apply andb_prop in H as [H1 H2].
    apply negb_true_iff in H2. auto.
  Qed.
  Lemma slim_residual_map f : fit_okb f = true -> use_mask f = false ->
    fit_residual_map f = map (s_residual f) (seq 0 (length (data f))).
  Proof.
    intros H U. apply (map_seq_ext (0 : T O)); [apply (residual_length lnf f H)|].
    intros i Hi. rw (residual_nth lnf f i H Hi). unfold excluded. tR. rewrite U. reflexivity.
  Qed.
  Theorem cfit_chi_squared_is_spec f (Ci : list (list R)) : @cfit_okb O f Ci = true ->
    @cfit_chi_squared O f Ci = @s_chi_squared_cov O f Ci.
  Proof.
    intros H. destruct (cfit_okb_parts f Ci H) as (HF & U & HS). unfold cfit_chi_squared, s_chi_squared_cov.
    rewrite (slim_residual_map f HF U). apply cov_quadratic_form. rewrite map_length, seq_length. exact HS.
  Qed.
  Theorem cfit_statistics f (Ci : list (list R)) : @cfit_okb O f Ci = true -> noise_positiveb f = true -> fit_inv_okb f = true ->
    let chi := @s_chi_squared_cov O f Ci in
    let nn := s_noise_normalization tp f in
    @cfit_chi_squared O f Ci = chi /\
    @cfit_reduced_chi_squared O f Ci = (if Nat.eqb (length (data f)) 0 then Raise OtherException else Ok (chi / INR (length (data f)))) /\
    @cfit_log_likelihood O tp f Ci = @s_ll_of O chi nn /\
    @cfit_log_likelihood_with_regularization O tp f Ci = option_map (@s_llreg_of O chi nn) (inversion f) /\
    @cfit_log_evidence O tp f Ci = option_map (@s_evidence_of O chi nn) (inversion f) /\
    @cfit_figure_of_merit O tp f Ci = Some (@s_fom_of O chi nn (inversion f)).
  Proof.
    intros H _ HV. cbv zeta. destruct (cfit_okb_parts f Ci H) as (HF & U & HS).
    destruct (okb_lengths lnf f HF) as (_ & _ & _ & HK). specialize (HK U).
    unfold cfit_reduced_chi_squared, cfit_log_likelihood, cfit_log_likelihood_with_regularization, cfit_log_evidence,
      cfit_figure_of_merit, cfit_npix.
    rewrite (cfit_chi_squared_is_spec f Ci H), (noise_normalization_is_spec lnf tp f HF), HK.
    unfold fit_inv_okb in HV.
    split; [reflexivity|]. split; [apply redchi_from_spec|]. split; [apply ll_from_spec|].
    destruct (inversion f) as [iv|]; cbn [option_map].
    - split; [apply llreg_from_spec; exact HV|]. split; [apply evidence_from_spec; exact HV|]. apply (fom_from_spec _ _ (Some iv)). exact HV.
    - split; [reflexivity|]. split; [reflexivity|]. apply (fom_from_spec _ _ None). exact I.
  Qed.
End CompR.

(* ================================================================== 4. interferometer *)
Ltac vlia := unfold cx in *; tR; lia.
Tactic Notation "vrw" uconstr(L) := let X := fresh "X" in epose proof L as X; unfold cx in *; tR; rewrite X; clear X.
Section VisR.
  Variable lnf : R -> R.
  Notation O := (RL lnf).
  Variable tp : T O.
  Implicit Types (v : vfit (T O)).

  Lemma vfit_okb_lengths v : vfit_okb v = true ->
    length (vnoise v) = length (vdata v) /\ length (vmodel v) = length (vdata v).
  Proof. unfold vfit_okb. intros H. apply andb_prop in H as [H1 H2]. apply Nat.eqb_eq in H1, H2. auto. Qed.

  (* use_mask_in_fit plays no role: the mask of an interferometer fit is all False *)
  Lemma vfit_residual_plain v : vfit_okb v = true -> vfit_residual_map v = map2 (@csub O) (vdata v) (vmodel v).
  Proof.
    intros H. destruct (vfit_okb_lengths v H) as [_ HM]. unfold vfit_residual_map, vfit_mask.
    destruct (vuse_mask v); [|reflexivity]. apply map2w_all_false. exact HM.
  Qed.
  Lemma vfit_residual_nth v k : vfit_okb v = true -> (k < length (vdata v))%nat ->
    nth k (vfit_residual_map v) (0, 0) = sv_residual v k.
  Proof.
    intros H Hk. destruct (vfit_okb_lengths v H) as [_ HM]. rewrite (vfit_residual_plain v H).
    vrw (nth_map2 (@csub O) ((0, 0) : T O * T O) ((0, 0) : T O * T O) ((0, 0) : T O * T O) (vdata v) (vmodel v) k Hk HM).
    reflexivity.
  Qed.
  Lemma vfit_residual_length v : vfit_okb v = true -> length (vfit_residual_map v) = length (vdata v).
  Proof.
    intros H. destruct (vfit_okb_lengths v H) as [_ HM]. rewrite (vfit_residual_plain v H). apply map2_length. exact HM.
  Qed.
  Lemma vfit_normres_nth v k : vfit_okb v = true -> (k < length (vdata v))%nat ->
    length (vfit_normalized_residual_map v) = length (vdata v) /\
    nth k (vfit_normalized_residual_map v) (0, 0) = sv_normres v k.
  Proof.
    intros H Hk. destruct (vfit_okb_lengths v H) as [HN _]. pose proof (vfit_residual_length v H) as HR.
    unfold vfit_normalized_residual_map, normalized_residual_map_complex_from. split; [rewrite map2_length; vlia|].
    vrw (nth_map2 (fun a b : T O * T O => (div O (fst a) (fst b), div O (snd a) (snd b)))
                 ((0, 0) : T O * T O) ((0, 0) : T O * T O) ((0, 0) : T O * T O) (vfit_residual_map v) (vnoise v) k);
      try vlia.
    - vrw (vfit_residual_nth v k H Hk). unfold sv_normres, vre, vim. rops. f_equal; unfold Rdiv; rewrite ?Rmult_0_l; reflexivity.
  Qed.
  Lemma vfit_chimap_nth v k : vfit_okb v = true -> (k < length (vdata v))%nat ->
    length (vfit_chi_squared_map v) = length (vdata v) /\
    nth k (vfit_chi_squared_map v) (0, 0) = sv_chi v k.
  Proof.
    intros H Hk. destruct (vfit_okb_lengths v H) as [HN _]. pose proof (vfit_residual_length v H) as HR.
    unfold vfit_chi_squared_map, chi_squared_map_complex_from. split; [rewrite map2_length; vlia|].
    vrw (nth_map2 (fun a b : T O * T O => (sq (div O (fst a) (fst b)), sq (div O (snd a) (snd b))))
                 ((0, 0) : T O * T O) ((0, 0) : T O * T O) ((0, 0) : T O * T O) (vfit_residual_map v) (vnoise v) k);
      try vlia.
    - vrw (vfit_residual_nth v k H Hk). unfold sv_chi, sv_normres, vre, vim. rops. f_equal; unfold Rdiv; rewrite ?Rmult_0_l; reflexivity.
  Qed.

  (* ---- chi-squared and noise normalization: sums over the visibilities of the real and the imaginary term *)
  Lemma pairs_as_map (l : list (R * R)) : l = map (fun k => (@vre O l k, @vim O l k)) (seq 0 (length l)).
  Proof.
    rewrite (list_as_map ((0, 0) : R * R) l) at 1. apply map_ext. intros k. unfold vre, vim. rops.
    destruct (nth k l (0, 0)); reflexivity.
  Qed.
  Lemma vfit_chimap_as_map v : vfit_okb v = true -> vfit_chi_squared_map v = map (sv_chi v) (seq 0 (length (vdata v))).
  Proof.
    intros H. destruct (length (vdata v)) as [|n0] eqn:E.
    - destruct (vfit_okb_lengths v H) as [HN _]. pose proof (vfit_residual_length v H) as HR.
      unfold vfit_chi_squared_map, chi_squared_map_complex_from.
      destruct (vfit_residual_map v); [reflexivity | simpl in HR; vlia].
    - rewrite <- E. apply (map_seq_ext ((0, 0) : T O * T O)).
      + apply (vfit_chimap_nth v 0%nat H). lia.
      + intros k Hk. apply (vfit_chimap_nth v k H Hk).
  Qed.
  Theorem vfit_chi_squared_is_spec v : vfit_okb v = true -> vfit_chi_squared v = sv_chi_squared v.
  Proof.
    intros H. unfold vfit_chi_squared, chi_squared_complex_from, sv_chi_squared.
    rewrite (vfit_chimap_as_map v H), !map_map. tR. rewrite !(sumT_RL lnf). rops. rewrite <- sumR_map_add. reflexivity.
  Qed.
  Theorem vfit_noise_normalization_is_spec v : vfit_okb v = true -> vfit_noise_normalization tp v = sv_noise_normalization tp v.
  Proof.
    intros H. destruct (vfit_okb_lengths v H) as [HN _].
    unfold vfit_noise_normalization, noise_normalization_complex_from, sv_noise_normalization.
    rewrite (pairs_as_map (vnoise v)) at 1 2. tR. rewrite HN, !map_map. cbn [fst snd]. rewrite !(sumT_RL lnf). rops.
    rewrite <- sumR_map_add. reflexivity.
  Qed.

  (* ---- the same numbers as the REAL fit on the 2 n components (all real parts, then all imaginary parts) *)
  Lemma components_length (l : list (R * R)) : length (@components O l) = (2 * length l)%nat.
  Proof. unfold components. rewrite app_length, !map_length. rlia. Qed.
  Lemma components_nth (l : list (R * R)) k : (k < length l)%nat ->
    @at_ O (@components O l) k = @vre O l k /\ @at_ O (@components O l) (length l + k) = @vim O l k.
  Proof.
    intros Hk. unfold at_, components, vre, vim. rops. split.
    - rewrite app_nth1 by (rewrite map_length; exact Hk). rw (nth_map_in (@fst R R) ((0, 0) : R * R) 0 l k Hk). reflexivity.
    - rewrite app_nth2 by (rewrite map_length; lia). rewrite map_length. replace (length l + k - length l)%nat with k by lia.
      rw (nth_map_in (@snd R R) ((0, 0) : R * R) 0 l k Hk). reflexivity.
  Qed.
  Lemma real_fit_okb v : vfit_okb v = true -> fit_okb (real_fit_of v) = true.
  Proof.
    intros H. destruct (vfit_okb_lengths v H) as [HN HM]. unfold fit_okb, real_fit_of. cbn [use_mask data noise model mask].
    rewrite !components_length, repeat_length, count_true_repeat_false. tR. rewrite HN, HM, Nat.sub_0_r, !Nat.eqb_refl. reflexivity.
  Qed.
  Lemma sum_over_components v (g : nat -> R) (n := length (vdata v)) :
    sumR (map g (seq 0 (2 * n))) = sumR (map (fun k => g k + g (n + k)%nat) (seq 0 n)).
  Proof.
    replace (2 * n)%nat with (n + n)%nat by lia. rewrite seq_app, map_app, sumR_app. cbn [Nat.add].
    rewrite (seq_add_map n n), map_map, <- sumR_map_add. reflexivity.
  Qed.
  Theorem vfit_is_real_fit_chi2 v : vfit_okb v = true -> vfit_chi_squared v = fit_chi_squared (real_fit_of v).
  Proof.
    intros H. destruct (vfit_okb_lengths v H) as [HN HM].
    rewrite (chi_squared_is_spec lnf _ (real_fit_okb v H)), (vfit_chi_squared_is_spec v H).
    unfold s_chi_squared, sv_chi_squared, fit_pixels. cbn [use_mask real_fit_of data]. tR. rewrite !(sumT_RL lnf).
    rewrite components_length, (sum_over_components v). apply sumR_map_ext. intros k Hk. apply in_seq in Hk.
    unfold s_chi, s_normres, s_residual, s_data, sv_chi, sv_normres, sv_residual. cbn [real_fit_of data noise model sky fst snd].
    destruct (components_nth (vdata v) k ltac:(tR; lia)) as [D1 D2]. destruct (components_nth (vmodel v) k ltac:(tR; lia)) as [M1 M2].
    destruct (components_nth (vnoise v) k ltac:(tR; lia)) as [N1 N2]. tR. rewrite HM in M2. rewrite HN in N2.
    rewrite D1, D2, M1, M2, N1, N2. rops. unfold Rdiv. ring.
  Qed.
  Theorem vfit_is_real_fit_nn v : vfit_okb v = true -> vfit_noise_normalization tp v = fit_noise_normalization tp (real_fit_of v).
  Proof.
    intros H. destruct (vfit_okb_lengths v H) as [HN HM].
    rewrite (noise_normalization_is_spec lnf tp _ (real_fit_okb v H)), (vfit_noise_normalization_is_spec v H).
    unfold s_noise_normalization, sv_noise_normalization, fit_pixels, s_lognorm. cbn [use_mask real_fit_of data noise]. tR.
    rewrite !(sumT_RL lnf), components_length, (sum_over_components v). apply sumR_map_ext. intros k Hk. apply in_seq in Hk.
    destruct (components_nth (vnoise v) k ltac:(tR; lia)) as [N1 N2]. tR. rewrite HN in N2. rewrite N1, N2. rops. reflexivity.
  Qed.
  (* every scalar statistic of the interferometer fit is that of the real fit on the components, except the reduced
     chi-squared, which divides by the number of visibilities (not of real components) *)
  Theorem vfit_is_real_fit v : vfit_okb v = true ->
    vfit_chi_squared v = fit_chi_squared (real_fit_of v) /\
    vfit_noise_normalization tp v = fit_noise_normalization tp (real_fit_of v) /\
    vfit_log_likelihood tp v = fit_log_likelihood tp (real_fit_of v) /\
    vfit_log_likelihood_with_regularization tp v = fit_log_likelihood_with_regularization tp (real_fit_of v) /\
    vfit_log_evidence tp v = fit_log_evidence tp (real_fit_of v) /\
    vfit_figure_of_merit tp v = fit_figure_of_merit tp (real_fit_of v).
  Proof.
    intros H. pose proof (vfit_is_real_fit_chi2 v H) as E1. pose proof (vfit_is_real_fit_nn v H) as E2.
    destruct (fit_composition_generic tp (real_fit_of v)) as (G1 & G2 & G3 & G4 & _).
    unfold vfit_log_likelihood, vfit_log_likelihood_with_regularization, vfit_log_evidence, vfit_figure_of_merit.
    rewrite G1, G2, G3, G4, E1, E2. cbn [inversion real_fit_of]. repeat split; reflexivity.
  Qed.

  (* ---- signal to noise: real and imaginary parts separately *)
  Lemma vfit_snr_nth v k : vfit_okb v = true -> (k < length (vdata v))%nat ->
    length (vfit_signal_to_noise_map v) = length (vdata v) /\
    nth k (vfit_signal_to_noise_map v) (XNaN, XNaN) =
      (s_snr_x (vre (vdata v) k) (vre (vnoise v) k), s_snr_x (vim (vdata v) k) (vim (vnoise v) k)).
  Proof.
    intros H Hk. destruct (vfit_okb_lengths v H) as [HN _]. unfold vfit_signal_to_noise_map. split; [apply map2_length; exact HN|].
    rw (nth_map2 (fun d n : T O * T O => (@xclip O (@xdiv O (fst d) (fst n)), @xclip O (@xdiv O (snd d) (snd n))))
                 ((XNaN, XNaN) : xval (T O) * xval (T O)) ((0, 0) : T O * T O) ((0, 0) : T O * T O) (vdata v) (vnoise v) k Hk HN).
    rewrite !(snr_point lnf). reflexivity.
  Qed.

  Theorem vfit_definitions v : vfit_okb v = true ->
    (* element-wise maps, whatever use_mask_in_fit is *)
    length (vfit_residual_map v) = length (vdata v) /\ length (vfit_normalized_residual_map v) = length (vdata v) /\
    length (vfit_chi_squared_map v) = length (vdata v) /\ length (vfit_signal_to_noise_map v) = length (vdata v) /\
    (forall k, (k < length (vdata v))%nat ->
       nth k (vfit_residual_map v) (0, 0) = sv_residual v k /\
       nth k (vfit_normalized_residual_map v) (0, 0) = sv_normres v k /\
       nth k (vfit_chi_squared_map v) (0, 0) = sv_chi v k /\
       nth k (vfit_signal_to_noise_map v) (XNaN, XNaN) =
         (s_snr_x (vre (vdata v) k) (vre (vnoise v) k), s_snr_x (vim (vdata v) k) (vim (vnoise v) k))) /\
    (* statistics *)
    vfit_chi_squared v = sv_chi_squared v /\
    vfit_noise_normalization tp v = sv_noise_normalization tp v /\
    vfit_log_likelihood tp v = @s_ll_of O (sv_chi_squared v) (sv_noise_normalization tp v) /\
    vfit_reduced_chi_squared v = (if Nat.eqb (length (vdata v)) 0 then Raise OtherException
                                  else Ok (sv_chi_squared v / INR (length (vdata v)))).
  Proof.
    intros H. pose proof (vfit_residual_length v H) as HR.
    assert (L : length (vfit_normalized_residual_map v) = length (vdata v) /\ length (vfit_chi_squared_map v) = length (vdata v) /\
                length (vfit_signal_to_noise_map v) = length (vdata v)).
    { destruct (vfit_okb_lengths v H) as [HN _].
      unfold vfit_normalized_residual_map, normalized_residual_map_complex_from, vfit_chi_squared_map, chi_squared_map_complex_from,
        vfit_signal_to_noise_map. rewrite !map2_length; repeat split; vlia. }
    destruct L as (L1 & L2 & L3). repeat split; try assumption.
    - apply vfit_residual_nth; assumption. - apply vfit_normres_nth; assumption. - apply vfit_chimap_nth; assumption.
    - apply vfit_snr_nth; assumption.
    - apply vfit_chi_squared_is_spec; exact H. - apply vfit_noise_normalization_is_spec; exact H.
    - unfold vfit_log_likelihood. rewrite (vfit_chi_squared_is_spec v H), (vfit_noise_normalization_is_spec v H). apply ll_from_spec.
    - unfold vfit_reduced_chi_squared, vfit_mask. rewrite repeat_length, count_true_repeat_false, Nat.sub_0_r, (vfit_chi_squared_is_spec v H).
      apply redchi_from_spec.
  Qed.
End VisR.

(* ================================================================== 5. concrete inputs for the non-vacuity examples *)
Section ExamplesX.
  Variable O : NumOps.
  Let z := ofZ O.
  (* two unmasked pixels, slim storage; C = [[1 1] [1 2]], C^-1 = [[2 -1] [-1 1]]; residual (2, -1) *)
  Definition ex_cfit : fit (T O) :=
    {| mask := [false; false]; use_mask := false; sky := z 0; data := [z 3; z 1]; noise := [z 1; z 2]; model := [z 1; z 2];
       inversion := None |}.
  Definition ex_C : list (list (T O)) := [[z 1; z 1]; [z 1; z 2]].
  Definition ex_Cinv : list (list (T O)) := [[z 2; z (-1)]; [z (-1); z 1]].
  Definition ex_x : list (T O) := [z 5; z (-3)].
  (* uncorrelated: C^-1 = diag(1 / noise^2) for noise (1, 2) *)
  Definition ex_Cdiag_inv : list (list (T O)) := [[z 1; z 0]; [z 0; div O (z 1) (z 4)]].
  (* three visibilities, a partially regularized inversion *)
  Definition ex_vfit (um : bool) : vfit (T O) :=
    {| vuse_mask := um; vdata := [(z 1, z 2); (z (-3), z 0); (z 0, z (-1))]; vnoise := [(z 1, z 2); (z 2, z 2); (z 4, z 1)];
       vmodel := [(z 0, z 1); (z (-1), z 0); (z 0, z 1)]; vinversion := Some (ex_inv O) |}.
End ExamplesX.

Local Open Scope R_scope.
Lemma ex_cov_hyps_R :
  let f := ex_cfit (RL ln) in let r := [2; -1] in
  @cfit_okb (RL ln) f (ex_Cinv (RL ln)) = true /\ noise_positiveb f = true /\ fit_inv_okb f = true /\
  @fit_residual_map (RL ln) f = r /\
  squareb (length r) (ex_Cinv (RL ln)) = true /\ length (ex_x (RL ln)) = length r /\
  (forall i k, (i < length r)%nat -> (k < length r)%nat ->
     @s_matmul_at (RL ln) (length r) (ex_Cinv (RL ln)) (ex_C (RL ln)) i k = if Nat.eqb i k then 1 else 0) /\
  (forall j, (j < length r)%nat -> @s_matvec_at (RL ln) (ex_C (RL ln)) (ex_x (RL ln)) j = @at_ (RL ln) r j) /\
  @s_dot (RL ln) r (ex_x (RL ln)) = 13.
Proof.
  cbv zeta. repeat split; try (lazy; reflexivity).
  - unfold noise_positiveb. change (fit_pixels (ex_cfit (RL ln))) with [0; 1]%nat.
    unfold at_, ex_cfit. cbn [forallb noise nth]. rops. rewrite !(proj2 (Rltb_true _ _)) by lra. reflexivity.
  - unfold fit_residual_map, ex_cfit, residual_map_from, fit_data. cbn [use_mask sky data model]. rops.
    rewrite (proj2 (Reqb_true 0 0) eq_refl). cbn [negb map2]. repeat f_equal; lra.
  - intros i k Hi Hk. cbn [length] in Hi, Hk. unfold s_matmul_at, mat_at, ex_Cinv, ex_C. cbn [length seq map]. rw (sumT_RL ln).
    destruct i as [|[|i]], k as [|[|k]]; try lia; cbn [nth Nat.eqb sumR]; rops; lra.
  - intros j Hj. cbn [length] in Hj. unfold s_matvec_at, mat_at, at_, ex_C, ex_x. cbn [length seq map]. rw (sumT_RL ln).
    destruct j as [|[|j]]; try lia; cbn [nth sumR]; rops; lra.
  - unfold s_dot, at_, ex_x. cbn [length seq map]. rw (sumT_RL ln). cbn [nth sumR]. rops. lra.
Qed.
Lemma ex_cov_diag_hyps_R :
  let r := [2; -1] in let nz := [1; 2] in
  squareb (length r) (ex_Cdiag_inv (RL ln)) = true /\ length nz = length r /\
  (forall i, (i < length r)%nat -> nth i nz 0 <> 0) /\
  (forall i j, (i < length r)%nat -> (j < length r)%nat ->
     @mat_at (RL ln) (ex_Cdiag_inv (RL ln)) i j = if Nat.eqb i j then / (nth i nz 0 * nth i nz 0) else 0).
Proof.
  cbv zeta. repeat split; try (lazy; reflexivity).
  - intros i Hi. cbn [length] in Hi. destruct i as [|[|i]]; try lia; cbn [nth]; lra.
  - intros i j Hi Hj. cbn [length] in Hi, Hj. unfold mat_at, ex_Cdiag_inv.
    destruct i as [|[|i]], j as [|[|j]]; try lia; cbn [nth Nat.eqb]; rops; try lra; field.
Qed.
Lemma ex_vis_hyps_R : vfit_okb (ex_vfit (RL ln) true) = true /\ vfit_okb (ex_vfit (RL ln) false) = true /\
  length (vdata (ex_vfit (RL ln) true)) = 3%nat.
Proof. repeat split; lazy; reflexivity. Qed.

(* the composition layer on any chi-squared, spelled out (statement exported by Props/C08.v) *)
Theorem composition_on_any_chi_squared (lnf : R -> R) (chi nn : R) (iv : inv (T (RL lnf))) :
  inv_okb iv = true ->
  @ll_from (RL lnf) chi nn = - ((chi + nn) / 2) /\
  @llreg_from (RL lnf) chi nn (Some iv) = Some (- ((chi + s_regularization_term iv + nn) / 2)) /\
  @evidence_from (RL lnf) chi nn (Some iv) =
    Some (if has_reg (objs iv) then - ((chi + s_regularization_term iv + s_logdet_FH iv - s_logdet_H iv + nn) / 2)
          else - ((chi + nn) / 2)) /\
  @fom_from (RL lnf) chi nn (Some iv) = @evidence_from (RL lnf) chi nn (Some iv) /\
  @fom_from (RL lnf) chi nn None = Some (@ll_from (RL lnf) chi nn) /\
  @llreg_from (RL lnf) chi nn None = None /\ @evidence_from (RL lnf) chi nn None = None.
Proof.
  intros HV. split; [rewrite ll_from_spec; unfold s_ll_of; rops; reflexivity|].
  split; [rewrite (llreg_from_spec lnf chi nn iv HV); unfold s_llreg_of; rops; reflexivity|].
  split; [|repeat split; reflexivity].
  rewrite (evidence_from_spec lnf chi nn iv HV). unfold s_evidence_of, s_ll_of. destruct (has_reg (objs iv)); rops; reflexivity.
Qed.

(* ================================================================== 6. the statements exported by Props/C08.v *)
Theorem extended_maps_refine (O : NumOps) (f : fit (T O)) (r d : list (T O)) (mk : list bool) :
  map erase (fit_signal_to_noise_map_x f) = fit_signal_to_noise_map f /\
  map erase (fit_residual_flux_fraction_map_x f) = fit_residual_flux_fraction_map f /\
  map erase (residual_flux_fraction_map_from_x r d) = residual_flux_fraction_map_from r d /\
  map erase (residual_flux_fraction_map_with_mask_from_x r d mk) = residual_flux_fraction_map_with_mask_from r d mk.
Proof. split; [exact (snr_x_refines f)|]. split; [exact (rff_x_refines f)|]. exact (util_rff_x_refines r d mk). Qed.
Theorem signal_to_noise_every_pixel (lnf : R -> R) (f : fit (T (RL lnf))) :
  fit_okb f = true ->
  length (fit_signal_to_noise_map_x f) = length (data f) /\
  forall i, (i < length (data f))%nat ->
    nth i (fit_signal_to_noise_map_x f) XNaN = s_snr_x (s_data f i) (at_ (noise f) i).
Proof. intros H. split; [apply snr_x_length; exact H | intros i Hi; apply snr_x_nth; assumption]. Qed.
Theorem residual_flux_fraction_every_pixel (lnf : R -> R) (f : fit (T (RL lnf))) :
  fit_okb f = true ->
  length (fit_residual_flux_fraction_map_x f) = length (data f) /\
  forall i, (i < length (data f))%nat ->
    nth i (fit_residual_flux_fraction_map_x f) XNaN =
    if excluded f i then XFin 0 else s_quot_x (s_residual f i) (s_data f i).
Proof. intros H. split; [apply rff_x_length; exact H | intros i Hi; apply rff_x_nth; assumption]. Qed.
Theorem util_residual_flux_fraction (lnf : R -> R) (r d : list R) (mk : list bool) :
  length d = length r -> length mk = length r ->
  length (@residual_flux_fraction_map_from_x (RL lnf) r d) = length r /\
  length (@residual_flux_fraction_map_with_mask_from_x (RL lnf) r d mk) = length r /\
  forall i, (i < length r)%nat ->
    nth i (@residual_flux_fraction_map_from_x (RL lnf) r d) XNaN = @s_quot_x (RL lnf) (nth i r 0) (nth i d 0) /\
    nth i (@residual_flux_fraction_map_with_mask_from_x (RL lnf) r d mk) XNaN =
      (if nth i mk true then XFin 0 else @s_quot_x (RL lnf) (nth i r 0) (nth i d 0)) /\
    nth i (@residual_flux_fraction_map_from (RL lnf) r d) None =
      (if Reqb (nth i d 0) 0 then None else Some (nth i r 0 / nth i d 0)) /\
    nth i (@residual_flux_fraction_map_with_mask_from (RL lnf) r d mk) None =
      (if nth i mk true then Some 0 else if Reqb (nth i d 0) 0 then None else Some (nth i r 0 / nth i d 0)).
Proof.
  intros Hd Hm. destruct (util_rff_x lnf r d mk Hd Hm) as (L1 & L2 & HX).
  split; [exact L1|]. split; [exact L2|]. intros i Hi. destruct (HX i Hi) as [X1 X2].
  destruct (util_rff_opt lnf r d mk Hd Hm i Hi) as [Y1 Y2]. auto.
Qed.
Theorem interferometer_is_real_fit_on_components (lnf : R -> R) (tp : T (RL lnf)) (v : vfit (T (RL lnf))) :
  vfit_okb v = true ->
  fit_okb (real_fit_of v) = true /\
  vfit_chi_squared v = fit_chi_squared (real_fit_of v) /\
  vfit_noise_normalization tp v = fit_noise_normalization tp (real_fit_of v) /\
  vfit_log_likelihood tp v = fit_log_likelihood tp (real_fit_of v) /\
  vfit_log_likelihood_with_regularization tp v = fit_log_likelihood_with_regularization tp (real_fit_of v) /\
  vfit_log_evidence tp v = fit_log_evidence tp (real_fit_of v) /\
  vfit_figure_of_merit tp v = fit_figure_of_merit tp (real_fit_of v).
Proof. intros H. split; [apply real_fit_okb; exact H | apply vfit_is_real_fit; exact H]. Qed.

(* ================================================================== 7. preloads *)
Local Open Scope nat_scope.
Section PreAny.
  Context {O : NumOps}.
  Implicit Types (p : pre (T O)) (iv : inv (T O)).

  (* no preloads, or preloads that carry the true quantities: every term is the one without preloads *)
  Theorem preloads_absent_or_consistent p iv :
    (pre_H p = None \/ pre_H p = Some (regularization_matrix iv)) ->
    (pre_ldr p = None \/ pre_ldr p = Some (logdet (regularization_matrix_reduced iv))) ->
    p_regularization_matrix p iv = regularization_matrix iv /\
    p_curvature_reg_matrix p iv = curvature_reg_matrix iv /\
    p_regularization_matrix_reduced p iv = regularization_matrix_reduced iv /\
    p_curvature_reg_matrix_reduced p iv = curvature_reg_matrix_reduced iv /\
    p_regularization_term p iv = regularization_term iv /\
    p_log_det_curvature_reg_matrix_term p iv = log_det_curvature_reg_matrix_term iv /\
    p_log_det_regularization_matrix_term p iv = log_det_regularization_matrix_term iv.
  Proof.
    intros HH HL.
    assert (E : p_regularization_matrix p iv = regularization_matrix iv).
    { unfold p_regularization_matrix. destruct HH as [-> | ->]; reflexivity. }
    unfold p_log_det_regularization_matrix_term, p_log_det_curvature_reg_matrix_term, p_regularization_term,
      p_curvature_reg_matrix_reduced, p_regularization_matrix_reduced, p_curvature_reg_matrix.
    rewrite E. repeat split; try reflexivity.
    unfold log_det_regularization_matrix_term. destruct (negb (has_reg (objs iv))); [reflexivity|].
    destruct HL as [-> | ->]; reflexivity.
  Qed.

  Lemma add_matrices_ok n (F H : list (list (T O))) : squareb n F = true -> squareb n H = true ->
    squareb n (map2 (map2 (add O)) F H) = true /\
    forall i j, i < n -> j < n -> mat_at (map2 (map2 (add O)) F H) i j = add O (mat_at F i j) (mat_at H i j).
  Proof.
    intros HF HH. destruct (squareb_spec _ _ HF) as [FL FR]. destruct (squareb_spec _ _ HH) as [HL HR].
    assert (RowI : forall i, i < n -> nth i (map2 (map2 (add O)) F H) [] = map2 (add O) (nth i F []) (nth i H [])).
    { intros i Hi. apply nth_map2; lia. }
    split.
    - apply squareb_intro; [rewrite map2_length; lia|]. intros i Hi. rewrite RowI by exact Hi.
      rewrite map2_length; rewrite ?FR, ?HR; auto.
    - intros i j Hi Hj. unfold mat_at. rewrite RowI by exact Hi.
      rewrite (nth_map2 _ zero zero zero); rewrite ?FR, ?HR; auto.
  Qed.
  Lemma p_regularization_matrix_ok p iv : inv_okb iv = true -> pre_okb p iv = true ->
    squareb (n_params (objs iv)) (p_regularization_matrix p iv) = true /\
    forall i j, i < n_params (objs iv) -> j < n_params (objs iv) -> mat_at (p_regularization_matrix p iv) i j = s_H_eff p iv i j.
  Proof.
    intros HV HP. unfold p_regularization_matrix, s_H_eff, pre_okb in *. destruct (pre_H p) as [H|].
    - split; [exact HP | reflexivity].
    - apply regularization_matrix_ok. exact HV.
  Qed.
  (* with preloads, the reduced matrices are the restrictions of the matrices IN FORCE to the regularized parameters, and the
     preloaded log-determinant (if any) stands for ln det of the restricted H only *)
  Theorem preloaded_terms_are_restricted p iv : inv_okb iv = true -> pre_okb p iv = true ->
    p_regularization_matrix_reduced p iv = tabulate (s_H_eff p iv) (reg_indices (objs iv)) /\
    p_curvature_reg_matrix_reduced p iv = tabulate (s_FH_eff p iv) (reg_indices (objs iv)) /\
    p_log_det_curvature_reg_matrix_term p iv =
      (if has_reg (objs iv) then lnT O (det (tabulate (s_FH_eff p iv) (reg_indices (objs iv)))) else zero) /\
    p_log_det_regularization_matrix_term p iv =
      (if has_reg (objs iv)
       then match pre_ldr p with Some v => v | None => lnT O (det (tabulate (s_H_eff p iv) (reg_indices (objs iv)))) end
       else zero).
  Proof.
    intros HV HP. destruct (p_regularization_matrix_ok p iv HV HP) as (HS & HE).
    destruct (inv_okb_parts iv HV) as (_ & HF & _).
    assert (E1 : p_regularization_matrix_reduced p iv = tabulate (s_H_eff p iv) (reg_indices (objs iv))).
    { unfold p_regularization_matrix_reduced. rewrite reduce_matrix_is_principal by exact HS. unfold principal_sub, tabulate.
      apply map_ext_in. intros i Hi. apply map_ext_in. intros j Hj. apply HE; apply reg_indices_lt; assumption. }
    assert (E2 : p_curvature_reg_matrix_reduced p iv = tabulate (s_FH_eff p iv) (reg_indices (objs iv))).
    { unfold p_curvature_reg_matrix_reduced, p_curvature_reg_matrix. destruct (has_reg (objs iv)) eqn:G; cbn [negb].
      - destruct (add_matrices_ok _ _ _ HF HS) as (HSq & HA). rewrite reduce_matrix_is_principal by exact HSq.
        unfold principal_sub, tabulate, s_FH_eff. apply map_ext_in. intros i Hi. apply map_ext_in. intros j Hj.
        rewrite HA, HE by (apply reg_indices_lt; assumption). reflexivity.
      - rewrite reduce_matrix_is_principal by exact HF. rewrite (reg_indices_none _ G). reflexivity. }
    split; [exact E1|]. split; [exact E2|].
    unfold p_log_det_curvature_reg_matrix_term, p_log_det_regularization_matrix_term, logdet. rewrite E1, E2.
    destruct (has_reg (objs iv)); split; reflexivity.
  Qed.
End PreAny.

Local Open Scope R_scope.
Theorem p_regularization_term_is_spec (lnf : R -> R) (p : pre (T (RL lnf))) (iv : inv (T (RL lnf))) :
  inv_okb iv = true -> pre_okb p iv = true ->
  p_regularization_term p iv =
  sumR (map (fun i => sumR (map (fun j => at_ (recon iv) i * s_H_eff p iv i j * at_ (recon iv) j) (reg_indices (objs iv))))
            (reg_indices (objs iv))).
Proof.
  intros HV HP. unfold p_regularization_term.
  destruct (has_reg (objs iv)) eqn:G; cbn [negb].
  2:{ rewrite (reg_indices_none _ G). reflexivity. }
  destruct (preloaded_terms_are_restricted p iv HV HP) as (E1 & _). rewrite E1, reconstruction_reduced_is_restriction by exact HV.
  unfold dotT, matvec, tabulate, Rset. rewrite map_map, map2_map_map. tR. rewrite !(sumT_RL lnf).
  apply sumR_map_ext. intros i _. unfold dotT. rewrite map2_map_map. tR. rewrite !(sumT_RL lnf). rops.
  rewrite <- sumR_map_scal. apply sumR_map_ext. intros j _. ring.
Qed.
(* a preloaded H that differs from the assembled one, and a preloaded log-determinant *)
Definition ex_pre (O : NumOps) : pre (T O) :=
  {| pre_H := Some (map (map (ofZ O)) [[3; 0; 0; 1]; [0; 3; 0; 0]; [0; 0; 3; 0]; [1; 0; 0; 3]]%Z); pre_ldr := Some (ofZ O 7) |}.
Lemma ex_pre_hyps : inv_okb (ex_inv (RL ln)) = true /\ pre_okb (ex_pre (RL ln)) (ex_inv (RL ln)) = true /\
  p_regularization_matrix (ex_pre (RL ln)) (ex_inv (RL ln)) <> regularization_matrix (ex_inv (RL ln)).
Proof.
  split; [lazy; reflexivity|]. split; [lazy; reflexivity|].
  intros E. apply (f_equal (fun M => nth 0 (nth 0 M []) 0)) in E. cbn in E. apply eq_IZR in E. discriminate E.
Qed.
