"""C16 -- FITS output followed by input reproduces values, orientation and pixel scale."""
import os, shutil, tempfile, itertools, contextlib
from fractions import Fraction
import numpy as np
from harness.common import cz, cq, cbool, clist, ctup, copt, import_aa

ID = "C16"
GEN = []
PROPS = "Props/C16.v"
COQ_CHECK = ("Model.C16", "check")
COQ_FALLBACK = None
COQ_IMPORTS = ""
SHARD = 250
RULE = ("every case writes REAL files below a fresh tempfile.mkdtemp() root (outside /repo and /verif, removed afterwards; the "
        "root is the current directory during the call so that bare file names are exercised) through the public classes "
        "(Array2D / Kernel2D / Mask2D / Array1D / Mask1D .output_to_fits -> .from_fits, .hdu_for_output -> .from_primary_hdu, "
        "Imaging.output_to_fits -> Imaging.from_fits) and the util functions (numpy_array_{1,2}d_to_fits / _via_fits_from / "
        "header_obj_from), under both values of general.fits.flip_for_ds9; the directory tree and the raw content of every file "
        "are re-read with astropy after the write and compared with the model's file-system state; contents are non-symmetric "
        "(all cells distinct), pixel scales isotropic and anisotropic, values with negative, tiny (2^-60, 5e-324) and huge (2^70, 1e300) magnitudes, all exactly representable. "
        "A case is non-trivial unless the array has a single cell; distinct = distinct JSON input.")
EXHAUSTIVE = {
    "quick": "all shapes HxW <= 4x4 (incl. 1xN, Nx1) x flip x {Array2D, Kernel2D, Mask2D} x {file, hdu} route; all 1-D lengths 1..6 x flip "
             "x {Array1D, Mask1D} x {file, hdu}; all boolean masks with H*W <= 6 (Mask2D and masked Array2D through the hdu route, every third also through a file); all file-system "
             "scenarios {bare name, 1 dir, 2 dirs} x {directory absent, partly present, present} x {target absent, present} x overwrite "
             "x flip x {relative, absolute path}; hdu index in [-3..2] on 1- and 2-HDU files and on assembled 1-, 2-, 3-HDU files (2-D and 1-D)",
    "thorough": "as quick with shapes <= 6x6, masks with H*W <= 9 (sampled above 2^9), 1-D lengths 1..9, plus 10x the random budget",
}
TRUSTED = ["astropy FITS codec = identity on (float64 data, PIXSCALE* header cards); HDUList indexing = Python list indexing "
           "(oracle; exercised on every case: the harness re-reads every written file with astropy directly)",
           "file-system model Model.C16.fsys (os.path.split/exists, os.makedirs, os.remove, writeto) -- exercised on real "
           "directories by every file case; targets that are directories / directory parts that are files are outside the model",
           "correspondence harness harness/c16.py (generators, snapshot of the temporary tree, Fraction(float) conversion)",
           "slim/native scatter of Array2D.native is modelled in its consuming form (C01 proves the scatter form equivalent)"]
ASSUMPTIONS = ["the model follows the code after the repairs 9d3d532 (Array1D.hdu_for_output does not flip) and 770955c (PIXSCALEY / "
               "PIXSCALEX cards for unequal scales; fixes/C16_*.diff): on a tree without them the 1-D hdu route under flip_for_ds9 and "
               "every anisotropic hdu/header case is reported as a violation",
               "header cards hold the pixel scale exactly: astropy formats a float card in 20 characters, so a scale needing more than "
               "16 significant digits together with an exponent (e.g. 2^-40) is NOT reproduced by the codec; generators use scales with short "
               "decimal expansions",
               "floating point is exact on the generated values (mask multiplication by 1.0/0.0, psf normalisation by a sum equal to 1)",
               "Mask2D.from_fits(resized_mask_shape=...) is decided only for the same-shape request (resizing is C14's subject); other "
               "shapes are correspondence-only",
               "Imaging is decided by the specification for pairwise independent targets that are fresh or overwritten (the hypotheses "
               "of C16_imaging_roundtrip) and a PSF summing to one; refused / failing writes are correspondence-only"]

# ----------------------------------------------------------------------------- printing
def fr(x): return Fraction(float(x))
_cq_small = cq
def cq(f):
    """a double as an exact Coq rational; extreme magnitudes as (dy n e) = n * 2^e"""
    f = Fraction(f)
    if abs(f.numerator) < 10 ** 18 and f.denominator < 10 ** 18: return _cq_small(f)
    n, e = f.numerator, 0
    if f.denominator > 1: e = -(f.denominator.bit_length() - 1)
    else:
        while n % 2 == 0: n //= 2; e += 1
    assert Fraction(n) * Fraction(2) ** e == f
    return f"(dy {cz(n)} {cz(e)})"
def cpath(p): return clist([f"{int(c)}%nat" for c in p])
def crow(r): return clist([cq(fr(x)) for x in r])
def carr(m): return clist([crow(r) for r in m])
def cbrow(r): return clist([cbool(b) for b in r])
def cbarr(m): return clist([cbrow(r) for r in m])
def csc2(s): return ctup([cq(fr(s[0])), cq(fr(s[1]))])
def chdr(h): return clist([ctup([k, cq(fr(v))]) for k, v in h])
def chdu(h, cdata): return f"(mkhdu {cdata(h['data'])} {chdr(h['hdr'])})"
def cfs(fs, cdata):
    ds = clist([cpath(d) for d in sorted(fs["dirs"])])
    fl = clist([ctup([cpath(p), clist([chdu(h, cdata) for h in c])]) for p, c in sorted(fs["files"], key=lambda e: e[0])])
    return f"(mkfs {ds} {fl})"
def cfres(x, f): return f"(FOk {f(x[1])})" if x[0] == "ok" else f"(FRaise {x[1]})"
def coexn(x): return "None" if x is None else f"(Some {x})"
def cobs2(o): return ctup([carr(o[0]), cbarr(o[1]), csc2(o[2]), chdr(o[3]), chdr(o[4])])
def cobs1(o): return ctup([crow(o[0]), cbrow(o[1]), cq(fr(o[2])), chdr(o[3]), chdr(o[4])])
def cobsm2(o): return ctup([cbarr(o[0]), csc2(o[1])])
def cobsm1(o): return ctup([cbrow(o[0]), cq(fr(o[1]))])

# ----------------------------------------------------------------------------- implementation side
def exn_name(e):
    aa = import_aa()
    from autoarray import exc
    if isinstance(e, FileNotFoundError): return "FileNotFound"
    if isinstance(e, OSError) and "already exists" in str(e): return "FileExists"
    if isinstance(e, IndexError): return "IndexErr"
    if isinstance(e, KeyError): return "KeyErr"
    if isinstance(e, exc.ArrayException): return "ArrayErr"
    if isinstance(e, exc.DatasetException): return "DatasetErr"
    return "OtherErr"
def call(f, *a, **k):
    try: return ("ok", f(*a, **k))
    except Exception as e: return ("raise", exn_name(e))   # noqa

def comp_name(c, is_file): return f"c{int(c)}.fits" if is_file else f"c{int(c)}"
def rel_path(p): return os.path.join(*([comp_name(c, False) for c in p[:-1]] + [comp_name(p[-1], True)]))
def pix_cards(header):
    return [[k, float(header[k])] for k in header.keys() if k in ("PIXSCALE", "PIXSCALEY", "PIXSCALEX")]

def write_raw(path, content):
    from astropy.io import fits
    hs = []
    for i, h in enumerate(content):
        hd = fits.Header()
        for k, v in h["hdr"]: hd.append((k, float(v)))
        data = np.array(h["data"], dtype="float64")
        hs.append(fits.PrimaryHDU(data, header=hd) if i == 0 else fits.ImageHDU(data, header=hd))
    fits.HDUList(hs).writeto(path)

def read_raw(path):
    from astropy.io import fits
    out = []
    with fits.open(path) as hl:
        for h in hl:
            out.append({"data": np.array(h.data, dtype="float64").tolist(), "hdr": pix_cards(h.header)})
    return out

def setup_fs(root, fs):
    for d in fs["dirs"]:
        os.makedirs(os.path.join(root, *[comp_name(c, False) for c in d]), exist_ok=True)
    for p, content in fs["files"]:
        write_raw(os.path.join(root, rel_path(p)), content)

def snapshot(root):
    dirs, files = [], []
    for cur, ds, fs in os.walk(root):
        rel = os.path.relpath(cur, root)
        comps = [] if rel == "." else [int(c[1:]) for c in rel.split(os.sep)]
        if comps: dirs.append(comps)
        for f in fs:
            files.append([comps + [int(f[1:-5])], read_raw(os.path.join(cur, f))])
    return {"dirs": sorted(dirs), "files": sorted(files, key=lambda e: e[0])}

@contextlib.contextmanager
def sandbox(flip, fs0=None):
    """fresh root = current directory, flip_for_ds9 set explicitly; everything restored / removed afterwards"""
    from autoconf import conf
    root = tempfile.mkdtemp(prefix="pav_c16_")
    cwd = os.getcwd()
    sect = conf.instance["general"]["fits"]
    old = sect["flip_for_ds9"]
    try:
        if fs0: setup_fs(root, fs0)
        os.chdir(root)
        sect["flip_for_ds9"] = bool(flip)
        yield root
    finally:
        sect["flip_for_ds9"] = old
        os.chdir(cwd)
        shutil.rmtree(root, ignore_errors=True)

def fpath(root, p, absolute): return os.path.join(root, rel_path(p)) if absolute else rel_path(p)

def obs_arr2(o, with_headers=True):
    hs = pix_cards(o.header.header_sci_obj) if with_headers else []
    hh = pix_cards(o.header.header_hdu_obj) if with_headers else []
    return [np.array(o.native, dtype="float64").tolist(), np.array(o.mask).astype(bool).tolist(),
            [float(o.pixel_scales[0]), float(o.pixel_scales[1])], hs, hh]
def obs_arr1(o, with_headers=True):
    hs = pix_cards(o.header.header_sci_obj) if with_headers else []
    hh = pix_cards(o.header.header_hdu_obj) if with_headers else []
    return [np.array(o.native, dtype="float64").tolist(), np.array(o.mask).astype(bool).tolist(), float(o.pixel_scales[0]), hs, hh]
def obs_m2(m): return [np.array(m).astype(bool).tolist(), [float(m.pixel_scales[0]), float(m.pixel_scales[1])]]
def obs_m1(m): return [np.array(m).astype(bool).tolist(), float(m.pixel_scales[0])]
def okmap(r, f): return ("ok", f(r[1])) if r[0] == "ok" else r
def raw_of(h): return {"data": np.array(h.data, dtype="float64").tolist(), "hdr": pix_cards(h.header)}

def mk_obj2(aa, kd, vals, mask, sc):
    v = np.array(vals, dtype="float64")
    if kd == "kernel": return aa.Kernel2D.no_mask(values=v, pixel_scales=tuple(sc))
    if not any(any(r) for r in mask) and (len(vals) + len(vals[0])) % 2 == 0:
        return aa.Array2D.no_mask(values=v, pixel_scales=tuple(sc))
    return aa.Array2D(values=v, mask=aa.Mask2D(mask=np.array(mask, dtype=bool), pixel_scales=tuple(sc)))
def mk_obj1(aa, vals, mask, sc):
    if not any(mask) and len(vals) % 2 == 0: return aa.Array1D.no_mask(values=np.array(vals, dtype="float64"), pixel_scales=float(sc))
    return aa.Array1D(values=np.array(vals, dtype="float64"), mask=aa.Mask1D(mask=np.array(mask, dtype=bool), pixel_scales=float(sc)))

def run_case(inp):
    aa = import_aa()
    from autoarray.structures.arrays import array_2d_util, array_1d_util
    op = inp["op"]; flip = inp.get("flip", False)
    finding = None; out = None
    cells = 2
    if op == "util2":
        arr = inp["arr"]; hd = inp["hd"]; cells = len(arr) * len(arr[0])
        with sandbox(flip, inp["fs0"]) as root:
            path = fpath(root, inp["p"], inp["abs"])
            w = call(array_2d_util.numpy_array_2d_to_fits, array_2d=np.array(arr, dtype="float64"), file_path=path,
                     overwrite=inp["ow"], header_dict=(dict(hd) if hd else None))
            fsa = snapshot(root)
            r = okmap(call(array_2d_util.numpy_array_2d_via_fits_from, file_path=path, hdu=inp["k"]), lambda a: np.array(a).tolist())
            hr = okmap(call(array_2d_util.header_obj_from, file_path=path, hdu=inp["k"]), pix_cards)
        wx = None if w[0] == "ok" else w[1]
        out = [wx, fsa, r, hr]
        coq = (f"KUtil2 {cbool(flip)} {cfs(inp['fs0'], carr)} {carr(arr)} {cpath(inp['p'])} {cbool(inp['ow'])} {chdr(hd)} {cz(inp['k'])} "
               f"{coexn(wx)} {cfs(fsa, carr)} {cfres(r, carr)} {cfres(hr, chdr)}")
    elif op == "util1":
        arr = inp["arr"]; hd = inp["hd"]; cells = len(arr)
        with sandbox(flip, inp["fs0"]) as root:
            path = fpath(root, inp["p"], inp["abs"])
            w = call(array_1d_util.numpy_array_1d_to_fits, array_1d=np.array(arr, dtype="float64"), file_path=path,
                     overwrite=inp["ow"], header_dict=(dict(hd) if hd else None))
            fsa = snapshot(root)
            r = okmap(call(array_1d_util.numpy_array_1d_via_fits_from, file_path=path, hdu=inp["k"]), lambda a: np.array(a, dtype="float64").tolist())
        wx = None if w[0] == "ok" else w[1]
        out = [wx, fsa, r]
        coq = (f"KUtil1 {cfs(inp['fs0'], crow)} {crow(arr)} {cpath(inp['p'])} {cbool(inp['ow'])} {chdr(hd)} {cz(inp['k'])} "
               f"{coexn(wx)} {cfs(fsa, crow)} {cfres(r, crow)}")
    elif op == "file2":
        vals, mask, sc, kd = inp["vals"], inp["mask"], inp["sc"], inp["kd"]; cells = len(vals) * len(vals[0])
        with sandbox(flip, inp["fs0"]) as root:
            path = fpath(root, inp["p"], inp["abs"])
            obj = mk_obj2(aa, kd, vals, mask, sc)
            w = call(obj.output_to_fits, file_path=path, overwrite=inp["ow"])
            fsa = snapshot(root)
            if kd == "kernel": r = call(aa.Kernel2D.from_fits, file_path=path, hdu=inp["k"], pixel_scales=tuple(sc))
            else: r = call(aa.Array2D.from_fits, file_path=path, pixel_scales=tuple(sc), hdu=inp["k"])
            r = okmap(r, obs_arr2)
        wx = None if w[0] == "ok" else w[1]
        out = [wx, fsa, r]
        coq = (f"KFile2 {cbool(flip)} {'KKernel' if kd == 'kernel' else 'KArray'} {carr(vals)} {cbarr(mask)} {csc2(sc)} "
               f"{cfs(inp['fs0'], carr)} {cpath(inp['p'])} {cbool(inp['ow'])} {cz(inp['k'])} {coexn(wx)} {cfs(fsa, carr)} {cfres(r, cobs2)}")
    elif op == "hdu2":
        vals, mask, sc, kd = inp["vals"], inp["mask"], inp["sc"], inp["kd"]; cells = len(vals) * len(vals[0])
        with sandbox(flip):
            obj = mk_obj2(aa, kd, vals, mask, sc)
            h = obj.hdu_for_output
            raw = raw_of(h)
            cls = aa.Kernel2D if kd == "kernel" else aa.Array2D
            r = okmap(call(cls.from_primary_hdu, primary_hdu=h), lambda o: obs_arr2(o, False))
        out = [raw, r]
        coq = (f"KHdu2 {cbool(flip)} {'KKernel' if kd == 'kernel' else 'KArray'} {carr(vals)} {cbarr(mask)} {csc2(sc)} "
               f"{chdu(raw, carr)} {cfres(r, cobs2)}")
    elif op == "filem2":
        mask, sc = inp["mask"], inp["sc"]; cells = len(mask) * len(mask[0])
        rs = inp.get("rs")
        with sandbox(flip, inp["fs0"]) as root:
            path = fpath(root, inp["p"], inp["abs"])
            m = aa.Mask2D(mask=np.array(mask, dtype=bool), pixel_scales=tuple(sc))
            w = call(m.output_to_fits, file_path=path, overwrite=inp["ow"])
            fsa = snapshot(root)
            r = okmap(call(aa.Mask2D.from_fits, file_path=path, pixel_scales=tuple(sc), hdu=inp["k"],
                           resized_mask_shape=(tuple(rs) if rs else None), invert=inp["inv"]), obs_m2)
        wx = None if w[0] == "ok" else w[1]
        out = [wx, fsa, r]
        coq = (f"KFileM2 {cbool(flip)} {cbarr(mask)} {csc2(sc)} {cfs(inp['fs0'], carr)} {cpath(inp['p'])} {cbool(inp['ow'])} {cz(inp['k'])} "
               f"{copt(rs, lambda t: ctup([cz(t[0]), cz(t[1])]))} {cbool(inp['inv'])} {coexn(wx)} {cfs(fsa, carr)} {cfres(r, cobsm2)}")
    elif op == "hdum2":
        mask, sc = inp["mask"], inp["sc"]; cells = len(mask) * len(mask[0])
        with sandbox(flip):
            m = aa.Mask2D(mask=np.array(mask, dtype=bool), pixel_scales=tuple(sc))
            h = m.hdu_for_output
            raw = raw_of(h)
            r = okmap(call(aa.Mask2D.from_primary_hdu, primary_hdu=h), obs_m2)
        out = [raw, r]
        coq = f"KHduM2 {cbool(flip)} {cbarr(mask)} {csc2(sc)} {chdu(raw, carr)} {cfres(r, cobsm2)}"
    elif op == "multi2":
        from astropy.io import fits
        objs = inp["objs"]; cells = 4
        with sandbox(flip) as root:
            hs = []
            for i, (v, m, s) in enumerate(objs):
                h = mk_obj2(aa, "array", v, m, s).hdu_for_output
                hs.append(h if i == 0 else fits.ImageHDU(h.data, header=h.header))
            fits.HDUList(hs).writeto("multi.fits")
            r = okmap(call(aa.Array2D.from_fits, file_path="multi.fits", pixel_scales=1.0, hdu=inp["k"]), obs_arr2)
        out = [r]
        cobjs = clist([ctup([carr(v), cbarr(m), csc2(s)]) for v, m, s in objs])
        coq = f"KMulti2 {cbool(flip)} {cobjs} {cz(inp['k'])} {cfres(r, cobs2)}"
    elif op == "multi1":
        from astropy.io import fits
        objs = inp["objs"]; cells = 4
        with sandbox(flip) as root:
            hs = []
            for i, (v, m, s) in enumerate(objs):
                h = mk_obj1(aa, v, m, s).hdu_for_output
                hs.append(h if i == 0 else fits.ImageHDU(h.data, header=h.header))
            fits.HDUList(hs).writeto("multi.fits")
            r = okmap(call(aa.Array1D.from_fits, file_path="multi.fits", pixel_scales=1.0, hdu=inp["k"]), obs_arr1)
        out = [r]
        cobjs = clist([ctup([crow(v), cbrow(m), cq(fr(s))]) for v, m, s in objs])
        coq = f"KMulti1 {cbool(flip)} {cobjs} {cz(inp['k'])} {cfres(r, cobs1)}"
    elif op == "file1":
        vals, mask, sc = inp["vals"], inp["mask"], inp["sc"]; cells = len(vals)
        with sandbox(flip, inp["fs0"]) as root:
            path = fpath(root, inp["p"], inp["abs"])
            obj = mk_obj1(aa, vals, mask, sc)
            w = call(obj.output_to_fits, file_path=path, overwrite=inp["ow"])
            fsa = snapshot(root)
            r = okmap(call(aa.Array1D.from_fits, file_path=path, pixel_scales=float(sc), hdu=inp["k"]), obs_arr1)
        wx = None if w[0] == "ok" else w[1]
        out = [wx, fsa, r]
        coq = (f"KFile1 {cbool(flip)} {crow(vals)} {cbrow(mask)} {cq(fr(sc))} {cfs(inp['fs0'], crow)} {cpath(inp['p'])} {cbool(inp['ow'])} "
               f"{cz(inp['k'])} {coexn(wx)} {cfs(fsa, crow)} {cfres(r, cobs1)}")
    elif op == "hdu1":
        vals, mask, sc = inp["vals"], inp["mask"], inp["sc"]; cells = len(vals)
        with sandbox(flip):
            obj = mk_obj1(aa, vals, mask, sc)
            h = obj.hdu_for_output
            raw = raw_of(h)
            r = okmap(call(aa.Array1D.from_primary_hdu, primary_hdu=h), lambda o: obs_arr1(o, False))
        out = [raw, r]
        coq = f"KHdu1 {cbool(flip)} {crow(vals)} {cbrow(mask)} {cq(fr(sc))} {chdu(raw, crow)} {cfres(r, cobs1)}"
    elif op == "filem1":
        mask, sc = inp["mask"], inp["sc"]; cells = len(mask)
        with sandbox(flip, inp["fs0"]) as root:
            path = fpath(root, inp["p"], inp["abs"])
            m = aa.Mask1D(mask=np.array(mask, dtype=bool), pixel_scales=float(sc))
            w = call(m.output_to_fits, file_path=path, overwrite=inp["ow"])
            fsa = snapshot(root)
            r = okmap(call(aa.Mask1D.from_fits, file_path=path, pixel_scales=float(sc), hdu=inp["k"]), obs_m1)
        wx = None if w[0] == "ok" else w[1]
        out = [wx, fsa, r]
        coq = (f"KFileM1 {cbool(flip)} {cbrow(mask)} {cq(fr(sc))} {cfs(inp['fs0'], crow)} {cpath(inp['p'])} {cbool(inp['ow'])} {cz(inp['k'])} "
               f"{coexn(wx)} {cfs(fsa, crow)} {cfres(r, cobsm1)}")
    elif op == "hdum1":
        mask, sc = inp["mask"], inp["sc"]; cells = len(mask)
        with sandbox(flip):
            m = aa.Mask1D(mask=np.array(mask, dtype=bool), pixel_scales=float(sc))
            h = m.hdu_for_output
            raw = raw_of(h)
            r = okmap(call(aa.Mask1D.from_primary_hdu, primary_hdu=h), obs_m1)
        out = [raw, r]
        coq = f"KHduM1 {cbool(flip)} {cbrow(mask)} {cq(fr(sc))} {chdu(raw, crow)} {cfres(r, cobsm1)}"
    elif op == "imaging":
        mask, sc = inp["mask"], inp["sc"]; cells = 9
        with sandbox(flip, inp["fs0"]) as root:
            m = aa.Mask2D(mask=np.array(mask, dtype=bool), pixel_scales=tuple(sc))
            img = aa.Imaging(data=aa.Array2D(values=np.array(inp["data"], dtype="float64"), mask=m),
                             noise_map=aa.Array2D(values=np.array(inp["noise"], dtype="float64"), mask=m),
                             psf=aa.Kernel2D.no_mask(values=np.array(inp["psf"], dtype="float64"), pixel_scales=tuple(sc)))
            psf = np.array(img.psf.native, dtype="float64").tolist()      # as normalised by Imaging.__init__
            pd, pp, pn = (fpath(root, inp[k], inp["abs"]) for k in ("pd", "pp", "pn"))
            w = call(img.output_to_fits, data_path=pd, psf_path=pp, noise_map_path=pn, overwrite=inp["ow"])
            fsa = snapshot(root)
            r = okmap(call(aa.Imaging.from_fits, pixel_scales=tuple(sc), data_path=pd, psf_path=pp, noise_map_path=pn,
                           check_noise_map=inp["chk"]),
                      lambda im: [np.array(x.native, dtype="float64").tolist() for x in (im.data, im.noise_map, im.psf)])
        wx = None if w[0] == "ok" else w[1]
        out = [wx, fsa, r]
        coq = (f"KImaging {cbool(flip)} {cbarr(mask)} {carr(inp['data'])} {carr(inp['noise'])} {carr(psf)} {csc2(sc)} {cfs(inp['fs0'], carr)} "
               f"{cpath(inp['pd'])} {cpath(inp['pp'])} {cpath(inp['pn'])} {cbool(inp['ow'])} {cbool(inp['chk'])} {coexn(wx)} {cfs(fsa, carr)} "
               f"{cfres(r, lambda t: ctup([carr(t[0]), carr(t[1]), carr(t[2])]))}")
    else:
        raise ValueError(op)
    res = {"coq": "(" + coq + ")", "out": out, "py_ok": None, "nontrivial": cells > 1, "kind": op + (":flip" if flip else "")}
    if finding: res["finding"] = finding
    return res

# ----------------------------------------------------------------------------- generators
SPECIAL = [2.0 ** -60, -(2.0 ** -60), 5e-324, 2.0 ** 70, -(2.0 ** 70), 1e300, -1e300, 0.1, -0.3, 1e-12, 123456.789]
SCALES = [0.25, 0.5, 1.0, 1.5, 2.0, 3.0, 0.125, 0.1, 0.05]

def content2(h, w, rng=None, special=False):
    """non-symmetric content: every cell distinct, both signs"""
    m = [[float((1 + y * w + x) * (-1 if (y + 2 * x) % 3 == 0 else 1)) + (0.5 if (x + y) % 2 else 0.0) for x in range(w)] for y in range(h)]
    if rng is not None:
        for _ in range(1 + (h * w) // 3):
            y, x = rng.randrange(h), rng.randrange(w)
            m[y][x] = rng.choice(SPECIAL) if special else float(rng.randint(-999, 999)) / rng.choice([1, 2, 4, 8])
    return m
def content1(n, rng=None, special=False): return content2(1, n, rng, special)[0]
def falses(h, w): return [[False] * w for _ in range(h)]
def rand_mask(h, w, rng): return [[rng.random() < 0.4 for _ in range(w)] for _ in range(h)]

def old_hdu(dim, tag, w=2):
    data = [[90.0 + tag, 91.0, -92.0][:w], [93.0, 94.5, 95.0][:w], [96.0, -97.0, 98.0][:w]] if dim == 2 else [90.0 + tag, -91.0, 92.5]
    return {"data": data, "hdr": [["PIXSCALE", 7.0 + tag]]}

def fs_scenarios(dim):
    """(fs0, target path, description): directory absent / partly present / present, target absent / present, bystander files"""
    out = []
    by = [[[19], [old_hdu(dim, 1)]]]                                    # a bystander file in the root
    for depth in (0, 1, 2):
        d = [1, 2][:depth]
        p = d + [10]
        states = [[]] if depth == 0 else ([[], [d]] if depth == 1 else [[], [[1]], [[1], [1, 2]]])
        for dirs in states:
            full = (depth == 0) or (d in dirs)
            out.append(({"dirs": dirs, "files": list(by)}, p))
            if full:
                # target present: once as a single-HDU file, once as a larger two-HDU file; plus a sibling
                out.append(({"dirs": dirs, "files": by + [[p, [old_hdu(dim, 2)]]]}, p))
                out.append(({"dirs": dirs, "files": by + [[p, [old_hdu(dim, 3, 3), old_hdu(dim, 4)]], [d + [11], [old_hdu(dim, 5)]]]}, p))
    # unrelated directories present, target in a fresh branch
    out.append(({"dirs": [[3], [3, 4]], "files": [[[3, 12], [old_hdu(dim, 6)]]]}, [3, 5, 10]))
    return out

def all_masks(h, w):
    for bits in itertools.product([False, True], repeat=h * w):
        yield [list(bits[y * w:(y + 1) * w]) for y in range(h)]

def gen_inputs(tier, rng):
    big = tier == "thorough"
    E = {"dirs": [], "files": []}
    smax = 6 if big else 4
    # 1. every shape x flip x kind x route, fresh one-directory target
    for h in range(1, smax + 1):
        for w in range(1, smax + 1):
            vals = content2(h, w)
            mask = falses(h, w)
            if h * w > 1: mask[(h * w // 2) // w][(h * w // 2) % w] = True; mask[0][0] = (h + w) % 2 == 0
            for flip in (False, True):
                sc = [[0.5, 0.5], [1.0, 1.0], [0.5, 0.25]][(h + w) % 3]
                for kd in ("array", "kernel"):
                    mk = mask if kd == "array" else falses(h, w)
                    yield {"op": "file2", "flip": flip, "kd": kd, "vals": vals, "mask": mk, "sc": sc, "fs0": E, "p": [1, 10], "abs": (h + w) % 2 == 0, "ow": False, "k": 0}
                    yield {"op": "hdu2", "flip": flip, "kd": kd, "vals": vals, "mask": mk, "sc": sc}
                yield {"op": "filem2", "flip": flip, "mask": mask, "sc": sc, "fs0": E, "p": [10], "abs": False, "ow": False, "k": 0, "rs": None, "inv": (h * w) % 2 == 1}
                yield {"op": "hdum2", "flip": flip, "mask": mask, "sc": sc}
                yield {"op": "util2", "flip": flip, "fs0": E, "arr": vals, "p": [1, 2, 10], "abs": False, "ow": w % 2 == 0, "hd": [["PIXSCALE", 2.0]] if h % 2 else [], "k": 0}
    nmax = 9 if big else 6
    for n in range(1, nmax + 1):
        vals = content1(n); mask = [False] * n
        if n > 1: mask[n // 2] = True
        for flip in (False, True):
            for mk in ([False] * n, mask):
                yield {"op": "file1", "flip": flip, "vals": vals, "mask": mk, "sc": 0.5, "fs0": E, "p": [1, 10], "abs": n % 2 == 0, "ow": False, "k": 0}
                yield {"op": "hdu1", "flip": flip, "vals": vals, "mask": mk, "sc": 0.5}
            yield {"op": "filem1", "flip": flip, "mask": mask, "sc": 2.0, "fs0": E, "p": [10], "abs": False, "ow": False, "k": 0}
            yield {"op": "hdum1", "flip": flip, "mask": mask, "sc": 2.0}
            yield {"op": "util1", "flip": flip, "fs0": E, "arr": vals, "p": [1, 10], "abs": True, "ow": False, "hd": [["PIXSCALE", 0.25]], "k": 0}
    # 2. all boolean masks of the small shapes
    lim = 9 if big else 6
    i = 0
    for h in range(1, lim + 1):
        for w in range(1, lim + 1):
            if h * w > lim: continue
            vals = content2(h, w)
            for mask in all_masks(h, w):
                i += 1; flip = i % 2 == 0
                yield {"op": "hdum2", "flip": flip, "mask": mask, "sc": [1.0, 1.0]}
                yield {"op": "hdu2", "flip": not flip, "kd": "array", "vals": vals, "mask": mask, "sc": [2.0, 2.0]}
                if i % 3 == 0:
                    yield {"op": "filem2", "flip": flip, "mask": mask, "sc": [0.5, 0.5], "fs0": E, "p": [10], "abs": False, "ow": False, "k": 0,
                           "rs": ([h, w] if i % 4 == 0 else None), "inv": i % 5 < 2}
                    yield {"op": "file2", "flip": flip, "kd": "array", "vals": vals, "mask": mask, "sc": [1.5, 1.5], "fs0": E, "p": [10], "abs": False, "ow": False, "k": 0}
    for n in range(1, lim + 1):
        for bits in itertools.product([False, True], repeat=n):
            i += 1
            yield {"op": "hdum1", "flip": i % 2 == 0, "mask": list(bits), "sc": 0.25}
            yield {"op": "filem1", "flip": i % 2 == 1, "mask": list(bits), "sc": 0.25, "fs0": E, "p": [1, 10], "abs": False, "ow": False, "k": 0}
            yield {"op": "hdu1", "flip": i % 3 == 0, "vals": content1(n), "mask": list(bits), "sc": 1.0}
            yield {"op": "file1", "flip": i % 2 == 0, "vals": content1(n), "mask": list(bits), "sc": 1.0, "fs0": E, "p": [10], "abs": False, "ow": False, "k": 0}
    # 3. file-system scenarios x overwrite x flip x relative/absolute, 2-D and 1-D, classes and util
    vals = content2(2, 3); mask = [[False, True, False], [False, False, False]]
    for fs0, p in fs_scenarios(2):
        for ow in (False, True):
            for flip in (False, True):
                for ab in (False, True):
                    yield {"op": "file2", "flip": flip, "kd": "array", "vals": vals, "mask": mask, "sc": [0.5, 0.5], "fs0": fs0, "p": p, "abs": ab, "ow": ow, "k": 0}
                    yield {"op": "util2", "flip": flip, "fs0": fs0, "arr": vals, "p": p, "abs": ab, "ow": ow, "hd": [["PIXSCALE", 1.5]], "k": 0}
                yield {"op": "filem2", "flip": flip, "mask": mask, "sc": [2.0, 2.0], "fs0": fs0, "p": p, "abs": ow, "ow": ow, "k": 0, "rs": None, "inv": False}
                yield {"op": "file2", "flip": flip, "kd": "kernel", "vals": content2(3, 3), "mask": falses(3, 3), "sc": [1.0, 1.0], "fs0": fs0, "p": p, "abs": not ow, "ow": ow, "k": 0}
    for fs0, p in fs_scenarios(1):
        for ow in (False, True):
            for ab in (False, True):
                yield {"op": "file1", "flip": ab != ow, "vals": content1(4), "mask": [False, False, True, False], "sc": 0.5, "fs0": fs0, "p": p, "abs": ab, "ow": ow, "k": 0}
                yield {"op": "filem1", "flip": ab, "mask": [True, False, False], "sc": 0.5, "fs0": fs0, "p": p, "abs": ab, "ow": ow, "k": 0}
                yield {"op": "util1", "flip": ow, "fs0": fs0, "arr": content1(5), "p": p, "abs": ab, "ow": ow, "hd": [], "k": 0}
    # 4. hdu indices: on freshly written (1-HDU) files, on refused writes over 2-HDU files, on assembled multi-HDU files
    two = {"dirs": [], "files": [[[10], [old_hdu(2, 3, 3), old_hdu(2, 4)]]]}
    two1 = {"dirs": [], "files": [[[10], [old_hdu(1, 3), old_hdu(1, 4)]]]}
    for k in range(-3, 3):
        for flip in (False, True):
            yield {"op": "file2", "flip": flip, "kd": "array", "vals": vals, "mask": mask, "sc": [1.0, 1.0], "fs0": E, "p": [10], "abs": False, "ow": False, "k": k}
            yield {"op": "file2", "flip": flip, "kd": "kernel", "vals": vals, "mask": falses(2, 3), "sc": [1.0, 1.0], "fs0": two, "p": [10], "abs": False, "ow": False, "k": k}
            yield {"op": "file2", "flip": flip, "kd": "array", "vals": vals, "mask": mask, "sc": [1.0, 1.0], "fs0": two, "p": [10], "abs": False, "ow": True, "k": k}
            yield {"op": "filem2", "flip": flip, "mask": mask, "sc": [1.0, 1.0], "fs0": two, "p": [10], "abs": False, "ow": k % 2 == 0, "k": k, "rs": None, "inv": False}
            yield {"op": "util2", "flip": flip, "fs0": two, "arr": vals, "p": [10], "abs": False, "ow": k % 2 == 1, "hd": [], "k": k}
            yield {"op": "file1", "flip": flip, "vals": content1(3), "mask": [False] * 3, "sc": 1.0, "fs0": two1, "p": [10], "abs": False, "ow": k % 2 == 0, "k": k}
            yield {"op": "filem1", "flip": flip, "mask": [True, False], "sc": 1.0, "fs0": two1, "p": [10], "abs": False, "ow": k % 2 == 1, "k": k}
            yield {"op": "util1", "flip": flip, "fs0": two1, "arr": content1(3), "p": [10], "abs": False, "ow": flip, "hd": [], "k": k}
            objs = [[content2(2, 3), mask, [1.0, 1.0]], [content2(3, 1), falses(3, 1), [0.5, 0.5]], [content2(1, 4), [[True, False, False, True]], [2.0, 2.0]]]
            objs1 = [[content1(4), [False, True, False, False], 0.5], [content1(2), [False, False], 2.0], [content1(3), [True, False, True], 0.25]]
            for n in (1, 2, 3):
                if -n - 1 <= k <= n:
                    yield {"op": "multi2", "flip": flip, "objs": objs[:n], "k": k}
                    yield {"op": "multi1", "flip": flip, "objs": objs1[:n], "k": k}
    # 5. anisotropic pixel scales (PIXSCALEY / PIXSCALEX cards)
    for flip in (False, True):
        for sc in ([1.0, 2.0], [0.5, 0.25]):
            yield {"op": "hdu2", "flip": flip, "kd": "array", "vals": vals, "mask": mask, "sc": sc}
            yield {"op": "hdu2", "flip": flip, "kd": "kernel", "vals": vals, "mask": falses(2, 3), "sc": sc}
            yield {"op": "hdum2", "flip": flip, "mask": mask, "sc": sc}
            yield {"op": "file2", "flip": flip, "kd": "array", "vals": vals, "mask": mask, "sc": sc, "fs0": E, "p": [10], "abs": False, "ow": False, "k": 0}
            yield {"op": "filem2", "flip": flip, "mask": mask, "sc": sc, "fs0": E, "p": [10], "abs": False, "ow": False, "k": 0, "rs": None, "inv": False}
    # 6. Imaging
    psfs = [[[1.0, 2.0, 1.0], [0.0, 0.0, 0.0], [0.0, 3.0, 1.0]], [[0.5, 0.25, 0.25]], [[4.0], [-1.0], [1.0]], [[1.0]]]
    for j in range(60 if big else 24):
        h, w = rng.randint(1, 5), rng.randint(1, 5)
        mask = rand_mask(h, w, rng) if j % 2 else falses(h, w)
        if all(all(r) for r in mask): mask[0][0] = False
        noise = [[float(rng.choice([0.5, 1.0, 2.0, 4.0, 0.25])) for _ in range(w)] for _ in range(h)]
        old_psf = {"data": [[0.5, 0.25, 0.25]], "hdr": [["PIXSCALE", 8.0]]}        # sums to one: its renormalisation is exact
        fs0 = E if j % 3 else {"dirs": [[1]], "files": [[[1, 11], [old_psf]], [[12], [old_hdu(2, 2)]]]}   # psf / noise-map targets exist
        yield {"op": "imaging", "flip": j % 4 < 2, "mask": mask, "data": content2(h, w, rng), "noise": noise, "psf": psfs[j % 4], "sc": [0.5, 0.25] if j % 5 == 0 else [0.5, 0.5],
               "fs0": fs0, "pd": [1, 10], "pp": [1, 11] if j % 3 == 0 else [2, 11], "pn": [12], "abs": j % 2 == 0, "ow": j % 6 == 0, "chk": j % 2 == 0}
    # 7. random larger cases with special magnitudes
    scen2 = fs_scenarios(2); scen1 = fs_scenarios(1)
    for j in range(3000 if big else 260):
        h, w = rng.randint(1, 9), rng.randint(1, 9)
        flip = rng.random() < 0.5
        sp = rng.random() < 0.4
        vals = content2(h, w, rng, sp); mask = rand_mask(h, w, rng) if rng.random() < 0.6 else falses(h, w)
        s = rng.choice(SCALES); sc = [s, s] if rng.random() < 0.7 else [s, rng.choice(SCALES)]
        fs0, p = rng.choice(scen2); ow = rng.random() < 0.5; ab = rng.random() < 0.5
        t = j % 8
        if t == 0: yield {"op": "file2", "flip": flip, "kd": "array", "vals": vals, "mask": mask, "sc": sc, "fs0": fs0, "p": p, "abs": ab, "ow": ow, "k": rng.choice([0, 0, -1])}
        elif t == 1: yield {"op": "hdu2", "flip": flip, "kd": rng.choice(["array", "kernel"]), "vals": vals, "mask": falses(h, w), "sc": sc}
        elif t == 2: yield {"op": "hdu2", "flip": flip, "kd": "array", "vals": vals, "mask": mask, "sc": sc}
        elif t == 3:
            rs = rng.choice([None, None, [h, w], [rng.randint(1, 9), rng.randint(1, 9)]])
            yield {"op": "filem2", "flip": flip, "mask": mask, "sc": sc, "fs0": fs0, "p": p, "abs": ab, "ow": ow, "k": 0, "rs": rs, "inv": rng.random() < 0.5}
        elif t == 4: yield {"op": "util2", "flip": flip, "fs0": fs0, "arr": vals, "p": p, "abs": ab, "ow": ow, "hd": [["PIXSCALE", s]], "k": rng.choice([0, -1])}
        elif t == 5:
            fs1, p1 = rng.choice(scen1)
            yield {"op": "file1", "flip": flip, "vals": vals[0], "mask": mask[0], "sc": s, "fs0": fs1, "p": p1, "abs": ab, "ow": ow, "k": 0}
        elif t == 6: yield {"op": "hdu1", "flip": flip, "vals": vals[0], "mask": mask[0], "sc": s}
        else: yield {"op": "file2", "flip": flip, "kd": "kernel", "vals": vals, "mask": falses(h, w), "sc": sc, "fs0": fs0, "p": p, "abs": ab, "ow": ow, "k": 0}
