(* C07 -- AbstractInversion.regularization_term  s_r^T H_r s_r  is the sum, over the regularized objects in list order, of the
   quadratic forms of the objects' own matrices on their slices of the reconstruction (objects without regularization contribute
   nothing, wherever they stand). *)
From Coq Require Import ZArith List Bool Reals Lra Lia Arith.
From PAV Require Import Base.Res Base.Check Base.NumOps Base.Sum Model.C07 Proofs.C07.
Import ListNotations.
Local Open Scope R_scope.

Lemma term_gen t : objs_ok t -> forall off (x : list R), length x = totalp t ->
  block_quad (map (@obj_matrix ROps) (filter (@has_reg ROps) t)) (del off x (nriR off t)) = @term_blocks ROps t x.
Proof.
  induction 1 as [|[p r] t Ho HT IH]; intros off x HL; [reflexivity|].
  cbn [totalp fst] in HL. cbn [term_blocks no_reg_indexes].
  assert (L1 : length (firstn p x) = p) by (apply firstn_length_le; lia).
  assert (L2 : length (skipn p x) = totalp t) by (rewrite skipn_length; lia).
  rewrite <- (firstn_skipn p x) at 1. rewrite del_app, L1.
  rewrite (del_ext (off + p) (skipn p x) _ (nriR (off + p) t)).
  2:{ intros i Hi. split; [|intros H; apply in_or_app; right; exact H]. intros H. apply in_app_or in H. destruct H as [H|H]; [|exact H].
      destruct r; [destruct H|]. apply in_seq in H. lia. }
  destruct r as [H|]; cbn [filter has_reg snd map block_quad add ROps].
  - cbn [snd fst] in Ho. destruct Ho as [WL WF].
    rewrite del_none by (intros i Hi H1; rewrite L1 in Hi; cbn [app] in H1; apply nri_range in H1; lia).
    cbn [obj_matrix snd]. tr. rewrite WL.
    assert (E1 : firstn p (firstn p x ++ del (off + p) (skipn p x) (nriR (off + p) t)) = firstn p x).
    { rewrite firstn_app, L1, Nat.sub_diag, firstn_O, app_nil_r. rewrite <- L1 at 1. apply firstn_all. }
    assert (E2 : skipn p (firstn p x ++ del (off + p) (skipn p x) (nriR (off + p) t)) = del (off + p) (skipn p x) (nriR (off + p) t)).
    { rewrite skipn_app, L1, Nat.sub_diag. rewrite (skipn_all2 (firstn p x)) by lia. reflexivity. }
    rewrite E1, E2, (IH (off + p)%nat _ L2). reflexivity.
  - rewrite del_all by (intros i Hi; rewrite L1 in Hi; apply in_or_app; left; apply in_seq; lia).
    cbn [app]. rewrite (IH (off + p)%nat _ L2). unfold zero. cbn [ofZ ROps]. tr. lra.
Qed.
Theorem T_reg_term objs (x : list R) : objs_ok objs -> length x = totalp objs ->
  @reg_term ROps objs x = @term_blocks ROps objs x.
Proof.
  intros H HL. unfold reg_term. rewrite T_reduced by exact H. unfold inversion_matrix.
  destruct (objs_blocks_square _ (filter_objs_ok objs H)) as [SQ _].
  rewrite block_diag_quad by exact SQ. rewrite delete_idx_del. apply term_gen; assumption.
Qed.
(* non-negative as soon as every regularized block is positive semi-definite *)
Lemma term_blocks_nonneg objs : Forall (fun o : nat * option Rmat => match snd o with Some H => forall y, 0 <= @quad ROps H y | None => True end) objs ->
  forall x, 0 <= @term_blocks ROps objs x.
Proof.
  induction 1 as [|[p r] t Ho HT IH]; intros x; cbn [term_blocks]; [unfold zero; cbn [ofZ ROps]; tr; lra|].
  cbn [add ROps]. specialize (IH (skipn p x)). destruct r as [H|]; cbn [snd] in Ho; [specialize (Ho (firstn p x)); tr; lra|unfold zero; cbn [ofZ ROps]; tr; lra].
Qed.
