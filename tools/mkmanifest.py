#!/usr/bin/env python3
"""Assemble /verif/MANIFEST.json from props/Cnn.json fragments (one per claimed property)."""
import json, glob, os
V = os.path.dirname(os.path.dirname(os.path.abspath(__file__)))
base = json.load(open("/root/.vp/BASELINE.json"))
ids = [json.loads(l)["id"] for l in open(os.path.join(V, "properties.jsonl"))]
frags = {}
for p in sorted(glob.glob(os.path.join(V, "props", "C*.json"))):
    f = json.load(open(p)); frags[f["property_id"]] = f
na_reasons = {}
nap = os.path.join(V, "props", "not_applicable.json")
if os.path.exists(nap): na_reasons = json.load(open(nap))
hooks_commits = []
hp = os.path.join(V, "props", "hooks.json")
if os.path.exists(hp): hooks_commits = json.load(open(hp))["source_commits"]
checks = []
for i in ids:
    if i not in frags: continue
    f = frags[i]
    checks.append({
        "property_id": i,
        "quick_cmd": f"./vcheck {i} --tier quick",
        "thorough_cmd": f"./vcheck {i} --tier thorough",
        "evidence_file": f"/verif/evidence/{i}.json",
        "replay_cmd_template": f"./vcheck {i} --replay {{path}}",
        "engine": "coq-proof+correspondence",
        "level_claimed": {"category": "proof", "text": f["level_text"], "design_ref": f.get("design_ref", "DESIGN.md section 5, " + i)},
        "level_note": f["level_note"],
        "technique": f["technique"],
    })
man = {
    "version": 1,
    "setup_cmd": "./vcheck --setup",
    "hooks": {
        "guard": "PYAUTOARRAY_VERIF",
        "enable": "not used: the checks need no source hooks in /repo (the variable is exported by vcheck but nothing in /repo reads it)",
        "baseline_off_cmd": base["cmd"].replace("--junitxml=<file>", "--junitxml=/tmp/pav_baseline.xml"),
        "source_commits": hooks_commits,
        "add_only": True,
    },
    "engines": [{
        "name": "coq-proof+correspondence", "path": "/verif/vcheck",
        "serves_properties": [c["property_id"] for c in checks],
        "kind_free_text": "Coq 8.16.1 theorems (coq/Props) about executable Gallina models (coq/Model, and coq/Gen regenerated "
                          "from /repo by py2v), tied to /repo by a differential correspondence run whose comparison is "
                          "evaluated inside Coq by vm_compute (coq/Base/Check.v)",
    }],
    "checks": checks,
    "notes": "See DESIGN.md. Every check: (1) regenerates translator output, rebuilds the Coq development with a full .vo build and "
             "re-checks the property's theorem file, (2) runs implementation and model on the same generated inputs, "
             "(3) on any broken proof / disagreement searches for a concrete failing input using the specification side of "
             "the theorem. known_findings.json lists recorded defects.",
    "not_applicable": [{"property_id": i, "reason": na_reasons.get(i, "not claimed yet: the model/proof for this property has not been built in this development so far (plan in DESIGN.md section 5)")}
                       for i in ids if i not in frags],
}
json.dump(man, open(os.path.join(V, "MANIFEST.json"), "w"), indent=1)
# known_findings.json is assembled from props/*.findings.json (one fragment per property: no merge conflicts between branches)
allf = []
for p in sorted(glob.glob(os.path.join(V, "props", "*.findings.json"))):
    allf += json.load(open(p))["findings"]
json.dump({"_comment": "assembled by tools/mkmanifest.py from props/*.findings.json; never written at check time. status 'fixed' entries suppress nothing; status 'known' entries are matched on 'key' (the input class computed by the harness).",
           "findings": allf}, open(os.path.join(V, "known_findings.json"), "w"), indent=1)
print("claimed:", [c["property_id"] for c in checks])
