"""C18 -- border relocation only pulls outliers radially inward to the border.

Coordinates in the JSON inputs are integers k meaning k/den (den = inp["den"], a power of two, default 16; so that
every double operation of the implementation except sqrt, the division by the number of border points and the final
move is exact).  den = 64 / 256 gives border radii well below 1.0 (squared vs un-squared radius mix-ups show).

op "hist" is a HISTORY: BorderRelocator objects on one Mask2D object, a pool of data-grid / mesh-grid objects, and a
sequence of calls on them (any order, the same object for several different grids, results of earlier calls used as
later inputs, in-place edits of a grid by the caller between calls, preloaded data grids); every call is judged on
its own current arguments (Model/C18.v run_history / pure_call, theorem C18_history_is_stateless)."""
import itertools, math
from fractions import Fraction
import numpy as np
from harness.common import cz, cq, cnat, cbool, clist, ctup, copt, cres, call_res, import_aa, frac, exn_name

ID = "C18"
GEN = []
PROPS = "Props/C18.v"
COQ_CHECK = ("Model.C18", "check")
COQ_FALLBACK = ("Model.C18", "spec_ok")
COQ_IMPORTS = "From PAV Require Import Base.NumOps."
SHARD = 250
DEN = 16
RULE = ("(k) INPUT KINDS, drawn independently for every coordinate array of a call (data grid, mesh grid, border of the util "
        "function, every pooled grid of a history): float64, float32, int64 / int32 ndarrays, Python lists of ints / floats "
        "(lists, tuples), a strided view into a larger array of the caller, Fortran order; integer-typed arrays take "
        "denominator 1 and meet float-typed partners with fractional values (own denominator per array) and the reverse "
        "(integer mesh vertices on a float data grid); float32 data grids are scaled by the number of border pixels so that "
        "np.mean of the float32 border is exact (else run as float64, counted), decisions on float32 squared distances "
        "closer than 1e-5 are skipped; every kind must give the float64 result of the model (1e-9, untouched points "
        "numerically identical).  Containers: Grid2DIrregular, its subclass Grid2DIrregularUniform, Grid2D, a plain ndarray, a Mesh2DDelaunay "
        "object as mesh grid, derived (arithmetic) and native->slim structures, also integer-typed.  Sub-size maps: int, "
        "int64 / int32 / float64 / float32 ndarray, int / float Array2D, Python lists of ints / floats; op radial: the map "
        "is what OverSamplingUniform.from_radial_bins returns (float64 Array2D) and the relocator is "
        "GridsDataset(mask, OverSamplingDataset(pixelization=...)).border_relocator, data grid = a distorted grid or the "
        "dataset's own over_sampler_pixelization.over_sampled_grid object.  Masks include single-pixel, 1xN, Nx1 and 1x1; "
        "empty mesh grids.  After every call: containers, the caller's arrays / lists they were built from, the rest of a "
        "larger array around a view, the caller's Preloads() object handed to several calls and the shared DEFAULT "
        "Preloads() objects of relocated_grid_from / mapper_grids_from are compared with their state before.  "
        "(h) histories (op hist): 1-2 BorderRelocator objects on one Mask2D object (sub-size maps equal, permuted or "
        "different), 2-5 data grids and 2-3 mesh grids, 3-9 calls in random order through BorderRelocator, "
        "AbstractMesh.relocated_grid_from / relocated_mesh_grid_from, Delaunay/Voronoi/Rectangular mapper_grids_from with and "
        "without preloads.relocated_grid, reads of sub_border_slim / sub_border_grid in between, results kept and used as "
        "later data grids, containers Grid2DIrregular over the caller's ndarray / Grid2D / results of arithmetic, in-place "
        "edits of a grid between calls; after every call all pooled objects are compared with their tracked contents "
        "(no argument is written); half of the histories start with relocated_grid_from(G1) followed by a mesh relocation "
        "for another grid G2.  (s) power-of-two scale equivariance (2^-40 .. 2^40) of the util function and the class, "
        "bit for bit on untouched points.  (a) util relocated_grid_via_jit_from: exhaustive small lattice borders x all lattice points, plus random borders "
        "(convex, non-convex, off-centre, duplicated points) with grids of far outliers, interior points, points exactly "
        "at border points / at the centroid; (b) BorderRelocator.relocated_grid_from / relocated_mesh_grid_from and "
        "Delaunay/Voronoi/Rectangular mapper_grids_from on random and structured masks (<= 7x7), sub-size maps from {1,2,4} given as "
        "int / ndarray / Array2D, grids = distorted (affine + jitter) over-sampled grids with outliers; (c) sub_border_slim "
        "(util + class), sub_border_grid, border_slim_indexes_from on ALL masks with H*W <= 9 (quick) / 11 (thorough) and "
        "random larger ones; (d) furthest_grid_2d_slim_index_from on lattice grids with ties. sqrt results compared to "
        "1e-9; a case with a decision (radius vs smallest border radius, nearest-border radius vs own radius) inside a "
        "1e-6 band between non-identical coordinates is skipped and counted (kind skipped_band). distinct = distinct JSON "
        "input; non-trivial = not skipped, not an empty grid.")
EXHAUSTIVE = {
    "quick": "hand-made histories replays/C18/corpus/hist_*.json (relocate G1 then mesh of G2: direct / AbstractMesh / preloaded mapper; "
             "relocate-edit-relocate; two objects of one mask with permuted sub-size maps); all boolean masks of all shapes with H*W <= 9 (sub_border_slim with sub-size 1, 2 and one random {1,2,4} map; "
             "border_slim_indexes_from); util relocation: all 3-point borders on the {-1,0,1}^2 lattice against all 25 points of "
             "{-2..2}^2",
    "thorough": "as quick with H*W <= 11 and all 3- and 4-point borders on the {-1,0,1}^2 lattice",
}
TRUSTED = ["correspondence harness harness/c18.py (generators, Fraction(float) conversion, decision-band filter computed "
           "exactly in Fractions)",
           "QOps.sqrtT = Qsqrt_approx (rational sqrt, 2^-64 relative accuracy): execution device of the correspondence run "
           "only, no theorem mentions it",
           "numpy element-wise arithmetic, np.mean / np.min / np.argmin (first minimiser), fancy indexing grid[idx], "
           "Grid2DIrregular / Mask2D / Array2D containers (exercised by the correspondence run)"]
ASSUMPTIONS = ["theorems are over the real numbers (no rounding): in floating point a coordinate whose radius equals the "
               "smallest border radius up to rounding, without being numerically identical to that border point, may be "
               "moved by one ulp; such inputs are inside the excluded 1e-6 band",
               "numba absent: the jit functions run as plain Python/numpy"]

STATS = {"f4_downgraded": 0, "skipped_band": 0, "points": 0, "moved": 0, "interior": 0, "outside_kept": 0, "at_border": 0}
def extra_evidence():
    return {"skipped_in_band": STATS["skipped_band"], "float32_cases_run_as_float64": STATS["f4_downgraded"], "relocation_points": STATS["points"],
            "points_moved": STATS["moved"], "points_interior_untouched": STATS["interior"],
            "points_outside_min_radius_kept": STATS["outside_kept"], "points_identical_to_a_border_point": STATS["at_border"]}

# ----------------------------------------------------------------------------- printing
def F(p, den=DEN): return (Fraction(int(p[0]), den), Fraction(int(p[1]), den))
def Fs(l, den=DEN): return [F(p, den) for p in l]
def cptF(p): return ctup([cq(p[0]), cq(p[1])])
def cptsF(l): return clist([cptF(p) for p in l])
def cpt16(p, den=DEN): return cptF(F(p, den))
def cpts16(l, den=DEN): return cptsF(Fs(l, den))
def cptf(p): return ctup([cq(frac(p[0])), cq(frac(p[1]))])
def cptsf(l): return clist([cptf(p) for p in l])
def cmask(m): return clist([clist([cbool(v) for v in row]) for row in m])
def cnats(l): return clist([cnat(v) for v in l])
def arr16(l, den=DEN): return np.array([[p[0] / den, p[1] / den] for p in l], dtype=float).reshape(-1, 2)
def arrF(l): return np.array([[float(p[0]), float(p[1])] for p in l], dtype=float).reshape(-1, 2)
def pts_out(a): return [[float(v[0]), float(v[1])] for v in np.asarray(a).reshape(-1, 2)]
def fr_pts(a): return [(Fraction(float(v[0])), Fraction(float(v[1]))) for v in np.asarray(a).reshape(-1, 2)]

# ----------------------------------------------------------------------------- input KINDS of a coordinate array
# f8 (the usual float64 ndarray), f4 (float32), i8 / i4 (integer ndarrays; den must be 1), pylist / pytuples (lists of
# Python ints if den == 1, of Python floats otherwise; containers only), f8view (a strided view into a larger array of
# the caller), f8F (Fortran order).  The relocation of every kind must be the float64 computation on the same numbers.
INT_KINDS = ("i8", "i4")
LIST_KINDS = ("pylist", "pytuples")
VIEW_FILL = 7.25
def mk_vals(pts, den, kind):
    """the caller's coordinates k/den as an object of the given kind"""
    if kind in LIST_KINDS:
        conv = (lambda k: int(k)) if den == 1 else (lambda k: k / den)
        return [[conv(p[0]), conv(p[1])] for p in pts] if kind == "pylist" else [(conv(p[0]), conv(p[1])) for p in pts]
    if kind in INT_KINDS:
        if den != 1: raise ValueError("integer coordinates need den = 1")
        return np.array([[int(p[0]), int(p[1])] for p in pts], dtype=np.int64 if kind == "i8" else np.int32).reshape(-1, 2)
    a = arr16(pts, den)
    if kind == "f8": return a
    if kind == "f4": return a.astype(np.float32)
    if kind == "f8F": return np.asfortranarray(a)
    if kind == "f8view":
        big = np.full((2 * len(a) + 1, 3), VIEW_FILL); v = big[1::2, :2]; v[:, :] = a
        return v
    raise ValueError(kind)
def view_intact(v):
    """f8view: nothing but the view's own cells was written in the caller's larger array"""
    big = getattr(v, "base", None)
    if big is None or big.ndim != 2 or big.shape != (2 * len(v) + 1, 3) or v.strides == big[:len(v), :2].strides: return True
    chk = big.copy(); chk[1::2, :2] = VIEW_FILL
    return bool((chk == VIEW_FILL).all())
def rand_kind(rng, ints, lists=True, f4=True):
    if ints: ks = ["i8", "i8", "i4", "i4", "f8", "f8"] + (["pylist", "pytuples"] if lists else [])
    else: ks = ["f8"] * 4 + ["f8view", "f8F"] + (["f4"] * 3 if f4 else []) + (["pylist"] if lists else [])
    return rng.choice(ks)
def f32_exact(fr):
    """the Fraction is a float32 number"""
    try: return Fraction(float(np.float32(float(fr)))) == fr
    except OverflowError: return False
def centroid_f32_exact(B):
    n = len(B)
    return n == 0 or (f32_exact(sum(b[0] for b in B) / n) and f32_exact(sum(b[1] for b in B) / n))
def py_border_count(m):
    """number of border pixels of a mask (generator side only: float32 data grids are scaled by it, so that np.mean of
    the float32 border is exact; checked again at run time against the implementation's sub_border_slim)"""
    h, w = len(m), len(m[0]); n = 0
    get = lambda y, x: True if (y < 0 or x < 0 or y >= h or x >= w) else bool(m[y][x])
    for y in range(h):
        for x in range(w):
            if m[y][x]: continue
            edge = any(get(y + dy, x + dx) for dy in (-1, 0, 1) for dx in (-1, 0, 1) if (dy, dx) != (0, 0))
            if not edge: continue
            if (all(m[k][x] for k in range(0, y)) or all(m[y][k] for k in range(x + 1, w))
                    or all(m[k][x] for k in range(y + 1, h)) or all(m[y][k] for k in range(0, x))): n += 1
    return n

# ----------------------------------------------------------------------------- decision band (exact)
def in_band(grid16, border16, den=DEN, tally=True, d2tol=None):
    return in_band_F(Fs(grid16, den), Fs(border16, den), tally, d2tol)

def in_band_F(G, B, tally=True, d2tol=None):
    """True if some decision of the relocation of grid G against border B (exact Fractions) is closer than 1e-6 between
    coordinates that are not numerically identical.  Also tallies the kinds of point."""
    n = len(B)
    if n == 0: return False
    cy = sum(b[0] for b in B) / n; cx = sum(b[1] for b in B) / n
    r2 = lambda p: (p[0] - cy) ** 2 + (p[1] - cx) ** 2
    br2 = [r2(b) for b in B]
    bmin2 = min(br2); bmin = math.sqrt(bmin2)
    minimal = {B[i] for i in range(n) if br2[i] == bmin2}
    bset = set(B)
    inexact = d2tol is not None or any(c.denominator > (1 << 16) for q in list(G) + list(B) for c in q)
    if d2tol is None: d2tol = 1e-9          # float32 operands: the squared distances are float32 numbers (d2tol = 1e-5)
    tal = {"points": 0, "moved": 0, "interior": 0, "outside_kept": 0, "at_border": 0}
    for p in G:
        rp2 = r2(p); rp = math.sqrt(rp2)
        tal["points"] += 1
        if p in bset: tal["at_border"] += 1
        if p in minimal:
            tal["interior"] += 1; continue
        if abs(rp - bmin) < 2e-6 * max(1.0, bmin): return True
        if rp2 <= bmin2:
            tal["interior"] += 1; continue
        d2 = [(p[0] - b[0]) ** 2 + (p[1] - b[1]) ** 2 for b in B]
        k = d2.index(min(d2))
        if B[k] == p:
            tal["outside_kept"] += 1; continue
        rb = math.sqrt(br2[k])
        if abs(rb - rp) < 2e-6 * max(1.0, rp): return True
        if inexact:      # results of earlier calls as inputs: the squared distances are rounded by the implementation
            for j in range(n):
                if br2[j] != br2[k] and abs(float(d2[j] - d2[k])) <= d2tol * max(1.0, float(d2[k])): return True
        tal["moved" if rb < rp else "outside_kept"] += 1
    if tally:
        for k, v in tal.items(): STATS[k] += v
    return False

# ----------------------------------------------------------------------------- generators
def all_masks(h, w):
    for bits in itertools.product((0, 1), repeat=h * w):
        yield [list(bits[r * w:(r + 1) * w]) for r in range(h)]

def npix(m): return sum(1 for row in m for v in row if not v)

def rand_mask(rng):
    kind = rng.choice(["random", "disc", "ring", "ell", "blob", "full", "comb"] * 3 + ["single", "row", "col"])
    h, w = rng.randint(3, 7), rng.randint(3, 7)
    if kind == "row": h = 1; kind = rng.choice(["random", "full"])          # size-1 dimensions
    elif kind == "col": w = 1; kind = rng.choice(["random", "full"])
    elif rng.random() < 0.04: h = w = 1; kind = "full"
    m = [[1] * w for _ in range(h)]
    if kind == "single":            # one unmasked pixel: a one-point border of radius 0 for sub-size 1
        m[rng.randrange(h)][rng.randrange(w)] = 0
        return m
    if kind == "random":
        p = rng.choice([0.3, 0.5, 0.7])
        m = [[1 if rng.random() < p else 0 for _ in range(w)] for _ in range(h)]
    elif kind in ("disc", "ring"):
        cy, cx = rng.uniform(0, h - 1), rng.uniform(0, w - 1)      # off-centre on purpose
        ro = rng.uniform(1.0, max(h, w) / 2 + 0.5); ri = ro * rng.uniform(0.3, 0.6) if kind == "ring" else -1
        for y in range(h):
            for x in range(w):
                d = math.hypot(y - cy, x - cx)
                if ri < d <= ro: m[y][x] = 0
    elif kind == "ell":
        a, b = rng.randint(1, h - 1), rng.randint(1, w - 1)
        for y in range(h):
            for x in range(w):
                if y >= a or x < b: m[y][x] = 0
        if rng.random() < 0.5: m = [row[::-1] for row in m]
    elif kind == "blob":
        y, x = rng.randrange(h), rng.randrange(w)
        for _ in range(rng.randint(3, 14)):
            m[y][x] = 0
            dy, dx = rng.choice([(0, 1), (1, 0), (0, -1), (-1, 0)])
            y = min(h - 1, max(0, y + dy)); x = min(w - 1, max(0, x + dx))
    elif kind == "full":
        m = [[0] * w for _ in range(h)]
        if rng.random() < 0.5 and h > 2 and w > 2:
            for y in range(h): m[y][0] = m[y][w - 1] = 1
            for x in range(w): m[0][x] = m[h - 1][x] = 1
    elif kind == "comb":
        for y in range(h):
            for x in range(w):
                if y == h - 1 or x % 2 == 0: m[y][x] = 0
    if npix(m) == 0: m[rng.randrange(h)][rng.randrange(w)] = 0
    return m

# forms of the per-pixel sub-size map: integer- and FLOAT-typed (what OverSamplingUniform.from_radial_bins produces:
# a float64 Array2D), ndarray / Array2D / Python lists
SUB_MAP_KINDS = ["ndarray", "array2d", "ndarray_f8", "array2d_f8", "ndarray_f4", "ndarray_i4", "pylist", "pylist_f"]
def rand_sub(rng, n):
    k = rng.random()
    if k < 0.2: return {"kind": "int", "v": rng.choice([1, 1, 2, 4] if n <= 12 else [1, 2])}
    vals = [1, 2, 4] if n <= 8 else [1, 1, 2]
    return {"kind": rng.choice(SUB_MAP_KINDS), "v": [rng.choice(vals) for _ in range(n)]}
def sub_list(sub, n): return [sub["v"]] * n if sub["kind"] == "int" else list(sub["v"])
def make_sub(aa, sub, mask):
    """the sub_size argument of BorderRelocator in the form named by sub['kind']"""
    k = sub["kind"]; v = sub["v"]
    if k == "int": return int(v)
    if k == "ndarray": return np.array(v, dtype=int)
    if k == "array2d": return aa.Array2D(values=np.array(v, dtype=int), mask=mask)
    if k == "ndarray_f8": return np.array(v, dtype=float)
    if k == "array2d_f8": return aa.Array2D(values=np.array(v, dtype=float), mask=mask)
    if k == "ndarray_f4": return np.array(v, dtype=np.float32)
    if k == "ndarray_i4": return np.array(v, dtype=np.int32)
    if k == "pylist": return [int(x) for x in v]
    if k == "pylist_f": return [float(x) for x in v]
    raise ValueError(k)

def unit_sub_grid16(m, subs):
    """the over-sampled grid in pixel units (pure python, exact, times 16)"""
    h, w = len(m), len(m[0]); out = []; i = 0
    for y in range(h):
        for x in range(w):
            if not m[y][x]:
                s = subs[i]; i += 1
                for a in range(s):
                    for b in range(s):
                        out.append((Fraction(h - 1, 2) - y + Fraction(1, 2) - Fraction(2 * a + 1, 2 * s),
                                    x - Fraction(w - 1, 2) - Fraction(1, 2) + Fraction(2 * b + 1, 2 * s)))
    return out

def distort(rng, pts):
    """source-plane coordinates: affine map with dyadic coefficients + lattice jitter, a few far outliers"""
    mode = rng.choice(["affine", "affine", "random", "shear"])
    A = [[rng.choice([-2, -1, -0.5, 0.5, 1, 1, 2]), rng.choice([0, 0, 0.25, -0.5, 1])],
         [rng.choice([0, 0, -0.25, 0.5, -1]), rng.choice([-2, -1, 0.5, 1, 1, 2])]]
    t = [rng.randint(-40, 40), rng.randint(-40, 40)]
    out = []
    for (y, x) in pts:
        if mode == "random":
            out.append([rng.randint(-64, 64), rng.randint(-64, 64)]); continue
        yy = A[0][0] * float(y) + A[0][1] * float(x); xx = A[1][0] * float(y) + A[1][1] * float(x)
        out.append([int(round(yy * DEN)) + t[0] + rng.randint(-2, 2), int(round(xx * DEN)) + t[1] + rng.randint(-2, 2)])
    for _ in range(rng.randint(0, 3)):
        if out: out[rng.randrange(len(out))] = [rng.randint(-1024, 1024), rng.randint(-1024, 1024)]   # far outside
    for _ in range(rng.randint(0, 2)):
        if len(out) > 1: out[rng.randrange(len(out))] = list(out[rng.randrange(len(out))])              # coincident points
    return out

def rand_border(rng):
    kind = rng.choice(["circle", "nonconvex", "offcentre", "random", "dup", "line", "single", "sym", "sym"])
    n = rng.randint(3, 10)
    if kind == "sym":          # point-symmetric: the centroid is a lattice point; it may itself be a border point (radius 0)
        oy, ox = rng.randint(-32, 32), rng.randint(-32, 32); pts = []
        for _ in range(rng.randint(1, 4)):
            a, b = rng.randint(-40, 40), rng.randint(-40, 40)
            pts += [[oy + a, ox + b], [oy - a, ox - b]]
        if rng.random() < 0.4: pts.insert(rng.randrange(len(pts) + 1), [oy, ox])
        return pts
    if kind == "single": return [[rng.randint(-32, 32), rng.randint(-32, 32)]]
    if kind == "line": return [[rng.randint(-32, 32), 5] for _ in range(n)]
    R = rng.choice([16, 32, 48]); oy, ox = (rng.randint(-64, 64), rng.randint(-64, 64)) if kind != "circle" else (0, 0)
    pts = []
    for i in range(n):
        a = 2 * math.pi * (i + rng.random() * 0.5) / n
        rr = R * (rng.choice([0.3, 1.0]) if kind == "nonconvex" else 1.0)
        pts.append([oy + int(round(rr * math.sin(a))), ox + int(round(rr * math.cos(a)))])
    if kind == "random": pts = [[rng.randint(-48, 48), rng.randint(-48, 48)] for _ in range(n)]
    if kind == "dup": pts += [list(pts[0]), list(pts[1])]
    if kind == "offcentre": pts += [[oy + 200, ox + 8]]        # drags the centroid off the hull's centre
    return pts

def rand_points(rng, border, k):
    pts = []
    for _ in range(k):
        c = rng.random()
        if c < 0.08 and border and sum(b[0] for b in border) % len(border) == 0 and sum(b[1] for b in border) % len(border) == 0:
            pts.append([sum(b[0] for b in border) // len(border), sum(b[1] for b in border) // len(border)])   # the centroid itself
        elif c < 0.2 and border: pts.append(list(rng.choice(border)))                         # exactly at a border point
        elif c < 0.45: pts.append([rng.randint(-2048, 2048), rng.randint(-2048, 2048)])     # far outside
        elif c < 0.55 and border:
            b = rng.choice(border); pts.append([b[0] + rng.randint(-1, 1), b[1] + rng.randint(-1, 1)])   # next to the border
        else: pts.append([rng.randint(-64, 64), rng.randint(-64, 64)])
    return pts

def rescale(rng, pts, den_from, den_to):
    """the same positions (up to a jitter below the coarser lattice step) on the lattice of another denominator: lets an
    integer-typed array (den 1) meet a float-typed one with fractional values (den 16) in one call"""
    if den_to == den_from: return [list(p) for p in pts]
    if den_to > den_from:
        q = den_to // den_from; j = max(0, q // 2 - 1)
        return [[p[0] * q + rng.randint(-j, j), p[1] * q + rng.randint(-j, j)] for p in pts]
    return [[int(round(p[0] * den_to / den_from)), int(round(p[1] * den_to / den_from))] for p in pts]
def mixed_kind(rng, ints, den, lists=True):
    """(kind, den) of a second array of a call: mostly of the first one's family, sometimes of the other family
    (integer-typed array with a float-typed partner holding fractional values, and the reverse)"""
    if ints:
        k = "f8" if rng.random() < 0.3 else rand_kind(rng, True, lists)
        return (k, 16) if k == "f8" else (k, 1)
    if rng.random() < 0.25: return rng.choice(["i8", "i4"] + (["pylist"] if lists else [])), 1
    return rand_kind(rng, False, lists), den

def fix_centroid(pts, idx):
    """moves the first of the points pts[i], i in idx, so that their centroid is a lattice point (in place)"""
    idx = list(idx); n = len(idx)
    if n:
        for c in (0, 1): pts[idx[0]][c] -= sum(pts[i][c] for i in idx) % n
    return pts

def rel_case(rng, op, m, sub, subs):
    """one call through BorderRelocator / the mesh classes: the KINDS of the data grid and the mesh grid (dtype, list,
    view), their containers (Grid2DIrregular, its subclass Grid2DIrregularUniform, Grid2D, a Mesh2D object) are drawn
    independently; integer-typed coordinates take den = 1"""
    ints = rng.random() < 0.3
    den = 1 if ints else rng.choice([16, 64])
    gk = rand_kind(rng, ints); vk, vden = mixed_kind(rng, ints, den)
    grid = distort(rng, unit_sub_grid16(m, subs))
    if gk == "f4":                # np.mean of the float32 border grid[sub_border_slim] is exact (checked at run time)
        nb = max(1, py_border_count(m)); grid = [[y * nb, x * nb] for (y, x) in grid]
    mesh = rescale(rng, rand_points(rng, grid, rng.randint(1, 6)), den, vden) if rng.random() > 0.04 else []
    if not mesh and vk in LIST_KINDS: vk = "i8" if vden == 1 else "f8"       # an empty selection is an empty (0, 2) ndarray
    cont = ["irregular", "irregular"] + ([] if gk in LIST_KINDS else ["irruniform", "ndarray"] + (["grid2d"] * 2 if all(s == 1 for s in subs) else []))
    return {"op": op, "mask": m, "sub": sub, "grid": grid, "mesh": mesh, "den": den, "vden": vden,
            "mesh_kind": rng.choice(["Delaunay", "Voronoi", "Rectangular"] if op == "mapper" else ["Delaunay", "Voronoi"]),
            "container": rng.choice(cont), "gkind": gk, "vkind": vk,
            "vcontainer": "irregular" if vk in LIST_KINDS or not mesh else rng.choice(["irregular", "irregular", "mesh2d", "irruniform", "ndarray"])}

def gen_inputs(tier, rng):
    """deterministically shuffled, so that the (expensive) relocation cases are spread evenly over the Coq shards"""
    items = list(_gen_inputs(tier, rng))
    rng.shuffle(items)
    return items

def _gen_inputs(tier, rng):
    big = tier == "thorough"
    # ---- (a) util, exhaustive small; every 4th border with INTEGER-typed coordinate arrays (den = 1)
    lat = [(y, x) for y in (-1, 0, 1) for x in (-1, 0, 1)]
    allp = [[y * DEN, x * DEN] for y in range(-2, 3) for x in range(-2, 3)]
    for k in ((3, 4) if big else (3,)):
        for ci, comb in enumerate(itertools.combinations(lat, k)):
            inp = {"op": "util", "grid": allp, "border": [[y * DEN, x * DEN] for (y, x) in comb], "den": (16, 64, 256, 1)[ci % 4]}
            if inp["den"] == 1: inp.update(gkind=("i8", "i4")[ci // 4 % 2], bkind=("i4", "i8", "f8")[ci // 4 % 3])
            yield inp
    yield {"op": "util", "grid": allp[:3], "border": []}
    yield {"op": "util", "grid": [], "border": [[0, 0], [16, 0]]}
    # ---- (a) util, random; 30% integer-typed (int64 / int32 ndarrays, den = 1), float32, strided views, Fortran order
    for _ in range(1000 if big else 150):
        ints = rng.random() < 0.3
        den = 1 if ints else rng.choice([16, 64, 256])
        gk = rand_kind(rng, ints, lists=False); bk, bden = mixed_kind(rng, ints, den, lists=False)
        b = rand_border(rng)
        g = rand_points(rng, b, rng.randint(1, 10))
        b = rescale(rng, b, den, bden)
        if bk == "f4": fix_centroid(b, range(len(b)))       # np.mean of a float32 border is then exact
        yield {"op": "util", "grid": g, "border": b, "den": den, "bden": bden, "gkind": gk, "bkind": bk}
    # ---- (c) exhaustive masks
    lim = 11 if big else 9
    for h in range(1, lim + 1):
        for w in range(1, lim // h + 1):
            for m in all_masks(h, w):
                n = npix(m)
                yield {"op": "borderidx", "mask": m}
                if n == 0:
                    yield {"op": "subborder", "mask": m, "sub": {"kind": "int", "v": 1}, "via": "class"}
                    continue
                yield {"op": "subborder", "mask": m, "sub": {"kind": "int", "v": 1 + (n + h) % 2}, "via": "class" if (n + w) % 2 else "util"}
                yield {"op": "subborder", "mask": m, "sub": {"kind": "ndarray", "v": [rng.choice([1, 2, 4]) for _ in range(n)]},
                       "via": "util" if (n + w) % 2 else "class"}
    # ---- (b), (c) random masks through the public classes
    for i in range(1200 if big else 120):
        while True:
            m = rand_mask(rng); n = npix(m); sub = rand_sub(rng, n); subs = sub_list(sub, n)
            if sum(v * v for v in subs) <= (64 if big else 40): break
        op = ("reloc", "mesh", "mapper")[i % 3]
        yield rel_case(rng, op, m, sub, subs)
        if i % 3 == 0:
            yield {"op": "subborder", "mask": m, "sub": sub, "via": rng.choice(["class", "util"])}
            yield {"op": "subbordergrid", "mask": m, "sub": sub, "ps": rng.choice([[16, 16], [8, 8], [32, 16], [4, 32]]),
                   "origin": [rng.randint(-8, 8) * 4, rng.randint(-8, 8) * 4]}
            yield {"op": "borderidx", "mask": m}
    # ---- (r) sub-size maps made by OverSamplingUniform.from_radial_bins (FLOAT-typed Array2D), relocator = GridsDataset.border_relocator
    for i in range(240 if big else 36):
        m = rand_mask(rng)
        if len(m) * len(m[0]) > 36: m = [row[:6] for row in m[:6]]
        if npix(m) == 0: m[0][0] = 0
        ints = rng.random() < 0.3
        yield {"op": "radial", "what": ("reloc", "mesh", "mapper", "own")[i % 4], "mask": m,
               "ps": rng.choice([[16, 16], [8, 8], [32, 32]]), "origin": [rng.randint(-4, 4) * 4, rng.randint(-4, 4) * 4],
               "sub_size_list": rng.choice([[4, 2, 1], [2, 1], [4, 1], [2, 4, 1], [1, 2], [2, 2, 1]]),
               "radial_frac": sorted(rng.sample([3, 5, 9, 13, 19, 27, 35], 3)),     # bin radii in 1/8 pixel
               "seed": rng.randrange(1 << 30), "den": 1 if ints else 16, "vden": 16 if ints else rng.choice([1, 16, 16]),
               "gkind": rand_kind(rng, ints, f4=False), "vkind": None,
               "mesh_kind": rng.choice(["Delaunay", "Voronoi"])}
    yield {"op": "mapper", "mask": None, "sub": None, "grid": [[1, 2], [300, 4]], "mesh": [[5, 6]], "mesh_kind": "Delaunay",
           "container": "irregular"}
    # ---- (h) histories on BorderRelocator objects, (s) scale equivariance
    for _ in range(700 if big else 100): yield gen_hist(rng, big)
    for i in range(300 if big else 45):
        if i % 3: yield gen_scale(rng)
        else:
            while True:
                m = rand_mask(rng); n = npix(m); sub = rand_sub(rng, n); subs = sub_list(sub, n)
                if total_sub(subs) <= 32: break
            yield {"op": "scale", "via": "class", "mask": m, "sub": sub, "grid": distort(rng, unit_sub_grid16(m, subs)),
                   "den": rng.choice([16, 64]), "e": rng.choice([-40, -30, -27, -20, 20, 30, 40])}
    # ---- (d) furthest
    for _ in range(1500 if big else 200):
        n = rng.randint(1, 9); span = rng.choice([1, 2, 8])
        g = [[rng.randint(-span, span) * 8, rng.randint(-span, span) * 8] for _ in range(n)]
        idx = [rng.randrange(n) for _ in range(rng.randint(0, 6))]
        yield {"op": "furthest", "grid": g, "idx": idx, "c": [rng.randint(-span, span) * 4, rng.randint(-span, span) * 4]}

# ----------------------------------------------------------------------------- histories
def total_sub(subs): return sum(v * v for v in subs)

def gen_hist(rng, big):
    cap = 32 if big else 16
    while True:
        m = rand_mask(rng); n = npix(m); sub0 = rand_sub(rng, n); s0 = sub_list(sub0, n)
        if total_sub(s0) <= cap: break
    subs = [sub0]
    k = rng.random()
    if k < 0.35 and len(set(s0)) > 1:                                # same mask object, permuted sub-size map
        v = list(s0)
        while v == s0: rng.shuffle(v)
        subs.append({"kind": rng.choice(SUB_MAP_KINDS), "v": v})
    elif k < 0.45: subs.append(dict(sub0))                           # a second object with the same arguments
    elif k < 0.7:
        for _ in range(20):
            sub1 = rand_sub(rng, n)
            if total_sub(sub_list(sub1, n)) <= cap and sub_list(sub1, n) != s0: subs.append(sub1); break
    totals = [total_sub(sub_list(sb, n)) for sb in subs]
    ints = rng.random() < 0.3            # integer-typed coordinate arrays (and Python int lists) in the pool: den = 1
    den = 1 if ints else rng.choice([16, 64, 64])
    grids = []
    for r, sb in enumerate(subs):
        for _ in range(rng.randint(2, 3) if r == 0 else rng.randint(1, 2)):
            sl = sub_list(sb, n)
            kd = rand_kind(rng, ints, f4=False)
            cont = "irregular" if kd in LIST_KINDS else rng.choice(
                ["irregular", "irregular", "derived", "irruniform", "ndarray"] +
                (["grid2d", "derived2d", "slim2d"] if all(v == 1 for v in sl) else ["irregular", "derived"]))
            grids.append({"n": totals[r], "pts": distort(rng, unit_sub_grid16(m, sl)), "container": cont, "kind": kd})
    meshes = []
    for _ in range(rng.randint(2, 3)):
        g = rng.choice(grids)["pts"]
        kd, vd = mixed_kind(rng, ints, den)
        meshes.append({"pts": rescale(rng, rand_points(rng, g, rng.randint(1, 5)), den, vd), "kind": kd, "den": vd,
                       "container": "irregular" if kd in LIST_KINDS else rng.choice(["irregular", "derived", "mesh2d", "irruniform", "ndarray"])})
    # steps; pool indexes of kept results are known in advance (len(grids) + number of keeps so far)
    pool_n = [g["n"] for g in grids]
    def pick_grid(r, avoid=None):
        c = [i for i, nn in enumerate(pool_n) if nn == totals[r] and i != avoid]
        if not c: c = [i for i, nn in enumerate(pool_n) if nn == totals[r]]
        return rng.choice(c)
    steps = []
    tmpl = rng.random()
    if tmpl < 0.2:             # relocate, the caller edits the same grid object in place, relocate / use it again
        r = 0; g1 = pick_grid(r)
        steps.append({"do": "reloc", "r": r, "g": g1, "via": rng.choice(["rel", "meshapi"])})
        for _ in range(rng.randint(1, 2)):
            steps.append({"do": "edit", "g": g1, "j": rng.randrange(pool_n[g1]), "border": rng.random() < 0.5,
                          "p": [rng.randint(-1024, 1024), rng.randint(-1024, 1024)]})
        if rng.random() < 0.6: steps.append({"do": "reloc", "r": r, "g": g1, "via": rng.choice(["rel", "meshapi"])})
        else: steps.append({"do": "mesh", "r": r, "g": g1, "v": rng.randrange(len(meshes)), "via": rng.choice(["rel", "meshapi"])})
    elif tmpl < 0.35 and len(subs) > 1:     # the two objects of one mask alternate
        for r in rng.choice([(0, 1), (1, 0), (0, 1, 0)]):
            if rng.random() < 0.3: steps.append({"do": "subborder", "r": r})
            elif rng.random() < 0.5: steps.append({"do": "reloc", "r": r, "g": pick_grid(r), "via": "rel"})
            else: steps.append({"do": "mesh", "r": r, "g": pick_grid(r), "v": rng.randrange(len(meshes)), "via": "rel"})
    elif tmpl < 0.7:           # a grid is relocated, then the mesh of ANOTHER data grid on the same object
        r = 0; g1 = pick_grid(r); g2 = pick_grid(r, avoid=g1)
        steps.append({"do": "reloc", "r": r, "g": g1, "via": rng.choice(["rel", "meshapi", "mapper"])})
        k = rng.random()
        if k < 0.4: steps.append({"do": "mesh", "r": r, "g": g2, "v": rng.randrange(len(meshes)), "via": rng.choice(["rel", "meshapi"])})
        elif k < 0.7: steps.append({"do": "mapper", "r": r, "g": g1, "pre": g2, "v": rng.randrange(len(meshes)),
                                    "kind": rng.choice(["Delaunay", "Voronoi"])})
        else: steps.append({"do": "mapper", "r": r, "g": g2, "pre": None, "v": rng.randrange(len(meshes)),
                            "kind": rng.choice(["Delaunay", "Voronoi"])})
    for _ in range(rng.randint(2, 7)):
        r = rng.randrange(len(subs)); k = rng.random()
        if k < 0.27:
            st = {"do": "reloc", "r": r, "g": pick_grid(r), "via": rng.choice(["rel", "rel", "meshapi", "rect"]),
                  "shared": rng.random() < 0.4}
            if rng.random() < 0.35: st["keep"] = True; pool_n.append(totals[r])
            steps.append(st)
        elif k < 0.55:
            steps.append({"do": "mesh", "r": r, "g": pick_grid(r), "v": rng.randrange(len(meshes)), "via": rng.choice(["rel", "meshapi"])})
        elif k < 0.75:
            none_rel = rng.random() < 0.1
            steps.append({"do": "mapper", "r": None if none_rel else r, "g": pick_grid(r),
                          "pre": pick_grid(r) if rng.random() < 0.45 else None, "v": rng.randrange(len(meshes)),
                          "kind": rng.choice(["Delaunay", "Voronoi"]), "shared": rng.random() < 0.4})
        elif k < 0.81: steps.append({"do": "subborder", "r": r})
        elif k < 0.86: steps.append({"do": "subbordergrid", "r": r})
        elif k < 0.95:
            gi = rng.randrange(len(pool_n))
            steps.append({"do": "edit", "g": gi, "j": rng.randrange(pool_n[gi]),
                          "p": [rng.randint(-1024, 1024), rng.randint(-1024, 1024)] if rng.random() < 0.6 else
                               [rng.randint(-64, 64), rng.randint(-64, 64)]})
        else:
            vi = rng.randrange(len(meshes))
            steps.append({"do": "editmesh", "v": vi, "j": rng.randrange(len(meshes[vi]["pts"])),
                          "p": [rng.randint(-1024, 1024), rng.randint(-1024, 1024)]})
    return {"op": "hist", "mask": m, "subs": subs, "den": den, "ps": rng.choice([[16, 16], [8, 8], [32, 16]]),
            "origin": [rng.randint(-4, 4) * 4, rng.randint(-4, 4) * 4], "grids": grids, "meshes": meshes, "steps": steps}

def make_container(aa, kind, vals, mask):
    """returns (object handed to the implementation, the caller's ndarray it ALIASES or None)"""
    if isinstance(vals, list): return aa.Grid2DIrregular(values=vals), None                       # Python lists of ints / floats
    ints = vals.dtype.kind == "i"
    if kind == "irregular": return aa.Grid2DIrregular(values=vals), vals                          # aliases the caller's array
    if kind == "ndarray": return vals, vals                                                       # a plain ndarray, no container
    if kind == "irruniform":                                                                      # SUBCLASS of Grid2DIrregular
        return aa.Grid2DIrregularUniform(values=vals, shape_native=mask.shape_native, pixel_scales=mask.pixel_scales), None
    if kind == "mesh2d":                                                                          # a mesh object as the mesh grid
        from autoarray.structures.mesh.delaunay_2d import Mesh2DDelaunay
        return Mesh2DDelaunay(values=vals), None
    if kind == "grid2d": return aa.Grid2D(values=vals, mask=mask), None
    if kind == "slim2d": return aa.Grid2D(values=vals, mask=mask).native.slim, None               # native and back
    if ints:          # derived structures that keep the integer type
        if kind == "derived": return (aa.Grid2DIrregular(values=vals) + 3) - 3, None
        if kind == "derived2d": return (aa.Grid2D(values=vals, mask=mask) + 3) - 3, None
    if kind == "derived": return (aa.Grid2DIrregular(values=vals * 0.5 - 3.0) + 3.0) * 2.0, None  # exact in doubles
    if kind == "derived2d": return (aa.Grid2D(values=vals * 0.5 - 3.0, mask=mask) + 3.0) * 2.0, None
    raise ValueError(kind)

def same_pts(obj, cont):
    """the object (container, ndarray or list) holds exactly the tracked coordinates"""
    a = np.array(obj, dtype=float).reshape(-1, 2)
    return len(a) == len(cont) and (len(cont) == 0 or bool((a == arrF(cont)).all()))

def kind_tag(*ks):
    ks = [k for k in ks if k != "f8"]
    return "" if not ks else "_" + ("int" if any(k in INT_KINDS or k in LIST_KINDS for k in ks) else "f4" if "f4" in ks else "view")

_DEFAULTS = []
def default_objects(aa):
    """the shared DEFAULT argument objects (Preloads()) of the relocation entry points, with their state at import"""
    if not _DEFAULTS:
        import inspect
        from autoarray.inversion.pixelization.mesh.abstract import AbstractMesh
        fns = [AbstractMesh.relocated_grid_from, AbstractMesh.mapper_grids_from, aa.mesh.Delaunay.mapper_grids_from,
               aa.mesh.Voronoi.mapper_grids_from, aa.mesh.Rectangular.mapper_grids_from]
        seen = set()
        for fn in fns:
            for prm in inspect.signature(fn).parameters.values():
                d = prm.default
                if d is not inspect.Parameter.empty and hasattr(d, "__dict__") and id(d) not in seen:
                    seen.add(id(d)); _DEFAULTS.append((d, {k: id(v) for k, v in vars(d).items()}))
    return _DEFAULTS
def defaults_clean(aa):
    return all({k: id(v) for k, v in vars(d).items()} == fp for d, fp in default_objects(aa))

def run_hist(aa, inp, skipped):
    from autoarray.preloads import Preloads
    den = inp["den"]; m = inp["mask"]; n = npix(m)
    marr = np.array(m, dtype=bool)
    ps = tuple(v / DEN for v in inp["ps"]); org = tuple(v / DEN for v in inp["origin"])
    mask = aa.Mask2D(mask=marr, pixel_scales=ps, origin=org)
    def relocator(sub, msk): return aa.BorderRelocator(mask=msk, sub_size=make_sub(aa, sub, msk))
    rels = [relocator(sb, mask) for sb in inp["subs"]]                 # ONE Mask2D object
    subl = [sub_list(sb, n) for sb in inp["subs"]]
    # twins, used only to decide which calls fall into the undecided band (never handed to the calls under test)
    twin_mask = aa.Mask2D(mask=marr.copy(), pixel_scales=ps, origin=org)
    twin_sbs = [[int(v) for v in relocator(sb, twin_mask).sub_border_slim] for sb in inp["subs"]]
    first_sbs = [None] * len(rels)
    pool = []                                                          # [object, tracked contents (Fractions), caller's array]
    aliases = lambda obj, vals: isinstance(vals, np.ndarray) and np.shares_memory(np.asarray(obj), vals)
    callers = []                                                       # (the caller's own array / list, tracked contents) of non-aliased inputs
    for g in inp["grids"]:
        vals = mk_vals(g["pts"], den, g.get("kind", "f8"))
        obj, own = make_container(aa, g["container"], vals, mask)
        pool.append([obj, Fs(g["pts"], den), own])
        if own is None: callers.append((vals, pool[-1][1] if aliases(obj, vals) else Fs(g["pts"], den)))
    meshes = []
    for v in inp["meshes"]:
        vd = v.get("den", den)
        vals = mk_vals(v["pts"], vd, v.get("kind", "f8"))
        obj, own = make_container(aa, v["container"], vals, mask)
        meshes.append([obj, Fs(v["pts"], vd), own])
        if own is None: callers.append((vals, meshes[-1][1] if aliases(obj, vals) else Fs(v["pts"], vd)))
    # ONE Preloads() object of the caller (nothing preloaded) handed to several calls
    # (run_time_dict is left at None: the repo's default config has no general/profiling section, profile_func needs one)
    shared_pre = Preloads(); shared_fp = {k: id(x) for k, x in vars(shared_pre).items()}
    ok = True; notes = []; terms = []; outs = []; done = 0
    # ONE mesh object per kind for the whole history (AbstractMesh.relocated_grid_from and relocated_mesh_grid_from are called
    # on the same Delaunay object; the mappers on the Delaunay / Voronoi / Rectangular objects)
    MESH = {"Delaunay": aa.mesh.Delaunay(), "Voronoi": aa.mesh.Voronoi(), "Rectangular": aa.mesh.Rectangular(shape=(3, 3))}
    same = same_pts
    def audit(tag):
        nonlocal ok
        for i, (o, c, own) in enumerate(pool):
            if not same(o, c): ok = False; notes.append(f"{tag}: data grid {i} was written")
            if own is not None and not view_intact(own): ok = False; notes.append(f"{tag}: the array around data grid {i} was written")
        for i, (o, c, own) in enumerate(meshes):
            if not same(o, c): ok = False; notes.append(f"{tag}: mesh grid {i} was written")
            if own is not None and not view_intact(own): ok = False; notes.append(f"{tag}: the array around mesh grid {i} was written")
        for i, (vals, c) in enumerate(callers):
            if not same(vals, c): ok = False; notes.append(f"{tag}: the caller's array / list {i} was written")
        if {k: id(x) for k, x in vars(shared_pre).items()} != shared_fp:
            ok = False; notes.append(f"{tag}: the caller's Preloads() object was written")
        if not defaults_clean(aa): ok = False; notes.append(f"{tag}: a shared default argument object was written")
    def read_sbs(r, tag):
        nonlocal ok
        v = [int(k) for k in rels[r].sub_border_slim]
        if first_sbs[r] is None: first_sbs[r] = v
        elif v != first_sbs[r]: ok = False; notes.append(f"{tag}: sub_border_slim of relocator {r} changed")
    def border_of(cont, r): return [cont[k] for k in twin_sbs[r] if 0 <= k < len(cont)]
    pair = lambda v: ctup([cptsf(v[0]), cptsf(v[1])])
    for si, st in enumerate(inp["steps"]):
        do = st["do"]; tag = f"step {si} {do}"
        if do == "edit":
            if st["g"] >= len(pool): continue
            o, c, own = pool[st["g"]]; j = st["j"] % len(c); newp = F(st["p"], den)
            if st.get("border") and len(c) == total_sub(subl[0]) and twin_sbs[0]:
                j = twin_sbs[0][st["j"] % len(twin_sbs[0])]                     # a point of the border itself moves
                newp = (c[j][0] + Fraction(st["p"][0] % 9 - 4, den), c[j][1] + Fraction(st["p"][1] % 9 - 4, den))
            if own is not None: own[j] = [float(newp[0]), float(newp[1])]      # the caller writes into his own array
            else: o[j] = [float(newp[0]), float(newp[1])]
            c[j] = newp; audit(tag); continue
        if do == "editmesh":
            o, c, own = meshes[st["v"]]; j = st["j"] % len(c); newp = F(st["p"], inp["meshes"][st["v"]].get("den", den))
            if own is not None: own[j] = [float(newp[0]), float(newp[1])]
            else: o[j] = [float(newp[0]), float(newp[1])]
            c[j] = newp; audit(tag); continue
        r = st.get("r")
        if do in ("subborder", "subbordergrid"):
            if do == "subborder":
                out = call_res(lambda: [int(v) for v in rels[r].sub_border_slim])
                terms.append(f"(@CSubBorder QOps {cnat(r)}, @ONats QOps {cres(out, cnats)})")
            else:
                out = call_res(lambda: pts_out(rels[r].sub_border_grid))
                terms.append(f"(@CSubBorderGrid QOps {cnat(r)}, @OPts QOps {cres_pts(out)})")
            outs.append(out); read_sbs(r, tag); audit(tag); done += 1; continue
        gi = st["g"]
        if gi >= len(pool): continue
        gobj, gc, _ = pool[gi]
        rr = r if r is not None else 0
        if do == "reloc":
            if in_band_F(gc, border_of(gc, rr)): STATS["skipped_band"] += 1; continue
            via = st["via"]
            kw ={"preloads": shared_pre} if st.get("shared") else {}
            kwm = kw
            if via == "rel": f = lambda: rels[r].relocated_grid_from(grid=gobj)
            elif via == "meshapi": f = lambda: MESH["Delaunay"].relocated_grid_from(border_relocator=rels[r], source_plane_data_grid=gobj, **kw)
            elif via == "mapper": f = lambda: MESH["Voronoi"].mapper_grids_from(
                mask=mask, border_relocator=rels[r], source_plane_data_grid=gobj,
                source_plane_mesh_grid=aa.Grid2DIrregular(values=arrF(gc[:1])), **kwm).source_plane_data_grid
            else: f = lambda: MESH["Rectangular"].mapper_grids_from(
                mask=mask, border_relocator=rels[r], source_plane_data_grid=gobj, **kwm).source_plane_data_grid
            try: res = ("ok", f())
            except Exception as e:
                if via == "rect": continue                     # degenerate overlay: not a relocation matter
                res = ("raise", exn_name(e))
            out = ("ok", pts_out(res[1])) if res[0] == "ok" else res
            terms.append(f"(@CReloc QOps {cnat(r)} {cptsF(gc)}, @OPts QOps {cres_pts(out)})")
            outs.append(out)
            if st.get("keep"):
                if res[0] == "ok" and not np.shares_memory(np.asarray(res[1]), np.asarray(gobj)):
                    pool.append([res[1], fr_pts(res[1]), None])            # the returned object itself is used later
                else:
                    cp = aa.Grid2DIrregular(values=arrF(gc)); pool.append([cp, list(gc), None])
        elif do == "mesh":
            vobj, vc, _ = meshes[st["v"]]
            if in_band_F(vc, border_of(gc, rr)): STATS["skipped_band"] += 1; continue
            if st["via"] == "rel": f = lambda: pts_out(rels[r].relocated_mesh_grid_from(grid=gobj, mesh_grid=vobj))
            else: f = lambda: pts_out(MESH["Delaunay"].relocated_mesh_grid_from(
                border_relocator=rels[r], source_plane_data_grid=gobj, source_plane_mesh_grid=vobj))
            out = call_res(f)
            terms.append(f"(@CMesh QOps {cnat(r)} {cptsF(gc)} {cptsF(vc)}, @OPts QOps {cres_pts(out)})"); outs.append(out)
        elif do == "mapper":
            vobj, vc, _ = meshes[st["v"]]
            pre = st.get("pre")
            if pre is not None and pre >= len(pool): pre = None
            pc = pool[pre][1] if pre is not None else None
            if r is not None:
                if pre is None and in_band_F(gc, border_of(gc, r)): STATS["skipped_band"] += 1; continue
                if in_band_F(vc, border_of(pc if pre is not None else gc, r)): STATS["skipped_band"] += 1; continue
            M = MESH[st["kind"]]
            def f():
                kw = ({"preloads": shared_pre} if st.get("shared") else {}) if pre is None else {"preloads": Preloads(relocated_grid=pool[pre][0])}
                mg = M.mapper_grids_from(mask=mask, border_relocator=rels[r] if r is not None else None,
                                         source_plane_data_grid=gobj, source_plane_mesh_grid=vobj, **kw)
                return [pts_out(mg.source_plane_data_grid), pts_out(mg.source_plane_mesh_grid)]
            out = call_res(f)
            terms.append(f"(@CMapper QOps {copt(r, cnat)} {copt(pc, cptsF)} {cptsF(gc)} {cptsF(vc)}, @OPair QOps {cres(out, pair)})")
            outs.append(out)
        else: raise ValueError(do)
        if r is not None: read_sbs(r, tag)
        audit(tag); done += 1
    for r in range(len(rels)):
        if first_sbs[r] is None: read_sbs(r, "end")
    if done == 0: return skipped()
    rels_t = clist([ctup([cnats(subl[r]), cnats(first_sbs[r])]) for r in range(len(rels))])
    coq = f"(KHist {cmask(m)} {cpt16(inp['ps'])} {cpt16(inp['origin'])} {rels_t} {clist(terms)})"
    return dict(coq=coq, out=outs, py_ok=ok, nontrivial=True, kind="hist", detail="; ".join(notes) or None)

# ----------------------------------------------------------------------------- scale equivariance
def gen_scale(rng):
    b = rand_border(rng)
    inp = {"op": "scale", "border": b, "grid": rand_points(rng, b, rng.randint(2, 8)), "den": rng.choice([16, 64]),
           "e": rng.choice([-40, -30, -27, -20, 20, 30, 40]), "via": "util"}
    return inp

def run_scale(aa, inp, skipped):
    """relocation commutes with multiplication of all coordinates by 2^e (every floating-point operation of a
    relocation commutes with it, bar under/overflow): tiny (1e-12) and huge (1e12) magnitudes behave like unit ones"""
    from autoarray.structures.grids import grid_2d_util
    den = inp["den"]; k = 2.0 ** inp["e"]
    if inp["via"] == "util":
        if in_band(inp["grid"], inp["border"], den): return skipped()
        g, b = arr16(inp["grid"], den), arr16(inp["border"], den)
        f = lambda gg, bb: np.asarray(grid_2d_util.relocated_grid_via_jit_from(grid=gg, border_grid=bb))
        out = call_res(lambda: pts_out(f(g, b)))
        big = call_res(lambda: f(g * k, b * k))
        coq = f"(KUtil {cpts16(inp['grid'], den)} {cpts16(inp['border'], den)} {cres_pts(out)})"
        gin = g
    else:
        mask, rel = make_relocator(aa, inp)
        sbs = [int(v) for v in rel.sub_border_slim]
        grid16 = inp["grid"]
        border16 = [grid16[j] for j in sbs if 0 <= j < len(grid16)]
        if in_band(grid16, border16, den): return skipped()
        n = npix(inp["mask"]); subs = sub_list(inp["sub"], n)
        g = arr16(grid16, den)
        out = call_res(lambda: pts_out(rel.relocated_grid_from(grid=aa.Grid2DIrregular(values=g.copy()))))
        big = call_res(lambda: np.asarray(rel.relocated_grid_from(grid=aa.Grid2DIrregular(values=g * k))))
        coq = f"(KReloc {cmask(inp['mask'])} {cnats(subs)} {cnats(sbs)} {cpts16(grid16, den)} {cres_pts(out)})"
        gin = g
    ok = out[0] == big[0]
    if ok and out[0] == "ok":
        o = np.array(out[1]).reshape(-1, 2) * k; bg = np.asarray(big[1]).reshape(-1, 2)
        ok = o.shape == bg.shape and bool(np.all(np.abs(o - bg) <= 1e-12 * np.abs(o)))
        if ok:
            same = np.all(np.array(out[1]).reshape(-1, 2) == gin, axis=1)          # untouched at unit scale
            ok = bool(np.all(bg[same] == (gin * k)[same]))                         # then untouched, bit for bit, at 2^e
    return dict(coq=coq, out=[out, big[0] if big[0] != "ok" else pts_out(big[1])], py_ok=ok, nontrivial=True, kind="scale_" + inp["via"],
                detail=None if ok else "relocation at scale 2^e differs from 2^e times the relocation at unit scale")

# ----------------------------------------------------------------------------- implementation calls
def make_relocator(aa, inp):
    m = np.array(inp["mask"], dtype=bool)
    ps = tuple(v / DEN for v in inp.get("ps", [16, 16])); org = tuple(v / DEN for v in inp.get("origin", [0, 0]))
    mask = aa.Mask2D(mask=m, pixel_scales=ps, origin=org)
    return mask, aa.BorderRelocator(mask=mask, sub_size=make_sub(aa, inp["sub"], mask))

def cres_pts(x): return cres(x, cptsf)

def run_case(inp):
    aa = import_aa()
    from autoarray.structures.grids import grid_2d_util
    from autoarray.inversion.pixelization import border_relocator as br
    from autoarray.mask import mask_2d_util
    op = inp["op"]; den = inp.get("den", DEN)
    default_objects(aa)
    R = dict(py_ok=None, nontrivial=True, kind=op)
    def skipped():
        STATS["skipped_band"] += 1
        return dict(coq=None, out=None, py_ok=None, nontrivial=False, kind="skipped_band")
    if op == "util":
        gk, bk = inp.get("gkind", "f8"), inp.get("bkind", "f8"); bden = inp.get("bden", den)
        f4 = "f4" in (gk, bk)
        if in_band_F(Fs(inp["grid"], den), Fs(inp["border"], bden), d2tol=1e-5 if f4 else None): return skipped()
        if bk == "f4" and not centroid_f32_exact(Fs(inp["border"], bden)): bk = "f8"; STATS["f4_downgraded"] += 1
        g = mk_vals(inp["grid"], den, gk); g0 = g.copy(); b = mk_vals(inp["border"], bden, bk); b0 = b.copy()
        out = call_res(lambda: pts_out(grid_2d_util.relocated_grid_via_jit_from(grid=g, border_grid=b)))
        # the caller's arrays are not written (nor, for a strided view, the rest of the caller's larger array)
        R["py_ok"] = bool((g == g0).all() and (b == b0).all() and g.dtype == g0.dtype and view_intact(g) and view_intact(b))
        R.update(coq=f"(KUtil {cpts16(inp['grid'], den)} {cpts16(inp['border'], bden)} {cres_pts(out)})", out=out,
                 nontrivial=bool(inp["grid"]) and bool(inp["border"]), kind="util" + kind_tag(gk, bk))
        return R
    if op in ("reloc", "mesh", "mapper", "radial"):
        grid16, mesh16 = inp.get("grid"), inp.get("mesh")
        if op != "radial" and inp["mask"] is None:
            M = getattr(aa.mesh, inp["mesh_kind"])()
            def f():
                mg = M.mapper_grids_from(mask=None, border_relocator=None,
                                         source_plane_data_grid=aa.Grid2DIrregular(values=arr16(grid16, den)),
                                         source_plane_mesh_grid=aa.Grid2DIrregular(values=arr16(mesh16, den)))
                return [pts_out(mg.source_plane_data_grid), pts_out(mg.source_plane_mesh_grid)]
            out = call_res(f)
            R.update(coq=f"(KMapper None [] {cpts16(grid16, den)} {cpts16(mesh16, den)} "
                         f"{cres(out, lambda v: ctup([cptsf(v[0]), cptsf(v[1])]))})", out=out)
            return R
        gk, vk = inp.get("gkind", "f8"), inp.get("vkind", "f8"); vden = inp.get("vden", den)
        gcont, vcont = inp.get("container", "irregular"), inp.get("vcontainer", "irregular")
        own_grid = None
        if op == "radial":
            # the sub-size map is what OverSamplingUniform.from_radial_bins returns (a float-typed Array2D), the relocator
            # is GridsDataset.border_relocator; the map it was GIVEN (read before the relocator exists) is the model's input
            import random as _random
            from autoarray.dataset.grids import GridsDataset
            from autoarray.dataset.over_sampling import OverSamplingDataset
            marr = np.array(inp["mask"], dtype=bool)
            ps = tuple(v / DEN for v in inp["ps"]); org = tuple(v / DEN for v in inp["origin"])
            mask = aa.Mask2D(mask=marr, pixel_scales=ps, origin=org)
            ssl = inp["sub_size_list"]
            rl = [f / 8.0 * ps[0] for f in inp["radial_frac"][:len(ssl)]]
            osu = aa.OverSamplingUniform.from_radial_bins(grid=aa.Grid2D.from_mask(mask=mask), sub_size_list=ssl, radial_list=rl)
            fmap = np.array(osu.sub_size)
            subs = [int(v) for v in fmap]
            if not all(float(k) == float(v) and k >= 1 for k, v in zip(subs, fmap)):
                return dict(coq=None, out=None, py_ok=None, nontrivial=False, kind="radial_map_not_integral")
            gd = GridsDataset(mask=mask, over_sampling=OverSamplingDataset(pixelization=osu))
            rel = gd.border_relocator
            op = inp["what"]; R["kind"] = "radial_" + op + ("_" + str(fmap.dtype) if fmap.dtype != np.float64 else "")
            if total_sub(subs) > 64:                       # too many sub-pixels for a relocation case: the indices only
                out = call_res(lambda: [int(v) for v in rel.sub_border_slim])
                R.update(coq=f"(KSubBorder {cmask(inp['mask'])} {cnats(subs)} {cres(out, cnats)})", out=out, kind="radial_subborder")
                return R
            rng2 = _random.Random(inp["seed"])
            if op == "own":                                # the dataset's own over-sampled grid object, stretched, is the data grid
                own_grid = gd.over_sampler_pixelization.over_sampled_grid
                op = "mesh"
            grid16 = distort(rng2, unit_sub_grid16(inp["mask"], subs))
            mesh16 = rescale(rng2, rand_points(rng2, grid16, rng2.randint(1, 6)), den, vden)
            if vk is None: vk = rng2.choice(["i8", "i4", "pylist"] if vden == 1 else ["f8", "f8", "f4", "f8view"])
        else:
            mask, rel = make_relocator(aa, inp)
            subs = sub_list(inp["sub"], npix(inp["mask"]))
        sbs = [int(v) for v in rel.sub_border_slim]
        G = Fs(grid16, den) if own_grid is None else fr_pts(np.array(own_grid))
        V = Fs(mesh16, vden)
        B = [G[k] for k in sbs if 0 <= k < len(G)]
        if gk == "f4" and not centroid_f32_exact(B): gk = "f8"; STATS["f4_downgraded"] += 1
        d2tol = 1e-5 if "f4" in (gk, vk) else None
        if (op != "mesh" and in_band_F(G, B, d2tol=d2tol)) or (op != "reloc" and in_band_F(V, B, d2tol=d2tol)): return skipped()
        if own_grid is not None: grid, gvals, gk = own_grid, None, "f8"
        else: gvals = mk_vals(grid16, den, gk); grid = make_container(aa, gcont, gvals, mask)[0]
        vvals = mk_vals(mesh16, vden, vk); mesh = make_container(aa, vcont, vvals, mask)[0]
        R["kind"] = R["kind"] + kind_tag(gk, vk if op != "reloc" else "f8")
        head = f"{cmask(inp['mask'])} {cnats(subs)}"
        if op == "reloc":
            out = call_res(lambda: pts_out(rel.relocated_grid_from(grid=grid)))
            coq = f"(KReloc {head} {cnats(sbs)} {cptsF(G)} {cres_pts(out)})"
        elif op == "mesh":
            out = call_res(lambda: pts_out(rel.relocated_mesh_grid_from(grid=grid, mesh_grid=mesh)))
            coq = f"(KMesh {head} {cnats(sbs)} {cptsF(G)} {cptsF(V)} {cres_pts(out)})"
        elif inp["mesh_kind"] == "Rectangular":
            # mesh/rectangular.py: only the data grid is relocated (the mesh is overlaid on the relocated grid)
            M = aa.mesh.Rectangular(shape=(3, 3))
            out = call_res(lambda: pts_out(M.mapper_grids_from(mask=mask, border_relocator=rel,
                                                               source_plane_data_grid=grid).source_plane_data_grid))
            if out[0] != "ok":            # degenerate overlay (zero extent): not a relocation matter
                return dict(coq=None, out=out, py_ok=None, nontrivial=False, kind="rectangular_overlay_failed")
            coq = f"(KReloc {head} {cnats(sbs)} {cptsF(G)} {cres_pts(out)})"
            R["kind"] = "mapper_rectangular"
        else:
            M = getattr(aa.mesh, inp["mesh_kind"])()
            def f():
                mg = M.mapper_grids_from(mask=mask, border_relocator=rel, source_plane_data_grid=grid,
                                         source_plane_mesh_grid=mesh)
                return [pts_out(mg.source_plane_data_grid), pts_out(mg.source_plane_mesh_grid)]
            out = call_res(f)
            coq = (f"(KMapper (Some ({cmask(inp['mask'])}, {cnats(subs)})) {cnats(sbs)} {cptsF(G)} {cptsF(V)} "
                   f"{cres(out, lambda v: ctup([cptsf(v[0]), cptsf(v[1])]))})")
        R.update(coq=coq, out=out)
        # no argument is written: the containers, and the caller's own arrays / lists they were built from
        ok = same_pts(grid, G) and same_pts(mesh, V) and defaults_clean(aa)
        for vals, C in ((gvals, G), (vvals, V)):
            if vals is not None: ok = ok and same_pts(vals, C) and (not isinstance(vals, np.ndarray) or view_intact(vals))
        R["py_ok"] = bool(ok)
        return R
    if op == "hist": return run_hist(aa, inp, skipped)
    if op == "scale": return run_scale(aa, inp, skipped)
    if op == "subborder":
        m = inp["mask"]; n = npix(m); subs = sub_list(inp["sub"], n)
        if inp["via"] == "util":
            out = call_res(lambda: [int(v) for v in br.sub_border_pixel_slim_indexes_from(
                mask_2d=np.array(m, dtype=bool), sub_size=np.array(subs, dtype=int))])
        else:
            out = call_res(lambda: [int(v) for v in make_relocator(aa, inp)[1].sub_border_slim])
        R.update(coq=f"(KSubBorder {cmask(m)} {cnats(subs)} {cres(out, cnats)})", out=out, nontrivial=n > 0)
        return R
    if op == "subbordergrid":
        m = inp["mask"]; n = npix(m); subs = sub_list(inp["sub"], n)
        mask, rel = make_relocator(aa, inp)
        sbs = [int(v) for v in rel.sub_border_slim]
        out = call_res(lambda: pts_out(rel.sub_border_grid))
        R.update(coq=f"(KSubBorderGrid {cmask(m)} {cpt16(inp['ps'])} {cpt16(inp['origin'])} {cnats(subs)} {cnats(sbs)} "
                     f"{cres_pts(out)})", out=out)
        return R
    if op == "furthest":
        g = arr16(inp["grid"]); c = (inp["c"][0] / DEN, inp["c"][1] / DEN)
        out = call_res(lambda: int(grid_2d_util.furthest_grid_2d_slim_index_from(
            grid_2d_slim=g, slim_indexes=np.array(inp["idx"], dtype=int), coordinate=c)))
        R.update(coq=f"(KFurthest {cpts16(inp['grid'])} {cnats(inp['idx'])} {cpt16(inp['c'])} {cres(out, cnat)})", out=out,
                 nontrivial=len(inp["idx"]) > 1)
        return R
    if op == "borderidx":
        m = inp["mask"]
        out = [int(v) for v in mask_2d_util.border_slim_indexes_from(mask_2d=np.array(m, dtype=bool))]
        R.update(coq=f"(KBorderIdx {cmask(m)} {cnats(out)})", out=out, nontrivial=npix(m) > 0)
        return R
    raise ValueError(op)
