(* C12 (continued) -- relocation commutes with a common translation of the grid and of its border, over the reals. *)
From Coq Require Import ZArith QArith List Bool Reals Lra Lia.
From PAV Require Import Base.Res Base.Check Base.NumOps Model.C12 Proofs.C12.
Import ListNotations.
Local Open Scope R_scope.

Lemma sumT_shift (d : R) (l : list R) : @sumT ROps (map (fun v => v + d) l) = @sumT ROps l + INR (length l) * d.
Proof.
  unfold sumT, zero; rs. induction l as [|a l IH]; [cbn; lra|].
  cbn [map fold_left length]. rewrite sumT_R_cons, (sumT_R_cons l (0 + a)), IH. rewrite S_INR. lra.
Qed.
Lemma meanT_shift (d : R) (l : list R) : l <> [] -> @meanT ROps (map (fun v => v + d) l) = @meanT ROps l + d.
Proof.
  intros Hl. unfold meanT, ofNat. rewrite sumT_shift, map_length. rs. rewrite <- INR_IZR_INZ.
  assert (INR (length l) <> 0). { apply not_0_INR. destruct l; [congruence|discriminate]. }
  field. assumption.
Qed.
Lemma radius_shift (bo p d : RP) : radius (padd bo d) (padd p d) = radius bo p.
Proof.
  destruct bo as [by_ bx], p as [py px], d as [dy dx]. unfold radius; unf.
  replace (py + dy - (by_ + dy)) with (py - by_) by ring. replace (px + dx - (bx + dx)) with (px - bx) by ring. reflexivity.
Qed.
Lemma dist2_shift (p b d : RP) : dist2 (padd p d) (padd b d) = dist2 p b.
Proof.
  destruct b as [by_ bx], p as [py px], d as [dy dx]. unfold dist2; unf.
  replace (py + dy - (by_ + dy)) with (py - by_) by ring. replace (px + dx - (bx + dx)) with (px - bx) by ring. reflexivity.
Qed.

Lemma map_shift_commute (F G : RP -> RP) (d : RP) g :
  (forall p, F (padd p d) = padd (G p) d) -> map F (shift d g) = shift d (map G g).
Proof. intros HFG. unfold shift. rewrite !map_map. apply map_ext. intros p. apply HFG. Qed.

Theorem relocate_translates (d : RP) (g bg : list RP) :
  relocate (shift d g) (shift d bg) = shift d (relocate g bg).
Proof.
  destruct bg as [|b0 bt].
  { reflexivity. }
  unfold relocate.
  set (bo := (meanT (map fst (b0 :: bt)), meanT (map snd (b0 :: bt)))).
  assert (Ebo : (meanT (map fst (shift d (b0 :: bt))), meanT (map snd (shift d (b0 :: bt)))) = padd bo d).
  { rewrite map_fst_shift, map_snd_shift. rewrite !meanT_shift by (cbn [map]; discriminate). destruct d; reflexivity. }
  rewrite Ebo.
  assert (Erad : map (radius (padd bo d)) (shift d (b0 :: bt)) = map (radius bo) (b0 :: bt)).
  { unfold shift. rewrite map_map. apply map_ext. intros p. apply radius_shift. }
  rewrite Erad. change (map (radius bo) (b0 :: bt)) with (radius bo b0 :: map (radius bo) bt). cbv beta iota.
  apply map_shift_commute. intros p.
  rewrite radius_shift.
  assert (Ed : map (dist2 (padd p d)) (shift d (b0 :: bt)) = map (dist2 p) (b0 :: bt)).
  { unfold shift. rewrite map_map. apply map_ext. intros q. apply dist2_shift. }
  rewrite Ed.
  destruct (ltb ROps _ (radius bo p)); [|reflexivity].
  destruct (ltb ROps _ (one)); [|reflexivity].
  destruct bo as [by_ bx], p as [py px], d as [dy dx]. unf. apply pt_eq; ring.
Qed.

Theorem relocated_grid_from_translates (d : RP) (idx : list nat) (g : list RP) :
  Forall (fun i => (i < length g)%nat) idx ->
  relocated_grid_from idx (shift d g) = shift d (relocated_grid_from idx g).
Proof. intros HF. unfold relocated_grid_from. rewrite gather_shift by assumption. apply relocate_translates. Qed.
