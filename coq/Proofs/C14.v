(* C14 -- lemmas about the model and the specification of Model/C14.v (part 1: arrays, the scatter loop,
   entry formulas of every routine). *)
From Coq Require Import ZArith List Bool Lia.
From PAV Require Import Base.Res Base.Check Model.C14.
Import ListNotations.
Local Open Scope Z_scope.

Ltac zdiv := Z.div_mod_to_equations; lia.
Ltac boolp :=
  repeat match goal with
  | H : _ && _ = true |- _ => apply andb_prop in H; destruct H
  | H : (_ <=? _) = true |- _ => apply Z.leb_le in H
  | H : (_ <? _) = true |- _ => apply Z.ltb_lt in H
  | H : (_ =? _) = true |- _ => apply Z.eqb_eq in H
  | H : (_ <=? _) = false |- _ => apply Z.leb_gt in H
  | H : (_ <? _) = false |- _ => apply Z.ltb_ge in H
  | H : (_ =? _) = false |- _ => apply Z.eqb_neq in H
  | H : negb _ = true |- _ => apply negb_true_iff in H
  end.

(* ------------------------------------------------------------------ lists *)
Lemma nth_firstn_lt {B} (l : list B) : forall n i d, (i < n)%nat -> nth i (firstn n l) d = nth i l d.
Proof. induction l as [|h t IH]; intros [|n] [|i] d Hi; cbn; try reflexivity; try lia. apply IH. lia. Qed.
Lemma nth_skipn_add {B} (l : list B) : forall n i d, nth i (skipn n l) d = nth (n + i) l d.
Proof. induction l as [|h t IH]; intros [|n] i d; cbn; try reflexivity; [destruct i; reflexivity | apply IH]. Qed.
Lemma nth_repeat_lt {B} (a : B) : forall k i d, (i < k)%nat -> nth i (repeat a k) d = a.
Proof. induction k as [|k IH]; intros [|i] d Hi; cbn; try lia; try reflexivity. apply IH. lia. Qed.
Lemma nth_combine {B C} (l : list B) : forall (l' : list C) i d d', (i < length l)%nat -> (i < length l')%nat ->
  nth i (combine l l') (d, d') = (nth i l d, nth i l' d').
Proof.
  induction l as [|h t IH]; intros [|h' t'] [|i] d d' H1 H2; cbn in *; try lia; try reflexivity. apply IH; lia.
Qed.
Lemma flat_map_nil {B C} (f : B -> list C) (l : list B) : (forall x, In x l -> f x = []) -> flat_map f l = [].
Proof. induction l as [|h t IH]; intros Hf; cbn; [reflexivity|]. rewrite Hf by (left; reflexivity). apply IH. intros; apply Hf; right; assumption. Qed.
Lemma flat_map_ext_in {B C} (f g : B -> list C) (l : list B) : (forall x, In x l -> f x = g x) -> flat_map f l = flat_map g l.
Proof. induction l as [|h t IH]; intros Hf; cbn; [reflexivity|]. rewrite Hf by (left; reflexivity). f_equal. apply IH. intros; apply Hf; right; assumption. Qed.
Lemma flat_map_map {B C D} (f : C -> list D) (g : B -> C) (l : list B) : flat_map f (map g l) = flat_map (fun x => f (g x)) l.
Proof. induction l as [|h t IH]; cbn; [reflexivity|]. now rewrite IH. Qed.
Lemma map_flat_map {B C D} (f : C -> D) (g : B -> list C) (l : list B) : map f (flat_map g l) = flat_map (fun x => map f (g x)) l.
Proof. induction l as [|h t IH]; cbn; [reflexivity|]. now rewrite map_app, IH. Qed.

(* ------------------------------------------------------------------ set1 / set2 *)
Lemma set1_length {B} (l : list B) : forall i v, length (set1 l i v) = length l.
Proof. induction l as [|h t IH]; intros [|i] v; cbn; try reflexivity. now rewrite IH. Qed.
Lemma nth_set1 {B} (l : list B) : forall i v j d,
  nth j (set1 l i v) d = if (Nat.eqb j i && Nat.ltb i (length l))%bool then v else nth j l d.
Proof.
  induction l as [|h t IH]; intros [|i] v [|j] d; cbn; try reflexivity.
  - destruct (Nat.eqb j i); reflexivity.
  - rewrite IH. reflexivity.
Qed.

(* rectangular with R0 rows of R1 entries *)
Definition Rect {B} (R0 R1 : nat) (m : list (list B)) : Prop :=
  length m = R0 /\ forall a, (a < R0)%nat -> length (nth a m []) = R1.

Lemma Rect_zeros {B} (z : B) R0 R1 : Rect R0 R1 (zeros z R0 R1).
Proof. split; [apply repeat_length|]. intros a Ha. unfold zeros. rewrite nth_repeat_lt by assumption. apply repeat_length. Qed.
Lemma get2_zeros {B} (z d : B) R0 R1 a b : (a < R0)%nat -> (b < R1)%nat -> get2 d (zeros z R0 R1) a b = z.
Proof. intros. unfold get2, zeros. rewrite nth_repeat_lt by assumption. now apply nth_repeat_lt. Qed.

Lemma Rect_set2 {B} R0 R1 (m : list (list B)) y x v : Rect R0 R1 m -> Rect R0 R1 (set2 m y x v).
Proof.
  intros [HL HR]. unfold set2. split; [now rewrite set1_length|].
  intros a Ha. rewrite nth_set1. destruct (Nat.eqb a y && Nat.ltb y (length m))%bool eqn:E; [|now apply HR].
  apply andb_prop in E. destruct E as [E _]. apply Nat.eqb_eq in E. subst a. rewrite set1_length. now apply HR.
Qed.
Lemma get2_set2 {B} R0 R1 (m : list (list B)) y x v a b d :
  Rect R0 R1 m -> (y < R0)%nat -> (x < R1)%nat ->
  get2 d (set2 m y x v) a b = if (Nat.eqb a y && Nat.eqb b x)%bool then v else get2 d m a b.
Proof.
  intros [HL HR] Hy Hx. unfold get2, set2. rewrite nth_set1.
  assert (Ly : Nat.ltb y (length m) = true) by (apply Nat.ltb_lt; lia). rewrite Ly, andb_true_r.
  destruct (Nat.eqb a y) eqn:E; cbn [andb]; [|reflexivity].
  apply Nat.eqb_eq in E. subst a. rewrite nth_set1.
  assert (Lx : Nat.ltb x (length (nth y m [])) = true) by (apply Nat.ltb_lt; rewrite HR; lia). rewrite Lx, andb_true_r.
  reflexivity.
Qed.

Lemma Rect_ext {B} R0 R1 (m m' : list (list B)) (d : B) :
  Rect R0 R1 m -> Rect R0 R1 m' ->
  (forall a b, (a < R0)%nat -> (b < R1)%nat -> get2 d m a b = get2 d m' a b) -> m = m'.
Proof.
  intros [L1 C1] [L2 C2] HE. apply (nth_ext m m' [] []); [lia|].
  intros a Ha. rewrite L1 in Ha. apply (nth_ext _ _ d d); [rewrite C1, C2; lia|].
  intros b Hb. rewrite C1 in Hb by assumption. now apply HE.
Qed.

(* ------------------------------------------------------------------ the scatter loop *)
Section Loop.
  Context {B : Type} (R0 R1 : nat) (w : nat -> nat -> option B).
  Hypothesis guard : forall yr xr v, w yr xr = Some v -> (yr < R0)%nat /\ (xr < R1)%nat.
  Definition wr (o : list (list B)) (yr xr : nat) := match w yr xr with Some v => set2 o yr xr v | None => o end.

  Lemma wr_spec o yr xr : Rect R0 R1 o ->
    Rect R0 R1 (wr o yr xr) /\
    forall a b d, get2 d (wr o yr xr) a b =
      if (Nat.eqb a yr && Nat.eqb b xr)%bool then match w yr xr with Some v => v | None => get2 d o a b end else get2 d o a b.
  Proof.
    intros HR. unfold wr. destruct (w yr xr) as [v|] eqn:E.
    - destruct (guard _ _ _ E) as [G1 G2]. split; [now apply Rect_set2|]. intros a b d. now apply (get2_set2 R0 R1).
    - split; [assumption|]. intros a b d. destruct (Nat.eqb a yr && Nat.eqb b xr)%bool; reflexivity.
  Qed.

  Lemma inner_spec yr : forall n s o, Rect R0 R1 o ->
    let o' := fold_left (fun o xr => wr o yr xr) (seq s n) o in
    Rect R0 R1 o' /\
    forall a b d, get2 d o' a b =
      if (Nat.eqb a yr && Nat.leb s b && Nat.ltb b (s + n))%bool
      then match w yr b with Some v => v | None => get2 d o a b end else get2 d o a b.
  Proof.
    induction n as [|n IH]; intros s o HR; cbn [seq fold_left].
    - split; [assumption|]. intros a b d.
      destruct (Nat.eqb a yr && Nat.leb s b && Nat.ltb b (s + 0))%bool eqn:E; [|reflexivity].
      apply andb_prop in E. destruct E as [E E3]. apply andb_prop in E. destruct E as [_ E2].
      apply Nat.leb_le in E2. apply Nat.ltb_lt in E3. lia.
    - destruct (wr_spec o yr s HR) as [HR1 G1]. destruct (IH (S s) _ HR1) as [HR2 G2].
      split; [exact HR2|]. intros a b d. rewrite G2, G1.
      destruct (Nat.eqb a yr) eqn:Ea; cbn [andb]; [|reflexivity].
      destruct (Nat.eqb b s) eqn:Eb.
      + apply Nat.eqb_eq in Eb. subst b.
        assert (X1 : Nat.leb (S s) s = false) by (apply Nat.leb_gt; lia).
        assert (X2 : Nat.leb s s = true) by (apply Nat.leb_le; lia).
        assert (X3 : Nat.ltb s (s + S n) = true) by (apply Nat.ltb_lt; lia).
        rewrite X1, X2, X3. cbn [andb]. reflexivity.
      + apply Nat.eqb_neq in Eb.
        destruct (Nat.leb (S s) b) eqn:E1.
        * apply Nat.leb_le in E1. assert (X2 : Nat.leb s b = true) by (apply Nat.leb_le; lia). rewrite X2. cbn [andb].
          replace (s + S n)%nat with (S s + n)%nat by lia. destruct (Nat.ltb b (S s + n)); [|reflexivity].
          destruct (w yr b); reflexivity.
        * apply Nat.leb_gt in E1. assert (X2 : Nat.leb s b = false) by (apply Nat.leb_gt; lia). rewrite X2. reflexivity.
  Qed.

  Lemma outer_spec n1 : forall n s o, Rect R0 R1 o ->
    let o' := fold_left (fun o yr => fold_left (fun o xr => wr o yr xr) (seq 0 n1) o) (seq s n) o in
    Rect R0 R1 o' /\
    forall a b d, get2 d o' a b =
      if (Nat.leb s a && Nat.ltb a (s + n) && Nat.ltb b n1)%bool
      then match w a b with Some v => v | None => get2 d o a b end else get2 d o a b.
  Proof.
    induction n as [|n IH]; intros s o HR; cbn [seq fold_left].
    - split; [assumption|]. intros a b d.
      destruct (Nat.leb s a && Nat.ltb a (s + 0) && Nat.ltb b n1)%bool eqn:E; [|reflexivity].
      apply andb_prop in E. destruct E as [E _]. apply andb_prop in E. destruct E as [E1 E2].
      apply Nat.leb_le in E1. apply Nat.ltb_lt in E2. lia.
    - destruct (inner_spec s n1 0%nat o HR) as [HR1 G1]. destruct (IH (S s) _ HR1) as [HR2 G2].
      split; [exact HR2|]. intros a b d. rewrite G2, G1.
      change (Nat.leb 0 b) with true. change (0 + n1)%nat with n1. rewrite andb_true_r.
      destruct (Nat.eqb a s) eqn:Ea.
      + apply Nat.eqb_eq in Ea. subst a.
        assert (X1 : Nat.leb (S s) s = false) by (apply Nat.leb_gt; lia).
        assert (X2 : Nat.leb s s = true) by (apply Nat.leb_le; lia).
        assert (X3 : Nat.ltb s (s + S n) = true) by (apply Nat.ltb_lt; lia).
        rewrite X1, X2, X3. cbn [andb]. reflexivity.
      + apply Nat.eqb_neq in Ea. cbn [andb].
        destruct (Nat.leb (S s) a) eqn:E1.
        * apply Nat.leb_le in E1. assert (X2 : Nat.leb s a = true) by (apply Nat.leb_le; lia). rewrite X2. cbn [andb].
          replace (s + S n)%nat with (S s + n)%nat by lia. reflexivity.
        * apply Nat.leb_gt in E1. assert (X2 : Nat.leb s a = false) by (apply Nat.leb_gt; lia). rewrite X2. reflexivity.
  Qed.

  Lemma loop2_spec n0 n1 o : Rect R0 R1 o ->
    Rect R0 R1 (loop2 n0 n1 w o) /\
    forall a b d, get2 d (loop2 n0 n1 w o) a b =
      if (Nat.ltb a n0 && Nat.ltb b n1)%bool then match w a b with Some v => v | None => get2 d o a b end else get2 d o a b.
  Proof. intros HR. destruct (outer_spec n1 n0 0%nat o HR) as [H1 H2]. split; [exact H1|]. intros a b d. exact (H2 a b d). Qed.
End Loop.

(* ------------------------------------------------------------------ entry view of an array (indices in Z) *)
Definition inr (i n : Z) : bool := (0 <=? i) && (i <? n).
Definition Entries {B} (m : list (list B)) (R0 R1 : Z) (f : Z -> Z -> B) : Prop :=
  0 <= R0 /\ 0 <= R1 /\ Rect (Z.to_nat R0) (Z.to_nat R1) m /\
  forall i j d, 0 <= i < R0 -> 0 <= j < R1 -> zget2 d m i j = f i j.

Lemma hd_nth0 {B} (m : list (list B)) : hd [] m = nth 0 m [].
Proof. destruct m; reflexivity. Qed.
Lemma Entries_shape {B} (m : list (list B)) R0 R1 f : Entries m R0 R1 f -> 0 < R0 -> nrows m = R0 /\ ncols m = R1.
Proof.
  intros (H0 & H1 & [HL HC] & _) HP. unfold nrows, ncols. split; [lia|].
  rewrite hd_nth0, HC by lia. lia.
Qed.
Lemma Entries_ext {B} (d : B) (m m' : list (list B)) R0 R1 f g :
  Entries m R0 R1 f -> Entries m' R0 R1 g ->
  (forall i j, 0 <= i < R0 -> 0 <= j < R1 -> f i j = g i j) -> m = m'.
Proof.
  intros (H0 & H1 & HR & HE) (_ & _ & HR' & HE') HF. apply (Rect_ext _ _ m m' d HR HR').
  intros a b Ha Hb. specialize (HE (Z.of_nat a) (Z.of_nat b) d). specialize (HE' (Z.of_nat a) (Z.of_nat b) d).
  unfold zget2 in HE, HE'. rewrite !Nat2Z.id in HE, HE'. rewrite HE, HE' by lia. apply HF; lia.
Qed.
Lemma Entries_fext {B} (m : list (list B)) R0 R1 f g :
  Entries m R0 R1 f -> (forall i j, 0 <= i < R0 -> 0 <= j < R1 -> f i j = g i j) -> Entries m R0 R1 g.
Proof. intros (H0 & H1 & HR & HE) HF. repeat split; try assumption; try apply HR. intros. rewrite HE by assumption. now apply HF. Qed.

Lemma if_same {B} (b : bool) (x : B) : (if b then x else x) = x.
Proof. destruct b; reflexivity. Qed.
Lemma int_half_div n : 0 <= n -> int_half n = n / 2.
Proof. intros. unfold int_half. apply Z.quot_div_nonneg; lia. Qed.

(* resized_array_2d_from, default origin: the entry formula new[i, j] = old[i + H/2 - r0/2, j + W/2 - r1/2] or pad *)
Definition resized_fun {B} (H W r0 r1 : Z) (pad : B) (f : Z -> Z -> B) : Z -> Z -> B :=
  fun i j => if inr (i + (H / 2 - r0 / 2)) H && inr (j + (W / 2 - r1 / 2)) W
             then f (i + (H / 2 - r0 / 2)) (j + (W / 2 - r1 / 2)) else pad.

Lemma resized_entries {B} (zero pad : B) (a : list (list B)) H W f r0 r1 :
  Entries a H W f -> 0 < H -> 0 <= r0 -> 0 <= r1 ->
  exists m', resized_array_2d_from zero a (r0, r1) (-1, -1) pad = Ok m' /\ Entries m' r0 r1 (resized_fun H W r0 r1 pad f).
Proof.
  intros HE HP Hr0 Hr1. destruct (Entries_shape _ _ _ _ HE HP) as [HnR HnC].
  destruct HE as (HH & HW & HR & HE).
  unfold resized_array_2d_from. rewrite HnR, HnC. cbn [fst snd]. rewrite !if_same.
  change ((-1 =? -1) && (-1 =? -1)) with true. cbv iota. cbn [fst snd].
  assert (E0 : (r0 <? 0) || (r1 <? 0) = false) by (apply orb_false_iff; split; apply Z.ltb_ge; lia).
  rewrite E0. rewrite !int_half_div by lia.
  eexists. split; [reflexivity|].
  match goal with |- Entries (loop2 ?n0 ?n1 ?w ?o) _ _ _ =>
    assert (G : forall yr xr v, w yr xr = Some v -> (yr < Z.to_nat r0)%nat /\ (xr < Z.to_nat r1)%nat);
    [| destruct (loop2_spec (Z.to_nat r0) (Z.to_nat r1) w G n0 n1 o (Rect_zeros zero _ _)) as [LR LG]] end.
  { intros yr xr v. cbv beta zeta.
    destruct ((0 <=? Z.of_nat yr) && (Z.of_nat yr <? r0) && (0 <=? Z.of_nat xr) && (Z.of_nat xr <? r1)) eqn:D.
    - intros _. boolp. lia.
    - rewrite !if_same. discriminate. }
  split; [lia|]. split; [lia|]. split; [exact LR|].
  intros i j d Hi Hj. unfold zget2. rewrite LG. cbv beta zeta.
  assert (X1 : Nat.ltb (Z.to_nat i) (Z.to_nat (H / 2 + r0 / 2 + 1 - (H / 2 - r0 / 2))) = true) by (apply Nat.ltb_lt; zdiv).
  assert (X2 : Nat.ltb (Z.to_nat j) (Z.to_nat (W / 2 + r1 / 2 + 1 - (W / 2 - r1 / 2))) = true) by (apply Nat.ltb_lt; zdiv).
  rewrite X1, X2. cbn [andb]. rewrite !Z2Nat.id by lia.
  assert (D : (0 <=? i) && (i <? r0) && (0 <=? j) && (j <? r1) = true).
  { rewrite !andb_true_iff. repeat split; try (apply Z.leb_le; lia); apply Z.ltb_lt; lia. }
  rewrite D. unfold resized_fun, inr.
  replace (H / 2 - r0 / 2 + i) with (i + (H / 2 - r0 / 2)) by lia.
  replace (W / 2 - r1 / 2 + j) with (j + (W / 2 - r1 / 2)) by lia.
  set (y := i + (H / 2 - r0 / 2)). set (x := j + (W / 2 - r1 / 2)).
  destruct (Z.leb_spec 0 y), (Z.ltb_spec y H), (Z.leb_spec 0 x), (Z.ltb_spec x W); cbn [andb]; try reflexivity.
  apply HE; lia.
Qed.

(* ------------------------------------------------------------------ a rectangular list is its own entry function *)
Lemma rectb_Rect {B} H W (a : list (list B)) : rectb H W a = true -> 0 <= W -> Rect (Z.to_nat H) (Z.to_nat W) a.
Proof.
  unfold rectb. intros HB HW. apply andb_prop in HB. destruct HB as [HL HF]. apply Z.eqb_eq in HL.
  split; [lia|]. intros i Hi. rewrite forallb_forall in HF.
  assert (HI : In (nth i a []) a) by (apply nth_In; lia). apply HF in HI. apply Z.eqb_eq in HI. lia.
Qed.
Lemma rectb_W_nonneg {B} H W (a : list (list B)) : rectb H W a = true -> 0 < H -> 0 <= W.
Proof.
  unfold rectb. intros HB HP. apply andb_prop in HB. destruct HB as [HL HF]. apply Z.eqb_eq in HL.
  destruct a as [|r t]; [cbn in HL; lia|]. cbn in HF. apply andb_prop in HF. destruct HF as [HF _]. apply Z.eqb_eq in HF. lia.
Qed.
Lemma Entries_self {B} (zero : B) H W (a : list (list B)) :
  rectb H W a = true -> 0 < H -> Entries a H W (zget2 zero a).
Proof.
  intros HB HP. pose proof (rectb_W_nonneg _ _ _ HB HP) as HW. pose proof (rectb_Rect _ _ _ HB HW) as HR.
  split; [lia|]. split; [lia|]. split; [exact HR|].
  intros i j d Hi Hj. unfold zget2, get2. apply nth_indep. destruct HR as [_ HC]. rewrite HC; lia.
Qed.
Lemma Rect_rectb {B} H W (a : list (list B)) : 0 <= H -> 0 <= W -> Rect (Z.to_nat H) (Z.to_nat W) a -> rectb H W a = true.
Proof.
  intros H0 W0 [HL HC]. unfold rectb. apply andb_true_intro. split; [apply Z.eqb_eq; lia|].
  apply forallb_forall. intros r Hr. destruct (In_nth _ _ [] Hr) as (i & Hi & <-). apply Z.eqb_eq. rewrite HC; lia.
Qed.

(* ------------------------------------------------------------------ the specification: crop / embed per axis *)
Lemma resize1_length {B} (pad : B) l r : 0 <= r -> length (resize1 pad l r) = Z.to_nat r.
Proof.
  intros Hr. unfold resize1. set (n := Z.of_nat (length l)). assert (Hn : 0 <= n) by lia.
  destruct (Z.leb_spec r n).
  - rewrite firstn_length, skipn_length. assert (n / 2 - r / 2 + r <= n) by zdiv. assert (0 <= n / 2 - r / 2) by zdiv. lia.
  - rewrite !app_length, !repeat_length. assert (0 <= r / 2 - n / 2) by zdiv. assert (0 <= r - n - (r / 2 - n / 2)) by zdiv. lia.
Qed.
Lemma resize1_nth {B} (pad : B) l r i d : 0 <= r -> 0 <= i < r ->
  nth (Z.to_nat i) (resize1 pad l r) d =
  let n := Z.of_nat (length l) in let s := i + (n / 2 - r / 2) in
  if inr s n then nth (Z.to_nat s) l d else pad.
Proof.
  intros Hr Hi. unfold resize1. cbv zeta. set (n := Z.of_nat (length l)). assert (Hn : 0 <= n) by lia.
  unfold inr. destruct (Z.leb_spec r n).
  - assert (n / 2 - r / 2 + r <= n) by zdiv. assert (0 <= n / 2 - r / 2) by zdiv.
    rewrite nth_firstn_lt by lia. rewrite nth_skipn_add.
    destruct (Z.leb_spec 0 (i + (n / 2 - r / 2))); [|lia]. destruct (Z.ltb_spec (i + (n / 2 - r / 2)) n); [|lia].
    cbn [andb]. f_equal. lia.
  - assert (0 <= r / 2 - n / 2) by zdiv. assert (0 <= r - n - (r / 2 - n / 2)) by zdiv.
    destruct (Z.leb_spec 0 (i + (n / 2 - r / 2))); cbn [andb].
    + rewrite app_nth2 by (rewrite repeat_length; lia). rewrite repeat_length.
      destruct (Z.ltb_spec (i + (n / 2 - r / 2)) n).
      * rewrite app_nth1 by lia. f_equal. lia.
      * rewrite app_nth2 by lia. apply nth_repeat_lt. lia.
    + rewrite app_nth1 by (rewrite repeat_length; lia). apply nth_repeat_lt. lia.
Qed.

Lemma resize_spec_entries {B} (pad : B) (a : list (list B)) H W f r0 r1 :
  Entries a H W f -> 0 <= r0 -> 0 <= r1 -> Entries (resize_spec pad a r0 r1) r0 r1 (resized_fun H W r0 r1 pad f).
Proof.
  intros (HH & HW & [HL HC] & HE) Hr0 Hr1. unfold resize_spec.
  assert (ROW : forall i, 0 <= i < r0 ->
     nth (Z.to_nat i) (resize1 (repeat pad (Z.to_nat r1)) (map (fun row => resize1 pad row r1) a) r0) [] =
     if inr (i + (H / 2 - r0 / 2)) H then resize1 pad (nth (Z.to_nat (i + (H / 2 - r0 / 2))) a []) r1 else repeat pad (Z.to_nat r1)).
  { intros i Hi. rewrite resize1_nth by lia. cbv zeta. rewrite map_length. replace (Z.of_nat (length a)) with H by lia.
    destruct (inr (i + (H / 2 - r0 / 2)) H) eqn:E; [|reflexivity].
    unfold inr in E. boolp.
    rewrite (nth_indep _ [] (resize1 pad [] r1)) by (rewrite map_length; lia).
    apply (map_nth (fun row => resize1 pad row r1)). }
  split; [lia|]. split; [lia|]. split.
  - split; [rewrite resize1_length by lia; reflexivity|].
    intros i Hi. rewrite <- (Nat2Z.id i). rewrite ROW by lia.
    destruct (inr _ H); [apply resize1_length; lia | apply repeat_length].
  - intros i j d Hi Hj. unfold zget2, get2. rewrite ROW by lia. unfold resized_fun.
    destruct (inr (i + (H / 2 - r0 / 2)) H) eqn:E; cbn [andb].
    + unfold inr in E. boolp. rewrite resize1_nth by lia. cbv zeta.
      rewrite HC by lia. rewrite Z2Nat.id by lia.
      destruct (inr (j + (W / 2 - r1 / 2)) W) eqn:E2; [|reflexivity].
      unfold inr in E2. boolp. apply (HE _ _ d); lia.
    + apply nth_repeat_lt. lia.
Qed.

(* MAIN 1: for every rectangular input, every target shape and every pad value the code returns the centred crop /
   centred embedding (per axis) *)
Lemma resized_is_spec {B} (zero pad : B) (a : list (list B)) H W r0 r1 :
  rectb H W a = true -> 0 < H -> 0 <= r0 -> 0 <= r1 ->
  resized_array_2d_from zero a (r0, r1) (-1, -1) pad = Ok (resize_spec pad a r0 r1).
Proof.
  intros HB HP Hr0 Hr1. pose proof (Entries_self zero _ _ _ HB HP) as HE.
  destruct (resized_entries zero pad a H W _ r0 r1 HE HP Hr0 Hr1) as (m' & -> & HM). f_equal.
  apply (Entries_ext pad _ _ _ _ _ _ HM (resize_spec_entries pad a H W _ r0 r1 HE Hr0 Hr1)). reflexivity.
Qed.
Lemma resized_negative_shape {B} (zero pad : B) (a : list (list B)) r0 r1 origin :
  r0 < 0 \/ r1 < 0 -> resized_array_2d_from zero a (r0, r1) origin pad = Raise OtherException.
Proof.
  intros Hr. unfold resized_array_2d_from. cbn [fst snd].
  assert (E0 : (r0 <? 0) || (r1 <? 0) = true) by (apply orb_true_iff; destruct Hr; [left|right]; apply Z.ltb_lt; lia).
  rewrite E0. reflexivity.
Qed.

(* the crop / the embedding is centred: the two margins differ by at most one, and are equal when the parity is kept *)
Lemma margins_centred n r : 0 <= r -> 0 <= n ->
  let top := Z.abs (n / 2 - r / 2) in let bottom := Z.abs (n - r) - top in
  0 <= top /\ 0 <= bottom /\ top + Z.min n r + bottom = Z.max n r /\ Z.abs (top - bottom) <= 1 /\
  (Z.even (n - r) = true -> top = bottom).
Proof.
  intros Hr Hn. cbv zeta. repeat split; try zdiv.
  intros HE. apply Z.even_spec in HE. destruct HE as [k Hk]. zdiv.
Qed.

(* ------------------------------------------------------------------ mask_apply, zip_mask, python slices *)
Lemma get2_tab2 {B} H W (F : nat -> nat -> B) i j d : (i < H)%nat -> (j < W)%nat -> get2 d (tab2 H W F) i j = F i j.
Proof.
  intros Hi Hj. unfold get2, tab2.
  rewrite (nth_indep _ [] (map (fun x => F 0%nat x) (seq 0 W))) by (rewrite map_length, seq_length; lia).
  rewrite (map_nth (fun y => map (fun x => F y x) (seq 0 W)) (seq 0 H) 0%nat i). rewrite seq_nth by lia. cbn [plus].
  rewrite (nth_indep _ d (F i 0%nat)) by (rewrite map_length, seq_length; lia).
  rewrite (map_nth (fun x => F i x) (seq 0 W) 0%nat j). rewrite seq_nth by lia. reflexivity.
Qed.
Lemma Rect_tab2 {B} H W (F : nat -> nat -> B) : Rect H W (tab2 H W F).
Proof.
  unfold tab2. split; [now rewrite map_length, seq_length|]. intros i Hi.
  rewrite (nth_indep _ [] (map (fun x => F 0%nat x) (seq 0 W))) by (rewrite map_length, seq_length; lia).
  rewrite (map_nth (fun y => map (fun x => F y x) (seq 0 W)) (seq 0 H) 0%nat i). now rewrite map_length, seq_length.
Qed.
Lemma Rect_shape_eqb {B C} n0 n1 (a : list (list B)) (m : list (list C)) : Rect n0 n1 a -> Rect n0 n1 m -> shape_eqb a m = true.
Proof.
  intros [L1 C1] [L2 C2]. unfold shape_eqb, nrows, ncols. apply andb_true_intro. split; apply Z.eqb_eq; [lia|].
  destruct n0 as [|n0].
  - destruct a; [|discriminate]. destruct m; [|discriminate]. reflexivity.
  - rewrite !hd_nth0, C1, C2 by lia. reflexivity.
Qed.

Definition masked_fun {B} (zero : B) (g : Z -> Z -> bool) (f : Z -> Z -> B) : Z -> Z -> B :=
  fun i j => if g i j then zero else f i j.

Lemma mask_apply_entries {B} (zero : B) a m R0 R1 f g :
  Entries a R0 R1 f -> Entries m R0 R1 g ->
  exists x, mask_apply zero a m = Ok x /\ Entries x R0 R1 (masked_fun zero g f).
Proof.
  intros (H0 & H1 & HR & HE) (_ & _ & HR' & HE'). unfold mask_apply. rewrite (Rect_shape_eqb _ _ _ _ HR HR').
  eexists. split; [reflexivity|]. destruct HR as [HL HC].
  split; [lia|]. split; [lia|]. split.
  - rewrite HL. split; [apply Rect_tab2|]. intros i Hi. rewrite hd_nth0, HC by lia. apply Rect_tab2. assumption.
  - intros i j d Hi Hj. unfold zget2. rewrite get2_tab2 by (rewrite ?hd_nth0, ?HC, ?HL; lia).
    specialize (HE i j zero Hi Hj). specialize (HE' i j true Hi Hj). unfold zget2 in HE, HE'. rewrite HE, HE'. reflexivity.
Qed.

Lemma zip_mask_entries {B} (zero : B) a m R0 R1 f g :
  Entries a R0 R1 f -> Entries m R0 R1 g -> Entries (zip_mask zero a m) R0 R1 (masked_fun zero g f).
Proof.
  intros (H0 & H1 & [HL HC] & HE) (_ & _ & [HL' HC'] & HE'). unfold zip_mask.
  set (F := fun rm : list B * list bool => map (fun vb : B * bool => if snd vb then zero else fst vb) (combine (fst rm) (snd rm))).
  assert (ROW : forall i, (i < Z.to_nat R0)%nat -> nth i (map F (combine a m)) [] = F (nth i a [], nth i m [])).
  { intros i Hi. rewrite (nth_indep _ [] (F ([], []))) by (rewrite map_length, combine_length; lia).
    rewrite (map_nth F). rewrite nth_combine by lia. reflexivity. }
  split; [lia|]. split; [lia|]. split.
  - split; [rewrite map_length, combine_length; lia|]. intros i Hi. rewrite ROW by assumption.
    unfold F. cbn [fst snd]. rewrite map_length, combine_length, HC, HC' by assumption. lia.
  - intros i j d Hi Hj. unfold zget2, get2. rewrite ROW by lia. unfold F. cbn [fst snd].
    set (G := fun vb : B * bool => if snd vb then zero else fst vb).
    rewrite (nth_indep _ d (G (zero, true))) by (rewrite map_length, combine_length, HC, HC'; lia).
    rewrite (map_nth G). rewrite nth_combine by (rewrite ?HC, ?HC'; lia). unfold G. cbn [fst snd].
    specialize (HE i j zero Hi Hj). specialize (HE' i j true Hi Hj). unfold zget2, get2 in HE, HE'. rewrite HE, HE'. reflexivity.
Qed.

Lemma py_norm_id n i : 0 <= i <= n -> py_norm n i = i.
Proof. intros. unfold py_norm. destruct (Z.ltb_spec i 0); lia. Qed.
Lemma pyslice_length {B} (l : list B) lo hi : 0 <= lo <= hi -> hi <= Z.of_nat (length l) -> length (pyslice l lo hi) = Z.to_nat (hi - lo).
Proof. intros. unfold pyslice. rewrite !py_norm_id by lia. rewrite firstn_length, skipn_length. lia. Qed.
Lemma pyslice_nth {B} (l : list B) lo hi i d : 0 <= lo <= hi -> hi <= Z.of_nat (length l) -> 0 <= i < hi - lo ->
  nth (Z.to_nat i) (pyslice l lo hi) d = nth (Z.to_nat (i + lo)) l d.
Proof.
  intros. unfold pyslice. rewrite !py_norm_id by lia. rewrite nth_firstn_lt by lia. rewrite nth_skipn_add. f_equal. lia.
Qed.
Lemma pyslice2_entries {B} (a : list (list B)) R0 R1 f y0 y1 x0 x1 :
  Entries a R0 R1 f -> 0 <= y0 <= y1 -> y1 <= R0 -> 0 <= x0 <= x1 -> x1 <= R1 ->
  Entries (pyslice2 a y0 y1 x0 x1) (y1 - y0) (x1 - x0) (fun i j => f (i + y0) (j + x0)).
Proof.
  intros (H0 & H1 & [HL HC] & HE) Hy Hy1 Hx Hx1. unfold pyslice2.
  assert (ROW : forall i, 0 <= i < y1 - y0 ->
     nth (Z.to_nat i) (map (fun row => pyslice row x0 x1) (pyslice a y0 y1)) [] = pyslice (nth (Z.to_nat (i + y0)) a []) x0 x1).
  { intros i Hi. rewrite (nth_indep _ [] (pyslice [] x0 x1)) by (rewrite map_length, pyslice_length; lia).
    rewrite (map_nth (fun row => pyslice row x0 x1)). rewrite pyslice_nth by lia. reflexivity. }
  split; [lia|]. split; [lia|]. split.
  - split; [rewrite map_length, pyslice_length; lia|]. intros i Hi. rewrite <- (Nat2Z.id i). rewrite ROW by lia.
    rewrite pyslice_length; rewrite ?HC; lia.
  - intros i j d Hi Hj. unfold zget2, get2. rewrite ROW by lia. rewrite pyslice_nth by (rewrite ?HC; lia).
    apply (HE (i + y0) (j + x0) d); lia.
Qed.

(* ------------------------------------------------------------------ arithmetic of the two directions of a resize *)
Lemma resized_fun_shrink {B} (pad : B) F H W r0 r1 i j :
  0 <= H <= r0 -> 0 <= W <= r1 -> 0 <= i < H -> 0 <= j < W ->
  resized_fun r0 r1 H W pad F i j = F (i + (r0 / 2 - H / 2)) (j + (r1 / 2 - W / 2)).
Proof.
  intros HH HW Hi Hj. unfold resized_fun, inr.
  assert (0 <= i + (r0 / 2 - H / 2) < r0) by zdiv. assert (0 <= j + (r1 / 2 - W / 2) < r1) by zdiv.
  destruct (Z.leb_spec 0 (i + (r0 / 2 - H / 2))); [|lia]. destruct (Z.ltb_spec (i + (r0 / 2 - H / 2)) r0); [|lia].
  destruct (Z.leb_spec 0 (j + (r1 / 2 - W / 2))); [|lia]. destruct (Z.ltb_spec (j + (r1 / 2 - W / 2)) r1); [|lia].
  reflexivity.
Qed.
Lemma resized_fun_at_shift {B} (pad : B) f H W r0 r1 i j :
  0 <= i < H -> 0 <= j < W ->
  resized_fun H W r0 r1 pad f (i + (r0 / 2 - H / 2)) (j + (r1 / 2 - W / 2)) = f i j.
Proof.
  intros Hi Hj. unfold resized_fun, inr.
  replace (i + (r0 / 2 - H / 2) + (H / 2 - r0 / 2)) with i by lia.
  replace (j + (r1 / 2 - W / 2) + (W / 2 - r1 / 2)) with j by lia.
  destruct (Z.leb_spec 0 i); [|lia]. destruct (Z.ltb_spec i H); [|lia].
  destruct (Z.leb_spec 0 j); [|lia]. destruct (Z.ltb_spec j W); [|lia]. reflexivity.
Qed.
