(* C13 -- execution device for the correspondence run only (never used in a theorem):
   a NumOps instance over Q whose cos2pi / sin2pi are EXACT at quarter turns (the table of Base.NumOps) and otherwise
   a fixed-point evaluation (scale 2^60): the argument is reduced to [-1/8, 1/8] turns by the quarter-turn
   symmetries, then 10-term Taylor polynomials in Horner form.  Absolute error < 1e-16.  All other slots are those of QOps. *)
From Coq Require Import ZArith QArith Qround Qabs List Bool.
From PAV Require Import Base.NumOps.
Import ListNotations.
Local Open Scope Z_scope.

Definition SH : Z := 60.
Definition fxmul (a b : Z) : Z := Z.shiftr (a * b) SH.
Definition twopi_fx : Z := 7244019458077122842.                  (* floor (2 pi 2^60) *)
Definition cos_coef : list Z :=                                   (* round ((-1)^k / (2k)! * 2^60) *)
  [1152921504606846976; -576460752303423488; 48038396025285291; -1601279867509510; 28594283348384;
   -317714259426; 2406926208; -13224869; 55104; -180].
Definition sin_coef : list Z :=                                   (* round ((-1)^k / (2k+1)! * 2^60) *)
  [1152921504606846976; -192153584101141163; 9607679205057058; -228754266787073; 3177142594265;
   -28883114493; 185148170; -881658; 3241; -9].
Definition horner (cs : list Z) (x2 : Z) : Z := fold_right (fun c acc => c + fxmul acc x2) 0 cs.
(* t in turns -> (quarter index q in 0..3, x = 2 pi s in fixed point, |s| <= 1/8) with t = n + q/4 + s *)
Definition reduce (t : Q) : Z * Z :=
  let q4 := Qfloor (Qplus (Qmult (4 # 1) t) (1 # 2)) in               (* round (4 t) *)
  let s := Qred (Qminus t (q4 # 4)) in
  let s_fx := (Qnum s * 2 ^ SH) / Zpos (Qden s) in
  (q4 mod 4, fxmul s_fx twopi_fx).
Definition fx_cos (x : Z) : Z := horner cos_coef (fxmul x x).
Definition fx_sin (x : Z) : Z := fxmul x (horner sin_coef (fxmul x x)).
Definition ofx (z : Z) : Q := Qred (Qmake z (2 ^ 60)%positive).
Definition Qcos_turn (t : Q) : Q :=
  let '(q, x) := reduce t in
  ofx (if q =? 0 then fx_cos x else if q =? 1 then - fx_sin x else if q =? 2 then - fx_cos x else fx_sin x).
Definition Qsin_turn (t : Q) : Q :=
  let '(q, x) := reduce t in
  ofx (if q =? 0 then fx_sin x else if q =? 1 then fx_cos x else if q =? 2 then - fx_sin x else - fx_cos x).

Definition QTcos2pi (t : Q) : Q := match frac_turn4 t with Some _ => Qcos2pi t | None => Qcos_turn t end.
Definition QTsin2pi (t : Q) : Q := match frac_turn4 t with Some _ => Qsin2pi t | None => Qsin_turn t end.

Local Open Scope Q_scope.
Definition QOpsT : NumOps := {|
  T := Q;
  add := fun a b => Qred (Qplus a b); sub := fun a b => Qred (Qminus a b);
  mul := fun a b => Qred (Qmult a b); div := fun a b => Qred (Qdiv a b);
  opp := fun a => Qred (Qopp a); ofZ := inject_Z;
  leb := Qle_bool; ltb := Qltb; eqb := Qeq_bool;
  floorZ := Qfloor;
  sqrtT := Qsqrt_approx; cos2pi := QTcos2pi; sin2pi := QTsin2pi; lnT := fun _ => 0 |}.

(* |a - b| <= tol * max(1, |b|) *)
Definition Qclose (tol a b : Q) : bool :=
  Qle_bool (Qabs (a - b)) (tol * (if Qle_bool (Qabs b) 1 then 1 else Qabs b)).
