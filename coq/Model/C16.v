(* C16 -- FITS output followed by input reproduces values, orientation and pixel scale.
   EXECUTABLE definitions only (no proofs):
   (a) the MODEL of the anchored code: array_2d_util / array_1d_util (hdu_for_output_from,
       numpy_array_*_to_fits with its exact os.path.split / exists / makedirs / remove / writeto sequence,
       numpy_array_*_via_fits_from, header_obj_from), abstract_mask.pixel_scale(_header),
       abstract_ndarray.flip_hdu_for_ds9, and the FITS methods of Array2D, Kernel2D, Mask2D, Array1D, Mask1D, Imaging;
   (b) the independent SPECIFICATION (zero_fill, write_spec, ...);
   (c) the correspondence [case] type, [agree], [spec_ok], [check].
   Oracles (modelled, not verified): astropy's codec is the identity on (float64 data, header cards) and an
   HDUList is a Python list (negative indices wrap, IndexError outside); the file system is the small state
   machine [fsys] below (paths = lists of components below one root which is also the current directory;
   a bare file name has the empty directory part '' ). *)
From Coq Require Import ZArith QArith List Bool Lia.
From PAV Require Import Base.NumOps Base.Check.
Import ListNotations.

(* ------------------------------------------------------------------ results and exceptions *)
Inductive fexn : Set :=
| FileExists      (* OSError raised by astropy's writeto on an existing path *)
| FileNotFound    (* FileNotFoundError: os.makedirs(''), open of a missing file, missing directory *)
| IndexErr        (* IndexError: hdu_list[hdu] outside the list *)
| KeyErr          (* KeyError: header["PIXSCALE"] absent *)
| ArrayErr        (* exc.ArrayException: array / mask shape mismatch *)
| DatasetErr      (* exc.DatasetException: Imaging noise-map check *)
| OtherErr.
Inductive fres (A : Type) : Type := FOk (a : A) | FRaise (e : fexn).
Arguments FOk {A} a. Arguments FRaise {A} e.
Definition fexn_eqb (a b : fexn) : bool :=
  match a, b with
  | FileExists, FileExists | FileNotFound, FileNotFound | IndexErr, IndexErr | KeyErr, KeyErr
  | ArrayErr, ArrayErr | DatasetErr, DatasetErr | OtherErr, OtherErr => true
  | _, _ => false
  end.
Definition fres_eqb {A} (eqb : A -> A -> bool) (x y : fres A) : bool :=
  match x, y with
  | FOk a, FOk b => eqb a b
  | FRaise e, FRaise f => fexn_eqb e f
  | _, _ => false
  end.
Definition fbind {A B} (x : fres A) (f : A -> fres B) : fres B :=
  match x with FOk a => f a | FRaise e => FRaise e end.
Notation "'do' a <- x ; f" := (fbind x (fun a => f)) (at level 200, a name, x at level 100, f at level 200).

(* ------------------------------------------------------------------ file system *)
Definition path := list nat.            (* components; the last one is the file name *)
Definition path_eqb : path -> path -> bool := list_eqb Nat.eqb.
Definition is_nil {A} (l : list A) : bool := match l with [] => true | _ => false end.
(* os.path.split(p)[0] *)
Definition dirname (p : path) : path := removelast p.
(* non-empty prefixes of d, shortest first: the directories os.makedirs(d) walks through *)
Fixpoint prefixes (d : path) : list path :=
  match d with [] => [] | x :: t => [x] :: map (cons x) (prefixes t) end.

Section FS.
  Context {C : Type}.                   (* content of a file *)
  Record fsys := mkfs { dirs : list path; files : list (path * C) }.
  Definition is_dir (fs : fsys) (d : path) : bool := existsb (path_eqb d) (dirs fs).
  Fixpoint lookup (fl : list (path * C)) (p : path) : option C :=
    match fl with
    | [] => None
    | (q, c) :: t => if path_eqb p q then Some c else lookup t p
    end.
  Definition is_file (fs : fsys) (p : path) : bool :=
    match lookup (files fs) p with Some _ => true | None => false end.
  (* os.path.exists: False for the empty string *)
  Definition os_exists (fs : fsys) (p : path) : bool :=
    match p with [] => false | _ => is_dir fs p || is_file fs p end.
  (* os.makedirs(d): FileNotFoundError for '', FileExistsError if d exists, else creates d and every missing ancestor *)
  Definition os_makedirs (fs : fsys) (d : path) : fres fsys :=
    match d with
    | [] => FRaise FileNotFound
    | _ => if os_exists fs d then FRaise FileExists
           else FOk (mkfs (dirs fs ++ filter (fun q => negb (is_dir fs q)) (prefixes d)) (files fs))
    end.
  Definition os_remove (fs : fsys) (p : path) : fsys :=
    mkfs (dirs fs) (filter (fun e => negb (path_eqb p (fst e))) (files fs)).
  (* PrimaryHDU.writeto(p) (overwrite=False): OSError on an existing path, FileNotFoundError when the directory
     does not exist, otherwise the file is created with the given content *)
  Definition writeto (fs : fsys) (p : path) (c : C) : fres fsys :=
    if os_exists fs p then FRaise FileExists
    else if (match dirname p with [] => true | d => is_dir fs d end)
         then FOk (mkfs (dirs fs) (files fs ++ [(p, c)]))
         else FRaise FileNotFound.
  (* the body shared (textually duplicated) by numpy_array_2d_to_fits and numpy_array_1d_to_fits, from
     `file_dir = os.path.split(file_path)[0]` to `hdu.writeto(file_path)`; result = final state + raised exception *)
  Definition to_fits (fs : fsys) (p : path) (overwrite : bool) (c : C) : fsys * option fexn :=
    let file_dir := dirname p in
    match (if negb (is_nil file_dir) && negb (os_exists fs file_dir) then os_makedirs fs file_dir else FOk fs) with
    | FRaise e => (fs, Some e)
    | FOk fs1 =>
        let fs2 := if overwrite && os_exists fs1 p then os_remove fs1 p else fs1 in
        match writeto fs2 p c with
        | FRaise e => (fs2, Some e)
        | FOk fs3 => (fs3, None)
        end
    end.

  (* ---- specification of a write: files' = files[p := c], dirs' = dirs + ancestors of p; or refusal ---- *)
  Definition write_spec (fs : fsys) (p : path) (overwrite : bool) (c : C) : fsys * option fexn :=
    if is_file fs p && negb overwrite then (fs, Some FileExists)
    else (mkfs (dirs fs ++ filter (fun q => negb (is_dir fs q)) (prefixes (dirname p)))
               (filter (fun e => negb (path_eqb p (fst e))) (files fs) ++ [(p, c)]), None).
  (* inputs on which the small file-system model is meant to be used: the target is not a directory and its
     directory part is not a file *)
  Definition target_ok (fs : fsys) (p : path) : bool :=
    negb (is_nil p) && negb (is_dir fs p) && negb (existsb (is_file fs) (prefixes (dirname p))).
  (* overwrite requested, or nothing at the target *)
  Definition fresh_or_overwrite (fs : fsys) (p : path) (ow : bool) : bool := ow || negb (is_file fs p).
  (* states that a real directory tree can be in: every ancestor of a directory or of a file is a directory *)
  Definition fs_wf (fs : fsys) : bool :=
    forallb (fun d => forallb (is_dir fs) (prefixes d)) (dirs fs)
    && forallb (fun e => forallb (is_dir fs) (prefixes (dirname (fst e)))) (files fs).
End FS.
Arguments fsys C : clear implicits.
(* two targets neither of which is the other or an ancestor directory of the other *)
Definition indep (p q : path) : bool :=
  negb (path_eqb p q) && negb (existsb (path_eqb q) (prefixes (dirname p))) && negb (existsb (path_eqb p) (prefixes (dirname q))).
(* the valid hdu indices of a one-HDU file *)
Definition sole_index (k : Z) : bool := ((k =? 0) || (k =? -1))%Z.

(* ------------------------------------------------------------------ HDUs, util functions *)
Inductive hkey : Set := PIXSCALE | PIXSCALEY | PIXSCALEX.
Definition hkey_eqb (a b : hkey) : bool :=
  match a, b with PIXSCALE, PIXSCALE | PIXSCALEY, PIXSCALEY | PIXSCALEX, PIXSCALEX => true | _, _ => false end.

(* python sequence indexing l[i]: negative indices wrap, None = IndexError *)
Definition py_nth {A} (l : list A) (i : Z) : option A :=
  let n := Z.of_nat (length l) in
  if (0 <=? i)%Z then nth_error l (Z.to_nat i)
  else if (- n <=? i)%Z then nth_error l (Z.to_nat (n + i)) else None.

Section HDU.
  Context {V X : Type}.                 (* V: header values; X: element of axis 0 (a row for 2D data, a value for 1D) *)
  Definition header := list (hkey * V).
  Record hdu := mkhdu { hdata : list X; hhdr : header }.
  Fixpoint hlookup (k : hkey) (h : header) : option V :=
    match h with [] => None | (k', v) :: t => if hkey_eqb k k' then Some v else hlookup k t end.
  (* np.flipud: reversal along axis 0 *)
  Definition flipud (a : list X) : list X := rev a.
  (* array_2d_util.hdu_for_output_from *)
  Definition hdu_for_output_from_2d (flip_for_ds9 : bool) (array_2d : list X) (header_dict : header) : hdu :=
    if flip_for_ds9 then mkhdu (flipud array_2d) header_dict else mkhdu array_2d header_dict.
  (* array_1d_util.hdu_for_output_from *)
  Definition hdu_for_output_from_1d (array_1d : list X) (header_dict : header) : hdu := mkhdu array_1d header_dict.
  Definition fitsfs := fsys (list hdu).
  Definition numpy_array_2d_to_fits (flip : bool) (fs : fitsfs) (arr : list X) (p : path) (overwrite : bool) (hd : header) :=
    to_fits fs p overwrite [hdu_for_output_from_2d flip arr hd].
  Definition numpy_array_1d_to_fits (fs : fitsfs) (arr : list X) (p : path) (overwrite : bool) (hd : header) :=
    to_fits fs p overwrite [hdu_for_output_from_1d arr hd].
  Definition fits_open (fs : fitsfs) (p : path) : fres (list hdu) :=
    match lookup (files fs) p with Some c => FOk c | None => FRaise FileNotFound end.
  Definition hdu_at (fs : fitsfs) (p : path) (k : Z) : fres hdu :=
    do hl <- fits_open fs p; match py_nth hl k with Some h => FOk h | None => FRaise IndexErr end.
  (* array_2d_util.numpy_array_2d_via_fits_from *)
  Definition numpy_array_2d_via_fits_from (flip : bool) (fs : fitsfs) (p : path) (k : Z) : fres (list X) :=
    do h <- hdu_at fs p k; if flip then FOk (flipud (hdata h)) else FOk (hdata h).
  (* array_1d_util.numpy_array_1d_via_fits_from *)
  Definition numpy_array_1d_via_fits_from (fs : fitsfs) (p : path) (k : Z) : fres (list X) :=
    do h <- hdu_at fs p k; FOk (hdata h).
  (* array_2d_util.header_obj_from *)
  Definition header_obj_from (fs : fitsfs) (p : path) (k : Z) : fres header :=
    do h <- hdu_at fs p k; FOk (hhdr h).
  (* abstract_ndarray.flip_hdu_for_ds9 *)
  Definition flip_hdu_for_ds9 (flip : bool) (values : list X) : list X := if flip then flipud values else values.
End HDU.
Arguments hdu V X : clear implicits.
Arguments header V : clear implicits.
Arguments fitsfs V X : clear implicits.

(* ------------------------------------------------------------------ generic list helpers *)
Fixpoint map2 {A B C} (f : A -> B -> C) (a : list A) (b : list B) : list C :=
  match a, b with x :: a', y :: b' => f x y :: map2 f a' b' | _, _ => [] end.
Fixpoint same_len2 {A B} (a : list (list A)) (b : list (list B)) : bool :=
  match a, b with
  | [], [] => true
  | r :: a', s :: b' => Nat.eqb (length r) (length s) && same_len2 a' b'
  | _, _ => false
  end.

(* ================================================================== object layer *)
Section Obj.
  Context {O : NumOps}.
  Local Notation V := (T O).
  Definition tobool (v : V) : bool := negb (eqb O v zero).         (* ndarray.astype("bool") *)
  Definition tofloat (b : bool) : V := if b then one else zero.    (* ndarray.astype("float") *)

  (* ---- slim <-> native (array_2d_slim_from: row-major scan keeping the unmasked values;
          array_2d_native_from: zeros, then the k-th slim value goes to the k-th unmasked pixel -- written here
          in the equivalent consuming form; the scatter form is the subject of C01) ---- *)
  Fixpoint slim_row (m : list bool) (n : list V) : list V :=
    match m, n with
    | b :: m', v :: n' => if b then slim_row m' n' else v :: slim_row m' n'
    | _, _ => []
    end.
  Fixpoint native_row (m : list bool) (s : list V) : list V * list V :=
    match m with
    | [] => ([], s)
    | true :: m' => let '(r, s') := native_row m' s in (zero :: r, s')
    | false :: m' => match s with
                     | [] => let '(r, s') := native_row m' [] in (zero :: r, s')
                     | v :: s0 => let '(r, s') := native_row m' s0 in (v :: r, s')
                     end
    end.
  Definition slim_from (m : list (list bool)) (n : list (list V)) : list V := concat (map2 slim_row m n).
  Fixpoint native_from (m : list (list bool)) (s : list V) : list (list V) :=
    match m with
    | [] => []
    | r :: m' => let '(row, s') := native_row r s in row :: native_from m' s'
    end.

  (* ---- abstract_mask.Mask.pixel_scale: the loop only logs a warning; returns pixel_scales[0] ---- *)
  Definition pixel_scale (pixel_scales : list V) : V := hd zero pixel_scales.
  (* abstract_mask.Mask.pixel_scale_header (as repaired by /repo commit 770955c = fixes/C16_anisotropic_pixel_scale_header.diff):
     `if all(pixel_scale == self.pixel_scales[0] for pixel_scale in self.pixel_scales): return {"PIXSCALE": self.pixel_scales[0]}`
     else `{"PIXSCALEY": self.pixel_scales[0], "PIXSCALEX": self.pixel_scales[1]}` *)
  Definition pixel_scale_header (pixel_scales : list V) : header V :=
    if forallb (fun s => eqb O s (nth 0 pixel_scales zero)) pixel_scales
    then [(PIXSCALE, nth 0 pixel_scales zero)]
    else [(PIXSCALEY, nth 0 pixel_scales zero); (PIXSCALEX, nth 1 pixel_scales zero)].
  Definition scales2 (s : V * V) : list V := [fst s; snd s].
  (* abstract_ndarray.AbstractNDArray.pixel_scales_via_header_from followed by convert_pixel_scales_2d
     (a float s becomes (s, s), a tuple is kept); header[key] raises KeyError when the card is absent *)
  Definition pixel_scales_via_header_from (h : header V) : fres (V * V) :=
    match hlookup PIXSCALE h with
    | Some s => FOk (s, s)
    | None => match hlookup PIXSCALEY h with
              | None => FRaise KeyErr
              | Some sy => match hlookup PIXSCALEX h with
                           | None => FRaise KeyErr
                           | Some sx => FOk (sy, sx)
                           end
              end
    end.

  (* ---- Array2D / Kernel2D ---- *)
  Record array2d := mkarr2 { a_slim : list V; a_mask : list (list bool); a_scales : V * V }.
  (* Array2D(values=<2D>, mask): convert_array_2d = shape check; array_2d *= np.invert(mask); array_2d_slim_from *)
  Definition Array2D_new (values : list (list V)) (mask : list (list bool)) (scales : V * V) : fres array2d :=
    if same_len2 values mask
    then FOk (mkarr2 (slim_from mask (map2 (map2 (fun v m => mul O v (tofloat (negb m)))) values mask)) mask scales)
    else FRaise ArrayErr.
  (* Array2D.no_mask(values=<2D>): Mask2D.all_false(shape of values) *)
  Definition Array2D_no_mask (values : list (list V)) (scales : V * V) : fres array2d :=
    Array2D_new values (map (map (fun _ => false)) values) scales.
  Definition Array2D_native (a : array2d) : list (list V) := native_from (a_mask a) (a_slim a).
  (* AbstractArray2D.hdu_for_output *)
  Definition Array2D_hdu_for_output (flip : bool) (a : array2d) : hdu V (list V) :=
    hdu_for_output_from_2d flip (Array2D_native a) (pixel_scale_header (scales2 (a_scales a))).
  (* AbstractArray2D.output_to_fits *)
  Definition Array2D_output_to_fits (flip : bool) (fs : fitsfs V (list V)) (a : array2d) (p : path) (overwrite : bool) :=
    numpy_array_2d_to_fits flip fs (Array2D_native a) p overwrite (pixel_scale_header (scales2 (a_scales a))).
  (* Array2D.from_fits: (array, header_sci_obj, header_hdu_obj) *)
  Definition Array2D_from_fits (flip : bool) (fs : fitsfs V (list V)) (p : path) (scales : V * V) (k : Z)
    : fres (array2d * header V * header V) :=
    do arr <- numpy_array_2d_via_fits_from flip fs p k;
    do hsci <- header_obj_from fs p 0;
    do hhdu <- header_obj_from fs p k;
    do a <- Array2D_no_mask arr scales;
    FOk (a, hsci, hhdu).
  (* Array2D.from_primary_hdu ; Kernel2D.from_primary_hdu is the same text on cls = Kernel2D (normalize=False) *)
  Definition Array2D_from_primary_hdu (flip : bool) (h : hdu V (list V)) : fres array2d :=
    let values := flip_hdu_for_ds9 flip (hdata h) in
    do sc <- pixel_scales_via_header_from (hhdr h);
    Array2D_no_mask values sc.
  (* Kernel2D.__init__(normalize): self._array[:] = self._array / np.sum(self._array) *)
  Definition Kernel2D_new (a : array2d) (normalize : bool) : array2d :=
    if normalize then mkarr2 (map (fun v => div O v (sumT (a_slim a))) (a_slim a)) (a_mask a) (a_scales a) else a.
  (* Kernel2D.from_fits *)
  Definition Kernel2D_from_fits (flip : bool) (fs : fitsfs V (list V)) (p : path) (k : Z) (scales : V * V) (normalize : bool)
    : fres (array2d * header V * header V) :=
    do r <- Array2D_from_fits flip fs p scales k;
    do hsci <- header_obj_from fs p 0;
    do hhdu <- header_obj_from fs p k;
    FOk (Kernel2D_new (fst (fst r)) normalize, hsci, hhdu).

  (* ---- Mask2D ---- *)
  Record mask2d := mkmask2 { m_mask : list (list bool); m_scales : V * V }.
  (* array_2d_util.resized_array_2d_from (default origin), on the boolean array np.array(mask), pad_value = 0.0,
     followed by .astype("bool"): the double loop writes cell (y_resized, x_resized) from (y, x) when that lies
     in the array and the pad value otherwise, skipping resized indices outside the new shape *)
  Fixpoint upd_at {B} (l : list B) (i : nat) (f : B -> B) : list B :=
    match l, i with [] , _ => [] | b :: t, Datatypes.O => f b :: t | b :: t, S j => b :: upd_at t j f end.
  Definition set2 {A} (out : list (list A)) (y x : nat) (v : A) : list (list A) :=
    upd_at out y (fun row => upd_at row x (fun _ => v)).
  Definition zrange (a b : Z) : list Z := map (fun i => (a + Z.of_nat i)%Z) (seq 0 (Z.to_nat (b - a))).
  Definition enumerate {A} (l : list A) : list (nat * A) := combine (seq 0 (length l)) l.
  Definition resized_array_2d_from (arr : list (list bool)) (rs : Z * Z) (pad : bool) : list (list bool) :=
    let H := Z.of_nat (length arr) in let W := Z.of_nat (length (hd [] arr)) in
    let y_centre := (H / 2)%Z in let x_centre := (W / 2)%Z in          (* int(n / 2), n >= 0 *)
    let y_min := (y_centre - fst rs / 2)%Z in let y_max := (y_centre + fst rs / 2 + 1)%Z in
    let x_min := (x_centre - snd rs / 2)%Z in let x_max := (x_centre + snd rs / 2 + 1)%Z in
    let zeros := repeat (repeat false (Z.to_nat (snd rs))) (Z.to_nat (fst rs)) in
    fold_left (fun out yy =>
      let '(y_resized, y) := yy in
      fold_left (fun out xx =>
        let '(x_resized, x) := xx in
        let inside := ((Z.of_nat y_resized <? fst rs) && (Z.of_nat x_resized <? snd rs))%Z in
        if ((0 <=? y) && (y <? H) && (0 <=? x) && (x <? W))%Z
        then if inside then set2 out y_resized x_resized (nth (Z.to_nat x) (nth (Z.to_nat y) arr []) false) else out
        else if inside then set2 out y_resized x_resized pad else out)
      (enumerate (zrange x_min x_max)) out)
    (enumerate (zrange y_min y_max)) zeros.
  Definition Mask2D_resized_from (m : mask2d) (new_shape : Z * Z) : mask2d :=
    mkmask2 (resized_array_2d_from (m_mask m) new_shape false) (m_scales m).
  (* Mask2D.hdu_for_output / output_to_fits: self.astype("float") *)
  Definition Mask2D_hdu_for_output (flip : bool) (m : mask2d) : hdu V (list V) :=
    hdu_for_output_from_2d flip (map (map tofloat) (m_mask m)) (pixel_scale_header (scales2 (m_scales m))).
  Definition Mask2D_output_to_fits (flip : bool) (fs : fitsfs V (list V)) (m : mask2d) (p : path) (overwrite : bool) :=
    numpy_array_2d_to_fits flip fs (map (map tofloat) (m_mask m)) p overwrite (pixel_scale_header (scales2 (m_scales m))).
  (* Mask2D.from_fits *)
  Definition Mask2D_from_fits (flip : bool) (fs : fitsfs V (list V)) (p : path) (scales : V * V) (k : Z)
             (resized_mask_shape : option (Z * Z)) (invert : bool) : fres mask2d :=
    do mask <- numpy_array_2d_via_fits_from flip fs p k;
    let mb := if invert then map (map (fun v => negb (tobool v))) mask      (* np.invert(mask.astype("bool")) *)
              else map (map tobool) mask in                                 (* Mask.__init__: mask.astype("bool") *)
    let m := mkmask2 mb scales in
    match resized_mask_shape with
    | Some sh => FOk (Mask2D_resized_from m sh)
    | None => FOk m
    end.
  (* Mask2D.from_primary_hdu *)
  Definition Mask2D_from_primary_hdu (flip : bool) (h : hdu V (list V)) : fres mask2d :=
    let mask := flip_hdu_for_ds9 flip (hdata h) in
    do sc <- pixel_scales_via_header_from (hhdr h);
    FOk (mkmask2 (map (map tobool) mask) sc).

  (* ---- Array1D ---- *)
  Record array1d := mkarr1 { b_vals : list V; b_mask : list bool; b_scale : V }.   (* b_vals: stored (slim) values *)
  (* array_1d_util.convert_array_1d *)
  Definition convert_array_1d (arr : list V) (mask : list bool) (store_native : bool) : list V :=
    let is_native := Nat.eqb (length arr) (length mask) in
    if Bool.eqb is_native store_native
    then (if is_native then map2 (fun v m => mul O v (tofloat (negb m))) arr mask else arr)
    else if negb store_native then slim_row mask arr
    else fst (native_row mask arr).
  Definition Array1D_new (values : list V) (mask : list bool) (scale : V) : array1d :=
    mkarr1 (convert_array_1d values mask false) mask scale.
  Definition Array1D_no_mask (values : list V) (scale : V) : array1d :=
    Array1D_new values (map (fun _ => false) values) scale.
  (* Array1D.native = Array1D(values=self, mask=self.mask, store_native=True) *)
  Definition Array1D_native (a : array1d) : list V := convert_array_1d (b_vals a) (b_mask a) true.
  (* Array1D.hdu_for_output (as repaired by /repo commit 9d3d532 = fixes/C16_array1d_hdu_flip.diff): array_1d_util.hdu_for_output_from, no flip;
     the [flip] argument (the config flag in force) is kept to show that it has no influence *)
  Definition Array1D_hdu_for_output (flip : bool) (a : array1d) : hdu V V :=
    hdu_for_output_from_1d (Array1D_native a) (pixel_scale_header [b_scale a]).
  (* Array1D.output_to_fits: array_1d_util.numpy_array_1d_to_fits (no flip) *)
  Definition Array1D_output_to_fits (fs : fitsfs V V) (a : array1d) (p : path) (overwrite : bool) :=
    numpy_array_1d_to_fits fs (Array1D_native a) p overwrite (pixel_scale_header [b_scale a]).
  Definition Array1D_from_fits (fs : fitsfs V V) (p : path) (scale : V) (k : Z) : fres (array1d * header V * header V) :=
    do arr <- numpy_array_1d_via_fits_from fs p k;
    do hsci <- header_obj_from fs p 0;
    do hhdu <- header_obj_from fs p k;
    FOk (Array1D_no_mask arr scale, hsci, hhdu).
  (* Array1D.from_primary_hdu: no flip_hdu_for_ds9 here *)
  Definition Array1D_from_primary_hdu (h : hdu V V) : fres array1d :=
    match hlookup PIXSCALE (hhdr h) with
    | None => FRaise KeyErr
    | Some s => FOk (Array1D_no_mask (hdata h) s)
    end.

  (* ---- Mask1D ---- *)
  Record mask1d := mkmask1 { n_mask : list bool; n_scale : V }.
  Definition Mask1D_hdu_for_output (m : mask1d) : hdu V V :=
    hdu_for_output_from_1d (map tofloat (n_mask m)) (pixel_scale_header [n_scale m]).
  Definition Mask1D_output_to_fits (fs : fitsfs V V) (m : mask1d) (p : path) (overwrite : bool) :=
    numpy_array_1d_to_fits fs (map tofloat (n_mask m)) p overwrite (pixel_scale_header [n_scale m]).
  Definition Mask1D_from_fits (fs : fitsfs V V) (p : path) (scale : V) (k : Z) : fres mask1d :=
    do arr <- numpy_array_1d_via_fits_from fs p k; FOk (mkmask1 (map tobool arr) scale).
  Definition Mask1D_from_primary_hdu (h : hdu V V) : fres mask1d :=
    match hlookup PIXSCALE (hhdr h) with
    | None => FRaise KeyErr
    | Some s => FOk (mkmask1 (map tobool (hdata h)) s)
    end.

  (* ---- Imaging.output_to_fits (data, then psf, then noise map; stops at the first exception) and
          Imaging.from_fits (data, noise map, psf with normalize=False; Imaging.__init__ then re-normalises the psf
          (use_normalized_psf=True) and checks the noise map) ---- *)
  Definition Imaging_output_to_fits (flip : bool) (fs : fitsfs V (list V)) (data noise psf : array2d)
             (pd pp pn : path) (overwrite : bool) : fitsfs V (list V) * option fexn :=
    match Array2D_output_to_fits flip fs data pd overwrite with
    | (fs1, Some e) => (fs1, Some e)
    | (fs1, None) =>
        match Array2D_output_to_fits flip fs1 psf pp overwrite with
        | (fs2, Some e) => (fs2, Some e)
        | (fs2, None) => Array2D_output_to_fits flip fs2 noise pn overwrite
        end
    end.
  Definition noise_ok (a : array2d) : bool :=      (* not ((noise_map.native <= 0) * invert(mask)).any() *)
    forallb (fun v => negb (leb O v zero)) (a_slim a).
  Definition Imaging_from_fits (flip : bool) (fs : fitsfs V (list V)) (scales : V * V) (pd pp pn : path) (check_noise_map : bool)
    : fres (array2d * array2d * array2d) :=
    do d <- Array2D_from_fits flip fs pd scales 0;
    do n <- Array2D_from_fits flip fs pn scales 0;
    do k <- Kernel2D_from_fits flip fs pp 0 scales false;
    if check_noise_map && negb (noise_ok (fst (fst n))) then FRaise DatasetErr
    else do psf <- Array2D_no_mask (Array2D_native (fst (fst k))) (a_scales (fst (fst k)));
         FOk (fst (fst d), fst (fst n), Kernel2D_new psf true).

  (* ================================================================ specification *)
  (* what must come back: the input values with zeros at the masked pixels *)
  Definition zero_fill_row (m : list bool) (n : list V) : list V := map2 (fun (b : bool) (v : V) => if b then zero else v) m n.
  Definition zero_fill (m : list (list bool)) (n : list (list V)) : list (list V) := map2 zero_fill_row m n.
End Obj.

(* ================================================================== correspondence (executed at Q) *)
Definition qeq : Q -> Q -> bool := Qeq_bool.
(* the harness prints doubles of extreme magnitude as n * 2^e (parsing a 300-digit numeral is slow) *)
Definition dy (n e : Z) : Q := if (0 <=? e)%Z then Qmake (n * 2 ^ e) 1 else Qmake n (Z.to_pos (2 ^ (- e))).
Definition row_eqb := list_eqb qeq.
Definition arr_eqb := list_eqb row_eqb.
Definition brow_eqb := list_eqb Bool.eqb.
Definition barr_eqb := list_eqb brow_eqb.
Definition sc2_eqb (a b : Q * Q) := qeq (fst a) (fst b) && qeq (snd a) (snd b).
Definition hdr_eqb : header Q -> header Q -> bool := list_eqb (prod_eqb hkey_eqb qeq).
Definition hdu_eqb {X} (e : X -> X -> bool) (a b : hdu Q X) : bool := list_eqb e (hdata a) (hdata b) && hdr_eqb (hhdr a) (hhdr b).
Definition oexn_eqb := option_eqb fexn_eqb.
(* file systems are compared as sets of directories and finite maps of files *)
Definition incl_b {A} (e : A -> A -> bool) (a b : list A) : bool := forallb (fun x => existsb (e x) b) a.
Definition set_eqb {A} (e : A -> A -> bool) (a b : list A) : bool := incl_b e a b && incl_b e b a.
Definition fs_eqb {X} (e : X -> X -> bool) (a b : fitsfs Q X) : bool :=
  set_eqb path_eqb (dirs a) (dirs b) &&
  set_eqb (prod_eqb path_eqb (list_eqb (hdu_eqb e))) (files a) (files b).

(* what the harness observes of a read-back object *)
Definition obs2 := (list (list Q) * list (list bool) * (Q * Q) * header Q * header Q)%type.  (* native, mask, pixel_scales, PIXSCALE* cards of header_sci_obj / header_hdu_obj *)
Definition obs2_eqb (a b : obs2) : bool :=
  let '(n1, m1, s1, p1, q1) := a in let '(n2, m2, s2, p2, q2) := b in
  arr_eqb n1 n2 && barr_eqb m1 m2 && sc2_eqb s1 s2 && hdr_eqb p1 p2 && hdr_eqb q1 q2.
Definition obsm2 := (list (list bool) * (Q * Q))%type.
Definition obsm2_eqb (a b : obsm2) := barr_eqb (fst a) (fst b) && sc2_eqb (snd a) (snd b).
Definition obs1 := (list Q * list bool * Q * header Q * header Q)%type.
Definition obs1_eqb (a b : obs1) : bool :=
  let '(n1, m1, s1, p1, q1) := a in let '(n2, m2, s2, p2, q2) := b in
  row_eqb n1 n2 && brow_eqb m1 m2 && qeq s1 s2 && hdr_eqb p1 p2 && hdr_eqb q1 q2.
Definition obsm1 := (list bool * Q)%type.
Definition obsm1_eqb (a b : obsm1) := brow_eqb (fst a) (fst b) && qeq (snd a) (snd b).

Definition observe2 (r : fres (@array2d QOps * header Q * header Q)) : fres obs2 :=
  do x <- r; let '(a, hs, hh) := x in
  FOk (Array2D_native a, a_mask a, a_scales a, hs, hh).
Definition observe2h (r : fres (@array2d QOps)) : fres obs2 :=
  do a <- r; FOk (Array2D_native a, a_mask a, a_scales a, [], []).
Definition observe1 (r : fres (@array1d QOps * header Q * header Q)) : fres obs1 :=
  do x <- r; let '(a, hs, hh) := x in
  FOk (Array1D_native a, b_mask a, b_scale a, hs, hh).
Definition observe1h (r : fres (@array1d QOps)) : fres obs1 :=
  do a <- r; FOk (Array1D_native a, b_mask a, b_scale a, [], []).
Definition observem2 (r : fres (@mask2d QOps)) : fres obsm2 := do m <- r; FOk (m_mask m, m_scales m).
Definition observem1 (r : fres (@mask1d QOps)) : fres obsm1 := do m <- r; FOk (n_mask m, n_scale m).

Inductive kind2 := KArray | KKernel.
Definition fs2 := fitsfs Q (list Q).
Definition fs1 := fitsfs Q Q.

(* one constructor per observed chain of operations: inputs, then what the IMPLEMENTATION returned *)
Inductive case :=
(* util: numpy_array_2d_to_fits on the state fs0, then numpy_array_2d_via_fits_from + header PIXSCALE of hdu k *)
| KUtil2 (flip : bool) (fs0 : fs2) (arr : list (list Q)) (p : path) (ow : bool) (hd : header Q) (k : Z)
         (w : option fexn) (fs_after : fs2) (r : fres (list (list Q))) (hr : fres (header Q))
| KUtil1 (fs0 : fs1) (arr : list Q) (p : path) (ow : bool) (hd : header Q) (k : Z)
         (w : option fexn) (fs_after : fs1) (r : fres (list Q))
(* Array2D / Kernel2D: Array2D(values, mask).output_to_fits(p, ow) then cls.from_fits(p, scales, hdu=k) *)
| KFile2 (flip : bool) (kd : kind2) (vals : list (list Q)) (mask : list (list bool)) (sc : Q * Q)
         (fs0 : fs2) (p : path) (ow : bool) (k : Z)
         (w : option fexn) (fs_after : fs2) (r : fres obs2)
(* hdu_for_output then cls.from_primary_hdu *)
| KHdu2 (flip : bool) (kd : kind2) (vals : list (list Q)) (mask : list (list bool)) (sc : Q * Q)
        (raw : hdu Q (list Q)) (r : fres obs2)
(* Mask2D.output_to_fits then Mask2D.from_fits(p, scales, hdu=k, resized_mask_shape, invert) *)
| KFileM2 (flip : bool) (mask : list (list bool)) (sc : Q * Q) (fs0 : fs2) (p : path) (ow : bool) (k : Z)
          (rs : option (Z * Z)) (inv : bool)
          (w : option fexn) (fs_after : fs2) (r : fres obsm2)
| KHduM2 (flip : bool) (mask : list (list bool)) (sc : Q * Q) (raw : hdu Q (list Q)) (r : fres obsm2)
(* a file holding the hdu_for_output of several arrays (assembled by astropy), read with Array2D.from_fits(hdu=k) *)
| KMulti2 (flip : bool) (objs : list (list (list Q) * list (list bool) * (Q * Q))) (k : Z) (r : fres obs2)
(* Array1D / Mask1D *)
| KMulti1 (flip : bool) (objs : list (list Q * list bool * Q)) (k : Z) (r : fres obs1)
| KFile1 (flip : bool) (vals : list Q) (mask : list bool) (sc : Q) (fs0 : fs1) (p : path) (ow : bool) (k : Z)
         (w : option fexn) (fs_after : fs1) (r : fres obs1)
| KHdu1 (flip : bool) (vals : list Q) (mask : list bool) (sc : Q) (raw : hdu Q Q) (r : fres obs1)
| KFileM1 (flip : bool) (mask : list bool) (sc : Q) (fs0 : fs1) (p : path) (ow : bool) (k : Z)
          (w : option fexn) (fs_after : fs1) (r : fres obsm1)
| KHduM1 (flip : bool) (mask : list bool) (sc : Q) (raw : hdu Q Q) (r : fres obsm1)
(* Imaging.output_to_fits then Imaging.from_fits; the three arrays are given by their native values + mask *)
| KImaging (flip : bool) (mask : list (list bool)) (data noise psf : list (list Q)) (sc : Q * Q)
           (fs0 : fs2) (pd pp pn : path) (ow : bool) (chk : bool)
           (w : option fexn) (fs_after : fs2) (r : fres (list (list Q) * list (list Q) * list (list Q))).

Definition all_false2 {A} (v : list (list A)) : list (list bool) := map (map (fun _ => false)) v.
Definition all_false1 {A} (v : list A) : list bool := map (fun _ => false) v.

Definition mk2 (vals : list (list Q)) (mask : list (list bool)) (sc : Q * Q) : fres (@array2d QOps) :=
  @Array2D_new QOps vals mask sc.

Definition agree (c : case) : bool :=
  match c with
  | KUtil2 flip fs0 arr p ow hd k w fsa r hr =>
      let '(fs', w') := numpy_array_2d_to_fits flip fs0 arr p ow hd in
      oexn_eqb w' w && fs_eqb row_eqb fs' fsa &&
      fres_eqb arr_eqb (numpy_array_2d_via_fits_from flip fs' p k) r &&
      fres_eqb hdr_eqb (header_obj_from fs' p k) hr
  | KUtil1 fs0 arr p ow hd k w fsa r =>
      let '(fs', w') := numpy_array_1d_to_fits fs0 arr p ow hd in
      oexn_eqb w' w && fs_eqb qeq fs' fsa && fres_eqb row_eqb (numpy_array_1d_via_fits_from fs' p k) r
  | KFile2 flip kd vals mask sc fs0 p ow k w fsa r =>
      match mk2 vals mask sc with
      | FRaise _ => false
      | FOk a =>
          let '(fs', w') := (Array2D_output_to_fits (O := QOps)) flip fs0 a p ow in
          oexn_eqb w' w && fs_eqb row_eqb fs' fsa &&
          fres_eqb obs2_eqb
            (observe2 (match kd with
                       | KArray => (Array2D_from_fits (O := QOps)) flip fs' p sc k
                       | KKernel => (Kernel2D_from_fits (O := QOps)) flip fs' p k sc false
                       end)) r
      end
  | KHdu2 flip kd vals mask sc raw r =>
      match mk2 vals mask sc with
      | FRaise _ => false
      | FOk a =>
          let h := (Array2D_hdu_for_output (O := QOps)) flip a in
          hdu_eqb row_eqb h raw && fres_eqb obs2_eqb (observe2h ((Array2D_from_primary_hdu (O := QOps)) flip h)) r
      end
  | KFileM2 flip mask sc fs0 p ow k rs inv w fsa r =>
      let m := @mkmask2 QOps mask sc in
      let '(fs', w') := (Mask2D_output_to_fits (O := QOps)) flip fs0 m p ow in
      oexn_eqb w' w && fs_eqb row_eqb fs' fsa &&
      fres_eqb obsm2_eqb (observem2 ((Mask2D_from_fits (O := QOps)) flip fs' p sc k rs inv)) r
  | KHduM2 flip mask sc raw r =>
      let h := (Mask2D_hdu_for_output (O := QOps)) flip (@mkmask2 QOps mask sc) in
      hdu_eqb row_eqb h raw && fres_eqb obsm2_eqb (observem2 ((Mask2D_from_primary_hdu (O := QOps)) flip h)) r
  | KMulti2 flip objs k r =>
      let hs := map (fun o => let '(v, m, s) := o in
                              match mk2 v m s with FOk a => [(Array2D_hdu_for_output (O := QOps)) flip a] | FRaise _ => [] end) objs in
      let fs := mkfs [] [([0%nat], concat hs)] in
      fres_eqb obs2_eqb (observe2 ((Array2D_from_fits (O := QOps)) flip fs [0%nat] (1, 1) k)) r
  | KMulti1 flip objs k r =>
      let hs := map (fun o => let '(v, m, s) := o in (Array1D_hdu_for_output (O := QOps)) flip (@Array1D_new QOps v m s)) objs in
      let fs := mkfs [] [([0%nat], hs)] in
      fres_eqb obs1_eqb (observe1 ((Array1D_from_fits (O := QOps)) fs [0%nat] 1 k)) r
  | KFile1 flip vals mask sc fs0 p ow k w fsa r =>
      let a := @Array1D_new QOps vals mask sc in
      let '(fs', w') := (Array1D_output_to_fits (O := QOps)) fs0 a p ow in
      oexn_eqb w' w && fs_eqb qeq fs' fsa && fres_eqb obs1_eqb (observe1 ((Array1D_from_fits (O := QOps)) fs' p sc k)) r
  | KHdu1 flip vals mask sc raw r =>
      let h := (Array1D_hdu_for_output (O := QOps)) flip (@Array1D_new QOps vals mask sc) in
      hdu_eqb qeq h raw && fres_eqb obs1_eqb (observe1h ((Array1D_from_primary_hdu (O := QOps)) h)) r
  | KFileM1 flip mask sc fs0 p ow k w fsa r =>
      let '(fs', w') := (Mask1D_output_to_fits (O := QOps)) fs0 (@mkmask1 QOps mask sc) p ow in
      oexn_eqb w' w && fs_eqb qeq fs' fsa && fres_eqb obsm1_eqb (observem1 ((Mask1D_from_fits (O := QOps)) fs' p sc k)) r
  | KHduM1 flip mask sc raw r =>
      let h := (Mask1D_hdu_for_output (O := QOps)) (@mkmask1 QOps mask sc) in
      hdu_eqb qeq h raw && fres_eqb obsm1_eqb (observem1 ((Mask1D_from_primary_hdu (O := QOps)) h)) r
  | KImaging flip mask data noise psf sc fs0 pd pp pn ow chk w fsa r =>
      match mk2 data mask sc, mk2 noise mask sc, mk2 psf (all_false2 psf) sc with
      | FOk d, FOk n, FOk k =>
          let '(fs', w') := (Imaging_output_to_fits (O := QOps)) flip fs0 d n k pd pp pn ow in
          oexn_eqb w' w && fs_eqb row_eqb fs' fsa &&
          fres_eqb (prod_eqb (prod_eqb arr_eqb arr_eqb) arr_eqb)
            (do x <- (Imaging_from_fits (O := QOps)) flip fs' sc pd pp pn chk;
             let '(d', n', k') := x in FOk (Array2D_native d', Array2D_native n', Array2D_native k')) r
      | _, _, _ => false
      end
  end.

(* ------------------------------------------------------------------ verdict of the SPECIFICATION on the
   implementation's outputs (never calls the model functions of the anchored code) *)
Definition zf2 := @zero_fill QOps.
Definition zf1 := @zero_fill_row QOps.
Definition shape2_ok {A} (v : list (list A)) (m : list (list bool)) : bool := same_len2 v m.
Definition in_range {A} (l : list A) (k : Z) : bool := ((- Z.of_nat (length l) <=? k) && (k <? Z.of_nat (length l)))%Z.

(* the file part of a write: refusal leaves everything as it was; success replaces exactly the target by a
   one-HDU file, keeps every other file, creates the ancestors.  [same] compares the new file's content with the
   previous one (a file can only be refused, never silently kept). *)
Definition write_outcome_ok {X} (e : X -> X -> bool) (fs0 : fitsfs Q X) (p : path) (ow : bool)
           (w : option fexn) (fsa : fitsfs Q X) : bool :=
  if is_file fs0 p && negb ow
  then oexn_eqb w (Some FileExists) && fs_eqb e fsa fs0
  else oexn_eqb w None
       && set_eqb path_eqb (dirs fsa) (dirs fs0 ++ prefixes (dirname p))
       && match lookup (files fsa) p with Some [_] => true | _ => false end
       && set_eqb (prod_eqb path_eqb (list_eqb (hdu_eqb e)))
                  (filter (fun x => negb (path_eqb p (fst x))) (files fsa))
                  (filter (fun x => negb (path_eqb p (fst x))) (files fs0)).
Definition written {X} (fs0 : fitsfs Q X) (p : path) (ow : bool) : bool := negb (is_file fs0 p && negb ow).

(* how a reader recovers the pixel scales from the header cards (specification side) *)
Definition decode2 (h : header Q) : option (Q * Q) :=
  match hlookup PIXSCALE h with
  | Some s => Some (s, s)
  | None => match hlookup PIXSCALEY h, hlookup PIXSCALEX h with Some a, Some b => Some (a, b) | _, _ => None end
  end.
Definition decode1 (h : header Q) : option Q := hlookup PIXSCALE h.
Definition obs2_spec (r : fres obs2) (native : list (list Q)) (mask : list (list bool)) (sc : Q * Q)
           (hs hh : option (Q * Q)) : bool :=
  match r with
  | FOk (n, m, s, p, q) =>
      arr_eqb n native && barr_eqb m mask && sc2_eqb s sc
      && option_eqb sc2_eqb (decode2 p) hs && option_eqb sc2_eqb (decode2 q) hh
  | FRaise _ => false
  end.
Definition obs1_spec (r : fres obs1) (native : list Q) (mask : list bool) (sc : Q) (hs hh : option Q) : bool :=
  match r with
  | FOk (n, m, s, p, q) =>
      row_eqb n native && brow_eqb m mask && qeq s sc && option_eqb qeq (decode1 p) hs && option_eqb qeq (decode1 q) hh
  | FRaise _ => false
  end.

Definition spec_ok (c : case) : bool :=
  match c with
  | KUtil2 flip fs0 arr p ow hd k w fsa r hr =>
      negb (target_ok fs0 p) ||
      (write_outcome_ok row_eqb fs0 p ow w fsa &&
       (negb (written fs0 p ow) ||
        if in_range [0] k then fres_eqb arr_eqb r (FOk arr) && fres_eqb hdr_eqb hr (FOk hd)
        else fres_eqb arr_eqb r (FRaise IndexErr)))
  | KUtil1 fs0 arr p ow hd k w fsa r =>
      negb (target_ok fs0 p) ||
      (write_outcome_ok qeq fs0 p ow w fsa &&
       (negb (written fs0 p ow) ||
        if in_range [0] k then fres_eqb row_eqb r (FOk arr) else fres_eqb row_eqb r (FRaise IndexErr)))
  | KFile2 flip kd vals mask sc fs0 p ow k w fsa r =>
      negb (target_ok fs0 p && shape2_ok vals mask) ||
      (write_outcome_ok row_eqb fs0 p ow w fsa &&
       (negb (written fs0 p ow) ||
        if in_range [0] k
        then obs2_spec r (zf2 mask vals) (all_false2 vals) sc (Some sc) (Some sc)   (* the header determines the scales *)
        else fres_eqb obs2_eqb r (FRaise IndexErr)))
  | KHdu2 flip kd vals mask sc raw r =>
      negb (shape2_ok vals mask) ||
      obs2_spec r (zf2 mask vals) (all_false2 vals) sc None None
  | KFileM2 flip mask sc fs0 p ow k rs inv w fsa r =>
      negb (target_ok fs0 p) ||
      (write_outcome_ok row_eqb fs0 p ow w fsa &&
       (negb (written fs0 p ow) ||
        if in_range [0] k
        then match rs with
             | None => fres_eqb obsm2_eqb r (FOk (if inv then map (map negb) mask else mask, sc))
             | Some sh =>       (* resizing is C14's subject: only the same-shape request is decided here *)
                 negb ((fst sh =? Z.of_nat (length mask))%Z && (snd sh =? Z.of_nat (length (hd [] mask)))%Z
                       && forallb (fun row => Nat.eqb (length row) (length (hd [] mask))) mask) ||
                 fres_eqb obsm2_eqb r (FOk (if inv then map (map negb) mask else mask, sc))
             end
        else fres_eqb obsm2_eqb r (FRaise IndexErr)))
  | KHduM2 flip mask sc raw r => fres_eqb obsm2_eqb r (FOk (mask, sc))
  | KMulti2 flip objs k r =>
      negb (forallb (fun o => let '(v, m, s) := o in shape2_ok v m) objs) ||
      match py_nth objs k, objs with
      | Some (v, m, s), (_, _, s0) :: _ =>
          obs2_spec r (zf2 m v) (all_false2 v) (1, 1) (Some s0) (Some s)
      | _, _ => fres_eqb obs2_eqb r (FRaise IndexErr)
      end
  | KMulti1 flip objs k r =>
      negb (forallb (fun o => let '(v, m, s) := o in Nat.eqb (length v) (length m)) objs) ||
      match py_nth objs k, objs with
      | Some (v, m, s), (_, _, s0) :: _ => obs1_spec r (zf1 m v) (all_false1 v) 1 (Some s0) (Some s)
      | _, _ => fres_eqb obs1_eqb r (FRaise IndexErr)
      end
  | KFile1 flip vals mask sc fs0 p ow k w fsa r =>
      negb (target_ok fs0 p && Nat.eqb (length vals) (length mask)) ||
      (write_outcome_ok qeq fs0 p ow w fsa &&
       (negb (written fs0 p ow) ||
        if in_range [0] k
        then obs1_spec r (zf1 mask vals) (all_false1 vals) sc (Some sc) (Some sc)
        else fres_eqb obs1_eqb r (FRaise IndexErr)))
  | KHdu1 flip vals mask sc raw r =>
      negb (Nat.eqb (length vals) (length mask)) ||
      obs1_spec r (zf1 mask vals) (all_false1 vals) sc None None
  | KFileM1 flip mask sc fs0 p ow k w fsa r =>
      negb (target_ok fs0 p) ||
      (write_outcome_ok qeq fs0 p ow w fsa &&
       (negb (written fs0 p ow) ||
        if in_range [0] k then fres_eqb obsm1_eqb r (FOk (mask, sc)) else fres_eqb obsm1_eqb r (FRaise IndexErr)))
  | KHduM1 flip mask sc raw r => fres_eqb obsm1_eqb r (FOk (mask, sc))
  | KImaging flip mask data noise psf sc fs0 pd pp pn ow chk w fsa r =>
      (* decided for three pairwise independent targets, each fresh or overwritten (the hypotheses of C16_imaging_roundtrip) *)
      negb (target_ok fs0 pd && target_ok fs0 pp && target_ok fs0 pn
            && written fs0 pd ow && written fs0 pp ow && written fs0 pn ow
            && indep pd pp && indep pd pn && indep pp pn
            && shape2_ok data mask && shape2_ok noise mask
            && qeq (fold_left Qplus (concat psf) 0) 1
            && (negb chk || forallb (fun v => negb (Qle_bool v 0)) (concat (zf2 mask noise)))) ||
      (oexn_eqb w None &&
       fres_eqb (prod_eqb (prod_eqb arr_eqb arr_eqb) arr_eqb) r (FOk (zf2 mask data, zf2 mask noise, psf)))
  end.

Definition check (k : case) : nat := verdict (agree k) (spec_ok k).
