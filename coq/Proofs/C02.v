(* C02 -- proofs (at ROps) about the generated geometry model Gen/Gen_geometry.v and the hand model of the elliptical masks *)
From Coq Require Import ZArith Reals Lra Lia List Bool Psatz.
From PAV Require Import Base.NumOps Gen.Gen_geometry Model.C02 Model.C02x.
Import ListNotations.
Local Open Scope R_scope.

Lemma placeholder : True. Proof. exact I. Qed.
