(* C16, phase 2 -- HISTORIES of one object: the FITS routes of Model.C16 observed on DERIVED and RE-USED objects.
   EXECUTABLE definitions only.
   A history starts from one freshly constructed object (Array2D / Kernel2D with store_native in {False, True} and
   general.structures.native_binned_only in {false, true}; Array1D with store_native in {False, True}; Mask2D; Mask1D)
   and applies a list of [step]s to it: python arithmetic (obj + c, c - obj, obj * c, -obj, abs(obj), obj - other ...:
   AbstractNDArray.__add__ ... -> with_new_array: a copy holding the RAW result buffer, masked pixels included),
   .native / .slim / .copy(), in-place edits obj[k] = v / obj[y, x] = v, `other = obj` (an alias), a change of
   general.fits.flip_for_ds9, and the OBSERVING steps np.array(obj.native), obj.hdu_for_output -> cls.from_primary_hdu
   and obj.output_to_fits -> cls.from_fits.  Every observing step is evaluated on the object as it is then, any number
   of times, on the file system left by the previous steps.
   (a) MODEL: the stored buffer of an Array2D is either slim or native ([buf]); array_2d_util.convert_array_2d with its
       store_native / skip_mask branches, AbstractArray2D.native / slim / hdu_for_output / output_to_fits on it;
   (b) SPECIFICATION: an interpreter of the same steps on the LOGICAL content (the native grid with zeros at the masked
       pixels), which never looks at a stored buffer;
   (c) the extended correspondence [case] type, [agree], [spec_ok], [check] (the cases of Model.C16 are embedded
       by [KBase]). *)
From Coq Require Import ZArith QArith List Bool Lia.
From PAV Require Import Base.NumOps Base.Check.
From PAV Require Export Model.C16.
Import ListNotations.

Section Hist.
  Context {O : NumOps}.
  Local Notation V := (T O).

  (* ---- python operators between an array and a scalar / another array (AbstractNDArray.__add__ ...) ---- *)
  Inductive pop :=
  | PAdd (c : V) | PRAdd (c : V) | PSub (c : V) | PRSub (c : V) | PMul (c : V) | PRMul (c : V) | PDiv (c : V) | PRDiv (c : V)
  | PNeg | PAbs.
  Definition pop_fn (o : pop) (v : V) : V :=
    match o with
    | PAdd c => add O v c | PRAdd c => add O c v | PSub c => sub O v c | PRSub c => sub O c v
    | PMul c => mul O v c | PRMul c => mul O c v | PDiv c => div O v c | PRDiv c => div O c v
    | PNeg => opp O v | PAbs => absT v
    end.
  Inductive bop := BAdd | BSub | BRSub | BMul.      (* obj + other, obj - other, other - obj, obj * other *)
  Definition bop_fn (b : bop) (x y : V) : V :=
    match b with BAdd => add O x y | BSub => sub O x y | BRSub => sub O y x | BMul => mul O x y end.

  Inductive step :=
  | SOp (o : pop)                    (* obj = obj <op> c *)
  | SBop (b : bop)                   (* obj = obj <op> other *)
  | SSave                            (* other = obj           (the same python object: an alias) *)
  | SSwap                            (* obj, other = other, obj *)
  | SNative | SSlim | SCopy          (* obj = obj.native / obj.slim / obj.copy() *)
  | SSet1 (k : nat) (v : V)          (* obj[k] = v            (in place) *)
  | SSet2 (y x : nat) (v : V)        (* obj[y, x] = v         (in place) *)
  | SFlip (b : bool)                 (* conf general.fits.flip_for_ds9 = b *)
  | SPeek                            (* observe np.array(obj.native) *)
  | SHdu                             (* observe h = obj.hdu_for_output (data, cards) and cls.from_primary_hdu(h) *)
  | SFile (p : path) (ow : bool) (k : Z).   (* obj.output_to_fits(p, overwrite=ow); observe exception, tree, cls.from_fits(p, hdu=k) *)

  (* what one observing step returned (X: element of axis 0 of the data, R: the observation of a read-back object) *)
  Inductive obsv (X R : Type) :=
  | OPeek (n : list X)
  | OHdu (raw : hdu V X) (r : fres R)
  | OFile (w : option fexn) (fs_after : fitsfs V X) (r : fres R)
  | OErr (e : fexn).                 (* a step raised: the history stops there *)
  Arguments OPeek {X R} n. Arguments OHdu {X R} raw r. Arguments OFile {X R} w fs_after r. Arguments OErr {X R} e.

  (* ---- the operations of one class of objects, on the model's object state S ---- *)
  Record hclass (S X R : Type) := mkhclass {
    h_op : pop -> S -> fres S;
    h_bop : bop -> S -> S -> fres S;
    h_native : S -> fres S;
    h_slim : S -> fres S;
    h_set1 : nat -> V -> S -> fres S;
    h_set2 : nat -> nat -> V -> S -> fres S;
    h_peek : S -> fres (list X);
    h_hdu : bool -> S -> fres (hdu V X);
    h_write : bool -> fitsfs V X -> S -> path -> bool -> fres (fitsfs V X * option fexn);
    h_read_hdu : bool -> hdu V X -> fres R;
    h_read_file : bool -> fitsfs V X -> path -> Z -> fres R }.
  Arguments h_op {S X R}. Arguments h_bop {S X R}. Arguments h_native {S X R}. Arguments h_slim {S X R}.
  Arguments h_set1 {S X R}. Arguments h_set2 {S X R}. Arguments h_peek {S X R}. Arguments h_hdu {S X R}.
  Arguments h_write {S X R}. Arguments h_read_hdu {S X R}. Arguments h_read_file {S X R}.

  (* the state of a history: the object, the other name, whether both names denote the same python object,
     the config flag, the file system *)
  Record hstate (S X : Type) := mkhst { st_cur : S; st_reg : S; st_alias : bool; st_flip : bool; st_fs : fitsfs V X }.
  Arguments mkhst {S X}. Arguments st_cur {S X}. Arguments st_reg {S X}. Arguments st_alias {S X}.
  Arguments st_flip {S X}. Arguments st_fs {S X}.

  Section Run.
    Context {S X R : Type} (cl : hclass S X R).
    (* a new object bound to [obj]; the other name keeps the old one *)
    Definition rebind (st : hstate S X) (c : S) : hstate S X := mkhst c (st_reg st) false (st_flip st) (st_fs st).
    (* the object [obj] denotes was modified in place *)
    Definition mutate (st : hstate S X) (c : S) : hstate S X :=
      mkhst c (if st_alias st then c else st_reg st) (st_alias st) (st_flip st) (st_fs st).
    (* one non-observing step *)
    Definition hstep (s : step) (st : hstate S X) : fres (hstate S X) :=
      match s with
      | SOp o => do c <- h_op cl o (st_cur st); FOk (rebind st c)
      | SBop b => do c <- h_bop cl b (st_cur st) (st_reg st); FOk (rebind st c)
      | SSave => FOk (mkhst (st_cur st) (st_cur st) true (st_flip st) (st_fs st))
      | SSwap => FOk (mkhst (st_reg st) (st_cur st) (st_alias st) (st_flip st) (st_fs st))
      | SNative => do c <- h_native cl (st_cur st); FOk (rebind st c)
      | SSlim => do c <- h_slim cl (st_cur st); FOk (rebind st c)
      | SCopy => FOk (rebind st (st_cur st))
      | SSet1 k v => do c <- h_set1 cl k v (st_cur st); FOk (mutate st c)
      | SSet2 y x v => do c <- h_set2 cl y x v (st_cur st); FOk (mutate st c)
      | SFlip b => FOk (mkhst (st_cur st) (st_reg st) (st_alias st) b (st_fs st))
      | SPeek | SHdu | SFile _ _ _ => FOk st
      end.
    Fixpoint hrun (steps : list step) (st : hstate S X) : list (obsv X R) :=
      match steps with
      | [] => []
      | SPeek :: rest =>
          match h_peek cl (st_cur st) with
          | FOk n => OPeek n :: hrun rest st
          | FRaise e => [OErr e]
          end
      | SHdu :: rest =>
          match h_hdu cl (st_flip st) (st_cur st) with
          | FOk h => OHdu h (h_read_hdu cl (st_flip st) h) :: hrun rest st
          | FRaise e => [OErr e]
          end
      | SFile p ow k :: rest =>
          match h_write cl (st_flip st) (st_fs st) (st_cur st) p ow with
          | FOk (fs', w) =>
              OFile w fs' (h_read_file cl (st_flip st) fs' p k)
              :: hrun rest (mkhst (st_cur st) (st_reg st) (st_alias st) (st_flip st) fs')
          | FRaise e => [OErr e]
          end
      | s :: rest =>
          match hstep s st with
          | FOk st' => hrun rest st'
          | FRaise e => [OErr e]
          end
      end.
  End Run.

  (* ================================================================== Array2D / Kernel2D with a stored buffer *)
  Inductive buf := BSlim (s : list V) | BNative (n : list (list V)).
  Record sarr := mksarr { s_buf : buf; s_mask : list (list bool); s_scales : V * V }.
  Definition count_unmasked (m : list (list bool)) : nat := length (filter negb (concat m)).
  Definition maskmul2 (n : list (list V)) (m : list (list bool)) : list (list V) :=
    map2 (map2 (fun v b => mul O v (tofloat (negb b)))) n m.            (* array_2d *= np.invert(mask_2d) *)
  (* array_2d_util.convert_array_2d (check_array_2d_and_mask_2d, then the is_native / store_native / skip_mask branches) *)
  Definition convert_array_2d (b : buf) (mask : list (list bool)) (store_native skip_mask : bool) : fres buf :=
    match b with
    | BNative n =>
        if same_len2 n mask
        then let n' := if skip_mask then n else maskmul2 n mask in
             FOk (if store_native then BNative n' else BSlim (slim_from mask n'))
        else FRaise ArrayErr
    | BSlim s =>
        if Nat.eqb (length s) (count_unmasked mask)
        then FOk (if store_native then BNative (native_from mask s) else BSlim s)
        else FRaise ArrayErr
    end.
  (* AbstractArray2D.__init__: `if conf.instance["general"]["structures"]["native_binned_only"]: store_native = True` *)
  Definition sarr_init (nbo : bool) (b : buf) (mask : list (list bool)) (sc : V * V) (store_native skip_mask : bool) : fres sarr :=
    do b' <- convert_array_2d b mask (store_native || nbo) skip_mask; FOk (mksarr b' mask sc).
  Definition sarr_native (nbo : bool) (a : sarr) : fres sarr := sarr_init nbo (s_buf a) (s_mask a) (s_scales a) true false.
  Definition sarr_slim (nbo : bool) (a : sarr) : fres sarr := sarr_init nbo (s_buf a) (s_mask a) (s_scales a) false false.
  Definition sarr_native_skip_mask (nbo : bool) (a : sarr) : fres sarr := sarr_init nbo (s_buf a) (s_mask a) (s_scales a) true true.
  Definition map_buf (f : V -> V) (b : buf) : buf :=
    match b with BSlim s => BSlim (map f s) | BNative n => BNative (map (map f) n) end.
  Definition same_len1 {A B} (a : list A) (b : list B) : bool := Nat.eqb (length a) (length b).
  (* numpy elementwise operation between two raw buffers of the same shape (other shapes: broadcasting, not modelled) *)
  Definition zip_buf (f : V -> V -> V) (a b : buf) : fres buf :=
    match a, b with
    | BSlim x, BSlim y => if same_len1 x y then FOk (BSlim (map2 f x y)) else FRaise OtherErr
    | BNative x, BNative y => if same_len2 x y then FOk (BNative (map2 (map2 f) x y)) else FRaise OtherErr
    | _, _ => FRaise OtherErr
    end.
  (* np.array(self.native) *)
  Definition sarr_native_values (nbo : bool) (a : sarr) : fres (list (list V)) :=
    do n <- sarr_native nbo a;
    match s_buf n with BNative g => FOk g | BSlim _ => FRaise OtherErr end.
  (* self._array[k] = v on a 1-D buffer, self._array[y, x] = v on a 2-D buffer (non-negative indices) *)
  Definition buf_set1 (k : nat) (v : V) (b : buf) : fres buf :=
    match b with
    | BSlim s => if (k <? length s)%nat then FOk (BSlim (upd_at s k (fun _ => v))) else FRaise IndexErr
    | BNative _ => FRaise OtherErr                                   (* would assign a whole row: not modelled *)
    end.
  Definition buf_set2 (y x : nat) (v : V) (b : buf) : fres buf :=
    match b with
    | BNative n => if (y <? length n)%nat && (x <? length (nth y n []))%nat then FOk (BNative (set2 n y x v)) else FRaise IndexErr
    | BSlim _ => FRaise IndexErr                                     (* too many indices for array *)
    end.
  Definition sarr_with (a : sarr) (b : buf) : sarr := mksarr b (s_mask a) (s_scales a).
  (* AbstractArray2D.hdu_for_output / output_to_fits: np.array(self.native), self.pixel_scale_header *)
  Definition sarr_hdu_for_output (nbo flip : bool) (a : sarr) : fres (hdu V (list V)) :=
    do n <- sarr_native_values nbo a; FOk (hdu_for_output_from_2d flip n (pixel_scale_header (scales2 (s_scales a)))).
  Definition sarr_output_to_fits (nbo flip : bool) (fs : fitsfs V (list V)) (a : sarr) (p : path) (overwrite : bool) :=
    do n <- sarr_native_values nbo a; FOk (numpy_array_2d_to_fits flip fs n p overwrite (pixel_scale_header (scales2 (s_scales a)))).

  Definition obs2T := (list (list V) * list (list bool) * (V * V) * header V * header V)%type.
  Definition observe2_g (r : fres (array2d * header V * header V)) : fres obs2T :=
    do x <- r; let '(a, hs, hh) := x in FOk (Array2D_native a, a_mask a, a_scales a, hs, hh).
  Definition observe2h_g (r : fres array2d) : fres obs2T :=
    do a <- r; FOk (Array2D_native a, a_mask a, a_scales a, [], []).

  Definition class_arr2 (nbo is_kernel : bool) (sc_read : V * V) : hclass sarr (list V) obs2T :=
    mkhclass _ _ _
      (fun o a => FOk (sarr_with a (map_buf (pop_fn o) (s_buf a))))
      (fun b a r => do c <- zip_buf (bop_fn b) (s_buf a) (s_buf r); FOk (sarr_with a c))
      (sarr_native nbo) (sarr_slim nbo)
      (fun k v a => do c <- buf_set1 k v (s_buf a); FOk (sarr_with a c))
      (fun y x v a => do c <- buf_set2 y x v (s_buf a); FOk (sarr_with a c))
      (sarr_native_values nbo)
      (sarr_hdu_for_output nbo)
      (sarr_output_to_fits nbo)
      (fun flip h => observe2h_g (Array2D_from_primary_hdu flip h))
      (fun flip fs p k => observe2_g (if is_kernel then Kernel2D_from_fits flip fs p k sc_read false
                                       else Array2D_from_fits flip fs p sc_read k)).

  (* ================================================================== Array1D (the stored buffer is slim or native by its length) *)
  Definition obs1T := (list V * list bool * V * header V * header V)%type.
  Definition observe1_g (r : fres (array1d * header V * header V)) : fres obs1T :=
    do x <- r; let '(a, hs, hh) := x in FOk (Array1D_native a, b_mask a, b_scale a, hs, hh).
  Definition observe1h_g (r : fres array1d) : fres obs1T :=
    do a <- r; FOk (Array1D_native a, b_mask a, b_scale a, [], []).
  Definition arr1_with (a : array1d) (v : list V) : array1d := mkarr1 v (b_mask a) (b_scale a).
  (* obj[k] = v; in a history [SSet1 k v] stands for this assignment on a slim-stored array (k counts unmasked pixels),
     [SSet2 0 k v] for the same assignment on a natively stored one (k is a pixel index); an assignment whose form does
     not fit the stored buffer is not modelled *)
  Definition arr1_set (slim_form : bool) (k : nat) (v : V) (a : array1d) : fres array1d :=
    if Nat.eqb (length (b_vals a)) (if slim_form then length (filter negb (b_mask a)) else length (b_mask a))
    then if (k <? length (b_vals a))%nat then FOk (arr1_with a (upd_at (b_vals a) k (fun _ => v))) else FRaise IndexErr
    else FRaise OtherErr.
  Definition class_arr1 (sc_read : V) : hclass array1d V obs1T :=
    mkhclass _ _ _
      (fun o a => FOk (arr1_with a (map (pop_fn o) (b_vals a))))
      (fun b a r => if same_len1 (b_vals a) (b_vals r) then FOk (arr1_with a (map2 (bop_fn b) (b_vals a) (b_vals r))) else FRaise OtherErr)
      (fun a => FOk (arr1_with a (convert_array_1d (b_vals a) (b_mask a) true)))
      (fun a => FOk (arr1_with a (convert_array_1d (b_vals a) (b_mask a) false)))
      (fun k v a => arr1_set true k v a)
      (fun y x v a => match y with Datatypes.O => arr1_set false x v a | _ => FRaise OtherErr end)
      (fun a => FOk (Array1D_native a))
      (fun flip a => FOk (Array1D_hdu_for_output flip a))
      (fun flip fs a p ow => FOk (Array1D_output_to_fits fs a p ow))
      (fun flip h => observe1h_g (Array1D_from_primary_hdu h))
      (fun flip fs p k => observe1_g (Array1D_from_fits fs p sc_read k)).

  (* ================================================================== Mask2D / Mask1D (np.array(mask).astype(float) is what is peeked) *)
  Definition obsm2T := (list (list bool) * (V * V))%type.
  Definition obsm1T := (list bool * V)%type.
  Definition unsup1 {A} (_ : A) : fres A := FRaise OtherErr.
  Definition class_mask2 (sc_read : V * V) : hclass mask2d (list V) obsm2T :=
    mkhclass _ _ _
      (fun _ _ => FRaise OtherErr) (fun _ _ _ => FRaise OtherErr) unsup1 unsup1
      (fun _ _ _ => FRaise OtherErr)
      (fun y x v m => if (y <? length (m_mask m))%nat && (x <? length (nth y (m_mask m) []))%nat
                      then FOk (mkmask2 (set2 (m_mask m) y x (tobool v)) (m_scales m)) else FRaise IndexErr)
      (fun m => FOk (map (map tofloat) (m_mask m)))
      (fun flip m => FOk (Mask2D_hdu_for_output flip m))
      (fun flip fs m p ow => FOk (Mask2D_output_to_fits flip fs m p ow))
      (fun flip h => do m <- Mask2D_from_primary_hdu flip h; FOk (m_mask m, m_scales m))
      (fun flip fs p k => do m <- Mask2D_from_fits flip fs p sc_read k None false; FOk (m_mask m, m_scales m)).
  Definition class_mask1 (sc_read : V) : hclass mask1d V obsm1T :=
    mkhclass _ _ _
      (fun _ _ => FRaise OtherErr) (fun _ _ _ => FRaise OtherErr) unsup1 unsup1
      (fun k v m => if (k <? length (n_mask m))%nat then FOk (mkmask1 (upd_at (n_mask m) k (fun _ => tobool v)) (n_scale m)) else FRaise IndexErr)
      (fun _ _ _ _ => FRaise IndexErr)
      (fun m => FOk (map tofloat (n_mask m)))
      (fun flip m => FOk (Mask1D_hdu_for_output m))
      (fun flip fs m p ow => FOk (Mask1D_output_to_fits fs m p ow))
      (fun flip h => do m <- Mask1D_from_primary_hdu h; FOk (n_mask m, n_scale m))
      (fun flip fs p k => do m <- Mask1D_from_fits fs p sc_read k; FOk (n_mask m, n_scale m)).

  (* ================================================================== specification: the same steps on the LOGICAL content *)
  (* the k-th unmasked pixel in row-major order *)
  Fixpoint set_unmasked_row {A} (m : list bool) (r : list A) (k : nat) (v : A) : list A :=
    match m, r with
    | b :: m', x :: r' =>
        if b then x :: set_unmasked_row m' r' k v
        else match k with Datatypes.O => v :: r' | Datatypes.S j => x :: set_unmasked_row m' r' j v end
    | _, _ => r
    end.
  Definition unmasked_in (m : list bool) : nat := length (filter negb m).
  Fixpoint set_unmasked {A} (m : list (list bool)) (g : list (list A)) (k : nat) (v : A) : list (list A) :=
    match m, g with
    | mr :: m', r :: g' =>
        if (k <? unmasked_in mr)%nat then set_unmasked_row mr r k v :: g'
        else r :: set_unmasked m' g' (k - unmasked_in mr) v
    | _, _ => g
    end.
  Definition masked_at (m : list (list bool)) (y x : nat) : bool := nth x (nth y m []) true.
  (* the steps on the logical content of a 2-D array: the native grid g with zeros at the masked pixels *)
  Definition lop2 (mask : list (list bool)) (o : pop) (g : list (list V)) : list (list V) :=
    zero_fill mask (map (map (pop_fn o)) g).
  Definition lbop2 (mask : list (list bool)) (b : bop) (g r : list (list V)) : list (list V) :=
    zero_fill mask (map2 (map2 (bop_fn b)) g r).
  Definition lset1_2 (mask : list (list bool)) (k : nat) (v : V) (g : list (list V)) : list (list V) := set_unmasked mask g k v.
  Definition lset2_2 (mask : list (list bool)) (y x : nat) (v : V) (g : list (list V)) : list (list V) :=
    if masked_at mask y x then g else set2 g y x v.
  (* the class of objects whose state IS the logical content: what a history of a 2-D array must look like from outside.
     No stored buffer, no store_native, no native_binned_only; the FITS routes are those of Model.C16 on the grid itself. *)
  Definition class_log2 (mask : list (list bool)) (sc : V * V) (is_kernel : bool) (sc_read : V * V) : hclass (list (list V)) (list V) obs2T :=
    mkhclass _ _ _
      (fun o g => FOk (lop2 mask o g))
      (fun b g r => FOk (lbop2 mask b g r))
      (fun g => FOk g) (fun g => FOk g)
      (fun k v g => FOk (lset1_2 mask k v g))
      (fun y x v g => FOk (lset2_2 mask y x v g))
      (fun g => FOk g)
      (fun flip g => FOk (hdu_for_output_from_2d flip g (pixel_scale_header (scales2 sc))))
      (fun flip fs g p ow => FOk (numpy_array_2d_to_fits flip fs g p ow (pixel_scale_header (scales2 sc))))
      (fun flip h => observe2h_g (Array2D_from_primary_hdu flip h))
      (fun flip fs p k => observe2_g (if is_kernel then Kernel2D_from_fits flip fs p k sc_read false
                                       else Array2D_from_fits flip fs p sc_read k)).
  (* 1-D arrays *)
  Definition lop1 (mask : list bool) (o : pop) (g : list V) : list V := zero_fill_row mask (map (pop_fn o) g).
  Definition lbop1 (mask : list bool) (b : bop) (g r : list V) : list V := zero_fill_row mask (map2 (bop_fn b) g r).
  Definition lset1_1 (mask : list bool) (k : nat) (v : V) (g : list V) : list V := set_unmasked_row mask g k v.
  Definition lset2_1 (mask : list bool) (x : nat) (v : V) (g : list V) : list V := if nth x mask true then g else upd_at g x (fun _ => v).
  (* the class whose state is the logical content of a 1-D array *)
  Definition class_log1 (mask : list bool) (sc sc_read : V) : hclass (list V) V obs1T :=
    mkhclass _ _ _
      (fun o g => FOk (lop1 mask o g))
      (fun b g r => FOk (lbop1 mask b g r))
      (fun g => FOk g) (fun g => FOk g)
      (fun k v g => FOk (lset1_1 mask k v g))
      (fun y x v g => FOk (lset2_1 mask x v g))
      (fun g => FOk g)
      (fun flip g => FOk (hdu_for_output_from_1d g (pixel_scale_header [sc])))
      (fun flip fs g p ow => FOk (numpy_array_1d_to_fits fs g p ow (pixel_scale_header [sc])))
      (fun flip h => observe1h_g (Array1D_from_primary_hdu h))
      (fun flip fs p k => observe1_g (Array1D_from_fits fs p sc_read k)).
  (* no observation produced by a history is an exception of a step *)
  Definition no_err {X R} (l : list (obsv X R)) : bool := forallb (fun o => match o with OErr _ => false | _ => true end) l.
End Hist.
Arguments OPeek {O X R} n. Arguments OHdu {O X R} raw r. Arguments OFile {O X R} w fs_after r. Arguments OErr {O X R} e.
Arguments mkhst {O S X}. Arguments st_cur {O S X}. Arguments st_reg {O S X}. Arguments st_alias {O S X}.
Arguments st_flip {O S X}. Arguments st_fs {O S X}.

(* ================================================================== correspondence (executed at Q) *)
Definition stepQ := @step QOps.
Definition obsvQ := @obsv QOps.
Definition obsv_eqb {X R} (ex : X -> X -> bool) (er : R -> R -> bool) (a b : obsvQ X R) : bool :=
  match a, b with
  | OPeek n, OPeek n' => list_eqb ex n n'
  | OHdu h r, OHdu h' r' => hdu_eqb ex h h' && fres_eqb er r r'
  | OFile w f r, OFile w' f' r' => oexn_eqb w w' && fs_eqb ex f f' && fres_eqb er r r'
  | OErr e, OErr e' => fexn_eqb e e'
  | _, _ => false
  end.

Inductive case :=
| KBase (c : C16.case)
(* Array2D / Kernel2D(values=vals, mask, store_native=sn) under native_binned_only = nbo, then the steps *)
| KHist2 (nbo flip : bool) (kd : kind2) (sn : bool) (vals : list (list Q)) (mask : list (list bool)) (sc : Q * Q)
         (fs0 : fs2) (steps : list stepQ) (obs : list (obsvQ (list Q) obs2))
(* Array1D(values=vals, mask, store_native=sn), then the steps *)
| KHist1 (flip : bool) (sn : bool) (vals : list Q) (mask : list bool) (sc : Q) (fs0 : fs1) (steps : list stepQ)
         (obs : list (obsvQ Q obs1))
| KHistM2 (flip : bool) (mask : list (list bool)) (sc : Q * Q) (fs0 : fs2) (steps : list stepQ) (obs : list (obsvQ (list Q) obsm2))
| KHistM1 (flip : bool) (mask : list bool) (sc : Q) (fs0 : fs1) (steps : list stepQ) (obs : list (obsvQ Q obsm1))
(* phase 3 -- the READERS alone, on any file system (files written earlier by other objects / other classes, foreign
   files with several HDUs), with a pixel_scales argument that is independent of what the header says:
   cls.from_fits(file_path = p, pixel_scales = sc, hdu = k [, invert = inv]) *)
| KRead2 (flip : bool) (kd : kind2) (fs : fs2) (p : path) (sc : Q * Q) (k : Z) (r : fres obs2)
| KReadM2 (flip : bool) (fs : fs2) (p : path) (sc : Q * Q) (k : Z) (inv : bool) (r : fres obsm2)
| KRead1 (fs : fs1) (p : path) (sc : Q) (k : Z) (r : fres obs1)
| KReadM1 (fs : fs1) (p : path) (sc : Q) (k : Z) (r : fres obsm1).

Definition read2 (flip : bool) (kd : kind2) (fs : fs2) (p : path) (sc : Q * Q) (k : Z) : fres obs2 :=
  observe2 (match kd with
            | KArray => (Array2D_from_fits (O := QOps)) flip fs p sc k
            | KKernel => (Kernel2D_from_fits (O := QOps)) flip fs p k sc false
            end).
Definition readm2 (flip : bool) (fs : fs2) (p : path) (sc : Q * Q) (k : Z) (inv : bool) : fres obsm2 :=
  observem2 ((Mask2D_from_fits (O := QOps)) flip fs p sc k None inv).
Definition read1 (fs : fs1) (p : path) (sc : Q) (k : Z) : fres obs1 := observe1 ((Array1D_from_fits (O := QOps)) fs p sc k).
Definition readm1 (fs : fs1) (p : path) (sc : Q) (k : Z) : fres obsm1 := observem1 ((Mask1D_from_fits (O := QOps)) fs p sc k).

Definition init_state {S X} (s : S) (flip : bool) (fs : fitsfs Q X) : @hstate QOps S X := @mkhst QOps S X s s true flip fs.
Definition is_kernel (kd : kind2) : bool := match kd with KKernel => true | KArray => false end.

Definition agree (c : case) : bool :=
  match c with
  | KBase c => C16.agree c
  | KHist2 nbo flip kd sn vals mask sc fs0 steps obs =>
      match (sarr_init (O := QOps)) nbo (@BNative QOps vals) mask sc sn false with
      | FRaise _ => false
      | FOk a => list_eqb (obsv_eqb row_eqb obs2_eqb) (hrun (class_arr2 (O := QOps) nbo (is_kernel kd) sc) steps (init_state a flip fs0)) obs
      end
  | KHist1 flip sn vals mask sc fs0 steps obs =>
      let a := @mkarr1 QOps (@convert_array_1d QOps vals mask sn) mask sc in
      list_eqb (obsv_eqb qeq obs1_eqb) (hrun (class_arr1 (O := QOps) sc) steps (init_state a flip fs0)) obs
  | KHistM2 flip mask sc fs0 steps obs =>
      list_eqb (obsv_eqb row_eqb obsm2_eqb) (hrun (class_mask2 (O := QOps) sc) steps (init_state (@mkmask2 QOps mask sc) flip fs0)) obs
  | KHistM1 flip mask sc fs0 steps obs =>
      list_eqb (obsv_eqb qeq obsm1_eqb) (hrun (class_mask1 (O := QOps) sc) steps (init_state (@mkmask1 QOps mask sc) flip fs0)) obs
  | KRead2 flip kd fs p sc k r => fres_eqb obs2_eqb (read2 flip kd fs p sc k) r
  | KReadM2 flip fs p sc k inv r => fres_eqb obsm2_eqb (readm2 flip fs p sc k inv) r
  | KRead1 fs p sc k r => fres_eqb obs1_eqb (read1 fs p sc k) r
  | KReadM1 fs p sc k r => fres_eqb obsm1_eqb (readm1 fs p sc k) r
  end.

(* ------------------------------------------------------------------ verdict of the SPECIFICATION on the observations.
   The logical content of an object is a value of type L (for arrays: the native grid with zeros at the masked pixels);
   [l_*] interpret the steps on it ([None]: the step is outside the specified fragment, nothing more is decided);
   the stored buffers, store_native, native_binned_only and the model functions of the anchored code do not occur. *)
Section Spec.
  Context {L X R : Type}.
  Record lclass := mklclass {
    l_op : @pop QOps -> L -> option L;
    l_bop : bop -> L -> L -> option L;
    l_set1 : nat -> Q -> L -> option L;
    l_set2 : nat -> nat -> Q -> L -> option L;
    l_data : L -> list X;                       (* what np.array(obj.native) must show *)
    l_read_hdu_ok : L -> fres R -> bool;        (* what cls.from_primary_hdu(obj.hdu_for_output) must return *)
    l_read_file_ok : L -> fres R -> bool;       (* what cls.from_fits(p, hdu in {0,-1}) must return after a successful write *)
    l_is_index_error : fres R -> bool }.
  Context (lc : lclass) (ex : X -> X -> bool).
  (* cur, reg, alias *)
  Fixpoint hspec (steps : list stepQ) (cur reg : L) (al : bool) (fs_prev : fitsfs Q X) (obs : list (obsvQ X R)) : bool :=
    let rebind o rest := match o with Some c => hspec rest c reg false fs_prev obs | None => true end in
    let mutate o rest := match o with Some c => hspec rest c (if al then c else reg) al fs_prev obs | None => true end in
    match steps with
    | [] => is_nil obs
    | SOp o :: rest => rebind (l_op lc o cur) rest
    | SBop b :: rest => rebind (l_bop lc b cur reg) rest
    | SSave :: rest => hspec rest cur cur true fs_prev obs
    | SSwap :: rest => hspec rest reg cur al fs_prev obs
    | SNative :: rest | SSlim :: rest | SCopy :: rest => hspec rest cur reg false fs_prev obs
    | SSet1 k v :: rest => mutate (l_set1 lc k v cur) rest
    | SSet2 y x v :: rest => mutate (l_set2 lc y x v cur) rest
    | SFlip _ :: rest => hspec rest cur reg al fs_prev obs
    | SPeek :: rest =>
        match obs with
        | OPeek n :: obs' => list_eqb ex n (l_data lc cur) && hspec rest cur reg al fs_prev obs'
        | _ => false
        end
    | SHdu :: rest =>
        match obs with
        | OHdu raw r :: obs' => l_read_hdu_ok lc cur r && hspec rest cur reg al fs_prev obs'
        | _ => false
        end
    | SFile p ow k :: rest =>
        match obs with
        | OFile w fsa r :: obs' =>
            negb (target_ok fs_prev p) ||            (* outside the file-system model: nothing more is decided *)
            (write_outcome_ok ex fs_prev p ow w fsa
             && (negb (written fs_prev p ow) || if in_range [0] k then l_read_file_ok lc cur r else l_is_index_error lc r)
             && hspec rest cur reg al fsa obs')
        | _ => false
        end
    end.
End Spec.
Arguments lclass L X R : clear implicits.

Definition is_index_error {A} (r : fres A) : bool := match r with FRaise IndexErr => true | _ => false end.
Definition rect_like {A B} (g : list (list A)) (m : list (list B)) : bool := same_len2 g m.
(* 2-D arrays: L = native grid, zero at the masked pixels *)
Definition lclass_arr2 (mask : list (list bool)) (sc : Q * Q) : lclass (list (list Q)) (list Q) obs2 :=
  mklclass
    (fun o g => Some (@lop2 QOps mask o g))
    (fun b g r => Some (@lbop2 QOps mask b g r))
    (fun k v g => if (k <? length (filter negb (concat mask)))%nat then Some (@lset1_2 QOps mask k v g) else None)
    (fun y x v g => if (y <? length mask)%nat && (x <? length (nth y mask []))%nat then Some (@lset2_2 QOps mask y x v g) else None)
    (fun g => g)
    (fun g r => obs2_spec r g (all_false2 g) sc None None)
    (fun g r => obs2_spec r g (all_false2 g) sc (Some sc) (Some sc))
    is_index_error.
(* 1-D arrays *)
Definition lclass_arr1 (mask : list bool) (sc : Q) : lclass (list Q) Q obs1 :=
  mklclass
    (fun o g => Some (@lop1 QOps mask o g))
    (fun b g r => Some (@lbop1 QOps mask b g r))
    (fun k v g => if (k <? length (filter negb mask))%nat then Some (@lset1_1 QOps mask k v g) else None)
    (fun y x v g => match y with
                    | Datatypes.O => if (x <? length mask)%nat then Some (@lset2_1 QOps mask x v g) else None
                    | _ => None
                    end)
    (fun g => g)
    (fun g r => obs1_spec r g (all_false1 g) sc None None)
    (fun g r => obs1_spec r g (all_false1 g) sc (Some sc) (Some sc))
    is_index_error.
Definition bfloat (b : bool) : Q := if b then 1 else 0.
Definition lclass_mask2 (sc : Q * Q) : lclass (list (list bool)) (list Q) obsm2 :=
  mklclass
    (fun _ _ => None) (fun _ _ _ => None) (fun _ _ _ => None)
    (fun y x v g => if (y <? length g)%nat && (x <? length (nth y g []))%nat then Some (set2 g y x (negb (qeq v 0))) else None)
    (fun g => map (map bfloat) g)
    (fun g r => fres_eqb obsm2_eqb r (FOk (g, sc)))
    (fun g r => fres_eqb obsm2_eqb r (FOk (g, sc)))
    is_index_error.
Definition lclass_mask1 (sc : Q) : lclass (list bool) Q obsm1 :=
  mklclass
    (fun _ _ => None) (fun _ _ _ => None)
    (fun k v g => if (k <? length g)%nat then Some (upd_at g k (fun _ => negb (qeq v 0))) else None)
    (fun _ _ _ _ => None)
    (fun g => map bfloat g)
    (fun g r => fres_eqb obsm1_eqb r (FOk (g, sc)))
    (fun g r => fres_eqb obsm1_eqb r (FOk (g, sc)))
    is_index_error.

(* what a reader must return, as a function of the file alone: FileNotFoundError without a file, IndexError outside the
   HDU list (python indexing), else [ok first_hdu selected_hdu result] *)
Definition is_not_found {A} (r : fres A) : bool := match r with FRaise FileNotFound => true | _ => false end.
Definition read_spec {X R} (fs : fitsfs Q X) (p : path) (k : Z) (ok : hdu Q X -> hdu Q X -> fres R -> bool) (r : fres R) : bool :=
  match lookup (files fs) p with
  | None => is_not_found r
  | Some hl => match py_nth hl k, hl with
               | Some h, h0 :: _ => ok h0 h r
               | _, _ => is_index_error r
               end
  end.
Definition unflip {X} (flip : bool) (d : list X) : list X := if flip then rev d else d.
Definition qbool (v : Q) : bool := negb (qeq v 0).

Definition spec_ok (c : case) : bool :=
  match c with
  | KBase c => C16.spec_ok c
  | KRead2 flip kd fs p sc k r =>
      read_spec fs p k (fun h0 h r => let d := unflip flip (hdata h) in
                                      obs2_spec r d (all_false2 d) sc (decode2 (hhdr h0)) (decode2 (hhdr h))) r
  | KReadM2 flip fs p sc k inv r =>
      read_spec fs p k (fun _ h r => fres_eqb obsm2_eqb r (FOk (map (map (fun v => xorb inv (qbool v))) (unflip flip (hdata h)), sc))) r
  | KRead1 fs p sc k r =>
      read_spec fs p k (fun h0 h r => obs1_spec r (hdata h) (all_false1 (hdata h)) sc (decode1 (hhdr h0)) (decode1 (hhdr h))) r
  | KReadM1 fs p sc k r =>
      read_spec fs p k (fun _ h r => fres_eqb obsm1_eqb r (FOk (map qbool (hdata h), sc))) r
  | KHist2 nbo flip kd sn vals mask sc fs0 steps obs =>
      negb (shape2_ok vals mask) ||
      let g := zf2 mask vals in hspec (lclass_arr2 mask sc) row_eqb steps g g true fs0 obs
  | KHist1 flip sn vals mask sc fs0 steps obs =>
      negb (Nat.eqb (length vals) (length mask)) ||
      let g := zf1 mask vals in hspec (lclass_arr1 mask sc) qeq steps g g true fs0 obs
  | KHistM2 flip mask sc fs0 steps obs => hspec (lclass_mask2 sc) row_eqb steps mask mask true fs0 obs
  | KHistM1 flip mask sc fs0 steps obs => hspec (lclass_mask1 sc) qeq steps mask mask true fs0 obs
  end.

Definition check (k : case) : nat := verdict (agree k) (spec_ok k).
