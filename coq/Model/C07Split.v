(* C07 -- MapperDelaunay.pix_sub_weights_split_cross, in terms of the routines property C06 models:
     splitted_mappings, splitted_sizes = pix_indexes_for_sub_slim_index_delaunay_from(split_cross, find_simplex(split_cross), simplices, points)
     splitted_weights = pixel_weights_delaunay_from(split_cross, mesh, splitted_mappings)
     PixSubWeights(mappings = hstack(splitted_mappings, -1), sizes = splitted_sizes, weights = hstack(splitted_weights, 0.0))
   ([C06.del_mappings], [C06.del_weights]; the cross points are an input: 4 per mesh vertex).  Executable definitions only. *)
From Coq Require Import ZArith List Bool.
From PAV Require Import Base.NumOps.
From PAV Require Model.C06.
Import ListNotations.

Section SplitTable.
  Context {O : NumOps}.
  Definition split_table (cross_pts : list (T O * T O)) (simplex_for : list Z) (simplices : list (list Z)) (points : list (T O * T O))
    : list (list Z * nat * list (T O)) :=
    let mpsz := @C06.del_mappings O cross_pts simplex_for simplices points in
    let wt := @C06.del_weights O cross_pts points (fst mpsz) in
    map (fun a : list Z * nat * list (T O) => (fst (fst a) ++ [(-1)%Z], snd (fst a), snd a ++ [@zero O]))
        (combine (combine (fst mpsz) (snd mpsz)) wt).
End SplitTable.
