(* C09h -- HISTORIES: several operations through ONE object, and sequences of operations in one process.

   The classes of autoarray/operators/over_sampling keep state between calls:
     * OverSamplerUniform: `over_sampled_grid`, `slim_for_sub_slim`, `sub_mask_native_for_sub_mask_slim` are
       cached_property (computed at the first read, then remembered); `sub_pixel_areas`, `sub_total`,
       `binned_array_2d_from` read the CURRENT contents of `self.sub_size` (an Array2D the user may edit in place:
       `sub_size[i] = s`) and of the mask at every call; `array_via_func_from` reads the cached grid, then bins.
     * Grid2D: `over_sampler` is a cached_property (`self.over_sampling.over_sampler_from(mask=self.mask)`): every
       @over_sample-decorated call through one grid object goes through the SAME over sampler object.
     * OverSamplerIterate keeps no state between calls (a fresh OverSamplerUniform per level and per call): a history
       through one OverSamplerIterate is the list of the single calls ([HSeq] below).
   (a) MODEL: explicit state machines [sstep] (one OverSamplerUniform) and [gcall] (one Grid2D and the decorator), the
       caches as [option] fields; (b) the pure reference of a history ([spure_run], [decorated]); the theorems of
       Proofs/C09h.v say that every result of every history equals the pure function of the CURRENT contents on that
       step's input alone (edits of the sub-size map happen before the first cached read: [edits_before_caches]);
   (c) correspondence: [hcase], [hagree], [hspec_ok], [hcheck].               No proofs in this file. *)
From Coq Require Import ZArith QArith Qabs List Bool Arith.
From PAV Require Import Base.NumOps Base.Res Base.Check Base.Sum.
From PAV Require Export Model.C09.
Import ListNotations.

Fixpoint set_nth {A} (i : nat) (v : A) (l : list A) : list A :=        (* l[i] = v (no effect out of range) *)
  match l, i with
  | [], _ => []
  | _ :: t, 0%nat => v :: t
  | x :: t, S j => x :: set_nth j v t
  end.

Section Hist.
  Context {O : NumOps}.
  Local Notation Num := (T O).

  (* ---------------------------------------------------------------- ONE OverSamplerUniform object *)
  Record sampler := mkS {
    s_mask : mask; s_ps : Num * Num; s_og : Num * Num;
    s_ss : list nat;                                   (* current contents of self.sub_size *)
    c_grid : option (list (Num * Num));                (* cached_property over_sampled_grid *)
    c_slim : option (list nat);                        (* cached_property slim_for_sub_slim *)
    c_native : option (list (nat * nat)) }.            (* cached_property sub_mask_native_for_sub_mask_slim *)
  Definition sampler_new (m : mask) (ps og : Num * Num) (ss : list nat) : sampler := mkS m ps og ss None None None.

  Inductive sop :=
  | SGrid | SSlim | SNative | SAreas
  | SBin (arr : list Num)                              (* binned_array_2d_from(array) *)
  | SVia (f : Num * Num -> Num)                        (* array_via_func_from(func) *)
  | SHeld (held : list (Num * Num)) (f : Num * Num -> Num)   (* decorated f on Grid2DOverSampled(grid=held, over_sampler=self) *)
  | SEdit (i s : nat).                                 (* the user: sub_size[i] = s *)
  Inductive sout :=
  | RGrid (g : list (Num * Num)) | RNats (l : list nat) | RPairs (l : list (nat * nat)) | RNums (l : list Num) | RNone.

  Definition read_grid (st : sampler) : sampler * list (Num * Num) :=
    match c_grid st with
    | Some g => (st, g)
    | None => let g := over_sampled_grid (s_mask st) (s_ps st) (s_og st) (s_ss st) in
              (mkS (s_mask st) (s_ps st) (s_og st) (s_ss st) (Some g) (c_slim st) (c_native st), g)
    end.
  (* array_via_func_from: `over_sampled_grid = self.over_sampled_grid; values = func(...); self.binned_array_2d_from(values)` *)
  Definition svia (st : sampler) (f : Num * Num -> Num) : sampler * list Num :=
    let '(st', g) := read_grid st in (st', binned (map f g) (s_mask st') (s_ss st')).

  Definition sstep (st : sampler) (op : sop) : sampler * sout :=
    match op with
    | SGrid => let '(st', g) := read_grid st in (st', RGrid g)
    | SSlim =>
        match c_slim st with
        | Some l => (st, RNats l)
        | None => let l := slim_for_sub_slim (s_mask st) (s_ss st) in
                  (mkS (s_mask st) (s_ps st) (s_og st) (s_ss st) (c_grid st) (Some l) (c_native st), RNats l)
        end
    | SNative =>
        match c_native st with
        | Some l => (st, RPairs l)
        | None => let l := native_for_sub_slim (s_mask st) (s_ss st) in
                  (mkS (s_mask st) (s_ps st) (s_og st) (s_ss st) (c_grid st) (c_slim st) (Some l), RPairs l)
        end
    | SAreas => (st, RNums (sub_pixel_areas (s_ps st) (s_ss st)))
    | SBin arr => (st, RNums (binned arr (s_mask st) (s_ss st)))
    | SVia f => let '(st', r) := svia st f in (st', RNums r)
    | SHeld held f => (st, RNums (decorated_oversampled f (s_mask st) (s_ss st) held))      (* never reads the cached grid *)
    | SEdit i s => (mkS (s_mask st) (s_ps st) (s_og st) (set_nth i s (s_ss st)) (c_grid st) (c_slim st) (c_native st), RNone)
    end.
  Fixpoint srun (st : sampler) (ops : list sop) : list sout :=
    match ops with
    | [] => []
    | op :: t => let '(st', r) := sstep st op in r :: srun st' t
    end.

  (* the pure reference: each operation alone, on the contents current at that step *)
  Definition spure (m : mask) (ps og : Num * Num) (ss : list nat) (op : sop) : sout :=
    match op with
    | SGrid => RGrid (over_sampled_grid m ps og ss)
    | SSlim => RNats (slim_for_sub_slim m ss)
    | SNative => RPairs (native_for_sub_slim m ss)
    | SAreas => RNums (sub_pixel_areas ps ss)
    | SBin arr => RNums (binned arr m ss)
    | SVia f => RNums (array_via_func f m ps og ss)
    | SHeld held f => RNums (decorated_oversampled f m ss held)
    | SEdit _ _ => RNone
    end.
  Definition ss_after (ss : list nat) (op : sop) : list nat :=
    match op with SEdit i s => set_nth i s ss | _ => ss end.
  Fixpoint spure_run (m : mask) (ps og : Num * Num) (ss : list nat) (ops : list sop) : list sout :=
    match ops with
    | [] => []
    | op :: t => spure m ps og ss op :: spure_run m ps og (ss_after ss op) t
    end.
  (* hypothesis on a history: the sub-size map is edited only while no cached property has been read
     (afterwards the cached grid / index tables are, by design, the ones of the contents at their first read) *)
  Definition fills_cache (op : sop) : bool :=
    match op with SGrid | SSlim | SNative | SVia _ => true | _ => false end.
  Fixpoint edits_before_caches (cached : bool) (ops : list sop) : bool :=
    match ops with
    | [] => true
    | SEdit _ _ :: t => negb cached && edits_before_caches cached t
    | op :: t => edits_before_caches (cached || fills_cache op) t
    end.

  (* ---------------------------------------------------------------- ONE Grid2D object and the decorator *)
  Inductive osampler :=
  | OSU (s : sampler)                                      (* OverSamplerUniform *)
  | OSI (thr rel : option Num) (steps : list nat).         (* OverSamplerIterate: no state *)
  Record gridobj := mkG {
    g_mask : mask; g_ps : Num * Num; g_og : Num * Num; g_vals : list (Num * Num);
    g_os : @over_sampling O;
    g_smp : option osampler }.                             (* cached_property over_sampler *)
  Definition grid_new m ps og vals os : gridobj := mkG m ps og vals os None.

  (* OverSamplingUniform.over_sampler_from / OverSamplingIterate.over_sampler_from *)
  Definition over_sampler_from (os : @over_sampling O) (m : mask) (ps og : Num * Num) : osampler :=
    match os with
    | OSUniformInt s => OSU (sampler_new m ps og (full_sub_size m s))
    | OSUniformMap ss => OSU (sampler_new m ps og ss)
    | OSIterate thr rel steps => OSI thr rel steps
    end.
  (* one @over_sample-decorated call `profile.method(grid)` *)
  Definition gcall (g : gridobj) (f : Num * Num -> Num) : gridobj * res (list Num) :=
    if negb (perform_over_sampling (g_mask g) (g_os g)) then (g, Ok (map f (g_vals g)))
    else
      let smp := match g_smp g with
                 | Some s => s
                 | None => over_sampler_from (g_os g) (g_mask g) (g_ps g) (g_og g)
                 end in
      match smp with
      | OSU s => let '(s', r) := svia s f in
                 (mkG (g_mask g) (g_ps g) (g_og g) (g_vals g) (g_os g) (Some (OSU s')), Ok r)
      | OSI thr rel steps =>
          (mkG (g_mask g) (g_ps g) (g_og g) (g_vals g) (g_os g) (Some smp),
           iterate_via_func f (g_mask g) (g_ps g) (g_og g) thr rel steps)
      end.
  Fixpoint grun (g : gridobj) (fs : list (Num * Num -> Num)) : list (res (list Num)) :=
    match fs with
    | [] => []
    | f :: t => let '(g', r) := gcall g f in r :: grun g' t
    end.
End Hist.

(* ==================================================================== correspondence (at QOps) *)
Local Open Scope Q_scope.

Inductive sop_case :=
| CGrid (out : list (Q * Q)) | CSlim (out : list nat) | CNative (out : list (nat * nat)) | CAreas (out : list Q)
| CBin (arr out : list Q) | CVia (f : ufun Q) (out : list Q) | CHeld (held : list (Q * Q)) (f : ufun Q) (out : list Q)
| CEdit (i s : nat).

Inductive hcase :=
  (* one operation on fresh objects (every constructor of Model.C09.case) *)
| HOne (k : case)
  (* several operations one after the other in ONE process: on fresh objects built from related inputs, or on SHARED
     objects (the same Mask2D / OverSamplerUniform / OverSamplerIterate / OverSamplingUniform|Iterate / GridsDataset /
     Grid2D object wherever two steps have the same construction parameters); each result is compared with the model
     on that step's input alone *)
| HSeq (l : list case)
  (* ONE OverSamplerUniform object: reads of the cached properties, binning, functions, in-place edits of the map *)
| HSampler (exact : bool) (m : mask) (ps og : Q * Q) (ss : list nat) (steps : list sop_case)
  (* ONE Grid2D.from_mask(mask, over_sampling=os) object (or GridsDataset grid): k decorated calls *)
| HGrid (exact : bool) (m : mask) (ps og : Q * Q) (os : os_case) (calls : list (ufun Q * res (list Q))).

Definition sop_of (c : sop_case) : @sop QOps :=
  match c with
  | CGrid _ => @SGrid QOps | CSlim _ => @SSlim QOps | CNative _ => @SNative QOps | CAreas _ => @SAreas QOps
  | CBin arr _ => @SBin QOps arr | CVia f _ => @SVia QOps (@eval_ufun QOps f)
  | CHeld h f _ => @SHeld QOps h (@eval_ufun QOps f) | CEdit i s => @SEdit QOps i s
  end.
Definition sout_of (c : sop_case) : @sout QOps :=
  match c with
  | CGrid o => @RGrid QOps o | CSlim o => @RNats QOps o | CNative o => @RPairs QOps o | CAreas o => @RNums QOps o
  | CBin _ o => @RNums QOps o | CVia _ o => @RNums QOps o | CHeld _ _ o => @RNums QOps o | CEdit _ _ => @RNone QOps
  end.
Definition sout_eqb (e : bool) (a b : @sout QOps) : bool :=
  match a, b with
  | RGrid x, RGrid y => qqlist_eq e x y
  | RNats x, RNats y => natlist_eq x y
  | RPairs x, RPairs y => list_eqb (prod_eqb Nat.eqb Nat.eqb) x y
  | RNums x, RNums y => qlist_eq e x y
  | RNone, RNone => true
  | _, _ => false
  end.

Definition hagree (k : hcase) : bool :=
  match k with
  | HOne c => agree c
  | HSeq l => forallb agree l
  | HSampler e m ps og ss steps =>
      list_eqb (sout_eqb e) (@srun QOps (@sampler_new QOps m ps og ss) (map sop_of steps)) (map sout_of steps)
  | HGrid e m ps og os calls =>
      list_eqb (rq_eq e)
        (@grun QOps (@grid_new QOps m ps og (@grid_slim_via_mask QOps m ps og) (os_of os))
               (map (fun c => @eval_ufun QOps (fst c)) calls))
        (map snd calls)
  end.

(* the specification's verdict on each step alone, with the contents current at that step (never calls the model) *)
Definition step_case (e : bool) (m : mask) (ps og : Q * Q) (ss : list nat) (c : sop_case) : option case :=
  match c with
  | CGrid o => Some (KGrid e m ps og ss o)
  | CSlim o => Some (KSlimForSub m ss o)
  | CNative o => Some (KNativeForSub m ss o)
  | CAreas o => Some (KAreas e ps ss o)
  | CBin arr o => Some (KBin e m ss arr o)
  | CVia f o => Some (KViaFunc e m ps og ss f o)
  | CHeld h f o => Some (KHeld e m ss h f o)
  | CEdit _ _ => None
  end.
Fixpoint steps_spec_ok (e : bool) (m : mask) (ps og : Q * Q) (ss : list nat) (steps : list sop_case) : bool :=
  match steps with
  | [] => true
  | c :: t =>
      match step_case e m ps og ss c with Some k => spec_ok k | None => true end
      && steps_spec_ok e m ps og (match c with CEdit i s => set_nth i s ss | _ => ss end) t
  end.
Definition hspec_ok (k : hcase) : bool :=
  match k with
  | HOne c => spec_ok c
  | HSeq l => forallb spec_ok l
  | HSampler e m ps og ss steps => steps_spec_ok e m ps og ss steps
  | HGrid e m ps og os calls => forallb (fun c => spec_ok (KDecor e m ps og os (fst c) (snd c))) calls
  end.

Definition hcheck (k : hcase) : nat := verdict (hagree k) (hspec_ok k).

(* the generated case files say `Definition cases : list case` after importing this module only *)
Notation case := hcase (only parsing).
