"""C01 -- slim and native forms are exact, order-preserving inverses under any mask."""
import itertools
import numpy as np
from harness.common import cz, cnat, cbool, clist, ctup, import_aa

ID = "C01"
GEN = []
PROPS = "Props/C01.v"
COQ_CHECK = ("Model.C01", "check")
COQ_FALLBACK = None
COQ_IMPORTS = ""
SHARD = 1000
RULE = ("every boolean mask (2^(H*W), all-masked excluded at class level) of every shape in the exhaustive sub-space, values "
        "1+y*W+x (any reordering / misplaced zero is visible) and signed random integers; util functions and the public classes "
        "Array2D / Grid2D / VectorYX2D / Array1D / Grid1D with input form x store_native, Mask2D.derive_indexes.*; random masks up "
        "to 12x12. Phase 2: HISTORIES -- one object (all five classes, both input forms, both storage modes) followed through "
        "arithmetic (arr + c, c - arr, arr * c, -arr, copy), with_new_array(raw with non-zero masked entries), a new object on "
        "the same Mask2D object, in-place element assignment, .native / .slim chains, reading (slim, native) after every step "
        "and twice; one Mask2D followed through in-place edits mask[y, x] = b / copy() / with_new_array / invert(), re-reading "
        "derive_indexes.native_for_slim / unmasked_slim / masked_slim and Array2D(values, mask).slim / .native after every step; "
        "values scaled by 2**-40 / 2**40 (exact), value streams containing exact zeros; the caller's arrays are re-read after "
        "the calls. Non-trivial = mask has both masked and unmasked pixels; distinct = distinct JSON input.")
EXHAUSTIVE = {
    "quick": "util level: all masks of all shapes with H*W <= 10; class level: all masks with >=1 unmasked pixel, H*W <= 8, "
             "4 (input form, store_native) modes rotating over Array2D/Grid2D/VectorYX2D; 1-D: all masks of length <= 8; "
             "histories: one object history and one mask history per mask with >=1 unmasked pixel and H*W <= 6, for H*W in {7, 8} one "
             "third of the masks gets an object history and one third a mask history; 1-D: one object history per mask of length <= 8",
    "thorough": "util level: H*W <= 14; class level: H*W <= 12; 1-D: length <= 12; histories: two per mask, H*W <= 10 (1-D: length <= 10)",
}
TRUSTED = ["hand-written Gallina model coq/Model/C01.v of array_2d_util / grid_2d_util / array_1d_util / mask_2d_util / mask_1d_util "
           "conversion loops, of the .slim / .native accessors (re-construction from the object's current stored array) and of the "
           "history steps (to_new_array arithmetic, with_new_array, element assignment, copy, Mask2D edits), tied to /repo by this "
           "correspondence run (comparison evaluated inside Coq by vm_compute)",
           "numpy element assignment / np.zeros / np.stack semantics (lists of lists in the model)",
           "values are modelled polymorphically: the code performs no arithmetic on them except zeroing the masked entries of a "
           "native input (assignment of 0; inf / NaN at masked entries are part of the input streams)",
           "Python-level relations (py_ok): every reading taken twice, objects re-read at the end of a history, the caller's arrays "
           "compared with copies taken before the call, `.array` of a constructed object = the form it was asked to store"]
ASSUMPTIONS = ["values at UNMASKED pixels are finite reals (inf / NaN only at masked entries)",
               "complex / over-sampled variants are not modelled",
               "default configuration (general.structures.native_binned_only = false)"]

def shapes_upto(n):
    return [(h, w) for h in range(1, n + 1) for w in range(1, n + 1) if h * w <= n]

def all_masks(h, w):
    for bits in itertools.product([False, True], repeat=h * w):
        yield [list(bits[y * w:(y + 1) * w]) for y in range(h)]

def vals(h, w, k):
    if k == 0: return [[1 + y * w + x for x in range(w)] for y in range(h)]
    if k == 2: return [[(y * w + 2 * x + y) % 3 - 1 for x in range(w)] for y in range(h)]      # exact zeros and ties
    if k == 3: return [[(-1) ** (x + y) * ((3 + 2 * x + 7 * y) * 2 ** 30 + 1) for x in range(w)] for y in range(h)]   # > 24 significant bits
    return [[(-1) ** (x + y) * (3 + 2 * x + 7 * y + k) for x in range(w)] for y in range(h)]

SCALES = [0, 0, -40, 40]            # values are multiplied by 2**e (exact in binary floating point) and divided back
KINDS = ["array", "grid", "vector"]
# inf / NaN at MASKED entries of native inputs and of natively stored arrays are part of the streams for all five classes
# (zeroing is by assignment since /repo e8113b3 (arrays) and 6af65c9 (grids, vector fields, 1-D grids)).
FORMS = [0, 0, 0, 1, 2, 3]          # entry form of the mask / of the values: see make_mask / give
AFF = ["add", "radd", "sub", "rsub", "mul", "rmul", "neg", "copy"]

def unmasked(m): return [(y, x) for y, r in enumerate(m) for x, b in enumerate(r) if not b]
def masked(m): return [(y, x) for y, r in enumerate(m) for x, b in enumerate(r) if b]

def gen_ops(rng, m, sn, two_planes, n_ops=None, nonfinite=True):
    """a random history of an object on mask m (list of rows); tracks which form is stored for the in-place assignments"""
    um, mk = unmasked(m), masked(m)
    is_native = sn
    ops = []
    for _ in range(n_ops or rng.choice([2, 3, 3, 4])):
        c = rng.choice(["aff"] * 7 + ["native"] * 3 + ["slim"] * 2 + ["new"] * 2 + ["build"] * 2 + ["set"] * 4 + ["nf"] * 3)
        if c == "nf" and not nonfinite: c = "aff"
        if c == "nf":
            # steps that put inf / NaN into MASKED entries of a natively stored array (never into an unmasked one)
            kind = rng.choice(["divself", "newnf", "setnf"])
            if kind == "setnf" and not (is_native and mk): kind = "divself"
            if kind == "divself": ops.append(["nf", "divself"])
            elif kind == "newnf": ops.append(["nf", "newnf", rng.randint(0, 9)]); is_native = True
            else:
                y, x = rng.choice(mk); ops.append(["nf", "setnf", y, x, rng.choice(["inf", "-inf", "nan"])])
        elif c == "aff":
            kind = rng.choice(AFF)
            cst = rng.choice([5, 5, -3, 2, 1, 7])
            if kind in ("mul", "rmul"): cst = rng.choice([2, -1, 3, 0])
            if two_planes and kind in ("add", "sub") and rng.random() < 0.4: cst = [cst, rng.choice([-2, 4, 9])]
            ops.append(["aff", kind, cst])
        elif c in ("native", "slim"):
            ops.append([c]); is_native = c == "native"
        elif c == "new":
            ni = rng.random() < 0.6
            ops.append(["new", ni, rng.randint(0, 9)]); is_native = ni
        elif c == "build":
            ni, bsn = rng.random() < 0.5, rng.random() < 0.5
            ops.append(["build", ni, rng.randint(0, 9), bsn]); is_native = bsn
        else:
            if is_native:
                y, x = rng.choice(mk) if (mk and rng.random() < 0.6) else rng.choice(um + mk)
                ops.append(["set", 0, y, x, rng.choice([77, -8, 0, 1])])
            else:
                ops.append(["set", rng.randrange(len(um)), 0, 0, rng.choice([77, -8, 0, 1])])
    return ops

def gen_mops(rng, m):
    h, w = len(m), len(m[0])
    cur = [list(r) for r in m]
    ops = []
    for _ in range(rng.choice([2, 3, 3, 4])):
        c = rng.choice(["set"] * 6 + ["copy"] * 2 + ["new", "invert"])
        if c == "set":
            y, x = rng.randrange(h), rng.randrange(w)
            b = not cur[y][x] if rng.random() < 0.8 else cur[y][x]
            if b and len(unmasked(cur)) == 1 and not cur[y][x]: b = False          # keep >= 1 unmasked pixel
            cur[y][x] = b; ops.append(["set", y, x, b])
        elif c == "copy":
            ops.append(["copy"])
        elif c == "new":
            new = [[rng.random() < 0.4 for _ in range(w)] for _ in range(h)]
            new[rng.randrange(h)][rng.randrange(w)] = False
            cur = new; ops.append(["new", [list(r) for r in new]])
        else:
            if not masked(cur): continue                                         # invert would mask everything
            cur = [[not b for b in r] for r in cur]; ops.append(["invert"])
    if not ops: ops.append(["copy"])
    return ops

def gen_inputs(tier, rng):
    big = tier == "thorough"
    nu, nc, n1, nh = (14, 12, 12, 10) if big else (10, 8, 8, 8)
    i = 0
    for (h, w) in shapes_upto(nu):
        for m in all_masks(h, w):
            i += 1
            yield {"op": "util", "m": m, "k": i % 4}
    for (h, w) in shapes_upto(nc):
        for m in all_masks(h, w):
            if all(all(r) for r in m): continue
            i += 1
            yield {"op": KINDS[i % 3], "m": m, "ni": bool(i & 1), "sn": bool(i & 2), "k": (i >> 2) % 4, "e": SCALES[(i >> 4) % 4],
                   "mt": (i // 3) % 4, "vt": (i // 5) % 4, "nf": (i // 7) % 3 == 0}
            if big or i % 5 == 0:
                yield {"op": "array", "m": m, "ni": not bool(i & 1), "sn": not bool(i & 2), "k": 1}
    for n in range(1, n1 + 1):
        for bits in itertools.product([False, True], repeat=n):
            if all(bits): continue
            i += 1
            yield {"op": "array1d" if i % 3 else "grid1d", "r": list(bits), "ni": bool(i & 1), "sn": bool(i & 2), "e": SCALES[(i >> 2) % 4],
                   "mt": (i // 3) % 4, "vt": (i // 5) % 4, "nf": (i // 7) % 3 == 0}
            yield {"op": "array1d", "r": list(bits), "ni": not bool(i & 1), "sn": bool(i & 4)}
    # ---- histories (phase 2): quick = every mask with H*W <= 6 gets an object history AND a mask history, of the masks with
    #      H*W in {7, 8} one third gets an object history and one third a mask history; thorough = two of each for every
    #      mask with H*W <= 10
    hk = ["array", "grid", "array", "vector"]
    for (h, w) in shapes_upto(nh):
        for m in all_masks(h, w):
            if all(all(r) for r in m): continue
            for _ in range(2 if big else 1):
                i += 1
                both = big or h * w <= 6
                if both or i % 3 == 0:
                    cls = rng.choice(hk); sn = rng.random() < 0.6
                    yield {"op": "hist", "cls": cls, "m": m, "ni": rng.random() < 0.5, "sn": sn, "k": rng.randrange(4), "e": rng.choice(SCALES),
                           "mt": rng.choice(FORMS), "vt": rng.choice(FORMS), "ops": gen_ops(rng, m, sn, cls != "array")}
                if both or i % 3 == 1:
                    yield {"op": "maskhist", "m": m, "ops": gen_mops(rng, m)}
    for n in range(1, nh + 1):
        for bits in itertools.product([False, True], repeat=n):
            if all(bits): continue
            i += 1
            sn = rng.random() < 0.6; c1 = "array1d" if i % 3 else "grid1d"
            yield {"op": "hist", "cls": c1, "m": [list(bits)], "ni": rng.random() < 0.5, "sn": sn,
                   "k": rng.randrange(4), "e": rng.choice(SCALES), "mt": rng.choice(FORMS), "vt": rng.choice(FORMS),
                   "ops": gen_ops(rng, [list(bits)], sn, False)}
    for _ in range(1500 if big else 120):
        h, w = rng.randint(3, 12), rng.randint(3, 12)
        p = rng.choice([0.1, 0.3, 0.5, 0.8])
        m = [[rng.random() < p for _ in range(w)] for _ in range(h)]
        if all(all(r) for r in m): m[rng.randrange(h)][rng.randrange(w)] = False
        yield {"op": "util", "m": m, "k": 1}
        yield {"op": rng.choice(KINDS), "m": m, "ni": rng.random() < 0.5, "sn": rng.random() < 0.5, "k": rng.randint(0, 3),
               "e": rng.choice(SCALES), "mt": rng.choice(FORMS), "vt": rng.choice(FORMS)}
        if not big and _ % 3: continue
        sn = rng.random() < 0.6; cls = rng.choice(hk)
        yield {"op": "hist", "cls": cls, "m": m, "ni": rng.random() < 0.5, "sn": sn, "k": rng.randint(0, 3), "e": rng.choice(SCALES),
               "mt": rng.choice(FORMS), "vt": rng.choice(FORMS), "ops": gen_ops(rng, m, sn, cls != "array")}
        yield {"op": "maskhist", "m": m, "ops": gen_mops(rng, m)}

def cmask(m): return clist([clist([cbool(b) for b in r]) for r in m])
def cgrid(g): return clist([clist([cz(v) for v in r]) for r in g])
def cvec(v): return clist([cz(x) for x in v])
def ints(a): return [int(round(float(x))) for x in np.asarray(a).ravel()]
def ints2(a): return [[int(round(float(x))) for x in r] for r in np.asarray(a)]

def exact(a):
    a = np.asarray(a, dtype=float)
    if not np.all(np.isfinite(a)): raise AssertionError("inf / NaN in a form read from the implementation (masked entries must read 0)")
    if not np.all(a == np.round(a)): raise AssertionError("non-integer value in implementation output")

def descale(a, sc):
    """the implementation's values divided by the power-of-two scale (exact); must be integers"""
    a = np.array(a, dtype=float) / sc
    exact(a)
    return a

class Checks:
    """relations that only Python can see (the same object read twice, the caller's arrays after the call)"""
    def __init__(self): self.bad = []
    def same(self, what, a, b):
        a, b = np.asarray(a), np.asarray(b)
        if a.shape != b.shape or not np.array_equal(a, b, equal_nan=a.dtype.kind == "f" and b.dtype.kind == "f"): self.bad.append(what)
    def result(self, r):
        if self.bad:
            r["py_ok"] = False; r["detail"] = "; ".join(self.bad[:6])
        return r


def make_mask(aa, ma, mt, one_d=False):
    """the same mask through different entry forms: ndarray / python list / invert=True of the complement / 0-1 integers"""
    M = aa.Mask1D if one_d else aa.Mask2D
    if mt == 1: return M(mask=ma.tolist(), pixel_scales=1.0)
    if mt == 2: return M(mask=np.invert(ma), pixel_scales=1.0, invert=True)
    if mt == 3: return M(mask=ma.astype(int), pixel_scales=1.0)
    return M(mask=ma, pixel_scales=1.0)

def give(values, vt, exact_scale, build_other):
    """the same values through different entry forms: float ndarray / python list / integer ndarray / an existing
    structure of the other storage mode on the same mask"""
    if vt == 1: return values.tolist()
    if vt == 2 and exact_scale: return values.astype(int)
    if vt == 3: return build_other(values)
    return values

def poison(values, ma):
    """inf / NaN at the masked entries of a native input (float): the forms read from the object must not depend on them"""
    bad = [np.inf, np.nan, -np.inf]
    for j, idx in enumerate(zip(*np.nonzero(ma))): values[idx] = bad[j % 3]
    return values

def stored_ok(chk, obj, sn, slim_read, native_read, what):
    """`.array` of a freshly constructed object is the form it was asked to store"""
    a = np.asarray(obj.array)
    ref = np.asarray(native_read if sn else slim_read)
    if a.shape != ref.shape or not np.array_equal(a, ref): chk.bad.append(what + ": .array is not the stored " + ("native" if sn else "slim") + " form")

# ----------------------------------------------------------------------------- histories of one object
def raw_native(h, w, t, plane): return [[(-1) ** (x + y + plane) * (11 + 3 * x + 5 * y + t + 20 * plane) for x in range(w)] for y in range(h)]
def raw_slim(n, t, plane): return [200 + 7 * k + t + 50 * plane for k in range(n)]

def run_hist(aa, inp):
    cls = inp["cls"]; m = inp["m"]; h, w = len(m), len(m[0]); k = inp.get("k", 0); sc = 2.0 ** inp.get("e", 0)
    one_d = cls in ("array1d", "grid1d"); planes = 2 if cls in ("grid", "vector") else 1
    ma = np.array(m, dtype=bool); ma0 = ma.copy()
    um = unmasked(m); cnt = len(um)
    chk = Checks()
    mt, vt = inp.get("mt", 0), inp.get("vt", 0)
    m1 = ma[0].copy() if one_d else None
    mask = make_mask(aa, m1 if one_d else ma, mt, one_d)
    C = {"array": aa.Array2D, "grid": aa.Grid2D, "vector": aa.VectorYX2D, "array1d": aa.Array1D, "grid1d": aa.Grid1D}[cls]
    vgrid = None
    if cls == "vector": vgrid = aa.Grid2D.from_mask(mask=mask)

    def as_values(ni, nat_planes, slim_planes):
        """the array handed to the implementation: native [h, w(, 2)] or slim [n(, 2)], scaled"""
        src = nat_planes if ni else slim_planes
        a = [np.array(p, dtype=float) * sc for p in src]
        if one_d: return a[0][0] if ni else a[0]
        return np.stack(a, axis=-1) if planes == 2 else a[0]
    def build(values, sn, native_grid=None):
        if cls == "vector":
            if native_grid is None: native_grid = np.ndim(values) == 3
            return C(values=values, grid=vgrid.native if native_grid else vgrid, mask=mask, store_native=sn)
        return C(values=values, mask=mask, store_native=sn)
    def read(obj, stored=None):
        s1, n1 = np.array(obj.slim), np.array(obj.native)
        s2, n2 = np.array(obj.slim), np.array(obj.native)           # the same object read twice
        if stored is not None: stored_ok(chk, obj, stored, s1, n1, "after construction")
        chk.same("second read of .slim differs", s1, s2); chk.same("second read of .native differs", n1, n2)
        s, n = descale(s1, sc), descale(n1, sc)
        if one_d:
            if s.shape != (cnt,) or n.shape != (w,): raise AssertionError(f"shape of 1-D forms {s.shape} {n.shape}")
            return [(ints(s), [ints(n)])]
        if planes == 1:
            if s.shape != (cnt,) or n.shape != (h, w): raise AssertionError(f"shape of forms {s.shape} {n.shape}")
            return [(ints(s), ints2(n))]
        if s.shape != (cnt, 2) or n.shape != (h, w, 2): raise AssertionError(f"shape of forms {s.shape} {n.shape}")
        return [(ints(s[:, q]), ints2(n[:, :, q])) for q in range(planes)]

    nat0 = [vals(h, w, k)] + ([[[7 - v for v in r] for r in vals(h, w, k)]] if planes == 2 else [])
    slim0 = [[nat0[q][y][x] + 1000 for (y, x) in um] for q in range(planes)]
    ni, sn = inp["ni"], inp["sn"]
    values = as_values(ni, nat0, slim0); values0 = values.copy()
    # the caller's array itself, not a copy (or a list / an integer array / a structure of the other storage mode)
    obj = build(give(values, vt, inp.get("e", 0) == 0, lambda v: build(v, not sn)), sn, native_grid=ni)
    is_native = sn
    outs = [read(obj, stored=sn)]
    zops = [[] for _ in range(planes)]
    older = [(obj, outs[-1])]                                          # objects that no later step edits in place
    edited = False
    def caller_arrays():
        # constructors, accessors and arithmetic leave the caller's array alone (a slim 1-D input is stored as it is, so
        # the user's own in-place assignments may show through it: checked only up to the first assignment)
        chk.same("the caller's values array was modified", values, values0)
    for op in inp["ops"]:
        if op[0] == "aff":
            kind, c = op[1], op[2]
            cs = c if isinstance(c, list) else [c] * planes
            cv = (np.array(cs, dtype=float) if isinstance(c, list) else float(c))
            if kind == "add": new = obj + cv * sc; ab = [(1, x) for x in cs]
            elif kind == "radd": new = float(c) * sc + obj; ab = [(1, x) for x in cs]
            elif kind == "sub": new = obj - cv * sc; ab = [(1, -x) for x in cs]
            elif kind == "rsub": new = float(c) * sc - obj; ab = [(-1, x) for x in cs]
            elif kind == "mul": new = obj * float(c); ab = [(c, 0)] * planes
            elif kind == "rmul": new = float(c) * obj; ab = [(c, 0)] * planes
            elif kind == "neg": new = -obj; ab = [(-1, 0)] * planes
            else: new = obj.copy(); ab = [(1, 0)] * planes
            if type(new) is not type(obj): raise AssertionError(f"{kind} returned a {type(new).__name__}")
            obj = new
            for q in range(planes): zops[q].append(f"(ZAff {cz(ab[q][0])} {cz(ab[q][1])})")
        elif op[0] == "nf" and op[1] == "divself":
            # arr / arr: 1 at every unmasked pixel, 0/0 = NaN at the (zero) masked pixels of a natively stored array;
            # only when no unmasked value is zero, else a plain copy
            if all(v != 0 for o in outs[-1] for v in o[0]):
                with np.errstate(all="ignore"): obj = (obj / obj) * sc
                ab = (0, 1)
            else: obj = obj.copy(); ab = (1, 0)
            for q in range(planes): zops[q].append(f"(ZAff {cz(ab[0])} {cz(ab[1])})")
        elif op[0] == "nf" and op[1] == "newnf":
            t = op[2]
            rn = [raw_native(h, w, t, q) for q in range(planes)]; rs = [raw_slim(cnt, t, q) for q in range(planes)]
            raw = as_values(True, rn, rs)
            bad = [np.inf, np.nan, -np.inf]
            for j, (y, x) in enumerate(masked(m)):
                if one_d: raw[x] = bad[j % 3]
                else: raw[y, x] = bad[j % 3]
            obj = obj.with_new_array(raw); is_native = True
            # the masked entries of the raw array are printed as finite placeholders: the model's readings do not depend on them
            for q in range(planes): zops[q].append(f"(ZNew true {cgrid(rn[q])} {cvec(rs[q])})")
        elif op[0] == "nf" and op[1] == "setnf":
            _, _, y, x, v = op
            older = []
            if not edited: caller_arrays()
            edited = True
            fv = float(v) if np.asarray(obj.array).dtype.kind == "f" else 12345      # an integer array cannot hold inf
            if one_d: obj[x] = fv
            else: obj[y, x] = fv
            for q in range(planes): zops[q].append(f"(ZSet 0%nat {cnat(y)} {cnat(x)} 0)")
        elif op[0] in ("native", "slim"):
            obj = obj.native if op[0] == "native" else obj.slim
            is_native = op[0] == "native"
            for q in range(planes): zops[q].append("ZNative" if is_native else "ZSlim")
        elif op[0] in ("new", "build"):
            rni, t = op[1], op[2]
            rn = [raw_native(h, w, t, q) for q in range(planes)]; rs = [raw_slim(cnt, t, q) for q in range(planes)]
            raw = as_values(rni, rn, rs)
            if op[0] == "new":
                obj = obj.with_new_array(raw); is_native = rni
                for q in range(planes): zops[q].append(f"(ZNew {cbool(rni)} {cgrid(rn[q])} {cvec(rs[q])})")
            else:
                raw0 = raw.copy()
                if cls == "vector":
                    obj = C(values=raw, grid=vgrid.native if rni else vgrid, mask=obj.mask, store_native=op[3])
                else:
                    obj = C(values=raw, mask=obj.mask, store_native=op[3])     # the SAME mask object, different values
                chk.same("constructor changed the caller's values array", raw, raw0)
                is_native = op[3]
                for q in range(planes): zops[q].append(f"(ZBuild {cbool(rni)} {cgrid(rn[q])} {cvec(rs[q])} {cbool(op[3])})")
        elif op[0] == "set":
            _, ks, y, x, v = op
            vs = [v, v + 3][:planes]
            val = float(v) * sc if planes == 1 else [float(u) * sc for u in vs]
            # everything read so far from other objects must not be re-read after an in-place edit (aliasing is not C01's business)
            older = []
            if not edited: caller_arrays()
            edited = True
            if is_native:
                if one_d: obj[x] = val
                else: obj[y, x] = val
            else: obj[ks] = val
            for q in range(planes): zops[q].append(f"(ZSet {cnat(ks)} {cnat(y)} {cnat(x)} {cz(vs[q])})")
        else: raise ValueError(op)
        with np.errstate(all="ignore"):
            outs.append(read(obj, stored=is_native if op[0] in ("native", "slim", "build") else None))
        older.append((obj, outs[-1]))
    # objects created along the way, read again at the end
    for j, (o, exp) in enumerate(older):
        again = read(o)
        if again != exp: chk.bad.append(f"object {j} of the history reads differently at the end")
    if not edited: caller_arrays()
    chk.same("the caller's mask array was modified", ma, ma0)
    chk.same("the Mask object was modified", np.array(mask), ma0[0] if one_d else ma0)
    if one_d: chk.same("the caller's mask array was modified", m1, ma0[0])
    cases = []
    for q in range(planes):
        co = clist(["(" + cvec(o[q][0]) + ", " + (cvec(o[q][1][0]) if one_d else cgrid(o[q][1])) + ")" for o in outs])
        if one_d:
            cases.append(f"(KHist1 {clist([cbool(b) for b in m[0]])} {cbool(ni)} {cbool(sn)} {cvec(nat0[q][0])} {cvec(slim0[q])} "
                         f"{clist(zops[q])} {co})")
        else:
            cases.append(f"(KHist {cmask(m)} {cbool(ni)} {cbool(sn)} {cgrid(nat0[q])} {cvec(slim0[q])} {clist(zops[q])} {co})")
    return chk.result({"coq": cases[0], "extra_coq": cases[1:], "out": outs, "kind": "hist:" + cls,
                       "nontrivial": bool(ma.any() and not ma.all())})

# ----------------------------------------------------------------------------- histories of one Mask2D
def run_maskhist(aa, inp):
    m = inp["m"]; h, w = len(m), len(m[0])
    ma = np.array(m, dtype=bool); ma0 = ma.copy()
    native = vals(h, w, 0)
    nv = np.array(native, dtype=float)
    chk = Checks()
    mask = aa.Mask2D(mask=ma, pixel_scales=1.0)
    cur = [list(r) for r in m]                                       # what the mask holds now, tracked by the harness
    def read(mk):
        di = mk.derive_indexes
        nfs = np.asarray(di.native_for_slim).reshape(-1, 2)
        u, k_ = di.unmasked_slim, di.masked_slim
        chk.same("second read of native_for_slim differs", nfs, np.asarray(mk.derive_indexes.native_for_slim).reshape(-1, 2))
        cnt = len(unmasked(cur))
        a1 = aa.Array2D(values=nv, mask=mk)
        a2 = aa.Array2D(values=np.arange(1000.0, 1000.0 + cnt), mask=mk)
        s1, n2 = np.array(a1.slim), np.array(a2.native)
        exact(s1); exact(n2)
        return ([[int(a), int(b)] for a, b in nfs], ints(u), ints(k_), ints(s1), ints2(n2))
    outs = [read(mask)]
    left = []                                                        # masks left behind by copy / new / invert: must keep their state
    cops = []
    for op in inp["ops"]:
        if op[0] == "set":
            _, y, x, b = op
            mask[y, x] = b; cur[y][x] = b
            cops.append(f"(MSet {cnat(y)} {cnat(x)} {cbool(b)})")
        elif op[0] == "copy":
            left.append((mask, outs[-1], [list(r) for r in cur])); mask = mask.copy(); cops.append("MCopy")
        elif op[0] == "new":
            left.append((mask, outs[-1], [list(r) for r in cur]))
            mask = mask.with_new_array(np.array(op[1], dtype=bool)); cur = [list(r) for r in op[1]]
            cops.append(f"(MNew {cmask(op[1])})")
        elif op[0] == "invert":
            left.append((mask, outs[-1], [list(r) for r in cur]))
            mask = mask.invert(); cur = [[not b for b in r] for r in cur]; cops.append("MInvert")
        else: raise ValueError(op)
        if not np.array_equal(np.array(mask), np.array(cur, dtype=bool)):
            raise AssertionError("the mask does not hold the edited contents")
        outs.append(read(mask))
    final = cur
    for j, (mk, exp, c) in enumerate(left):
        cur = c
        if read(mk) != exp: chk.bad.append(f"mask {j} left behind by copy/new/invert reads differently at the end")
    cur = final
    chk.same("the caller's mask array was modified", ma, ma0)
    def cobs(o):
        return ("(" + clist([ctup([cnat(a), cnat(b)]) for a, b in o[0]]) + ", " + clist([cnat(x) for x in o[1]]) + ", "
                + clist([cnat(x) for x in o[2]]) + ", " + cvec(o[3]) + ", " + cgrid(o[4]) + ")")
    coq = f"(KMaskHist {cmask(m)} {cgrid(native)} {clist(cops)} {clist([cobs(o) for o in outs])})"
    return chk.result({"coq": coq, "out": outs, "kind": "maskhist", "nontrivial": True})

def run_case(inp):
    aa = import_aa()
    from autoarray.structures.arrays import array_2d_util
    from autoarray.mask import mask_2d_util, mask_1d_util
    op = inp["op"]
    if op == "hist": return run_hist(aa, inp)
    if op == "maskhist": return run_maskhist(aa, inp)
    sc = 2.0 ** inp.get("e", 0)
    chk = Checks()
    if op in ("array1d", "grid1d"):
        r = inp["r"]; n = len(r)
        native = [5 + 3 * x for x in range(n)]
        slim = [v for v, b in zip(native, r) if not b]
        slim_in = [v + 100 for v in slim]
        ra = np.array(r)
        mask = make_mask(aa, ra, inp.get("mt", 0), one_d=True)
        values = np.array(native if inp["ni"] else slim_in, dtype=float) * sc
        nf = bool(inp.get("nf")) and inp["ni"]
        if nf: poison(values, ra)
        values0 = values.copy()
        cls = aa.Array1D if op == "array1d" else aa.Grid1D
        obj = cls(values=give(values, inp.get("vt", 0), sc == 1.0 and not nf, lambda v: cls(values=v, mask=mask, store_native=not inp["sn"])),
                  mask=mask, store_native=inp["sn"])
        stored_ok(chk, obj, inp["sn"], obj.slim, obj.native, op)
        os_, on_ = descale(obj.slim, sc), descale(obj.native, sc)
        chk.same("the caller's values array was modified", values, values0)
        chk.same("the caller's mask array was modified", ra, np.array(r))
        chk.same("second read of .native differs", on_, descale(obj.native, sc))
        out = [ints(os_), ints(on_)]
        nfs = mask_1d_util.native_index_for_slim_index_1d_from(mask_1d=np.array(r))
        coq = (f"KArray1 {clist([cbool(b) for b in r])} {cbool(inp['ni'])} {cbool(inp['sn'])} {cvec(native)} {cvec(slim_in)} "
               f"{cvec(out[0])} {cvec(out[1])}")
        # the second, cheap case rides along as its own case through `extra`
        return chk.result({"coq": "(" + coq + ")", "out": out, "kind": op, "nontrivial": any(r),
                "extra_coq": ["(KNativeForSlim1 " + clist([cbool(b) for b in r]) + " " + clist([cnat(x) for x in ints(nfs)]) + ")"]})
    m = inp["m"]; h, w = len(m), len(m[0]); k = inp.get("k", 0)
    ma = np.array(m, dtype=bool); ma0 = ma.copy()
    nontrivial = bool(ma.any() and not ma.all())
    native = vals(h, w, k)
    slim = [native[y][x] + 1000 for y in range(h) for x in range(w) if not m[y][x]]
    if op == "util":
        an = np.array(native, dtype=float); asl = np.array(slim, dtype=float)
        s1 = array_2d_util.array_2d_slim_from(array_2d_native=an, mask_2d=ma)
        n1 = array_2d_util.array_2d_native_from(array_2d_slim=asl, mask_2d=ma)
        idx = mask_2d_util.native_index_for_slim_index_2d_from(mask_2d=ma)
        um = mask_2d_util.mask_slim_indexes_from(mask_2d=ma, return_masked_indexes=False)
        mk = mask_2d_util.mask_slim_indexes_from(mask_2d=ma, return_masked_indexes=True)
        chk.same("a util function modified its array argument", an, np.array(native, dtype=float))
        chk.same("a util function modified its array argument", asl, np.array(slim, dtype=float))
        chk.same("a util function modified its mask argument", ma, ma0)
        exact(s1); exact(n1)
        out = [ints(s1), ints2(n1), [[int(a), int(b)] for a, b in np.asarray(idx).reshape(-1, 2)], ints(um), ints(mk)]
        cm = cmask(m)
        cases = [f"(KSlimFrom {cm} {cgrid(native)} {cvec(out[0])})",
                 f"(KNativeFrom {cm} {cvec(slim)} {cgrid(out[1])})",
                 "(KNativeForSlim " + cm + " " + clist([ctup([cnat(a), cnat(b)]) for a, b in out[2]]) + ")",
                 "(KMaskIdx " + cm + " false " + clist([cnat(x) for x in out[3]]) + ")",
                 "(KMaskIdx " + cm + " true " + clist([cnat(x) for x in out[4]]) + ")"]
        return chk.result({"coq": cases[0], "extra_coq": cases[1:], "out": out, "kind": "util", "nontrivial": nontrivial})
    mask = make_mask(aa, ma, inp.get("mt", 0))
    ni, sn = inp["ni"], inp["sn"]; vt = inp.get("vt", 0)
    nf = bool(inp.get("nf")) and ni
    if op == "array":
        values = np.array(native if ni else slim, dtype=float) * sc
        if nf: poison(values, ma)
        values0 = values.copy()
        obj = aa.Array2D(values=give(values, vt, sc == 1.0 and not nf, lambda v: aa.Array2D(values=v, mask=mask, store_native=not sn)),
                         mask=mask, store_native=sn)
        stored_ok(chk, obj, sn, obj.slim, obj.native, op)
        os_, on_ = descale(obj.slim, sc), descale(obj.native, sc)
        chk.same("the caller's values array was modified", values, values0)
        chk.same("the caller's mask array was modified", ma, ma0)
        chk.same("the Mask2D was modified", np.array(mask), ma0)
        chk.same("second read of .slim differs", os_, descale(obj.slim, sc))
        # index views of the mask must agree with the util functions
        di = mask.derive_indexes
        dn = np.asarray(di.native_for_slim).reshape(-1, 2)
        out = [ints(os_), ints2(on_), [[int(a), int(b)] for a, b in dn], ints(di.unmasked_slim), ints(di.masked_slim)]
        cm = cmask(m)
        coq = f"(KArray {cm} {cbool(ni)} {cbool(sn)} {cgrid(native)} {cvec(slim)} {cvec(out[0])} {cgrid(out[1])})"
        extra = ["(KNativeForSlim " + cm + " " + clist([ctup([cnat(a), cnat(b)]) for a, b in out[2]]) + ")",
                 "(KMaskIdx " + cm + " false " + clist([cnat(x) for x in out[3]]) + ")",
                 "(KMaskIdx " + cm + " true " + clist([cnat(x) for x in out[4]]) + ")"]
        return chk.result({"coq": coq, "extra_coq": extra, "out": out, "kind": "array", "nontrivial": nontrivial})
    # grid / vector: two planes (y-plane = native values, x-plane = negated + 7)
    ny = native; nx = [[7 - v for v in r] for r in native]
    sy = slim; sx = [7 - v for v in slim]
    if ni: values = np.stack([np.array(ny, dtype=float), np.array(nx, dtype=float)], axis=-1) * sc
    else: values = np.stack([np.array(sy, dtype=float), np.array(sx, dtype=float)], axis=-1).reshape(-1, 2) * sc
    if nf: poison(values, ma)
    values0 = values.copy()
    if op == "grid":
        obj = aa.Grid2D(values=give(values, vt, sc == 1.0 and not nf, lambda v: aa.Grid2D(values=v, mask=mask, store_native=not sn)),
                        mask=mask, store_native=sn)
    else:
        g = aa.Grid2D.from_mask(mask=mask)
        gg = g.native if ni else g
        obj = aa.VectorYX2D(values=give(values, vt, sc == 1.0 and not nf,
                                        lambda v: aa.VectorYX2D(values=v, grid=gg, mask=mask, store_native=not sn)),
                            grid=gg, mask=mask, store_native=sn)
    stored_ok(chk, obj, sn, obj.slim, obj.native, op)
    os_, on_ = descale(obj.slim, sc), descale(obj.native, sc)
    chk.same("the caller's values array was modified", values, values0)
    chk.same("the Mask2D was modified", np.array(mask), ma0)
    chk.same("second read of .native differs", on_, descale(obj.native, sc))
    os_ = os_.reshape(-1, 2)
    out = [ints(os_[:, 0]), ints(os_[:, 1]), ints2(on_[:, :, 0]), ints2(on_[:, :, 1])]
    coq = (f"(KGrid {cmask(m)} {cbool(ni)} {cbool(sn)} {cgrid(ny)} {cgrid(nx)} {cvec(sy)} {cvec(sx)} "
           f"{cvec(out[0])} {cvec(out[1])} {cgrid(out[2])} {cgrid(out[3])})")
    return chk.result({"coq": coq, "out": out, "kind": op, "nontrivial": nontrivial})
