(* C18 -- Border relocation only pulls outliers radially inward to the border.
   Statements only; every proof is [exact <lemma of Proofs/C18.v>].  All statements are about the executable
   model of Model/C18.v instantiated at the real numbers ([ROps]); the same Gallina terms, instantiated at
   exact rationals, are compared with the Python implementation by the correspondence run.
   Vocabulary (Proofs/C18.v): [dist] Euclidean distance, [centroid] mean of the border points,
   [nearest border p b] b is a border point at minimal distance from p, [reloc1 border p] the model's loop body
   applied to p (so that relocated_grid_via_jit_from grid border = map (reloc1 border) grid),
   [closest border p] the border point the code pairs with p (first argmin), [block m ss i] the sub-pixel indexes
   of slim pixel i, [bbox_centre_of g cc] cc is the centre of the bounding box of the points g,
   [shape_ok m ss] rectangular mask with an unmasked pixel and one sub-size >= 1 per unmasked pixel,
   [sub_offset ss i] number of sub-pixels of the slim pixels before i, [sz ss i] sub-size of slim pixel i,
   [uniform m s] the sub-size map of BorderRelocator(mask, sub_size = s): s for every unmasked pixel. *)
From Coq Require Import Reals List.
From PAV Require Import Base.NumOps Base.Res Model.C18 Proofs.C18 Proofs.C18idx Proofs.C18x Proofs.C18y Proofs.C18h.
Import ListNotations.
Local Open Scope R_scope.

(* ---- number and order of coordinates: the output is the point-wise image of the input *)
Theorem C18_length_and_order_preserved : forall (grid border out : list (R * R)),
  @relocated_grid_via_jit_from ROps grid border = Ok out ->
  border <> [] /\ out = map (reloc1 border) grid /\ length out = length grid /\
  forall i d, (i < length grid)%nat -> nth i out d = reloc1 border (nth i grid d).
Proof. exact length_and_order_preserved. Qed.
Theorem C18_relocation_total : forall (grid border : list (R * R)), border <> [] ->
  @relocated_grid_via_jit_from ROps grid border = Ok (map (reloc1 border) grid).
Proof. exact relocation_total. Qed.
Theorem C18_empty_border_raises : forall grid : list (R * R),
  @relocated_grid_via_jit_from ROps grid [] = Raise OtherException.
Proof. exact relocation_empty_border. Qed.

(* ---- interior: distance from the centroid not exceeding the smallest border radius => the input term itself *)
Theorem C18_interior_untouched : forall (border : list (R * R)), border <> [] -> forall p,
  (forall b, In b border -> dist p (centroid border) <= dist b (centroid border)) -> reloc1 border p = p.
Proof. exact interior_untouched. Qed.

(* ---- any coordinate: unchanged, or moved along its ray from the centroid by a factor 0 <= k < 1 *)
Theorem C18_moved_on_ray_inward : forall (border : list (R * R)), border <> [] -> forall p,
  reloc1 border p = p \/
  exists k, 0 <= k < 1 /\
    reloc1 border p = (fst (centroid border) + k * (fst p - fst (centroid border)),
                       snd (centroid border) + k * (snd p - snd (centroid border))).
Proof. exact moved_on_ray_inward. Qed.
(* the factor is  radius of the paired border point / own radius *)
Theorem C18_move_factor : forall (border : list (R * R)) (Hne : border <> []) p,
  reloc1 border p <> p ->
  border_min_radius border < dist p (centroid border) /\
  dist (closest border p) (centroid border) < dist p (centroid border) /\
  reloc1 border p =
    (fst (centroid border) + dist (closest border p) (centroid border) / dist p (centroid border) * (fst p - fst (centroid border)),
     snd (centroid border) + dist (closest border p) (centroid border) / dist p (centroid border) * (snd p - snd (centroid border))).
Proof. exact moved_factor. Qed.

(* ---- beyond the smallest border radius: the FIRST nearest border point b decides; radius(b) < own radius =>
        the output has radius(b); otherwise unchanged *)
Theorem C18_smallest_border_radius : forall (border : list (R * R)), border <> [] ->
  (forall b, In b border -> border_min_radius border <= dist b (centroid border)) /\
  (exists b, In b border /\ border_min_radius border = dist b (centroid border)).
Proof. exact bmin_spec. Qed.
Theorem C18_moved_to_nearest_border_radius : forall (border : list (R * R)), border <> [] -> forall p,
  border_min_radius border < dist p (centroid border) ->
  nearest border p (closest border p) /\
  (forall j, (j < closest_index border p)%nat -> dist p (closest border p) < dist p (nth j border (0, 0))) /\
  (dist (closest border p) (centroid border) < dist p (centroid border) ->
     dist (reloc1 border p) (centroid border) = dist (closest border p) (centroid border)) /\
  (dist p (centroid border) <= dist (closest border p) (centroid border) -> reloc1 border p = p).
Proof. exact moved_to_nearest_border_radius. Qed.
(* the same without reference to the code's tie-break, when all nearest border points have the same radius *)
Theorem C18_moved_to_unique_nearest : forall (border : list (R * R)), border <> [] -> forall p b,
  border_min_radius border < dist p (centroid border) -> nearest border p b ->
  (forall b', nearest border p b' -> dist b' (centroid border) = dist b (centroid border)) ->
  (dist b (centroid border) < dist p (centroid border) -> dist (reloc1 border p) (centroid border) = dist b (centroid border)) /\
  (dist p (centroid border) <= dist b (centroid border) -> reloc1 border p = p).
Proof. exact moved_to_unique_nearest. Qed.

(* ---- never outward; never beyond the farthest border point; border points themselves are fixed *)
Theorem C18_never_outward : forall (border : list (R * R)), border <> [] -> forall p,
  dist (reloc1 border p) (centroid border) <= dist p (centroid border).
Proof. exact never_outward. Qed.
Theorem C18_bounded_by_max_border_radius : forall (border : list (R * R)), border <> [] -> forall p,
  exists b, In b border /\ dist (reloc1 border p) (centroid border) <= dist b (centroid border).
Proof. exact bounded_by_max_border_radius. Qed.
Theorem C18_border_points_fixed : forall (border : list (R * R)), border <> [] -> forall p,
  In p border -> reloc1 border p = p.
Proof. exact border_point_fixed. Qed.

(* ---- BorderRelocator: the mesh is relocated with the border points grid[sub_border_slim] of the DATA grid;
        relocated_grid_from is the same with mesh := grid *)
Theorem C18_mesh_uses_data_border : forall m ss (grid mesh out : list (R * R)),
  @relocated_mesh_grid_from ROps m ss grid mesh = Ok out ->
  exists sbs, @sub_border_pixel_slim_indexes_from ROps m ss = Ok sbs /\
   ((sbs = [] /\ out = mesh) \/
    (sbs <> [] /\ exists border, gather grid sbs = Ok border /\ border <> [] /\
                  border = map (fun k => nth k grid (0, 0)) sbs /\ out = map (reloc1 border) mesh)).
Proof. exact mesh_uses_data_border. Qed.
Theorem C18_grid_is_mesh_on_itself : forall m ss (grid : list (R * R)),
  @relocated_grid_from ROps m ss grid = @relocated_mesh_grid_from ROps m ss grid grid.
Proof. exact relocated_grid_is_mesh_on_itself. Qed.
(* mapper_grids_from relocates the mesh after the data grid, against the relocated data grid: its border points are
   those of the original data grid *)
Theorem C18_mapper_uses_data_border : forall m ss (data mesh d' v' : list (R * R)),
  @mapper_grids_from ROps (Some (m, ss)) data mesh = Ok (d', v') ->
  exists sbs, @sub_border_pixel_slim_indexes_from ROps m ss = Ok sbs /\
   ((sbs = [] /\ d' = data /\ v' = mesh) \/
    (sbs <> [] /\ exists border, gather data sbs = Ok border /\ border <> [] /\
                  border = map (fun k => nth k data (0, 0)) sbs /\
                  d' = map (reloc1 border) data /\ v' = map (reloc1 border) mesh)).
Proof. exact mapper_uses_data_border. Qed.
Theorem C18_mapper_without_relocator : forall (data mesh : list (R * R)),
  @mapper_grids_from ROps None data mesh = Ok (data, mesh).
Proof. exact mapper_without_relocator. Qed.

(* ---- histories: any sequence of calls (relocated_grid_from, relocated_mesh_grid_from, mapper_grids_from with or
        without a preloaded data grid, reads of sub_border_slim / sub_border_grid) on BorderRelocator objects
        r = 0, 1, .. = BorderRelocator(mask, nth r subs) of one mask, starting from fresh objects: the state the objects
        keep (the stored cached_property) never shows: call number i returns the pure function of ITS OWN arguments *)
Theorem C18_history_is_stateless : forall m (ps origin : R * R) subs (cs : list (@call ROps)),
  @run_history ROps m ps origin subs (fresh subs) cs = map (@pure_call ROps m ps origin subs) cs.
Proof. exact (@history_is_stateless ROps). Qed.
(* in particular a mesh relocation made after ANY earlier calls uses the border of the data grid passed with it
   (with C18_mesh_uses_data_border: grid[sub_border_slim] of THAT grid), not of a grid relocated before *)
Theorem C18_history_mesh_uses_own_data_border : forall m (ps origin : R * R) subs (pre post : list (@call ROps)) r g v,
  nth (length pre) (@run_history ROps m ps origin subs (fresh subs) (pre ++ @CMesh ROps r g v :: post)) (@ONats ROps (Ok []))
  = @OPts ROps (@relocated_mesh_grid_from ROps m (nth r subs []) g v).
Proof. exact (@history_mesh_own_border ROps). Qed.
(* and mapper_grids_from with a preloaded relocated data grid p (the data-grid step is skipped) passes p on and
   relocates the mesh against the border of p *)
Theorem C18_history_mapper_preloaded : forall m (ps origin : R * R) subs (pre post : list (@call ROps)) r p g v,
  nth (length pre) (@run_history ROps m ps origin subs (fresh subs) (pre ++ @CMapper ROps (Some r) (Some p) g v :: post))
      (@ONats ROps (Ok []))
  = @OPair ROps (match @relocated_mesh_grid_from ROps m (nth r subs []) p v with
                 | Raise e => Raise e | Ok mesh' => Ok (p, mesh') end).
Proof. exact (@history_mapper_preloaded_own_border ROps). Qed.

(* ---- sub-border indexes: one per border pixel, inside that pixel's block of sub-pixels, the LAST of those at
        maximal distance (pixel units) from the centre of the bounding box of the unmasked sub-pixel centres *)
Theorem C18_sub_border_is_farthest_subpixel : forall m ss out,
  @sub_border_pixel_slim_indexes_from ROps m ss = Ok out ->
  exists cc, bbox_centre_of (@unit_grid ROps m ss) cc /\
    Forall2 (fun bp k =>
       exists l1 l2, block m ss bp = l1 ++ k :: l2 /\
         (forall k', In k' l1 -> dist (nth k' (@unit_grid ROps m ss) (0, 0)) cc <= dist (nth k (@unit_grid ROps m ss) (0, 0)) cc) /\
         (forall k', In k' l2 -> dist (nth k' (@unit_grid ROps m ss) (0, 0)) cc < dist (nth k (@unit_grid ROps m ss) (0, 0)) cc))
      (border_slim_indexes_from m) out.
Proof. exact sub_border_is_farthest_subpixel. Qed.
Theorem C18_sub_border_in_block_and_farthest : forall m ss out,
  @sub_border_pixel_slim_indexes_from ROps m ss = Ok out ->
  exists cc, bbox_centre_of (@unit_grid ROps m ss) cc /\
    Forall2 (fun bp k => In k (block m ss bp) /\
       forall k', In k' (block m ss bp) ->
         dist (nth k' (@unit_grid ROps m ss) (0, 0)) cc <= dist (nth k (@unit_grid ROps m ss) (0, 0)) cc)
      (border_slim_indexes_from m) out.
Proof. exact sub_border_in_block_and_farthest. Qed.
(* furthest_grid_2d_slim_index_from on its own; its loop variable stays unbound exactly for no indexes *)
Theorem C18_furthest_is_last_maximiser : forall (g : list (R * R)) idx cc k,
  @furthest_grid_2d_slim_index_from ROps g idx cc = Some k ->
  exists l1 l2, idx = l1 ++ k :: l2 /\
    (forall k', In k' l1 -> dist (nth k' g (0, 0)) cc <= dist (nth k g (0, 0)) cc) /\
    (forall k', In k' l2 -> dist (nth k' g (0, 0)) cc < dist (nth k g (0, 0)) cc).
Proof. exact furthest_spec. Qed.
Theorem C18_furthest_unbound_iff_empty : forall (g : list (R * R)) idx cc,
  @furthest_grid_2d_slim_index_from ROps g idx cc = None <-> idx = [].
Proof. exact furthest_none_iff. Qed.


(* ---- the index side (closed under the global context): border pixels are the set-theoretic border, the block of
        slim pixel i is the index range [sub_offset i, sub_offset i + s_i^2), and the pixel-unit grid has the
        expected closed form: sub-pixel (a, b) of pixel (y, x) sits at
        ((H-1)/2 - y + 1/2 - (2a+1)/(2s), x - (W-1)/2 - 1/2 + (2b+1)/(2s)) *)
Theorem C18_border_pixels_are_spec : forall m, rectb m = true -> border_slim_indexes_from m = border_slim_spec m.
Proof. exact border_slim_is_spec. Qed.
Theorem C18_border_spec_membership : forall m i,
  In i (border_slim_spec m) <->
  (i < total_pixels_2d_from m)%nat /\
  is_border_spec m (fst (nth i (native_index_for_slim_index_2d_from m) (0, 0)%nat))
                   (snd (nth i (native_index_for_slim_index_2d_from m) (0, 0)%nat)) = true.
Proof. exact in_border_slim_spec. Qed.
Theorem C18_block_is_range : forall m ss i, (i < total_pixels_2d_from m)%nat ->
  nth i (sub_slim_indexes_for_slim_index m ss) [] = seq (sub_offset ss i) (sz ss i * sz ss i).
Proof. exact block_is_range. Qed.
Theorem C18_unit_grid_closed_form : forall m ss i a b,
  (i < total_pixels_2d_from m)%nat -> (a < sz ss i)%nat -> (b < sz ss i)%nat ->
  let y := fst (nth i (native_index_for_slim_index_2d_from m) (0, 0)%nat) in
  let x := snd (nth i (native_index_for_slim_index_2d_from m) (0, 0)%nat) in
  let s := sz ss i in
  nth (sub_offset ss i + (a * s + b)) (@unit_grid ROps m ss) (0, 0) =
    ((INR (nrows m) - 1) / 2 - INR y + 1 / 2 - (2 * INR a + 1) / (2 * INR s),
     INR x - (INR (ncols m) - 1) / 2 - 1 / 2 + (2 * INR b + 1) / (2 * INR s)).
Proof. exact unit_grid_closed_form. Qed.
(* ---- in one piece: for a well-shaped relocator the selection succeeds and returns, for each set-theoretic border
        pixel in order, an index of that pixel's range at maximal distance from the bounding-box centre *)
Theorem C18_sub_border_total : forall m ss, shape_ok m ss = true ->
  exists out, @sub_border_pixel_slim_indexes_from ROps m ss = Ok out /\ length out = length (border_slim_spec m).
Proof. exact sub_border_total. Qed.
Theorem C18_sub_border_farthest_in_range : forall m ss, shape_ok m ss = true ->
  exists out cc,
    @sub_border_pixel_slim_indexes_from ROps m ss = Ok out /\ bbox_centre_of (@unit_grid ROps m ss) cc /\
    Forall2 (fun bp k =>
        (bp < total_pixels_2d_from m)%nat /\
        (sub_offset ss bp <= k < sub_offset ss bp + sz ss bp * sz ss bp)%nat /\
        forall k', (sub_offset ss bp <= k' < sub_offset ss bp + sz ss bp * sz ss bp)%nat ->
          dist (nth k' (@unit_grid ROps m ss) (0, 0)) cc <= dist (nth k (@unit_grid ROps m ss) (0, 0)) cc)
      (border_slim_spec m) out.
Proof. exact sub_border_farthest_in_range. Qed.

(* ---- uniform sub-size (BorderRelocator(mask, sub_size : int)): the centre the code uses (bounding box of the
        unmasked sub-pixel centres) IS the centre of the bounding box of the unmasked pixel centres, i.e. of the
        unmasked region (union of the unit squares about them) *)
Theorem C18_uniform_centre_is_region_centre : forall m s, (1 <= s)%nat -> forall cc cc1,
  bbox_centre_of (@unit_grid ROps m (uniform m s)) cc -> bbox_centre_of (@unit_grid ROps m (uniform m 1)) cc1 -> cc = cc1.
Proof. exact uniform_centre. Qed.
Theorem C18_sub_border_uniform : forall m s, shape_ok m (uniform m s) = true ->
  exists out cc,
    @sub_border_pixel_slim_indexes_from ROps m (uniform m s) = Ok out /\
    bbox_centre_of (@unit_grid ROps m (uniform m 1)) cc /\
    Forall2 (fun bp k =>
        (bp < total_pixels_2d_from m)%nat /\
        (bp * (s * s) <= k < bp * (s * s) + s * s)%nat /\
        forall k', (bp * (s * s) <= k' < bp * (s * s) + s * s)%nat ->
          dist (nth k' (@unit_grid ROps m (uniform m s)) (0, 0)) cc <= dist (nth k (@unit_grid ROps m (uniform m s)) (0, 0)) cc)
      (border_slim_spec m) out.
Proof. exact sub_border_uniform. Qed.

(* ---- non-vacuity *)
(* border <> [], a point beyond the smallest border radius (radius 3 against the unit diamond) that is really
   moved: to radius 1 *)
Example C18_outlier_example :
  border4 <> [] /\ border_min_radius border4 < dist (3, 0) (centroid border4) /\
  dist (3, 0) (centroid border4) = 3 /\ dist (reloc1 border4 (3, 0)) (centroid border4) = 1.
Proof. exact example_outlier. Qed.
(* the hypothesis of C18_interior_untouched *)
Example C18_interior_example :
  (forall b, In b border4 -> dist (1 / 2, 0) (centroid border4) <= dist b (centroid border4)) /\
  reloc1 border4 (1 / 2, 0) = (1 / 2, 0).
Proof. exact example_interior. Qed.
(* a sub-border that exists (hypothesis of the sub-border theorems and, through it, of the mesh theorems) *)
Example C18_sub_border_example : @sub_border_pixel_slim_indexes_from ROps [[false]] [1%nat] = Ok [0%nat].
Proof. exact example_sub_border. Qed.
Example C18_gather_example : gather [(3, 0); (1, 0); (0, 1)] [1%nat; 2%nat] = Ok [(1, 0); (0, 1)].
Proof. exact example_gather. Qed.

(* a well-shaped relocator with four border pixels (3x3 mask, corners masked, sub-size 2) *)
Example C18_shape_example :
  shape_ok [[true; false; true]; [false; false; false]; [true; false; true]] [2; 2; 2; 2; 2]%nat = true /\
  border_slim_spec [[true; false; true]; [false; false; false]; [true; false; true]] = [0; 1; 3; 4]%nat.
Proof. exact example_shape_ok. Qed.

Example C18_uniform_example :
  shape_ok [[true; false; true]; [false; false; false]; [true; false; true]]
           (uniform [[true; false; true]; [false; false; false]; [true; false; true]] 2) = true.
Proof. vm_compute. reflexivity. Qed.

Print Assumptions C18_length_and_order_preserved.
Print Assumptions C18_relocation_total.
Print Assumptions C18_empty_border_raises.
Print Assumptions C18_interior_untouched.
Print Assumptions C18_moved_on_ray_inward.
Print Assumptions C18_move_factor.
Print Assumptions C18_smallest_border_radius.
Print Assumptions C18_moved_to_nearest_border_radius.
Print Assumptions C18_moved_to_unique_nearest.
Print Assumptions C18_never_outward.
Print Assumptions C18_bounded_by_max_border_radius.
Print Assumptions C18_border_points_fixed.
Print Assumptions C18_mesh_uses_data_border.
Print Assumptions C18_grid_is_mesh_on_itself.
Print Assumptions C18_mapper_uses_data_border.
Print Assumptions C18_mapper_without_relocator.
Print Assumptions C18_history_is_stateless.
Print Assumptions C18_history_mesh_uses_own_data_border.
Print Assumptions C18_history_mapper_preloaded.
Print Assumptions C18_sub_border_is_farthest_subpixel.
Print Assumptions C18_sub_border_in_block_and_farthest.
Print Assumptions C18_furthest_is_last_maximiser.
Print Assumptions C18_furthest_unbound_iff_empty.
Print Assumptions C18_border_pixels_are_spec.
Print Assumptions C18_border_spec_membership.
Print Assumptions C18_block_is_range.
Print Assumptions C18_unit_grid_closed_form.
Print Assumptions C18_sub_border_total.
Print Assumptions C18_sub_border_farthest_in_range.
Print Assumptions C18_uniform_centre_is_region_centre.
Print Assumptions C18_sub_border_uniform.
