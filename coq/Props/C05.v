From PAV Require Import Model.C05.
