(* C18 -- proofs about the border-relocation model (Model/C18.v) at the real numbers [ROps].
   Part 1: relocated_grid_via_jit_from (point-wise rule), Part 2: the BorderRelocator / mapper glue,
   Part 3: furthest sub-pixel selection. *)
From Coq Require Import ZArith QArith Reals Lra Lia List Bool Arith Psatz.
From PAV Require Import Base.NumOps Base.Res Base.Check Base.Sum Model.C18.
Import ListNotations.
Local Open Scope R_scope.

(* ================================================================= vocabulary of the statements *)
Notation Rpt := (R * R)%type (only parsing).
(* Euclidean distance *)
Definition dist (a b : Rpt) : R :=
  sqrt ((fst a - fst b) * (fst a - fst b) + (snd a - snd b) * (snd a - snd b)).
(* centroid (mean) of a list of points *)
Definition centroid (l : list Rpt) : Rpt :=
  (sumR (map fst l) / INR (length l), sumR (map snd l) / INR (length l)).
(* b is a border point nearest to p *)
Definition nearest (border : list Rpt) (p b : Rpt) : Prop :=
  In b border /\ forall b', In b' border -> dist p b <= dist p b'.
(* the model's point-wise relocation function for a given (non-empty) border *)
Definition border_min_radius (border : list Rpt) : R :=
  match border with
  | [] => 0
  | b0 :: bt => @min_list ROps (@radius ROps (@border_origin ROps border) b0)
                               (map (@radius ROps (@border_origin ROps border)) bt)
  end.
Definition reloc1 (border : list Rpt) (p : Rpt) : Rpt :=
  @relocate_point ROps (@border_origin ROps border) border
     (map (@radius ROps (@border_origin ROps border)) border) (border_min_radius border) p.

(* ================================================================= basic facts *)
Lemma radius_dist c p : @radius ROps c p = dist p c.
Proof. reflexivity. Qed.
Lemma dist2_sqrt p b : dist p b = sqrt (@dist2 ROps p b).
Proof. reflexivity. Qed.
Lemma dist2_nonneg p b : 0 <= @dist2 ROps p b.
Proof. unfold dist2, sq. cbn [add sub mul ROps]. apply Rplus_le_le_0_compat; apply Rle_0_sqr. Qed.
Lemma dist_nonneg a b : 0 <= dist a b.
Proof. apply sqrt_pos. Qed.
Lemma dist_le_iff p a b : dist p a <= dist p b <-> @dist2 ROps p a <= @dist2 ROps p b.
Proof.
  rewrite !dist2_sqrt. split; intros H.
  - destruct (Rle_or_lt (@dist2 ROps p a) (@dist2 ROps p b)) as [|Hlt]; auto.
    assert (sqrt (@dist2 ROps p b) < sqrt (@dist2 ROps p a))
      by (apply sqrt_lt_1_alt; split; [apply dist2_nonneg|assumption]). lra.
  - apply sqrt_le_1_alt. assumption.
Qed.
Lemma dist_lt_iff p a b : dist p a < dist p b <-> @dist2 ROps p a < @dist2 ROps p b.
Proof.
  pose proof (dist_le_iff p b a). split; intros H1.
  - destruct (Rle_or_lt (@dist2 ROps p b) (@dist2 ROps p a)); [|assumption]. lra.
  - destruct (Rle_or_lt (dist p b) (dist p a)); [|assumption]. lra.
Qed.

Lemma mean_R (l : list R) : @mean ROps l = sumR l / INR (length l).
Proof. unfold mean, ofNat. cbn [div ROps ofZ]. rewrite sumT_sumR, INR_IZR_INZ. reflexivity. Qed.
Lemma border_origin_centroid border : @border_origin ROps border = centroid border.
Proof. unfold border_origin, centroid. rewrite !mean_R, !map_length. reflexivity. Qed.

(* ---- np.min / np.max *)
Lemma min_list_cons (h a : R) t : @min_list ROps h (a :: t) = @min_list ROps (if Rltb a h then a else h) t.
Proof. reflexivity. Qed.
Lemma max_list_cons (h a : R) t : @max_list ROps h (a :: t) = @max_list ROps (if Rltb h a then a else h) t.
Proof. reflexivity. Qed.
Lemma min_list_spec (t : list R) : forall h : R,
  @min_list ROps h t <= h /\ (forall x, In x t -> @min_list ROps h t <= x) /\ In (@min_list ROps h t) (h :: t).
Proof.
  induction t as [|a t IH]; intros h.
  - change (@min_list ROps h []) with h. split; [lra|]. split; [intros x []|left; auto].
  - rewrite min_list_cons. destruct (Rltb a h) eqn:E; rbool.
    + destruct (IH a) as (H1 & H2 & H3). split; [lra|]. split.
      * intros x [<-|Hx]; auto.
      * destruct H3 as [H3|H3]; [right; left; auto | right; right; auto].
    + destruct (IH h) as (H1 & H2 & H3). split; [lra|]. split.
      * intros x [<-|Hx]; [lra | auto].
      * destruct H3 as [H3|H3]; [left; auto | right; right; auto].
Qed.
Lemma max_list_spec (t : list R) : forall h : R,
  h <= @max_list ROps h t /\ (forall x, In x t -> x <= @max_list ROps h t) /\ In (@max_list ROps h t) (h :: t).
Proof.
  induction t as [|a t IH]; intros h.
  - change (@max_list ROps h []) with h. split; [lra|]. split; [intros x []|left; auto].
  - rewrite max_list_cons. destruct (Rltb h a) eqn:E; rbool.
    + destruct (IH a) as (H1 & H2 & H3). split; [lra|]. split.
      * intros x [<-|Hx]; auto.
      * destruct H3 as [H3|H3]; [right; left; auto | right; right; auto].
    + destruct (IH h) as (H1 & H2 & H3). split; [lra|]. split.
      * intros x [<-|Hx]; [lra | auto].
      * destruct H3 as [H3|H3]; [left; auto | right; right; auto].
Qed.

(* ---- np.argmin: first index of the minimum *)
Lemma argmin_from_spec (l : list R) : forall i bi (bv : R),
  (@argmin_from ROps l i bi bv = bi /\ forall j, (j < length l)%nat -> bv <= nth j l 0) \/
  (exists j, @argmin_from ROps l i bi bv = (i + j)%nat /\ (j < length l)%nat /\ nth j l 0 < bv /\
             (forall j', (j' < length l)%nat -> nth j l 0 <= nth j' l 0) /\
             (forall j', (j' < j)%nat -> nth j l 0 < nth j' l 0)).
Proof.
  induction l as [|v t IH]; intros i bi bv.
  - left. split; [reflexivity|]. cbn. intros j Hj. lia.
  - cbn [argmin_from ltb ROps]. destruct (Rltb v bv) eqn:E; rbool.
    + right. destruct (IH (S i) i v) as [[Hk Hall]|(j & Hk & Hj & Hlt & Hmin & Hfirst)].
      * exists 0%nat. rewrite Hk. split; [lia|]. split; [cbn; lia|]. split; [exact E|]. split.
        -- intros [|j'] Hj'; cbn; [lra|]. apply Hall. cbn in Hj'. lia.
        -- intros j' Hj'. lia.
      * exists (S j). rewrite Hk. split; [lia|]. split; [cbn; lia|]. cbn [nth]. split; [lra|]. split.
        -- intros [|j'] Hj'; [lra|]. apply Hmin. cbn in Hj'. lia.
        -- intros [|j'] Hj'; [lra|]. apply Hfirst. lia.
    + destruct (IH (S i) bi bv) as [[Hk Hall]|(j & Hk & Hj & Hlt & Hmin & Hfirst)].
      * left. split; [exact Hk|]. intros [|j] Hj; cbn; [lra|]. apply Hall. cbn in Hj. lia.
      * right. exists (S j). rewrite Hk. split; [lia|]. split; [cbn; lia|]. cbn [nth]. split; [lra|]. split.
        -- intros [|j'] Hj'; [lra|]. apply Hmin. cbn in Hj'. lia.
        -- intros [|j'] Hj'; [lra|]. apply Hfirst. lia.
Qed.
Lemma argmin_spec (l : list R) : l <> [] ->
  (@argmin ROps l < length l)%nat /\
  (forall j, (j < length l)%nat -> nth (@argmin ROps l) l 0 <= nth j l 0) /\
  (forall j, (j < @argmin ROps l)%nat -> nth (@argmin ROps l) l 0 < nth j l 0).
Proof.
  destruct l as [|v t]; [congruence|]. intros _. unfold argmin.
  destruct (argmin_from_spec t 1 0 v) as [[Hk Hall]|(j & Hk & Hj & Hlt & Hmin & Hfirst)]; rewrite Hk.
  - split; [cbn; lia|]. split.
    + intros [|j] Hj; cbn; [lra|]. apply Hall. cbn in Hj. lia.
    + intros j Hj. lia.
  - cbn [plus nth length]. split; [lia|]. split.
    + intros [|j'] Hj'; [lra|]. apply Hmin. cbn in Hj'. lia.
    + intros [|j'] Hj'; [lra|]. apply Hfirst. lia.
Qed.

Lemma bmin_spec_gen (border : list Rpt) : border <> [] ->
  (forall b, In b border -> border_min_radius border <= dist b (centroid border)) /\
  (exists b, In b border /\ border_min_radius border = dist b (centroid border)).
Proof.
  intros Hne. destruct border as [|b0 bt]; [congruence|].
  unfold border_min_radius. rewrite border_origin_centroid. set (c := centroid (b0 :: bt)).
  destruct (min_list_spec (map (@radius ROps c) bt) (@radius ROps c b0)) as (H1 & H2 & H3).
  split.
  - intros b [<-|Hb]; [exact H1|].
    apply H2. apply in_map_iff. exists b. split; auto.
  - destruct H3 as [H3|H3].
    + exists b0. split; [left; auto|]. rewrite <- H3. reflexivity.
    + apply in_map_iff in H3. destruct H3 as (b & Hb & Hin). exists b. split; [right; auto|].
      rewrite <- Hb. reflexivity.
Qed.

(* ================================================================= Part 1: the point-wise rule *)
Section Rule.
  Variable border : list Rpt.
  Hypothesis border_ne : border <> [].
  Let c : Rpt := centroid border.

  Lemma bmin_spec :
    (forall b, In b border -> border_min_radius border <= dist b c) /\
    (exists b, In b border /\ border_min_radius border = dist b c).
  Proof. exact (bmin_spec_gen border border_ne). Qed.
  Lemma bmin_nonneg : 0 <= border_min_radius border.
  Proof. destruct bmin_spec as (_ & b & _ & ->). apply dist_nonneg. Qed.

  (* index of the border point the model pairs with p, and that point *)
  Definition closest_index (p : Rpt) : nat := @argmin ROps (map (@dist2 ROps p) border).
  Definition closest (p : Rpt) : Rpt := nth (closest_index p) border (0, 0).

  Lemma closest_spec p :
    (closest_index p < length border)%nat /\
    nearest border p (closest p) /\
    (forall j, (j < closest_index p)%nat -> dist p (closest p) < dist p (nth j border (0, 0))).
  Proof.
    unfold closest, closest_index.
    assert (Hne : map (@dist2 ROps p) border <> []) by (destruct border; [congruence|discriminate]).
    destruct (argmin_spec _ Hne) as (Hk & Hmin & Hfirst). rewrite map_length in Hk, Hmin.
    set (k := @argmin ROps (map (@dist2 ROps p) border)) in *.
    assert (Hn : forall j, (j < length border)%nat ->
                 nth j (map (@dist2 ROps p) border) 0 = @dist2 ROps p (nth j border (0, 0))).
    { intros j Hj. rewrite (nth_indep _ 0 (@dist2 ROps p (0, 0))) by (rewrite map_length; exact Hj).
      apply map_nth. }
    split; [exact Hk|]. split; [split|].
    - apply nth_In. exact Hk.
    - intros b' Hb'. destruct (In_nth _ _ (0, 0) Hb') as (j & Hj & <-).
      apply dist_le_iff. rewrite <- (Hn k) by assumption. rewrite <- (Hn j) by assumption. apply Hmin. exact Hj.
    - intros j Hj. apply dist_lt_iff. rewrite <- (Hn k) by assumption. rewrite <- (Hn j) by (apply Nat.lt_trans with k; assumption). apply Hfirst. exact Hj.
  Qed.

  (* the model's function, case by case *)
  Lemma reloc1_cases p :
    let r := dist p c in let rb := dist (closest p) c in
    (r <= border_min_radius border /\ reloc1 border p = p) \/
    (border_min_radius border < r /\ r <= rb /\ reloc1 border p = p) \/
    (border_min_radius border < r /\ rb < r /\
     reloc1 border p = (rb / r * (fst p - fst c) + fst c, rb / r * (snd p - snd c) + snd c)).
  Proof.
    intros r rb. unfold reloc1, relocate_point. rewrite border_origin_centroid. fold c.
    cbn [ltb ROps div add mul sub]. rewrite radius_dist. fold r.
    destruct (Rltb (border_min_radius border) r) eqn:E; rbool; [|left; split; [exact E|reflexivity]].
    right. pose proof bmin_nonneg as Hb0.
    destruct (closest_spec p) as (Hk & _ & _). fold (closest_index p).
    assert (Hrb : nth (closest_index p) (map (@radius ROps c) border) (@zero ROps) = rb).
    { rewrite (nth_indep _ _ (@radius ROps c (0, 0))) by (rewrite map_length; exact Hk).
      rewrite map_nth. reflexivity. }
    rewrite Hrb. assert (Hrb0 : 0 <= rb) by apply dist_nonneg.
    change (@one ROps) with 1.
    destruct (Rltb (rb / r) 1) eqn:E2; rbool.
    - right. split; [exact E|]. split; [|reflexivity].
      apply (Rmult_lt_compat_r r) in E2; [|lra]. unfold Rdiv in E2. rewrite Rmult_assoc, Rinv_l in E2; lra.
    - left. split; [exact E|]. split; [|reflexivity].
      apply (Rmult_le_compat_r r) in E2; [|lra]. unfold Rdiv in E2. rewrite Rmult_assoc, Rinv_l in E2; lra.
  Qed.

  (* radius of a point scaled about c *)
  Lemma dist_scaled (p : Rpt) k : 0 <= k ->
    dist (k * (fst p - fst c) + fst c, k * (snd p - snd c) + snd c) c = k * dist p c.
  Proof.
    intros Hk. unfold dist. cbn [fst snd].
    replace ((k * (fst p - fst c) + fst c - fst c) * (k * (fst p - fst c) + fst c - fst c) +
             (k * (snd p - snd c) + snd c - snd c) * (k * (snd p - snd c) + snd c - snd c))
      with ((k * k) * ((fst p - fst c) * (fst p - fst c) + (snd p - snd c) * (snd p - snd c))) by ring.
    rewrite sqrt_mult_alt by nra. rewrite sqrt_square by exact Hk. reflexivity.
  Qed.

  (* 1. interior points: the very same term is returned *)
  Lemma interior_untouched p :
    (forall b, In b border -> dist p c <= dist b c) -> reloc1 border p = p.
  Proof.
    intros H. destruct bmin_spec as (_ & b & Hb & Hmin).
    destruct (reloc1_cases p) as [[_ E]|[(Hlt & _)|(Hlt & _)]]; auto; specialize (H b Hb); lra.
  Qed.

  (* 2. on the ray from the centroid, never beyond the input *)
  Lemma moved_on_ray_inward p :
    reloc1 border p = p \/
    exists k, 0 <= k < 1 /\
      reloc1 border p = (fst c + k * (fst p - fst c), snd c + k * (snd p - snd c)).
  Proof.
    destruct (reloc1_cases p) as [[_ E]|[(_ & _ & E)|(Hlt & Hrb & E)]]; auto.
    right. pose proof bmin_nonneg. pose proof (dist_nonneg (closest p) c).
    exists (dist (closest p) c / dist p c). split.
    - split.
      + apply Rmult_le_pos; [assumption|]. left. apply Rinv_0_lt_compat. lra.
      + apply (Rmult_lt_reg_r (dist p c)); [lra|]. unfold Rdiv. rewrite Rmult_assoc, Rinv_l; lra.
    - rewrite E. f_equal; ring.
  Qed.
  (* the scale factor is strictly positive unless the paired border point sits at the centroid *)
  Lemma moved_factor p :
    reloc1 border p <> p ->
    border_min_radius border < dist p c /\ dist (closest p) c < dist p c /\
    reloc1 border p = (fst c + dist (closest p) c / dist p c * (fst p - fst c),
                       snd c + dist (closest p) c / dist p c * (snd p - snd c)).
  Proof.
    intros Hne. destruct (reloc1_cases p) as [[_ E]|[(_ & _ & E)|(Hlt & Hrb & E)]]; try contradiction.
    split; [assumption|]. split; [assumption|]. rewrite E. f_equal; ring.
  Qed.

  (* 3. beyond the smallest border radius: the first nearest border point decides *)
  Lemma moved_to_nearest_border_radius p :
    border_min_radius border < dist p c ->
    nearest border p (closest p) /\
    (forall j, (j < closest_index p)%nat -> dist p (closest p) < dist p (nth j border (0, 0))) /\
    (dist (closest p) c < dist p c -> dist (reloc1 border p) c = dist (closest p) c) /\
    (dist p c <= dist (closest p) c -> reloc1 border p = p).
  Proof.
    intros Hout. destruct (closest_spec p) as (_ & Hnear & Hfirst).
    split; [exact Hnear|]. split; [exact Hfirst|].
    pose proof bmin_nonneg. pose proof (dist_nonneg (closest p) c) as Hrb0.
    destruct (reloc1_cases p) as [[Hle E]|[(_ & Hle & E)|(_ & Hrb & E)]].
    - lra.
    - split; [lra | auto].
    - split; [|lra]. intros _. rewrite E. rewrite dist_scaled.
      + field. lra.
      + apply Rmult_le_pos; [assumption|]. left. apply Rinv_0_lt_compat. lra.
  Qed.
  Lemma moved_to_unique_nearest p b :
    border_min_radius border < dist p c -> nearest border p b ->
    (forall b', nearest border p b' -> dist b' c = dist b c) ->
    (dist b c < dist p c -> dist (reloc1 border p) c = dist b c) /\
    (dist p c <= dist b c -> reloc1 border p = p).
  Proof.
    intros Hout Hb Huniq. destruct (moved_to_nearest_border_radius p Hout) as (Hn & _ & H1 & H2).
    rewrite <- (Huniq _ Hn). auto.
  Qed.

  (* 4. never outward *)
  Lemma never_outward p : dist (reloc1 border p) c <= dist p c.
  Proof.
    pose proof bmin_nonneg. pose proof (dist_nonneg (closest p) c) as Hrb0.
    destruct (reloc1_cases p) as [[_ E]|[(_ & _ & E)|(Hlt & Hrb & E)]]; try (rewrite E; lra).
    rewrite E, dist_scaled.
    - unfold Rdiv. rewrite Rmult_assoc, Rinv_l; lra.
    - apply Rmult_le_pos; [assumption|]. left. apply Rinv_0_lt_compat. lra.
  Qed.

  (* 5. bounded by the farthest border point *)
  Lemma bounded_by_max_border_radius p : exists b, In b border /\ dist (reloc1 border p) c <= dist b c.
  Proof.
    pose proof bmin_nonneg. pose proof (dist_nonneg (closest p) c) as Hrb0.
    destruct (closest_spec p) as (_ & (Hin & _) & _).
    destruct (reloc1_cases p) as [[Hle E]|[(_ & Hle & E)|(Hlt & Hrb & E)]].
    - destruct bmin_spec as (_ & b & Hb & Hmin). exists b. split; [exact Hb|]. rewrite E. lra.
    - exists (closest p). split; [exact Hin|]. rewrite E. exact Hle.
    - exists (closest p). split; [exact Hin|]. rewrite E, dist_scaled.
      + unfold Rdiv. rewrite Rmult_assoc, Rinv_l; lra.
      + apply Rmult_le_pos; [assumption|]. left. apply Rinv_0_lt_compat. lra.
  Qed.

  (* border points are fixed points of the rule *)
  Lemma border_point_fixed p : In p border -> reloc1 border p = p.
  Proof.
    intros Hp. destruct (closest_spec p) as (_ & (Hin & Hmin) & _).
    assert (Hd : dist p (closest p) = 0).
    { specialize (Hmin p Hp). pose proof (dist_nonneg p (closest p)).
      assert (dist p p = 0) by (unfold dist; rewrite !Rminus_diag_eq by reflexivity; rewrite Rmult_0_l, Rplus_0_l; apply sqrt_0).
      lra. }
    assert (Heq : closest p = p).
    { unfold dist in Hd. apply sqrt_eq_0 in Hd; [|apply Rplus_le_le_0_compat; apply Rle_0_sqr].
      change (Rsqr (fst p - fst (closest p)) + Rsqr (snd p - snd (closest p)) = 0) in Hd.
      apply Rplus_sqr_eq_0 in Hd. destruct Hd as [Hy Hx].
      destruct (closest p) as [qy qx]. destruct p as [py px]. cbn [fst snd] in Hy, Hx. f_equal; lra. }
    destruct (reloc1_cases p) as [[_ E]|[(_ & _ & E)|(_ & Hrb & _)]]; auto. rewrite Heq in Hrb. lra.
  Qed.
End Rule.

(* ================================================================= the whole array *)
Lemma relocated_grid_R grid border :
  @relocated_grid_via_jit_from ROps grid border =
  match border with [] => Raise OtherException | _ => Ok (map (reloc1 border) grid) end.
Proof. destruct border as [|b0 bt]; reflexivity. Qed.

Lemma length_and_order_preserved grid border out :
  @relocated_grid_via_jit_from ROps grid border = Ok out ->
  border <> [] /\ out = map (reloc1 border) grid /\ length out = length grid /\
  forall i d, (i < length grid)%nat -> nth i out d = reloc1 border (nth i grid d).
Proof.
  rewrite relocated_grid_R. destruct border as [|b0 bt]; [discriminate|]. intros H. injection H as <-.
  split; [discriminate|]. split; [reflexivity|]. split; [apply map_length|].
  intros i d Hi. rewrite (nth_indep _ d (reloc1 (b0 :: bt) d)) by (rewrite map_length; exact Hi). apply map_nth.
Qed.
Lemma relocation_total grid border : border <> [] ->
  @relocated_grid_via_jit_from ROps grid border = Ok (map (reloc1 border) grid).
Proof. rewrite relocated_grid_R. destruct border; [congruence|reflexivity]. Qed.
Lemma relocation_empty_border grid : @relocated_grid_via_jit_from ROps grid [] = Raise OtherException.
Proof. reflexivity. Qed.

(* ================================================================= Part 2: BorderRelocator / mapper glue *)
Lemma gather_map {A B} (f : A -> B) (l : list A) idx :
  gather (map f l) idx = match gather l idx with Ok r => Ok (map f r) | Raise e => Raise e end.
Proof.
  induction idx as [|i t IH]; cbn [gather]; [reflexivity|].
  rewrite IH. destruct (nth_error l i) as [a|] eqn:E.
  - rewrite (map_nth_error f _ _ E). destruct (gather l t); reflexivity.
  - assert (nth_error (map f l) i = None) as ->.
    { apply nth_error_None. rewrite map_length. apply nth_error_None. exact E. }
    reflexivity.
Qed.
Lemma gather_spec {A} (l : list A) d : forall idx r,
  gather l idx = Ok r -> r = map (fun k => nth k l d) idx /\ Forall (fun k => (k < length l)%nat) idx.
Proof.
  induction idx as [|i t IH]; cbn [gather]; intros r H.
  - injection H as <-. split; [reflexivity|constructor].
  - destruct (nth_error l i) as [a|] eqn:E; [|discriminate].
    destruct (gather l t) as [r'|e]; [|discriminate]. injection H as <-.
    destruct (IH r' eq_refl) as [-> HF]. split.
    + cbn [map]. f_equal. symmetry. apply nth_error_nth. exact E.
    + constructor; [|exact HF]. apply nth_error_Some. congruence.
Qed.
Lemma gather_total {A} (l : list A) idx :
  Forall (fun k => (k < length l)%nat) idx -> exists r, gather l idx = Ok r.
Proof.
  induction 1 as [|i t Hi HF [r Hr]]; [exists []; reflexivity|].
  cbn [gather]. destruct (nth_error l i) as [a|] eqn:E.
  - rewrite Hr. eexists; reflexivity.
  - apply nth_error_None in E. lia.
Qed.
Lemma gather_in {A} (l : list A) idx r : gather l idx = Ok r -> forall b, In b r -> In b l.
Proof.
  revert r. induction idx as [|i t IH]; cbn [gather]; intros r H b Hb.
  - injection H as <-. destruct Hb.
  - destruct (nth_error l i) as [a|] eqn:E; [|discriminate].
    destruct (gather l t) as [r'|e]; [|discriminate]. injection H as <-.
    destruct Hb as [<-|Hb]; [eapply nth_error_In; eauto | eapply IH; eauto].
Qed.
Lemma gather_ne {A} (l : list A) idx r : gather l idx = Ok r -> idx <> [] -> r <> [].
Proof.
  destruct idx as [|i t]; [congruence|]. cbn [gather]. intros H _.
  destruct (nth_error l i); [|discriminate]. destruct (gather l t); [|discriminate]. injection H as <-. discriminate.
Qed.

(* relocated_with: no sub-border => unchanged; otherwise the rule with the border grid[sbs] *)
Lemma relocated_with_R sbs (grid target : list Rpt) out :
  @relocated_with ROps sbs grid target = Ok out ->
  (sbs = [] /\ out = target) \/
  (sbs <> [] /\ exists border, gather grid sbs = Ok border /\ border <> [] /\
                border = map (fun k => nth k grid (0, 0)) sbs /\ out = map (reloc1 border) target).
Proof.
  unfold relocated_with. destruct sbs as [|k t]; intros H.
  - left. injection H as <-. auto.
  - right. split; [discriminate|]. set (sbs := k :: t) in *. unfold pt in H. cbn [T ROps] in H.
    destruct (gather grid sbs) as [border|e] eqn:G; [|discriminate].
    assert (Hne : border <> []) by (eapply gather_ne; [exact G | unfold sbs; discriminate]).
    rewrite relocation_total in H by exact Hne. injection H as <-.
    exists border. split; [reflexivity|]. split; [exact Hne|]. split; [|reflexivity].
    apply (gather_spec grid (0, 0) _ _ G).
Qed.

Lemma relocated_grid_is_mesh_on_itself m ss (grid : list Rpt) :
  @relocated_grid_from ROps m ss grid = @relocated_mesh_grid_from ROps m ss grid grid.
Proof. reflexivity. Qed.

Lemma mesh_uses_data_border m ss (grid mesh out : list Rpt) :
  @relocated_mesh_grid_from ROps m ss grid mesh = Ok out ->
  exists sbs, @sub_border_pixel_slim_indexes_from ROps m ss = Ok sbs /\
   ((sbs = [] /\ out = mesh) \/
    (sbs <> [] /\ exists border, gather grid sbs = Ok border /\ border <> [] /\
                  border = map (fun k => nth k grid (0, 0)) sbs /\ out = map (reloc1 border) mesh)).
Proof.
  unfold relocated_mesh_grid_from.
  destruct (@sub_border_pixel_slim_indexes_from ROps m ss) as [sbs|e]; [|discriminate].
  intros H. exists sbs. split; [reflexivity|]. apply relocated_with_R. exact H.
Qed.

(* mapper_grids_from: data grid relocated against its own border points; the mesh against the border
   points of the DATA grid (the relocated data grid has the same border points: they are fixed) *)
Lemma mapper_uses_data_border m ss (data mesh d' v' : list Rpt) :
  @mapper_grids_from ROps (Some (m, ss)) data mesh = Ok (d', v') ->
  exists sbs, @sub_border_pixel_slim_indexes_from ROps m ss = Ok sbs /\
   ((sbs = [] /\ d' = data /\ v' = mesh) \/
    (sbs <> [] /\ exists border, gather data sbs = Ok border /\ border <> [] /\
                  border = map (fun k => nth k data (0, 0)) sbs /\
                  d' = map (reloc1 border) data /\ v' = map (reloc1 border) mesh)).
Proof.
  unfold mapper_grids_from.
  destruct (@relocated_grid_from ROps m ss data) as [d1|e] eqn:E1; [|discriminate].
  destruct (@relocated_mesh_grid_from ROps m ss d1 mesh) as [v1|e] eqn:E2; [|discriminate].
  intros H. injection H as <- <-.
  rewrite relocated_grid_is_mesh_on_itself in E1.
  destruct (mesh_uses_data_border _ _ _ _ _ E1) as (sbs & Hs & H1).
  destruct (mesh_uses_data_border _ _ _ _ _ E2) as (sbs' & Hs' & H2).
  rewrite Hs in Hs'. injection Hs' as <-. exists sbs. split; [exact Hs|].
  destruct H1 as [(-> & ->)|(Hne & border & G & Hbne & Hb & ->)].
  - left. destruct H2 as [(_ & ->)|(Hne & _)]; [auto|congruence].
  - right. split; [exact Hne|]. exists border. split; [exact G|]. split; [exact Hbne|]. split; [exact Hb|].
    split; [reflexivity|].
    destruct H2 as [(-> & _)|(_ & border' & G' & _ & _ & ->)]; [congruence|].
    rewrite gather_map, G in G'. injection G' as <-.
    rewrite (map_ext_in (reloc1 border) (fun p => p)), map_id; [reflexivity|].
    intros p Hp. apply border_point_fixed; assumption.
Qed.
Lemma mapper_without_relocator (data mesh : list Rpt) :
  @mapper_grids_from ROps None data mesh = Ok (data, mesh).
Proof. reflexivity. Qed.

(* ================================================================= Part 3: the farthest sub-pixel *)
(* squared distance of grid point k from the coordinate, as the code writes it *)
Definition d2c (g : list Rpt) (cc : Rpt) (k : nat) : R :=
  (snd (nth k g (0, 0)) - snd cc) * (snd (nth k g (0, 0)) - snd cc) +
  (fst (nth k g (0, 0)) - fst cc) * (fst (nth k g (0, 0)) - fst cc).
Lemma d2c_nonneg g cc k : 0 <= d2c g cc k.
Proof. unfold d2c. apply Rplus_le_le_0_compat; apply Rle_0_sqr. Qed.
Lemma d2c_dist g cc k : dist (nth k g (0, 0)) cc = sqrt (d2c g cc k).
Proof. unfold dist, d2c. f_equal. ring. Qed.

Lemma furthest_step_R g cc (st : R * option nat) k :
  @furthest_step ROps g cc st k = if Rleb (fst st) (d2c g cc k) then (d2c g cc k, Some k) else st.
Proof. reflexivity. Qed.

Lemma furthest_fold g cc : forall idx (st : R * option nat),
  (fold_left (@furthest_step ROps g cc) idx st = st /\ forall k, In k idx -> d2c g cc k < fst st) \/
  (exists l1 k l2, idx = l1 ++ k :: l2 /\
      fold_left (@furthest_step ROps g cc) idx st = (d2c g cc k, Some k) /\ fst st <= d2c g cc k /\
      (forall k', In k' l1 -> d2c g cc k' <= d2c g cc k) /\ (forall k', In k' l2 -> d2c g cc k' < d2c g cc k)).
Proof.
  induction idx as [|a t IH]; intros st.
  - left. split; [reflexivity|]. intros k [].
  - cbn [fold_left]. rewrite furthest_step_R. destruct (Rleb (fst st) (d2c g cc a)) eqn:E; rbool.
    + right. destruct (IH (d2c g cc a, Some a)) as [[Hr Hall]|(l1 & k & l2 & Ht & Hr & Hge & H1 & H2)].
      * exists [], a, t. cbn [fst] in *. split; [reflexivity|]. split; [exact Hr|]. split; [exact E|].
        split; [intros k' []|exact Hall].
      * exists (a :: l1), k, l2. cbn [fst] in *. split; [rewrite Ht; reflexivity|]. split; [exact Hr|].
        split; [lra|]. split; [|exact H2]. intros k' [<-|Hk']; [lra|auto].
    + destruct (IH st) as [[Hr Hall]|(l1 & k & l2 & Ht & Hr & Hge & H1 & H2)].
      * left. split; [exact Hr|]. intros k [<-|Hk]; [lra|auto].
      * right. exists (a :: l1), k, l2. split; [rewrite Ht; reflexivity|]. split; [exact Hr|].
        split; [lra|]. split; [|exact H2]. intros k' [<-|Hk']; [lra|auto].
Qed.

(* the returned index is the LAST maximiser of the distance among the given indexes *)
Lemma furthest_spec g idx cc k :
  @furthest_grid_2d_slim_index_from ROps g idx cc = Some k ->
  exists l1 l2, idx = l1 ++ k :: l2 /\
    (forall k', In k' l1 -> dist (nth k' g (0, 0)) cc <= dist (nth k g (0, 0)) cc) /\
    (forall k', In k' l2 -> dist (nth k' g (0, 0)) cc < dist (nth k g (0, 0)) cc).
Proof.
  unfold furthest_grid_2d_slim_index_from.
  destruct (furthest_fold g cc idx (@zero ROps, None)) as [[Hr _]|(l1 & k0 & l2 & Ht & Hr & _ & H1 & H2)];
    rewrite Hr; cbn [snd]; intros H; [discriminate|]. injection H as <-.
  exists l1, l2. split; [exact Ht|]. split; intros k' Hk'; rewrite !d2c_dist.
  - apply sqrt_le_1_alt. auto.
  - apply sqrt_lt_1_alt. split; [apply d2c_nonneg | auto].
Qed.
Lemma furthest_in_and_max g idx cc k :
  @furthest_grid_2d_slim_index_from ROps g idx cc = Some k ->
  In k idx /\ forall k', In k' idx -> dist (nth k' g (0, 0)) cc <= dist (nth k g (0, 0)) cc.
Proof.
  intros H. destruct (furthest_spec _ _ _ _ H) as (l1 & l2 & -> & H1 & H2). split.
  - apply in_or_app. right. left. reflexivity.
  - intros k' Hk'. apply in_app_or in Hk'. destruct Hk' as [Hk'|[<-|Hk']]; [auto|lra|]. left. auto.
Qed.
(* the loop variable stays unbound exactly for an empty index list *)
Lemma furthest_none_iff g idx cc : @furthest_grid_2d_slim_index_from ROps g idx cc = None <-> idx = [].
Proof.
  unfold furthest_grid_2d_slim_index_from. split.
  - destruct (furthest_fold g cc idx (@zero ROps, None)) as [[Hr Hall]|(l1 & k0 & l2 & Ht & Hr & _)];
      rewrite Hr; cbn [snd]; intros H; [|discriminate].
    destruct idx as [|a t]; [reflexivity|]. specialize (Hall a (or_introl eq_refl)).
    pose proof (d2c_nonneg g cc a). change (fst (@zero ROps, @None nat)) with 0 in Hall. lra.
  - intros ->. reflexivity.
Qed.

(* grid_2d_centre_from: the centre of the bounding box *)
Definition is_max (l : list R) (v : R) : Prop := In v l /\ forall x, In x l -> x <= v.
Definition is_min (l : list R) (v : R) : Prop := In v l /\ forall x, In x l -> v <= x.
Definition bbox_centre_of (g : list Rpt) (cc : Rpt) : Prop :=
  exists ymax ymin xmax xmin,
    is_max (map fst g) ymax /\ is_min (map fst g) ymin /\ is_max (map snd g) xmax /\ is_min (map snd g) xmin /\
    cc = ((ymax + ymin) / 2, (xmax + xmin) / 2).
Lemma max_list_is_max (h : R) t : is_max (h :: t) (@max_list ROps h t).
Proof.
  destruct (max_list_spec t h) as (H1 & H2 & H3). split; [exact H3|]. intros x [<-|Hx]; auto.
Qed.
Lemma min_list_is_min (h : R) t : is_min (h :: t) (@min_list ROps h t).
Proof.
  destruct (min_list_spec t h) as (H1 & H2 & H3). split; [exact H3|]. intros x [<-|Hx]; auto.
Qed.
Lemma centre_spec (g : list Rpt) cc : @grid_2d_centre_from ROps g = Ok cc -> bbox_centre_of g cc.
Proof.
  destruct g as [|p t]; [discriminate|]. unfold grid_2d_centre_from. intros H. injection H as <-.
  exists (@max_list ROps (fst p) (map fst t)), (@min_list ROps (fst p) (map fst t)),
         (@max_list ROps (snd p) (map snd t)), (@min_list ROps (snd p) (map snd t)).
  cbn [map]. split; [apply max_list_is_max|]. split; [apply min_list_is_min|].
  split; [apply max_list_is_max|]. split; [apply min_list_is_min|]. reflexivity.
Qed.
Lemma centre_total (g : list Rpt) : g <> [] -> exists cc, @grid_2d_centre_from ROps g = Ok cc.
Proof. destruct g; [congruence|]. intros _. eexists. reflexivity. Qed.

Lemma all_some_spec {A} (l : list (option A)) : forall out,
  all_some l = Ok out -> Forall2 (fun o k => o = Some k) l out.
Proof.
  induction l as [|[a|] t IH]; cbn [all_some]; intros out H.
  - injection H as <-. constructor.
  - destruct (all_some t) as [r|e]; [|discriminate]. injection H as <-. constructor; auto.
  - discriminate.
Qed.
Lemma Forall2_map_l {A B C} (f : A -> B) (P : B -> C -> Prop) l l' :
  Forall2 P (map f l) l' <-> Forall2 (fun a c => P (f a) c) l l'.
Proof.
  revert l'. induction l as [|a t IH]; intros l'; cbn [map]; split; intros H; inversion H; subst; constructor; auto;
    apply IH; assumption.
Qed.

Lemma Forall2_imp {A B} (P Q : A -> B -> Prop) l l' :
  (forall a b, P a b -> Q a b) -> Forall2 P l l' -> Forall2 Q l l'.
Proof. intros H. induction 1; constructor; auto. Qed.

(* the pixel-unit block of sub-pixel indexes of slim pixel [i] *)
Definition block (m : mask) (ss : list nat) (i : nat) : list nat := nth i (sub_slim_indexes_for_slim_index m ss) [].

Lemma sub_border_is_farthest_subpixel m ss out :
  @sub_border_pixel_slim_indexes_from ROps m ss = Ok out ->
  exists cc, bbox_centre_of (@unit_grid ROps m ss) cc /\
    Forall2 (fun bp k =>
       exists l1 l2, block m ss bp = l1 ++ k :: l2 /\
         (forall k', In k' l1 -> dist (nth k' (@unit_grid ROps m ss) (0, 0)) cc <= dist (nth k (@unit_grid ROps m ss) (0, 0)) cc) /\
         (forall k', In k' l2 -> dist (nth k' (@unit_grid ROps m ss) (0, 0)) cc < dist (nth k (@unit_grid ROps m ss) (0, 0)) cc))
      (border_slim_indexes_from m) out.
Proof.
  unfold sub_border_pixel_slim_indexes_from.
  destruct (@grid_2d_centre_from ROps (@unit_grid ROps m ss)) as [cc|e] eqn:Ec; [|discriminate].
  intros H. exists cc. split; [apply centre_spec; exact Ec|].
  apply all_some_spec in H. apply Forall2_map_l in H.
  eapply Forall2_imp; [|exact H]. intros bp k Hk. apply furthest_spec. exact Hk.
Qed.
Lemma sub_border_in_block_and_farthest m ss out :
  @sub_border_pixel_slim_indexes_from ROps m ss = Ok out ->
  exists cc, bbox_centre_of (@unit_grid ROps m ss) cc /\
    Forall2 (fun bp k => In k (block m ss bp) /\
       forall k', In k' (block m ss bp) ->
         dist (nth k' (@unit_grid ROps m ss) (0, 0)) cc <= dist (nth k (@unit_grid ROps m ss) (0, 0)) cc)
      (border_slim_indexes_from m) out.
Proof.
  unfold sub_border_pixel_slim_indexes_from.
  destruct (@grid_2d_centre_from ROps (@unit_grid ROps m ss)) as [cc|e] eqn:Ec; [|discriminate].
  intros H. exists cc. split; [apply centre_spec; exact Ec|].
  apply all_some_spec in H. apply Forall2_map_l in H.
  eapply Forall2_imp; [|exact H]. intros bp k Hk. apply furthest_in_and_max. exact Hk.
Qed.

(* ================================================================= non-vacuity witnesses *)
Definition border4 : list Rpt := [(1, 0); (-1, 0); (0, 1); (0, -1)].
Lemma border4_centroid : centroid border4 = (0, 0).
Proof. unfold centroid, border4. cbn [map fst snd sumR length INR]. f_equal; field. Qed.
Lemma border4_radius b : In b border4 -> dist b (centroid border4) = 1.
Proof.
  rewrite border4_centroid. unfold border4, dist.
  intros [<-|[<-|[<-|[<-|[]]]]]; cbn [fst snd];
    match goal with |- sqrt ?x = 1 => replace x with (1 * 1) by ring end; apply sqrt_square; lra.
Qed.
Lemma border4_ne : border4 <> [].
Proof. discriminate. Qed.
Lemma border4_bmin : border_min_radius border4 = 1.
Proof. destruct (bmin_spec border4 border4_ne) as (_ & b & Hb & ->). apply border4_radius. exact Hb. Qed.
Lemma dist_30 : dist (3, 0) (centroid border4) = 3.
Proof.
  rewrite border4_centroid. unfold dist. cbn [fst snd].
  replace ((3 - 0) * (3 - 0) + (0 - 0) * (0 - 0)) with (3 * 3) by ring. apply sqrt_square. lra.
Qed.
(* an outlier at radius 3 is brought to radius 1 (so it is really moved), an interior point is kept *)
Lemma example_outlier :
  border4 <> [] /\ border_min_radius border4 < dist (3, 0) (centroid border4) /\
  dist (3, 0) (centroid border4) = 3 /\ dist (reloc1 border4 (3, 0)) (centroid border4) = 1.
Proof.
  split; [exact border4_ne|]. rewrite border4_bmin, dist_30. split; [lra|]. split; [reflexivity|].
  assert (Hout : border_min_radius border4 < dist (3, 0) (centroid border4)) by (rewrite border4_bmin, dist_30; lra).
  destruct (moved_to_nearest_border_radius border4 border4_ne (3, 0) Hout) as ((Hin & _) & _ & Hmove & _).
  pose proof (border4_radius _ Hin) as Hr. rewrite Hmove; [exact Hr|]. rewrite Hr, dist_30. lra.
Qed.
Lemma example_interior :
  (forall b, In b border4 -> dist (1 / 2, 0) (centroid border4) <= dist b (centroid border4)) /\
  reloc1 border4 (1 / 2, 0) = (1 / 2, 0).
Proof.
  assert (H : forall b, In b border4 -> dist (1 / 2, 0) (centroid border4) <= dist b (centroid border4)).
  { intros b Hb. rewrite (border4_radius b Hb), border4_centroid. unfold dist. cbn [fst snd].
    replace ((1 / 2 - 0) * (1 / 2 - 0) + (0 - 0) * (0 - 0)) with ((1 / 2) * (1 / 2)) by field.
    rewrite sqrt_square; lra. }
  split; [exact H|]. apply interior_untouched; [exact border4_ne | exact H].
Qed.
(* a point whose unique nearest border point is (1,0) *)
Lemma example_gather : gather [(3, 0); (1, 0); (0, 1)] [1%nat; 2%nat] = Ok [(1, 0); (0, 1)].
Proof. reflexivity. Qed.

(* the one-pixel mask with sub-size 1: the only sub-pixel is selected *)
Lemma example_sub_border : @sub_border_pixel_slim_indexes_from ROps [[false]] [1%nat] = Ok [0%nat].
Proof.
  unfold sub_border_pixel_slim_indexes_from.
  change (border_slim_indexes_from [[false]]) with [0%nat].
  change (sub_slim_indexes_for_slim_index [[false]] [1%nat]) with [[0%nat]].
  assert (Hg : exists p, @unit_grid ROps [[false]] [1%nat] = [p]) by (eexists; reflexivity).
  destruct Hg as [p Hg]. rewrite Hg.
  cbn [grid_2d_centre_from map nth all_some]. unfold furthest_grid_2d_slim_index_from. cbn [fold_left].
  rewrite furthest_step_R. cbn [fst].
  match goal with |- context [Rleb ?a ?b] => destruct (Rleb a b) eqn:E end; rbool; [reflexivity|].
  exfalso. match type of E with d2c ?g ?c ?k < _ => pose proof (d2c_nonneg g c k) end.
  change (@zero ROps) with 0 in E. lra.
Qed.
