(* C07 -- regularization matrices.  Executable model of
     autoarray/inversion/regularization/regularization_util.py
       zeroth_regularization_matrix_from, constant_regularization_matrix_from,
       constant_zeroth_regularization_matrix_from, adaptive_regularization_weights_from,
       brightness_zeroth_regularization_weights_from, weighted_regularization_matrix_from,
       brightness_zeroth_regularization_matrix_from, reg_split_from,
       pixel_splitted_regularization_matrix_from
     the scheme classes Constant, ConstantZeroth, Zeroth, AdaptiveBrightness, BrightnessZeroth,
       ConstantSplit, AdaptiveBrightnessSplit (regularization_weights_from / regularization_matrix_from)
     LinearObj.regularization_matrix (None -> zero block) and
     AbstractInversion.regularization_matrix / regularization_matrix_reduced / no_regularization_index_list
       (scipy.linalg.block_diag and numpy.delete are modelled by their contract).
   Every routine keeps the code's shape: the loops become lists of (row, column, value) updates in
   the code's order, applied by [mscatter] (M[i, j] += v) to the zero matrix; the ridge 1e-8 is the
   parameter [eps].  The specification side is the quadratic form of the property text.  No proofs here. *)
From Coq Require Import ZArith List Bool QArith Qabs.
From PAV Require Import Base.Res Base.Check Base.NumOps Base.Sum.
Import ListNotations.

Definition indexed {A} (l : list A) : list (nat * A) := combine (seq 0 (length l)) l.

(* numpy indexing of an axis of length n by a (possibly negative) integer *)
Definition pyidx (n : nat) (z : Z) : option nat :=
  if ((0 <=? z) && (z <? Z.of_nat n))%Z then Some (Z.to_nat z)
  else if ((z <? 0) && (- Z.of_nat n <=? z))%Z then Some (Z.to_nat (z + Z.of_nat n))
  else None.
Fixpoint all_some {A} (l : list (option A)) : option (list A) :=
  match l with
  | [] => Some []
  | None :: _ => None
  | Some a :: t => match all_some t with Some r => Some (a :: r) | None => None end
  end.
(* neighbors[i, j] for j in range(sizes[i]), as indexes into an axis of length n *)
Definition prep_row (n : nat) (row : list Z) (size : nat) : option (list nat) :=
  if (length row <? size)%nat then None else all_some (map (pyidx n) (firstn size row)).
Definition prep_nb (n : nat) (nbz : list (list Z)) (sizes : list nat) : res (list (list nat)) :=
  if negb (Nat.eqb (length nbz) (length sizes)) then Raise IndexError else
  match all_some (map (fun rs => prep_row n (fst rs) (snd rs)) (combine nbz sizes)) with
  | Some nb => Ok nb
  | None => Raise IndexError
  end.

(* ---------------- mesh_util.rectangular_neighbors_from: the six region loops as sequential row writes ----------------
   neighbors[p, 0:k] = [...]; neighbors_sizes[p] = k  becomes  rows[p] := [...]  (later writes win); values over Z
   because the index arithmetic (W - 2, pixels - 2W ...) leaves the range for degenerate shapes *)
Definition rect_write (rows : list (list Z)) (pv : Z * list Z) : list (list Z) := upd_set rows (Z.to_nat (fst pv)) (snd pv).
Definition rect_writes (H W : nat) : list (Z * list Z) :=
  let h := Z.of_nat H in let w := Z.of_nat W in let pixels := (h * w)%Z in
  (* corners *)
  [ (0, [1; w]); (w - 1, [w - 2; w + w - 1]); (pixels - w, [pixels - w * 2; pixels - w + 1]);
    (pixels - 1, [pixels - w - 1; pixels - 2]) ]%Z
  (* top edge: for pix in range(1, W - 1) *)
  ++ map (fun pix => let p := Z.of_nat pix in (p, [p - 1; p + 1; p + w]))%Z (seq 1 (W - 2))
  (* left edge: for pix in range(1, H - 1) *)
  ++ map (fun pix => let p := (Z.of_nat pix * w)%Z in (p, [p - w; p + 1; p + w]))%Z (seq 1 (H - 2))
  (* right edge *)
  ++ map (fun pix => let p := (Z.of_nat pix * w + w - 1)%Z in (p, [p - w; p - 1; p + w]))%Z (seq 1 (H - 2))
  (* bottom edge: for pix in range(1, W - 1): pixel_index = pixels - pix - 1 *)
  ++ map (fun pix => let p := (pixels - Z.of_nat pix - 1)%Z in (p, [p - w; p - 1; p + 1]))%Z (seq 1 (W - 2))
  (* central: for x in range(1, H - 1): for y in range(1, W - 1) *)
  ++ flat_map (fun x => map (fun y => let p := (Z.of_nat x * w + Z.of_nat y)%Z in (p, [p - w; p - 1; p + 1; p + w]))%Z (seq 1 (W - 2)))
              (seq 1 (H - 2)).
Definition rect_neighbors (H W : nat) : list (list Z) := fold_left rect_write (rect_writes H W) (repeat [] (H * W)).
(* specification: the 4-neighbourhood of pixel p = r * W + c on an H x W grid, in the order up, left, right, down *)
Definition grid_neighbors (H W p : nat) : list nat :=
  let r := (p / W)%nat in let c := (p mod W)%nat in
  (if (0 <? r)%nat then [(p - W)%nat] else []) ++ (if (0 <? c)%nat then [(p - 1)%nat] else [])
  ++ (if (c + 1 <? W)%nat then [(p + 1)%nat] else []) ++ (if (r + 1 <? H)%nat then [(p + W)%nat] else []).
Definition grid_rows (H W : nat) : list (list nat) := map (grid_neighbors H W) (seq 0 (H * W)).

(* ---------------- Mesh2DDelaunay.neighbors ----------------
     indptr, indices = self.delaunay.vertex_neighbor_vertices
     sizes = indptr[1:] - indptr[:-1]
     neighbors = -1 * ones((parameters, max(sizes)));  for k: neighbors[k][0:sizes[k]] = indices[indptr[k]:indptr[k+1]]
   scipy's contract for vertex_neighbor_vertices ("the indices of neighbouring vertices of vertex k are
   indices[indptr[k]:indptr[k+1]]"): the slice of k lists, once each, the vertices that share a simplex with k. *)
Definition vslice (indices : list nat) (a b : nat) : list nat := firstn (b - a) (skipn a indices).
Definition del_sizes (indptr : list nat) : list nat := map (fun ab => (snd ab - fst ab)%nat) (combine indptr (tl indptr)).
Definition del_rows (params : nat) (indptr indices : list nat) : list (list nat) :=
  map (fun k => vslice indices (nth k indptr 0%nat) (nth (S k) indptr 0%nat)) (seq 0 params).
Definition del_neighbors (params : nat) (indptr indices : list nat) : list (list Z) * list nat :=
  let sizes := del_sizes indptr in
  let w := fold_right Nat.max 0%nat sizes in
  (map (fun r => map Z.of_nat r ++ repeat (-1)%Z (w - length r)) (del_rows params indptr indices), sizes).
(* specification: the edges of the triangulation *)
Definition memb (i : nat) (l : list nat) : bool := existsb (Nat.eqb i) l.
Definition adjb (simplices : list (list nat)) (i j : nat) : bool :=
  negb (Nat.eqb i j) && existsb (fun s => memb i s && memb j s) simplices.
Fixpoint nodupn (l : list nat) : bool :=
  match l with [] => true | a :: t => negb (memb a t) && nodupn t end.
Fixpoint nondecreasing (l : list nat) : bool :=
  match l with a :: ((b :: _) as t) => (a <=? b)%nat && nondecreasing t | _ => true end.
(* the contract of scipy.spatial.Delaunay.vertex_neighbor_vertices for n points with the given simplices *)
Definition vnv_ok (n : nat) (simplices : list (list nat)) (indptr indices : list nat) : bool :=
  Nat.eqb (length indptr) (S n) && nondecreasing indptr && (last indptr 0 <=? length indices)%nat
  && forallb (forallb (fun v => (v <? n)%nat)) simplices
  && forallb (fun k => let row := vslice indices (nth k indptr 0%nat) (nth (S k) indptr 0%nat) in
                       nodupn row && forallb (fun j => adjb simplices k j) row
                       && forallb (fun j => implb (adjb simplices k j) (memb j row)) (seq 0 n)) (seq 0 n).

Section Model.
  Context {O : NumOps}.
  Notation T := (T O).
  Definition mat := list (list T).
  Definition entry := (nat * nat * T)%type.

  (* M[i, j] += v *)
  Fixpoint madd (M : mat) (i j : nat) (v : T) : mat :=
    match M, i with
    | [], _ => []
    | r :: t, 0%nat => upd_add r j v :: t
    | r :: t, S i' => r :: madd t i' j v
    end.
  Definition mscatter (es : list entry) (M : mat) : mat :=
    fold_left (fun acc e => madd acc (fst (fst e)) (snd (fst e)) (snd e)) es M.
  Definition mzeros (n m : nat) : mat := repeat (zeros m) n.
  Definition mget (M : mat) (i j : nat) : T := nthT (nth i M []) j.
  Definition build (n : nat) (es : list entry) : mat := mscatter es (mzeros n n).

  (* ---------------- zeroth_regularization_matrix_from ---------------- *)
  Definition zeroth_entries (c : T) (n : nat) : list entry := map (fun i => (i, i, sq c)) (seq 0 n).
  Definition zeroth_matrix (c : T) (n : nat) : mat := build n (zeroth_entries c n).

  (* ---------------- constant_regularization_matrix_from ----------------
     for i: M[i,i] += 1e-8; for j in range(sizes[i]): k = neighbors[i,j]; M[i,i] += c2; M[i,k] -= c2 *)
  Definition const_row (c2 : T) (i : nat) (row : list nat) : list entry :=
    flat_map (fun k => [(i, i, c2); (i, k, opp O c2)]) row.
  Definition constant_entries (eps c : T) (nb : list (list nat)) : list entry :=
    flat_map (fun ir => (fst ir, fst ir, eps) :: const_row (sq c) (fst ir) (snd ir)) (indexed nb).
  Definition constant_matrix (eps c : T) (nb : list (list nat)) : mat :=
    build (length nb) (constant_entries eps c nb).

  (* ---------------- constant_zeroth_regularization_matrix_from ---------------- *)
  Definition constant_zeroth_entries (eps c cz : T) (nb : list (list nat)) : list entry :=
    flat_map (fun ir => (fst ir, fst ir, eps) :: (fst ir, fst ir, sq cz) :: const_row (sq c) (fst ir) (snd ir))
             (indexed nb).
  Definition constant_zeroth_matrix (eps c cz : T) (nb : list (list nat)) : mat :=
    build (length nb) (constant_zeroth_entries eps c cz nb).

  (* ---------------- the weights the schemes report ---------------- *)
  Definition constant_weights (c : T) (n : nat) : list T := repeat (mul O c one) n.     (* c * np.ones(params) *)
  Definition adaptive_weights (inner outer : T) (signals : list T) : list T :=
    map (fun s => sq (add O (mul O inner s) (mul O outer (sub O one s)))) signals.
  Definition brightness_zeroth_weights (c : T) (signals : list T) : list T :=
    map (fun s => mul O c (sub O one s)) signals.

  (* ---------------- weighted_regularization_matrix_from ----------------
     rw = weights**2; for i: M[i,i] += 1e-8; for k in neighbors of i:
        M[i,i] += rw[k]; M[k,k] += rw[k]; M[i,k] -= rw[k]; M[k,i] -= rw[k] *)
  Definition weighted_row (rw : list T) (i : nat) (row : list nat) : list entry :=
    flat_map (fun k => let r := nthT rw k in [(i, i, r); (k, k, r); (i, k, opp O r); (k, i, opp O r)]) row.
  Definition weighted_entries (eps : T) (w : list T) (nb : list (list nat)) : list entry :=
    let rw := map sq w in
    flat_map (fun ir => (fst ir, fst ir, eps) :: weighted_row rw (fst ir) (snd ir))
             (combine (seq 0 (length w)) nb).
  Definition weighted_matrix (eps : T) (w : list T) (nb : list (list nat)) : mat :=
    build (length w) (weighted_entries eps w nb).

  (* ---------------- brightness_zeroth_regularization_matrix_from ---------------- *)
  Definition bz_entries (w : list T) : list entry := map (fun iw => (fst iw, fst iw, sq (snd iw))) (indexed w).
  Definition bz_matrix (w : list T) : mat := build (length w) (bz_entries w).

  (* ---------------- reg_split_from, one row ----------------
     weights *= -1; for j in range(size): if mappings[j] == pixel_index: weights[j] += 1; flag = 1
                                           if j >= max_j: raise MeshException
     if flag == 0: mappings[j+1] = pixel_index; size += 1; weights[j+1] = 1      (j+1 = size, size >= 1) *)
  Definition split_row := (list Z * nat * list T)%type.
  Definition reg_split_row (pixel_index : Z) (max_j : nat) (r : split_row) : res split_row :=
    let '(mp, size, w) := r in
    let w1 := map (opp O) w in
    let st := fold_left (fun (st : list T * bool) j =>
                 if (nth j mp (-1) =? pixel_index)%Z then (upd_add (fst st) j one, true) else st)
              (seq 0 size) (w1, false) in
    if Nat.eqb size 0 then Raise UnboundLocalError        (* first row: j unbound; later rows: stale j -- never generated *)
    else if (max_j <? size)%nat then Raise OtherException (* MeshException *)
    else if snd st then Ok (mp, size, fst st)
    else Ok (upd_set mp size pixel_index, S size, upd_set (fst st) size one).
  Fixpoint res_all {A} (l : list (res A)) : res (list A) :=
    match l with
    | [] => Ok []
    | Raise e :: _ => Raise e
    | Ok a :: t => match res_all t with Ok r => Ok (a :: r) | Raise e => Raise e end
    end.
  Definition reg_split (width : nat) (rows : list split_row) : res (list split_row) :=
    res_all (map (fun ir => reg_split_row (Z.of_nat (fst ir / 4)) (width - 1) (snd ir)) (indexed rows)).

  (* ---------------- pixel_splitted_regularization_matrix_from ----------------
     a prepared row is the list of (mapping[l], weight[l]) for l < size *)
  Fixpoint split_row_entries (rwi : T) (row : list (nat * T)) : list entry :=
    match row with
    | [] => []
    | (a, wa) :: t =>
        flat_map (fun bw => let v := mul O (mul O wa (snd bw)) rwi in [(a, fst bw, v); (fst bw, a, v)]) ((a, wa) :: t)
        ++ split_row_entries rwi t
    end.
  Definition split_entries (eps2 : T) (w : list T) (prows : list (list (nat * T))) : list entry :=
    let rw := map sq w in
    flat_map (fun i => (i, i, eps2) ::
                flat_map (fun j => split_row_entries (nthT rw i) (nth (i * 4 + j) prows [])) (seq 0 4))
             (seq 0 (length prows / 4)).
  (* for i in range(parameters): M[i, i] /= 2.0 *)
  Fixpoint upd_div (l : list T) (i : nat) (d : T) : list T :=
    match l, i with
    | [], _ => []
    | x :: t, 0%nat => div O x d :: t
    | x :: t, S j => x :: upd_div t j d
    end.
  Fixpoint halve_diag_from (i : nat) (M : mat) : mat :=
    match M with [] => [] | r :: t => upd_div r i two :: halve_diag_from (S i) t end.
  Definition split_matrix_prepared (eps : T) (w : list T) (prows : list (list (nat * T))) : mat :=
    halve_diag_from 0 (build (length prows / 4) (split_entries (add O eps eps) w prows)).

  Definition prep_split_row (n : nat) (r : split_row) : option (list (nat * T)) :=
    let '(mp, size, w) := r in
    if (length w <? size)%nat then None else
    match prep_row n mp size with
    | Some idx => Some (combine idx (firstn size w))
    | None => None
    end.
  Definition split_matrix (eps : T) (w : list T) (rows : list split_row) : res mat :=
    match all_some (map (prep_split_row (length rows / 4)) rows) with
    | Some prows => Ok (split_matrix_prepared eps w prows)
    | None => Raise IndexError
    end.

  (* ---------------- gauss_cov_matrix_from / exp_cov_matrix_from ----------------
     for i: C[i,i] += 1e-8; for j: d_ij = sqrt((xi-xj)^2 + (yi-yj)^2); C[i,j] += exp(...)   (points are (y, x) pairs)
     [kern] is the profile as a function of the SQUARED distance: exp(-sqrt(d2)^2 / (2 s^2)) resp. exp(-sqrt(d2) / s) *)
  Definition dist2 (p q : T * T) : T := add O (sq (sub O (snd p) (snd q))) (sq (sub O (fst p) (fst q))).
  Definition cov_entries (eps : T) (kern : T -> T) (pts : list (T * T)) : list entry :=
    flat_map (fun ip => (fst ip, fst ip, eps) :: map (fun jq => (fst ip, fst jq, kern (dist2 (snd ip) (snd jq)))) (indexed pts))
             (indexed pts).
  Definition cov_matrix (eps : T) (kern : T -> T) (pts : list (T * T)) : mat := build (length pts) (cov_entries eps kern pts).
  (* coefficient * numpy.linalg.inv(covariance): the inverse is an oracle, given by its contract  C K = I *)
  Definition scale_matrix (c : T) (K : mat) : mat := map (map (mul O c)) K.
  Definition mat_vec (M : mat) (x : list T) : list T := map (fun r => dot r x) M.

  (* ---------------- mapper_util.adaptive_pixel_signals_from ----------------
     pixel_signals = zeros(pixels); pixel_sizes = zeros(pixels)
     for sub: vi = pix_indexes[sub]; d = adapt_data[slim[sub]]; size = pix_size[sub]
        if size > 1: pixel_signals[vi[:size]] += d * pixel_weights[sub]; pixel_sizes[vi] += 1
        else:        pixel_signals[vi[0]] += d;                           pixel_sizes[vi[0]] += 1
     pixel_sizes[pixel_sizes == 0] = 1; pixel_signals /= pixel_sizes; pixel_signals /= max(pixel_signals)
     return pixel_signals ** signal_scale
     numpy's  a[idx] += v  with an index ARRAY is  a[idx] = a[idx] + v : every read sees the old array, the writes
     happen in order (the last one wins on a repeated index) -- [fancy_add]; with a scalar index it is [upd_add]. *)
  Definition fancy_add (a : list T) (ivs : list (nat * T)) : list T :=
    fold_left (fun acc iv => upd_set acc (fst iv) (add O (nthT a (fst iv)) (snd iv))) ivs a.
  Definition sig_row := (list Z * nat * list T * nat)%type.   (* pix_indexes row, pix_size, pixel_weights row, slim index *)
  (* the vertex indexes a row really uses (negative indexes wrap, as numpy does) and the values added to them *)
  Definition sig_prep (pixels : nat) (adapt : list T) (r : sig_row) : res (list nat * list T) :=
    let '(row, size, wrow, slim) := r in
    if (length adapt <=? slim)%nat then Raise IndexError else
    let d := nthT adapt slim in
    if (1 <? size)%nat then
      if negb (Nat.eqb size (length row) && Nat.eqb size (length wrow)) then Raise OtherException   (* ValueError: operands could not be broadcast *)
      else match all_some (map (pyidx pixels) row) with
           | Some idx => Ok (idx, map (mul O d) wrow)
           | None => Raise IndexError end
    else match row with
         | [] => Raise IndexError
         | z :: _ => match pyidx pixels z with Some i => Ok ([i], [d]) | None => Raise IndexError end
         end.
  Definition sig_step (st : list T * list T) (pr : list nat * list T) : list T * list T :=
    (fancy_add (fst st) (combine (fst pr) (snd pr)), fancy_add (snd st) (map (fun i => (i, one)) (fst pr))).
  Definition fix_sizes (cnt : list T) : list T := map (fun c => if eqb O c zero then one else c) cnt.
  Definition list_max (l : list T) : T := match l with [] => zero | a :: t => fold_left maxT t a end.
  Definition sig_mean (st : list T * list T) : list T :=
    map (fun sc => div O (fst sc) (snd sc)) (combine (fst st) (fix_sizes (snd st))).
  (* [pw] is the power x |-> x ** signal_scale.  A vanishing maximum gives nan in numpy: an error value here (never generated) *)
  Definition pixel_signals (pw : T -> T) (pixels : nat) (rows : list sig_row) (adapt : list T) : res (list T) :=
    match res_all (map (sig_prep pixels adapt) rows) with
    | Raise e => Raise e
    | Ok prs =>
        if Nat.eqb pixels 0 then Raise OtherException else               (* numpy.max of an empty array: ValueError *)
        let s1 := sig_mean (fold_left sig_step prs (zeros pixels, zeros pixels)) in
        let m := list_max s1 in
        if eqb O m zero then Raise OtherException else Ok (map (fun s => pw (div O s m)) s1)
    end.
  Fixpoint npow (n : nat) (x : T) : T := match n with 0%nat => one | S k => mul O x (npow k x) end.
  (* specification of the signals, independent of the update loops: pixel i collects, from every data sub-pixel whose used
     vertex row contains it, (data value x interpolation weight), divided by the number of such sub-pixels (1 if none) *)
  Definition sig_contrib (i : nat) (pr : list nat * list T) : T :=
    sumT (map snd (filter (fun iv => Nat.eqb (fst iv) i) (combine (fst pr) (snd pr)))).
  Definition sig_hit (i : nat) (pr : list nat * list T) : bool := existsb (Nat.eqb i) (fst pr).
  Definition sig_count (prs : list (list nat * list T)) (i : nat) : nat := length (filter (sig_hit i) prs).
  Definition raw_signal (prs : list (list nat * list T)) (i : nat) : T :=
    div O (sumT (map (sig_contrib i) prs)) (if Nat.eqb (sig_count prs i) 0 then one else ofNat (sig_count prs i)).
  Definition spec_signals (pw : T -> T) (pixels : nat) (prs : list (list nat * list T)) : list T :=
    let raw := map (raw_signal prs) (seq 0 pixels) in
    map (fun s => pw (div O s (list_max raw))) raw.

  (* ---------------- block-diagonal assembly ---------------- *)
  Definition width (M : mat) : nat := length (hd [] M).
  (* scipy.linalg.block_diag, by its contract *)
  Definition block_diag (Bs : list mat) : mat :=
    fold_right (fun B acc => map (fun r => r ++ zeros (width acc)) B ++ map (fun r => zeros (width B) ++ r) acc) [] Bs.
  (* LinearObj.regularization_matrix: (params, None) -> zeros((params, params)) *)
  Definition obj_matrix (o : nat * option mat) : mat :=
    match snd o with None => mzeros (fst o) (fst o) | Some H => H end.
  Definition inversion_matrix (objs : list (nat * option mat)) : mat := block_diag (map obj_matrix objs).
  (* param_range_list_from + no_regularization_index_list *)
  Fixpoint no_reg_indexes (off : nat) (objs : list (nat * option mat)) : list nat :=
    match objs with
    | [] => []
    | (p, r) :: t => (match r with None => seq off p | Some _ => [] end) ++ no_reg_indexes (off + p) t
    end.
  Definition has_reg (o : nat * option mat) : bool := match snd o with Some _ => true | None => false end.
  (* numpy.delete(a, idx, axis) *)
  Definition delete_idx {A} (l : list A) (idx : list nat) : list A :=
    map snd (filter (fun ia => negb (existsb (Nat.eqb (fst ia)) idx)) (indexed l)).
  Definition inversion_matrix_reduced (objs : list (nat * option mat)) : mat :=
    let H := inversion_matrix objs in
    if forallb has_reg objs then H else
    let idx := no_reg_indexes 0 objs in
    map (fun r => delete_idx r idx) (delete_idx H idx).

  (* =================== specification (independent of the loops above) =================== *)
  Definition xat (x : list T) (i : nat) : T := nthT x i.
  Definition norm2 (x : list T) : T := sumT (map sq x).
  (* directed edges (i, k), k in the neighbour list of i; undirected pairs = those with i < k *)
  Definition edges (nb : list (list nat)) : list (nat * nat) :=
    flat_map (fun ir => map (fun k => (fst ir, k)) (snd ir)) (indexed nb).
  Definition upairs (nb : list (list nat)) : list (nat * nat) :=
    filter (fun p => (fst p <? snd p)%nat) (edges nb).
  Definition diff2 (x : list T) (p : nat * nat) : T := sq (sub O (xat x (fst p)) (xat x (snd p))).
  (* c^2 * sum over neighbouring pairs of squared differences + ridge *)
  Definition qf_constant (eps c : T) (nb : list (list nat)) (x : list T) : T :=
    add O (mul O (sq c) (sumT (map (diff2 x) (upairs nb)))) (mul O eps (norm2 x)).
  Definition qf_constant_zeroth (eps c cz : T) (nb : list (list nat)) (x : list T) : T :=
    add O (qf_constant eps c nb x) (mul O (sq cz) (norm2 x)).
  Definition qf_zeroth (c : T) (x : list T) : T := mul O (sq c) (norm2 x).
  (* pair (i,j) weighted by w_i^2 + w_j^2, w = the reported weights *)
  Definition qf_weighted (eps : T) (w : list T) (nb : list (list nat)) : list T -> T :=
    let rw := map sq w in
    fun x => add O (sumT (map (fun p => mul O (add O (nthT rw (fst p)) (nthT rw (snd p))) (diff2 x p)) (upairs nb)))
                   (mul O eps (norm2 x)).
  Definition qf_bz (w : list T) (x : list T) : T :=
    sumT (map (fun wx => mul O (sq (fst wx)) (sq (snd wx))) (combine w x)).
  (* split cross: row k (cross point k of pixel k/4, interpolation weights w_l on vertices m_l, as handed to
     reg_split_from) penalises (x_pixel - sum_l w_l x_{m_l})^2 with weight rw_{k/4}^2 *)
  Definition cross_residual (x : list T) (k : nat) (row : list (nat * T)) : T :=
    sub O (xat x (k / 4)) (sumT (map (fun mw => mul O (snd mw) (xat x (fst mw))) row)).
  Definition qf_split (eps : T) (w : list T) (prows0 : list (list (nat * T))) : list T -> T :=
    let rw := map sq w in
    fun x => add O (sumT (map (fun kr => mul O (nthT rw (fst kr / 4)) (sq (cross_residual x (fst kr) (snd kr)))) (indexed prows0)))
                   (mul O eps (norm2 x)).

  (* the same on prepared rows (after reg_split_from): ridge + Gram matrix of the rows  sum_k rw_{k/4} (v_k . x)^2 *)
  Definition row_dot (x : list T) (row : list (nat * T)) : T := sumT (map (fun mw => mul O (snd mw) (xat x (fst mw))) row).
  Definition qf_split_prepared (eps : T) (w : list T) (prows : list (list (nat * T))) : list T -> T :=
    let rw := map sq w in
    fun x => add O (sumT (map (fun kr => mul O (nthT rw (fst kr / 4)) (sq (row_dot x (snd kr)))) (indexed prows)))
                   (mul O eps (norm2 x)).

  (* quadratic / bilinear form of a matrix, and its polarisation *)
  Definition bil (x : list T) (M : mat) (y : list T) : T :=
    sumT (map (fun xr => mul O (fst xr) (dot (snd xr) y)) (combine x M)).
  Definition quad (M : mat) (x : list T) : T := bil x M x.
  (* AbstractInversion.regularization_term:  s_r^T (H_r s_r)  (np.matmul twice) with  s_r = reconstruction_reduced =
     numpy.delete(reconstruction, no_regularization_index_list),  H_r = regularization_matrix_reduced *)
  Definition reg_term (objs : list (nat * option mat)) (x : list T) : T :=
    quad (inversion_matrix_reduced objs) (delete_idx x (no_reg_indexes 0 objs)).
  (* its specification: the sum over the REGULARIZED objects, in list order, of the quadratic form of the object's own matrix on
     the object's slice of the reconstruction *)
  Fixpoint term_blocks (objs : list (nat * option mat)) (x : list T) : T :=
    match objs with
    | [] => zero
    | (p, r) :: t => add O (match r with Some H => quad H (firstn p x) | None => zero end) (term_blocks t (skipn p x))
    end.
  Definition unit (n a : nat) : list T := map (fun i => if Nat.eqb i a then one else zero) (seq 0 n).
  Definition vadd (x y : list T) : list T := map (fun p => add O (fst p) (snd p)) (combine x y).
  (* entry (a, b) of the block-diagonal assembly: locate the blocks of a and b *)
  Fixpoint block_entry (Bs : list mat) (a b : nat) : T :=
    match Bs with
    | [] => zero
    | B :: t =>
        let n := length B in
        if (a <? n)%nat && (b <? n)%nat then mget B a b
        else if (a <? n)%nat || (b <? n)%nat then zero
        else block_entry t (a - n) (b - n)
    end.
End Model.

(* ============================ correspondence (exact rationals) ============================ *)
Definition qv := list Q.
Definition qm := list (list Q).
Definition eps8 : Q := 1 # 100000000.
Definition tol : Q := 1 # 100000000000.        (* 1e-11: double rounding of sums that include the 1e-8 ridge *)
Definition close (a b : Q) : bool := Qle_bool (Qabs (a - b)) (tol * (1 + Qabs b)).
Definition qv_close := list_eqb close.
(* comparison relative to the SCALE of the entry: (a - b)^2 <= (1e-11)^2 * |H_aa| * |H_bb| (a positive semi-definite matrix has
   |H_ab| <= sqrt (H_aa H_bb), and so have the rounding errors of the sums that make up its entries): a tiny row / column is
   compared at its own scale, not at an absolute 1e-11 *)
Definition tol2 : Q := 1 # 10000000000000000000000.
Definition closeD (da db a b : Q) : bool :=
  if Qeq_bool a b then true else Qle_bool ((a - b) * (a - b)) (tol2 * (Qabs da * Qabs db)).
Definition closeR (a b : Q) : bool := if Qeq_bool a b then true else Qle_bool (Qabs (a - b)) (tol * Qabs b).
Definition diagq (M : list (list Q)) : list Q := map (fun ir => nth (fst ir) (snd ir) 0) (indexed M).
Definition qm_closeD_with (d : list Q) (M out : list (list Q)) : bool :=
  Nat.eqb (length M) (length out) &&
  forallb (fun x : Q * (list Q * list Q) =>
             Nat.eqb (length (fst (snd x))) (length (snd (snd x))) &&
             forallb (fun y : Q * (Q * Q) => closeD (fst x) (fst y) (fst (snd y)) (snd (snd y)))
                     (combine d (combine (fst (snd x)) (snd (snd x)))))
          (combine d (combine M out)).
Definition qm_closeD (M out : list (list Q)) : bool := qm_closeD_with (diagq M) M out.
Definition qv_closeR := list_eqb closeR.
Definition qm_close := list_eqb qv_close.
Definition qv_eqb := list_eqb Qeq_bool.
Definition zl_eqb := list_eqb Z.eqb.

Inductive scheme :=
| SConstant (c : Q) | SConstantZeroth (c cz : Q) | SZeroth (c : Q)
| SAdaptive (inner outer : Q) | SBrightnessZeroth (c : Q)
| SConstantSplit (c : Q) | SAdaptiveSplit (inner outer : Q).

(* what a linear object (mapper) hands to the schemes *)
Record lobj := {
  o_params : nat;
  o_nbz : list (list Z); o_sizes : list nat;                 (* neighbors array (padded with -1), neighbors.sizes *)
  o_signals : qv;                                            (* pixel_signals_from(signal_scale) *)
  o_smap : list (list Z); o_ssizes : list nat; o_sw : qm     (* pix_sub_weights_split_cross *)
}.
Definition split_rows (o : lobj) : list (@split_row QOps) :=
  map (fun a => (fst (fst a), snd (fst a), snd a)) (combine (combine (o_smap o) (o_ssizes o)) (o_sw o)).
Definition split_width (o : lobj) : nat := length (hd [] (o_sw o)).

Definition res_bind {A B} (x : res A) (f : A -> res B) : res B := match x with Ok a => f a | Raise e => Raise e end.

Definition scheme_weights (s : scheme) (o : lobj) : qv :=
  match s with
  | SConstant c | SZeroth c | SConstantSplit c => @constant_weights QOps c (o_params o)
  | SConstantZeroth c _ => @constant_weights QOps c (o_params o)
  | SAdaptive i u | SAdaptiveSplit i u => @adaptive_weights QOps i u (o_signals o)
  | SBrightnessZeroth c => @brightness_zeroth_weights QOps c (o_signals o)
  end.

Definition scheme_matrix (s : scheme) (o : lobj) : res qm :=
  match s with
  | SConstant c =>
      res_bind (prep_nb (length (o_nbz o)) (o_nbz o) (o_sizes o)) (fun nb => Ok (@constant_matrix QOps eps8 c nb))
  | SConstantZeroth c cz =>
      res_bind (prep_nb (length (o_nbz o)) (o_nbz o) (o_sizes o)) (fun nb => Ok (@constant_zeroth_matrix QOps eps8 c cz nb))
  | SZeroth c => Ok (@zeroth_matrix QOps c (o_params o))
  | SAdaptive i u =>
      let w := scheme_weights s o in
      res_bind (prep_nb (length w) (o_nbz o) (o_sizes o)) (fun nb =>
        if (length nb <? length w)%nat then Raise IndexError else Ok (@weighted_matrix QOps eps8 w nb))
  | SBrightnessZeroth c => Ok (@bz_matrix QOps (scheme_weights s o))
  | SConstantSplit _ | SAdaptiveSplit _ _ =>
      let w := match s with
               | SConstantSplit c => repeat c (length (o_smap o) / 4)     (* np.full(fill_value=c, shape=(pixels,)) *)
               | _ => scheme_weights s o end in
      res_bind (@reg_split QOps (split_width o) (split_rows o)) (fun rows => @split_matrix QOps eps8 w rows)
  end.

(* ---- the specification's quadratic form for a scheme, and the checks on an observed matrix ---- *)
Definition nb_nat (o : lobj) : list (list nat) :=
  map (fun rs => map Z.to_nat (firstn (snd rs) (fst rs))) (combine (o_nbz o) (o_sizes o)).
Definition cross_rows (o : lobj) : list (list (nat * Q)) :=
  map (fun a => combine (map Z.to_nat (firstn (snd (fst a)) (fst (fst a)))) (firstn (snd (fst a)) (snd a)))
      (combine (combine (o_smap o) (o_ssizes o)) (o_sw o)).
Definition scheme_qf (s : scheme) (o : lobj) : qv -> Q :=
  match s with
  | SConstant c => let nb := nb_nat o in fun x => @qf_constant QOps eps8 c nb x
  | SConstantZeroth c cz => let nb := nb_nat o in fun x => @qf_constant_zeroth QOps eps8 c cz nb x
  | SZeroth c => fun x => @qf_zeroth QOps c x
  | SAdaptive i u => @qf_weighted QOps eps8 (@adaptive_weights QOps i u (o_signals o)) (nb_nat o)
  | SBrightnessZeroth c => let w := @brightness_zeroth_weights QOps c (o_signals o) in fun x => @qf_bz QOps w x
  | SConstantSplit c => @qf_split QOps eps8 (repeat c (length (o_smap o) / 4)) (cross_rows o)
  | SAdaptiveSplit i u => @qf_split QOps eps8 (@adaptive_weights QOps i u (o_signals o)) (cross_rows o)
  end.
Definition scheme_size (s : scheme) (o : lobj) : nat :=
  match s with
  | SConstant _ | SConstantZeroth _ _ => length (o_nbz o)
  | SZeroth _ => o_params o
  | SAdaptive _ _ | SBrightnessZeroth _ => length (o_signals o)
  | SConstantSplit _ | SAdaptiveSplit _ _ => (length (o_smap o) / 4)%nat
  end.
(* inputs on which the property text speaks: indices in range, neighbour relation symmetric,
   cross rows with distinct vertices, at least one vertex per cross point *)
Definition in_range (n : nat) (rows : list (list Z)) (sizes : list nat) : bool :=
  Nat.eqb (length rows) (length sizes) &&
  forallb (fun rs => (snd rs <=? length (fst rs))%nat &&
                     forallb (fun z => (0 <=? z) && (z <? Z.of_nat n))%Z (firstn (snd rs) (fst rs))) (combine rows sizes).
Definition count_pair (p : nat * nat) (l : list (nat * nat)) : nat :=
  length (filter (fun q => Nat.eqb (fst p) (fst q) && Nat.eqb (snd p) (snd q)) l).
Definition nb_symmetric (nb : list (list nat)) : bool :=
  let E := @edges nb in
  forallb (fun p => Nat.eqb (count_pair p E) (count_pair (snd p, fst p) E)) E.
Definition nb_in_range (n : nat) (nb : list (list nat)) : bool := forallb (forallb (fun k => (k <? n)%nat)) nb.
Definition nb_ok (nb : list (list nat)) : bool := nb_in_range (length nb) nb && nb_symmetric nb.
Definition wnb_ok {A} (w : list A) (nb : list (list nat)) : bool := Nat.eqb (length nb) (length w) && nb_ok nb.
Fixpoint nodupb (l : list nat) : bool :=
  match l with [] => true | a :: t => negb (existsb (Nat.eqb a) t) && nodupb t end.
Definition scheme_wf (s : scheme) (o : lobj) : bool :=
  match s with
  | SConstant _ | SConstantZeroth _ _ =>
      in_range (length (o_nbz o)) (o_nbz o) (o_sizes o) && nb_symmetric (nb_nat o)
  | SAdaptive _ _ =>
      in_range (length (o_signals o)) (o_nbz o) (o_sizes o) && Nat.eqb (length (o_nbz o)) (length (o_signals o))
      && nb_symmetric (nb_nat o)
  | SZeroth _ | SBrightnessZeroth _ => true
  | SConstantSplit _ | SAdaptiveSplit _ _ =>
      let P := (length (o_smap o) / 4)%nat in
      Nat.eqb (length (o_smap o)) (4 * P) && Nat.eqb (length (o_sw o)) (4 * P)
      && in_range P (o_smap o) (o_ssizes o)
      && forallb (fun a => (1 <=? snd (fst a))%nat && (snd (fst a) <? length (snd a))%nat
                           && Nat.eqb (length (fst (fst a))) (length (snd a))
                           && nodupb (map Z.to_nat (firstn (snd (fst a)) (fst (fst a)))))
                 (combine (combine (o_smap o) (o_ssizes o)) (o_sw o))
      && match s with SAdaptiveSplit _ _ => Nat.eqb (length (o_signals o)) P | _ => true end
  end.
(* a raw split-cross row (mappings, size, weights) as reg_split_from expects it: at least one vertex, room for the
   appended own pixel (size <= max_j < width), vertices in range and distinct; [prow0] = its (vertex, weight) pairs *)
Definition split_row_ok {A} (P max_j : nat) (r : list Z * nat * list A) : bool :=
  let '(mp, size, w) := r in
  (1 <=? size)%nat && (size <=? max_j)%nat && (max_j <? length w)%nat && Nat.eqb (length mp) (length w)
  && forallb (fun z => (0 <=? z) && (z <? Z.of_nat P))%Z (firstn size mp) && nodupb (map Z.to_nat (firstn size mp)).
Definition prow0 {A} (r : list Z * nat * list A) : list (nat * A) :=
  let '(mp, size, w) := r in combine (map Z.to_nat (firstn size mp)) (firstn size w).
Definition split_rows_ok {A} (width : nat) (rows : list (list Z * nat * list A)) : bool :=
  Nat.eqb (length rows) (4 * (length rows / 4)) && forallb (split_row_ok (length rows / 4) (width - 1)) rows.
(* prepared split rows: 4 rows per pixel, vertices in range and pairwise distinct within a row *)
Definition prows_ok {A} (prows : list (list (nat * A))) : bool :=
  Nat.eqb (length prows) (4 * (length prows / 4)) &&
  forallb (fun row => forallb (fun mw => (fst mw <? length prows / 4)%nat) row && nodupb (map fst row)) prows.
Definition square (n : nat) (H : qm) : bool := Nat.eqb (length H) n && forallb (fun r => Nat.eqb (length r) n) H.
Definition symmetric_close (n : nat) (H : qm) : bool :=
  let d := diagq H in
  forallb (fun a => forallb (fun b => closeD (nth a d 0) (nth b d 0) (@mget QOps H a b) (@mget QOps H b a)) (seq 0 n)) (seq 0 n).
(* H is the symmetric matrix whose quadratic form is q:  H[a,a] = q(e_a),  H[a,b] = (q(e_a + e_b) - q(e_a) - q(e_b)) / 2 *)
Definition matches_qf (q : qv -> Q) (n : nat) (H : qm) : bool :=
  let d := map (fun a => q (@unit QOps n a)) (seq 0 n) in
  forallb (fun a =>
     closeR (@mget QOps H a a) (nth a d 0) &&
     forallb (fun b => closeD (nth a d 0) (nth b d 0) (@mget QOps H a b)
                             (Qred ((q (@vadd QOps (@unit QOps n a) (@unit QOps n b)) - nth a d 0 - nth b d 0) / 2)))
             (seq (S a) (n - S a))) (seq 0 n).

Inductive case :=
| KMatrix (s : scheme) (o : lobj) (out : res qm)            (* regularization_matrix_from / the util function *)
| KWeights (s : scheme) (o : lobj) (out : qv)               (* regularization_weights_from *)
| KSplit (o : lobj) (out : res (list (list Z) * list nat * qm))   (* reg_split_from *)
| KInversion (objs : list (option scheme * lobj)) (blocks : list qm) (out outr : qm)
| KRect (H W : nat) (out : list (list Z))                    (* Mesh2DRectangular.neighbors: first sizes[p] entries of row p *)
| KCov (pts : list (Q * Q)) (tbl : list (Q * Q)) (out : qm)   (* gauss_/exp_cov_matrix_from; tbl: squared distance -> profile value *)
| KKernel (coef : Q) (cov out : qm)                            (* GaussianKernel / ExponentialKernel .regularization_matrix_from *)
| KCovX (pts : list (Q * Q)) (tbl : list (Q * Q)) (vals : list Q) (idx : list (list Z))
                                                            (* the same observation as KCov for a large mesh, the returned matrix
                                                               written as indexes into the list of its distinct values *)
| KAssembly (sz : list (nat * bool)) (blocks : list qm) (out outr : qm)
| KTerm (sz : list (nat * bool)) (blocks : list qm) (x : qv) (out : Q)
                                                            (* inversion.regularization_term = s_r^T H_reduced s_r, x = inversion.reconstruction *)
| KDelNb (n : nat) (simplices : list (list nat)) (indptr indices : list nat) (out : list (list Z)) (outsz : list nat)
                                                            (* Mesh2DDelaunay.neighbors (array, sizes) with delaunay.simplices and
                                                               delaunay.vertex_neighbor_vertices *)
| KSignals (pixels pw : nat) (rows : list (list Z * nat * qv * nat)) (adapt : qv) (out : res qv).
                                                            (* mapper.pixel_signals_from(signal_scale = pw) /
                                                               mapper_util.adaptive_pixel_signals_from *)
                                                            (* the assembly alone, for any scheme (kernel schemes included):
                                                               sz = (params, has a regularization) of each object in list order,
                                                               blocks = linear_obj.regularization_matrix of each object *)
                                                            (* inversion.regularization_matrix(_reduced);
                                                               blocks = linear_obj.regularization_matrix of each object *)

Definition split_out (rows : list (@split_row QOps)) : list (list Z) * list nat * qm :=
  (map (fun r => fst (fst r)) rows, map (fun r => snd (fst r)) rows, map (fun r => snd r) rows).
Definition split_out_eqb (a b : list (list Z) * list nat * qm) : bool :=
  list_eqb zl_eqb (fst (fst a)) (fst (fst b)) && list_eqb Nat.eqb (snd (fst a)) (snd (fst b))
  && list_eqb qv_eqb (snd a) (snd b).

Definition obj_params (so : option scheme * lobj) : nat :=
  match fst so with Some s => scheme_size s (snd so) | None => o_params (snd so) end.
Definition model_objs (objs : list (option scheme * lobj)) : option (list (nat * option qm)) :=
  all_some (map (fun so => match fst so with
                           | None => Some (o_params (snd so), None)
                           | Some s => match scheme_matrix s (snd so) with
                                       | Ok H => Some (scheme_size s (snd so), Some H)
                                       | Raise _ => None end
                           end) objs).

Definition tbl_lookup (tbl : list (Q * Q)) (d2 : Q) : Q :=
  match find (fun kv => Qeq_bool (fst kv) d2) tbl with Some kv => snd kv | None => 0 end.
Definition tol_inv : Q := 1 # 10000000.        (* 1e-7: numpy.linalg.inv on moderately conditioned covariance matrices *)
Definition close_inv (a b : Q) : bool := Qle_bool (Qabs (a - b)) (tol_inv * (1 + Qabs b)).
(* the inverse contract at the scale of the coefficient: |(C H)_ab - coef delta_ab| <= 1e-7 |coef| *)
Definition close_invc (coef a b : Q) : bool := Qle_bool (Qabs (a - b)) (tol_inv * Qabs coef).
Definition mat_mul_q (A B : qm) : qm :=
  let n := length B in
  map (fun r => map (fun j => @dot QOps r (map (fun rb => nth j rb 0) B)) (seq 0 (length (hd [] B)))) A.
Definition scaled_identity (c : Q) (n : nat) : qm := map (fun a => map (fun b => if Nat.eqb a b then c else 0) (seq 0 n)) (seq 0 n).

(* symmetry of the kernel schemes' matrix (a numerical inverse) relative to its diagonal: 1e-7 sqrt(H_aa H_bb) *)
Definition symmetric_inv (n : nat) (H : qm) : bool :=
  let d := diagq H in
  forallb (fun a => forallb (fun b =>
     let e := @mget QOps H a b - @mget QOps H b a in
     Qle_bool (e * e) (tol_inv * tol_inv * (Qabs (nth a d 0) * Qabs (nth b d 0)))) (seq 0 n)) (seq 0 n).
Definition qm_eqb := list_eqb qv_eqb.
Definition assembly_objs (sz : list (nat * bool)) (blocks : list qm) : list (nat * option qm) :=
  map (fun sb : nat * bool * qm => (fst (fst sb), if snd (fst sb) then Some (snd sb) else None)) (combine sz blocks).
(* independent of block_diag / delete: the total size, entry (a, b) located by [block_entry] in the list of blocks *)
Definition assembled (n : nat) (blocks : list qm) (out : qm) : bool :=
  square n out
  && forallb (fun a => forallb (fun b => Qeq_bool (@mget QOps out a b) (@block_entry QOps blocks a b)) (seq 0 n)) (seq 0 n).
Definition all_zero (B : qm) : bool := forallb (forallb (Qeq_bool 0)) B.

(* [closeR] (RELATIVE 1e-11: a far pair's covariance of 1e-60 is compared at its own scale) with a shortcut for syntactically equal rationals (cross-multiplying 120-bit dyadic numbers 10^4 times is slow) *)
Definition closef (a b : Q) : bool :=
  if Z.eqb (Qnum a) (Qnum b) then (if Pos.eqb (Qden a) (Qden b) then true else closeR a b) else closeR a b.   (* vm_compute is call-by-value: no || *)
Definition qm_closef := list_eqb (list_eqb closef).
Definition decode (vals : list Q) (idx : list (list Z)) : qm := map (map (fun i => nth (Z.to_nat i) vals 0)) idx.
(* the covariance specification, row by row (no random access): entry (a, b) = ridge on the diagonal + profile value of the
   squared distance, looked up in the table; the matrix equal to its transpose *)
Definition dist2q (p q : Q * Q) : Q := (snd p - snd q) * (snd p - snd q) + (fst p - fst q) * (fst p - fst q).
Fixpoint transpose_q (n : nat) (M : qm) : qm :=
  match n with 0%nat => [] | S n' => map (fun r => hd 0 r) M :: transpose_q n' (map (fun r => tl r) M) end.
Definition cov_spec (pts : list (Q * Q)) (tbl : list (Q * Q)) (out : qm) : bool :=
  let n := length pts in
  square n out && qm_closef out (transpose_q n out)
  && forallb (fun apr => forallb (fun bqv =>
        closef (snd (snd bqv))
              ((if Nat.eqb (fst apr) (fst bqv) then eps8 else 0) + tbl_lookup tbl (dist2q (fst (snd apr)) (fst (snd bqv)))))
        (indexed (combine pts (snd (snd apr))))) (indexed (combine pts out)).

(* regularization_term: doubles; tolerance 1e-9 of the sum of the absolute values of the terms of the quadratic form *)
Definition abs_quad (M : qm) (x : qv) : Q :=
  @sumT QOps (map (fun xr => Qabs (fst xr) * @sumT QOps (map (fun my => Qabs (fst my) * Qabs (snd my)) (combine (snd xr) x))) (combine x M)).
Definition tol_term : Q := 1 # 1000000000.
Definition close_term (scale a b : Q) : bool := if Qeq_bool a b then true else Qle_bool (Qabs (a - b)) (tol_term * scale).
(* specification: the sum over the REGULARIZED objects, in list order, of the quadratic form of the object's own matrix on the
   object's slice of the reconstruction *)
Fixpoint term_spec (szb : list (nat * bool * qm)) (x : qv) : Q * Q :=
  match szb with
  | [] => (0, 0)
  | (p, regd, B) :: t =>
      let r := term_spec t (skipn p x) in
      if regd then (Qred (@quad QOps B (firstn p x) + fst r), Qred (abs_quad B (firstn p x) + snd r)) else r
  end.
(* Delaunay neighbour table as the schemes read it: the first sizes[k] entries of row k *)
Definition used_rows (rows : list (list Z)) (sizes : list nat) : list (list nat) :=
  map (fun rs => map Z.to_nat (firstn (snd rs) (fst rs))) (combine rows sizes).
Definition sig_rows_prepared (pixels : nat) (rows : list (list Z * nat * qv * nat)) (adapt : qv) : res (list (list nat * qv)) :=
  res_all (map (@sig_prep QOps pixels adapt) rows).
(* inputs on which the property text speaks about the signals: a non-negative adapt image, non-negative interpolation weights,
   every used row with distinct vertices, a positive maximum *)
Definition sig_nonneg (rows : list (list Z * nat * qv * nat)) (adapt : qv) : bool :=
  forallb (Qle_bool 0) adapt && forallb (fun r : list Z * nat * qv * nat => forallb (Qle_bool 0) (snd (fst r))) rows.

Definition agree (k : case) : bool :=
  match k with
  | KMatrix s o out => res_eqb qm_closeD (scheme_matrix s o) out
  | KWeights s o out => qv_closeR (scheme_weights s o) out
  | KSplit o out => res_eqb split_out_eqb
                      (match @reg_split QOps (split_width o) (split_rows o) with Ok r => Ok (split_out r) | Raise e => Raise e end) out
  | KInversion objs blocks out outr =>
      match model_objs objs with
      | Some mo => qm_closeD (@inversion_matrix QOps mo) out && qm_closeD (@inversion_matrix_reduced QOps mo) outr
                   && list_eqb qm_closeD (map (@obj_matrix QOps) mo) blocks
      | None => false
      end
  | KRect H W out => list_eqb (list_eqb Z.eqb) (rect_neighbors H W) out
  | KCov pts tbl out => qm_closef (@cov_matrix QOps eps8 (tbl_lookup tbl) pts) out
  | KKernel coef cov out =>
      (* the only model of numpy.linalg.inv is its contract: cov * out = coef * I *)
      list_eqb (list_eqb (close_invc coef)) (mat_mul_q cov out) (scaled_identity coef (length cov))
  | KCovX pts tbl vals idx => qm_closef (@cov_matrix QOps eps8 (tbl_lookup tbl) pts) (decode vals idx)
  | KAssembly sz blocks out outr =>
      let mo := assembly_objs sz blocks in
      Nat.eqb (length sz) (length blocks)
      && qm_eqb (@inversion_matrix QOps mo) out && qm_eqb (@inversion_matrix_reduced QOps mo) outr
  | KTerm sz blocks x out =>
      let mo := assembly_objs sz blocks in
      let Hr := @inversion_matrix_reduced QOps mo in
      let xr := delete_idx x (@no_reg_indexes QOps 0 mo) in
      Nat.eqb (length sz) (length blocks) && Nat.eqb (length x) (fold_left Nat.add (map fst sz) 0%nat)
      && close_term (abs_quad Hr xr) (@reg_term QOps mo x) out
  | KDelNb n simplices indptr indices out outsz =>
      let m := del_neighbors n indptr indices in
      list_eqb zl_eqb (fst m) out && list_eqb Nat.eqb (snd m) outsz
  | KSignals pixels pw rows adapt out =>
      res_eqb qv_closeR (@pixel_signals QOps (@npow QOps pw) pixels rows adapt) out
  end.

(* the specification's verdict on what the implementation returned; never calls the loops of the model *)
Definition spec_ok (k : case) : bool :=
  match k with
  | KMatrix s o out =>
      if scheme_wf s o then
        match out with
        | Ok H => let n := scheme_size s o in
                  square n H && symmetric_close n H && matches_qf (scheme_qf s o) n H
        | Raise _ => false
        end
      else true
  | KWeights s o out =>
      Nat.eqb (length out) (match s with SAdaptive _ _ | SAdaptiveSplit _ _ | SBrightnessZeroth _ => length (o_signals o)
                                       | _ => o_params o end)
      && match s with SAdaptive _ _ | SAdaptiveSplit _ _ => forallb (fun w => Qle_bool 0 w) out | _ => true end
  | KSplit o out =>
      (* the cross residual is unchanged in meaning: sum_l w'_l x_{m'_l} = x_pixel - sum_l w_l x_{m_l} on unit vectors *)
      if scheme_wf (SConstantSplit 1) o then
        match out with
        | Ok (mp, sz, w) =>
            let P := (length (o_smap o) / 4)%nat in
            let o' := {| o_params := o_params o; o_nbz := []; o_sizes := []; o_signals := [];
                         o_smap := mp; o_ssizes := sz; o_sw := w |} in
            Nat.eqb (length mp) (4 * P) && Nat.eqb (length sz) (4 * P) && Nat.eqb (length w) (4 * P) &&
            forallb (fun kr => forallb (fun a =>
                Qeq_bool (@sumT QOps (map (fun mw => @mul QOps (snd mw) (@xat QOps (@unit QOps P a) (fst mw))) (snd (snd kr))))
                         (@cross_residual QOps (@unit QOps P a) (fst kr) (fst (snd kr)))) (seq 0 P))
              (indexed (combine (cross_rows o) (cross_rows o')))
        | Raise _ => false
        end
      else true
  | KInversion objs blocks out outr =>
      let n := fold_left Nat.add (map obj_params objs) 0%nat in
      let regd := map snd (filter (fun sb => match fst (fst sb) with Some _ => true | None => false end) (combine objs blocks)) in
      let nr := fold_left Nat.add (map (@length qv) regd) 0%nat in
      Nat.eqb (length objs) (length blocks)
      && assembled n blocks out && assembled nr regd outr
      (* block i = the scheme's own matrix (the symmetric matrix of the scheme's quadratic form) / zero when None *)
      && forallb (fun sb => match fst (fst sb) with
                            | None => all_zero (snd sb) && square (o_params (snd (fst sb))) (snd sb)
                            | Some s => let m := scheme_size s (snd (fst sb)) in
                                        square m (snd sb)
                                        && (if scheme_wf s (snd (fst sb))
                                            then symmetric_close m (snd sb) && matches_qf (scheme_qf s (snd (fst sb))) m (snd sb)
                                            else true) end) (combine objs blocks)
  | KRect H W out =>
      (* the property is silent on shapes a mapper cannot have (Rectangular demands >= 3 x 3; the 4-neighbourhood needs >= 2 x 2) *)
      if (2 <=? H)%nat && (2 <=? W)%nat then list_eqb (list_eqb Z.eqb) out (map (map Z.of_nat) (grid_rows H W)) && nb_ok (grid_rows H W)
      else true
  | KCov pts tbl out => cov_spec pts tbl out
  | KCovX pts tbl vals idx => cov_spec pts tbl (decode vals idx)
  | KKernel coef cov out =>
      let n := length cov in
      square n out
      && symmetric_inv n out
      && list_eqb (list_eqb (close_invc coef)) (mat_mul_q out cov) (scaled_identity coef n)
  | KAssembly sz blocks out outr =>
      let n := fold_left Nat.add (map fst sz) 0%nat in
      let regd := map snd (filter (fun sb => snd (fst sb)) (combine sz blocks)) in
      let nr := fold_left Nat.add (map (@length qv) regd) 0%nat in
      Nat.eqb (length sz) (length blocks)
      && assembled n blocks out && assembled nr regd outr
      && forallb (fun sb => square (fst (fst sb)) (snd sb) && (snd (fst sb) || all_zero (snd sb))) (combine sz blocks)
  | KTerm sz blocks x out =>
      let r := term_spec (combine sz blocks) x in
      Nat.eqb (length sz) (length blocks) && close_term (snd r) (@term_blocks QOps (assembly_objs sz blocks) x) out
  | KDelNb n simplices indptr indices out outsz =>
      (* given scipy's contract: one row per vertex, in range, symmetric, and exactly the edges of the triangulation *)
      if vnv_ok n simplices indptr indices then
        let nb := used_rows out outsz in
        Nat.eqb (length out) n && Nat.eqb (length outsz) n && in_range n out outsz && nb_ok nb
        && forallb (fun i => forallb (fun j => Bool.eqb (memb j (nth i nb [])) (adjb simplices i j)) (seq 0 n)) (seq 0 n)
        && forallb nodupn nb
      else true
  | KSignals pixels pw rows adapt out =>
      match sig_rows_prepared pixels rows adapt with
      | Ok prs =>
          let raw := map (@raw_signal QOps prs) (seq 0 pixels) in
          if (0 <? pixels)%nat && forallb (fun pr : list nat * qv => nodupn (fst pr)) prs && sig_nonneg rows adapt
             && Qltb 0 (@list_max QOps raw) then
            match out with
            | Ok v => qv_closeR (@spec_signals QOps (@npow QOps pw) pixels prs) v
                      && forallb (fun s => Qle_bool 0 s && Qle_bool s 1) v          (* signals lie in [0, 1] ... *)
                      && existsb (fun s => Qeq_bool s 1) v                          (* ... and the brightest pixel has signal 1 *)
            | Raise _ => false
            end
          else true
      | Raise _ => true
      end
  end.

Definition check (k : case) : nat := verdict (agree k) (spec_ok k).
