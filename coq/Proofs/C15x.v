(* C15x -- Preloads.set_* ACROSS the two classes.  The fits of the preload set-up may be built in one formalism
   (in production: the mapping formalism, Preloads(use_w_tilde=False)) while set_w_tilde_imaging makes the factory build the
   other class afterwards.  Part 1 (any kernels): from a fit whose inversion has no array preloads of its own the methods store
   exactly the fresh values of fit_0's class (incl. the mapping class's mapper-diag blocks, /repo f780999).  Part 2: under the
   identities that relate the two classes these are fresh values of the other class too.  Part 3: the identities are theorems
   for the C04 kernels. *)
From Coq Require Import ZArith Reals Lra Lia List Bool Arith.
From PAV Require Import Base.Res Base.Check Base.NumOps Base.Sum Model.C03 Model.C03Lib Model.C04 Model.C04Lib Proofs.C04 Proofs.C04b.
From PAV Require Import Model.C15 Model.C15k Proofs.C15 Proofs.C15k Proofs.C15s Proofs.C15f.
Import ListNotations.
Local Open Scope nat_scope.

(* ================================================================================================ *)
(* Part 1                                                                                            *)
Section Plain.
  Variable T : Type.
  Variable K : kernels T.
  Variable Cm : cmpk T.
  Variable inp0 : input T.
  Variable mode0 : option (wtilde T).
  Notation P0 := (pure K inp0 mode0).

  (* a Preloads object that carries at most the two factory slots *)
  Definition plain (p : pstore T) : Prop :=
    s_omm p = None /\ s_curv p = None /\ s_cmd p = None /\ s_reg p = None /\ s_dvm p = None /\
    s_lf p = None /\ s_dlf p = None /\ s_momm p = None /\ s_ldr p = None.
  Definition fit_plain (f : fit T) : Prop := fit_ok K inp0 mode0 f /\ plain (store (f_st f)).
  (* what set_* store from such a fit: the fresh values of fit_0's class, and for the mapping class the mapper-diag blocks *)
  Definition set_fresh (P : pstore T) : Prop :=
    fresh_store K inp0 mode0 P /\ (mode0 = None -> forall m, s_cmd P = Some m -> m = p_cmd_map K inp0).

  Lemma plain_evolves p p' : evolves K inp0 mode0 p p' -> plain p -> plain p'.
  Proof.
    intros (a1&a2&a3&a4&a5&a6&a7&a8&a9&a10&a11&a12) (b1&b2&b3&b4&b5&b6&b7&b8&b9). unfold plain.
    rewrite a3, a4, a11, a5, a6, a7, a8, a9. repeat split; try assumption.
    rewrite b5 in a10. simpl in a10. destruct (s_dvm p'); [discriminate|reflexivity].
  Qed.
  Lemma fread_plain f q : fit_plain f -> fst (fread K code f q) = P0 q /\ fit_plain (snd (fread K code f q)).
  Proof.
    intros [Hf Hp]. pose proof Hf as (Hi & Hm & HI). unfold fread. rewrite Hi, Hm.
    destruct (observe_ok T K inp0 mode0 q (f_st f) HI I) as (HI' & Hev & Hv).
    destruct (observe K code inp0 mode0 q (f_st f)) as [v st]. simpl in *. split; [exact Hv|]. split.
    - unfold fit_ok. simpl. auto.
    - simpl. exact (plain_evolves _ _ Hev Hp).
  Qed.

  (* fresh_store, slot by slot *)
  Lemma fs_put_use_wt o P : set_fresh P -> set_fresh (put_use_wt o P).
  Proof. intro H. exact H. Qed.
  Lemma fs_put_wt o P : set_fresh P -> set_fresh (put_wt o P).
  Proof. intro H. exact H. Qed.
  Ltac fs9 := refine (conj _ (conj _ (conj _ (conj _ (conj _ (conj _ (conj _ (conj _ _)))))))).
  Lemma fs_put_omm o P : set_fresh P -> (forall m, o = Some m -> m = p_omm K inp0) -> set_fresh (put_omm o P).
  Proof. intros [(c1&c2&c3&c4&c5&c6&c7&c8&c9) X] H. split; [|exact X]. unfold fresh_store. simpl. fs9; try assumption; auto. Qed.
  Lemma fs_put_curv o P : set_fresh P -> (forall m, o = Some m -> m = p_curv K inp0 mode0) -> set_fresh (put_curv o P).
  Proof. intros [(c1&c2&c3&c4&c5&c6&c7&c8&c9) X] H. split; [|exact X]. unfold fresh_store. simpl. fs9; try assumption; auto. Qed.
  Lemma fs_put_reg o P : set_fresh P -> (forall m, o = Some m -> m = p_reg K inp0) -> set_fresh (put_reg o P).
  Proof. intros [(c1&c2&c3&c4&c5&c6&c7&c8&c9) X] H. split; [|exact X]. unfold fresh_store. simpl. fs9; try assumption; auto. Qed.
  Lemma fs_put_ldr o P : set_fresh P -> (forall x, o = Some x -> has_reg inp0 = true -> p_ldr K inp0 = Ok x) -> set_fresh (put_ldr o P).
  Proof. intros [(c1&c2&c3&c4&c5&c6&c7&c8&c9) X] H. split; [|exact X]. unfold fresh_store. simpl. fs9; try assumption; auto. Qed.
  Lemma fs_put_lf o P : set_fresh P -> (forall l, o = Some l -> l = lf_fresh K inp0) -> set_fresh (put_lf o P).
  Proof. intros [(c1&c2&c3&c4&c5&c6&c7&c8&c9) X] H. split; [|exact X]. unfold fresh_store. simpl. fs9; try assumption; auto. Qed.
  Lemma fs_put_dlf o P : set_fresh P -> (forall l, o = Some l -> l = dlf_of K inp0 (lf_fresh K inp0)) -> set_fresh (put_dlf o P).
  Proof. intros [(c1&c2&c3&c4&c5&c6&c7&c8&c9) X] H. split; [|exact X]. unfold fresh_store. simpl. fs9; try assumption; auto. Qed.
  Lemma fs_put_momm o P : set_fresh P -> (forall l, o = Some l -> l = momm_fresh K inp0) -> set_fresh (put_momm o P).
  Proof. intros [(c1&c2&c3&c4&c5&c6&c7&c8&c9) X] H. split; [|exact X]. unfold fresh_store. simpl. fs9; try assumption; auto. Qed.
  Lemma fs_put_dvm o P : set_fresh P -> (forall v, o = Some v -> v = p_dvm K inp0 mode0) -> set_fresh (put_dvm o P).
  Proof. intros [(c1&c2&c3&c4&c5&c6&c7&c8&c9) X] H. split; [|exact X]. unfold fresh_store. simpl. fs9; try assumption; auto. Qed.
  Lemma fs_put_cmd o P : set_fresh P ->
    (forall m w, o = Some m -> mode0 = Some w -> m = p_cmd K inp0 w) -> (mode0 = None -> forall m, o = Some m -> m = p_cmd_map K inp0) ->
    set_fresh (put_cmd o P).
  Proof. intros [(c1&c2&c3&c4&c5&c6&c7&c8&c9) X] H H'. split; [|exact H']. unfold fresh_store. simpl. fs9; try assumption; auto. Qed.
  Ltac none := intros ? Hx; discriminate Hx.

  Lemma dvm_prop_plain f : fit_plain f ->
    (forall v, fst (dvm_prop K f) = Some v -> v = p_dvm K inp0 mode0) /\ fit_plain (snd (dvm_prop K f)).
  Proof.
    intros [Hf Hp]. pose proof Hf as (Hi & Hm & HI). pose proof Hp as (_&_&_&_&Hd&_). unfold dvm_prop. rewrite Hi.
    destruct (f_mode f) as [w|] eqn:Ef.
    - assert (Em : mode0 = Some w) by congruence.
      destruct (dvm_ref_wt_ok T K inp0 mode0 w Em (f_st f) HI I) as (HI' & Hev & Hr).
      destruct (dvm_ref_wt K inp0 (f_st f)) as [r st]. simpl in *.
      assert (Hp' : plain (store st)) by exact (plain_evolves _ _ Hev Hp). split.
      + intros v Hv. injection Hv as <-. destruct Hr as [->|[-> Hs]]; [reflexivity|].
        destruct Hp' as (_&_&_&_&Hd'&_). rewrite Hd' in Hs. discriminate.
      + split; [|exact Hp']. split; [simpl; exact Hi|]. split; [simpl; congruence | simpl; exact HI'].
    - assert (Em : mode0 = None) by congruence. simpl. split; [|split; assumption]. intros v Hv. rewrite Hd in Hv.
      destruct (has_mapper inp0); [|discriminate]. injection Hv as <-. unfold p_dvm. now rewrite Em.
  Qed.
  Lemma cmd_prop_plain f m : fit_plain f -> cmd_prop K f = Ok (Some m) ->
    (forall w, mode0 = Some w -> m = p_cmd K inp0 w) /\ (mode0 = None -> m = p_cmd_map K inp0).
  Proof.
    intros [(Hi & Hm & HI) Hp] Hc. pose proof Hp as (_&_&Hcm&_). unfold cmd_prop in Hc. rewrite Hi in Hc.
    destruct (f_mode f) as [w|] eqn:Ef.
    - assert (Em : mode0 = Some w) by congruence. unfold cmd_ref, bind, gets, ret in Hc. rewrite Hcm in Hc. simpl in Hc.
      injection Hc as <-. split; [|intro X; congruence]. intros w' Hw'. assert (w' = w) by congruence. subst w'. reflexivity.
    - assert (Em : mode0 = None) by congruence. rewrite Hcm in Hc. destruct (has_mapper inp0); [|discriminate].
      injection Hc as <-. split; [intros w' X; congruence|reflexivity].
  Qed.
  Lemma dlf_prop_plain f : fit_plain f ->
    fst (dlf_prop K code f) = dlf_of K inp0 (lf_fresh K inp0) /\ fit_plain (snd (dlf_prop K code f)).
  Proof.
    intros Hf. pose proof Hf as [(Hi & Hm & HI) Hp]. pose proof Hp as (_&_&_&_&_&_&Hd&_). unfold dlf_prop. rewrite Hi, Hd.
    destruct (fread_plain f QLf Hf) as [Hv Hf1]. destruct (fread K code f QLf) as [lf f1]. simpl in *. split; [|exact Hf1].
    now rewrite Hv.
  Qed.

  Theorem run_setter_fresh s P f0 f1 : fit_plain f0 -> set_fresh P ->
    set_fresh (snd (fst (fst (run_setter K code Cm s P f0 f1)))) /\ fit_plain (snd (fst (run_setter K code Cm s P f0 f1))).
  Proof.
    intros Hf HP. pose proof Hf as [(Hi & Hm & HI) Hpl].
    destruct s; unfold run_setter; rewrite ?Hi.
    - destruct (negb (has_mapper inp0)); simpl; [split; [exact HP|exact Hf]|].
      destruct (c_close_v Cm (n inp0) (n (f_inp f1))); simpl; (split; [exact HP|exact Hf]).
    - destruct (fread_plain f0 QOmm Hf) as [Hv Hf1]. destruct (fread K code f0 QOmm) as [b0 f0a]. simpl in Hv, Hf1.
      destruct (fread K code f1 QOmm) as [b1 f1a].
      destruct (Nat.eqb (ncols (as_m b0)) (ncols (as_m b1)) && c_close_m Cm (as_m b0) (as_m b1)); simpl; (split; [|exact Hf1]).
      + apply fs_put_omm; [apply fs_put_omm; [exact HP|none]|]. intros m Hx. injection Hx as <-. now rewrite Hv.
      + apply fs_put_omm; [exact HP|none].
    - destruct (negb (has_mapper inp0) || negb (has_func inp0)); simpl; [split; [apply fs_put_lf; [exact HP|none]|exact Hf]|].
      destruct (fread_plain f0 QLf Hf) as [Hv Hf1]. destruct (fread K code f0 QLf) as [l0 f0a]. simpl in Hv, Hf1.
      destruct (fread K code f1 QLf) as [l1 f1a].
      match goal with |- context [if ?c then _ else _] => destruct c end; simpl.
      + destruct (dlf_prop_plain f0a Hf1) as [Hd Hf2]. destruct (dlf_prop K code f0a) as [dl f0b]. simpl in *. split; [|exact Hf2].
        apply fs_put_dlf; [apply fs_put_lf; [apply fs_put_lf; [exact HP|none]|]|].
        * intros l Hx. injection Hx as <-. now rewrite Hv.
        * intros l Hx. injection Hx as <-. exact Hd.
      + split; [apply fs_put_lf; [exact HP|none]|exact Hf1].
    - set (P1 := put_momm None (put_cmd None (put_dvm None (put_curv None P)))).
      assert (HP1 : set_fresh P1).
      { unfold P1. apply fs_put_momm; [|none]. apply fs_put_cmd; [|intros ? ? Hx; discriminate Hx|intros _ ? Hx; discriminate Hx].
        apply fs_put_dvm; [|none]. apply fs_put_curv; [exact HP|none]. }
      destruct (cmd_prop K f0) as [c0|e] eqn:Ec0; [|simpl; split; [exact HP1|exact Hf]].
      destruct (fread_plain f0 QCurv Hf) as [Hv Hf1]. destruct (fread K code f0 QCurv) as [F0 f0a]. simpl in Hv, Hf1.
      destruct (fread K code f1 QCurv) as [F1 f1a].
      destruct (same_shape (as_m F0) (as_m F1)); [|simpl; split; [exact HP1|exact Hf1]].
      destruct (c_close_m Cm (as_m F0) (as_m F1)).
      + simpl. split; [|exact Hf1]. apply fs_put_curv; [exact HP1|]. intros m Hx. injection Hx as <-. now rewrite Hv.
      + destruct c0 as [m0|]; [|simpl; split; [exact HP1|exact Hf1]].
        destruct (cmd_prop K f1a) as [c1|e]; [|simpl; split; [exact HP1|exact Hf1]].
        match goal with |- context [if ?c then _ else _] => destruct c end; [|simpl; split; [exact HP1|exact Hf1]].
        destruct (fread_plain f0a QMomm Hf1) as [Hmo Hf2]. destruct (fread K code f0a QMomm) as [mo f0b]. simpl in Hmo, Hf2.
        destruct (dvm_prop_plain f0b Hf2) as [Hdv Hf3]. destruct (dvm_prop K f0b) as [dv f0c]. simpl in *. split; [|exact Hf3].
        destruct (cmd_prop_plain f0 m0 Hf Ec0) as [Hc1 Hc2].
        apply fs_put_cmd; [apply fs_put_dvm; [apply fs_put_momm; [exact HP1|]|]| |].
        * intros l Hx. injection Hx as <-. now rewrite Hmo.
        * intros v Hx. apply Hdv. exact Hx.
        * intros m w Hx Em. injection Hx as <-. now apply Hc1.
        * intros Em m Hx. injection Hx as <-. now apply Hc2.
    - set (P1 := put_ldr None (put_reg None P)).
      assert (HP1 : set_fresh P1) by (unfold P1; apply fs_put_ldr; [apply fs_put_reg; [exact HP|none]|intros ? Hx; discriminate Hx]).
      destruct (negb (has_mapper inp0)); [simpl; split; [exact HP1|exact Hf]|].
      destruct (fread_plain f0 QLdr Hf) as [Hv Hf1]. destruct (fread K code f0 QLdr) as [l0 f0a]. simpl in Hv, Hf1.
      destruct (as_rt l0) as [x0|e] eqn:E0; [|simpl; split; [exact HP1|exact Hf1]].
      destruct (fread K code f1 QLdr) as [l1 f1a].
      destruct (as_rt l1) as [x1|e]; [|simpl; split; [exact HP1|exact Hf1]].
      destruct (c_close_t Cm x0 x1); [|simpl; split; [exact HP1|exact Hf1]].
      destruct (fread_plain f0a QReg Hf1) as [Hr Hf2]. destruct (fread K code f0a QReg) as [H f0b]. simpl in *. split; [|exact Hf2].
      apply fs_put_ldr; [apply fs_put_reg; [exact HP1|]|].
      + intros m Hx. injection Hx as <-. now rewrite Hr.
      + intros x Hx _. injection Hx as <-. rewrite Hv in E0. simpl in E0. exact E0.
  Qed.
  Theorem run_setters_fresh ss : forall P f0 f1, fit_plain f0 -> set_fresh P ->
    set_fresh (snd (fst (fst (run_setters K code Cm ss P f0 f1)))) /\ fit_plain (snd (fst (run_setters K code Cm ss P f0 f1))).
  Proof.
    induction ss as [|s ss IH]; intros P f0 f1 Hf HP; simpl; [auto|].
    destruct (run_setter_fresh s P f0 f1 Hf HP) as [HP1 Hf1].
    destruct (run_setter K code Cm s P f0 f1) as [[[r P1] f0a] f1a]. simpl in *.
    destruct (IH P1 f0a f1a Hf1 HP1) as [HP2 Hf2].
    destruct (run_setters K code Cm ss P1 f0a f1a) as [[[rs P2] f0b] f1b]. simpl in *. auto.
  Qed.
  Lemma freads_plain qs : forall f, fit_plain f -> fit_plain (snd (freads K code f qs)).
  Proof.
    induction qs as [|q qs IH]; intros f Hf; simpl; [exact Hf|].
    destruct (fread_plain f q Hf) as [_ Hf1]. destruct (fread K code f q) as [v f1]. simpl in *.
    specialize (IH f1 Hf1). destruct (freads K code f1 qs) as [vs f2]. exact IH.
  Qed.
  Lemma empty_set_fresh : set_fresh empty_store.
  Proof. split; [unfold fresh_store; simpl; repeat split; intros; discriminate|]. intros _ m H. discriminate. Qed.

  (* ---- Part 2: the same store as fresh values of another class ---- *)
  Theorem set_fresh_other_class mode' P :
    set_fresh P ->
    p_curv K inp0 mode0 = p_curv K inp0 mode' -> p_dvm K inp0 mode0 = p_dvm K inp0 mode' ->
    (forall w', mode' = Some w' -> (mode0 = None -> p_cmd_map K inp0 = p_cmd K inp0 w') /\
                                   (forall w0, mode0 = Some w0 -> p_cmd K inp0 w0 = p_cmd K inp0 w')) ->
    fresh_store K inp0 mode' P.
  Proof.
    intros [(c1&c2&c3&c4&c5&c6&c7&c8&c9) X] Ec Ed Em. unfold fresh_store.
    refine (conj c1 (conj _ (conj c3 (conj c4 (conj c5 (conj c6 (conj c7 (conj _ _)))))))).
    - intros m H. rewrite <- Ec. now apply c2.
    - intros v H. rewrite <- Ed. now apply c8.
    - intros m w' H Hw'. destruct (Em w' Hw') as [E1 E2]. destruct mode0 as [w0|] eqn:E0.
      + rewrite <- (E2 w0 eq_refl). now apply (c9 m w0).
      + rewrite <- (E1 eq_refl). now apply X.
  Qed.
End Plain.

(* ================================================================================================ *)
(* Part 3: for the C04 kernels the blocks of the two classes are the same lists                       *)
Local Open Scope R_scope.
Section CrossC04.
  Variable c : @convolver ROps.
  Variable m : mask.
  Variable Kp : @kernel ROps.
  Variable encf : Rmat -> @C04.enc ROps.
  Variable dec : Rmat -> Rvec * list nat * list nat.
  Variable slv : Rmat -> Rvec -> res Rvec.
  Variable ldc ldr : Rmat -> res R.
  Notation KR := (KR c m Kp encf dec slv ldc ldr).
  Variable inp : input R.
  Variable np : nat.
  Hypothesis WF : wf_input c encf np inp.
  Hypothesis Hrect : rectb m = true.
  Hypothesis Hc : @convolver_init ROps m Kp = Ok c.
  Hypothesis Hnp : np = length (unmasked m).
  Notation s := (C15.n inp).
  Notation d := (C15.d inp).
  Hypothesis Hs : length s = np.
  Hypothesis Hd : length d = np.
  Hypothesis Hpos : forall i, (i < np)%nat -> 0 < nth i s 0.
  Variable w : wtilde R.
  Variables (pre : Rvec) (idx lens : list nat).
  Hypothesis Hdec : dec (wt_w w) = (pre, idx, lens).
  Hypothesis Hpre : @preload ROps (@native ROps m s) Kp (unmasked m) = (pre, idx, lens).
  Notation N := (total inp).

  Lemma mapper_all x : In x (mappers inp) ->
    let o := fst x in let M := lo_mm o in let P := lo_p o in
    In o (objs inp) /\ snd (snd x) = (fst (snd x) + P)%nat /\ (snd (snd x) <= N)%nat /\ (0 < P)%nat /\
    length M = np /\ ncolsR M = P /\ enc_ok (encf M) P /\ represents (encf M) M np P /\
    shape np P (convolve_matrix c M).
  Proof.
    intro Hx. destruct (mapper_facts c encf inp np WF x Hx) as (Ho & Hm & Hhi & Hle & Hp). cbv zeta.
    pose proof (obj_wf c encf inp np WF (fst x) Ho) as W. rewrite Hm in W.
    destruct W as (_ & Hov & HM & HP & He & Hrep & Hdw & Hdu).
    pose proof (shape_convolve_matrix c (lo_mm (fst x))) as Hcs. fixR. rewrite HM, HP in Hcs.
    exact (conj Ho (conj Hhi (conj Hle (conj Hp (conj HM (conj HP (conj He (conj Hrep Hcs)))))))).
  Qed.
  Lemma conv_is_Bm x i p : In x (mappers inp) -> (i < np)%nat -> (p < lo_p (fst x))%nat ->
    mgetR (convolve_matrix c (lo_mm (fst x))) i p = Bm (encf (lo_mm (fst x))) c np i p.
  Proof.
    intros Hx Hi Hp. destruct (mapper_all x Hx) as (Ho & Hhi & Hle & HP0 & HM & HP & He & Hrep & Hcs).
    destruct WF as (Hn0 & Hfr & _).
    rewrite (convolve_matrix_is_Cop c (lo_mm (fst x)) np i p HM Hfr Hi) by (rewrite HP; exact Hp).
    unfold Bm. apply sumR_map_ext. intros s0 Hs0. apply in_seq in Hs0. rewrite (Hrep s0 p) by lia. reflexivity.
  Qed.

  (* data-vector block of a mapper: B^T N^-1 d computed from the blurred mapping matrix = from w_tilde_data *)
  Lemma blk_dv_eq x : In x (mappers inp) ->
    k_dv_bmm KR (conv_mm KR (lo_mm (fst x))) d s = k_dv_wt KR (p_wtd KR inp) (lo_mm (fst x)) (lo_p (fst x)).
  Proof.
    intro Hx. destruct (mapper_all x Hx) as (Ho & Hhi & Hle & HP0 & HM & HP & He & Hrep & Hcs).
    destruct WF as (Hn0 & Hfr & _). cbn [KR c04k k_dv_bmm conv_mm k_dv_wt]. unfold p_wtd. cbn [KR c04k k_wtd].
    pose proof (ncols_shape _ _ _ Hcs Hn0) as Nc. destruct Hcs as [Lc _].
    apply vec_ext.
    - rewrite dv_blurred_length, dv_wtd_length. exact Nc.
    - intros p Hp. rewrite dv_blurred_length, Nc in Hp. rewrite dv_blurred_spec by (rewrite Nc; exact Hp).
      pose proof (wt_data_vector_block_full m Kp c Hrect Hc d s (encf (lo_mm (fst x))) (lo_p (fst x)) p) as H. rewrite <- Hnp in H.
      symmetry. etransitivity; [apply H; [exact Hd | exact Hs | intros i Hi; specialize (Hpos i Hi); lra | exact He | exact Hp]|].
      fixR. rewrite Lc. apply sumR_map_ext. intros i Hi. apply in_seq in Hi. rewrite (conv_is_Bm x i p Hx) by (try lia; exact Hp). reflexivity.
  Qed.
  Theorem p_dvm_same : p_dvm KR inp None = p_dvm KR inp (Some w).
  Proof.
    unfold p_dvm, dvm_writes_map, dvm_writes_wt. f_equal. apply map_ext_in. intros x Hx. now rewrite (blk_dv_eq x Hx).
  Qed.

  (* curvature block of a mapper *)
  Lemma blk_curv_entry x a b : In x (mappers inp) -> (a < lo_p (fst x))%nat -> (b < lo_p (fst x))%nat ->
    mgetR (k_curv_wt KR (wt_w w) (lo_mm (fst x)) (lo_p (fst x))) a b =
    sumR (map (fun i => Bm (encf (lo_mm (fst x))) c np i a * Bm (encf (lo_mm (fst x))) c np i b / (nth i s 0 * nth i s 0)) (seq 0 np)).
  Proof.
    intros Hx Ha Hb. destruct (mapper_all x Hx) as (Ho & Hhi & Hle & HP0 & HM & HP & He & Hrep & Hcs).
    cbn [KR c04k k_curv_wt]. rewrite Hdec.
    pose proof (wt_diag_block_full m Kp c Hrect Hc s (encf (lo_mm (fst x))) (lo_p (fst x)) a b) as H. rewrite <- Hnp in H.
    rewrite Hpre in H. apply H; assumption.
  Qed.
  Lemma blk_curv_eq x : In x (mappers inp) ->
    k_curv_mm KR (conv_mm KR (lo_mm (fst x))) s = k_curv_wt KR (wt_w w) (lo_mm (fst x)) (lo_p (fst x)).
  Proof.
    intro Hx. destruct (mapper_all x Hx) as (Ho & Hhi & Hle & HP0 & HM & HP & He & Hrep & Hcs).
    destruct WF as (Hn0 & Hfr & _). pose proof (ncols_shape _ _ _ Hcs Hn0) as Nc.
    apply (mat_ext (lo_p (fst x)) (lo_p (fst x))).
    - cbn [KR c04k k_curv_mm conv_mm]. rewrite <- Nc at 1 2. rewrite <- (ncols_div_rows (convolve_matrix c (lo_mm (fst x))) s). apply shape_dotTN.
    - cbn [KR c04k k_curv_wt]. rewrite Hdec. apply shape_curv_preload.
    - intros a b Ha Hb. rewrite (blk_curv_entry x a b Hx Ha Hb). cbn [KR c04k k_curv_mm conv_mm].
      destruct Hcs as [Lc _]. rewrite (ff_block _ _ s np a b); [| fixR; exact Lc | fixR; exact Lc | intros i Hi; specialize (Hpos i Hi); lra | now rewrite Nc | now rewrite Nc].
      apply sumR_map_ext. intros i Hi. apply in_seq in Hi. rewrite !(conv_is_Bm x i) by (try lia; assumption). reflexivity.
  Qed.
  Lemma cmd_writes_same : cmd_writes_map KR inp = cmd_writes KR inp (wt_w w).
  Proof. unfold cmd_writes_map, cmd_writes. apply map_ext_in. intros x Hx. now rewrite (blk_curv_eq x Hx). Qed.

  (* the mapper-diag matrix is symmetric, so the mirror leaves it alone *)
  Definition symN (n0 : nat) (A : Rmat) : Prop := forall a b, (a < n0)%nat -> (b < n0)%nat -> mgetR A a b = mgetR A b a.
  Lemma sym_step (A : Rmat) x : shape N N A -> symN N A -> In x (mappers inp) ->
    symN N (apply_mw KR A {| mw_r0 := fst (snd x); mw_r1 := snd (snd x); mw_c0 := fst (snd x); mw_c1 := snd (snd x);
                             mw_b := k_curv_wt KR (wt_w w) (lo_mm (fst x)) (lo_p (fst x)) |}).
  Proof.
    intros HA Hsym Hx a b Ha Hb. destruct (mapper_all x Hx) as (Ho & Hhi & Hle & HP0 & _).
    rewrite !(mget_apply_mw KR (KR_zero c m Kp encf dec slv ldc ldr) N) by assumption. cbn [mw_r0 mw_r1 mw_c0 mw_c1 mw_b].
    rewrite (andb_comm (in_rng (fst (snd x)) (snd (snd x)) b)).
    destruct (in_rng (fst (snd x)) (snd (snd x)) a && in_rng (fst (snd x)) (snd (snd x)) b) eqn:E; [|now apply Hsym].
    apply andb_prop in E. destruct E as [E1 E2]. unfold in_rng in E1, E2. apply andb_prop in E1, E2.
    destruct E1 as [A1 A2]. destruct E2 as [B1 B2]. apply Nat.leb_le in A1, B1. apply Nat.ltb_lt in A2, B2.
    pose proof (blk_curv_entry x (a - fst (snd x)) (b - fst (snd x)) Hx ltac:(lia) ltac:(lia)) as H1.
    pose proof (blk_curv_entry x (b - fst (snd x)) (a - fst (snd x)) Hx ltac:(lia) ltac:(lia)) as H2.
    rewrite !mget_R in H1, H2. fixR. rewrite H1, H2. apply sumR_map_ext. intros i _. unfold Rdiv. ring.
  Qed.
  Lemma p_cmd_sym : shape N N (p_cmd KR inp w) /\ symN N (p_cmd KR inp w).
  Proof.
    unfold p_cmd, cmd_writes.
    assert (G : forall L (A : Rmat), (forall x, In x L -> In x (mappers inp)) -> shape N N A -> symN N A ->
                shape N N (apply_mws KR A (map (fun x : lobj R * (nat * nat) =>
                   {| mw_r0 := fst (snd x); mw_r1 := snd (snd x); mw_c0 := fst (snd x); mw_c1 := snd (snd x);
                      mw_b := k_curv_wt KR (wt_w w) (lo_mm (fst x)) (lo_p (fst x)) |}) L)) /\
                symN N (apply_mws KR A (map (fun x : lobj R * (nat * nat) =>
                   {| mw_r0 := fst (snd x); mw_r1 := snd (snd x); mw_c0 := fst (snd x); mw_c1 := snd (snd x);
                      mw_b := k_curv_wt KR (wt_w w) (lo_mm (fst x)) (lo_p (fst x)) |}) L))).
    { induction L as [|x L IH]; intros A HL HA Hsym; [split; assumption|]. unfold apply_mws in *. cbn [map fold_left].
      apply IH; [intros x' Hx'; apply HL; now right | now apply shape_apply_mw | apply sym_step; [assumption|assumption|apply HL; now left]]. }
    apply G; [auto | apply shape_zmat | intros a b _ _; change (zeros_m KR N N) with (@zmat ROps N N); now rewrite !mget_zmat].
  Qed.
  Theorem p_cmd_map_same : p_cmd_map KR inp = p_cmd KR inp w.
  Proof.
    unfold p_cmd_map. rewrite cmd_writes_same. fold (p_cmd KR inp w). destruct p_cmd_sym as [Hsh Hsym].
    destruct (mirror_rel c m Kp encf dec slv ldc ldr N _ _ (rel_refl N _ Hsh)) as (S1 & _ & E).
    apply (mat_ext N N); [exact S1 | exact Hsh |]. intros a b Ha Hb. rewrite (E a b Ha Hb). rewrite (mirrored_spec N) by assumption.
    unfold mir. assert (Hlo : (Nat.min a b < N)%nat) by lia. assert (Hhi : (Nat.max a b < N)%nat) by lia.
    destruct (Nat.le_ge_cases a b) as [L|L].
    - rewrite Nat.min_l, Nat.max_r by exact L. destruct (Reqb (mgetR (p_cmd KR inp w) a b) 0) eqn:X; [|reflexivity].
      now rewrite (Hsym b a Hb Ha).
    - rewrite Nat.min_r, Nat.max_l by exact L. destruct (Reqb (mgetR (p_cmd KR inp w) b a) 0) eqn:X; [reflexivity|].
      now apply Hsym.
  Qed.
  Theorem mapper_blocks_same : p_dvm KR inp None = p_dvm KR inp (Some w) /\ p_cmd_map KR inp = p_cmd KR inp w.
  Proof. exact (conj p_dvm_same p_cmd_map_same). Qed.
End CrossC04.

(* ================================================================================================ *)
(* Part 4: Preloads.set_* from fits of one class, inversions of either class afterwards (C04 kernels)  *)
Section CrossTop.
  Variable c : @convolver ROps.
  Variable m : mask.
  Variable Kp : @kernel ROps.
  Variable encf : Rmat -> @C04.enc ROps.
  Variable dec : Rmat -> Rvec * list nat * list nat.
  Variable slv : Rmat -> Rvec -> res Rvec.
  Variable ldc ldr : Rmat -> res R.
  Notation KR := (KR c m Kp encf dec slv ldc ldr).
  Variable Cm : cmpk R.
  Variable inp : input R.
  Hypothesis Hrect : rectb m = true.
  Hypothesis Hc : @convolver_init ROps m Kp = Ok c.
  Hypothesis WF : wf_input c encf (length (unmasked m)) inp.
  Hypothesis Hne : in_objs inp <> [].
  Hypothesis Hd : length (ds_d (in_ds inp)) = length (unmasked m).
  Hypothesis Hs : length (ds_n (in_ds inp)) = length (unmasked m).
  Hypothesis Hpos : forall i, (i < length (unmasked m))%nat -> 0 < nth i (ds_n (in_ds inp)) 0.
  Hypothesis Hslv : forall A b sv, slv A b = Ok sv -> length sv = length b.
  (* every w_tilde object around (dataset.w_tilde, a preloaded one) holds the preload of this noise map and PSF *)
  Definition tok_ok (w : wtilde R) : Prop :=
    dec (wt_w w) = @preload ROps (@native ROps m (ds_n (in_ds inp))) Kp (unmasked m).
  Hypothesis Hwt : tok_ok (ds_wt (in_ds inp)).

  Definition mode_ok (mode : option (wtilde R)) : Prop := forall w, mode = Some w -> tok_ok w.
  Lemma pure_class_free mode1 mode2 q : mode_ok mode1 -> mode_ok mode2 -> pure KR inp mode1 q = pure KR inp mode2 q.
  Proof.
    assert (G : forall w, tok_ok w -> pure KR inp (Some w) q = pure KR inp None q).
    { intros w Hw. unfold tok_ok in Hw.
      destruct (@preload ROps (@native ROps m (ds_n (in_ds inp))) Kp (unmasked m)) as [[pre idx] lens] eqn:Ep.
      apply (c04_formalism_choice_value_free c m Kp encf dec slv ldc ldr inp (length (unmasked m)) WF Hne w pre idx lens); auto. }
    intros H1 H2. destruct mode1 as [w1|], mode2 as [w2|]; try reflexivity.
    - rewrite (G w1 (H1 w1 eq_refl)), (G w2 (H2 w2 eq_refl)). reflexivity.
    - apply G. now apply H1.
    - symmetry. apply G. now apply H2.
  Qed.
  Lemma class_blocks mode1 mode2 : mode_ok mode1 -> mode_ok mode2 ->
    p_curv KR inp mode1 = p_curv KR inp mode2 /\ p_dvm KR inp mode1 = p_dvm KR inp mode2 /\
    (forall w', mode2 = Some w' -> (mode1 = None -> p_cmd_map KR inp = p_cmd KR inp w') /\
                                   (forall w0, mode1 = Some w0 -> p_cmd KR inp w0 = p_cmd KR inp w')).
  Proof.
    assert (G : forall w, tok_ok w -> p_curv KR inp (Some w) = p_curv KR inp None /\ p_dvm KR inp None = p_dvm KR inp (Some w) /\
                                        p_cmd_map KR inp = p_cmd KR inp w).
    { intros w Hw. unfold tok_ok in Hw.
      destruct (@preload ROps (@native ROps m (ds_n (in_ds inp))) Kp (unmasked m)) as [[pre idx] lens] eqn:Ep.
      split; [|split].
      - apply (p_curv_same c m Kp encf dec slv ldc ldr inp (length (unmasked m)) WF Hne w pre idx lens); auto.
      - apply (p_dvm_same c m Kp encf dec slv ldc ldr inp (length (unmasked m))); auto.
      - apply (p_cmd_map_same c m Kp encf dec slv ldc ldr inp (length (unmasked m))) with (pre := pre) (idx := idx) (lens := lens); auto. }
    intros H1 H2. destruct mode1 as [w1|], mode2 as [w2|].
    - destruct (G w1 (H1 w1 eq_refl)) as (a1 & b1 & c1). destruct (G w2 (H2 w2 eq_refl)) as (a2 & b2 & c2).
      split; [congruence|]. split; [congruence|]. intros w' Hw'. injection Hw' as <-. split; [discriminate|].
      intros w0 Hw0. injection Hw0 as <-. congruence.
    - destruct (G w1 (H1 w1 eq_refl)) as (a1 & b1 & c1). split; [exact a1|]. split; [now symmetry|]. intros w' Hw'. discriminate.
    - destruct (G w2 (H2 w2 eq_refl)) as (a2 & b2 & c2). split; [now symmetry|]. split; [exact b2|].
      intros w' Hw'. injection Hw' as <-. split; [intros _; exact c2 | intros w0 X; discriminate].
    - split; [reflexivity|]. split; [reflexivity|]. intros w' Hw'. discriminate.
  Qed.

  Lemma fread_inp (f : fit R) q : f_inp (snd (fread KR code f q)) = f_inp f.
  Proof. unfold fread. destruct (observe KR code (f_inp f) (f_mode f) q (f_st f)). reflexivity. Qed.
  Lemma dvm_prop_inp (f : fit R) : f_inp (snd (dvm_prop KR f)) = f_inp f.
  Proof. unfold dvm_prop. destruct (f_mode f); [destruct (dvm_ref_wt KR (f_inp f) (f_st f))|]; reflexivity. Qed.
  Lemma dlf_prop_inp (f : fit R) : f_inp (snd (dlf_prop KR code f)) = f_inp f.
  Proof.
    unfold dlf_prop. destruct (s_dlf (store (f_st f))); [reflexivity|].
    pose proof (fread_inp f QLf) as H. destruct (fread KR code f QLf). exact H.
  Qed.
  Lemma run_setter_inp s P f0 f1 : f_inp (snd (fst (run_setter KR code Cm s P f0 f1))) = f_inp f0.
  Proof.
    destruct s; unfold run_setter.
    - destruct (negb (has_mapper (f_inp f0))); [reflexivity|]. destruct (c_close_v Cm _ _); reflexivity.
    - pose proof (fread_inp f0 QOmm) as H. destruct (fread KR code f0 QOmm) as [b0 f0a]. destruct (fread KR code f1 QOmm) as [b1 f1a].
      destruct (_ && _); exact H.
    - destruct (_ || _); [reflexivity|].
      pose proof (fread_inp f0 QLf) as H. destruct (fread KR code f0 QLf) as [l0 f0a]. destruct (fread KR code f1 QLf) as [l1 f1a].
      match goal with |- context [if ?c then _ else _] => destruct c end; [|exact H].
      pose proof (dlf_prop_inp f0a) as H2. destruct (dlf_prop KR code f0a) as [dl f0b]. simpl in *. congruence.
    - destruct (cmd_prop KR f0) as [c0|e]; [|reflexivity].
      pose proof (fread_inp f0 QCurv) as H. destruct (fread KR code f0 QCurv) as [F0 f0a]. destruct (fread KR code f1 QCurv) as [F1 f1a].
      destruct (same_shape _ _); [|exact H]. destruct (c_close_m Cm (as_m F0) (as_m F1)); [exact H|].
      destruct c0 as [m0|]; [|exact H]. destruct (cmd_prop KR f1a) as [c1|e]; [|exact H].
      match goal with |- context [if ?c then _ else _] => destruct c end; [|exact H].
      pose proof (fread_inp f0a QMomm) as H2. destruct (fread KR code f0a QMomm) as [mo f0b].
      pose proof (dvm_prop_inp f0b) as H3. destruct (dvm_prop KR f0b) as [dv f0c]. simpl in *. congruence.
    - destruct (negb (has_mapper (f_inp f0))); [reflexivity|].
      pose proof (fread_inp f0 QLdr) as H. destruct (fread KR code f0 QLdr) as [l0 f0a]. destruct (as_rt l0) as [x0|e]; [|exact H].
      destruct (fread KR code f1 QLdr) as [l1 f1a]. destruct (as_rt l1) as [x1|e]; [|exact H].
      destruct (c_close_t Cm x0 x1); [|exact H].
      pose proof (fread_inp f0a QReg) as H2. destruct (fread KR code f0a QReg) as [Hh f0b]. simpl in *. congruence.
  Qed.

  (* the w_tilde slot of the Preloads object only ever receives the dataset's preload *)
  Definition wt_slot_ok (P : pstore R) : Prop := forall w, s_wt P = Some w -> tok_ok w.
  Lemma run_setter_wt s P f0 f1 : f_inp f0 = inp -> wt_slot_ok P -> wt_slot_ok (snd (fst (fst (run_setter KR code Cm s P f0 f1)))).
  Proof.
    intros Hi HP. destruct s; unfold run_setter; rewrite ?Hi.
    - destruct (negb (has_mapper inp)); simpl; [intros w H; discriminate|].
      destruct (c_close_v Cm (n inp) (n (f_inp f1))); simpl; intros w H; [|discriminate]. injection H as <-. exact Hwt.
    - destruct (fread KR code f0 QOmm) as [b0 f0a]. destruct (fread KR code f1 QOmm) as [b1 f1a].
      destruct (Nat.eqb (ncols (as_m b0)) (ncols (as_m b1)) && c_close_m Cm (as_m b0) (as_m b1)); exact HP.
    - destruct (negb (has_mapper inp) || negb (has_func inp)); [exact HP|].
      destruct (fread KR code f0 QLf) as [l0 f0a]. destruct (fread KR code f1 QLf) as [l1 f1a].
      match goal with |- context [if ?c then _ else _] => destruct c end; [|exact HP].
      destruct (dlf_prop KR code f0a) as [dl f0b]. exact HP.
    - destruct (cmd_prop KR f0) as [c0|e]; [|exact HP].
      destruct (fread KR code f0 QCurv) as [F0 f0a]. destruct (fread KR code f1 QCurv) as [F1 f1a].
      destruct (same_shape (as_m F0) (as_m F1)); [|exact HP].
      destruct (c_close_m Cm (as_m F0) (as_m F1)); [exact HP|].
      destruct c0 as [m0|]; [|exact HP]. destruct (cmd_prop KR f1a) as [c1|e]; [|exact HP].
      match goal with |- context [if ?c then _ else _] => destruct c end; [|exact HP].
      destruct (fread KR code f0a QMomm) as [mo f0b]. destruct (dvm_prop KR f0b) as [dv f0c]. exact HP.
    - destruct (negb (has_mapper inp)); [exact HP|].
      destruct (fread KR code f0 QLdr) as [l0 f0a]. destruct (as_rt l0) as [x0|e]; [|exact HP].
      destruct (fread KR code f1 QLdr) as [l1 f1a]. destruct (as_rt l1) as [x1|e]; [|exact HP].
      destruct (c_close_t Cm x0 x1); [|exact HP]. destruct (fread KR code f0a QReg) as [H f0b]. exact HP.
  Qed.

  Theorem c04_set_preloads_any_class own0 f0 f1 reads0 ss :
    make_fit KR inp own0 = Ok f0 -> plain R own0 -> wt_slot_ok own0 ->
    let r := run_setters KR code Cm ss empty_store (snd (freads KR code f0 reads0)) f1 in
    let P' := snd (fst (fst r)) in
    forall mode' h, make_inversion KR inp P' = Ok mode' ->
      fst (run_history KR inp code P' h) = map (fun qs => Ok (map (pure KR inp (f_mode f0)) qs)) h.
  Proof.
    intros Hmk Hpl Hown r P' mode' h Hm'.
    (* fit_0's inversion *)
    assert (Hc0 : consistent KR inp (f_mode f0) own0).
    { destruct Hpl as (a1&a2&a3&a4&a5&a6&a7&a8&a9). unfold consistent. rewrite a1, a2, a3, a4, a5, a6, a7, a8, a9.
      repeat split; intros; discriminate. }
    destruct (make_fit_ok R KR inp own0 f0 Hmk Hc0) as (Hi & Hmi & Hf0).
    assert (Hfp : fit_plain R KR inp (f_mode f0) f0).
    { split; [exact Hf0|]. unfold make_fit in Hmk. destruct (make_inversion KR inp own0); [|discriminate]. injection Hmk as <-. exact Hpl. }
    pose proof (freads_plain R KR inp (f_mode f0) reads0 f0 Hfp) as Hfa.
    destruct (run_setters_fresh R KR Cm inp (f_mode f0) ss empty_store _ f1 Hfa (empty_set_fresh R KR inp (f_mode f0))) as [HP' _].
    fold r in HP'. fold P' in HP'.
    (* the tokens *)
    assert (Hm0 : mode_ok (f_mode f0)).
    { intros w0 E0. rewrite E0 in Hmi. unfold make_inversion in Hmi. destruct (choose_wt inp own0); [|discriminate].
      destruct (check_noise_map KR inp _); [|discriminate]. injection Hmi as <-. destruct (s_wt own0) as [w|] eqn:Ew; [now apply Hown|exact Hwt]. }
    assert (HwP : wt_slot_ok P').
    { unfold P', r. clear Hm' HP'.
      assert (G : forall ss0 P f0a f1a, f_inp f0a = inp -> wt_slot_ok P -> wt_slot_ok (snd (fst (fst (run_setters KR code Cm ss0 P f0a f1a))))).
      { induction ss0 as [|s0 ss0 IH]; intros P f0a f1a Hia HP; simpl; [exact HP|].
        pose proof (run_setter_wt s0 P f0a f1a Hia HP) as H1.
        assert (Hia' : f_inp (snd (fst (run_setter KR code Cm s0 P f0a f1a))) = inp) by (rewrite run_setter_inp; exact Hia).
        destruct (run_setter KR code Cm s0 P f0a f1a) as [[[r0 P1] f0b] f1b]. simpl in *.
        specialize (IH P1 f0b f1b Hia' H1). destruct (run_setters KR code Cm ss0 P1 f0b f1b) as [[[rs P2] f0c] f1c]. exact IH. }
      apply G; [|intros w H; discriminate]. destruct Hfa as [(X & _) _]. exact X. }
    assert (Hmo' : mode_ok mode').
    { intros w' E'. rewrite E' in Hm'. unfold make_inversion in Hm'. destruct (choose_wt inp P'); [|discriminate].
      destruct (check_noise_map KR inp _); [|discriminate]. injection Hm' as <-. destruct (s_wt P') as [w|] eqn:Ew; [now apply HwP|exact Hwt]. }
    destruct (class_blocks (f_mode f0) mode' Hm0 Hmo') as (Ec & Ed & Em).
    pose proof (set_fresh_other_class R KR inp (f_mode f0) mode' P' HP' Ec Ed Em) as Hfr.
    pose proof (fresh_consistent R KR inp mode' P' Hfr (c04_laws_for c m Kp encf dec slv ldc ldr inp (length (unmasked m)) WF mode' P')) as Hcons.
    rewrite (proj1 (run_history_ok R KR inp mode' h P' Hm' Hcons)). apply map_ext. intro qs. f_equal. apply map_ext. intro q.
    now apply pure_class_free.
  Qed.
End CrossTop.

(* non-vacuity of Part 4 (with the instance of Proofs/C15f.v, Part J): the factory builds the w-tilde class for fit_0 *)
Lemma ex_any_class_hyps :
  let K := KR exC exM exK (@dense_enc ROps) exDec exSlv (fun _ => Ok 0) (fun _ => Ok 0) in
  (exists f0, make_fit K exInp empty_store = Ok f0 /\ f_mode f0 = Some (ds_wt (in_ds exInp))) /\
  plain R empty_store /\ wt_slot_ok exM exK exDec exInp empty_store /\ tok_ok exM exK exDec exInp (ds_wt (in_ds exInp)).
Proof.
  cbv zeta. split; [|split; [|split]].
  - eexists. unfold make_fit, make_inversion, choose_wt, check_noise_map. cbn.
    assert (E : Reqb 1 1 = true) by now apply Reqb_true. rewrite E. split; reflexivity.
  - unfold plain. simpl. repeat split.
  - intros w H. discriminate.
  - reflexivity.
Qed.
