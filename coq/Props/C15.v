From Coq Require Import List Arith Bool.
From PAV Require Import Base.Res Base.Check Model.C15 Proofs.C15.
Import ListNotations.
