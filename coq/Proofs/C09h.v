(* C09h -- proofs about histories: the caches of OverSamplerUniform and of Grid2D.over_sampler are transparent. *)
From Coq Require Import ZArith List Bool Arith Lia Reals.
From PAV Require Import Base.NumOps Base.Res Base.Check Base.Sum Model.C09 Model.C09h Proofs.C09.
Import ListNotations.

Section HistProofs.
  Context {O : NumOps}.
  Local Notation Num := (T O).

  (* every populated cache holds the pure function of the current contents *)
  Definition cache_inv (st : @sampler O) : Prop :=
    (forall g, c_grid st = Some g -> g = over_sampled_grid (s_mask st) (s_ps st) (s_og st) (s_ss st)) /\
    (forall l, c_slim st = Some l -> l = slim_for_sub_slim (s_mask st) (s_ss st)) /\
    (forall l, c_native st = Some l -> l = native_for_sub_slim (s_mask st) (s_ss st)).
  Definition nocache (st : @sampler O) : Prop := c_grid st = None /\ c_slim st = None /\ c_native st = None.

  Lemma nocache_inv st : nocache st -> cache_inv st.
  Proof. intros (A & B & C). repeat split; intros ? E; congruence. Qed.

  Lemma read_grid_spec st : cache_inv st ->
    snd (read_grid st) = over_sampled_grid (s_mask st) (s_ps st) (s_og st) (s_ss st) /\
    cache_inv (fst (read_grid st)) /\
    s_mask (fst (read_grid st)) = s_mask st /\ s_ps (fst (read_grid st)) = s_ps st /\
    s_og (fst (read_grid st)) = s_og st /\ s_ss (fst (read_grid st)) = s_ss st.
  Proof.
    intros I. pose proof I as (A & B & C). unfold read_grid. destruct (c_grid st) as [g|] eqn:E; cbn.
    - split; [apply A; reflexivity|]. split; [exact I|]. repeat split.
    - split; [reflexivity|]. split; [|repeat split].
      split; [|split]; cbn; [intros g Eg; injection Eg as <-; reflexivity|exact B|exact C].
  Qed.

  Lemma svia_spec st f : cache_inv st ->
    snd (svia st f) = array_via_func f (s_mask st) (s_ps st) (s_og st) (s_ss st) /\
    cache_inv (fst (svia st f)) /\
    s_mask (fst (svia st f)) = s_mask st /\ s_ps (fst (svia st f)) = s_ps st /\
    s_og (fst (svia st f)) = s_og st /\ s_ss (fst (svia st f)) = s_ss st.
  Proof.
    intros I. destruct (read_grid_spec st I) as (G & I' & E1 & E2 & E3 & E4).
    unfold svia. destruct (read_grid st) as [st' g] eqn:R. cbn in *. subst g.
    split; [rewrite E1, E4; reflexivity|]. exact (conj I' (conj E1 (conj E2 (conj E3 E4)))).
  Qed.

  Lemma srun_pure_gen : forall ops (st : @sampler O) cached,
    cache_inv st -> (cached = false -> nocache st) -> edits_before_caches cached ops = true ->
    srun st ops = spure_run (s_mask st) (s_ps st) (s_og st) (s_ss st) ops.
  Proof.
    induction ops as [|op ops IH]; intros st cached I N H; [reflexivity|].
    destruct op; cbn [srun sstep spure_run spure ss_after edits_before_caches fills_cache] in *.
    - (* SGrid *)
      destruct (read_grid_spec st I) as (G & I' & E1 & E2 & E3 & E4).
      destruct (read_grid st) as [st' g] eqn:R. cbn in *. subst g. f_equal.
      rewrite <- E1, <- E2, <- E3, <- E4. apply (IH st' (cached || true)); [exact I'| |exact H].
      rewrite orb_true_r. discriminate.
    - (* SSlim *)
      pose proof I as (A & B & C). destruct (c_slim st) as [l|] eqn:E.
      + rewrite (B l eq_refl). f_equal. apply (IH st (cached || true)); [exact I| |exact H].
        rewrite orb_true_r. discriminate.
      + f_equal.
        apply (IH (mkS (s_mask st) (s_ps st) (s_og st) (s_ss st) (c_grid st) (Some (slim_for_sub_slim (s_mask st) (s_ss st))) (c_native st))
                  (cached || true)); [|rewrite orb_true_r; discriminate|exact H].
        split; [|split]; cbn; [exact A|intros l El; injection El as <-; reflexivity|exact C].
    - (* SNative *)
      pose proof I as (A & B & C). destruct (c_native st) as [l|] eqn:E.
      + rewrite (C l eq_refl). f_equal. apply (IH st (cached || true)); [exact I| |exact H].
        rewrite orb_true_r. discriminate.
      + f_equal.
        apply (IH (mkS (s_mask st) (s_ps st) (s_og st) (s_ss st) (c_grid st) (c_slim st) (Some (native_for_sub_slim (s_mask st) (s_ss st))))
                  (cached || true)); [|rewrite orb_true_r; discriminate|exact H].
        split; [|split]; cbn; [exact A|exact B|intros l El; injection El as <-; reflexivity].
    - (* SAreas *)
      f_equal. apply (IH st (cached || false)); [exact I| |exact H]. rewrite orb_false_r. exact N.
    - (* SBin *)
      f_equal. apply (IH st (cached || false)); [exact I| |exact H]. rewrite orb_false_r. exact N.
    - (* SVia *)
      destruct (svia_spec st f I) as (G & I' & E1 & E2 & E3 & E4).
      destruct (svia st f) as [st' r] eqn:R. cbn in *. subst r. f_equal.
      rewrite <- E1, <- E2, <- E3, <- E4. apply (IH st' (cached || true)); [exact I'| |exact H].
      rewrite orb_true_r. discriminate.
    - (* SHeld: reads the current map, never the cached grid *)
      f_equal. apply (IH st (cached || false)); [exact I| |exact H]. rewrite orb_false_r. exact N.
    - (* SEdit: allowed only while nothing is cached *)
      apply andb_prop in H. destruct H as [Hc H]. apply negb_true_iff in Hc. subst cached.
      destruct (N eq_refl) as (N1 & N2 & N3). f_equal.
      apply (IH (mkS (s_mask st) (s_ps st) (s_og st) (set_nth i s (s_ss st)) (c_grid st) (c_slim st) (c_native st)) false);
        [apply nocache_inv; repeat split; assumption|intros _; repeat split; assumption|exact H].
  Qed.

  (* THEOREM (one OverSamplerUniform, any history): every result equals the pure function of the current contents *)
  Theorem sampler_history_pure : forall m (ps og : Num * Num) ss ops,
    edits_before_caches false ops = true ->
    srun (sampler_new m ps og ss) ops = spure_run m ps og ss ops.
  Proof.
    intros m ps og ss ops H.
    apply (srun_pure_gen ops (sampler_new m ps og ss) false);
      [apply nocache_inv; repeat split|intros _; repeat split|exact H].
  Qed.
  (* without edits: every result is the pure function of the constructor arguments, whatever was called before *)
  Lemma spure_run_no_edit : forall m (ps og : Num * Num) ss ops,
    forallb (fun op => match op with SEdit _ _ => false | _ => true end) ops = true ->
    spure_run m ps og ss ops = map (spure m ps og ss) ops.
  Proof.
    induction ops as [|op ops IH]; intros H; [reflexivity|]. cbn in H. apply andb_prop in H. destruct H as [H1 H2].
    cbn [spure_run map]. f_equal. destruct op; cbn [ss_after]; try (apply IH; exact H2). discriminate.
  Qed.
  Lemma no_edit_ok : forall ops cached,
    forallb (fun op : @sop O => match op with SEdit _ _ => false | _ => true end) ops = true ->
    edits_before_caches cached ops = true.
  Proof.
    induction ops as [|op ops IH]; intros cached H; [reflexivity|]. cbn in H. apply andb_prop in H. destruct H as [H1 H2].
    destruct op; cbn [edits_before_caches]; try (apply IH; exact H2). discriminate.
  Qed.
  Theorem sampler_history_no_edit : forall m (ps og : Num * Num) ss ops,
    forallb (fun op => match op with SEdit _ _ => false | _ => true end) ops = true ->
    srun (sampler_new m ps og ss) ops = map (spure m ps og ss) ops.
  Proof.
    intros. rewrite sampler_history_pure by (apply no_edit_ok; assumption). apply spure_run_no_edit. assumption.
  Qed.

  (* ---------------------------------------------------------------- one Grid2D object *)
  Definition smp_ok (g : @gridobj O) (smp : @osampler O) : Prop :=
    match g_os g, smp with
    | OSUniformInt s, OSU st =>
        cache_inv st /\ s_mask st = g_mask g /\ s_ps st = g_ps g /\ s_og st = g_og g /\ s_ss st = full_sub_size (g_mask g) s
    | OSUniformMap ss, OSU st =>
        cache_inv st /\ s_mask st = g_mask g /\ s_ps st = g_ps g /\ s_og st = g_og g /\ s_ss st = ss
    | OSIterate thr rel steps, OSI thr' rel' steps' => thr' = thr /\ rel' = rel /\ steps' = steps
    | _, _ => False
    end.
  Definition grid_inv (g : @gridobj O) : Prop := forall smp, g_smp g = Some smp -> smp_ok g smp.

  Lemma over_sampler_from_ok g : smp_ok g (over_sampler_from (g_os g) (g_mask g) (g_ps g) (g_og g)).
  Proof.
    unfold smp_ok, over_sampler_from. destruct (g_os g); cbn.
    - split; [apply nocache_inv; repeat split|repeat split].
    - split; [apply nocache_inv; repeat split|repeat split].
    - repeat split.
  Qed.

  Lemma gcall_spec g f : grid_inv g ->
    snd (gcall g f) = decorated f (g_mask g) (g_ps g) (g_og g) (g_vals g) (g_os g) /\
    grid_inv (fst (gcall g f)) /\
    g_mask (fst (gcall g f)) = g_mask g /\ g_ps (fst (gcall g f)) = g_ps g /\ g_og (fst (gcall g f)) = g_og g /\
    g_vals (fst (gcall g f)) = g_vals g /\ g_os (fst (gcall g f)) = g_os g.
  Proof.
    intros I. unfold gcall, decorated.
    destruct (negb (perform_over_sampling (g_mask g) (g_os g))) eqn:P; cbn [fst snd].
    - split; [reflexivity|]. split; [exact I|repeat split].
    - set (smp := match g_smp g with Some s => s | None => over_sampler_from (g_os g) (g_mask g) (g_ps g) (g_og g) end).
      assert (K : smp_ok g smp).
      { unfold smp. destruct (g_smp g) as [s|] eqn:E; [apply I; exact E|apply over_sampler_from_ok]. }
      unfold smp_ok in K. destruct smp as [st|thr' rel' steps'].
      + destruct (g_os g) as [s|ss|thr rel steps] eqn:Eos; [| |contradiction].
        * destruct K as (Ci & E1 & E2 & E3 & E4).
          destruct (svia_spec st f Ci) as (G & I' & F1 & F2 & F3 & F4).
          destruct (svia st f) as [st' r] eqn:R. cbn [fst snd] in *. subst r.
          rewrite E1, E2, E3, E4. split; [reflexivity|]. split; [|repeat split; cbn; auto].
          intros smp' Es. cbn in Es. injection Es as <-. unfold smp_ok. cbn [g_os g_mask g_ps g_og].
          split; [exact I'|]. repeat split; congruence.
        * destruct K as (Ci & E1 & E2 & E3 & E4).
          destruct (svia_spec st f Ci) as (G & I' & F1 & F2 & F3 & F4).
          destruct (svia st f) as [st' r] eqn:R. cbn [fst snd] in *. subst r.
          rewrite E1, E2, E3, E4. split; [reflexivity|]. split; [|repeat split; cbn; auto].
          intros smp' Es. cbn in Es. injection Es as <-. unfold smp_ok. cbn [g_os g_mask g_ps g_og].
          split; [exact I'|]. repeat split; congruence.
      + destruct (g_os g) as [s|ss|thr rel steps] eqn:Eos; [contradiction|contradiction|].
        destruct K as (-> & -> & ->). cbn [fst snd]. split; [reflexivity|]. split; [|repeat split; cbn; auto].
        intros smp' Es. cbn in Es. injection Es as <-. unfold smp_ok. cbn [g_os]. repeat split.
  Qed.

  Lemma grun_pure_gen : forall fs (g : @gridobj O), grid_inv g ->
    grun g fs = map (fun f => decorated f (g_mask g) (g_ps g) (g_og g) (g_vals g) (g_os g)) fs.
  Proof.
    induction fs as [|f fs IH]; intros g I; [reflexivity|].
    cbn [grun map]. destruct (gcall_spec g f I) as (G & I' & E1 & E2 & E3 & E4 & E5).
    destruct (gcall g f) as [g' r] eqn:R. cbn [fst snd] in *. subst r. f_equal.
    rewrite (IH g' I'), E1, E2, E3, E4, E5. reflexivity.
  Qed.

  (* THEOREM (one Grid2D object, k decorated calls): every result equals the decorated call on a fresh grid *)
  Theorem grid_history_pure : forall m (ps og : Num * Num) vals os fs,
    grun (grid_new m ps og vals os) fs = map (fun f => decorated f m ps og vals os) fs.
  Proof.
    intros. apply (grun_pure_gen fs (grid_new m ps og vals os)). intros smp E. discriminate.
  Qed.
End HistProofs.

(* ---- histories against the closed-form specification (at the reals): compose with the theorems of Proofs/C09.v *)
Theorem grid_history_uniform_map_spec : forall m (ps og : R * R) ss (fs : list (R * R -> R)),
  shape_okP m ss -> ps_okR ps ->
  @grun ROps (@grid_new ROps m ps og (@grid_slim_via_mask ROps m ps og) (@OSUniformMap ROps ss)) fs
  = map (fun f => Ok (@spec_via_func ROps f m ps og ss)) fs.
Proof.
  intros m ps og ss fs Hs Hp. rewrite grid_history_pure. apply map_ext. intros f. apply decorator_uniform_map; assumption.
Qed.
Theorem grid_history_uniform_int_spec : forall m (ps og : R * R) s (fs : list (R * R -> R)),
  (1 <= s)%nat -> ps_okR ps ->
  @grun ROps (@grid_new ROps m ps og (@grid_slim_via_mask ROps m ps og) (@OSUniformInt ROps s)) fs
  = map (fun f => Ok (@spec_via_func ROps f m ps og (repeat s (length (unmasked m))))) fs.
Proof.
  intros m ps og s fs Hs Hp. rewrite grid_history_pure. apply map_ext. intros f. apply decorator_uniform_int; assumption.
Qed.
Theorem grid_history_iterate_spec : forall m (ps og : R * R) vals thr rel steps (fs : list (R * R -> R)),
  ps_okR ps -> thr_okR thr -> steps <> [] -> Forall (fun s => (1 <= s)%nat) steps ->
  Forall (fun f => level0_nonzero f m ps og) fs ->
  @grun ROps (@grid_new ROps m ps og vals (@OSIterate ROps thr rel steps)) fs
  = map (fun f => Ok (@spec_iterate ROps f m ps og thr rel steps)) fs.
Proof.
  intros m ps og vals thr rel steps fs Hp Ht Hn Hs Hf. rewrite grid_history_pure. apply map_ext_in. intros f Hin.
  apply decorator_iterate; try assumption. rewrite Forall_forall in Hf. apply Hf. exact Hin.
Qed.
