(* C16 -- FITS output followed by input reproduces values, orientation and pixel scale.
   Statements only.  The model (Model/C16.v) follows the code after the repairs 9d3d532 (fixes/C16_array1d_hdu_flip.diff) and
   770955c (fixes/C16_anisotropic_pixel_scale_header.diff).  The value statements hold for EVERY number
   system [O : NumOps] satisfying the five laws [lawful O] (Proofs/C16.v: x == x; x == y only for equal values;
   1 != 0; x * 1 = x; x / 1 = x) -- in particular for the real numbers (C16_reals_are_lawful); arrays are lists of rows of ANY
   lengths (1xN, Nx1, non-square and even ragged), [flip] is general.fits.flip_for_ds9 and is universally quantified
   in every statement.  astropy's codec (identity on float64 data and PIXSCALE* cards) and the file system are the
   oracles described at the top of Model/C16.v; a file is a list of HDUs, a freshly written one holds exactly one, so
   the only valid hdu indices are 0 and -1 ([sole_index]).
   Hypotheses on the file system: [fs_wf] (every ancestor of a file or directory is a directory -- an invariant of real
   directory trees, preserved by the write: C16_write_keeps_tree_wellformed), [target_ok] (the target is not a directory
   and no ancestor of it is a file), [fresh_or_overwrite] (overwrite requested, or nothing at the target). *)
From Coq Require Import ZArith QArith Reals List Bool.
Close Scope Q_scope.
From PAV Require Import Base.NumOps Base.Check Model.C16 Proofs.C16 Proofs.C16img Model.C16h Proofs.C16h.
Import ListNotations.

(* ------------------------------------------------------------------ values and orientation *)
(* Array2D(values, mask): native form = the input with zeros at the masked pixels *)
Theorem C16_masked_array_native_is_zero_filled : forall (O : NumOps) (L : lawful O) (vals : list (list (T O))) mask sc,
  same_len2 vals mask = true ->
  exists a, @Array2D_new O vals mask sc = FOk a
    /\ Array2D_native a = @zero_fill O mask vals /\ a_mask a = mask /\ a_scales a = sc.
Proof. exact @Array2D_new_native. Qed.

(* HDU route, either flag value: hdu_for_output then from_primary_hdu (Array2D and Kernel2D share the text) gives back
   the native values, on an unmasked array, with the pixel scales recovered from the header alone *)
Theorem C16_roundtrip_values_hdu : forall (O : NumOps) (L : lawful O) flip (a : @array2d O),
  exists a', Array2D_from_primary_hdu flip (Array2D_hdu_for_output flip a) = FOk a'
    /\ Array2D_native a' = Array2D_native a
    /\ a_mask a' = all_false2 (Array2D_native a)
    /\ a_scales a' = a_scales a.
Proof. exact @Array2D_hdu_roundtrip. Qed.
(* ... so a masked array reads back with zeros at the masked pixels *)
Theorem C16_masked_array_reads_zeros : forall (O : NumOps) (L : lawful O) flip (vals : list (list (T O))) mask sc,
  same_len2 vals mask = true ->
  exists a a', @Array2D_new O vals mask sc = FOk a
    /\ Array2D_from_primary_hdu flip (Array2D_hdu_for_output flip a) = FOk a'
    /\ Array2D_native a' = @zero_fill O mask vals
    /\ a_mask a' = all_false2 (@zero_fill O mask vals)
    /\ a_scales a' = sc.
Proof. exact @Array2D_masked_hdu_roundtrip. Qed.

(* file route, either flag value: output_to_fits then from_fits(hdu = 0 or -1); both header objects determine the
   pixel scales of the written array *)
Theorem C16_roundtrip_values_file : forall (O : NumOps) (L : lawful O) flip (fs : fitsfs (T O) (list (T O))) (a : @array2d O) p ow sc k,
  fs_wf fs = true -> target_ok fs p = true -> fresh_or_overwrite fs p ow = true -> sole_index k = true ->
  exists fs' a' hs hh,
    Array2D_output_to_fits flip fs a p ow = (fs', None)
    /\ Array2D_from_fits flip fs' p sc k = FOk (a', hs, hh)
    /\ Array2D_native a' = Array2D_native a
    /\ a_mask a' = all_false2 (Array2D_native a)
    /\ a_scales a' = sc
    /\ pixel_scales_via_header_from hs = FOk (a_scales a)
    /\ pixel_scales_via_header_from hh = FOk (a_scales a).
Proof. exact @Array2D_file_roundtrip. Qed.
Theorem C16_file_other_hdu_index_raises : forall (O : NumOps) flip (fs : fitsfs (T O) (list (T O))) (a : @array2d O) p ow sc k,
  fs_wf fs = true -> target_ok fs p = true -> fresh_or_overwrite fs p ow = true -> sole_index k = false ->
  Array2D_from_fits flip (fst (Array2D_output_to_fits flip fs a p ow)) p sc k = FRaise IndexErr.
Proof. exact @Array2D_file_bad_hdu. Qed.
Theorem C16_roundtrip_kernel_file : forall (O : NumOps) (L : lawful O) flip (fs : fitsfs (T O) (list (T O))) (a : @array2d O) p ow sc k,
  fs_wf fs = true -> target_ok fs p = true -> fresh_or_overwrite fs p ow = true -> sole_index k = true ->
  exists fs' a' hs hh,
    Array2D_output_to_fits flip fs a p ow = (fs', None)
    /\ Kernel2D_from_fits flip fs' p k sc false = FOk (a', hs, hh)
    /\ Array2D_native a' = Array2D_native a
    /\ a_scales a' = sc
    /\ pixel_scales_via_header_from hs = FOk (a_scales a).
Proof. exact @Kernel2D_file_roundtrip. Qed.

(* ------------------------------------------------------------------ masks *)
Theorem C16_roundtrip_mask_bools_hdu : forall (O : NumOps) (L : lawful O) flip (m : @mask2d O),
  Mask2D_from_primary_hdu flip (Mask2D_hdu_for_output flip m) = FOk m.
Proof. exact @Mask2D_hdu_roundtrip. Qed.
Theorem C16_roundtrip_mask_bools_file : forall (O : NumOps) (L : lawful O) flip (fs : fitsfs (T O) (list (T O))) (m : @mask2d O) p ow sc k inv,
  fs_wf fs = true -> target_ok fs p = true -> fresh_or_overwrite fs p ow = true -> sole_index k = true ->
  exists fs',
    Mask2D_output_to_fits flip fs m p ow = (fs', None)
    /\ Mask2D_from_fits flip fs' p sc k None inv
       = FOk (mkmask2 (if inv then map (map negb) (m_mask m) else m_mask m) sc)
    /\ (do h <- header_obj_from fs' p k; pixel_scales_via_header_from h) = FOk (m_scales m).
Proof. exact @Mask2D_file_roundtrip. Qed.

(* ------------------------------------------------------------------ pixel scale via the header *)
Theorem C16_roundtrip_pixel_scale : forall (O : NumOps) (L : lawful O) (sy sx : T O),
  @pixel_scales_via_header_from O (@pixel_scale_header O (@scales2 O (sy, sx))) = FOk (sy, sx).
Proof. exact @pixel_scale_header_roundtrip. Qed.
Theorem C16_header_isotropic_is_PIXSCALE : forall (O : NumOps) (L : lawful O) (s : T O),
  @pixel_scale_header O (@scales2 O (s, s)) = [(PIXSCALE, s)].
Proof. exact @pixel_scale_header_iso. Qed.
Theorem C16_header_anisotropic_is_PIXSCALEY_X : forall (O : NumOps) (L : lawful O) (sy sx : T O), sy <> sx ->
  @pixel_scale_header O (@scales2 O (sy, sx)) = [(PIXSCALEY, sy); (PIXSCALEX, sx)].
Proof. exact @pixel_scale_header_aniso. Qed.

(* ------------------------------------------------------------------ one dimension *)
Theorem C16_array1d_native_is_zero_filled : forall (O : NumOps) (L : lawful O) (vals : list (T O)) mask sc, length vals = length mask ->
  Array1D_native (@Array1D_new O vals mask sc) = @zero_fill_row O mask vals
  /\ b_mask (@Array1D_new O vals mask sc) = mask /\ b_scale (@Array1D_new O vals mask sc) = sc.
Proof. exact @Array1D_new_native. Qed.
Theorem C16_roundtrip_array1d_hdu : forall (O : NumOps) (L : lawful O) flip (a : @array1d O),
  exists a', Array1D_from_primary_hdu (Array1D_hdu_for_output flip a) = FOk a'
    /\ Array1D_native a' = Array1D_native a
    /\ b_mask a' = all_false1 (Array1D_native a)
    /\ b_scale a' = b_scale a.
Proof. exact @Array1D_hdu_roundtrip. Qed.
Theorem C16_masked_array1d_reads_zeros : forall (O : NumOps) (L : lawful O) flip (vals : list (T O)) mask sc, length vals = length mask ->
  exists a', Array1D_from_primary_hdu (Array1D_hdu_for_output flip (@Array1D_new O vals mask sc)) = FOk a'
    /\ Array1D_native a' = @zero_fill_row O mask vals
    /\ b_scale a' = sc.
Proof. exact @Array1D_masked_hdu_roundtrip. Qed.
Theorem C16_roundtrip_array1d_file : forall (O : NumOps) (L : lawful O) (fs : fitsfs (T O) (T O)) (a : @array1d O) p ow sc k,
  fs_wf fs = true -> target_ok fs p = true -> fresh_or_overwrite fs p ow = true -> sole_index k = true ->
  exists fs' a' hs hh,
    Array1D_output_to_fits fs a p ow = (fs', None)
    /\ Array1D_from_fits fs' p sc k = FOk (a', hs, hh)
    /\ Array1D_native a' = Array1D_native a
    /\ b_mask a' = all_false1 (Array1D_native a)
    /\ b_scale a' = sc
    /\ hlookup PIXSCALE hs = Some (b_scale a) /\ hlookup PIXSCALE hh = Some (b_scale a).
Proof. exact @Array1D_file_roundtrip. Qed.
Theorem C16_roundtrip_mask1d_hdu : forall (O : NumOps) (L : lawful O) (m : @mask1d O), Mask1D_from_primary_hdu (Mask1D_hdu_for_output m) = FOk m.
Proof. exact @Mask1D_hdu_roundtrip. Qed.
Theorem C16_roundtrip_mask1d_file : forall (O : NumOps) (L : lawful O) (fs : fitsfs (T O) (T O)) (m : @mask1d O) p ow sc k,
  fs_wf fs = true -> target_ok fs p = true -> fresh_or_overwrite fs p ow = true -> sole_index k = true ->
  exists fs',
    Mask1D_output_to_fits fs m p ow = (fs', None)
    /\ Mask1D_from_fits fs' p sc k = FOk (mkmask1 (n_mask m) sc)
    /\ (do h <- header_obj_from fs' p k; FOk (hlookup PIXSCALE h)) = FOk (Some (n_scale m)).
Proof. exact @Mask1D_file_roundtrip. Qed.

(* ------------------------------------------------------------------ every output_to_fits is the one write sequence
   applied to the one-HDU content [hdu_for_output]: the file route and the HDU route carry the same data *)
Theorem C16_array2d_output_is_write_of_hdu : forall (O : NumOps) flip (fs : fitsfs (T O) (list (T O))) (a : @array2d O) p ow,
  Array2D_output_to_fits flip fs a p ow = to_fits fs p ow [Array2D_hdu_for_output flip a].
Proof. exact @Array2D_output_is_to_fits. Qed.
Theorem C16_mask2d_output_is_write_of_hdu : forall (O : NumOps) flip (fs : fitsfs (T O) (list (T O))) (m : @mask2d O) p ow,
  Mask2D_output_to_fits flip fs m p ow = to_fits fs p ow [Mask2D_hdu_for_output flip m].
Proof. exact @Mask2D_output_is_to_fits. Qed.
Theorem C16_array1d_output_is_write_of_hdu : forall (O : NumOps) flip (fs : fitsfs (T O) (T O)) (a : @array1d O) p ow,
  Array1D_output_to_fits fs a p ow = to_fits fs p ow [Array1D_hdu_for_output flip a].
Proof. exact @Array1D_output_is_to_fits. Qed.
Theorem C16_mask1d_output_is_write_of_hdu : forall (O : NumOps) (fs : fitsfs (T O) (T O)) (m : @mask1d O) p ow,
  Mask1D_output_to_fits fs m p ow = to_fits fs p ow [Mask1D_hdu_for_output m].
Proof. exact @Mask1D_output_is_to_fits. Qed.

(* ------------------------------------------------------------------ paths, overwrite, directories (any file content C) *)
(* the code's sequence split / exists / makedirs / remove / writeto computes exactly the specified write *)
Theorem C16_write_sequence_meets_spec : forall (C : Type) (fs : fsys C) p ow c,
  fs_wf fs = true -> target_ok fs p = true -> to_fits fs p ow c = write_spec fs p ow c.
Proof. exact @to_fits_meets_spec. Qed.
Theorem C16_write_existing_without_overwrite_fails_and_preserves : forall (C : Type) (fs : fsys C) p c,
  fs_wf fs = true -> target_ok fs p = true -> is_file fs p = true ->
  to_fits fs p false c = (fs, Some FileExists).
Proof. exact @to_fits_existing_without_overwrite. Qed.
Theorem C16_overwrite_replaces : forall (C : Type) (fs : fsys C) p c,
  fs_wf fs = true -> target_ok fs p = true ->
  exists fs', to_fits fs p true c = (fs', None)
    /\ lookup (files fs') p = Some c
    /\ (forall q, q <> p -> lookup (files fs') q = lookup (files fs) q).
Proof. exact @overwrite_replaces. Qed.
Theorem C16_missing_dirs_created : forall (C : Type) (fs : fsys C) p ow c,
  fs_wf fs = true -> target_ok fs p = true -> fresh_or_overwrite fs p ow = true ->
  exists fs', to_fits fs p ow c = (fs', None)
    /\ (forall q, In q (prefixes (dirname p)) -> is_dir fs' q = true)
    /\ (forall q, is_dir fs q = true -> is_dir fs' q = true)
    /\ (forall q, is_dir fs' q = true -> is_dir fs q = true \/ In q (prefixes (dirname p)))
    /\ lookup (files fs') p = Some c.
Proof. exact @missing_dirs_created. Qed.
Theorem C16_bare_name_writes_cwd : forall (C : Type) (fs : fsys C) (name : nat) ow c,
  fs_wf fs = true -> target_ok fs [name] = true -> fresh_or_overwrite fs [name] ow = true ->
  exists fs', to_fits fs [name] ow c = (fs', None)
    /\ dirs fs' = dirs fs
    /\ lookup (files fs') [name] = Some c
    /\ (forall q, q <> [name] -> lookup (files fs') q = lookup (files fs) q).
Proof. exact @bare_name_writes_cwd. Qed.
Theorem C16_write_keeps_tree_wellformed : forall (C : Type) (fs : fsys C) p ow c,
  fs_wf fs = true -> target_ok fs p = true -> fs_wf (fst (to_fits fs p ow c)) = true.
Proof. exact @to_fits_keeps_wf. Qed.

(* ------------------------------------------------------------------ Imaging.output_to_fits -> Imaging.from_fits
   three sequential writes (data, psf, noise map) to pairwise independent targets ([indep]: neither path is the other
   nor an ancestor directory of the other), then the three reads; from_fits re-normalises the PSF, so it comes back
   divided by the sum of its entries -- unchanged when that sum is one (which Imaging's own constructor ensures) *)
Theorem C16_imaging_roundtrip : forall (O : NumOps) (L : lawful O) flip (fs : fitsfs (T O) (list (T O))) (data noise psf : @array2d O) pd pp pn ow sc chk,
  fs_wf fs = true ->
  target_ok fs pd = true -> target_ok fs pp = true -> target_ok fs pn = true ->
  fresh_or_overwrite fs pd ow = true -> fresh_or_overwrite fs pp ow = true -> fresh_or_overwrite fs pn ow = true ->
  indep pd pp = true -> indep pd pn = true -> indep pp pn = true ->
  chk && negb (forallb (fun v => negb (leb O v zero)) (concat (Array2D_native noise))) = false ->
  exists fs3 d n k,
    Imaging_output_to_fits flip fs data noise psf pd pp pn ow = (fs3, None)
    /\ Imaging_from_fits flip fs3 sc pd pp pn chk = FOk (d, n, k)
    /\ Array2D_native d = Array2D_native data /\ a_scales d = sc
    /\ Array2D_native n = Array2D_native noise /\ a_scales n = sc
    /\ Array2D_native k = map (map (fun x => div O x (sumT (concat (Array2D_native psf))))) (Array2D_native psf)
    /\ a_scales k = sc.
Proof. exact @Imaging_roundtrip. Qed.
Theorem C16_imaging_roundtrip_normalized_psf :
  forall (O : NumOps) (L : lawful O) flip (fs : fitsfs (T O) (list (T O))) (data noise psf : @array2d O) pd pp pn ow sc chk,
  fs_wf fs = true ->
  target_ok fs pd = true -> target_ok fs pp = true -> target_ok fs pn = true ->
  fresh_or_overwrite fs pd ow = true -> fresh_or_overwrite fs pp ow = true -> fresh_or_overwrite fs pn ow = true ->
  indep pd pp = true -> indep pd pn = true -> indep pp pn = true ->
  chk && negb (forallb (fun v => negb (leb O v zero)) (concat (Array2D_native noise))) = false ->
  sumT (concat (Array2D_native psf)) = @one O ->
  exists fs3 d n k,
    Imaging_output_to_fits flip fs data noise psf pd pp pn ow = (fs3, None)
    /\ Imaging_from_fits flip fs3 sc pd pp pn chk = FOk (d, n, k)
    /\ Array2D_native d = Array2D_native data
    /\ Array2D_native n = Array2D_native noise
    /\ Array2D_native k = Array2D_native psf.
Proof. exact @Imaging_roundtrip_normalized_psf. Qed.

(* ------------------------------------------------------------------ non-vacuity *)
(* file-system hypotheses: a tree with directory 1, a file 1/10 and a bystander 19; targets: the existing file
   (overwrite), a bare name, a path below two missing directories *)
Definition ex_fs : fsys nat := mkfs [[1]]%nat [([1; 10], 7); ([19], 8)]%nat.
Example C16_fs_hyps_satisfiable :
  fs_wf ex_fs = true
  /\ (target_ok ex_fs [1; 10] = true /\ is_file ex_fs [1; 10] = true /\ fresh_or_overwrite ex_fs [1; 10] true = true)
  /\ (target_ok ex_fs [10] = true /\ fresh_or_overwrite ex_fs [10] false = true)
  /\ (target_ok ex_fs [2; 3; 10] = true /\ fresh_or_overwrite ex_fs [2; 3; 10] false = true)
  /\ (indep [1; 10] [1; 11] = true /\ indep [1; 10] [12] = true /\ indep [1; 11] [12] = true /\ indep [1] [1; 10] = false)%nat
  /\ sole_index 0%Z = true /\ sole_index (-1)%Z = true /\ sole_index 1%Z = false
  /\ to_fits ex_fs [2; 3; 10] false 9 = (mkfs [[1]; [2]; [2; 3]] [([1; 10], 7); ([19], 8); ([2; 3; 10], 9)], None)%nat
  /\ to_fits ex_fs [1; 10] true 9 = (mkfs [[1]] [([19], 8); ([1; 10], 9)], None)%nat
  /\ to_fits ex_fs [1; 10] false 9 = (ex_fs, Some FileExists)
  /\ to_fits ex_fs [10] false 9 = (mkfs [[1]] [([1; 10], 7); ([19], 8); ([10], 9)], None)%nat.
Proof. vm_compute. repeat split. Qed.
(* shape hypotheses: a non-square 2x3 array with a masked pixel; a 1-D array with a masked pixel; unequal scales *)
Local Notation RO := ROps.
(* the laws assumed of the number system hold for the reals *)
Theorem C16_reals_are_lawful : lawful ROps.
Proof. exact reals_lawful. Qed.
Example C16_shape_hyps_satisfiable :
  same_len2 [[1; -2; 3]; [4; 5; -6]]%R [[false; true; false]; [false; false; false]] = true
  /\ length [1; -2; 3]%R = length [false; true; false]
  /\ (1 <> 2)%R.
Proof. repeat split. apply R1_neq_R0 || (intro H; apply eq_IZR in H; discriminate). Qed.
(* value hypotheses of the Imaging statements: a positive noise map with the check on, a PSF summing to one *)
Example C16_imaging_value_hyps_satisfiable :
  let noise := @mkarr2 RO [1; 2; 4]%R [[false; false; false]] (1, 1)%R in
  let psf := @mkarr2 RO [/ 2; / 4; / 4]%R [[false; false; false]] (1, 1)%R in
  true && negb (forallb (fun v => negb (leb RO v zero)) (concat (Array2D_native noise))) = false
  /\ sumT (concat (Array2D_native psf)) = @one RO.
Proof. exact imaging_value_hyps_satisfiable. Qed.
(* the model RUN (at Q) on a non-symmetric 2x3 array with a masked pixel and anisotropic scales, flag on: what is
   written is upside-down, what is read back is the zero-filled input with the scales (1/2, 1/4) *)
Example C16_model_run_flip :
  let vals := [[1; -2; 3]; [4; 5; -6]]%Q in
  let mask := [[false; true; false]; [false; false; false]] in
  match @Array2D_new QOps vals mask (1 # 2, 1 # 4)%Q with
  | FOk a =>
      let h := Array2D_hdu_for_output true a in
      list_eqb (list_eqb Qeq_bool) (hdata h) [[4; 5; -6]; [1; 0; 3]]%Q
      && hdr_eqb (hhdr h) [(PIXSCALEY, 1 # 2); (PIXSCALEX, 1 # 4)]%Q
      && fres_eqb obs2_eqb (observe2h (Array2D_from_primary_hdu true h))
           (FOk ([[1; 0; 3]; [4; 5; -6]], all_false2 vals, (1 # 2, 1 # 4), [], []))%Q
  | FRaise _ => false
  end = true.
Proof. vm_compute. reflexivity. Qed.

(* ------------------------------------------------------------------ phase 2: DERIVED and RE-USED objects (Model/C16h.v)
   A history = one Array2D / Kernel2D / Array1D built with any store_native (and, in 2-D, either value of
   general.structures.native_binned_only), then any list of steps: arithmetic with scalars and with another array
   (the RAW buffer is operated on, masked pixels included), .native, .slim, .copy(), `other = obj`, swapping the two names,
   in-place assignments obj[k] = v / obj[y, x] = v, changes of flip_for_ds9, and the observations np.array(obj.native),
   hdu_for_output -> from_primary_hdu, output_to_fits -> from_fits, each any number of times.
   The statements need one more law of the number system: x * 0 = 0 (C16_reals_mul_zero). *)
(* whatever the stored buffer holds at masked pixels, the content an array shows has zeros there *)
Theorem C16_stored_array_content_is_zero_at_masked : forall (O : NumOps) (a : @sarr O),
  zero_fill (s_mask a) (logical a) = logical a.
Proof. exact @logical_zero_filled. Qed.
(* hdu_for_output / output_to_fits of a stored array write that content (not the buffer) *)
Theorem C16_stored_array_hdu_is_content : forall (O : NumOps) (L : lawful O) (Lz : forall x : T O, mul O x (@zero O) = @zero O)
  nbo flip (a : @sarr O), sarr_wf a ->
  sarr_hdu_for_output nbo flip a = FOk (hdu_for_output_from_2d flip (logical a) (pixel_scale_header (scales2 (s_scales a)))).
Proof. exact @sarr_hdu_logical. Qed.
Theorem C16_stored_array_output_is_write_of_content : forall (O : NumOps) (L : lawful O) (Lz : forall x : T O, mul O x (@zero O) = @zero O)
  nbo flip fs (a : @sarr O) p ow, sarr_wf a ->
  sarr_output_to_fits nbo flip fs a p ow
  = FOk (to_fits fs p ow [hdu_for_output_from_2d flip (logical a) (pixel_scale_header (scales2 (s_scales a)))]).
Proof. exact @sarr_output_logical. Qed.
(* every history of a 2-D array on which no step raises shows exactly what the same history shows on the logical content
   zero_fill mask vals, evolved by the pure functions lop2 / lbop2 / lset1_2 / lset2_2 of Model/C16h.v *)
Theorem C16_history_array2d_is_history_of_content : forall (O : NumOps) (L : lawful O) (Lz : forall x : T O, mul O x (@zero O) = @zero O)
  nbo is_kernel sc_read sn (vals : list (list (T O))) mask sc flip fs steps, same_len2 vals mask = true ->
  exists a, sarr_init nbo (BNative vals) mask sc sn false = FOk a /\
    (no_err (hrun (class_arr2 nbo is_kernel sc_read) steps (@mkhst O _ _ a a true flip fs)) = true ->
     hrun (class_arr2 nbo is_kernel sc_read) steps (@mkhst O _ _ a a true flip fs)
     = hrun (class_log2 mask sc is_kernel sc_read) steps (@mkhst O _ _ (zero_fill mask vals) (zero_fill mask vals) true flip fs)).
Proof. exact @hist2_refines. Qed.
Theorem C16_history_array1d_is_history_of_content : forall (O : NumOps) (L : lawful O) (Lz : forall x : T O, mul O x (@zero O) = @zero O)
  sc_read sn (vals : list (T O)) mask sc flip fs steps, length vals = length mask ->
  let a := mkarr1 (convert_array_1d vals mask sn) mask sc in
  no_err (hrun (class_arr1 sc_read) steps (@mkhst O _ _ a a true flip fs)) = true ->
  hrun (class_arr1 sc_read) steps (@mkhst O _ _ a a true flip fs)
  = hrun (class_log1 mask sc sc_read) steps (@mkhst O _ _ (zero_fill_row mask vals) (zero_fill_row mask vals) true flip fs).
Proof. exact @hist1_refines. Qed.
(* on the content itself: the HDU written holds the content (upside-down when the flag is on) and reads back as the content,
   unmasked, with the scales of the cards; the file route likewise on a well-formed tree *)
Theorem C16_content_roundtrip_hdu : forall (O : NumOps) (L : lawful O) mask sc is_kernel sc_read flip (g : list (list (T O))),
  exists h, h_hdu _ _ _ (class_log2 mask sc is_kernel sc_read) flip g = FOk h
    /\ hdata h = (if flip then rev g else g)
    /\ h_read_hdu _ _ _ (class_log2 mask sc is_kernel sc_read) flip h = FOk (g, all_false2 g, sc, [], []).
Proof. exact @log2_hdu_roundtrip. Qed.
Theorem C16_content_roundtrip_file : forall (O : NumOps) (L : lawful O) mask sc is_kernel sc_read flip
  (fs : fitsfs (T O) (list (T O))) (g : list (list (T O))) p ow k,
  fs_wf fs = true -> target_ok fs p = true -> fresh_or_overwrite fs p ow = true -> sole_index k = true ->
  exists fs' m hs hh,
    h_write _ _ _ (class_log2 mask sc is_kernel sc_read) flip fs g p ow
      = FOk (to_fits fs p ow [hdu_for_output_from_2d flip g (pixel_scale_header (scales2 sc))])
    /\ to_fits fs p ow [hdu_for_output_from_2d flip g (pixel_scale_header (scales2 sc))] = (fs', None)
    /\ h_read_file _ _ _ (class_log2 mask sc is_kernel sc_read) flip fs' p k = FOk (g, m, sc_read, hs, hh)
    /\ pixel_scales_via_header_from hs = FOk sc.
Proof. exact @log2_file_roundtrip. Qed.
Theorem C16_reals_mul_zero : forall x : T ROps, mul ROps x (@zero ROps) = @zero ROps.
Proof. exact reals_mul_zero. Qed.
(* non-vacuity: a natively stored 2x3 array with a masked pixel under native_binned_only; arr + 5, an in-place write INTO the
   masked pixel, then the three observations: no step raises (reals) *)
Example C16_history_hyps_satisfiable :
  let vals := [[1; -2; 3]; [4; 5; -6]]%R in
  let mask := [[false; true; false]; [false; false; false]] in
  same_len2 vals mask = true
  /\ match @sarr_init ROps true (@BNative ROps vals) mask (1, 1)%R false false with
     | FOk a => no_err (hrun (@class_arr2 ROps true false (1, 1)%R)
                         [SOp (@PAdd ROps 5%R); @SSet2 ROps 0 1 7%R; SPeek; SHdu; SFile [10%nat] false 0%Z]
                         (@mkhst ROps _ _ a a true true (mkfs [] [])))
     | FRaise _ => false
     end = true.
Proof. split; reflexivity. Qed.
(* the model RUN (at Q) on that history: the buffer holds 5+... at the masked pixel, then 7; what is shown, written (flag on:
   upside-down) and read back has 0 there *)
Example C16_model_run_history :
  let vals := [[1; -2; 3]; [4; 5; -6]]%Q in
  let mask := [[false; true; false]; [false; false; false]] in
  match @sarr_init QOps true (@BNative QOps vals) mask (1, 1)%Q false false with
  | FOk a =>
      list_eqb (obsv_eqb row_eqb obs2_eqb)
        (hrun (@class_arr2 QOps true false (1, 1)%Q) [SOp (@PAdd QOps 5%Q); @SSet2 QOps 0 1 7%Q; SPeek; SHdu]
              (@mkhst QOps _ _ a a true true (mkfs [] [])))
        [@OPeek QOps _ _ [[6; 0; 8]; [9; 10; -1]]%Q;
         @OHdu QOps _ _ (mkhdu [[9; 10; -1]; [6; 0; 8]]%Q [(PIXSCALE, 1%Q)])
               (FOk ([[6; 0; 8]; [9; 10; -1]], all_false2 vals, (1, 1), [], []))%Q]
  | FRaise _ => false
  end = true.
Proof. vm_compute. reflexivity. Qed.

(* ---- phase 3: the readers are functions of the FILE alone.  Whatever wrote the file (another object, another class, other
   software), whatever was read or written before, and whatever the header says: Array2D.from_fits(p, pixel_scales = sc, hdu = k)
   returns the data of HDU k (turned back when flip_for_ds9 is on), unmasked, with the pixel scales of the ARGUMENT, the cards of
   HDU 0 as header_sci_obj and those of HDU k as header_hdu_obj; python indexing of the HDU list (negative k wraps), IndexError
   outside it, FileNotFoundError without a file.  (Cases KRead2 / KRead1 / KReadM2 / KReadM1 of the correspondence.) *)
Theorem C16_array2d_from_fits_is_function_of_file : forall (O : NumOps) (L : lawful O) flip (fs : fitsfs (T O) (list (T O))) p sc k hl h h0,
  lookup (files fs) p = Some hl -> py_nth hl k = Some h -> py_nth hl 0 = Some h0 ->
  exists a, Array2D_from_fits flip fs p sc k = FOk (a, hhdr h0, hhdr h)
    /\ Array2D_native a = flip_hdu_for_ds9 flip (hdata h)
    /\ a_mask a = all_false2 (flip_hdu_for_ds9 flip (hdata h)) /\ a_scales a = sc.
Proof. exact @Array2D_from_fits_of_file. Qed.
Theorem C16_array2d_from_fits_missing_file_raises : forall (O : NumOps) flip (fs : fitsfs (T O) (list (T O))) p sc k,
  lookup (files fs) p = None -> Array2D_from_fits flip fs p sc k = FRaise FileNotFound.
Proof. exact @Array2D_from_fits_no_file. Qed.
Theorem C16_array2d_from_fits_bad_index_raises : forall (O : NumOps) flip (fs : fitsfs (T O) (list (T O))) p sc k hl,
  lookup (files fs) p = Some hl -> py_nth hl k = None -> Array2D_from_fits flip fs p sc k = FRaise IndexErr.
Proof. exact @Array2D_from_fits_bad_index. Qed.
Theorem C16_array1d_from_fits_is_function_of_file : forall (O : NumOps) (L : lawful O) (fs : fitsfs (T O) (T O)) p sc k hl h h0,
  lookup (files fs) p = Some hl -> py_nth hl k = Some h -> py_nth hl 0 = Some h0 ->
  exists a, Array1D_from_fits fs p sc k = FOk (a, hhdr h0, hhdr h)
    /\ Array1D_native a = hdata h /\ b_mask a = all_false1 (hdata h) /\ b_scale a = sc.
Proof. exact @Array1D_from_fits_of_file. Qed.
(* non-vacuity: a two-HDU file, the second HDU selected with k = -1 *)
Example C16_reader_hyps_satisfiable :
  let h0 := @mkhdu R (list R) [[1; 2]]%R [(PIXSCALE, 3%R)] in
  let h1 := @mkhdu R (list R) [[4; 5]; [6; 7]]%R [(PIXSCALEY, 1%R); (PIXSCALEX, 2%R)] in
  let fs := @mkfs (list (@hdu R (list R))) [] [([7%nat], [h0; h1])] in
  lookup (files fs) [7%nat] = Some [h0; h1] /\ py_nth [h0; h1] (-1) = Some h1 /\ py_nth [h0; h1] 0 = Some h0.
Proof. cbv. auto. Qed.

Print Assumptions C16_masked_array_native_is_zero_filled.
Print Assumptions C16_roundtrip_values_hdu.
Print Assumptions C16_masked_array_reads_zeros.
Print Assumptions C16_roundtrip_values_file.
Print Assumptions C16_file_other_hdu_index_raises.
Print Assumptions C16_roundtrip_kernel_file.
Print Assumptions C16_roundtrip_mask_bools_hdu.
Print Assumptions C16_roundtrip_mask_bools_file.
Print Assumptions C16_roundtrip_pixel_scale.
Print Assumptions C16_header_isotropic_is_PIXSCALE.
Print Assumptions C16_header_anisotropic_is_PIXSCALEY_X.
Print Assumptions C16_array1d_native_is_zero_filled.
Print Assumptions C16_roundtrip_array1d_hdu.
Print Assumptions C16_masked_array1d_reads_zeros.
Print Assumptions C16_roundtrip_array1d_file.
Print Assumptions C16_roundtrip_mask1d_hdu.
Print Assumptions C16_roundtrip_mask1d_file.
Print Assumptions C16_array2d_output_is_write_of_hdu.
Print Assumptions C16_mask2d_output_is_write_of_hdu.
Print Assumptions C16_array1d_output_is_write_of_hdu.
Print Assumptions C16_mask1d_output_is_write_of_hdu.
Print Assumptions C16_write_sequence_meets_spec.
Print Assumptions C16_write_existing_without_overwrite_fails_and_preserves.
Print Assumptions C16_overwrite_replaces.
Print Assumptions C16_missing_dirs_created.
Print Assumptions C16_bare_name_writes_cwd.
Print Assumptions C16_write_keeps_tree_wellformed.
Print Assumptions C16_imaging_roundtrip.
Print Assumptions C16_imaging_roundtrip_normalized_psf.
Print Assumptions C16_reals_are_lawful.
Print Assumptions C16_stored_array_content_is_zero_at_masked.
Print Assumptions C16_stored_array_hdu_is_content.
Print Assumptions C16_stored_array_output_is_write_of_content.
Print Assumptions C16_history_array2d_is_history_of_content.
Print Assumptions C16_history_array1d_is_history_of_content.
Print Assumptions C16_content_roundtrip_hdu.
Print Assumptions C16_content_roundtrip_file.
Print Assumptions C16_reals_mul_zero.
Print Assumptions C16_array2d_from_fits_is_function_of_file.
Print Assumptions C16_array2d_from_fits_missing_file_raises.
Print Assumptions C16_array2d_from_fits_bad_index_raises.
Print Assumptions C16_array1d_from_fits_is_function_of_file.
