(* C10 -- lemmas, part 2: the edge scan, the border scan and the derived views. *)
From Coq Require Import ZArith List Bool Lia FinFun.
From PAV Require Import Base.Res Base.Check Model.C10 Proofs.C10.
Import ListNotations.
Local Open Scope Z_scope.

(* ------------------------------------------------------------------ generic folds *)
Lemma fold_left_filter {A B} (c : B -> bool) (f : A -> B -> A) l : forall a,
  fold_left (fun a b => if c b then f a b else a) l a = fold_left f (filter c l) a.
Proof. induction l as [|b t IH]; intros a; cbn; [reflexivity|]. destruct (c b); cbn; apply IH. Qed.

Lemma count_fold {B} (c : B -> bool) l : forall n,
  fold_left (fun tot b => if c b then S tot else tot) l n = (n + length (filter c l))%nat.
Proof.
  induction l as [|b t IH]; intros n; cbn; [lia|]. destruct (c b); cbn; rewrite IH; lia.
Qed.

Lemma append_fold {B} (c : B -> bool) l : forall acc,
  fold_left (fun acc b => if c b then acc ++ [b] else acc) l acc = acc ++ filter c l.
Proof.
  induction l as [|b t IH]; intros acc; cbn; [now rewrite app_nil_r|].
  destruct (c b); rewrite IH; [rewrite <- app_assoc|]; reflexivity.
Qed.

Lemma filter_filter {A} (f g : A -> bool) l : filter f (filter g l) = filter (fun a => g a && f a) l.
Proof. induction l as [|a t IH]; cbn; [reflexivity|]. destruct (g a); cbn; [destruct (f a)|]; now rewrite IH. Qed.

Lemma filter_ext_in' {A} (f g : A -> bool) l : (forall a, In a l -> f a = g a) -> filter f l = filter g l.
Proof.
  induction l as [|a t IH]; intros E; cbn; [reflexivity|].
  rewrite (E a) by now left. rewrite IH by (intros b Hb; apply E; now right). reflexivity.
Qed.

Lemma forallb_ext_in' {A} (f g : A -> bool) l : (forall a, In a l -> f a = g a) -> forallb f l = forallb g l.
Proof.
  induction l as [|a t IH]; intros E; cbn; [reflexivity|].
  rewrite (E a) by now left. rewrite IH by (intros b Hb; apply E; now right). reflexivity.
Qed.

Lemma map_filter_comm {A B} (f : A -> B) (g : B -> bool) l : map f (filter (fun a => g (f a)) l) = filter g (map f l).
Proof. induction l as [|a t IH]; cbn; [reflexivity|]. destruct (g (f a)); cbn; now rewrite IH. Qed.

(* ------------------------------------------------------------------ indices of the selected elements *)
(* running-counter selection: the positions (counted from [s]) of the elements of [U] that satisfy [c] *)
Fixpoint idx_filter (c : px -> bool) (U : list px) (s : Z) : list Z :=
  match U with
  | [] => []
  | p :: t => if c p then s :: idx_filter c t (s + 1) else idx_filter c t (s + 1)
  end.

Lemma idx_filter_In c U : forall s k,
  In k (idx_filter c U s) <-> s <= k < s + Z.of_nat (length U) /\ c (nth (Z.to_nat (k - s)) U (0, 0)) = true.
Proof.
  induction U as [|p t IH]; intros s k.
  - cbn. split; [tauto|]. intros (H & _). lia.
  - assert (Hshift : s < k -> nth (Z.to_nat (k - s)) (p :: t) (0, 0) = nth (Z.to_nat (k - (s + 1))) t (0, 0)).
    { intros Hk. replace (Z.to_nat (k - s)) with (S (Z.to_nat (k - (s + 1)))) by lia. reflexivity. }
    cbn [idx_filter length]. destruct (c p) eqn:Cp.
    + cbn [In]. rewrite IH. split.
      * intros [<-|(Hr & Hc)].
        -- split; [lia|]. now rewrite Z.sub_diag.
        -- split; [lia|]. rewrite Hshift by lia. assumption.
      * intros (Hr & Hc). destruct (Z.eq_dec s k) as [E|E]; [now left|right].
        split; [lia|]. rewrite <- Hshift by lia. assumption.
    + rewrite IH. split.
      * intros (Hr & Hc). split; [lia|]. rewrite Hshift by lia. assumption.
      * intros (Hr & Hc). destruct (Z.eq_dec s k) as [E|E].
        -- subst k. rewrite Z.sub_diag in Hc. cbn in Hc. congruence.
        -- split; [lia|]. rewrite <- Hshift by lia. assumption.
Qed.

Lemma increasing_cons a l : (forall k, In k l -> a < k) -> increasing l = true -> increasing (a :: l) = true.
Proof.
  intros Hlt Hi. destruct l as [|b t]; [reflexivity|].
  change (increasing (a :: b :: t)) with ((a <? b) && increasing (b :: t)). rewrite Hi, andb_true_r.
  apply Z.ltb_lt. apply Hlt. now left.
Qed.

Lemma increasing_tail a l : increasing (a :: l) = true -> increasing l = true.
Proof.
  destruct l as [|b t]; [reflexivity|].
  change (increasing (a :: b :: t)) with ((a <? b) && increasing (b :: t)). rewrite andb_true_iff. tauto.
Qed.

Lemma increasing_head a l : increasing (a :: l) = true -> forall k, In k l -> a < k.
Proof.
  revert a. induction l as [|b t IH]; intros a Hi k Hk; [contradiction|].
  change (increasing (a :: b :: t)) with ((a <? b) && increasing (b :: t)) in Hi.
  rewrite andb_true_iff, Z.ltb_lt in Hi. destruct Hi as (Hab & Hi).
  destruct Hk as [<-|Hk]; [assumption|]. specialize (IH b Hi k Hk). lia.
Qed.

Lemma idx_filter_increasing c U : forall s, increasing (idx_filter c U s) = true.
Proof.
  induction U as [|p t IH]; intros s; [reflexivity|]. cbn [idx_filter]. destruct (c p); [|apply IH].
  apply increasing_cons; [|apply IH]. intros k Hk. apply idx_filter_In in Hk. lia.
Qed.

Lemma increasing_filter f l : increasing l = true -> increasing (filter f l) = true.
Proof.
  induction l as [|a t IH]; intros Hi; [reflexivity|]. cbn [filter].
  pose proof (increasing_tail _ _ Hi) as Ht. destruct (f a); [|now apply IH].
  apply increasing_cons; [|now apply IH]. intros k Hk. apply filter_In in Hk.
  apply (increasing_head _ _ Hi). apply Hk.
Qed.

Lemma increasing_NoDup l : increasing l = true -> NoDup l.
Proof.
  induction l as [|a t IH]; intros Hi; constructor.
  - intros Hin. pose proof (increasing_head _ _ Hi a Hin). lia.
  - apply IH. now apply increasing_tail in Hi.
Qed.

Lemma idx_filter_ext c c' U : (forall p, In p U -> c p = c' p) -> forall s, idx_filter c U s = idx_filter c' U s.
Proof.
  induction U as [|p t IH]; intros E s; [reflexivity|]. cbn [idx_filter].
  rewrite (E p) by now left. rewrite IH by (intros q Hq; apply E; now right). reflexivity.
Qed.

Lemma idx_filter_length c U : forall s, length (idx_filter c U s) = length (filter c U).
Proof. induction U as [|p t IH]; intros s; cbn; [reflexivity|]. destruct (c p); cbn; now rewrite IH. Qed.

Lemma idx_filter_map c U : forall s,
  map (fun k => nth (Z.to_nat (k - s)) U (0, 0)) (idx_filter c U s) = filter c U.
Proof.
  induction U as [|p t IH]; intros s; [reflexivity|]. cbn [idx_filter filter].
  assert (Ht : map (fun k => nth (Z.to_nat (k - s)) (p :: t) (0, 0)) (idx_filter c t (s + 1)) = filter c t).
  { rewrite <- (IH (s + 1)). apply map_ext_in. intros k Hk. apply idx_filter_In in Hk.
    replace (Z.to_nat (k - s)) with (S (Z.to_nat (k - (s + 1)))) by lia. reflexivity. }
  destruct (c p); [|exact Ht]. cbn [map]. rewrite Z.sub_diag, Ht. reflexivity.
Qed.

(* ------------------------------------------------------------------ the edge scan *)
Definition cie (m : mask) (p : px) : bool := check_if_edge_pixel m (fst p) (snd p).

Definition estep (c : px -> bool) (st : list Z * nat * Z) (p : px) : list Z * nat * Z :=
  let '(arr, ei, ri) := st in
  if c p then (upd arr ei (fun _ => ri), S ei, ri + 1) else (arr, ei, ri + 1).

(* preallocate-and-write with two running counters = the selected positions, zero-padded *)
Lemma edge_fold c U : forall pre r ri, (length (idx_filter c U ri) <= r)%nat ->
  fold_left (estep c) U (pre ++ repeat 0 r, length pre, ri) =
  (pre ++ idx_filter c U ri ++ repeat 0 (r - length (idx_filter c U ri)),
   (length pre + length (idx_filter c U ri))%nat, ri + Z.of_nat (length U)).
Proof.
  induction U as [|p t IH]; intros pre r ri Hr.
  - cbn. rewrite Nat.sub_0_r, Nat.add_0_r, Z.add_0_r. reflexivity.
  - cbn [fold_left estep idx_filter] in *. destruct (c p) eqn:Cp.
    + cbn [length] in Hr. destruct r as [|r]; [lia|]. cbn [repeat]. rewrite upd_app_exact.
      replace (pre ++ ri :: repeat 0 r) with ((pre ++ [ri]) ++ repeat 0 r) by (now rewrite <- app_assoc).
      replace (S (length pre)) with (length (pre ++ [ri])) by (rewrite app_length; cbn; lia).
      rewrite IH by lia. rewrite <- app_assoc, app_length. cbn [app length].
      f_equal; [f_equal|]; try lia; try reflexivity.
    + rewrite IH by assumption. cbn [length]. f_equal. lia.
Qed.

Lemma edge_step_estep m st p : edge_step m st p = if negb (getp m p) then estep (cie m) st p else st.
Proof. destruct st as [[arr ei] ri]. reflexivity. Qed.

Lemma total_edge_is m : total_edge_pixels_from m = length (idx_filter (cie m) (unmasked_pixels m) 0).
Proof.
  unfold total_edge_pixels_from.
  rewrite (fold_left_filter (fun p => negb (getp m p)) (fun tot p => if cie m p then S tot else tot)).
  fold (unmasked_pixels m). rewrite count_fold, idx_filter_length. reflexivity.
Qed.

Lemma edge_1d_is m : edge_1d_indexes_from m = idx_filter (cie m) (unmasked_pixels m) 0.
Proof.
  unfold edge_1d_indexes_from.
  rewrite (fold_left_ext _ (fun st p => if negb (getp m p) then estep (cie m) st p else st)) by apply edge_step_estep.
  rewrite (fold_left_filter (fun p => negb (getp m p)) (estep (cie m))). fold (unmasked_pixels m).
  rewrite total_edge_is.
  pose proof (edge_fold (cie m) (unmasked_pixels m) [] (length (idx_filter (cie m) (unmasked_pixels m) 0)) 0) as E.
  cbn [app length] in E. rewrite E by lia. cbn [fst]. rewrite Nat.sub_diag. cbn [repeat]. apply app_nil_r.
Qed.

(* the eight neighbours *)
Lemma nbrs_In p q : In q (nbrs p) <->
  q <> p /\ Z.abs (fst q - fst p) <= 1 /\ Z.abs (snd q - snd p) <= 1.
Proof.
  destruct p as [y x], q as [v u]. unfold nbrs. cbn [fst snd In]. split.
  - intros H. repeat (destruct H as [H|H]; [inversion H; subst; split; [intros E; inversion E; lia|lia]|]). contradiction.
  - intros (Hne & Hy & Hx).
    assert (Cy : v = y + 1 \/ v = y \/ v = y - 1) by lia.
    assert (Cx : u = x + 1 \/ u = x \/ u = x - 1) by lia.
    destruct Cy as [->|[->| ->]], Cx as [->|[->| ->]]; try congruence; tauto.
Qed.

Lemma interior_iff m p : interior m p = true <-> forall q, In q (nbrs p) -> inarr m (fst q) (snd q) /\ getp m q = false.
Proof.
  unfold interior. rewrite forallb_forall. split; intros H q Hq; specialize (H q Hq).
  - rewrite andb_true_iff, negb_true_iff, inb_iff in H. exact H.
  - rewrite andb_true_iff, negb_true_iff, inb_iff. exact H.
Qed.

Lemma must_edge_iff m p : must_edge m p = true <-> exists q, In q (nbrs p) /\ inarr m (fst q) (snd q) /\ getp m q = true.
Proof.
  unfold must_edge. rewrite existsb_exists. split; intros (q & Hq & H); exists q; split; try assumption.
  - rewrite andb_true_iff, inb_iff in H. exact H.
  - rewrite andb_true_iff, inb_iff. exact H.
Qed.

Lemma must_edge_touches m p : must_edge m p = true -> touches m p = true.
Proof.
  intros H. apply must_edge_iff in H. destruct H as (q & Hq & _ & G). unfold touches. apply negb_true_iff.
  destruct (interior m p) eqn:I; [|reflexivity]. rewrite interior_iff in I. destruct (I q Hq). congruence.
Qed.

(* the code's test = "not all eight neighbours exist and are unmasked" (a neighbour outside the array counts as masked) *)
Lemma cie_touches m p : inarr m (fst p) (snd p) -> cie m p = touches m p.
Proof.
  destruct p as [y x]. unfold inarr, cie, check_if_edge_pixel, touches. cbn [fst snd]. intros (Hy & Hx).
  destruct ((y =? 0) || (x =? 0) || (y =? shape0 m - 1) || (x =? shape1 m - 1)) eqn:Ring.
  - symmetry. apply negb_true_iff. destruct (interior m (y, x)) eqn:I; [|reflexivity]. exfalso.
    rewrite interior_iff in I.
    assert (Hn : forall q, Z.abs (fst q - y) <= 1 -> Z.abs (snd q - x) <= 1 -> q <> (y, x) -> inarr m (fst q) (snd q)).
    { intros q H1 H2 H3. apply I. apply nbrs_In. cbn [fst snd]. auto. }
    pose proof (Hn (y - 1, x)) as N1. pose proof (Hn (y + 1, x)) as N2.
    pose proof (Hn (y, x - 1)) as N3. pose proof (Hn (y, x + 1)) as N4. unfold inarr in N1, N2, N3, N4. cbn [fst snd] in *.
    assert (D : forall a b c d : Z, (a, b) = (c, d) -> a = c /\ b = d) by (intros a b c d E; inversion E; auto).
    bool_to_prop.
    destruct Ring as [[[R|R]|R]|R].
    + destruct N1 as (N & _); try lia. intros E. apply D in E. lia.
    + destruct N3 as (_ & N); try lia. intros E. apply D in E. lia.
    + destruct N2 as (N & _); try lia. intros E. apply D in E. lia.
    + destruct N4 as (_ & N); try lia. intros E. apply D in E. lia.
  - bool_to_prop.
    unfold interior.
    rewrite (forallb_ext_in' _ (fun q => negb (getp m q))).
    2:{ intros q Hq. apply nbrs_In in Hq. cbn [fst snd] in Hq.
        assert (Hi : inb m q = true) by (apply inb_iff; unfold inarr; lia). now rewrite Hi. }
    unfold nbrs, getp. cbn [forallb fst snd].
    destruct (get m (y + 1) x), (get m (y - 1) x), (get m y (x + 1)), (get m y (x - 1)),
             (get m (y + 1) (x + 1)), (get m (y + 1) (x - 1)), (get m (y - 1) (x + 1)), (get m (y - 1) (x - 1)); reflexivity.
Qed.

Lemma unmasked_inarr m p : In p (unmasked_pixels m) -> inarr m (fst p) (snd p).
Proof. intros H. now apply unmasked_In in H. Qed.

Lemma edge_slim_is m : edge_slim m = idx_filter (touches m) (unmasked_pixels m) 0.
Proof.
  unfold edge_slim. rewrite edge_1d_is. apply idx_filter_ext. intros p Hp. apply cie_touches. now apply unmasked_inarr.
Qed.

Definition nslim (m : mask) : Z := Z.of_nat (length (unmasked_pixels m)).

(* membership: exactly the slim indices whose pixel is not "interior" *)
Lemma edge_slim_In m k : In k (edge_slim m) <-> 0 <= k < nslim m /\ touches m (pixel_of_slim m k) = true.
Proof.
  rewrite edge_slim_is, idx_filter_In. unfold nslim, pixel_of_slim, pixel_at. rewrite Z.sub_0_r. reflexivity.
Qed.

Lemma slim_pixel_unmasked m k : 0 <= k < nslim m -> In (pixel_of_slim m k) (unmasked_pixels m).
Proof. intros Hk. unfold pixel_of_slim, pixel_at. apply nth_In. unfold nslim in Hk. lia. Qed.

Lemma unmasked_has_slim m p : In p (unmasked_pixels m) -> exists k, 0 <= k < nslim m /\ pixel_of_slim m k = p.
Proof.
  intros Hp. apply In_nth with (d := (0, 0)) in Hp. destruct Hp as (i & Hi & E).
  exists (Z.of_nat i). split; [unfold nslim; lia|]. unfold pixel_of_slim, pixel_at. now rewrite Nat2Z.id.
Qed.

Lemma unmasked_NoDup m : NoDup (unmasked_pixels m).
Proof. unfold unmasked_pixels. apply NoDup_filter. apply coords_NoDup. Qed.

Lemma slim_injective m j k : 0 <= j < nslim m -> 0 <= k < nslim m -> pixel_of_slim m j = pixel_of_slim m k -> j = k.
Proof.
  intros Hj Hk E. unfold pixel_of_slim, pixel_at, nslim in *.
  pose proof (proj1 (NoDup_nth (unmasked_pixels m) (0, 0)) (unmasked_NoDup m) (Z.to_nat j) (Z.to_nat k)) as Hinj.
  specialize (Hinj ltac:(lia) ltac:(lia) E). lia.
Qed.

Lemma edge_sound m k : In k (edge_slim m) ->
  0 <= k < nslim m /\ In (pixel_of_slim m k) (unmasked_pixels m) /\ interior m (pixel_of_slim m k) = false.
Proof.
  intros H. apply edge_slim_In in H. destruct H as (Hk & T). split; [assumption|]. split; [now apply slim_pixel_unmasked|].
  unfold touches in T. now apply negb_true_iff in T.
Qed.

Lemma edge_complete m k : 0 <= k < nslim m -> must_edge m (pixel_of_slim m k) = true -> In k (edge_slim m).
Proof. intros Hk H. apply edge_slim_In. split; [assumption|]. now apply must_edge_touches. Qed.

Lemma edge_complete_px m p : In p (unmasked_pixels m) -> must_edge m p = true ->
  exists k, In k (edge_slim m) /\ pixel_of_slim m k = p.
Proof.
  intros Hp H. destruct (unmasked_has_slim m p Hp) as (k & Hk & E). exists k. split; [|assumption].
  apply edge_complete; [assumption|]. now rewrite E.
Qed.

Lemma edge_slim_order m : increasing (edge_slim m) = true.
Proof. rewrite edge_slim_is. apply idx_filter_increasing. Qed.

Lemma edge_total m : Z.of_nat (total_edge_pixels_from m) = Z.of_nat (length (edge_1d_indexes_from m)).
Proof. now rewrite total_edge_is, edge_1d_is. Qed.

(* the two-sided acceptance test used on the implementation's output accepts the model's output *)
Lemma forallb_zrange_iff f lo hi : forallb f (zrange lo hi) = true <-> forall k, lo <= k < hi -> f k = true.
Proof. rewrite forallb_forall. split; intros H k Hk; apply H; now apply zrange_In. Qed.

Lemma memz_In k l : memz k l = true <-> In k l.
Proof.
  unfold memz. rewrite existsb_exists. split.
  - intros (j & Hj & E). apply Z.eqb_eq in E. now subst.
  - intros H. exists k. split; [assumption|apply Z.eqb_refl].
Qed.

Lemma edge_slim_accepted m : edge_spec_ok m (edge_slim m) = true.
Proof.
  unfold edge_spec_ok. cbv zeta. rewrite edge_slim_order. cbn [andb]. apply andb_true_iff. split.
  - apply forallb_forall. intros k Hk. apply edge_sound in Hk. destruct Hk as (Hr & _ & I).
    unfold pixel_of_slim in I. rewrite I. unfold nslim in Hr. bool_to_prop. cbn. repeat split; lia.
  - apply forallb_zrange_iff. intros k Hk. destruct (must_edge m (pixel_at (unmasked_pixels m) k)) eqn:M; [|reflexivity].
    cbn [negb orb]. apply memz_In. now apply edge_complete.
Qed.

(* ------------------------------------------------------------------ the border scan *)
Lemma n2s_is m : native_index_for_slim_index_2d_from m = unmasked_pixels m.
Proof. unfold native_index_for_slim_index_2d_from. now rewrite (append_fold (fun p => negb (getp m p))). Qed.

Lemma count_true_map_bounds {A} (f : A -> bool) l : 0 <= count_true (map f l) <= Z.of_nat (length l).
Proof. induction l as [|a t IH]; cbn [map count_true length]; [lia|]. destruct (f a); lia. Qed.

Lemma count_true_all {A} (f : A -> bool) l : (count_true (map f l) =? Z.of_nat (length l)) = forallb f l.
Proof.
  induction l as [|a t IH]; [reflexivity|]. cbn [map count_true length forallb].
  pose proof (count_true_map_bounds f t) as B. destruct (f a); cbn [andb].
  - rewrite <- IH. apply eq_bool_iff. bool_to_prop. lia.
  - apply Z.eqb_neq. lia.
Qed.

Lemma count_zrange f a b n : a <= b -> n = b - a -> (count_true (map f (zrange a b)) =? n) = forallb f (zrange a b).
Proof.
  intros Hab ->. rewrite <- count_true_all. rewrite zrange_length. replace (Z.of_nat (Z.to_nat (b - a))) with (b - a) by lia.
  reflexivity.
Qed.

(* the four directional sums = "the walk meets only masked pixels" (the pixel itself is unmasked, hence the -1) *)
Lemma cbp_walk m U k : inarr m (fst (pixel_at U k)) (snd (pixel_at U k)) -> getp m (pixel_at U k) = false ->
  check_if_border_pixel m k U = walk_clear m (pixel_at U k).
Proof.
  unfold check_if_border_pixel, walk_clear, pixel_at, getp, inarr. cbv zeta.
  set (p := nth (Z.to_nat k) U (0, 0)). destruct p as [y x]. cbn [fst snd]. intros (Hy & Hx) G.
  unfold col_slice, row_slice.
  rewrite (count_zrange (fun y' => get m y' x) 0 y y) by lia.
  rewrite (count_zrange (fun x' => get m y x') 0 x x) by lia.
  rewrite (zrange_cons x (shape1 m)) by lia. rewrite (zrange_cons y (shape0 m)) by lia.
  cbn [map count_true]. rewrite G. rewrite !Z.add_0_l.
  rewrite (count_zrange (fun x' => get m y x') (x + 1) (shape1 m)) by lia.
  rewrite (count_zrange (fun y' => get m y' x) (y + 1) (shape0 m)) by lia.
  match goal with |- (if ?c then true else false) = _ => destruct c; reflexivity end.
Qed.

Definition bstep (c : Z -> bool) (st : list Z * nat) (e : Z) : list Z * nat :=
  let '(arr, bi) := st in if c e then (upd arr bi (fun _ => e), S bi) else (arr, bi).

Lemma border_fold c E : forall pre r, (length (filter c E) <= r)%nat ->
  fold_left (bstep c) E (pre ++ repeat 0 r, length pre) =
  (pre ++ filter c E ++ repeat 0 (r - length (filter c E)), (length pre + length (filter c E))%nat).
Proof.
  induction E as [|e t IH]; intros pre r Hr.
  - cbn. rewrite Nat.sub_0_r, Nat.add_0_r. reflexivity.
  - cbn [fold_left bstep filter] in *. destruct (c e) eqn:Ce.
    + cbn [length] in Hr. destruct r as [|r]; [lia|]. cbn [repeat]. rewrite upd_app_exact.
      replace (pre ++ e :: repeat 0 r) with ((pre ++ [e]) ++ repeat 0 r) by (now rewrite <- app_assoc).
      replace (S (length pre)) with (length (pre ++ [e])) by (rewrite app_length; cbn; lia).
      rewrite IH by lia. rewrite <- app_assoc, app_length. cbn [app length].
      f_equal; try lia; try reflexivity.
    + now rewrite IH.
Qed.

Lemma border_slim_filter m :
  border_slim m = filter (fun e => check_if_border_pixel m e (unmasked_pixels m)) (edge_slim m).
Proof.
  unfold border_slim, border_slim_indexes_from. cbv zeta. rewrite n2s_is. fold (edge_slim m).
  set (c := fun e => check_if_border_pixel m e (unmasked_pixels m)).
  rewrite (fold_left_ext _ (bstep c)) by (intros [arr bi] e; reflexivity).
  unfold total_border_pixels_from. fold c. rewrite (count_fold c). cbn [Nat.add].
  pose proof (border_fold c (edge_slim m) [] (length (filter c (edge_slim m)))) as E.
  cbn [app length] in E. rewrite E by lia. cbn [fst]. rewrite Nat.sub_diag. cbn [repeat]. apply app_nil_r.
Qed.

Lemma border_exact m : border_slim m = border_of m (edge_slim m).
Proof.
  rewrite border_slim_filter. unfold border_of. cbv zeta. apply filter_ext_in'. intros k Hk.
  apply edge_sound in Hk. destruct Hk as (_ & Hu & _). apply unmasked_In in Hu. unfold pixel_of_slim in Hu.
  apply cbp_walk; apply Hu.
Qed.

Lemma walk_clear_iff m p : walk_clear m p = true <->
  (forall y', 0 <= y' < fst p -> get m y' (snd p) = true) \/ (forall x', snd p < x' < shape1 m -> get m (fst p) x' = true) \/
  (forall y', fst p < y' < shape0 m -> get m y' (snd p) = true) \/ (forall x', 0 <= x' < snd p -> get m (fst p) x' = true).
Proof.
  unfold walk_clear. cbv zeta. rewrite !orb_true_iff, !forallb_zrange_iff.
  assert (E : forall a b : Z, a + 1 <= b <-> a < b) by (intros; lia).
  split.
  - intros [[[H|H]|H]|H]; [left|right; left|right; right; left|right; right; right]; intros k Hk; apply H; lia.
  - intros [H|[H|[H|H]]]; [left; left; left|left; left; right|left; right|right]; intros k Hk; apply H; lia.
Qed.

Lemma border_In m k : In k (border_slim m) <-> In k (edge_slim m) /\ walk_clear m (pixel_of_slim m k) = true.
Proof. rewrite border_exact. unfold border_of. cbv zeta. rewrite filter_In. reflexivity. Qed.

Lemma border_slim_order m : increasing (border_slim m) = true.
Proof. rewrite border_exact. unfold border_of. cbv zeta. apply increasing_filter. apply edge_slim_order. Qed.

(* ------------------------------------------------------------------ the views *)
Lemma edge_native_is m : edge_native m = native_of m (edge_slim m).
Proof. unfold edge_native, native_for_slim. now rewrite n2s_is. Qed.

Lemma border_native_is m : border_native m = native_of m (border_slim m).
Proof. unfold border_native, native_for_slim. now rewrite n2s_is. Qed.

Lemma edge_native_filter m : edge_native m = filter (touches m) (unmasked_pixels m).
Proof.
  rewrite edge_native_is. unfold native_of. cbv zeta. rewrite edge_slim_is.
  rewrite <- (idx_filter_map (touches m) (unmasked_pixels m) 0). apply map_ext. intros k. unfold pixel_at. now rewrite Z.sub_0_r.
Qed.

Lemma border_native_filter m : border_native m = filter (walk_clear m) (edge_native m).
Proof.
  rewrite border_native_is, edge_native_is, border_exact. unfold native_of, border_of. cbv zeta.
  apply (map_filter_comm (pixel_at (unmasked_pixels m)) (walk_clear m)).
Qed.

(* both sets are sub-sequences of the row-major scan, selected by a predicate *)
Definition edge_sel (m : mask) (p : px) : bool := negb (getp m p) && touches m p.
Definition border_sel (m : mask) (p : px) : bool := edge_sel m p && walk_clear m p.

Lemma edge_native_scan m : edge_native m = filter (edge_sel m) (scan m).
Proof. rewrite edge_native_filter. unfold unmasked_pixels. apply filter_filter. Qed.

Lemma border_native_scan m : border_native m = filter (border_sel m) (scan m).
Proof. rewrite border_native_filter, edge_native_scan. apply filter_filter. Qed.

Lemma scatter_full_is_mask_of m l : (forall p, In p l -> inarr m (fst p) (snd p)) ->
  scatter_false (full (shape0 m) (shape1 m) true) l = mask_of m l.
Proof.
  intros Hin. destruct (scatter_false_spec m l (full (shape0 m) (shape1 m) true)) as (Hs & Hg).
  { apply full_sameshape. } { exact Hin. }
  unfold mask_of. apply (mask_ext _ _ m); [exact Hs|apply build_sameshape|].
  intros y x Hyx. rewrite Hg by (unfold inarr in Hyx; lia). rewrite get_full, get_build by apply Hyx. reflexivity.
Qed.

Lemma scan_sameshape b m : sameshape b m -> scan b = scan m.
Proof. intros (S0 & S1 & _). unfold scan. now rewrite S0, S1. Qed.

(* the mask view of a scan-ordered selection lists the same pixels in the same (slim) order *)
Lemma unmasked_mask_of m c : unmasked_pixels (mask_of m (filter c (scan m))) = filter c (scan m).
Proof.
  set (l := filter c (scan m)). unfold unmasked_pixels, mask_of.
  rewrite (scan_sameshape (build (shape0 m) (shape1 m) (fun q => negb (memp q l))) m) by apply build_sameshape.
  subst l. apply filter_ext_in'. intros p Hp. apply scan_In in Hp. unfold getp. rewrite get_build by apply Hp.
  rewrite negb_involutive. rewrite <- surjective_pairing. apply eq_bool_iff. rewrite memp_In, filter_In, scan_In. tauto.
Qed.

Lemma take_map_grid m g sl : (forall k, In k sl -> 0 <= k < nslim m) ->
  take (grid_2d_slim_via_mask_from m g) (0, 0) sl = grid_of m g (native_of m sl).
Proof.
  intros Hk. unfold take, grid_of, native_of, grid_2d_slim_via_mask_from. cbv zeta. fold (unmasked_pixels m).
  rewrite map_map. apply map_ext_in. intros k Hin. specialize (Hk k Hin). unfold pixel_at, nslim in *.
  apply nth_map'. lia.
Qed.

Lemma edge_native_inarr m p : In p (edge_native m) -> inarr m (fst p) (snd p).
Proof. rewrite edge_native_scan. intros H. apply filter_In in H. now apply scan_In. Qed.

Lemma border_native_inarr m p : In p (border_native m) -> inarr m (fst p) (snd p).
Proof. rewrite border_native_scan. intros H. apply filter_In in H. now apply scan_In. Qed.

Lemma views_agree_edge m g :
  edge_native m = native_of m (edge_slim m) /\ mask_edge m = mask_of m (edge_native m)
  /\ unmasked_pixels (mask_edge m) = edge_native m /\ grid_edge m g = grid_of m g (edge_native m).
Proof.
  assert (M : mask_edge m = mask_of m (edge_native m)) by (apply scatter_full_is_mask_of, edge_native_inarr).
  split; [apply edge_native_is|]. split; [exact M|]. split.
  - rewrite M, edge_native_scan. apply unmasked_mask_of.
  - unfold grid_edge. rewrite edge_native_is. apply take_map_grid. intros k Hk. now apply edge_sound in Hk.
Qed.

Lemma views_agree_border m g :
  border_native m = native_of m (border_slim m) /\ mask_border m = mask_of m (border_native m)
  /\ unmasked_pixels (mask_border m) = border_native m /\ grid_border m g = grid_of m g (border_native m).
Proof.
  assert (M : mask_border m = mask_of m (border_native m)) by (apply scatter_full_is_mask_of, border_native_inarr).
  split; [apply border_native_is|]. split; [exact M|]. split.
  - rewrite M, border_native_scan. apply unmasked_mask_of.
  - unfold grid_border. rewrite border_native_is. apply take_map_grid. intros k Hk.
    apply border_In in Hk. destruct Hk as (Hk & _). now apply edge_sound in Hk.
Qed.

(* the mask views, entry by entry *)
Lemma mask_edge_get m y x : inarr m y x -> get (mask_edge m) y x = negb (edge_sel m (y, x)).
Proof.
  intros Hin. destruct (views_agree_edge m (0, 0, 0, 0)) as (_ & M & _). rewrite M. unfold mask_of.
  rewrite get_build by apply Hin. f_equal. apply eq_bool_iff. rewrite memp_In, edge_native_scan, filter_In, scan_In. tauto.
Qed.

Lemma mask_border_get m y x : inarr m y x -> get (mask_border m) y x = negb (border_sel m (y, x)).
Proof.
  intros Hin. destruct (views_agree_border m (0, 0, 0, 0)) as (_ & M & _). rewrite M. unfold mask_of.
  rewrite get_build by apply Hin. f_equal. apply eq_bool_iff. rewrite memp_In, border_native_scan, filter_In, scan_In. tauto.
Qed.

(* ------------------------------------------------------------------ blurring: the statements of the property text *)
Lemma blurring_exact m kh kw b : rectb m = true -> odd_pos kh = true -> odd_pos kw = true ->
  blurring_from m kh kw = Ok b ->
  sameshape b m /\
  forall y x, inarr m y x ->
    (get b y x = false <->
     get m y x = true /\ exists y' x', inarr m y' x' /\ get m y' x' = false
                                        /\ Z.abs (y - y') <= half kh /\ Z.abs (x - x') <= half kw).
Proof. intros Hr Hkh Hkw E. rewrite blurring_from_odd in E by assumption. now apply blur_spec_exact. Qed.

Lemma blurring_error_iff_footprint_leaves m kh kw : rectb m = true -> odd_pos kh = true -> odd_pos kw = true ->
  (blurring_from m kh kw = Raise MaskException <->
   exists y x, inarr m y x /\ get m y x = false /\ ~ footprint_in m kh kw y x).
Proof. intros Hr Hkh Hkw. rewrite blurring_from_odd by assumption. apply blur_spec_raise_iff. Qed.

Lemma blurring_ok_iff_footprints_inside m kh kw : rectb m = true -> odd_pos kh = true -> odd_pos kw = true ->
  ((exists b, blurring_from m kh kw = Ok b) <->
   forall y x, inarr m y x -> get m y x = false -> footprint_in m kh kw y x).
Proof. intros Hr Hkh Hkw. rewrite blurring_from_odd by assumption. apply blur_spec_ok_iff. Qed.

Lemma blurring_result_or_mask_exception m kh kw : rectb m = true -> odd_pos kh = true -> odd_pos kw = true ->
  (exists b, blurring_from m kh kw = Ok b) \/ blurring_from m kh kw = Raise MaskException.
Proof. intros Hr Hkh Hkw. rewrite blurring_from_odd by assumption. apply blur_spec_total. Qed.

Lemma edge_buffed_is_spec m : rectb m = true -> mask_edge_buffed m = buffed_spec m 1.
Proof. intros Hr. unfold mask_edge_buffed. apply buffed_is_spec; [assumption|lia]. Qed.

(* ------------------------------------------------------------------ statement-shaped corollaries used by Props/C10.v *)
Lemma edge_slim_exact m k : In k (edge_slim m) <->
  0 <= k < Z.of_nat (length (unmasked_pixels m)) /\ interior m (pixel_of_slim m k) = false.
Proof. rewrite <- (negb_true_iff (interior m (pixel_of_slim m k))). exact (edge_slim_In m k). Qed.

Lemma check_if_edge_pixel_is m y x : 0 <= y < shape0 m /\ 0 <= x < shape1 m ->
  check_if_edge_pixel m y x = negb (interior m (y, x)).
Proof. exact (cie_touches m (y, x)). Qed.

Lemma slim_index_bijection m :
  (forall k, 0 <= k < Z.of_nat (length (unmasked_pixels m)) -> In (pixel_of_slim m k) (unmasked_pixels m)) /\
  (forall p, In p (unmasked_pixels m) -> exists k, 0 <= k < Z.of_nat (length (unmasked_pixels m)) /\ pixel_of_slim m k = p) /\
  (forall j k, 0 <= j < Z.of_nat (length (unmasked_pixels m)) -> 0 <= k < Z.of_nat (length (unmasked_pixels m)) ->
               pixel_of_slim m j = pixel_of_slim m k -> j = k) /\
  (forall p, In p (unmasked_pixels m) <-> (0 <= fst p < shape0 m /\ 0 <= snd p < shape1 m) /\ getp m p = false).
Proof. exact (conj (slim_pixel_unmasked m) (conj (unmasked_has_slim m) (conj (slim_injective m) (unmasked_In m)))). Qed.

(* example masks for the non-vacuity Example: a hole, a diagonal contact, an interior pixel, unmasked pixels on the
   outer row and columns; and a padded mask for the blurring results *)
Definition ex_mask : mask :=
  [[true;  false; false; false; true;  true];
   [true;  false; false; false; false; true];
   [false; false; false; false; false; true];
   [true;  false; false; true;  false; false];
   [true;  false; false; false; false; true];
   [true;  true;  true;  true;  true;  true]].
Definition ex_padded : mask :=
  [[true; true; true;  true;  true;  true; true];
   [true; true; true;  true;  true;  true; true];
   [true; true; false; false; true;  true; true];
   [true; true; true;  false; true;  true; true];
   [true; true; true;  true;  true;  true; true];
   [true; true; true;  true;  true;  true; true]].
