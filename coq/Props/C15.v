(* C15 -- preloaded and cached intermediate results never change inversion outputs.

   Statements only.  The model (Model/C15.v) is the cached_property graph of InversionImagingMapping /
   InversionImagingWTilde over ONE shared Preloads object, with references (owned array / alias of a preload
   cell), in-place numpy statements and the factory.  Scalars [T] and the numeric kernels [K] are arbitrary:
   every theorem below holds for every interpretation of the kernels (in particular real-number linear algebra).

   Vocabulary (Proofs/C15.v):
     run_inversion K inp code p qs   aa.Inversion(dataset, objs, settings, preloads=p), then the attributes qs are read
     run_history   K inp code p h    successive inversions (one attribute list each) sharing the Preloads object p
     empty_store                     Preloads()
     fresh_store K inp mode p        every filled slot holds what the same attribute of a fresh inversion of that class is
     laws_for K inp mode p           the kernel identities (C04) the three "short-cut" slots rely on, required only when
                                     the slot is filled: data_linear_func_matrix_dict, mapper_operated_mapping_matrix_dict,
                                     data_vector_mapper (no function object)
     factory_slots_neutral inp p     Preloads.use_w_tilde / Preloads.w_tilde do not change the factory's choice
     pure K inp mode q               specification: attribute q as a plain function of the inputs (no Preloads, no cache)
     [code]                          the code that exists (copy.copy kept; repaired mapping data_vector);
     [no_copy], [unguarded]          the two mutants *)
From Coq Require Import List Arith Bool ZArith Reals.
From PAV Require Import Base.Res Base.Check Base.NumOps Model.C03 Model.C04 Model.C04Lib Proofs.C04 Model.C15 Proofs.C15 Model.C15k Proofs.C15k Proofs.C15s Proofs.C15f Proofs.C15x.
Import ListNotations.

(* 1. Transparency: for every subset of slots filled with fresh values, every sequence of attribute reads returns
      what the inversion without preloads returns -- both classes, every mix of linear objects. *)
Theorem C15_preload_transparent :
  forall (T : Type) (K : kernels T) (inp : input T) (p : pstore T) (qs : list qty),
    factory_slots_neutral inp p ->
    (forall mode, make_inversion K inp p = Ok mode -> fresh_store K inp mode p /\ laws_for K inp mode p) ->
    fst (run_inversion K inp code p qs) = fst (run_inversion K inp code empty_store qs).
Proof. exact preload_transparent. Qed.

(* 2. Reuse: any number of successive inversions sharing the Preloads object, each reading any attributes in any
      order, return what the inversion without preloads returns; NO slot is ever modified (frozen_eq lists all eleven;
      since /repo 95fc1c6 the w-tilde class assigns the function rows into a copy of a preloaded data_vector_mapper). *)
Theorem C15_reuse_any_history :
  forall (T : Type) (K : kernels T) (inp : input T) (p : pstore T) (h : list (list qty)),
    factory_slots_neutral inp p ->
    (forall mode, make_inversion K inp p = Ok mode -> fresh_store K inp mode p /\ laws_for K inp mode p) ->
    fst (run_history K inp code p h) = map (fun qs => fst (run_inversion K inp code empty_store qs)) h /\
    frozen_eq p (snd (run_history K inp code p h)).
Proof. exact reuse_any_history. Qed.

(* 3. The preloaded curvature matrix is never changed by the inversions that use it. *)
Theorem C15_curvature_preload_unchanged :
  forall (T : Type) (K : kernels T) (inp : input T) (p : pstore T) (h : list (list qty)),
    factory_slots_neutral inp p ->
    (forall mode, make_inversion K inp p = Ok mode -> fresh_store K inp mode p /\ laws_for K inp mode p) ->
    s_curv (snd (run_history K inp code p h)) = s_curv p.
Proof. exact curvature_preload_unchanged. Qed.

(* 4. The same against the independent specification, without assuming the factory slots neutral: whatever class the
      factory builds, every read of every inversion of every history is the specification value of that class. *)
Theorem C15_every_read_is_specified :
  forall (T : Type) (K : kernels T) (inp : input T) (mode : option (wtilde T)) (h : list (list qty)) (p : pstore T),
    make_inversion K inp p = Ok mode -> fresh_store K inp mode p -> laws_for K inp mode p ->
    fst (run_history K inp code p h) = map (fun qs => Ok (map (pure K inp mode) qs)) h.
Proof. exact every_read_is_specified. Qed.

(* 5. The Preloads object remains a valid set of preloads for ever (so a later inversion may start from it). *)
Theorem C15_store_stays_consistent :
  forall (T : Type) (K : kernels T) (inp : input T) (p : pstore T) (h : list (list qty)) (mode : option (wtilde T)),
    make_inversion K inp p = Ok mode -> fresh_store K inp mode p -> laws_for K inp mode p ->
    consistent K inp mode (snd (run_history K inp code p h)).
Proof. exact store_stays_consistent. Qed.

(* 6. The factory's choice between the formalisms changes values only through C04's three identities
      (D_wtilde = D_mapping, F_wtilde = F_mapping, mapped data): given those, every attribute agrees. *)
Theorem C15_formalism_choice_value_free :
  forall (T : Type) (K : kernels T) (inp : input T) (w : wtilde T),
    p_dv K inp (Some w) = p_dv K inp None ->
    p_curv K inp (Some w) = p_curv K inp None ->
    (forall s, p_rec K inp None = Ok s ->
               mapped_wt K inp (lf_fresh K inp) s = mapped_map K inp (omm_list_of K inp (lf_fresh K inp)) s) ->
    forall q, pure K inp (Some w) q = pure K inp None q.
Proof. exact formalism_choice_value_free. Qed.

(* 7. check_noise_map: a preloaded w_tilde is used iff its noise_map_value equals noise_map[0]; otherwise
      InversionException, before anything is computed. *)
Theorem C15_noise_check :
  forall (T : Type) (K : kernels T) (inp : input T) (p : pstore T) (w : wtilde T),
    choose_wt inp p = true -> s_wt p = Some w ->
    make_inversion K inp p = if teqb K (hd (t0 K) (ds_n (in_ds inp))) (wt_nv w) then Ok (Some w) else Raise InversionException.
Proof. exact noise_check_raises. Qed.
Theorem C15_raise_is_stable :
  forall (T : Type) (K : kernels T) (inp : input T) (e : exn) (h : list (list qty)) (p : pstore T),
    make_inversion K inp p = Raise e -> run_history K inp code p h = (map (fun _ => Raise e) h, p).
Proof. exact run_history_raise. Qed.

(* 7b. The short cut "a preloaded _data_vector_mapper IS the data vector" of the w-tilde class (no function object) is
       justified by nothing more than the shape of one kernel: the third law of [laws_for] follows from it. *)
Theorem C15_dvm_shortcut_wtilde :
  forall (T : Type) (K : kernels T) (inp : input T) (w : wtilde T),
    shape_dv_wt K -> has_func inp = false -> p_dvm K inp (Some w) = p_dv K inp (Some w).
Proof. exact dvm_law_wt. Qed.

(* 8. Sensitivity: the two mutants violate the statements above on concrete inputs (integer toy kernels).
      (a) without copy.copy of the preloaded curvature matrix the second inversion sees F + H and the preloaded matrix is
          overwritten ([[1]] -> [[3]]); the code returns [[2]] twice;
      (b) InversionImagingMapping.data_vector before the repair returns the mapper-only vector [1;0] instead of [1;1]
          (defect reported in fixes/C15_mapping_data_vector_mapper.md). *)
Theorem C15_no_copy_refuted :
  fst (run_history zk inpB no_copy pB [[QCrm]; [QCrm]]) = [Ok [PM [[2]]]; Ok [PM [[3]]]]%Z
  /\ s_curv pB = Some [[1]]%Z /\ s_curv (snd (run_history zk inpB no_copy pB [[QCrm]; [QCrm]])) = Some [[3]]%Z
  /\ fst (run_history zk inpB code pB [[QCrm]; [QCrm]]) = [Ok [PM [[2]]]; Ok [PM [[2]]]]%Z.
Proof. exact no_copy_refuted. Qed.
Theorem C15_unguarded_refuted :
  fst (run_inversion zk inpC unguarded pC [QDv]) = Ok [PV [1; 0]]%Z
  /\ fst (run_inversion zk inpC unguarded empty_store [QDv]) = Ok [PV [1; 1]]%Z
  /\ fst (run_inversion zk inpC code pC [QDv]) = Ok [PV [1; 1]]%Z.
Proof. exact unguarded_refuted. Qed.
(* 8c. NO slot of the Preloads object is ever modified by the inversions that use it: after any history the object is
       what it was (record equality).  Instance: the w-tilde class with a function object returns the completed data
       vector [2;2;1] while the preloaded data_vector_mapper stays [2;2;0] (/repo 95fc1c6; it was completed in place before). *)
Theorem C15_preloads_never_modified :
  forall (T : Type) (K : kernels T) (inp : input T) (p : pstore T) (h : list (list qty)),
    factory_slots_neutral inp p ->
    (forall mode, make_inversion K inp p = Ok mode -> fresh_store K inp mode p /\ laws_for K inp mode p) ->
    snd (run_history K inp code p h) = p.
Proof. exact preloads_never_modified. Qed.
Example C15_not_completed_in_place :
  s_dvm pA = Some [2; 2; 0]%Z /\ fst (run_inversion zk inpA code pA [QDv]) = Ok [PV [2; 2; 1]%Z]
  /\ s_dvm (snd (run_inversion zk inpA code pA [QDv])) = Some [2; 2; 0]%Z.
Proof. exact pA_not_completed_in_place. Qed.

(* ---- non-vacuity of the hypothesis sets ---- *)
(* theorems 1-5: a regularized 2-parameter mapper followed by a function object, w-tilde class, ALL eleven slots filled *)
Example C15_hyps_all_slots :
  factory_slots_neutral inpA pA /\
  (forall mode, make_inversion zk inpA pA = Ok mode -> fresh_store zk inpA mode pA /\ laws_for zk inpA mode pA) /\
  make_inversion zk inpA pA = Ok modeA /\
  fst (run_inversion zk inpA code pA [QDv; QCurv; QCrm; QRec; QLdc])
  = Ok [PV [2; 2; 1]; PM [[4; 4; 5]; [4; 4; 5]; [5; 5; 12]]; PM [[5; 4; 5]; [4; 5; 5]; [5; 5; 12]];
        PRV (Ok [2; 2; 1]); PRT (Ok 5)]%Z.
Proof. exact (conj pA_neutral (conj pA_fresh (conj pA_mode pA_outputs))). Qed.
(* the stores of the two refutations satisfy the hypotheses too (so the mutants, not the inputs, are at fault) *)
Example C15_hyps_refutation_inputs :
  (fresh_store zk inpB None pB /\ laws_for zk inpB None pB /\ factory_slots_neutral inpB pB /\ make_inversion zk inpB pB = Ok None)
  /\ (fresh_store zk inpC None pC /\ laws_for zk inpC None pC /\ factory_slots_neutral inpC pC).
Proof. exact (conj pB_fresh pC_fresh). Qed.
(* theorem 6 *)
Example C15_hyps_formalism :
  p_dv zk2 inpD (Some (ds_wt zds)) = p_dv zk2 inpD None /\ p_curv zk2 inpD (Some (ds_wt zds)) = p_curv zk2 inpD None
  /\ (forall s, p_rec zk2 inpD None = Ok s ->
                mapped_wt zk2 inpD (lf_fresh zk2 inpD) s = mapped_map zk2 inpD (omm_list_of zk2 inpD (lf_fresh zk2 inpD)) s).
Proof. exact formalism_hyps_hold. Qed.
(* theorem 7 *)
Example C15_hyps_noise : choose_wt inpA pA = true /\ s_wt pA = Some (ds_wt zds).
Proof. split; reflexivity. Qed.

(* theorem 7b *)
Example C15_hyps_dvm_shortcut : shape_dv_wt zk /\ has_func inpD = false.
Proof. exact (conj zk_shape inpD_no_func). Qed.

(* ================================================================================================================== *)
(* 9. The kernel identities are THEOREMS for the concrete kernels.  [KR c m Kp encf dec slv ldc ldr] (Model/C15k.v) is the kernel
      record filled with the C04 / C03 model of the real routines, over the reals:  c = the Convolver built from mask m and PSF Kp,
      encf = the unique-mapping encoding of a mapper, dec = the (curvature_preload, indexes, lengths) triple of a w_tilde object,
      slv / ldc / ldr = solver and log-determinants (arbitrary).  [wf_input c encf np inp]: np data pixels; every mapper's mapping
      matrix is np x P, has no operated override and its encoding stands for it; every function object's operated matrix is np x P;
      the convolver's frames address np pixels.  Nothing is assumed about noise, data or the PSF values. *)
Theorem C15_kernel_identities_hold_for_C04_kernels :
  forall (c : @convolver ROps) (m : mask) (Kp : @kernel ROps) (encf : list (list R) -> @C04.enc ROps)
         (dec : list (list R) -> list R * list nat * list nat) slv ldc ldr (inp : input R) (np : nat),
    wf_input c encf np inp ->
    forall mode p, laws_for (KR c m Kp encf dec slv ldc ldr) inp mode p.
Proof. exact c04_laws_for. Qed.
(* ... hence transparency, reuse and "every read is the specification value" without any kernel hypothesis *)
Theorem C15_preload_transparent_C04_kernels :
  forall (c : @convolver ROps) (m : mask) (Kp : @kernel ROps) encf dec slv ldc ldr (inp : input R) (np : nat),
    wf_input c encf np inp ->
    forall (p : pstore R) (qs : list qty),
    factory_slots_neutral inp p ->
    (forall mode, make_inversion (KR c m Kp encf dec slv ldc ldr) inp p = Ok mode -> fresh_store (KR c m Kp encf dec slv ldc ldr) inp mode p) ->
    fst (run_inversion (KR c m Kp encf dec slv ldc ldr) inp code p qs) = fst (run_inversion (KR c m Kp encf dec slv ldc ldr) inp code empty_store qs).
Proof. exact c04_preload_transparent. Qed.
Theorem C15_reuse_any_history_C04_kernels :
  forall (c : @convolver ROps) (m : mask) (Kp : @kernel ROps) encf dec slv ldc ldr (inp : input R) (np : nat),
    wf_input c encf np inp ->
    forall (p : pstore R) (h : list (list qty)),
    factory_slots_neutral inp p ->
    (forall mode, make_inversion (KR c m Kp encf dec slv ldc ldr) inp p = Ok mode -> fresh_store (KR c m Kp encf dec slv ldc ldr) inp mode p) ->
    fst (run_history (KR c m Kp encf dec slv ldc ldr) inp code p h)
    = map (fun qs => fst (run_inversion (KR c m Kp encf dec slv ldc ldr) inp code empty_store qs)) h /\
    frozen_eq p (snd (run_history (KR c m Kp encf dec slv ldc ldr) inp code p h)).
Proof. exact c04_reuse_any_history. Qed.
Theorem C15_every_read_is_specified_C04_kernels :
  forall (c : @convolver ROps) (m : mask) (Kp : @kernel ROps) encf dec slv ldc ldr (inp : input R) (np : nat),
    wf_input c encf np inp ->
    forall mode (h : list (list qty)) (p : pstore R),
    make_inversion (KR c m Kp encf dec slv ldc ldr) inp p = Ok mode -> fresh_store (KR c m Kp encf dec slv ldc ldr) inp mode p ->
    fst (run_history (KR c m Kp encf dec slv ldc ldr) inp code p h) = map (fun qs => Ok (map (pure (KR c m Kp encf dec slv ldc ldr) inp mode) qs)) h.
Proof. exact c04_every_read_is_specified. Qed.
(* the identity behind Preloads.data_linear_func_matrix_dict, for every encoding, frame table and weight matrix *)
Theorem C15_data_linear_func_matrix_identity :
  forall (e : @C04.enc ROps) (P : nat) (cw : list (list R)) (frames : list (list (nat * R))),
    enc_ok e P -> length (e_dw e) = length cw -> (0 < length cw)%nat ->
    @off_via_dlfm ROps (@data_linear_func_matrix ROps cw frames) e P = @off_mapper_func ROps e P cw frames.
Proof. exact off_via_dlfm_eq_off_mapper_func. Qed.
(* the mapping class's short cut, for arbitrary kernels: two laws of the data-vector kernel suffice *)
Theorem C15_dvm_shortcut_mapping :
  forall (T : Type) (K : kernels T) (inp : input T),
    shape_dv_map K inp -> hcat_dv_map K inp -> mappers_plain inp -> has_func inp = false -> p_dvm K inp None = p_dv K inp None.
Proof. exact dvm_law_map. Qed.

(* 10. The factory's choice between the formalisms is value-free for the concrete kernels: the structural code of Model/C15.v run
       with the C04 kernels computes, for the translated object list, the very lists D_wt / D_mapping / F_wt / F_mapping of the
       C04 model (two independently written models of w_tilde.py / mapping.py agree), and C04's theorems make them equal.
       Hypotheses: rectangular mask, Convolver.__init__ succeeded, well-formed objects, one data / noise value per pixel, strictly
       positive noise, the solver returns one value per parameter, dataset.w_tilde holds the preload of this noise map and PSF
       and passes check_noise_map. *)
Theorem C15_formalism_choice_value_free_C04_kernels :
  forall (c : @convolver ROps) (m : mask) (Kp : @kernel ROps) encf dec slv ldc ldr (inp : input R) (np : nat),
    wf_input c encf np inp -> objs inp <> [] ->
    forall (w : wtilde R) (pre : list R) (idx lens : list nat),
    dec (wt_w w) = (pre, idx, lens) ->
    rectb m = true -> @convolver_init ROps m Kp = Ok c -> np = length (unmasked m) ->
    length (C15.n inp) = np -> (forall i, (i < np)%nat -> (0 < nth i (C15.n inp) 0)%R) ->
    @preload ROps (@native ROps m (C15.n inp)) Kp (unmasked m) = (pre, idx, lens) ->
    length (C15.d inp) = np ->
    (forall A b sv, slv A b = Ok sv -> length sv = length b) ->
    forall q, pure (KR c m Kp encf dec slv ldc ldr) inp (Some w) q = pure (KR c m Kp encf dec slv ldc ldr) inp None q.
Proof. exact c04_formalism_choice_value_free. Qed.
Theorem C15_factory_choice_value_free_C04_kernels :
  forall (c : @convolver ROps) (m : mask) (Kp : @kernel ROps) encf dec slv ldc ldr (inp : input R),
    rectb m = true -> @convolver_init ROps m Kp = Ok c ->
    wf_input c encf (length (unmasked m)) inp -> in_objs inp <> [] ->
    length (ds_d (in_ds inp)) = length (unmasked m) -> length (ds_n (in_ds inp)) = length (unmasked m) ->
    (forall i, (i < length (unmasked m))%nat -> (0 < nth i (ds_n (in_ds inp)) 0)%R) ->
    (forall A b sv, slv A b = Ok sv -> length sv = length b) ->
    dec (wt_w (ds_wt (in_ds inp))) = @preload ROps (@native ROps m (ds_n (in_ds inp))) Kp (unmasked m) ->
    wt_nv (ds_wt (in_ds inp)) = hd 0%R (ds_n (in_ds inp)) ->
    forall qs,
    fst (run_inversion (KR c m Kp encf dec slv ldc ldr) (with_wt true inp) code empty_store qs)
    = fst (run_inversion (KR c m Kp encf dec slv ldc ldr) (with_wt false inp) code empty_store qs).
Proof. exact c04_factory_choice_value_free. Qed.

(* 11. Preloads.set_*(fit_0, fit_1) -- the production path that fills the slots.  [make_fit K inp own]: the inversion of a fit
       as the factory builds it (own = its own Preloads object); [freads]: attributes read from it; [run_setters K code Cm ss P f0 f1]:
       the methods ss (any of set_w_tilde_imaging, set_operated_mapping_matrix_with_preloads, set_linear_func_inversion_dicts,
       set_curvature_matrix, set_regularization_matrix_and_term, in any order, repetitions allowed) called on the Preloads object P
       with the two fits; Cm = the three "max |a - b| < 1e-8" comparisons (arbitrary).  For EVERY second fit f1 (any inputs, any
       state): what the methods store satisfies the invariant [consistent] (= the premise of theorems 1-5 in semantic form), fit_0's
       inversion keeps returning the specification values whatever is read from it afterwards (the repair 1fc8a9b: a copy, not an
       alias, of its cached curvature matrix is stored), and every later history of inversions that the factory builds in fit_0's
       class on fit_0's inputs returns the specification values. *)
Theorem C15_set_preloads_store_fresh_values :
  forall (T : Type) (K : kernels T) (Cm : cmpk T) (inp0 : input T) (own0 : pstore T) (f0 f1 : fit T)
         (reads0 : list qty) (ss : list setter) (P : pstore T),
    make_fit K inp0 own0 = Ok f0 -> consistent K inp0 (f_mode f0) own0 -> set_laws K inp0 (f_mode f0) ->
    consistent K inp0 (f_mode f0) P ->
    let f0a := snd (freads K code f0 reads0) in
    let r := run_setters K code Cm ss P f0a f1 in
    let P' := snd (fst (fst r)) in
    consistent K inp0 (f_mode f0) P' /\
    (forall reads1, fst (freads K code (snd (fst r)) reads1) = map (pure K inp0 (f_mode f0)) reads1) /\
    (forall h, make_inversion K inp0 P' = Ok (f_mode f0) ->
               fst (run_history K inp0 code P' h) = map (fun qs => Ok (map (pure K inp0 (f_mode f0)) qs)) h).
Proof. exact set_preloads_fresh. Qed.
Theorem C15_set_preloads_store_fresh_values_C04_kernels :
  forall (c : @convolver ROps) (m : mask) (Kp : @kernel ROps) encf dec slv ldc ldr (Cm : cmpk R)
         (inp0 : input R) (np : nat) own0 f0 f1 reads0 ss P,
    wf_input c encf np inp0 ->
    make_fit (KR c m Kp encf dec slv ldc ldr) inp0 own0 = Ok f0 ->
    consistent (KR c m Kp encf dec slv ldc ldr) inp0 (f_mode f0) own0 ->
    consistent (KR c m Kp encf dec slv ldc ldr) inp0 (f_mode f0) P ->
    let K := KR c m Kp encf dec slv ldc ldr in
    let r := run_setters K code Cm ss P (snd (freads K code f0 reads0)) f1 in
    let P' := snd (fst (fst r)) in
    consistent K inp0 (f_mode f0) P' /\
    (forall reads1, fst (freads K code (snd (fst r)) reads1) = map (pure K inp0 (f_mode f0)) reads1) /\
    (forall h, make_inversion K inp0 P' = Ok (f_mode f0) ->
               fst (run_history K inp0 code P' h) = map (fun qs => Ok (map (pure K inp0 (f_mode f0)) qs)) h).
Proof. exact c04_set_preloads_fresh. Qed.
(* 12. ... ACROSS the two classes, for the concrete kernels.  The fits of the preload set-up may be built in one formalism (in
       production the mapping formalism, Preloads(use_w_tilde=False)) while set_w_tilde_imaging makes the factory build the OTHER
       class afterwards: slots produced by one class are consumed by the other (this is where defect f780999 lived).  If fit_0's
       inversion has no array preloads of its own ([plain]), then for every second fit, every methods list, every attributes read
       beforehand and WHICHEVER class the factory builds with the filled Preloads object, every history of inversions on fit_0's
       inputs returns the specification values of fit_0's class.  Ingredients: the methods store exactly the fresh values of
       fit_0's class (incl. the mapping class's mapper-diag blocks); a mapper's data-vector block and curvature block are the SAME
       LISTS in the two classes (B^T N^-1 d from the blurred mapping matrix = from w_tilde_data; np.dot block = w-tilde preload block;
       the block-diagonal matrix is symmetric so the mirror leaves it alone); theorem 10. *)
Theorem C15_set_preloads_any_class_C04_kernels :
  forall (c : @convolver ROps) (m : mask) (Kp : @kernel ROps) encf dec slv ldc ldr (Cm : cmpk R) (inp : input R),
    rectb m = true -> @convolver_init ROps m Kp = Ok c ->
    wf_input c encf (length (unmasked m)) inp -> in_objs inp <> [] ->
    length (ds_d (in_ds inp)) = length (unmasked m) -> length (ds_n (in_ds inp)) = length (unmasked m) ->
    (forall i, (i < length (unmasked m))%nat -> (0 < nth i (ds_n (in_ds inp)) 0)%R) ->
    (forall A b sv, slv A b = Ok sv -> length sv = length b) ->
    tok_ok m Kp dec inp (ds_wt (in_ds inp)) ->
    forall own0 f0 f1 reads0 ss,
    make_fit (KR c m Kp encf dec slv ldc ldr) inp own0 = Ok f0 -> plain R own0 -> wt_slot_ok m Kp dec inp own0 ->
    let K := KR c m Kp encf dec slv ldc ldr in
    let r := run_setters K code Cm ss empty_store (snd (freads K code f0 reads0)) f1 in
    let P' := snd (fst (fst r)) in
    forall mode' h, make_inversion K inp P' = Ok mode' ->
      fst (run_history K inp code P' h) = map (fun qs => Ok (map (pure K inp (f_mode f0)) qs)) h.
Proof. exact c04_set_preloads_any_class. Qed.
(* the two block identities of 12 on their own *)
Theorem C15_mapper_blocks_same_in_both_classes :
  forall (c : @convolver ROps) (m : mask) (Kp : @kernel ROps) encf dec slv ldc ldr (inp : input R) (np : nat),
    wf_input c encf np inp -> rectb m = true -> @convolver_init ROps m Kp = Ok c -> np = length (unmasked m) ->
    length (C15.n inp) = np -> length (C15.d inp) = np -> (forall i, (i < np)%nat -> (0 < nth i (C15.n inp) 0)%R) ->
    forall (w : wtilde R) (pre : list R) (idx lens : list nat),
    dec (wt_w w) = (pre, idx, lens) -> @preload ROps (@native ROps m (C15.n inp)) Kp (unmasked m) = (pre, idx, lens) ->
    p_dvm (KR c m Kp encf dec slv ldc ldr) inp None = p_dvm (KR c m Kp encf dec slv ldc ldr) inp (Some w) /\
    p_cmd_map (KR c m Kp encf dec slv ldc ldr) inp = p_cmd (KR c m Kp encf dec slv ldc ldr) inp w.
Proof. exact mapper_blocks_same. Qed.
Example C15_hyps_any_class :
  let K := KR exC exM exK (@dense_enc ROps) exDec exSlv (fun _ => Ok 0%R) (fun _ => Ok 0%R) in
  (exists f0, make_fit K exInp empty_store = Ok f0 /\ f_mode f0 = Some (ds_wt (in_ds exInp))) /\
  plain R empty_store /\ wt_slot_ok exM exK exDec exInp empty_store /\ tok_ok exM exK exDec exInp (ds_wt (in_ds exInp)).
Proof. exact ex_any_class_hyps. Qed.

(* non-vacuity of 11: one regularized mapper, mapping class; all five methods fill curvature_matrix, operated_mapping_matrix,
   regularization_matrix, the log-determinant and use_w_tilde, and the factory still builds fit_0's class *)
Example C15_hyps_set_preloads :
  make_fit zk inpB empty_store = Ok fitB /\ consistent zk inpB (f_mode fitB) empty_store /\
  set_laws zk inpB (f_mode fitB) /\
  (let P' := snd (fst (fst (run_setters zk code zcmp [SetWt; SetOmm; SetLf; SetCurv; SetReg] empty_store
                                         (snd (freads zk code fitB [QCurv])) fitB))) in
   s_curv P' = Some [[1]]%Z /\ s_omm P' = Some [[1]; [1]]%Z /\ s_reg P' = Some [[1]]%Z /\ s_ldr P' = Some 9%Z /\
   s_use_wt P' = Some true /\ s_dvm P' = None /\ make_inversion zk inpB P' = Ok None).
Proof. exact set_toy_hyps. Qed.

(* non-vacuity of the hypotheses of 9 and 10: (a) every mapping matrix has an encoding that stands for it (the dense one), so
   [encf := dense_enc] meets the encoding clauses of [wf_input] for every mapper; (b) a 3x4 mask with two unmasked pixels, a signed
   3x3 PSF, noise (1, 2), a function list with an operated override followed by a regularized mapper meets every hypothesis *)
Example C15_hyps_encoding_exists :
  forall (M : list (list R)) n P, shape n P M -> (0 < n)%nat ->
    enc_ok (@dense_enc ROps M) P /\ represents (@dense_enc ROps M) M n P /\
    length (e_dw (@dense_enc ROps M)) = n /\ length (e_du (@dense_enc ROps M)) = n /\ length M = n /\ @C04.ncols ROps M = P.
Proof. exact dense_enc_wf. Qed.
Example C15_hyps_C04_kernels :
  rectb exM = true /\ @convolver_init ROps exM exK = Ok exC /\
  wf_input exC (@dense_enc ROps) (length (unmasked exM)) exInp /\ in_objs exInp <> [] /\
  length (ds_d (in_ds exInp)) = length (unmasked exM) /\ length (ds_n (in_ds exInp)) = length (unmasked exM) /\
  (forall i, (i < length (unmasked exM))%nat -> (0 < nth i (ds_n (in_ds exInp)) 0)%R) /\
  (forall A b sv, exSlv A b = Ok sv -> length sv = length b) /\
  exDec (wt_w (ds_wt (in_ds exInp))) = @preload ROps (@native ROps exM (ds_n (in_ds exInp))) exK (unmasked exM) /\
  wt_nv (ds_wt (in_ds exInp)) = hd 0%R (ds_n (in_ds exInp)).
Proof. exact ex_choice_hyps. Qed.

Print Assumptions C15_preload_transparent.
Print Assumptions C15_dvm_shortcut_wtilde.
Print Assumptions C15_reuse_any_history.
Print Assumptions C15_curvature_preload_unchanged.
Print Assumptions C15_every_read_is_specified.
Print Assumptions C15_store_stays_consistent.
Print Assumptions C15_formalism_choice_value_free.
Print Assumptions C15_noise_check.
Print Assumptions C15_raise_is_stable.
Print Assumptions C15_no_copy_refuted.
Print Assumptions C15_unguarded_refuted.
Print Assumptions C15_preloads_never_modified.
Print Assumptions C15_kernel_identities_hold_for_C04_kernels.
Print Assumptions C15_preload_transparent_C04_kernels.
Print Assumptions C15_reuse_any_history_C04_kernels.
Print Assumptions C15_every_read_is_specified_C04_kernels.
Print Assumptions C15_data_linear_func_matrix_identity.
Print Assumptions C15_dvm_shortcut_mapping.
Print Assumptions C15_formalism_choice_value_free_C04_kernels.
Print Assumptions C15_factory_choice_value_free_C04_kernels.
Print Assumptions C15_set_preloads_store_fresh_values.
Print Assumptions C15_set_preloads_store_fresh_values_C04_kernels.
Print Assumptions C15_set_preloads_any_class_C04_kernels.
Print Assumptions C15_mapper_blocks_same_in_both_classes.
