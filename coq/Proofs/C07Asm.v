(* C07 -- the assembled matrix (AbstractInversion.regularization_matrix / regularization_matrix_reduced, the same code for
   every inversion class: block_diag over linear_obj.regularization_matrix in list order) inherits symmetry and
   definiteness from its blocks.  All at ROps. *)
From Coq Require Import ZArith List Bool Reals Lra Lia Arith.
From PAV Require Import Base.Res Base.Check Base.NumOps Base.Sum Model.C07 Proofs.C07.
Import ListNotations.
Local Open Scope R_scope.

Definition sym_block (B : Rmat) : Prop := forall a b, @mget ROps B a b = @mget ROps B b a.
Definition psd_block (B : Rmat) : Prop := forall x, 0 <= @quad ROps B x.
Definition pd_block (B : Rmat) : Prop := forall x, length x = length B -> nonzero x -> 0 < @quad ROps B x.

(* ---------------- symmetry ---------------- *)
Lemma block_entry_sym Bs : Forall sym_block Bs -> forall a b, @block_entry ROps Bs a b = @block_entry ROps Bs b a.
Proof.
  induction 1 as [|B t HB HT IH]; intros a b; cbn [block_entry]; [reflexivity|].
  tr. destruct (a <? length B)%nat, (b <? length B)%nat; cbn [andb orb]; [apply HB|reflexivity|reflexivity|apply IH].
Qed.
Lemma T_asm_sym Bs : blocks_sq Bs -> Forall sym_block Bs ->
  forall a b, @mget ROps (@block_diag ROps Bs) a b = @mget ROps (@block_diag ROps Bs) b a.
Proof. intros HS HY a b. rewrite !(T_block_entry Bs HS). apply block_entry_sym, HY. Qed.

(* ---------------- positive semi-definite ---------------- *)
Lemma T_asm_psd Bs : blocks_sq Bs -> Forall psd_block Bs -> forall x, 0 <= @quad ROps (@block_diag ROps Bs) x.
Proof.
  intros HS HP x. rewrite (T_block_quad Bs HS). clear HS. revert x.
  induction HP as [|B t HB HT IH]; intros x; cbn [block_quad]; [lra|].
  pose proof (HB (firstn (length B) x)). pose proof (IH (skipn (length B) x)). tr. lra.
Qed.

(* ---------------- positive definite ---------------- *)
Lemma zero_or_nonzero (x : list R) : {forall i, nth i x 0 = 0} + {nonzero x}.
Proof.
  induction x as [|a x IH]; [left; intros [|i]; reflexivity|].
  destruct (Req_EM_T a 0) as [Ha|Ha].
  - destruct IH as [IH|IH].
    + left. intros [|i]; cbn [nth]; auto.
    + right. destruct IH as [i Hi]. exists (S i). exact Hi.
  - right. exists 0%nat. exact Ha.
Qed.
Lemma Rbil_zero_vec x : (forall i, nth i x 0 = 0) -> forall (M : Rmat) y, Rbil x M y = 0.
Proof.
  unfold Rbil. induction x as [|a x IH]; intros H0 M y; [reflexivity|].
  destruct M as [|r M]; [reflexivity|]. cbn [combine map sumR fst snd].
  rewrite (IH (fun i => H0 (S i))). pose proof (H0 0%nat) as Ha. cbn [nth] in Ha. rewrite Ha. lra.
Qed.
Lemma pd_block_psd B : pd_block B -> forall x, length x = length B -> 0 <= @quad ROps B x.
Proof.
  intros HP x HL. destruct (zero_or_nonzero x) as [Hz|Hn].
  - unfold quad. rewrite bil_R, (Rbil_zero_vec x Hz). lra.
  - apply Rlt_le, HP; auto.
Qed.
Lemma nonzero_split n (x : list R) : nonzero x -> nonzero (firstn n x) \/ nonzero (skipn n x).
Proof.
  intros [i Hi]. destruct (Nat.ltb_spec i n) as [H|H].
  - left. exists i. rewrite <- (firstn_skipn n x) in Hi.
    destruct (Nat.ltb_spec i (length (firstn n x))) as [H2|H2].
    + rewrite app_nth1 in Hi by exact H2. exact Hi.
    + rewrite app_nth2 in Hi by exact H2. rewrite firstn_length in H2.
      (* i >= min n (length x) and i < n: i >= length x, so the entry is the default *)
      assert (length (skipn n x) = 0)%nat by (rewrite skipn_length; lia).
      destruct (skipn n x); [destruct (i - length (firstn n x))%nat; cbn in Hi; lra|discriminate].
  - right. exists (i - n)%nat. rewrite <- (firstn_skipn n x) in Hi.
    assert (HL : (length (firstn n x) <= n)%nat) by (rewrite firstn_length; lia).
    destruct (Nat.ltb_spec i (length (firstn n x))) as [H2|H2]; [lia|].
    rewrite app_nth2 in Hi by exact H2.
    destruct (Nat.eq_dec (length (firstn n x)) n) as [E|E]; [rewrite E in Hi; exact Hi|].
    (* the vector is shorter than n: nothing is left after position n *)
    rewrite firstn_length in E, HL.
    assert (length (skipn n x) = 0)%nat by (rewrite skipn_length; lia).
    destruct (skipn n x); [destruct (i - length (firstn n x))%nat; cbn in Hi; lra|discriminate].
Qed.
Lemma block_quad_psd_of_pd Bs : Forall pd_block Bs -> forall x, length x = total Bs -> 0 <= block_quad Bs x.
Proof.
  induction 1 as [|B t HB HT IH]; intros x HL; cbn [block_quad]; [lra|]. cbn [total] in HL.
  assert (0 <= @quad ROps B (firstn (length B) x)) by (apply pd_block_psd; auto; rewrite firstn_length; lia).
  assert (0 <= block_quad t (skipn (length B) x)) by (apply IH; rewrite skipn_length; lia).
  lra.
Qed.
Lemma block_quad_pd Bs : Forall pd_block Bs -> forall x, length x = total Bs -> nonzero x -> 0 < block_quad Bs x.
Proof.
  induction 1 as [|B t HB HT IH]; intros x HL HN; cbn [block_quad].
  - cbn [total] in HL. destruct x; [|discriminate]. destruct HN as [i Hi]. destruct i; cbn in Hi; lra.
  - cbn [total] in HL.
    assert (L1 : length (firstn (length B) x) = length B) by (rewrite firstn_length; lia).
    assert (L2 : length (skipn (length B) x) = total t) by (rewrite skipn_length; lia).
    pose proof (pd_block_psd B HB _ L1) as P1. pose proof (block_quad_psd_of_pd t HT _ L2) as P2.
    destruct (nonzero_split (length B) x HN) as [H1|H2].
    + pose proof (HB _ L1 H1). lra.
    + pose proof (IH _ L2 H2). lra.
Qed.
Lemma T_asm_pd Bs : blocks_sq Bs -> Forall pd_block Bs ->
  forall x, length x = total Bs -> nonzero x -> 0 < @quad ROps (@block_diag ROps Bs) x.
Proof. intros HS HP x HL HN. rewrite (T_block_quad Bs HS). apply block_quad_pd; auto. Qed.

(* ---------------- the reduced matrix of an inversion ---------------- *)
Definition obj_wf (o : nat * option Rmat) : Prop :=
  match snd o with Some H => length H = fst o /\ Forall (fun r => length r = fst o) H | None => True end.
Definition obj_pd (o : nat * option Rmat) : Prop := match snd o with Some H => pd_block H | None => True end.
Definition obj_sym (o : nat * option Rmat) : Prop := match snd o with Some H => sym_block H | None => True end.
Definition reg_blocks (objs : list (nat * option Rmat)) : list Rmat := map (@obj_matrix ROps) (filter (@has_reg ROps) objs).

Lemma reg_blocks_sq objs : Forall obj_wf objs -> blocks_sq (reg_blocks objs).
Proof.
  unfold reg_blocks, blocks_sq. induction 1 as [|[p [H|]] t Ho HT IH]; cbn [filter has_reg snd map]; auto.
  constructor; auto. unfold obj_matrix. cbn [snd fst]. unfold obj_wf in Ho. cbn [snd fst] in Ho. destruct Ho as [HL HF].
  rewrite HL. exact HF.
Qed.
Lemma reg_blocks_all (P : Rmat -> Prop) objs :
  Forall (fun o => match snd o with Some H => P H | None => True end) objs -> Forall P (reg_blocks objs).
Proof.
  unfold reg_blocks. induction 1 as [|[p [H|]] t Ho HT IH]; cbn [filter has_reg snd map]; auto.
Qed.
Lemma T_reduced_pd objs : Forall obj_wf objs -> Forall obj_pd objs ->
  forall x, length x = total (reg_blocks objs) -> nonzero x -> 0 < @quad ROps (@inversion_matrix_reduced ROps objs) x.
Proof.
  intros HW HP x HL HN. rewrite (T_reduced objs HW). unfold inversion_matrix. fold (reg_blocks objs).
  apply T_asm_pd; auto. apply reg_blocks_sq, HW. apply (reg_blocks_all pd_block), HP.
Qed.
Lemma T_reduced_sym objs : Forall obj_wf objs -> Forall obj_sym objs ->
  forall a b, @mget ROps (@inversion_matrix_reduced ROps objs) a b = @mget ROps (@inversion_matrix_reduced ROps objs) b a.
Proof.
  intros HW HS a b. rewrite (T_reduced objs HW). unfold inversion_matrix. fold (reg_blocks objs).
  apply T_asm_sym. apply reg_blocks_sq, HW. apply (reg_blocks_all sym_block), HS.
Qed.

(* the FULL matrix of an inversion that has an object without regularization is singular: the unit vector of any of that
   object's parameters is a null direction (which is why the code forms the reduced matrix) *)
Lemma T_full_sym objs : Forall obj_wf objs -> Forall obj_sym objs ->
  forall a b, @mget ROps (@inversion_matrix ROps objs) a b = @mget ROps (@inversion_matrix ROps objs) b a.
Proof.
  intros HW HS a b. unfold inversion_matrix. apply T_asm_sym.
  - unfold blocks_sq. clear HS. induction HW as [|[p [H|]] t Ho HT IH]; cbn [map]; constructor; auto.
    + unfold obj_matrix. cbn [snd fst]. unfold obj_wf in Ho. cbn [snd fst] in Ho. destruct Ho as [HL HF]. rewrite HL. exact HF.
    + destruct (none_block_size p) as [HL HF]. eapply Forall_impl; [|exact HF]. intros r Hr. cbv beta. tr. rewrite Hr. symmetry. exact HL.
  - clear HW. induction HS as [|[p [H|]] t Ho HT IH]; cbn [map]; constructor; auto.
    intros a' b'. rewrite !none_block_zero. reflexivity.
Qed.
