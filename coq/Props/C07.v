(* C07 -- regularization matrices (statements only). *)
From Coq Require Import ZArith List Bool Reals.
From PAV Require Import Base.Res Base.NumOps Base.Sum Model.C07 Proofs.C07.
Import ListNotations.

Theorem C07_madd_keeps_rows : forall (M : @mat ROps) i j v, length (madd M i j v) = length M.
Proof. exact (@madd_length ROps). Qed.

Print Assumptions C07_madd_keeps_rows.
