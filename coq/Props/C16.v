From PAV Require Import Model.C16.
Theorem C16_placeholder : True. Proof. exact I. Qed.
Print Assumptions C16_placeholder.
