(* C14 -- Resize, pad and trim keep data centred and attached to its coordinates.
   Statements only; every proof is [exact <lemma of Proofs/C14*.v>].  The definitions the statements are about
   (resized_array_2d_from, extracted_array_2d_from, mask_resized_from, array_resized_from,
   padded_before_convolution_from, trimmed_after_convolution_from, trimmed_array_from, zoom_region,
   zoomed_around_mask, imaging_apply_mask, grid_slim_via_mask / pixel_centre_code; mask_centre, zoom_centre, zoom_offset_*,
   zoom_mask_unmasked, zoomed_geometry, dset_apply_mask of Model/C14g.v) are the hand model, tied to /repo by the
   correspondence run (Model/C14k.v); resize_spec / window_spec / zip_mask / pixel_centre_spec / point_spec2 / triples_spec /
   ext_get / window_contains / is_bbox are the independent specification.  Arrays are lists of rows of ANY element type; shapes and
   indices are unbounded integers; coordinates are real numbers. *)
From Coq Require Import ZArith QArith List Bool Reals.
From PAV Require Import Base.Res Base.NumOps Model.C14 Model.C14g Proofs.C14 Proofs.C14b Proofs.C14c Proofs.C14d Proofs.C14e
     Proofs.C14f Proofs.C14g Proofs.C14h Proofs.C14i.
Import ListNotations.
Local Open Scope Z_scope.

(* ---------------------------------------------------------------- 1. resize = centred crop / centred embedding *)
(* for every rectangular input, every target shape (any parity combination) and every pad value *)
Theorem C14_resize_is_centred_crop_or_embedding : forall (A : Type) (zero pad : A) (a : list (list A)) H W r0 r1,
  rectb H W a = true -> 0 < H -> 0 <= r0 -> 0 <= r1 ->
  resized_array_2d_from zero a (r0, r1) (-1, -1) pad = Ok (resize_spec pad a r0 r1).
Proof. exact @resized_is_spec. Qed.

(* new[i, j] = old[i + int(H/2) - int(r0/2), j + int(W/2) - int(r1/2)] when that source is in range, the pad value otherwise *)
Theorem C14_resize_entry_formula : forall (A : Type) (zero pad : A) (a : list (list A)) H W r0 r1,
  rectb H W a = true -> 0 < H -> 0 <= r0 -> 0 <= r1 ->
  exists m', resized_array_2d_from zero a (r0, r1) (-1, -1) pad = Ok m' /\ rectb r0 r1 m' = true /\
    forall i j d, 0 <= i < r0 -> 0 <= j < r1 ->
      let y := i + (int_half H - int_half r0) in let x := j + (int_half W - int_half r1) in
      (0 <= y < H /\ 0 <= x < W -> zget2 d m' i j = zget2 d a y x) /\
      (~ (0 <= y < H /\ 0 <= x < W) -> zget2 d m' i j = pad).
Proof. exact @resize_entry_formula. Qed.

Theorem C14_resize_negative_shape_raises : forall (A : Type) (zero pad : A) (a : list (list A)) r0 r1 origin,
  r0 < 0 \/ r1 < 0 -> resized_array_2d_from zero a (r0, r1) origin pad = Raise OtherException.
Proof. exact @resized_negative_shape. Qed.

(* an explicit origin (oy, ox): the r0 x r1 window of the pad-extended array with top-left corner
   (oy - int(r0/2), ox - int(r1/2)); the origin pixel lands on pixel (int(r0/2), int(r1/2)) of the result *)
Theorem C14_resize_explicit_origin_is_window : forall (A : Type) (zero pad : A) (a : list (list A)) H W r0 r1 oy ox,
  rectb H W a = true -> 0 < H -> 0 <= r0 -> 0 <= r1 -> (oy, ox) <> (-1, -1) ->
  resized_array_2d_from zero a (r0, r1) (oy, ox) pad = Ok (window_spec pad a (oy - r0 / 2) (ox - r1 / 2) r0 r1).
Proof. exact @resized_origin_is_window. Qed.

Theorem C14_resize_origin_pixel : forall (A : Type) (zero pad : A) (a : list (list A)) H W r0 r1 oy ox,
  rectb H W a = true -> 0 < H -> 0 < r0 -> 0 < r1 -> (oy, ox) <> (-1, -1) -> 0 <= oy < H -> 0 <= ox < W ->
  exists m', resized_array_2d_from zero a (r0, r1) (oy, ox) pad = Ok m' /\
             forall d, zget2 d m' (r0 / 2) (r1 / 2) = zget2 d a oy ox.
Proof. exact @resized_origin_pixel. Qed.

(* the default origin (-1, -1) stands for the explicit origin (int(H/2), int(W/2)) *)
Theorem C14_resize_default_origin : forall (A : Type) (zero pad : A) (a : list (list A)) rs,
  resized_array_2d_from zero a rs (-1, -1) pad = resized_array_2d_from zero a rs (int_half (nrows a), int_half (ncols a)) pad.
Proof. exact @resized_default_origin. Qed.

(* "centred": per axis the two margins of the crop / embedding differ by at most one and are equal when the parity is kept *)
Theorem C14_margins_centred : forall n r, 0 <= r -> 0 <= n ->
  let top := Z.abs (n / 2 - r / 2) in let bottom := Z.abs (n - r) - top in
  0 <= top /\ 0 <= bottom /\ top + Z.min n r + bottom = Z.max n r /\ Z.abs (top - bottom) <= 1 /\
  (Z.even (n - r) = true -> top = bottom).
Proof. exact margins_centred. Qed.

Theorem C14_mask_resize_is_spec : forall (m : list (list bool)) H W r0 r1 pad_value,
  rectb H W m = true -> 0 < H -> 0 <= r0 -> 0 <= r1 ->
  mask_resized_from m (r0, r1) pad_value = Ok (resize_spec (negb (pad_value =? 0)) m r0 r1).
Proof. exact mask_resized_is_spec. Qed.

(* Array2D.resized_from: values padded with zeros, mask padded with the requested mask pad value, masked entries zero *)
Theorem C14_array_resize_is_spec : forall (A : Type) (zero : A) (arr : arr2d A) H W r0 r1 mask_pad_value,
  rectb H W (fst arr) = true /\ rectb H W (snd arr) = true /\ 0 < H -> 0 <= r0 -> 0 <= r1 ->
  array_resized_from zero arr (r0, r1) mask_pad_value = Ok (resized_arr_spec zero arr r0 r1 mask_pad_value).
Proof. exact @array_resized_is_spec. Qed.

Theorem C14_pad_is_spec : forall (A : Type) (zero : A) (arr : arr2d A) H W k0 k1 mask_pad_value,
  rectb H W (fst arr) = true /\ rectb H W (snd arr) = true /\ 0 < H -> 1 <= k0 -> 1 <= k1 ->
  padded_before_convolution_from zero arr (k0, k1) mask_pad_value
  = Ok (resized_arr_spec zero arr (H + (k0 - 1)) (W + (k1 - 1)) mask_pad_value).
Proof. exact @padded_is_spec. Qed.

(* trimming for ANY odd kernel = the centred crop to shape - (kernel - 1); where that is not positive along an axis nothing
   survives along it (resize_spec with a non-positive target is empty along that axis), as the code's slices do *)
Theorem C14_trim_is_spec : forall (A : Type) (zero : A) (arr : arr2d A) H W k0 k1,
  rectb H W (fst arr) = true /\ rectb H W (snd arr) = true /\ 0 < H ->
  Z.odd k0 = true -> Z.odd k1 = true -> 1 <= k0 -> 1 <= k1 ->
  trimmed_after_convolution_from zero arr (k0, k1) = Ok (resized_arr_spec zero arr (H - (k0 - 1)) (W - (k1 - 1)) 0).
Proof. exact @trimmed_is_spec_all. Qed.

(* in particular a kernel taller than the array + 1 leaves the empty array and the empty mask *)
Theorem C14_trim_oversized_kernel_is_empty : forall (A : Type) (zero : A) (arr : arr2d A) H W k0 k1,
  rectb H W (fst arr) = true /\ rectb H W (snd arr) = true /\ 0 < H -> Z.odd k0 = true -> 1 <= k0 -> H <= k0 - 1 ->
  trimmed_after_convolution_from zero arr (k0, k1) = Ok ([], []).
Proof. exact @trimmed_no_rows. Qed.

(* ---------------------------------------------------------------- 2. round trips *)
(* padding for an odd kernel followed by trimming for the same kernel is the identity: all shapes, all odd kernels,
   either mask pad value *)
Theorem C14_pad_then_trim_id : forall (A : Type) (zero : A) (arr : arr2d A) H W k0 k1 mask_pad_value,
  rectb H W (fst arr) = true /\ rectb H W (snd arr) = true /\ 0 < H ->
  Z.odd k0 = true -> Z.odd k1 = true -> 1 <= k0 -> 1 <= k1 ->
  bind (padded_before_convolution_from zero arr (k0, k1) mask_pad_value)
       (fun p => trimmed_after_convolution_from zero p (k0, k1))
  = Ok (normal_arr zero arr).
Proof. exact @pad_then_trim_id. Qed.

(* the odd-kernel hypothesis is needed: a 2x2 kernel pads one row / column which the trim does not remove *)
Theorem C14_even_kernel_pad_trim_not_identity :
  exists (arr : arr2d Z),
    bind (padded_before_convolution_from 0 arr (2, 2) 0) (fun p => trimmed_after_convolution_from 0 p (2, 2))
    <> Ok (normal_arr 0 arr).
Proof. exact even_kernel_pad_trim_not_identity. Qed.

(* enlarging (any larger shape, any parity) then shrinking back loses nothing *)
Theorem C14_enlarge_then_shrink_id : forall (A : Type) (zero : A) (arr : arr2d A) H W r0 r1 mask_pad_value,
  rectb H W (fst arr) = true /\ rectb H W (snd arr) = true /\ 0 < H -> H <= r0 -> W <= r1 ->
  bind (array_resized_from zero arr (r0, r1) mask_pad_value)
       (fun p => array_resized_from zero p (shape2 (snd arr)) mask_pad_value)
  = Ok (normal_arr zero arr).
Proof. exact @enlarge_then_shrink_id. Qed.

(* Mask2D.trimmed_array_from: the symmetric slice is the centred crop when each axis keeps its parity *)
Theorem C14_trimmed_array_is_centred_crop : forall (A : Type) (zero : A) (p : list (list A)) H W s0 s1,
  rectb H W p = true -> 0 < H -> 0 <= s0 <= H -> 0 <= s1 <= W -> Z.even (H - s0) = true -> Z.even (W - s1) = true ->
  trimmed_array_from (H, W) p (s0, s1) = resize_spec zero p s0 s1.
Proof. exact @trimmed_array_is_spec. Qed.

(* any parity: floor division cuts (H - s0) // 2 rows at each side, so when the difference is odd one row / column MORE
   than requested survives; the result is the centred crop to that shape *)
Theorem C14_trimmed_array_any_parity : forall (A : Type) (zero : A) (p : list (list A)) H W s0 s1,
  rectb H W p = true -> 0 < H -> 0 <= s0 <= H -> 0 <= s1 <= W ->
  trimmed_array_from (H, W) p (s0, s1) = resize_spec zero p (s0 + (H - s0) mod 2) (s1 + (W - s1) mod 2).
Proof. exact @trimmed_array_any_parity. Qed.

Theorem C14_pad_then_trimmed_array_id : forall (A : Type) (zero : A) (arr : arr2d A) H W k0 k1 mask_pad_value,
  rectb H W (fst arr) = true /\ rectb H W (snd arr) = true /\ 0 < H ->
  Z.odd k0 = true -> Z.odd k1 = true -> 1 <= k0 -> 1 <= k1 ->
  bind (padded_before_convolution_from zero arr (k0, k1) mask_pad_value)
       (fun p => Ok (trimmed_array_from (shape2 (snd p)) (fst p) (shape2 (snd arr))))
  = Ok (zip_mask zero (fst arr) (snd arr)).
Proof. exact @pad_then_trimmed_array_id. Qed.

(* ---------------------------------------------------------------- 3. coordinates *)
(* the two assignments of grid_2d_slim_via_mask_from give the pixel-centre formula
   (oy + ((H-1)/2 - y) sy, ox + (x - (W-1)/2) sx) *)
Theorem C14_grid_formula_is_pixel_centre : forall H W (sy sx oy ox : R) y x, sy <> 0%R -> sx <> 0%R ->
  @pixel_centre_code ROps H W (sy, sx, oy, ox) y x = @pixel_centre_spec ROps H W (sy, sx, oy, ox) y x.
Proof. exact centre_code_is_spec. Qed.

(* when the parity of each dimension is preserved every surviving pixel keeps its mask entry, its value and its scaled
   coordinate (any pixel scales, any origin) *)
Theorem C14_parity_preserving_resize_keeps_coordinates :
  forall (A : Type) (zero : A) (arr : arr2d A) H W r0 r1 mask_pad_value (g : @geom ROps),
  rectb H W (fst arr) = true -> rectb H W (snd arr) = true -> 0 < H -> 0 <= r0 -> 0 <= r1 ->
  Z.even (r0 - H) = true -> Z.even (r1 - W) = true ->
  exists out, array_resized_from zero arr (r0, r1) mask_pad_value = Ok out /\
    rectb r0 r1 (fst out) = true /\ rectb r0 r1 (snd out) = true /\
    forall i j, 0 <= i < r0 -> 0 <= j < r1 ->
      let y := i + (H / 2 - r0 / 2) in let x := j + (W / 2 - r1 / 2) in
      0 <= y < H -> 0 <= x < W ->
      zget2 true (snd out) i j = zget2 true (snd arr) y x /\
      zget2 zero (fst out) i j = zget2 zero (fst (normal_arr zero arr)) y x /\
      @pixel_centre_code ROps r0 r1 g i j = @pixel_centre_code ROps H W g y x.
Proof. exact @parity_preserving_resize_keeps_coordinates. Qed.

(* in particular PSF padding (odd kernel): pixel (i, j) moves to (i + (k0-1)/2, j + (k1-1)/2) and keeps everything *)
Theorem C14_psf_padding_keeps_coordinates :
  forall (A : Type) (zero : A) (arr : arr2d A) H W k0 k1 mask_pad_value (g : @geom ROps),
  rectb H W (fst arr) = true -> rectb H W (snd arr) = true -> 0 < H ->
  Z.odd k0 = true -> Z.odd k1 = true -> 1 <= k0 -> 1 <= k1 ->
  exists out, padded_before_convolution_from zero arr (k0, k1) mask_pad_value = Ok out /\
    forall i j, 0 <= i < H -> 0 <= j < W ->
      let i' := i + (k0 - 1) / 2 in let j' := j + (k1 - 1) / 2 in
      zget2 true (snd out) i' j' = zget2 true (snd arr) i j /\
      zget2 zero (fst out) i' j' = zget2 zero (fst (normal_arr zero arr)) i j /\
      @pixel_centre_code ROps (H + (k0 - 1)) (W + (k1 - 1)) g i' j' = @pixel_centre_code ROps H W g i j.
Proof. exact @psf_padding_keeps_coordinates. Qed.

(* the same through Mask2D.resized_from(pad_value=1) + Grid2D.from_mask: the grid of the resized mask lists the
   original coordinates of the surviving unmasked pixels *)
Theorem C14_parity_preserving_mask_resize_keeps_grid : forall (m : list (list bool)) H W r0 r1 (g : @geom ROps),
  rectb H W m = true -> 0 < H -> 0 < r0 -> 0 <= r1 -> Z.even (r0 - H) = true -> Z.even (r1 - W) = true ->
  exists m', mask_resized_from m (r0, r1) 1 = Ok m' /\ m' = resize_spec true m r0 r1 /\
    grid_slim_via_mask m' g =
    map (fun p => @pixel_centre_code ROps H W g (fst p + (H / 2 - r0 / 2)) (snd p + (W / 2 - r1 / 2))) (unmasked_coords m').
Proof. exact resize_keeps_coordinates_grid. Qed.

(* the parity hypothesis is needed: 2x2 -> 3x3 moves the surviving pixel's coordinate by half a pixel *)
Theorem C14_parity_hypothesis_needed :
  @pixel_centre_spec ROps 3 3 (1, 1, 0, 0)%R 0 0 <> @pixel_centre_spec ROps 2 2 (1, 1, 0, 0)%R (0 + (2 / 2 - 3 / 2)) (0 + (2 / 2 - 3 / 2)).
Proof. exact centre_shift_parity_change_refuted. Qed.

(* Imaging.apply_mask, with or without the automatic padding (odd PSF, blurring region leaving the frame): the
   (coordinate, data, noise) triples of the unmasked pixels are those of the original frame; data and noise map end on
   the same mask, which is the given mask or its centred embedding padded with masked pixels *)
Theorem C14_auto_padding_keeps_triples :
  forall (A : Type) (zero : A) (data noise : list (list A)) (m : list (list bool)) H W psf (sy sx oy ox : R),
  rectb H W data = true -> rectb H W noise = true -> rectb H W m = true -> 0 < H -> sy <> 0%R -> sx <> 0%R ->
  match psf with Some k => odd_kernel k = true | None => True end ->
  exists d' n', imaging_apply_mask zero data noise m psf = Ok (d', n') /\ snd n' = snd d' /\
    @triples_of ROps A zero (sy, sx, oy, ox) d' n' = @triples_spec ROps A zero data noise m (sy, sx, oy, ox) /\
    (snd d' = m \/ exists k, psf = Some k /\ blurring_raises m k = true /\
                             snd d' = resize_spec true m (H + (fst k - 1)) (W + (snd k - 1))).
Proof. exact @auto_padding_keeps_triples. Qed.

(* and on the resulting mask the blurring footprint of every unmasked pixel lies inside the frame (what the padding is for) *)
Theorem C14_apply_mask_footprint_inside :
  forall (A : Type) (zero : A) (data noise : list (list A)) (m : list (list bool)) H W k,
  rectb H W data = true -> rectb H W noise = true -> rectb H W m = true -> 0 < H -> odd_kernel k = true ->
  exists d' n', imaging_apply_mask zero data noise m (Some k) = Ok (d', n') /\ footprint_inside (snd d') k = true.
Proof. exact @apply_mask_footprint_inside. Qed.

(* the padding happens exactly when some unmasked pixel's blurring footprint (odd PSF) leaves the frame *)
Theorem C14_padding_iff_footprint_leaves_frame : forall (m : list (list bool)) H W k,
  rectb H W m = true -> 0 < H -> odd_kernel k = true -> blurring_raises m k = negb (footprint_inside m k).
Proof. exact blurring_raises_iff. Qed.

(* when apply_mask padded, AbstractDataset.trimmed_after_convolution_from for the same kernel gives back the masked data
   and noise map on the original mask *)
Theorem C14_apply_mask_then_trim_id :
  forall (A : Type) (zero : A) (data noise : list (list A)) (m : list (list bool)) H W k,
  rectb H W data = true -> rectb H W noise = true -> rectb H W m = true -> 0 < H -> odd_kernel k = true ->
  blurring_raises m k = true ->
  bind (imaging_apply_mask zero data noise m (Some k)) (fun dn => dataset_trimmed zero dn k)
  = Ok ((zip_mask zero data m, m), (zip_mask zero noise m, m)).
Proof. exact @apply_mask_then_trim_id. Qed.

(* masking a masked dataset again: `self.unmasked` -- every mask is applied to the ORIGINAL unmasked data, whatever the
   first mask was and whether or not it made the dataset padded *)
Theorem C14_apply_mask_twice_uses_unmasked_data :
  forall (A : Type) (zero : A) (data noise : list (list A)) (m1 m2 : list (list bool)) H W psf,
  rectb H W data = true -> rectb H W noise = true -> rectb H W m1 = true -> 0 < H ->
  match psf with Some k => odd_kernel k = true | None => True end ->
  bind (dset_apply_mask zero (dset_new data noise) m1 psf) (fun s1 => dset_apply_mask zero s1 m2 psf)
  = dset_apply_mask zero (dset_new data noise) m2 psf.
Proof. exact @apply_mask_twice. Qed.

(* the same when the padded dataset is first trimmed back *)
Theorem C14_apply_mask_trim_apply_mask :
  forall (A : Type) (zero : A) (data noise : list (list A)) (m1 m2 : list (list bool)) H W k,
  rectb H W data = true -> rectb H W noise = true -> rectb H W m1 = true -> 0 < H -> odd_kernel k = true ->
  blurring_raises m1 k = true ->
  bind (dset_apply_mask zero (dset_new data noise) m1 (Some k)) (fun s1 =>
  bind (dset_trimmed zero s1 k) (fun s2 => dset_apply_mask zero s2 m2 (Some k)))
  = dset_apply_mask zero (dset_new data noise) m2 (Some k).
Proof. exact @apply_mask_trim_apply_mask. Qed.

(* ---------------------------------------------------------------- 4. zoom *)
Theorem C14_extract_is_window : forall (A : Type) (zero : A) (a : list (list A)) H W y0 y1 x0 x1,
  rectb H W a = true -> 0 < H -> y0 <= y1 -> x0 <= x1 ->
  extracted_array_2d_from zero a y0 y1 x0 x1 =
  Ok (tab2 (Z.to_nat (y1 - y0)) (Z.to_nat (x1 - x0)) (fun i j => ext_get zero a (y0 + Z.of_nat i) (x0 + Z.of_nat j))).
Proof. exact @extracted_is_spec. Qed.

Theorem C14_zoom_region_contains_unmasked : forall (m : list (list bool)) y0 y1 x0 x1,
  zoom_region m = Ok (y0, y1, x0, x1) ->
  y0 < y1 /\ x0 < x1 /\ Z.abs ((y1 - y0) - (x1 - x0)) <= 1 /\
  forall p, In p (unmasked_coords m) -> y0 <= fst p < y1 /\ x0 <= snd p < x1.
Proof. exact zoom_region_contains. Qed.

(* the zoomed array is a window of the zero-extended array which contains every unmasked pixel with its value *)
Theorem C14_zoom_contains_unmasked : forall (A : Type) (zero : A) (arr : arr2d A) H W buffer,
  rectb H W (fst arr) = true -> rectb H W (snd arr) = true -> 0 < H -> 0 <= buffer -> unmasked_coords (snd arr) <> [] ->
  exists e oy ox h w, zoomed_around_mask zero arr buffer = Ok e /\ rectb h w e = true /\
    (forall i j d, 0 <= i < h -> 0 <= j < w -> zget2 d e i j = ext_get zero (fst arr) (oy + i) (ox + j)) /\
    window_contains (snd arr) oy ox h w = true /\
    (forall y x, 0 <= y < H -> 0 <= x < W -> zget2 true (snd arr) y x = false ->
       0 <= y - oy < h /\ 0 <= x - ox < w /\ forall d, zget2 d e (y - oy) (x - ox) = zget2 d (fst arr) y x).
Proof. exact @zoom_contains_unmasked. Qed.

Theorem C14_zoom_all_masked_raises : forall (A : Type) (zero : A) (arr : arr2d A) buffer,
  unmasked_coords (snd arr) = [] -> zoomed_around_mask zero arr buffer = Raise OtherException.
Proof. exact @zoom_all_masked_raises. Qed.

(* every buffer, negative ones included: the (y1 - y0 + 2b) x (x1 - x0 + 2b) window of the zero-extended array with corner
   (y0 - b, x0 - b), or -- when that shape is negative -- np.zeros raises *)
Theorem C14_zoom_is_window_any_buffer : forall (A : Type) (zero : A) (arr : arr2d A) H W b y0 y1 x0 x1,
  rectb H W (fst arr) = true -> 0 < H -> zoom_region (snd arr) = Ok (y0, y1, x0, x1) ->
  0 <= (y1 - y0) + 2 * b -> 0 <= (x1 - x0) + 2 * b ->
  zoomed_around_mask zero arr b = Ok (window_spec zero (fst arr) (y0 - b) (x0 - b) ((y1 - y0) + 2 * b) ((x1 - x0) + 2 * b)).
Proof. exact @zoom_is_window. Qed.

Theorem C14_zoom_negative_window_raises : forall (A : Type) (zero : A) (arr : arr2d A) b y0 y1 x0 x1,
  zoom_region (snd arr) = Ok (y0, y1, x0, x1) -> (y1 - y0) + 2 * b < 0 \/ (x1 - x0) + 2 * b < 0 ->
  zoomed_around_mask zero arr b = Raise OtherException.
Proof. exact @zoom_negative_window_raises. Qed.

(* the zoom region is centred on THE bounding box of the unmasked pixels (doubled centre index y0 + (y1 - 1) = imin + imax),
   contains it, keeps its longer side and grows the shorter one to the longer one or one less *)
Theorem C14_zoom_region_centred_on_bounding_box : forall (m : list (list bool)) y0 y1 x0 x1,
  zoom_region m = Ok (y0, y1, x0, x1) ->
  exists a0 a1 b0 b1, is_bbox m a0 a1 b0 b1 /\
    y0 + (y1 - 1) = a0 + a1 /\ x0 + (x1 - 1) = b0 + b1 /\ y0 <= a0 /\ a1 < y1 /\ x0 <= b0 /\ b1 < x1 /\
    Z.max (a1 - a0) (b1 - b0) - 1 <= y1 - 1 - y0 <= Z.max (a1 - a0) (b1 - b0) /\
    Z.max (a1 - a0) (b1 - b0) - 1 <= x1 - 1 - x0 <= Z.max (a1 - a0) (b1 - b0).
Proof. exact zoom_region_centred_on_bbox. Qed.

(* Mask2D.mask_centre (the origin given to the zoomed array) is the scaled coordinate of the centre of the unmasked bounding
   box: any non-zero pixel scales of either sign, any origin *)
Theorem C14_mask_centre_is_bounding_box_centre : forall (m : list (list bool)) a0 a1 b0 b1 (sy sx oy ox : R),
  is_bbox m a0 a1 b0 b1 -> sy <> 0%R -> sx <> 0%R ->
  @mask_centre ROps m (sy, sx, oy, ox) = Ok (@point_spec2 ROps (nrows m) (ncols m) (sy, sx, oy, ox) (a0 + a1) (b0 + b1)).
Proof. exact mask_centre_is_bbox_centre. Qed.

(* point_spec2 at even doubled indices is the pixel-centre formula *)
Theorem C14_point_spec2_is_pixel_centre : forall H W (g : @geom ROps) y x,
  @point_spec2 ROps H W g (2 * y) (2 * x) = @pixel_centre_spec ROps H W g y x.
Proof. exact point_spec2_pixel. Qed.

(* the output geometry of Array2D.zoomed_around_mask (shape, pixel scales, origin = mask_centre): pixel (i, j) of the
   result holds the value of the zero-extended array at (y0 - b + i, x0 - b + j) AND carries the scaled coordinate that pixel
   has in the original frame -- every buffer whose window is not negative *)
Theorem C14_zoom_keeps_value_and_coordinate :
  forall (A : Type) (zero : A) (arr : arr2d A) H W b y0 y1 x0 x1 (sy sx oy ox : R),
  rectb H W (fst arr) = true -> rectb H W (snd arr) = true -> 0 < H ->
  zoom_region (snd arr) = Ok (y0, y1, x0, x1) -> sy <> 0%R -> sx <> 0%R ->
  let h := (y1 - y0) + 2 * b in let w := (x1 - x0) + 2 * b in
  0 <= h -> 0 <= w ->
  exists e cy cx, zoomed_around_mask zero arr b = Ok e /\
    @mask_centre ROps (snd arr) (sy, sx, oy, ox) = Ok (cy, cx) /\
    @zoomed_geometry ROps (snd arr) (sy, sx, oy, ox) b = Ok ((h, w), (sy, sx, cy, cx)) /\ rectb h w e = true /\
    forall i j, 0 <= i < h -> 0 <= j < w ->
      (forall d, zget2 d e i j = ext_get zero (fst arr) (y0 - b + i) (x0 - b + j)) /\
      @pixel_centre_spec ROps h w (sy, sx, cy, cx) i j = @pixel_centre_spec ROps H W (sy, sx, oy, ox) (y0 - b + i) (x0 - b + j).
Proof. exact @zoomed_keeps_value_and_coordinate. Qed.

Theorem C14_zoom_geometry_negative_window_raises : forall (m : list (list bool)) (sy sx oy ox : R) y0 y1 x0 x1 b,
  zoom_region m = Ok (y0, y1, x0, x1) -> (y1 - y0) + 2 * b < 0 \/ (x1 - x0) + 2 * b < 0 ->
  @zoomed_geometry ROps m (sy, sx, oy, ox) b = Raise OtherException.
Proof. exact zoomed_geometry_negative_window_raises. Qed.

(* Mask2D.zoom_mask_unmasked: shape of the zoom region, origin = origin + zoom_offset_scaled = mask_centre (the geometry of
   zoomed_around_mask(buffer=0)); each of its pixels carries the coordinate of the pixel of the original frame it covers *)
Theorem C14_zoom_mask_unmasked_keeps_coordinates : forall (m : list (list bool)) y0 y1 x0 x1 (sy sx oy ox : R),
  zoom_region m = Ok (y0, y1, x0, x1) -> sy <> 0%R -> sx <> 0%R ->
  exists cy cx, @mask_centre ROps m (sy, sx, oy, ox) = Ok (cy, cx) /\
    @zoom_mask_unmasked ROps m (sy, sx, oy, ox) = Ok ((y1 - y0, x1 - x0), (sy, sx, cy, cx)) /\
    @zoomed_geometry ROps m (sy, sx, oy, ox) 0 = Ok ((y1 - y0, x1 - x0), (sy, sx, cy, cx)) /\
    forall i j, @pixel_centre_spec ROps (y1 - y0) (x1 - x0) (sy, sx, cy, cx) i j
                = @pixel_centre_spec ROps (nrows m) (ncols m) (sy, sx, oy, ox) (y0 + i) (x0 + j).
Proof. exact zoom_mask_unmasked_keeps_coordinates. Qed.

(* Mask2D.zoom_centre / zoom_offset_pixels / zoom_offset_scaled *)
Theorem C14_zoom_offsets : forall (m : list (list bool)) a0 a1 b0 b1 (sy sx oy ox : R),
  is_bbox m a0 a1 b0 b1 -> sy <> 0%R -> sx <> 0%R ->
  let cy := (IZR (a0 + a1) / 2)%R in let cx := (IZR (b0 + b1) / 2)%R in
  let py := (cy - IZR (nrows m - 1) / 2)%R in let px := (cx - IZR (ncols m - 1) / 2)%R in
  @zoom_centre ROps m (sy, sx, oy, ox) = Ok (cy, cx) /\
  @zoom_offset_pixels ROps m (sy, sx, oy, ox) = Ok (py, px) /\
  @zoom_offset_scaled ROps m (sy, sx, oy, ox) = Ok ((- sy * py)%R, (sx * px)%R).
Proof. exact zoom_offsets. Qed.

Theorem C14_zoom_geometry_all_masked_raises : forall (m : list (list bool)) (g : @geom ROps) b,
  unmasked_coords m = [] ->
  mask_centre m g = Raise OtherException /\ zoom_centre m g = Raise OtherException /\
  zoom_offset_pixels m g = Raise OtherException /\ zoom_offset_scaled m g = Raise OtherException /\
  zoom_mask_unmasked m g = Raise OtherException /\ zoomed_geometry m g b = Raise OtherException.
Proof. exact (@zoom_geometry_all_masked ROps). Qed.

(* ---------------------------------------------------------------- non-vacuity: concrete inputs meeting the hypotheses *)
Definition ex_vals : list (list Z) := [[1; 2; 3]; [4; 5; 6]].
Definition ex_mask : list (list bool) := [[false; true; false]; [true; false; false]].
Definition ex_arr : arr2d Z := (ex_vals, ex_mask).

(* rectangular 2x3 input, even -> odd and odd -> even targets, grow and shrink *)
Example C14_ex_resize :
  rectb 2 3 ex_vals = true /\
  resized_array_2d_from 0 ex_vals (3, 4) (-1, -1) 9 = Ok [[9; 1; 2; 3]; [9; 4; 5; 6]; [9; 9; 9; 9]] /\
  resized_array_2d_from 0 ex_vals (1, 2) (-1, -1) 9 = Ok [[4; 5]] /\
  resize_spec 9 ex_vals 3 4 = [[9; 1; 2; 3]; [9; 4; 5; 6]; [9; 9; 9; 9]].
Proof. vm_compute. repeat split. Qed.
Example C14_ex_negative_shape : resized_array_2d_from 0 ex_vals (-1, 2) (-1, -1) 9 = Raise OtherException.
Proof. vm_compute. reflexivity. Qed.
(* proper Array2D (values and mask 2x3), odd kernel (3, 5) *)
Example C14_ex_pad_trim :
  (rectb 2 3 (fst ex_arr) = true /\ rectb 2 3 (snd ex_arr) = true /\ 0 < 2) /\ Z.odd 3 = true /\ Z.odd 5 = true /\
  padded_before_convolution_from 0 ex_arr (3, 5) 1 =
    Ok ([[0; 0; 0; 0; 0; 0; 0]; [0; 0; 1; 0; 3; 0; 0]; [0; 0; 0; 5; 6; 0; 0]; [0; 0; 0; 0; 0; 0; 0]],
        [[true; true; true; true; true; true; true]; [true; true; false; true; false; true; true];
         [true; true; true; false; false; true; true]; [true; true; true; true; true; true; true]]) /\
  bind (padded_before_convolution_from 0 ex_arr (3, 5) 1) (fun p => trimmed_after_convolution_from 0 p (3, 5))
  = Ok ([[1; 0; 3]; [0; 5; 6]], ex_mask).
Proof. vm_compute. repeat split. Qed.
(* explicit origin (1, 2) of a 2x3 array, target 3x2: corner (1 - 1, 2 - 1) = (0, 1); the origin pixel 6 lands on (1, 1) *)
Example C14_ex_explicit_origin :
  (1, 2) <> (-1, -1) /\
  resized_array_2d_from 0 ex_vals (3, 2) (1, 2) 9 = Ok [[2; 3]; [5; 6]; [9; 9]] /\
  window_spec 9 ex_vals 0 1 3 2 = [[2; 3]; [5; 6]; [9; 9]].
Proof. vm_compute. repeat split. discriminate. Qed.
(* a kernel (5, 3) on a 2x3 array: no row survives; kernel (1, 5): the two rows survive, empty *)
Example C14_ex_trim_oversized :
  trimmed_after_convolution_from 0 ex_arr (5, 3) = Ok ([], []) /\
  trimmed_after_convolution_from 0 ex_arr (1, 5) = Ok ([[]; []], [[]; []]) /\
  resized_arr_spec 0 ex_arr (2 - (1 - 1)) (3 - (5 - 1)) 0 = ([[]; []], [[]; []]).
Proof. vm_compute. repeat split. Qed.
(* trimmed_array_from 3x3 -> requested 2x2 (parity changes): the 3x3 array comes back (2 + 1 rows / columns) *)
Example C14_ex_trimmed_array_parity_change :
  trimmed_array_from (3, 3) [[1; 2; 3]; [4; 5; 6]; [7; 8; 9]] (2, 2) = [[1; 2; 3]; [4; 5; 6]; [7; 8; 9]] /\
  (2 + (3 - 2) mod 2 = 3).
Proof. vm_compute. repeat split. Qed.
(* trim hypotheses: 4x7 array, kernel (3, 5) *)
Example C14_ex_trim :
  trimmed_after_convolution_from 0 ([[0; 0; 0; 0; 0; 0; 0]; [0; 0; 1; 2; 3; 0; 0]; [0; 0; 4; 5; 6; 0; 0]; [0; 0; 0; 0; 0; 0; 0]],
                                    repeat (repeat false 7%nat) 4%nat) (3, 5)
  = Ok (ex_vals, repeat (repeat false 3%nat) 2%nat).
Proof. vm_compute. reflexivity. Qed.
(* enlarge 2x3 -> 5x4 (both parities change) and back *)
Example C14_ex_enlarge_shrink :
  2 <= 5 /\ 3 <= 4 /\
  bind (array_resized_from 0 ex_arr (5, 4) 0) (fun p => array_resized_from 0 p (shape2 (snd ex_arr)) 0)
  = Ok ([[1; 0; 3]; [0; 5; 6]], ex_mask).
Proof. vm_compute. repeat split; discriminate. Qed.
(* trimmed_array_from: 4x5 -> 2x3 keeps the parity of both axes *)
Example C14_ex_trimmed_array :
  Z.even (4 - 2) = true /\ Z.even (5 - 3) = true /\
  trimmed_array_from (4, 5) [[0; 0; 0; 0; 0]; [0; 1; 2; 3; 0]; [0; 4; 5; 6; 0]; [0; 0; 0; 0; 0]] (2, 3) = ex_vals.
Proof. vm_compute. repeat split. Qed.
(* parity-preserving resize 2x3 -> 4x5 and non-zero pixel scales *)
Example C14_ex_parity : Z.even (4 - 2) = true /\ Z.even (5 - 3) = true /\ (2 <> 0)%R /\ (/ 2 <> 0)%R.
Proof. repeat split; try reflexivity; try apply Rinv_neq_0_compat; apply not_0_IZR; discriminate. Qed.
(* apply_mask: an unmasked corner pixel with a 3x3 PSF leaves the frame -> padding; an odd kernel *)
Example C14_ex_apply_mask :
  odd_kernel (3, 3) = true /\ blurring_raises ex_mask (3, 3) = true /\
  option_map (fun r => snd (fst r)) (match imaging_apply_mask 0 ex_vals ex_vals ex_mask (Some (3, 3)) with Ok r => Some r | Raise _ => None end)
  = Some [[true; true; true; true; true]; [true; false; true; false; true]; [true; true; false; false; true]; [true; true; true; true; true]] /\
  blurring_raises [[true; true; true]; [true; false; true]; [true; true; true]] (3, 3) = false.
Proof. vm_compute. repeat split. Qed.
(* zoom: a mask with unmasked pixels, buffer 1 *)
Example C14_ex_zoom :
  unmasked_coords ex_mask <> [] /\ zoom_region ex_mask = Ok (0, 2, 0, 3) /\
  zoomed_around_mask 0 ex_arr 1 = Ok [[0; 0; 0; 0; 0]; [0; 1; 2; 3; 0]; [0; 4; 5; 6; 0]; [0; 0; 0; 0; 0]] /\
  zoom_region [[true; true]; [true; true]] = Raise OtherException.
Proof. vm_compute. repeat split; discriminate. Qed.

(* zoom geometry: the bounding box of ex_mask is rows 0..1, columns 0..2; region (0, 2, 0, 3); buffer -1 leaves a 0 x 1 window,
   buffer -2 raises; pixel scales (1/2, 2), origin (1, -2): mask_centre = (1, -2) (the frame's own centre) *)
Example C14_ex_zoom_geometry :
  bbox ex_mask = Some (0, 1, 0, 2) /\
  @zoomed_geometry QOps ex_mask ((1 # 2)%Q, 2%Q, 1%Q, (-2)%Q) 1 = Ok ((4, 5), ((1 # 2)%Q, 2%Q, 1%Q, (-2)%Q)) /\
  @zoomed_geometry QOps ex_mask ((1 # 2)%Q, 2%Q, 1%Q, (-2)%Q) (-1) = Ok ((0, 1), ((1 # 2)%Q, 2%Q, 1%Q, (-2)%Q)) /\
  @zoomed_geometry QOps ex_mask ((1 # 2)%Q, 2%Q, 1%Q, (-2)%Q) (-2) = Raise OtherException /\
  zoomed_around_mask 0 ex_arr (-1) = Ok [] /\
  @zoom_mask_unmasked QOps [[true; true; true]; [true; true; false]] (1%Q, 1%Q, 0%Q, 0%Q)
    = Ok ((1, 1), (1%Q, 1%Q, (-1 # 2)%Q, 1%Q)).
Proof. vm_compute. repeat split. Qed.
Example C14_ex_is_bbox : is_bbox ex_mask 0 1 0 2.
Proof. apply bbox_is_bbox. vm_compute. reflexivity. Qed.
(* apply_mask twice: first mask pads (unmasked corner, 3x3 PSF), the second mask is applied to the original data *)
Example C14_ex_apply_mask_twice :
  option_map (fun s => fst (fst (fst s)))
    (match bind (dset_apply_mask 0 (dset_new ex_vals ex_vals) ex_mask (Some (3, 3)))
                (fun s1 => dset_apply_mask 0 s1 [[true; true; true]; [true; false; true]] (Some (3, 3))) with Ok r => Some r | Raise _ => None end)
  = Some [[0; 0; 0; 0; 0]; [0; 0; 0; 0; 0]; [0; 0; 5; 0; 0]; [0; 0; 0; 0; 0]].
Proof. vm_compute. reflexivity. Qed.

(* ---------------------------------------------------------------- Grid2D.padded_grid_from (PSF padding of a grid) *)
(* for an odd kernel, pixel (i, j) of the padded grid carries the scaled coordinate that pixel (i - (k0-1)/2, j - (k1-1)/2)
   has in the original frame: the pixels of the original frame keep their coordinates, any pixel scales / origin *)
Theorem C14_padded_grid_keeps_coordinates : forall H W k0 k1 (g : @geom ROps),
  0 < H -> 0 <= W -> Z.odd k0 = true -> Z.odd k1 = true -> 1 <= k0 -> 1 <= k1 ->
  @padded_grid_from ROps H W (k0, k1) g =
  map (fun p => @pixel_centre_code ROps H W g (fst p - (k0 - 1) / 2) (snd p - (k1 - 1) / 2))
      (unmasked_coords (all_false_mask (H + k0 - 1) (W + k1 - 1))).
Proof. exact padded_grid_keeps_coordinates. Qed.
(* and it lists every pixel of the (H + k0 - 1) x (W + k1 - 1) frame *)
Theorem C14_padded_grid_lists_every_pixel : forall H W k0 k1 (g : @geom ROps), 0 < H + k0 - 1 -> 0 <= W + k1 - 1 ->
  length (@padded_grid_from ROps H W (k0, k1) g) = (Z.to_nat (H + k0 - 1) * Z.to_nat (W + k1 - 1))%nat.
Proof. exact padded_grid_length. Qed.
Example C14_ex_padded_grid :
  Z.odd 3 = true /\ Z.odd 1 = true /\
  map (fun p => (Qred (fst p), Qred (snd p))) (@padded_grid_from QOps 1 2 (3, 1) (1%Q, 1%Q, 0%Q, 0%Q))
  = [(1%Q, (-1 # 2)%Q); (1%Q, (1 # 2)%Q); (0%Q, (-1 # 2)%Q); (0%Q, (1 # 2)%Q); ((-1)%Q, (-1 # 2)%Q); ((-1)%Q, (1 # 2)%Q)].
Proof. vm_compute. repeat split. Qed.

Print Assumptions C14_resize_is_centred_crop_or_embedding.
Print Assumptions C14_resize_entry_formula.
Print Assumptions C14_resize_negative_shape_raises.
Print Assumptions C14_margins_centred.
Print Assumptions C14_mask_resize_is_spec.
Print Assumptions C14_array_resize_is_spec.
Print Assumptions C14_pad_is_spec.
Print Assumptions C14_trim_is_spec.
Print Assumptions C14_pad_then_trim_id.
Print Assumptions C14_enlarge_then_shrink_id.
Print Assumptions C14_trimmed_array_is_centred_crop.
Print Assumptions C14_pad_then_trimmed_array_id.
Print Assumptions C14_grid_formula_is_pixel_centre.
Print Assumptions C14_parity_preserving_resize_keeps_coordinates.
Print Assumptions C14_parity_preserving_mask_resize_keeps_grid.
Print Assumptions C14_parity_hypothesis_needed.
Print Assumptions C14_auto_padding_keeps_triples.
Print Assumptions C14_apply_mask_footprint_inside.
Print Assumptions C14_psf_padding_keeps_coordinates.
Print Assumptions C14_padding_iff_footprint_leaves_frame.
Print Assumptions C14_apply_mask_then_trim_id.
Print Assumptions C14_extract_is_window.
Print Assumptions C14_zoom_region_contains_unmasked.
Print Assumptions C14_zoom_contains_unmasked.
Print Assumptions C14_zoom_all_masked_raises.
Print Assumptions C14_resize_explicit_origin_is_window.
Print Assumptions C14_resize_origin_pixel.
Print Assumptions C14_resize_default_origin.
Print Assumptions C14_trim_oversized_kernel_is_empty.
Print Assumptions C14_trimmed_array_any_parity.
Print Assumptions C14_even_kernel_pad_trim_not_identity.
Print Assumptions C14_apply_mask_twice_uses_unmasked_data.
Print Assumptions C14_apply_mask_trim_apply_mask.
Print Assumptions C14_zoom_is_window_any_buffer.
Print Assumptions C14_zoom_negative_window_raises.
Print Assumptions C14_zoom_region_centred_on_bounding_box.
Print Assumptions C14_mask_centre_is_bounding_box_centre.
Print Assumptions C14_point_spec2_is_pixel_centre.
Print Assumptions C14_zoom_keeps_value_and_coordinate.
Print Assumptions C14_zoom_geometry_negative_window_raises.
Print Assumptions C14_zoom_mask_unmasked_keeps_coordinates.
Print Assumptions C14_zoom_offsets.
Print Assumptions C14_zoom_geometry_all_masked_raises.
Print Assumptions C14_padded_grid_keeps_coordinates.
Print Assumptions C14_padded_grid_lists_every_pixel.
