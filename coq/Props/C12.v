From PAV Require Import Model.C12 Proofs.C12.
