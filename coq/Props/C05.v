(* C05 -- the reconstruction is the true (non-negative) least-squares optimum.
   Statements only; every proof is [exact <lemma of Proofs/C05.v>].  All statements are about the executable model
   of Model/C05.v instantiated at the real numbers (ROps), for every size n, every matrix / vector / tolerance,
   every warm start and every fuel.  Vocabulary (Proofs/C05.v):
     wf n A b          A is n x n (a list of n rows of length n), b has length n
     dotR, rowR, gradR gradR A b s i = ((F+H) s - D)_i
     KKT A b s tau     s >= 0, gradient = 0 where s_i > 0, gradient >= -tau where s_i = 0
     Stationary A b s  s >= 0 and gradient = 0 where s_i > 0
     objR A b s        1/2 s^T A s - b^T s
     sym_mat, pos_def  A symmetric, x^T A x > 0 for x <> 0                                              *)
From Coq Require Import ZArith List Bool Reals Lra Lia QArith.
From PAV Require Import Base.Res Base.Check Base.NumOps Base.Sum Model.C05 Model.C05Chol Proofs.C05 Proofs.C05Chol Proofs.C05Cert Proofs.C05Sign.
Import ListNotations.
Local Open Scope R_scope.

(* ---- the linear solve used everywhere (Gaussian elimination): a returned vector solves the system ---- *)
Theorem C05_solve_sound : forall n A b x, wf n A b -> @solve ROps A b = Some x ->
  length x = n /\ forall i, (i < n)%nat -> dotR (rowR A i) x = nth i b 0.
Proof. exact solve_sound. Qed.

(* ---- unconstrained solver: (F+H) s = D, or InversionException ---- *)
Theorem C05_unconstrained_solves_or_raises : forall n A b ranges chk, wf n A b ->
  match @reconstruction_positive_negative ROps A b ranges chk with
  | Ok s => length s = n /\ forall i, (i < n)%nat -> dotR (rowR A i) s = nth i b 0
  | Raise e => e = InversionException
  end.
Proof. exact positive_negative_sound. Qed.

(* ---- positive-only solver (fnnls_cholesky incl. the warm-start prologue): KKT when the loop is left through its
        `while` condition; cold start (pinit = None) and ANY warm start mask (pinit = Some P0) ---- *)
Theorem C05_kkt_on_normal_exit : forall n A b (eps : R) pinit fuel (d : list R) Pf,
  wf n A b -> 0 <= eps -> (forall P0, pinit = Some P0 -> length P0 = n) ->
  @fnnls ROps fuel A b eps pinit = Ok (d, ExitCond, Pf) ->
  KKT A b d (@tolerance ROps eps n).
Proof. exact fnnls_kkt_on_normal_exit. Qed.

(* at every exit (also the `no_update >= 3` break): non-negative, and the normal equations hold on the support *)
Theorem C05_stationary_at_any_exit : forall n A b (eps : R) pinit fuel (d : list R) ek Pf,
  wf n A b -> 0 <= eps -> (forall P0, pinit = Some P0 -> length P0 = n) ->
  @fnnls ROps fuel A b eps pinit = Ok (d, ek, Pf) ->
  Stationary A b d.
Proof. exact fnnls_stationary_any_exit. Qed.

(* the certificate that the correspondence run evaluates on the implementation's output accepts every KKT point *)
Theorem C05_kkt_certificate_accepts : forall A b d (tau : R), 0 <= tau -> KKT A b d tau -> @kkt_ok ROps A b d tau = true.
Proof. exact KKT_kkt_ok. Qed.

(* reconstruction_positive_only_from, warm start on or off *)
Theorem C05_positive_only_kkt : forall n A b (eps : R) uses_p_initial fuel (d : list R), wf n A b -> 0 <= eps ->
  @reconstruction_positive_only_x ROps fuel A b eps uses_p_initial = Ok (d, ExitCond) ->
  KKT A b d (@tolerance ROps eps n).
Proof. exact positive_only_kkt. Qed.
Theorem C05_positive_only_stationary : forall n A b (eps : R) uses_p_initial fuel (d : list R), wf n A b -> 0 <= eps ->
  @reconstruction_positive_only ROps fuel A b eps uses_p_initial = Ok d -> Stationary A b d.
Proof. exact positive_only_stationary. Qed.
Theorem C05_positive_only_raises_only_inversion_exception : forall A b (eps : R) uses_p_initial fuel e,
  @reconstruction_positive_only ROps fuel A b eps uses_p_initial = Raise e -> e = InversionException.
Proof. exact positive_only_raises_inversion_exception. Qed.

(* ---- soundness of the executable certificate, independent of the solver model: what passing [kkt_ok] means for the vector the
   IMPLEMENTATION returned, whichever way its loop was left (vocabulary, Proofs/C05Cert.v:  KKTa A b s tol  =  s >= 0, |gradient| <= tol
   where s_i > 0, gradient >= -tol where s_i = 0) ---- *)
Theorem C05_kkt_certificate_sound : forall A b d (tol : R), @kkt_ok ROps A b d tol = true -> KKTa A b d tol.
Proof. exact kkt_ok_sound. Qed.
Theorem C05_certified_output_is_minimiser : forall n A b d (tol : R) y,
  wf n A b -> sym_mat n A -> pos_def n A -> 0 <= tol -> @kkt_ok ROps A b d tol = true ->
  length y = n -> (forall i, (i < n)%nat -> 0 <= nth i y 0) ->
  objR A b d - tol * (sumR y + sumR d) <= objR A b y.
Proof. exact certified_output_is_minimiser. Qed.
(* the early-exit failure (a zero entry whose gradient is below -tol) can never pass *)
Theorem C05_certificate_rejects_negative_gradient : forall A b d (tol : R) i,
  (i < length b)%nat -> nth i d 0 = 0 -> gradR A b d i < - tol -> @kkt_ok ROps A b d tol = false.
Proof. exact certificate_rejects_negative_gradient. Qed.

(* ---- the Lawson-Hanson sign lemma for the model's outer step (Proofs/C05Sign.v): from a state satisfying the active-set invariant
   (Inv n A b P Pin s: s solves the sub-system on the passive list Pin = the True entries of P, s = 0 elsewhere), the parameter
   idmax = argmax(w * ~P) admitted by the loop condition receives a POSITIVE value in the solve on Pin ++ [idmax] when A is symmetric
   positive definite.  So an outer iteration that keeps the SIZE of the passive set is a genuine exchange (the entering parameter is
   not the one thrown out by the first fix_constraint step), not a stalled iteration. ---- *)
Theorem C05_entering_parameter_positive : forall n A b P Pin (s : list R) idmax (s1 : list R),
  wf n A b -> sym_mat n A -> pos_def n A ->
  Inv n A b P Pin s -> (idmax < n)%nat -> nth idmax P false = false ->
  0 < nth idmax b 0 - dotR (rowR A idmax) s ->
  Inv n A b (upd_set P idmax true) (Pin ++ [idmax]) s1 ->
  0 < nth idmax s1 0.
Proof. exact entering_parameter_positive. Qed.
Theorem C05_outer_entering_value_positive : forall n A b (tau : R) P Pin (s x : list R),
  wf n A b -> sym_mat n A -> pos_def n A -> 0 <= tau ->
  Inv n A b P Pin s ->
  let w := @residual ROps A b s in
  @keep_going ROps P w tau = true ->
  let idmax := @argmax ROps (map (fun wp : R * bool => mul ROps (fst wp) (if snd wp then @zero ROps else @one ROps)) (combine w P)) in
  @solve_sub ROps A b (Pin ++ [idmax]) = Some x ->
  0 < nth idmax (@assign ROps s (Pin ++ [idmax]) x) 0.
Proof. exact outer_entering_value_positive. Qed.

(* ---- KKT => minimiser of 1/2 s^T A s - b^T s over s >= 0 (up to tau * sum y), unique when tau = 0 ---- *)
Theorem C05_kkt_implies_minimiser : forall n A b d (tau : R) y,
  wf n A b -> sym_mat n A -> pos_def n A -> 0 <= tau -> KKT A b d tau ->
  length y = n -> (forall i, (i < n)%nat -> 0 <= nth i y 0) ->
  objR A b d - tau * sumR y <= objR A b y.
Proof. exact kkt_minimiser. Qed.
Theorem C05_kkt_implies_unique_minimiser : forall n A b d y,
  wf n A b -> sym_mat n A -> pos_def n A -> KKT A b d 0 ->
  length y = n -> (forall i, (i < n)%nat -> 0 <= nth i y 0) ->
  objR A b y <= objR A b d -> y = d.
Proof. exact kkt_unique_minimiser. Qed.
Theorem C05_objective_is_model_objective : forall A b x, @objective ROps A b x = objR A b x.
Proof. exact objective_objR. Qed.

(* the model's answer, left through the loop condition, minimises the objective over s >= 0 up to tolerance * sum y *)
Theorem C05_positive_only_is_minimiser : forall n A b (eps : R) uses_p_initial fuel (d : list R) y,
  wf n A b -> sym_mat n A -> pos_def n A -> 0 <= eps ->
  @reconstruction_positive_only_x ROps fuel A b eps uses_p_initial = Ok (d, ExitCond) ->
  length y = n -> (forall i, (i < n)%nat -> 0 <= nth i y 0) ->
  objR A b d - @tolerance ROps eps n * sumR y <= objR A b y.
Proof. exact positive_only_is_minimiser. Qed.
(* "whether or not the warm-start guess of the positive set is enabled": with an exact tolerance, any two starts
   (cold, sign-pattern mask, arbitrary mask) that leave through the loop condition return the same vector *)
Theorem C05_warm_start_irrelevant : forall n A b pinit1 pinit2 fuel1 fuel2 (d1 d2 : list R) P1 P2,
  wf n A b -> sym_mat n A -> pos_def n A ->
  (forall P0, pinit1 = Some P0 -> length P0 = n) -> (forall P0, pinit2 = Some P0 -> length P0 = n) ->
  @fnnls ROps fuel1 A b 0 pinit1 = Ok (d1, ExitCond, P1) ->
  @fnnls ROps fuel2 A b 0 pinit2 = Ok (d2, ExitCond, P2) ->
  d1 = d2.
Proof. exact warm_start_irrelevant. Qed.

(* ---- parameters forced to zero: they are zero, the others are the positive-only answer of the reduced system, whose
        gradient is the full-system gradient ---- *)
Theorem C05_forced_zero_reduced_system : forall n A b (eps : R) fuel set objs (s : list R),
  wf n A b -> 0 <= eps ->
  use_positive_only_solver set = true -> force_edge_pixels_to_zeros set = true ->
  @reconstruction ROps fuel set objs A b eps = Ok s ->
  let ids := ids_zeros_of set objs in
  let idx := kept_of n ids in
  exists x,
    @reconstruction_positive_only ROps fuel (@submat ROps A idx) (@gather ROps b idx) eps (positive_only_uses_p_initial set) = Ok x /\
    length s = n /\ length x = length idx /\
    (forall i, (i < n)%nat -> In i ids -> nth i s 0 = 0) /\
    (forall k, (k < length idx)%nat -> nth (nth k idx 0%nat) s 0 = nth k x 0) /\
    (forall k, (k < length idx)%nat ->
        gradR A b s (nth k idx 0%nat) = gradR (@submat ROps A idx) (@gather ROps b idx) x k).
Proof. exact forced_zero_reduced_system. Qed.
Theorem C05_kept_indices : forall n ids i, In i (kept_of n ids) <-> ((i < n)%nat /\ ~ In i ids).
Proof. exact kept_of_In. Qed.

(* ---- mapped reconstructed data ---- *)
Theorem C05_mapped_is_matrix_vector : forall (M : list (list R)) (s : list R),
  (forall r, In r M -> length r = length s) ->
  @mapped_via_mapping_matrix ROps M s = map (fun r => dotR r s) M.
Proof. exact mapped_is_matrix_vector. Qed.
Theorem C05_per_object_data_sums : forall npix (Bs : list (list (list R))) (s : list R),
  (forall B, In B Bs -> wfB npix B) -> length s = list_sum (widths Bs) ->
  @mapped_total ROps npix (@mapped_dict ROps Bs s) = @hstack_dot ROps Bs s npix.
Proof. exact per_object_data_sums. Qed.
(* w-tilde formalism: the loop over unique mappings is (the mapping matrix they stand for) x reconstruction *)
Theorem C05_unique_mappings_are_matrix_vector : forall (pix : list (list Z)) (wts : list (list R)) (lens : list nat) (s : list R),
  (forall prow wrow len, In (prow, wrow, len) (combine (combine pix wts) lens) ->
     forall p, (p < len)%nat -> (Z.to_nat (nth p prow 0%Z) < length s)%nat) ->
  @mapped_via_unique ROps pix wts lens s
  = map (fun pwl : (list Z * list R) * nat =>
           dotR (@unique_matrix_row ROps (fst (fst pwl)) (snd (fst pwl)) (snd pwl) (length s)) s)
        (combine (combine pix wts) lens).
Proof. exact mapped_via_unique_is_matrix_vector. Qed.
Theorem C05_reconstruction_dict_partitions : forall ps (s : list R), length s = list_sum ps ->
  concat (@split_by ROps ps s) = s /\ map (@length R) (@split_by ROps ps s) = ps.
Proof. exact split_by_concat. Qed.

(* ---- the Cholesky factor kept by fnnls_cholesky (Model/C05Chol.v, Proofs/C05Chol.v).  Vocabulary:
     shaped n U     U is an upper-triangular n x n factor with positive diagonal (rows stored from the diagonal on)
     gramR U i j    (U^T U)[i][j]
     delete_all     np.delete(v, indexes): all positions at once
   Contract of the solver state:  (U^T U)[i][j] = ZTZ[P_inorder[i]][P_inorder[j]].                                  ---- *)
(* _cholupdate(U, x) is the rank-one update  U'^T U' = U^T U + x x^T  and keeps the shape *)
Theorem C05_cholupdate_rank_one : forall U n (x : list R), shaped n U -> length x = n ->
  shaped n (@cholupdate ROps U x) /\
  forall i j, gramR (@cholupdate ROps U x) i j = gramR U i j + nth i x 0 * nth j x 0.
Proof. exact cholupdate_spec. Qed.

(* cholinsertlast(U, ZTZ[idmax][P_inorder]) after P_inorder = append(P_inorder, idmax) re-establishes the contract, whenever the
   number under the square root (the Schur complement of the new parameter) is positive *)
Theorem C05_cholinsertlast_contract : forall m U (Aij : nat -> nat -> R) (Pin : list nat) (idmax : nat),
  shaped m U -> length Pin = m -> (forall a b, Aij a b = Aij b a) ->
  (forall i j, (i < m)%nat -> (j < m)%nat -> gramR U i j = Aij (nth i Pin 0%nat) (nth j Pin 0%nat)) ->
  let Pin' := Pin ++ [idmax] in
  let x := map (Aij idmax) Pin' in
  let y := @fsubst ROps U (firstn m x) in
  0 < nth m x 0 - dotR y y ->
  let U' := @cholinsertlast ROps U x in
  shaped (S m) U' /\
  forall i j, (i < S m)%nat -> (j < S m)%nat -> gramR U' i j = Aij (nth i Pin' 0%nat) (nth j Pin' 0%nat).
Proof. exact cholinsertlast_contract_A. Qed.

(* choldeleteindexes(U, id_delete) with P_inorder = np.delete(P_inorder, id_delete) re-establishes the contract, for ANY set of
   positions given in ANY order (the routine sorts them, largest first; several deletions in one step included) *)
Theorem C05_choldeleteindexes_contract : forall n U indexes (Aij : nat -> nat -> R) (Pin : list nat),
  shaped n U -> NoDup indexes -> (forall k, In k indexes -> (k < n)%nat) -> length Pin = n ->
  (forall i j, (i < n)%nat -> (j < n)%nat -> gramR U i j = Aij (nth i Pin 0%nat) (nth j Pin 0%nat)) ->
  let U' := @choldeleteindexes ROps U indexes in
  let Pin' := delete_all indexes Pin in
  let n' := (n - length indexes)%nat in
  shaped n' U' /\
  forall i j, (i < n')%nat -> (j < n')%nat -> gramR U' i j = Aij (nth i Pin' 0%nat) (nth j Pin' 0%nat).
Proof. exact choldeleteindexes_contract. Qed.

(* deleting one position after the other, largest first, is np.delete(l, positions) -- the order that choldeleteindexes relies on *)
Theorem C05_descending_deletion_is_simultaneous : forall (ks : list nat) (l : list nat), desc ks ->
  remove_seq ks l = delete_all ks l.
Proof. exact (@remove_seq_desc nat). Qed.

(* ---- non-vacuity: a 2 x 2 SPD system whose unconstrained solution (5/3, -7/3) has a negative entry ---- *)
Definition exA : list (list R) := [[2; 1]; [1; 2]].
Definition exb : list R := [1; -3].
Definition exd : list R := [/ 2; 0].
Example C05_ex_wf : wf 2 exA exb.
Proof. unfold wf, exA, exb. repeat split. intros r [<-|[<-|[]]]; reflexivity. Qed.
Example C05_ex_sym : sym_mat 2 exA.
Proof.
  intros i j Hi Hj. assert (Ei : i = 0%nat \/ i = 1%nat) by lia. assert (Ej : j = 0%nat \/ j = 1%nat) by lia.
  destruct Ei as [-> | ->]; destruct Ej as [-> | ->]; reflexivity.
Qed.
Example C05_ex_pos_def : pos_def 2 exA.
Proof.
  intros [|x0 [|x1 [|x2 x]]] Hl Hx; try discriminate. destruct Hx as [i [Hi Hx]].
  unfold quadR, dotR, exA. cbn.
  assert (Ei : i = 0%nat \/ i = 1%nat) by lia.
  pose proof (Rle_0_sqr x0) as S0. pose proof (Rle_0_sqr x1) as S1. pose proof (Rle_0_sqr (x0 + x1)) as S2. unfold Rsqr in *.
  destruct Ei as [-> | ->]; cbn in Hx.
  - assert (0 < x0 * x0) by (destruct (Rtotal_order x0 0) as [H|[H|H]]; [nra|contradiction|nra]). nra.
  - assert (0 < x1 * x1) by (destruct (Rtotal_order x1 0) as [H|[H|H]]; [nra|contradiction|nra]). nra.
Qed.
Example C05_ex_kkt : KKT exA exb exd 0.
Proof.
  split; [reflexivity|]. intros i Hi. assert (Ei : i = 0%nat \/ i = 1%nat) by (cbn in Hi; lia).
  destruct Ei as [-> | ->]; unfold gradR, dotR, exA, exb, exd; cbn; repeat split; intros; lra.
Qed.
Example C05_ex_certificate_accepts : @kkt_ok ROps exA exb exd 0 = true.
Proof. apply C05_kkt_certificate_accepts; [lra|exact C05_ex_kkt]. Qed.
(* the vector a solver returns if it leaves before its first iteration: gradient -1 on the zero entry 0, rejected with tol = 1/2 *)
Example C05_ex_early_exit_rejected : @kkt_ok ROps exA exb [0; 0] (/ 2) = false.
Proof.
  apply (C05_certificate_rejects_negative_gradient exA exb [0; 0] (/ 2) 0%nat); [cbn; lia|reflexivity|].
  unfold gradR, dotR, exA, exb. cbn. lra.
Qed.
(* the hypotheses of C05_outer_entering_value_positive at the first outer step of the cold start on this system: idmax = 0, x = (1/2) *)
Example C05_ex_entering_hyp :
  Inv 2 exA exb [false; false] [] [0; 0] /\
  let w := @residual ROps exA exb [0; 0] in
  @keep_going ROps [false; false] w 0 = true /\
  @solve_sub ROps exA exb ([] ++ [@argmax ROps (map (fun wp : R * bool => mul ROps (fst wp) (if snd wp then @zero ROps else @one ROps)) (combine w [false; false]))])
    = Some [(1 - 0) / 2].
Proof.
  split.
  - constructor; try reflexivity.
    + constructor.
    + intros i. cbn. split; [intros []|]. intros [Hi Hc]. destruct i as [|[|i]]; cbn in Hc; try discriminate; lia.
    + intros i Hi _. destruct i as [|[|i]]; try reflexivity; lia.
    + intros i [].
  - cbv zeta. unfold exA, exb, residual, keep_going, solve_sub, solve. rexec. split; reflexivity.
Qed.
(* the model executed AT THE REALS on this system (symbolic evaluation, every comparison decided by lra): the hypothesis
   `fnnls ... = Ok (d, ExitCond, P)` of the KKT theorems is met, cold start and production warm start, and d = (1/2, 0) *)
Example C05_ex_fnnls_cold_R :
  exists d Pf, @fnnls ROps 3 exA exb 0 None = Ok (d, ExitCond, Pf) /\ nth 0 d 0 = / 2 /\ nth 1 d 0 = 0.
Proof.
  eexists. eexists. unfold fnnls, exA, exb. cbn [length]. unfold tolerance, ofNat. cbn [mul ofZ ROps Z.of_nat].
  rexec. split; [reflexivity|]. cbn. split; lra.
Qed.
Example C05_ex_positive_only_warm_R :
  exists d, @reconstruction_positive_only_x ROps 3 exA exb 0 true = Ok (d, ExitCond) /\ nth 0 d 0 = / 2 /\ nth 1 d 0 = 0.
Proof.
  eexists. unfold reconstruction_positive_only_x, fnnls, solve, exA, exb. cbn [length]. unfold tolerance, ofNat. cbn [mul ofZ ROps Z.of_nat].
  rexec. split; [reflexivity|]. cbn. split; lra.
Qed.
(* forced zeros: one mapper with 2 parameters whose pixel 0 is an edge pixel; the reduced system is 2 s1 = -3 -> s = (0, 0) ... with b = (1, 3): s = (0, 3/2) *)
Example C05_ex_forced_zero_R :
  exists s, @reconstruction ROps 3 (mkset true false true false [] true) [@mkobj ROps 2 true [0%nat] []] exA [1; 3] 0 = Ok s
            /\ nth 0 s 0 = 0 /\ nth 1 s 0 = 3 / 2.
Proof.
  eexists. unfold reconstruction, reconstruction_positive_only, reconstruction_positive_only_x, fnnls, exA.
  cbn [use_positive_only_solver force_edge_pixels_to_zeros force_edge_image_pixels_to_zeros positive_only_uses_p_initial].
  rexec. split; [reflexivity|]. cbn. split; lra.
Qed.
(* shapes for the mapped-data theorems: two objects with 2 and 1 parameters on 2 image pixels *)
Example C05_ex_mapped_shapes :
  let Bs := [[[1; 2]; [3; 4]]; [[5]; [6]]] : list (list (list R)) in
  (forall B, In B Bs -> wfB 2 B) /\ length [1; -1; 2] = list_sum (widths Bs).
Proof.
  cbn. split; [|reflexivity]. intros B [<-|[<-|[]]]; split; try reflexivity; intros r [<-|[<-|[]]]; reflexivity.
Qed.
Example C05_ex_unique_shapes :
  forall prow wrow len, In (prow, wrow, len) (combine (combine [[0; 1]; [1; -1]]%Z [[/ 2; / 2]; [1; 0]]) [2; 1]%nat) ->
    forall p, (p < len)%nat -> (Z.to_nat (nth p prow 0%Z) < length [3; 4])%nat.
Proof.
  intros prow wrow len [E|[E|[]]] p Hp; inversion E; subst; cbn.
  - destruct p as [|[|p]]; cbn; lia.
  - destruct p as [|p]; cbn; lia.
Qed.

(* the executable model, run on the same system with exact rationals: cold and warm start leave through the loop condition *)
Example C05_ex_model_cold :
  @fnnls QOps FUEL [[2; 1]; [1; 2]]%Q [1; -3]%Q (1 # 1000000000000000) None = Ok ([1 # 2; 0]%Q, ExitCond, [true; false]).
Proof. vm_compute. reflexivity. Qed.
Example C05_ex_model_warm :
  @reconstruction_positive_only_x QOps FUEL [[2; 1]; [1; 2]]%Q [1; -3]%Q (1 # 1000000000000000) true = Ok ([1 # 2; 0]%Q, ExitCond).
Proof. vm_compute. reflexivity. Qed.

(* the state in which the unrepaired code computed 0/0 (defect fixed in /repo d0dd2eb; witness A = [[3,3,3],[3,8,1],[3,1,8]], b = [6,9,9]):
   parameter 0 has just entered with d = 0 and its sub-solution is exactly 0: the step length is 0, d is unchanged, parameter 0 is deleted *)
Example C05_ex_fix_constraint_zero_step :
  match @fix_constraint QOps [[3; 3; 3]; [3; 8; 1]; [3; 1; 8]]%Q [6; 9; 9]%Q (1 # 1000000000000000)
          (@mkst QOps [true; true; true] [1; 2; 0]%nat [0; 1; 1]%Q [0; 1; 1]%Q) with
  | Ok st' => sP st' = [false; true; true] /\ sPin st' = [1; 2]%nat /\ sD st' = [0; 1; 1]%Q /\ sS st' = [0; 1; 1]%Q
  | Raise _ => False
  end.
Proof. vm_compute. repeat split. Qed.

(* non-vacuity of the Cholesky theorems: the factor [[2,1],[0,2]] of ZTZ[[0,1]][:,[0,1]] for ZTZ = [[4,2,2],[2,5,3],[2,3,6]] *)
Definition exZ (a b : nat) : R :=
  match a, b with
  | 0%nat, 0%nat => 4 | 0%nat, 1%nat => 2 | 0%nat, 2%nat => 2 | 1%nat, 0%nat => 2 | 1%nat, 1%nat => 5 | 1%nat, 2%nat => 3
  | 2%nat, 0%nat => 2 | 2%nat, 1%nat => 3 | 2%nat, 2%nat => 6 | _, _ => 0
  end.
Definition exU : list (list R) := [[2; 1]; [2]].
Example C05_ex_shaped : shaped 2 exU.
Proof. cbn. repeat split; lra. Qed.
Example C05_ex_chol_contract : forall i j, (i < 2)%nat -> (j < 2)%nat -> gramR exU i j = exZ (nth i [0; 1]%nat 0%nat) (nth j [0; 1]%nat 0%nat).
Proof.
  intros i j Hi Hj. assert (Ei : i = 0%nat \/ i = 1%nat) by lia. assert (Ej : j = 0%nat \/ j = 1%nat) by lia.
  destruct Ei as [-> | ->]; destruct Ej as [-> | ->]; unfold gramR, exU, exZ; cbn; lra.
Qed.
Example C05_ex_chol_sym : forall a b, exZ a b = exZ b a.
Proof. intros [|[|[|a]]] [|[|[|b]]]; reflexivity. Qed.
Example C05_ex_chol_insert_hyp :
  let x := map (exZ 2) ([0; 1]%nat ++ [2%nat]) in
  let y := @fsubst ROps exU (firstn 2 x) in 0 < nth 2 x 0 - dotR y y.
Proof. unfold exZ, exU, dotR. cbn. lra. Qed.
Example C05_ex_chol_delete_hyp : NoDup [2; 0]%nat /\ (forall k, In k [2; 0]%nat -> (k < 3)%nat) /\ shaped 3 [[2; 1; 1]; [2; 1]; [2]].
Proof.
  split; [repeat constructor; cbn; intuition lia|]. split; [intros k [<-|[<-|[]]]; lia|]. cbn. repeat split; lra.
Qed.
Example C05_ex_desc : desc [2; 0]%nat.
Proof. cbn. repeat split; intros x H; try destruct H as [<-|[]]; try lia; try contradiction. Qed.

Print Assumptions C05_solve_sound.
Print Assumptions C05_unconstrained_solves_or_raises.
Print Assumptions C05_kkt_on_normal_exit.
Print Assumptions C05_stationary_at_any_exit.
Print Assumptions C05_kkt_certificate_accepts.
Print Assumptions C05_positive_only_kkt.
Print Assumptions C05_positive_only_stationary.
Print Assumptions C05_positive_only_raises_only_inversion_exception.
Print Assumptions C05_kkt_implies_minimiser.
Print Assumptions C05_kkt_implies_unique_minimiser.
Print Assumptions C05_objective_is_model_objective.
Print Assumptions C05_forced_zero_reduced_system.
Print Assumptions C05_kept_indices.
Print Assumptions C05_mapped_is_matrix_vector.
Print Assumptions C05_per_object_data_sums.
Print Assumptions C05_reconstruction_dict_partitions.
Print Assumptions C05_positive_only_is_minimiser.
Print Assumptions C05_warm_start_irrelevant.
Print Assumptions C05_unique_mappings_are_matrix_vector.
Print Assumptions C05_cholupdate_rank_one.
Print Assumptions C05_cholinsertlast_contract.
Print Assumptions C05_choldeleteindexes_contract.
Print Assumptions C05_descending_deletion_is_simultaneous.
Print Assumptions C05_kkt_certificate_sound.
Print Assumptions C05_certified_output_is_minimiser.
Print Assumptions C05_certificate_rejects_negative_gradient.
Print Assumptions C05_entering_parameter_positive.
Print Assumptions C05_outer_entering_value_positive.
