From PAV Require Import Model.C06.
