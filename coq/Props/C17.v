(* C17 -- statements only. *)
From Coq Require Import ZArith List Bool Reals.
From PAV Require Import Base.Res Base.Check Base.NumOps Model.C17 Proofs.C17.
Import ListNotations.

Theorem C17_transform_applied_once : forall (O : NumOps) (A : Type) (tf : @grid O -> @grid O) (f : bool -> @grid O -> A) g,
  transform tf (transform tf f) false g = f true (tf g).
Proof. exact @transform_once. Qed.

Print Assumptions C17_transform_applied_once.
